(* M1 proofs, part 10: what the consumer reads WITHOUT the lock is stable under interference.
   In _retrieve the consumer looks at _jobs[0] and at its status before it takes the lock to pop it
   (check-then-act).  Layer A treats that iteration as one event.  The lemmas below are the rely/guarantee
   facts that justify it: while the consumer is between its unlocked reads and its locked pop (it has not
   asked for anything: want = false), no event of another thread -- caller dispatch, either section of any
   completion callback, stale ones included -- removes or replaces the head of the job queue, changes a status
   that is no longer Pending, or lowers the abort flag.  So whatever the consumer saw unlocked ("head is job j
   and j is done") still holds when it acts under the lock. *)
From Coq Require Import List Bool Arith Lia PeanoNat.
Require Import JV.Model.ParallelCore JV.Proofs.ParallelLemmas JV.Proofs.ParallelInv1 JV.Proofs.ParallelTrk
               JV.Proofs.ParallelInv2.
Import ListNotations.

(* events of threads other than the consumer, within a call *)
Definition interference (e : ev) : Prop :=
  match e with EDispatch _ | ECbStart _ _ | ECbFinish _ _ => True | _ => False end.

Definition head_kept (s s' : st) : Prop :=
  (forall j js, jobs s = j :: js -> exists js', jobs s' = j :: js') /\
  (forall t, t < length (trk s) -> status_of s t <> Pending -> status_of s' t = status_of s t) /\
  (aborting s = true -> aborting s' = true) /\
  length (trk s) <= length (trk s').

Lemma head_kept_refl s : head_kept s s.
Proof. repeat split; auto. intros j js E. exists js. exact E. Qed.

Lemma head_kept_trans a b c : head_kept a b -> head_kept b c -> head_kept a c.
Proof.
  intros (A1 & A2 & A3 & A4) (B1 & B2 & B3 & B4). repeat split.
  - intros j js E. destruct (A1 j js E) as [js' E']. exact (B1 j js' E').
  - intros t Ht Hs. rewrite (B2 t) by (try lia; rewrite (A2 t Ht Hs); exact Hs). apply A2; assumption.
  - auto.
  - lia.
Qed.

Lemma status_app_old tr k t : t < length tr -> status_in (tr ++ [k]) t = status_in tr t.
Proof. apply status_in_app_old. Qed.

Lemma head_kept_dispatch s b fo s' r : dispatch_shape s b fo s' r -> head_kept s s'.
Proof.
  intros H. inversion H; subst; try apply head_kept_refl.
  - (* from the look-ahead queue *)
    split; [|split; [|split]]; cbn [jobs trk aborting submit_state do_submit upd_dispatch].
    + intros j js E. rewrite E. destruct (is_ordered _); [exists (js ++ [length (trk s)]) | exists js]; reflexivity.
    + intros u Hu _. rewrite !status_of_fun. cbn [trk submit_state do_submit upd_dispatch]. apply status_app_old. exact Hu.
    + auto.
    + rewrite app_length. cbn [length]. lia.
  - (* the input raised *)
    split; [|split; [|split]]; cbn [jobs trk aborting do_iter_error].
    + intros j js E. rewrite E. exists (js ++ [length (trk s)]). reflexivity.
    + intros u Hu _. rewrite !status_of_fun. cbn [trk do_iter_error]. apply status_app_old. exact Hu.
    + auto.
    + rewrite app_length. cbn [length]. lia.
  - (* a new slice *)
    split; [|split; [|split]]; cbn [jobs trk aborting submit_state do_submit upd_dispatch].
    + intros j js E. rewrite E. destruct (is_ordered _); [exists (js ++ [length (trk s)]) | exists js]; reflexivity.
    + intros u Hu _. rewrite !status_of_fun. cbn [trk submit_state do_submit upd_dispatch]. apply status_app_old. exact Hu.
    + auto.
    + rewrite app_length. cbn [length]. lia.
Qed.

Lemma head_kept_flags s i o ph : head_kept s (set_flags s i o ph).
Proof. repeat split; auto. intros j js E. exists js. exact E. Qed.

Lemma head_kept_cb_start s t o : head_kept s (cb_start s t o).
Proof.
  unfold cb_start. destruct (get_trk s t) as [k|] eqn:Hk; [|apply head_kept_refl].
  destruct (negb (mem_id t (inflight s))); [apply head_kept_refl|].
  destruct (negb (tk_cid k =? cid s) || aborting s) eqn:Hd.
  - repeat split; auto. intros j js E. exists js. exact E.
  - apply orb_false_iff in Hd as [_ Hab].
    destruct (tk_status k) eqn:Hst; cbn [orb].
    + (* the tracker was pending: its status is written, nobody else's *)
      repeat split; cbn [jobs trk aborting].
      * intros j js E. rewrite E. destruct (is_ordered s); [exists js | exists (js ++ [t])]; reflexivity.
      * intros u Hu Hs. rewrite !status_of_fun. cbn [trk]. rewrite set_status_eq.
        destruct (Nat.eq_dec t u) as [<-|Hne].
        -- exfalso. apply Hs. unfold status_of. rewrite Hk. exact Hst.
        -- apply status_in_set_status_neq. exact Hne.
      * rewrite Hab. discriminate.
      * rewrite set_status_eq, set_status_in_length. lia.
    + repeat split; auto. intros j js E. exists js. exact E.
    + repeat split; auto. intros j js E. exists js. exact E.
Qed.

Lemma head_kept_cb_finish s t b : 1 <= n_jobs (c s) -> 1 <= b -> head_kept s (cb_finish true s t b).
Proof.
  intros Hnj Hb. unfold cb_finish. destruct (get_trk s t) as [k|]; [|apply head_kept_refl].
  destruct (negb (mem_id t (cbmid s))); [apply head_kept_refl|].
  destruct (true && negb (tk_cid k =? cid s)).
  - repeat split; auto. intros j js E. exists js. exact E.
  - set (s1 := mark_closed _ t).
    assert (H1 : head_kept s s1) by (repeat split; auto; intros j js E; exists js; exact E).
    destruct (orig s1); [|exact H1].
    assert (Hnj1 : 1 <= n_jobs (c s1)) by exact Hnj.
    pose proof (dispatch_one_batch_shape s1 b true Hnj1 Hb) as Hsh.
    destruct (dispatch_one_batch s1 b true) as [s2 r]. cbn [fst snd] in Hsh.
    pose proof (head_kept_dispatch _ _ _ _ _ Hsh) as H2.
    destruct r; [exact (head_kept_trans _ _ _ H1 H2)|].
    exact (head_kept_trans _ _ _ H1 (head_kept_trans _ _ _ H2 (head_kept_flags s2 false false (phase s2)))).
Qed.

(* the consumer is not asking (it is between its unlocked reads and its locked pop): try_advance is the identity *)
Theorem unlocked_reads_are_stable s e : reach s -> wf_ev e -> interference e -> want s = false ->
  head_kept s (fst (step true s e)).
Proof.
  intros Hr Hwf Hi Hw. destruct (reach_inv12 s Hr) as [H1 _].
  assert (Hnj : 1 <= n_jobs (c s)) by (destruct H1 as [[A _] _ _ _ _]; exact A).
  assert (Hraw : head_kept s (fst (step_raw true s e)) /\ want (fst (step_raw true s e)) = want s /\
                 snd (step_raw true s e) = None).
  { destruct e as [cf n f|b|t o|t b| | | |b0]; try destruct Hi; cbn [step_raw].
    - cbn [wf_ev] in Hwf. destruct (phase s) eqn:Hph; cbn [fst snd]; try (split; [apply head_kept_refl | auto]).
      + pose proof (dispatch_one_batch_shape s b false Hnj Hwf) as Hsh.
        destruct (dispatch_one_batch s b false) as [s1 r]. cbn [fst snd] in Hsh.
        pose proof (head_kept_dispatch _ _ _ _ _ Hsh) as H2.
        assert (Ew : want s1 = want s) by (inversion Hsh; subst; reflexivity).
        destruct (aborting _); cbn [fst snd]; (split; [|split; [exact Ew | reflexivity]]);
          unfold end_start; eapply head_kept_trans; try exact H2; try apply head_kept_flags.
        eapply head_kept_trans; apply head_kept_flags.
      + pose proof (dispatch_one_batch_shape s b false Hnj Hwf) as Hsh.
        destruct (dispatch_one_batch s b false) as [s1 r]. cbn [fst snd] in Hsh.
        pose proof (head_kept_dispatch _ _ _ _ _ Hsh) as H2.
        assert (Ew : want s1 = want s) by (inversion Hsh; subst; reflexivity).
        destruct r; [destruct (aborting s1)|]; cbn [fst snd]; (split; [|split; [exact Ew | reflexivity]]);
          try exact H2; unfold end_start; eapply head_kept_trans; try exact H2; apply head_kept_flags.
    - cbn [fst snd]. split; [apply head_kept_cb_start|]. split; [|reflexivity].
      unfold cb_start. destruct (get_trk s t); [|reflexivity].
      destruct (negb (mem_id t (inflight s))); [reflexivity|].
      destruct (negb (tk_cid t0 =? cid s) || aborting s); reflexivity.
    - cbn [fst snd]. cbn [wf_ev] in Hwf. split; [apply head_kept_cb_finish; assumption|]. split; [|reflexivity].
      unfold cb_finish. destruct (get_trk s t) as [k|]; [|reflexivity].
      destruct (negb (mem_id t (cbmid s))); [reflexivity|].
      destruct (true && negb (tk_cid k =? cid s)); [reflexivity|].
      set (s1 := mark_closed _ t). destruct (orig s1); [|reflexivity].
      assert (Hnj1 : 1 <= n_jobs (c s1)) by exact Hnj.
      pose proof (dispatch_one_batch_shape s1 b true Hnj1 Hwf) as Hsh.
      destruct (dispatch_one_batch s1 b true) as [s2 r]. cbn [fst snd] in Hsh.
      assert (Ew : want s2 = want s1) by (inversion Hsh; subst; reflexivity).
      destruct r; cbn [want set_flags]; exact Ew. }
  destruct Hraw as (Hk & Hw1 & Hn). unfold step.
  destruct (step_raw true s e) as [s1 o1]. cbn [fst snd] in *. subst o1.
  unfold try_advance. rewrite Hw1, Hw. cbn [fst]. exact Hk.
Qed.
