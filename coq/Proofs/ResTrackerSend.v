(* What ResourceTracker._send writes is read back by main() as the same request, for every name. *)
From Coq Require Import ZArith List Bool Lia ZifyBool.
Require Import JV.Model.ResTracker JV.Proofs.ResTracker.
Import ListNotations.
Open Scope Z_scope.

Lemma lstrip_nonws : forall b t, is_ws b = false -> lstrip (b :: t) = b :: t.
Proof. intros b t H. cbn [lstrip]. rewrite H. reflexivity. Qed.

Lemma rstrip_snoc_ws : forall s b, is_ws b = true -> rstrip (s ++ [b]) = rstrip s.
Proof. intros s b H. unfold rstrip. rewrite rev_unit. cbn [lstrip]. rewrite H. reflexivity. Qed.

Lemma rstrip_snoc_nonws : forall s b, is_ws b = false -> rstrip (s ++ [b]) = s ++ [b].
Proof.
  intros s b H. unfold rstrip. rewrite rev_unit. cbn [lstrip]. rewrite H. cbn [rev]. rewrite rev_involutive. reflexivity.
Qed.

Lemma is_ascii_app : forall a b, is_ascii (a ++ b) = is_ascii a && is_ascii b.
Proof. intros. unfold is_ascii. apply forallb_app. Qed.

Lemma split_no_colon : forall s, no_colon s -> split_colon s = [s].
Proof.
  induction s as [|b t IH]; intros N; [reflexivity|]. cbn [split_colon]. rewrite IH by (intros H; apply N; right; exact H).
  destruct (b =? 58) eqn:E; [exfalso; apply N; left; lia | reflexivity].
Qed.

Lemma split_prefix : forall c rest, no_colon c -> split_colon (c ++ 58 :: rest) = c :: split_colon rest.
Proof.
  induction c as [|b t IH]; intros rest N.
  - cbn [app split_colon]. destruct (split_colon_spec rest) as (h & r & E & _). rewrite E. reflexivity.
  - cbn [app split_colon]. rewrite IH by (intros H; apply N; right; exact H).
    destruct (b =? 58) eqn:E; [exfalso; apply N; left; lia | reflexivity].
Qed.

Lemma split_suffix : forall n t, no_colon t -> split_colon (n ++ 58 :: t) = split_colon n ++ [t].
Proof.
  induction n as [|b n IH]; intros t N.
  - cbn [app split_colon]. rewrite split_no_colon by exact N. reflexivity.
  - cbn [app split_colon]. rewrite IH by exact N.
    destruct (split_colon_spec n) as (h & r & E & _). rewrite E. cbn [app]. destruct (b =? 58); reflexivity.
Qed.

Lemma join_split : forall s, join_colon (split_colon s) = s.
Proof. intros s. destruct (split_colon_spec s) as (h & r & E & _ & _ & J). rewrite E. exact J. Qed.

Lemma last_cons_snoc : forall (x : bytes) l y, last (x :: l ++ [y]) [] = y.
Proof. intros. change (x :: l ++ [y]) with ((x :: l) ++ [y]). apply last_last. Qed.

(* the general statement: a command and a type without colon or surrounding whitespace, any ASCII name *)
Lemma parse_client_line : forall c0 cmd' rt' c1 name,
  let cmd := c0 :: cmd' in let rt := rt' ++ [c1] in
  is_ws c0 = false -> is_ws c1 = false -> no_colon cmd -> no_colon rt ->
  is_ascii cmd = true -> is_ascii rt = true -> is_ascii name = true ->
  parse (cmd ++ 58 :: name ++ 58 :: rt ++ [10]) = PFields cmd name rt.
Proof.
  intros c0 cmd' rt' c1 name cmd rt W0 W1 Nc Nt Ac At An. unfold parse, strip.
  assert (L : lstrip (cmd ++ 58 :: name ++ 58 :: rt ++ [10]) = cmd ++ 58 :: name ++ 58 :: rt ++ [10])
    by (unfold cmd; cbn [app]; apply lstrip_nonws; exact W0).
  rewrite L.
  assert (R : rstrip (cmd ++ 58 :: name ++ 58 :: rt ++ [10]) = cmd ++ 58 :: name ++ 58 :: rt).
  { replace (cmd ++ 58 :: name ++ 58 :: rt ++ [10]) with ((cmd ++ 58 :: name ++ 58 :: rt) ++ [10])
      by (rewrite <- !app_assoc; cbn [app]; rewrite <- !app_assoc; reflexivity).
    rewrite rstrip_snoc_ws by reflexivity. unfold rt.
    replace (cmd ++ 58 :: name ++ 58 :: rt' ++ [c1]) with ((cmd ++ 58 :: name ++ 58 :: rt') ++ [c1])
      by (rewrite <- !app_assoc; cbn [app]; rewrite <- !app_assoc; reflexivity).
    apply rstrip_snoc_nonws. exact W1. }
  rewrite R.
  assert (A : is_ascii (cmd ++ 58 :: name ++ 58 :: rt) = true).
  { rewrite is_ascii_app, Ac. cbn [andb]. change (58 :: name ++ 58 :: rt) with ([58] ++ name ++ [58] ++ rt).
    rewrite !is_ascii_app, An, At. reflexivity. }
  rewrite A. rewrite split_prefix by exact Nc. rewrite split_suffix by exact Nt.
  cbn [hd tl]. rewrite removelast_last, join_split.
  rewrite last_cons_snoc. reflexivity.
Qed.

Lemma rtype_of_name : forall t, rtype_of (rtype_name t) = Some t.
Proof. intros []; reflexivity. Qed.

Definition starts_nonws (s : bytes) : bool := match s with [] => false | b :: _ => negb (is_ws b) end.
Definition ends_nonws (s : bytes) : bool := match s with [] => false | _ => negb (is_ws (last s 32)) end.
Definition no_colonb (s : bytes) : bool := forallb (fun b => negb (b =? 58)) s.

Lemma no_colonb_spec : forall s, no_colonb s = true -> no_colon s.
Proof.
  intros s H I. unfold no_colonb in H. rewrite forallb_forall in H. specialize (H 58 I). discriminate.
Qed.

Lemma parse_client_line_b : forall cmd rt name,
  starts_nonws cmd = true -> ends_nonws rt = true -> no_colonb cmd = true -> no_colonb rt = true ->
  is_ascii cmd = true -> is_ascii rt = true -> is_ascii name = true ->
  parse (cmd ++ 58 :: name ++ 58 :: rt ++ [10]) = PFields cmd name rt.
Proof.
  intros cmd rt name S E Nc Nt Ac At An.
  destruct cmd as [|c0 cmd']; [discriminate|].
  destruct rt as [|r0 rt0]; [discriminate|].
  assert (NE : r0 :: rt0 <> []) by discriminate.
  pose proof (app_removelast_last 32 NE) as D. unfold ends_nonws in E.
  rewrite D in *. set (rt' := removelast (r0 :: rt0)) in *. set (c1 := last (r0 :: rt0) 32) in *.
  apply parse_client_line; auto using no_colonb_spec.
  - cbn in S. destruct (is_ws c0); [discriminate | reflexivity].
  - destruct (rt' ++ [c1]) eqn:Q; [destruct rt'; discriminate|]. rewrite <- Q in E.
    rewrite last_last in E. destruct (is_ws c1); [discriminate | reflexivity].
Qed.

Lemma parse_client_msg : forall cmd name t,
  cmd = b_REGISTER \/ cmd = b_UNREGISTER \/ cmd = b_MAYBE_UNLINK -> is_ascii name = true ->
  parse (client_msg cmd name t) = PFields cmd name (rtype_name t).
Proof.
  intros cmd name t C A. unfold client_msg.
  destruct C as [C | [C | C]]; subst cmd; destruct t; apply parse_client_line_b; try reflexivity; exact A.
Qed.

Lemma classify_client_msg : forall name t, is_ascii name = true ->
  classify (client_msg b_REGISTER name t) = QRegister t name /\
  classify (client_msg b_UNREGISTER name t) = QUnregister t name /\
  classify (client_msg b_MAYBE_UNLINK name t) = QMaybeUnlink t name.
Proof.
  intros name t A. unfold classify. rewrite !parse_client_msg by auto. rewrite rtype_of_name. repeat split.
Qed.

(* one message = one line: readline does not cut it, provided the name holds no newline *)
Lemma readlines_one : forall s, ~ In 10 s -> readlines (s ++ [10]) = [s ++ [10]].
Proof.
  induction s as [|b t IH]; intros N; [reflexivity|]. cbn [app readlines].
  destruct (b =? 10) eqn:E; [exfalso; apply N; left; lia|]. rewrite IH by (intros H; apply N; right; exact H). reflexivity.
Qed.
