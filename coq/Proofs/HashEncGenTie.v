(* C08: the constants Model/HashEnc.v and Model/HashEncX.v copy by hand are EQUAL to the ones
   regenerated on every run from joblib/hashing.py (AST) and from the pickle module of the
   implementation interpreter (Gen/C08_Constants.v).  If the source changes one of them this file
   stops compiling and the check reports the broken obligation. *)
From Coq Require Import ZArith List Bool.
Require Import JV.Model.HashEnc JV.Model.HashEncX JV.Gen.C08_Constants.
Import ListNotations.
Open Scope Z_scope.

Definition model_ops : list op :=
  [OProto; OStop; ONone; OTrue; OFalse; OBinInt1 0; OBinInt2 0; OBinInt 0; OLong1 []; OLong4 []; OBinFloat 0;
   OBinUnicode []; OShortBinBytes []; OBinBytes []; OEmptyTuple; OTuple1; OTuple2; OTuple3; OMark; OTuple;
   OEmptyList; OAppend; OAppends; OEmptyDict; OSetItem; OSetItems; OBinPut 0; OLongBinPut 0; OBinGet 0;
   OLongBinGet 0; OGlobal false; ONewObj; OBuild].

Lemma gen_tie :
  map (fun o => hd 0 (ser o)) model_ops = g_opcodes /\
  ser OProto = [g_PROTO; g_protocol] /\
  hd 0 (nser (NGlobal [])) = g_GLOBAL /\ nser NPop = [g_POP] /\ nser NPopMark = [g_POP_MARK] /\
  Z.of_nat BATCHSIZE = g_batchsize /\
  name_module ++ name_set = g_set_global /\ name_module ++ name_fset = g_fset_global /\
  g_set_global = g_live_set_global /\ g_fset_global = g_live_fset_global /\
  name_sequence = g_sequence_attr /\ tag_hashed = g_tag_hashed /\ tag_dtype = g_tag_dtype /\
  (* Hasher.memoize skips exactly bytes and str: VStr / VBytes are never memoised in the model *)
  g_memoize_skips = [[98; 121; 116; 101; 115]; [115; 116; 114]] /\
  (* dispatch[type(set())] = save_set ; dispatch[frozenset] = save_frozenset *)
  map snd g_dispatch = [[115; 97; 118; 101; 95; 115; 101; 116]; [115; 97; 118; 101; 95; 102; 114; 111; 122; 101; 110; 115; 101; 116]] /\
  (* joblib.hash defaults to md5: the digest fallback of the model uses md5 whatever the outer algorithm *)
  g_default_hash_name = [109; 100; 53] /\ length g_valid_hash_names = 2%nat /\
  g_pickler_is_pure_python = true.
Proof. repeat split; reflexivity. Qed.
