(* The statement lists the model interprets are the ones regenerated from the live source. *)
From Coq Require Import List.
Require Import JV.Model.FsModel JV.Gen.T_store_ops.
Import ListNotations.

Lemma store_ops_match :
  gen_dump_item = dump_item_src /\ gen_store_metadata = store_metadata_src /\
  gen_store_code = store_code_src /\ gen_csw = csw_src /\ gen_tmpname = tmpname_src.
Proof. repeat split; reflexivity. Qed.
