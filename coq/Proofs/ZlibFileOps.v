(* One refinement theorem per operation of BinaryZlibFile / BinaryGzipFile: in every state related to a
   state (position, closed flag) of the abstract byte stream over the payload, the operation returns what
   the abstract stream returns and the states stay related.  Corollaries of Proofs/ZlibFile.step_sim. *)
From Coq Require Import ZArith List Bool Lia ZifyBool.
Require Import JV.Base.PyPrelude JV.Model.ZlibFile JV.Proofs.ZlibFileLists JV.Proofs.ZlibFile JV.Gen.C13_Constants.
Import ListNotations.
Open Scope Z_scope.

Section Ops.
Variable s : script.
Let file := file_of s.
Let D := payload s.
Variable F : nat.
Hypothesis fuel_ok : (fuel_for file <= F)%nat.

Lemma LF : (length file + 3 <= F)%nat.
Proof. unfold fuel_for in fuel_ok. exact fuel_ok. Qed.

(* the file object as opened is related to the abstract stream at position 0 *)
Lemma op_open : Sim s (init_state file) ref_init.
Proof. unfold Sim. cbn [rclosed ref_init]. split; [apply Inv_init|reflexivity]. Qed.

Section Open.
Variables (st : rstate) (rs : refst).
Hypothesis related : Sim s st rs.
Hypothesis is_open : rclosed rs = false.

Ltac by_step OP :=
  match goal with |- exists st', ?lhs = Some (?r, st') /\ Sim s st' ?rs' =>
    apply (step_sim s F OP st rs r rs' LF related) end.

(* read(n), n > 0: the next min(n, remaining) bytes; the position advances by that many *)
Lemma op_read_n n : 0 < n ->
  let d := zfirstn n (zskipn (rpos rs) D) in
  exists st', do_read fill_buffer F n st = Some (VBytes d, st') /\ Sim s st' (mkRef (rpos rs + len d) false).
Proof.
  intros Hn d. by_step (ORead n). unfold ref_step. rewrite is_open.
  replace (n =? 0) with false by lia. replace (n <? 0) with false by lia. reflexivity.
Qed.

(* read() / read(-1): everything up to the end; the position becomes the length *)
Lemma op_read_all n : n < 0 ->
  exists st', do_read fill_buffer F n st = Some (VBytes (zskipn (rpos rs) D), st') /\
              Sim s st' (mkRef (len D) false).
Proof.
  intros Hn. by_step (ORead n). unfold ref_step. rewrite is_open.
  replace (n =? 0) with false by lia. replace (n <? 0) with true by lia. reflexivity.
Qed.

Lemma op_read_zero :
  exists st', do_read fill_buffer F 0 st = Some (VBytes [], st') /\ Sim s st' rs.
Proof. by_step (ORead 0). unfold ref_step. rewrite is_open. reflexivity. Qed.

(* readinto(b), len(b) = n > 0: same bytes as read(n), stored into b[:k], returns k *)
Lemma op_readinto n : 0 < n ->
  let d := zfirstn n (zskipn (rpos rs) D) in
  exists st', do_readinto fill_buffer F n st = Some (VInto d, st') /\ Sim s st' (mkRef (rpos rs + len d) false).
Proof.
  intros Hn d. by_step (OReadinto n). unfold ref_step. rewrite is_open.
  replace (n =? 0) with false by lia. replace (n <? 0) with false by lia. reflexivity.
Qed.

(* seek(k, 0), k >= 0: forwards, backwards (rewind + skip) or beyond the end (clamped) *)
Lemma op_seek_set k : 0 <= k ->
  let p := Z.min k (len D) in
  exists st', do_seek fill_buffer F file k 0 st = Some (VInt p, st') /\ Sim s st' (mkRef p false).
Proof.
  intros Hk p. by_step (OSeek k 0). unfold ref_step. rewrite is_open. cbn [Z.eqb orb].
  replace (k <? 0) with false by lia. reflexivity.
Qed.

(* seek(k, 1) with pos + k >= 0 *)
Lemma op_seek_cur k : 0 <= rpos rs + k ->
  let p := Z.min (rpos rs + k) (len D) in
  exists st', do_seek fill_buffer F file k 1 st = Some (VInt p, st') /\ Sim s st' (mkRef p false).
Proof.
  intros Hk p. by_step (OSeek k 1). unfold ref_step. rewrite is_open. cbn [Z.eqb Pos.eqb orb].
  replace (rpos rs + k <? 0) with false by lia. reflexivity.
Qed.

(* seek(k, 2) with len + k >= 0 (the size is found by reading to the end when it is not known yet) *)
Lemma op_seek_end k : 0 <= len D + k ->
  let p := Z.min (len D + k) (len D) in
  exists st', do_seek fill_buffer F file k 2 st = Some (VInt p, st') /\ Sim s st' (mkRef p false).
Proof.
  intros Hk p. by_step (OSeek k 2). unfold ref_step. rewrite is_open. cbn [Z.eqb Pos.eqb orb].
  unfold D in Hk. destruct (len (payload s) + k <? 0) eqn:E; [lia|reflexivity].
Qed.

Lemma op_seek_bad_whence k w : w <> 0 -> w <> 1 -> w <> 2 ->
  exists st', do_seek fill_buffer F file k w st = Some (VExc ValueError, st') /\ Sim s st' rs.
Proof.
  intros H0 H1 H2. by_step (OSeek k w). unfold ref_step. rewrite is_open.
  replace (w =? 0) with false by lia. replace (w =? 1) with false by lia. replace (w =? 2) with false by lia.
  reflexivity.
Qed.

Lemma op_tell : do_tell st = (VInt (rpos rs), st).
Proof.
  destruct (step_sim s F OTell st rs (VInt (rpos rs)) rs LF related) as (st' & H & _).
  - unfold ref_step. rewrite is_open. reflexivity.
  - cbn [step] in H. injection H as H. rewrite H. f_equal.
    unfold do_tell in H. destruct (check_not_closed st); injection H as _ H; congruence.
Qed.

Lemma op_close :
  exists st', do_close st = (VNone, st') /\ Sim s st' (mkRef (rpos rs) true).
Proof.
  destruct (step_sim s F OClose st rs VNone (mkRef (rpos rs) true) LF related) as (st' & H & S').
  - unfold ref_step. rewrite is_open. reflexivity.
  - exists st'. cbn [step] in H. injection H as H. split; assumption.
Qed.

(* write() on a file opened for reading *)
Lemma op_write_unsupported : do_write_r st = (VExc UnsupportedOperation, st).
Proof.
  destruct (step_sim s F OWrite st rs (VExc UnsupportedOperation) rs LF related) as (st' & H & _).
  - unfold ref_step. rewrite is_open. reflexivity.
  - cbn [step] in H. injection H as H. rewrite H. f_equal.
    unfold do_write_r in H. destruct (check_can_write_r st); injection H as _ H; congruence.
Qed.

Lemma op_queries :
  do_query QClosed st = (VBool false, st) /\ do_query QReadable st = (VBool true, st) /\
  do_query QWritable st = (VBool false, st) /\ do_query QSeekable st = (VBool true, st) /\
  do_flush st = (VNone, st).
Proof.
  unfold Sim in related. rewrite is_open in related. destruct related as [I _].
  pose proof (Inv_reading s st I) as R. unfold do_query, do_flush, check_not_closed.
  destruct (mode st); try discriminate; repeat split; reflexivity.
Qed.
End Open.

(* after close(): every operation raises ValueError, close() is idempotent, `closed` is True,
   flush() silently returns None (IOBase.flush does not see BinaryZlibFile's own closed state) *)
Lemma op_closed st rs : Sim s st rs -> rclosed rs = true ->
  (forall n, do_read fill_buffer F n st = Some (VExc ValueError, st)) /\
  (forall n, do_readinto fill_buffer F n st = Some (VExc ValueError, st)) /\
  (forall k w, do_seek fill_buffer F file k w st = Some (VExc ValueError, st)) /\
  do_tell st = (VExc ValueError, st) /\ do_write_r st = (VExc ValueError, st) /\
  do_close st = (VNone, st) /\ do_query QClosed st = (VBool true, st) /\
  do_query QReadable st = (VExc ValueError, st) /\ do_query QWritable st = (VExc ValueError, st) /\
  do_query QSeekable st = (VExc ValueError, st) /\ do_flush st = (VNone, st).
Proof.
  intros S C. unfold Sim in S. rewrite C in S.
  unfold do_read, do_readinto, do_read, do_seek, do_tell, do_close, do_write_r, do_query, do_flush, check_can_seek,
    check_can_read, check_can_write_r, check_not_closed. rewrite S. cbn [is_reading].
  repeat split; reflexivity.
Qed.
End Ops.

(* ------------------------------------------------------------------ write mode, one lemma per operation *)
Section WOps.
Variable C : Type.
Variable compress : C -> bytes -> C * bytes.
Variable flush : C -> bytes.
Notation wstep' := (wstep C compress flush).

Lemma wop_write st d : wmode C st = MWrite ->
  wstep' (WWrite d) st =
  (VInt (len d), mkW C MWrite (wpos C st + len d) (fst (compress (wc C st) d))
                     (wfile C st ++ snd (compress (wc C st) d))).
Proof.
  intros M. cbn [wstep]. unfold w_check_can_write. rewrite M.
  destruct (compress (wc C st) d) as [c' out]. reflexivity.
Qed.

Lemma wop_tell st : wmode C st = MWrite -> wstep' WTell st = (VInt (wpos C st), st).
Proof. intros M. cbn [wstep]. unfold w_check_not_closed. rewrite M. reflexivity. Qed.

Lemma wop_close st : wmode C st = MWrite ->
  wstep' WClose st = (VNone, mkW C MClosed (wpos C st) (wc C st) (wfile C st ++ flush (wc C st))).
Proof. intros M. cbn [wstep]. rewrite M. reflexivity. Qed.

Lemma wop_unsupported st : wmode C st = MWrite ->
  wstep' WRead st = (VExc UnsupportedOperation, st) /\ wstep' WSeek st = (VExc UnsupportedOperation, st).
Proof. intros M. cbn [wstep]. unfold w_check_can_read, w_check_not_closed. rewrite M. split; reflexivity. Qed.

Lemma wop_queries st : wmode C st = MWrite ->
  wstep' (WQuery QClosed) st = (VBool false, st) /\ wstep' (WQuery QReadable) st = (VBool false, st) /\
  wstep' (WQuery QWritable) st = (VBool true, st) /\ wstep' (WQuery QSeekable) st = (VBool false, st) /\
  wstep' WFlush st = (VNone, st).
Proof. intros M. cbn [wstep]. unfold w_check_not_closed. rewrite M. repeat split; reflexivity. Qed.

Lemma wop_closed st : wmode C st = MClosed ->
  (forall d, wstep' (WWrite d) st = (VExc ValueError, st)) /\
  wstep' WTell st = (VExc ValueError, st) /\ wstep' WRead st = (VExc ValueError, st) /\
  wstep' WSeek st = (VExc ValueError, st) /\ wstep' WClose st = (VNone, st) /\
  wstep' (WQuery QClosed) st = (VBool true, st) /\ wstep' (WQuery QWritable) st = (VExc ValueError, st) /\
  wstep' (WQuery QReadable) st = (VExc ValueError, st) /\ wstep' WFlush st = (VNone, st).
Proof.
  intros M. cbn [wstep]. unfold w_check_can_write, w_check_can_read, w_check_not_closed. rewrite M.
  cbn [is_reading]. repeat split; reflexivity.
Qed.
End WOps.

(* ------------------------------------------------------------------ _read_bytes over a BinaryZlibFile *)
(* numpy_pickle_utils._read_bytes(fp, size) with fp a BinaryZlibFile in a state related to the abstract
   stream at position p: exactly the next `size` bytes when the stream holds them, ValueError (with the
   stream consumed to its end) when it does not -- never a short or a wrong answer; two turns of the loop
   suffice. *)
Lemma read_bytes_zfile s F st rs sz fuel :
  (fuel_for (file_of s) <= F)%nat -> Sim s st rs -> rclosed rs = false -> 0 <= sz -> (2 <= fuel)%nat ->
  let D := payload s in
  exists st',
    read_bytes rstate (zread F) fuel sz st =
      Some (if sz <=? len D - rpos rs then Ok (zfirstn sz (zskipn (rpos rs) D)) else Raise ValueError, st') /\
    Sim s st' (mkRef (if sz <=? len D - rpos rs then rpos rs + sz else len D) false).
Proof.
  intros LF S C Hsz Hf D.
  assert (Hpos : 0 <= rpos rs <= len D).
  { unfold Sim in S. rewrite C in S. destruct S as [I P]. pose proof (inv_pos _ _ I). pose proof (inv_len _ _ I).
    pose proof (zl_len_nonneg (remaining st)). fold D in H0. lia. }
  destruct fuel as [|[|fuel]]; try lia. unfold read_bytes. cbn [read_bytes_loop]. rewrite zl_len_nil, Z.sub_0_r.
  destruct (Z.eq_dec sz 0) as [->|Hnz].
  - (* size 0 *)
    destruct (op_read_zero s F LF st rs S C) as (st' & H1 & S1). unfold zread at 1. rewrite H1. cbn [app].
    rewrite zl_len_nil. cbn [Z.eqb orb]. exists st'. replace (0 <=? len D - rpos rs) with true by lia.
    rewrite zfirstn_0, Z.add_0_r. split; [reflexivity|]. destruct rs as [p c]. cbn [rpos rclosed] in *. subst c. exact S1.
  - destruct (op_read_n s F LF st rs S C sz) as (st1 & H1 & S1); [lia|]. cbv zeta in H1, S1. fold D in H1, S1.
    unfold zread at 1. rewrite H1. cbn [app].
    set (d := zfirstn sz (zskipn (rpos rs) D)) in *.
    assert (Ld : len d = Z.min sz (len D - rpos rs)).
    { unfold d. rewrite len_zfirstn, len_zskipn by lia. lia. }
    destruct (sz <=? len D - rpos rs) eqn:E.
    + apply Z.leb_le in E. assert (L : len d = sz) by lia.
      replace ((len d =? 0) || (len d =? sz)) with true by lia. replace (len d =? sz) with true by lia.
      exists st1. split; [reflexivity|]. rewrite <- L. exact S1.
    + apply Z.leb_gt in E. assert (L : len d = len D - rpos rs) by lia.
      replace (len d =? sz) with false by lia. rewrite orb_false_r.
      destruct (len d =? 0) eqn:E0.
      * exists st1. split; [cbv beta iota; replace (len d =? sz) with false by lia; reflexivity|].
        replace (rpos rs + len d) with (len D) in S1 by lia. exact S1.
      * (* second turn: the stream is at its end, read returns b'' *)
        replace (rpos rs + len d) with (len D) in S1 by lia.
        destruct (op_read_n s F LF st1 (mkRef (len D) false) S1 eq_refl (sz - len d)) as (st2 & H2 & S2); [lia|].
        cbv zeta in H2, S2. cbn [rpos] in H2, S2. fold D in H2, S2.
        rewrite (zskipn_all (len D) D) in H2, S2 by lia. rewrite zfirstn_nil in H2, S2.
        unfold zread. rewrite H2. rewrite app_nil_r. cbn [len length Z.of_nat Z.eqb orb].
        replace (len d =? sz) with false by lia. cbn [orb]. cbv beta iota.
        replace (len d =? sz) with false by lia.
        exists st2. split; [reflexivity|]. rewrite Z.add_0_r in S2. exact S2.
Qed.

(* ------------------------------------------------------------------ readline *)
Lemma zfirstn_cons {A} n (x : A) l : 1 <= n -> zfirstn n (x :: l) = x :: zfirstn (n - 1) l.
Proof.
  intros H. unfold zfirstn. replace (Z.to_nat n) with (S (Z.to_nat (n - 1))) by lia. reflexivity.
Qed.
Lemma zskipn_succ {A} p (D : list A) x R : 0 <= p -> zskipn p D = x :: R -> zskipn (p + 1) D = R.
Proof.
  intros Hp H. rewrite <- (zskipn_zskipn 1 p D) by lia. rewrite H. reflexivity.
Qed.

Lemma readline_loop_spec s F : (fuel_for (file_of s) <= F)%nat ->
  forall K limit acc st rs, Sim s st rs -> rclosed rs = false ->
  (len (zskipn (rpos rs) (payload s)) < Z.of_nat K) ->
  let R := zskipn (rpos rs) (payload s) in
  let X := if limit <? 0 then take_line R else zfirstn (limit - len acc) (take_line R) in
  exists st', readline_loop K F limit acc st = Some (VBytes (acc ++ X), st') /\
              Sim s st' (mkRef (rpos rs + len X) false).
Proof.
  intros LF K. induction K as [|k IH]; intros limit acc st rs S C HK R X.
  { pose proof (zl_len_nonneg R). unfold R in *. lia. }
  cbn [readline_loop]. pose proof (zl_len_nonneg acc) as Hacc.
  destruct ((0 <=? limit) && (limit <=? len acc)) eqn:E.
  - assert (EX : X = []).
    { unfold X. replace (limit <? 0) with false by lia. apply zfirstn_neg. lia. }
    rewrite EX, app_nil_r. exists st. split; [reflexivity|]. unfold len at 1. cbn [length Z.of_nat].
    rewrite Z.add_0_r. destruct rs as [p c]. cbn [rclosed rpos] in *. subst c. exact S.
  - destruct (op_read_n s F LF st rs S C 1) as (st1 & H1 & S1); [lia|]. cbv zeta in H1, S1.
    fold R in H1, S1. rewrite H1.
    assert (Hpos : 0 <= rpos rs).
    { unfold Sim in S. rewrite C in S. destruct S as [I P]. pose proof (inv_pos _ _ I). lia. }
    destruct R as [|x R'] eqn:ER.
    + (* end of the stream *)
      rewrite zfirstn_nil in *. assert (EX : X = []).
      { unfold X. cbn [take_line]. rewrite zfirstn_nil. destruct (limit <? 0); reflexivity. }
      rewrite EX, app_nil_r. exists st1. split; [reflexivity|exact S1].
    + rewrite (zfirstn_cons 1 x R') in * by lia. rewrite zfirstn_0 in *. cbn [last].
      unfold len at 1 in S1. cbn [length Z.of_nat] in S1.
      destruct (is_nl x) eqn:Enl.
      * assert (EX : X = [x]).
        { unfold X. cbn [take_line]. rewrite Enl. destruct (limit <? 0) eqn:El; [reflexivity|].
          rewrite zfirstn_cons by lia. rewrite zfirstn_nil. reflexivity. }
        rewrite EX. exists st1. split; [reflexivity|]. unfold len at 1. cbn [length Z.of_nat]. exact S1.
      * assert (ER' : zskipn (rpos rs + 1) (payload s) = R') by (apply (zskipn_succ _ _ x); assumption).
        destruct (IH limit (acc ++ [x]) st1 (mkRef (rpos rs + 1) false) S1 eq_refl) as (st2 & H2 & S2).
        { cbn [rpos]. rewrite ER'. fold R in HK. rewrite ER in HK. rewrite zl_len_cons in HK. lia. }
        cbn [rpos] in H2, S2. rewrite ER' in H2, S2. rewrite H2.
        assert (EX : X = x :: (if limit <? 0 then take_line R'
                               else zfirstn (limit - len (acc ++ [x])) (take_line R'))).
        { unfold X. cbn [take_line]. rewrite Enl. destruct (limit <? 0) eqn:El; [reflexivity|].
          rewrite zfirstn_cons by lia. rewrite zl_len_app. unfold len at 3. cbn [length Z.of_nat].
          f_equal. f_equal. lia. }
        rewrite EX. exists st2. split.
        -- rewrite <- app_assoc. reflexivity.
        -- rewrite zl_len_cons. replace (rpos rs + (1 + len (if limit <? 0 then take_line R'
               else zfirstn (limit - len (acc ++ [x])) (take_line R'))))
             with (rpos rs + 1 + len (if limit <? 0 then take_line R'
               else zfirstn (limit - len (acc ++ [x])) (take_line R'))) by lia.
           exact S2.
Qed.

(* readline(limit) = io.BytesIO.readline(limit) on the abstract stream: bytes up to and including the first
   newline, at most `limit` of them if limit >= 0; the position advances by the length of the result *)
Lemma op_readline s F K st rs limit :
  (fuel_for (file_of s) <= F)%nat -> Sim s st rs -> rclosed rs = false ->
  (len (payload s) < Z.of_nat K) ->
  let line := ref_readline (zskipn (rpos rs) (payload s)) limit in
  exists st', do_readline K F limit st = Some (VBytes line, st') /\ Sim s st' (mkRef (rpos rs + len line) false).
Proof.
  intros LF S C HK line.
  assert (Hpos : 0 <= rpos rs).
  { unfold Sim in S. rewrite C in S. destruct S as [I P]. pose proof (inv_pos _ _ I). lia. }
  destruct (readline_loop_spec s F LF K limit [] st rs S C) as (st' & H1 & S1).
  { rewrite len_zskipn by lia. pose proof (zl_len_nonneg (payload s)). lia. }
  cbv zeta in H1, S1. cbn [app] in H1, S1.
  replace (limit - len (@nil Z)) with limit in H1, S1 by (unfold len; cbn [length Z.of_nat]; lia). exists st'. unfold do_readline, line, ref_readline. split; assumption.
Qed.

Lemma op_readline_closed s F K st rs limit : Sim s st rs -> rclosed rs = true -> limit <> 0 -> (1 <= K)%nat ->
  do_readline K F limit st = Some (VExc ValueError, st).
Proof.
  intros S C Hl HK. destruct K as [|k]; [lia|]. unfold do_readline. cbn [readline_loop].
  unfold len. cbn [length Z.of_nat]. replace ((0 <=? limit) && (limit <=? 0)) with false by lia.
  destruct (op_closed s F st rs S C) as (H & _). rewrite H. reflexivity.
Qed.

(* readinto(b) with a read-only b (bytes, read-only memoryview): TypeError, nothing consumed, open or closed --
   exactly io.BytesIO.readinto's answer *)
Lemma op_readinto_readonly fillb F file st :
  step fillb F file OReadintoRO st = Some (VExc TypeError, st) /\
  forall D rs, ref_step D OReadintoRO rs = Some (VExc TypeError, rs).
Proof. split; [reflexivity|]. intros D rs. unfold ref_step. destruct (rclosed rs); reflexivity. Qed.

(* ------------------------------------------------------------------ the live constants *)
Lemma constants_agree :
  mode_code MClosed = live_MODE_CLOSED /\ mode_code MRead = live_MODE_READ /\
  mode_code MReadEOF = live_MODE_READ_EOF /\ mode_code MWrite = live_MODE_WRITE /\
  0 < live_BUFFER_SIZE /\ live_zlib_wbits <> live_gzip_wbits.
Proof. repeat split; try reflexivity; discriminate. Qed.
