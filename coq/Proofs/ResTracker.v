(* Lemmas about the resource-tracker loop model (Model/ResTracker.v). *)
From Coq Require Import ZArith List Bool Lia ZifyBool.
Require Import JV.Model.ResTracker.
Import ListNotations.
Open Scope Z_scope.

(* ------------------------------------------------------------------ equality tests *)
Lemma beq_true_iff : forall a b, beq a b = true <-> a = b.
Proof. intros a b. unfold beq. destruct (list_eq_dec Z.eq_dec a b); split; congruence. Qed.

Lemma beq_refl : forall a, beq a a = true.
Proof. intros a. apply beq_true_iff. reflexivity. Qed.

Lemma beq_false_iff : forall a b, beq a b = false <-> a <> b.
Proof. intros a b. unfold beq. destruct (list_eq_dec Z.eq_dec a b); split; congruence. Qed.

Lemma rtype_eqb_true_iff : forall a b, rtype_eqb a b = true <-> a = b.
Proof. intros [] []; cbn; split; congruence. Qed.

Lemma key_eqb_true_iff : forall a b, key_eqb a b = true <-> a = b.
Proof.
  intros [t n] [t' n']. unfold key_eqb. cbn [fst snd]. rewrite andb_true_iff, rtype_eqb_true_iff, beq_true_iff.
  split; [intros [-> ->]; reflexivity | intros H; inversion H; auto].
Qed.

Lemma key_eqb_refl : forall k, key_eqb k k = true.
Proof. intros k. apply key_eqb_true_iff. reflexivity. Qed.

Lemma key_eqb_false_iff : forall a b, key_eqb a b = false <-> a <> b.
Proof.
  intros a b. destruct (key_eqb a b) eqn:E.
  - apply key_eqb_true_iff in E. split; congruence.
  - split; [intros _ H; apply key_eqb_true_iff in H; congruence | reflexivity].
Qed.

(* ------------------------------------------------------------------ readline *)
Lemma readlines_concat : forall s, concat (readlines s) = s.
Proof.
  induction s as [|b t IH]; cbn [readlines]; [reflexivity|].
  destruct (b =? 10).
  - cbn. rewrite IH. reflexivity.
  - destruct (readlines t) as [|h r] eqn:E; cbn in *; rewrite <- IH; reflexivity.
Qed.

Lemma readlines_nonempty : forall s, Forall (fun l => l <> []) (readlines s).
Proof.
  induction s as [|b t IH]; cbn [readlines]; [constructor|].
  destruct (b =? 10).
  - constructor; [discriminate | exact IH].
  - destruct (readlines t) as [|h r]; constructor; try discriminate; try constructor.
    inversion IH; assumption.
Qed.

(* a line is only ever terminated, never interrupted, by \n *)
Lemma readlines_newline_last : forall s,
  Forall (fun l => forall a c, l = a ++ 10 :: c -> c = []) (readlines s).
Proof.
  induction s as [|b t IH]; cbn [readlines]; [constructor|].
  destruct (b =? 10) eqn:Eb.
  - constructor; [|exact IH]. intros a c H. destruct a as [|x a]; cbn in H.
    + inversion H; reflexivity.
    + inversion H. destruct a; discriminate.
  - destruct (readlines t) as [|h r].
    + constructor; [|constructor]. intros a c H. destruct a as [|x a]; cbn in H.
      * inversion H. subst. lia.
      * inversion H. destruct a; discriminate.
    + inversion IH as [|? ? Hh Hr]; subst. constructor; [|exact Hr].
      intros a c H. destruct a as [|x a]; cbn in H.
      * inversion H. subst. lia.
      * inversion H. subst. eapply Hh. reflexivity.
Qed.

(* ------------------------------------------------------------------ split / join *)
Definition no_colon (s : bytes) : Prop := ~ In 58 s.

Lemma split_colon_spec : forall s,
  exists h r, split_colon s = h :: r /\ no_colon h /\ Forall no_colon r /\ join_colon (h :: r) = s.
Proof.
  induction s as [|b t IH].
  - exists [], []. cbn. repeat split; auto. intros [].
  - destruct IH as (h & r & E & Hh & Hr & J). cbn [split_colon]. rewrite E.
    destruct (b =? 58) eqn:Eb.
    + exists [], (h :: r). repeat split; auto.
      * intros [].
      * assert (b = 58) by lia. subst b. cbn [join_colon app]. cbn [join_colon] in J. rewrite J. reflexivity.
    + exists (b :: h), r. repeat split; auto.
      * intros [H|H]; [lia | exact (Hh H)].
      * cbn [join_colon] in *. destruct r; cbn; rewrite <- J; reflexivity.
Qed.

Lemma join_colon_snoc : forall m t, m <> [] -> join_colon (m ++ [t]) = join_colon m ++ 58 :: t.
Proof.
  induction m as [|x m IH]; intros t H; [congruence|].
  destruct m as [|y m].
  - reflexivity.
  - change ((x :: y :: m) ++ [t]) with (x :: (y :: m) ++ [t]).
    change (join_colon (x :: (y :: m) ++ [t])) with (x ++ 58 :: join_colon ((y :: m) ++ [t])).
    rewrite IH by discriminate. change (join_colon (x :: y :: m)) with (x ++ 58 :: join_colon (y :: m)).
    rewrite <- app_assoc. reflexivity.
Qed.

(* The parser, characterised: the command is what precedes the first colon, the resource type
   what follows the last one, the name everything in between (colons included); with fewer
   than two colons the name is empty, and without any colon command and type coincide. *)
Lemma parse_spec : forall l,
  (parse l = PDecodeError /\ is_ascii (strip l) = false) \/
  (exists c, parse l = PFields c [] c /\ strip l = c /\ no_colon c) \/
  (exists c t, parse l = PFields c [] t /\ strip l = c ++ 58 :: t /\ no_colon c /\ no_colon t) \/
  (exists c n t, parse l = PFields c n t /\ strip l = c ++ 58 :: n ++ 58 :: t /\ no_colon c /\ no_colon t).
Proof.
  intros l. unfold parse. destruct (is_ascii (strip l)) eqn:A; [right | left; auto].
  destruct (split_colon_spec (strip l)) as (h & r & E & Hh & Hr & J). rewrite E.
  destruct r as [|x r'] using rev_ind.
  - left. exists h. cbn in *. auto.
  - clear IHr'. right. apply Forall_app in Hr as [Hr' Hx]. inversion Hx; subst.
    cbn [hd tl]. rewrite removelast_last.
    replace (last (h :: r' ++ [x]) []) with x
      by (change (h :: r' ++ [x]) with ((h :: r') ++ [x]); rewrite last_last; reflexivity).
    destruct r' as [|y r''].
    + left. exists h, x. cbn in *. auto.
    + right. exists h, (join_colon (y :: r'')), x. repeat split; auto.
      rewrite <- J.
      change (join_colon (h :: (y :: r'') ++ [x])) with (h ++ 58 :: join_colon ((y :: r'') ++ [x])).
      rewrite join_colon_snoc by discriminate. reflexivity.
Qed.

(* ------------------------------------------------------------------ dict lemmas *)
Lemma d_get_set_same : forall d k v, d_get (d_set d k v) k = Some v.
Proof.
  induction d as [|[k' v'] t IH]; intros k v; cbn.
  - rewrite beq_refl. reflexivity.
  - destruct (beq k k') eqn:E; cbn; rewrite E; auto.
Qed.

Lemma d_get_set_other : forall d k v k', k <> k' -> d_get (d_set d k v) k' = d_get d k'.
Proof.
  induction d as [|[k0 v0] t IH]; intros k v k' N; cbn.
  - apply not_eq_sym, beq_false_iff in N. rewrite N. reflexivity.
  - destruct (beq k k0) eqn:E; cbn.
    + apply beq_true_iff in E. subst k0. apply not_eq_sym, beq_false_iff in N. rewrite N. reflexivity.
    + rewrite IH by assumption. reflexivity.
Qed.

Lemma d_get_in_keys : forall d k, d_get d k <> None <-> In k (d_keys d).
Proof.
  induction d as [|[k' v'] t IH]; intros k; cbn.
  - split; [congruence | intros []].
  - destruct (beq k k') eqn:E.
    + apply beq_true_iff in E. subst. split; [auto | congruence].
    + apply beq_false_iff in E. rewrite IH. split; [auto | intros [H|H]; [congruence | assumption]].
Qed.

Lemma d_get_none_keys : forall d k, d_get d k = None <-> ~ In k (d_keys d).
Proof.
  intros d k. rewrite <- d_get_in_keys. destruct (d_get d k); split; try congruence; intros H; exfalso; apply H; congruence.
Qed.

Lemma d_get_del_other : forall d k k', k <> k' -> d_get (d_del d k) k' = d_get d k'.
Proof.
  induction d as [|[k0 v0] t IH]; intros k k' N; cbn; [reflexivity|].
  destruct (beq k k0) eqn:E; cbn.
  - apply beq_true_iff in E. subst k0. apply not_eq_sym, beq_false_iff in N. rewrite N. reflexivity.
  - rewrite IH by assumption. reflexivity.
Qed.

Lemma d_get_del_same : forall d k, NoDup (d_keys d) -> d_get (d_del d k) k = None.
Proof.
  induction d as [|[k0 v0] t IH]; intros k ND; cbn; [reflexivity|].
  cbn in ND. inversion ND; subst.
  destruct (beq k k0) eqn:E; cbn.
  - apply beq_true_iff in E. subst k0. apply d_get_none_keys. assumption.
  - rewrite E. apply IH. assumption.
Qed.

Lemma d_keys_set_present : forall d k v, d_get d k <> None -> d_keys (d_set d k v) = d_keys d.
Proof.
  induction d as [|[k0 v0] t IH]; intros k v H; cbn in *; [congruence|].
  destruct (beq k k0) eqn:E; cbn; [reflexivity|]. rewrite IH by assumption. reflexivity.
Qed.

Lemma d_keys_set_absent : forall d k v, d_get d k = None -> d_keys (d_set d k v) = d_keys d ++ [k].
Proof.
  induction d as [|[k0 v0] t IH]; intros k v H; cbn in *; [reflexivity|].
  destruct (beq k k0) eqn:E; [congruence|]. cbn. rewrite IH by assumption. reflexivity.
Qed.

Lemma d_keys_del_in : forall d k k', In k' (d_keys (d_del d k)) -> In k' (d_keys d).
Proof.
  induction d as [|[k0 v0] t IH]; intros k k' H; cbn in *; [assumption|].
  destruct (beq k k0); cbn in *; [auto | destruct H; eauto].
Qed.

Lemma d_keys_del_nodup : forall d k, NoDup (d_keys d) -> NoDup (d_keys (d_del d k)).
Proof.
  induction d as [|[k0 v0] t IH]; intros k ND; cbn in *; [constructor|].
  inversion ND; subst. destruct (beq k k0); cbn; [assumption|].
  constructor; [|apply IH; assumption]. intros H. apply d_keys_del_in in H. contradiction.
Qed.

Lemma NoDup_app_snoc : forall (A : Type) (l : list A) a, NoDup l -> ~ In a l -> NoDup (l ++ [a]).
Proof.
  induction l as [|x l IH]; intros a ND NI; cbn.
  - constructor; [intros [] | constructor].
  - inversion ND; subst. constructor.
    + rewrite in_app_iff. intros [H|[H|[]]]; [contradiction | subst; apply NI; left; reflexivity].
    + apply IH; [assumption | intros H; apply NI; right; exact H].
Qed.

Definition pos_vals (d : dict) : Prop := Forall (fun kv => 1 <= snd kv) d.

Lemma pos_vals_set : forall d k v, pos_vals d -> 1 <= v -> pos_vals (d_set d k v).
Proof.
  induction d as [|[k0 v0] t IH]; intros k v P V; cbn.
  - repeat constructor. exact V.
  - inversion P; subst. destruct (beq k k0); constructor; cbn; auto. apply IH; assumption.
Qed.

Lemma pos_vals_del : forall d k, pos_vals d -> pos_vals (d_del d k).
Proof.
  induction d as [|[k0 v0] t IH]; intros k P; cbn; [constructor|].
  inversion P; subst. destruct (beq k k0); [assumption|]. constructor; auto. apply IH; assumption.
Qed.

Lemma pos_vals_get : forall d k c, pos_vals d -> d_get d k = Some c -> 1 <= c.
Proof.
  induction d as [|[k0 v0] t IH]; intros k c P G; cbn in *; [congruence|].
  inversion P; subst. destruct (beq k k0); [inversion G; subst; assumption | eauto].
Qed.

(* del after set of the same key: the value written is irrelevant *)
Lemma d_del_set : forall d k v, d_get d k <> None -> d_del (d_set d k v) k = d_del d k.
Proof.
  induction d as [|[k0 v0] t IH]; intros k v H; cbn in *; [congruence|].
  destruct (beq k k0) eqn:E; cbn; rewrite E; [reflexivity|]. rewrite IH by assumption. reflexivity.
Qed.

(* ------------------------------------------------------------------ registry *)
Lemma reg_get_put_same : forall r t d, reg_get (reg_put r t d) t = d.
Proof. intros r [] d; reflexivity. Qed.

Lemma reg_get_put_other : forall r t d t', t <> t' -> reg_get (reg_put r t d) t' = reg_get r t'.
Proof. intros r [] d [] N; try reflexivity; congruence. Qed.

Definition wf (r : registry) : Prop :=
  forall t, NoDup (d_keys (reg_get r t)) /\ pos_vals (reg_get r t).

Lemma wf_init : wf init.
Proof. intros []; split; constructor. Qed.

Lemma wf_put : forall r t d, wf r -> NoDup (d_keys d) -> pos_vals d -> wf (reg_put r t d).
Proof.
  intros r t d W ND P t'. destruct (rtype_eqb t t') eqn:E.
  - apply rtype_eqb_true_iff in E. subst. rewrite reg_get_put_same. auto.
  - rewrite reg_get_put_other; [apply W|]. intros ->. destruct t'; discriminate.
Qed.

Definition refc (r : registry) (k : key) : Z :=
  match lookup r k with None => 0 | Some c => c end.

Lemma wf_lookup_pos : forall r k c, wf r -> lookup r k = Some c -> 1 <= c.
Proof. intros r [t n] c W H. unfold lookup in H. cbn in H. eapply pos_vals_get; [apply W | exact H]. Qed.

Lemma refc_zero_iff : forall r k, wf r -> (refc r k = 0 <-> lookup r k = None).
Proof.
  intros r k W. unfold refc. destruct (lookup r k) eqn:E; split; try congruence; auto.
  intros ->. apply wf_lookup_pos in E; [lia | assumption].
Qed.

Lemma refc_nonneg : forall r k, wf r -> 0 <= refc r k.
Proof.
  intros r k W. unfold refc. destruct (lookup r k) eqn:E; [|lia]. apply wf_lookup_pos in E; [lia|assumption].
Qed.

Lemma lookup_put_same : forall r t d n, lookup (reg_put r t d) (t, n) = d_get d n.
Proof. intros. unfold lookup. cbn [fst snd]. rewrite reg_get_put_same. reflexivity. Qed.

Lemma lookup_put_other_type : forall r t d k, fst k <> t -> lookup (reg_put r t d) k = lookup r k.
Proof. intros r t d [t' n'] N. unfold lookup. cbn [fst snd] in *. rewrite reg_get_put_other; auto. Qed.

(* ------------------------------------------------------------------ one step *)
Lemma step_req_wf : forall w cf r q, wf r -> wf (o_reg (step_req w cf r q)).
Proof.
  intros w cf r q W. unfold step_req.
  destruct q as [| | |t n|t n|t n|]; cbn [o_reg fst]; try exact W.
  - destruct (W t) as [ND P]. apply wf_put; [exact W | |].
    + destruct (d_get (reg_get r t) n) eqn:G.
      * rewrite d_keys_set_present by congruence. exact ND.
      * rewrite d_keys_set_absent by assumption. apply NoDup_app_snoc; [exact ND|]. apply d_get_none_keys; assumption.
    + destruct (d_get (reg_get r t) n) eqn:G; apply pos_vals_set; auto; try lia.
      apply pos_vals_get with (k := n) (c := z) in P; [lia | assumption].
  - destruct (W t) as [ND P]. destruct (d_get (reg_get r t) n) eqn:G; cbn [o_reg fst]; [|exact W].
    apply wf_put; [exact W | apply d_keys_del_nodup; exact ND | apply pos_vals_del; exact P].
  - destruct (W t) as [ND P]. destruct (d_get (reg_get r t) n) as [c|] eqn:G; cbn [o_reg fst]; [|exact W].
    assert (1 <= c) by (eapply pos_vals_get; eauto).
    destruct (c - 1 =? 0) eqn:Ez; cbn [o_reg fst].
    + rewrite d_del_set by congruence.
      apply wf_put; [exact W | apply d_keys_del_nodup; exact ND | apply pos_vals_del; exact P].
    + apply wf_put; [exact W | rewrite d_keys_set_present by congruence; exact ND | apply pos_vals_set; [exact P | lia]].
Qed.

Lemma step_wf : forall w cf r l, wf r -> wf (o_reg (step w cf r l)).
Proof. intros. apply step_req_wf. assumption. Qed.
