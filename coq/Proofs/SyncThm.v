(* M1s proofs, part 4: the statements about joblib.Parallel used with a backend that does not retrieve
   results in its completion callback (supports_retrieve_callback = False). *)
From Coq Require Import List Bool Arith Lia PeanoNat.
Require Import JV.Model.ParallelCore JV.Model.ParallelSync JV.Proofs.ParallelLemmas JV.Proofs.ParallelInv1
               JV.Proofs.ParallelTrk JV.Proofs.ParallelInv2 JV.Proofs.ParallelFrame2 JV.Proofs.ParallelInv3
               JV.Proofs.ParallelInv4 JV.Proofs.ParallelInv5 JV.Proofs.SyncFrame JV.Proofs.SyncInv JV.Proofs.SyncOut.
Import ListNotations.

(* ---------------- what has been retrieved so far is a prefix of the sequential results ---------------- *)
Theorem sync_results_prefix s : sreach s -> ifail (base s) = None -> exception (base s) = false ->
  exists rest, delivered (base s) ++ rest = seq 0 (taken (base s)) /\ taken (base s) <= N (base s).
Proof.
  intros Hr Hi Hx. destruct (sreach_SIO s Hr) as [[[[H1 H2] H3] _ _ _] HY].
  destruct H1 as [_ Hpart Hle _ _]. specialize (Hpart Hi). pose proof (y_out _ _ HY Hx) as Ho.
  exists (blk_tasks (base s) (blk s) ++ concat (map (tasks_of (base s)) (jobs (base s) ++ rem_of (base s))) ++
          concat (ready (base s))).
  split; [|exact Hle]. rewrite <- Hpart, <- Ho. rewrite <- !app_assoc. reflexivity.
Qed.

(* ---------------- a call that returns returns exactly the sequential results ---------------- *)
Lemma drain_returned b l : SIO b None -> ifail b = None -> snd (drain_s b) = Some (SReturned l) ->
  l = seq 0 (N b).
Proof.
  intros [[[[H1 H2] H3] Hp Hm Hb] HY] Hi Hret. unfold drain_s in Hret.
  destruct (phase b) as [ | | | |rem| ] eqn:Hph; try discriminate Hret.
  destruct rem as [|j js]; [|discriminate Hret]. cbn [snd] in Hret. injection Hret as <-.
  pose proof (y_clean _ _ HY Hi [] Hph) as Hx.
  pose proof (y_drain_jobs _ _ HY [] Hph Hx) as Hj.
  pose proof (y_out _ _ HY Hx) as Ho. unfold rem_of in Ho. rewrite Hph, Hj in Ho. cbn in Ho. rewrite app_nil_r in Ho.
  assert (Hex : exhausted b).
  { eapply sync_after_loop_exhausted; eauto; [split; [split|]; assumption | rewrite Hph; exact I]. }
  destruct Hex as [Hrd Htk]. destruct H1 as [_ Hpart _ _ _]. specialize (Hpart Hi).
  rewrite Hrd in Hpart. cbn in Hpart. rewrite app_nil_r in Hpart. rewrite Ho, Hpart, Htk. reflexivity.
Qed.

Lemma adv_returned b l : SIO b None -> ifail b = None -> snd (adv_s b) = Some (SReturned l) ->
  l = seq 0 (N b).
Proof.
  intros H Hi Hret. unfold adv_s in Hret. destruct (phase b) as [ | | | |rem| ] eqn:Hph; try discriminate Hret.
  - destruct (aborting b) eqn:Hab.
    + destruct (first_failed b) as [e|] eqn:Hff; [discriminate Hret|].
      change (N b) with (N (loop_exit b)). apply drain_returned; auto. apply sio_loop_exit; auto.
    + destruct (jobs b) as [|j js] eqn:Hj; [|discriminate Hret].
      destruct (iterating b) eqn:Hit; cbn [orb] in Hret; [discriminate Hret|].
      destruct (n_comp b <? n_disp b) eqn:Hlt; [discriminate Hret|].
      change (N b) with (N (loop_exit b)). apply drain_returned; auto. apply sio_loop_exit; auto.
      right. apply Nat.ltb_ge in Hlt. auto.
  - apply drain_returned; auto.
Qed.

Lemma adv_s_ifail b : ifail (base (fst (adv_s b))) = ifail b /\ N (base (fst (adv_s b))) = N b.
Proof.
  assert (Hd : forall x, ifail (base (fst (drain_s x))) = ifail x /\ N (base (fst (drain_s x))) = N x).
  { intros x. unfold drain_s. destruct (phase x) as [ | | | |rem| ]; try (split; reflexivity).
    destruct rem; split; reflexivity. }
  unfold adv_s. destruct (phase b) as [ | | | |rem| ]; try (split; reflexivity).
  - destruct (aborting b).
    + destruct (first_failed b); [split; reflexivity|]. apply (Hd (loop_exit b)).
    + destruct (jobs b); [|split; reflexivity].
      destruct (iterating b || (n_comp b <? n_disp b)); [split; reflexivity|]. apply (Hd (loop_exit b)).
  - apply Hd.
Qed.

(* C01 for sync-retrieval backends: whenever Parallel(...)(iterable) returns, for any schedule of
   completion callbacks and retrievals and after any history of earlier calls on the same object, it
   returns exactly the sequential results in input order *)
Theorem sync_returns_sequential_results s e l : sreach s -> wf_sev e ->
  In (SReturned l) (snd (sstep s e)) -> ifail (base (fst (sstep s e))) = None ->
  l = seq 0 (N (base (fst (sstep s e)))).
Proof.
  intros Hr Hwf Hin Hi. destruct (sio_step_shape s e Hr Hwf) as [(x & Hx & E) | Hno].
  - rewrite E in *. cbn [lift fst snd] in *.
    destruct (adv_s_ifail x) as [E1 E2]. rewrite E1 in Hi. rewrite E2.
    destruct (snd (adv_s x)) as [o|] eqn:Ho; [|destruct Hin].
    destruct Hin as [-> | []]. apply adv_returned; assumption.
  - exfalso. exact (Hno l Hin).
Qed.

(* ---------------- failures ---------------- *)
(* C04: the exception of the retrieval that failed is what the call raises, at once; the object is
   left not running with an empty job queue *)
Theorem sync_failure_is_raised s j e : blk s = Some j ->
  snd (sstep s (SResult (Some e))) = [SRaised e] /\
  running (base (fst (sstep s (SResult (Some e))))) = false /\
  jobs (base (fst (sstep s (SResult (Some e))))) = [] /\
  blk (fst (sstep s (SResult (Some e)))) = None.
Proof. intros Hb. cbn [sstep]. rewrite Hb. cbn. auto. Qed.

(* C04: an input iterable that raised is never swallowed -- while the call is in its try block the
   registered failure stays in the job queue, and the caller's loop raises it as soon as it runs *)
Theorem sync_input_failure_is_raised s : sreach s -> exception (base s) = true -> phase (base s) = Retrieving ->
  exists e, snd (adv_s (base s)) = Some (SRaised e).
Proof.
  intros Hr Hx Hp. destruct (sreach_SIO s Hr) as [_ HY].
  pose proof (y_exc_ab _ _ HY Hx) as Hab.
  assert (Hit : in_try (phase (base s))) by (rewrite Hp; exact I).
  destruct (first_failed_exists _ (y_fail _ _ HY Hx Hit)) as (e & t & Hff & _).
  exists e. unfold adv_s. rewrite Hp, Hab, Hff. reflexivity.
Qed.

(* ---------------- runs ---------------- *)
Lemma sreach_run s es : sreach s -> Forall wf_sev es -> sreach (fst (srun s es)).
Proof.
  revert s. induction es as [|e r IH]; intros s Hs Hwf; cbn [srun]; [exact Hs|].
  apply Forall_cons_iff in Hwf as [He Hr].
  pose proof (sreach_step s e Hs He) as H1.
  destruct (sstep s e) as [s1 o]. cbn [fst] in H1.
  specialize (IH s1 H1 Hr). destruct (srun s1 r) as [s2 os]. exact IH.
Qed.

(* a concrete schedule: n_jobs = 2, pre_dispatch = 2, five tasks; callbacks run out of order and
   before / after the retrieval of their own batch; the call returns [0; 1; 2; 3; 4] *)
Definition sdemo_events : list sev :=
  [SCall {| n_jobs := 2; pre := PreN 2; mode := Ordered |} 5 None;
   SDispatch 1; SDispatch 1; SDispatch 1;
   SResult None; SCb 1 1; SResult None; SCb 0 2; SCb 2 1; SResult None; SResult None; SCb 3 1; SCb 4 1;
   SResult None].

Lemma sdemo_wf : Forall wf_sev sdemo_events.
Proof. repeat constructor. Qed.

Lemma sdemo_run :
  let r := srun sinit sdemo_events in
  last (snd r) [] = [SReturned [0; 1; 2; 3; 4]] /\ phase (base (fst r)) = Finished /\
  exception (base (fst r)) = false /\ ifail (base (fst r)) = None.
Proof. vm_compute. auto. Qed.

(* ---------------- C09 (sync): once the abort flag is up nothing more is taken or submitted ---------------- *)
Lemma adv_s_input b : aborting b = true ->
  input_fields (base (fst (adv_s b))) = input_fields b /\ aborting (base (fst (adv_s b))) = true.
Proof.
  intros Hab.
  assert (Hd : forall x, aborting x = true ->
            input_fields (base (fst (drain_s x))) = input_fields x /\ aborting (base (fst (drain_s x))) = true).
  { intros x Hx. unfold drain_s. destruct (phase x) as [ | | | |rem| ]; cbn [fst base]; auto.
    destruct rem; cbn [fst base]; auto. }
  unfold adv_s. destruct (phase b) as [ | | | |rem| ]; cbn [fst base]; auto.
  rewrite Hab. destruct (first_failed b); cbn [fst base].
  - split; [reflexivity|]. cbn. rewrite Hab. reflexivity.
  - assert (Hl : aborting (loop_exit b) = true) by (unfold loop_exit; cbn; rewrite Hab; reflexivity).
    destruct (Hd (loop_exit b) Hl) as [A B]. split; [rewrite A; reflexivity | exact B].
Qed.

Theorem sync_stop_after_abort s e : aborting (base s) = true -> (forall cf n f, e <> SCall cf n f) ->
  input_fields (base (fst (sstep s e))) = input_fields (base s) /\ aborting (base (fst (sstep s e))) = true.
Proof.
  intros Hab Hne. destruct s as [b k]. cbn [base blk] in *.
  destruct e as [cf n f|bs|t bs|o]; cbn [sstep base blk].
  - exfalso. eapply Hne. reflexivity.
  - destruct k as [j|]; [destruct (phase b); cbn; auto|].
    destruct (stop_after_abort true b (EDispatch bs) Hab ltac:(intros; discriminate)) as [_ _].
    assert (Hraw : input_fields (fst (step_raw true b (EDispatch bs))) = input_fields b /\
                   aborting (fst (step_raw true b (EDispatch bs))) = true).
    { cbn [step_raw]. destruct (phase b); cbn [fst]; auto; rewrite (dispatch_aborting b bs false Hab); cbn; rewrite ?Hab; cbn; auto. }
    destruct Hraw as [A B].
    destruct (phase b); try (cbn; auto; fail); rewrite fst_lift;
      destruct (adv_s_input _ B) as [C D]; (split; [congruence | exact D]).
  - assert (Hcs : input_fields (cb_sync b t bs) = input_fields b /\ aborting (cb_sync b t bs) = true).
    { unfold cb_sync. destruct (get_trk b t) as [tk|] eqn:Hk; [|auto].
      destruct (mem_id t (inflight b)); [|auto].
      assert (He : input_fields (cb_enter b t) = input_fields b /\ aborting (cb_enter b t) = true).
      { unfold cb_enter. rewrite Hk. rewrite Hab, orb_true_r. cbn. auto. }
      destruct He as [E1 E2].
      unfold cb_finish. destruct (get_trk (cb_enter b t) t) as [k2|]; [|auto].
      destruct (negb (mem_id t (cbmid (cb_enter b t)))); [auto|].
      destruct (true && negb (tk_cid k2 =? cid (cb_enter b t))); [cbn; rewrite <- E1; auto|].
      set (s1 := mark_closed _ t).
      assert (Hab1 : aborting s1 = true) by exact E2.
      assert (Hin1 : input_fields s1 = input_fields b) by (rewrite <- E1; reflexivity).
      destruct (orig s1); [|auto].
      rewrite (dispatch_aborting s1 bs true Hab1). cbn. rewrite <- Hin1. auto. }
    destruct Hcs as [A B].
    destruct k as [j|]; cbn [fst base]; [auto|]. rewrite fst_lift.
    destruct (adv_s_input _ B) as [C D]. split; [congruence | exact D].
  - destruct k as [j|]; [|cbn; auto].
    destruct o as [e|]; cbn [fst base].
    + split; [reflexivity|]. cbn. rewrite Hab. reflexivity.
    + rewrite fst_lift. assert (B : aborting (deliver_list b (tasks_of b j)) = true) by exact Hab.
      destruct (adv_s_input _ B) as [C D]. split; [rewrite C; reflexivity | exact D].
Qed.
