(* M1 proofs, part 5: run_events reachability, the sequential path, witnesses, direct single-step facts. *)
From Coq Require Import List Bool Arith Lia PeanoNat.
Require Import JV.Model.ParallelCore JV.Proofs.ParallelLemmas JV.Proofs.ParallelInv1 JV.Proofs.ParallelTrk
               JV.Proofs.ParallelInv2 JV.Proofs.ParallelFrame2 JV.Proofs.ParallelInv3 JV.Proofs.ParallelInv4.
Import ListNotations.

(* ---------------- every state produced by an event list is reachable ---------------- *)
Lemma reach_run : forall es s, reach s -> Forall wf_ev es -> reach (fst (run_events true s es)).
Proof.
  induction es as [|e es IH]; intros s Hr Hwf; [exact Hr|].
  inversion Hwf as [|? ? He Hes]; subst. cbn [run_events].
  pose proof (reach_step s e Hr He) as Hr1.
  destruct (step true s e) as [s1 o]. cbn [fst] in Hr1.
  specialize (IH s1 Hr1 Hes). destruct (run_events true s1 es) as [s2 os]. exact IH.
Qed.

(* ---------------- the sequential path (n_jobs = 1) ---------------- *)
Lemma seq_run_ok tfail tasks : (forall i, In i tasks -> tfail i = false) -> seq_run tfail tasks = (tasks, None).
Proof.
  induction tasks as [|i r IH]; intros H; [reflexivity|]. cbn [seq_run].
  rewrite (H i (or_introl eq_refl)). rewrite IH; [reflexivity|]. intros j Hj. apply H. right. exact Hj.
Qed.

Lemma seq_run_fail tfail pre i post :
  (forall j, In j pre -> tfail j = false) -> tfail i = true ->
  seq_run tfail (pre ++ i :: post) = (pre, Some (ErrTask i)).
Proof.
  induction pre as [|p pre IH]; intros H Hi; cbn [app seq_run].
  - rewrite Hi. reflexivity.
  - rewrite (H p (or_introl eq_refl)). rewrite IH; [reflexivity | | exact Hi]. intros j Hj. apply H. right. exact Hj.
Qed.

(* ---------------- a call on a reachable idle object starts from a clean per-call state ---------------- *)
Definition per_call_fields (s : st) :=
  (taken s, ready s, jobs s, jset s, n_disp s, n_comp s, (iterating s, aborting s, exception s, pend_out s,
   submitted s, delivered s, closed s, abandoned s)).

Lemma call_resets g s cf n f : running s = false -> (phase s = Idle \/ phase s = Finished) ->
  let s' := fst (step g s (ECall cf n f)) in
  per_call_fields s' = (0, [], [], [], 0, 0, (false, false, false, [], [], [], [], false)) /\
  cid s' = S (cid s) /\ running s' = true /\ phase s' = StartFirst.
Proof.
  intros Hr Hp. unfold step. cbn [step_raw]. rewrite Hr.
  destruct Hp as [-> | ->]; cbn; auto.
Qed.

(* ---------------- timeout: the pending head job becomes a TimeoutError for the caller ---------------- *)
Lemma first_failed_head s j js e : jobs s = j :: js -> status_of s j = Failed e -> first_failed s = Some e.
Proof. intros Hj Hs. unfold first_failed. rewrite Hj. cbn [fold_right]. rewrite Hs. reflexivity. Qed.

Lemma status_after_timeout s j : j < length (trk s) -> status_of (do_timeout s j) j = Failed ErrTimeout.
Proof.
  intros H. rewrite status_of_fun. cbn [trk do_timeout]. rewrite set_status_eq. apply status_in_set_status_eq. exact H.
Qed.

Theorem timeout_raises s j js :
  reach s -> want s = true -> phase s = Retrieving -> pend_out s = [] -> mode (c s) = Ordered ->
  jobs s = j :: js -> status_of s j = Pending ->
  snd (step true s ETimeout) = [Raised ErrTimeout].
Proof.
  intros Hr Hw Hp Hpo Hm Hj Hst.
  destruct (reach_inv1234 s Hr) as [[[H1 H2] H3] H4].
  assert (Hlt : j < length (trk s)).
  { pose proof (j_jobs s H2) as A. unfold allcur in A. rewrite Hj in A. inversion A; subst. apply is_cur_lt. assumption. }
  assert (Hraw : step_raw true s ETimeout = (do_timeout s j, None)).
  { cbn [step_raw]. rewrite Hw. unfold timeout_target. rewrite Hp. unfold is_ordered. rewrite Hm, Hj. rewrite Hst. cbn iota. rewrite Hst. reflexivity. }
  assert (Hff : first_failed (do_timeout s j) = Some ErrTimeout).
  { eapply first_failed_head; [cbn [jobs do_timeout]; unfold is_ordered; rewrite Hm; exact Hj|].
    apply status_after_timeout. exact Hlt. }
  assert (Hadv : try_advance (do_timeout s j) = (finalize (do_timeout s j) Finished true true, Some (Raised ErrTimeout))).
  { unfold try_advance. change (want (do_timeout s j)) with (want s). rewrite Hw.
    unfold adv_fuel. cbn [Nat.add]. cbn [advance].
    change (pend_out (do_timeout s j)) with (pend_out s). rewrite Hpo.
    change (phase (do_timeout s j)) with (phase s). rewrite Hp.
    change (aborting (do_timeout s j)) with true. cbn [orb]. rewrite Hff. reflexivity. }
  unfold step. rewrite Hraw, Hadv. reflexivity.
Qed.

(* ---------------- promptness: a completed head batch is delivered at once ---------------- *)
Theorem head_done_is_delivered s j js v vs :
  want s = true -> phase s = Retrieving -> pend_out s = [] -> aborting s = false ->
  (iterating s = true \/ n_comp s < n_disp s) ->
  jobs s = j :: js -> status_of s j = Done -> tasks_of s j = v :: vs ->
  snd (try_advance s) = Some (Val v).
Proof.
  intros Hw Hp Hpo Hab Hc Hj Hst Ht. unfold try_advance. rewrite Hw.
  unfold adv_fuel. rewrite Hj, Hp. cbn [length Nat.add].
  cbn [advance]. rewrite Hpo, Hp, Hab. cbn [orb].
  assert (Hcond : iterating s || (n_comp s <? n_disp s) = true).
  { destruct Hc as [-> | Hlt]; [reflexivity|]. apply Nat.ltb_lt in Hlt. rewrite Hlt. apply orb_true_r. }
  rewrite Hcond, Hj, Hst. cbn [advance pend_out set_out]. rewrite Ht. reflexivity.
Qed.

(* with pre_dispatch='all' the whole input has been taken when _start returns *)
Theorem pre_all_takes_everything s : reach s -> pre (c s) = PreAll ->
  (phase s = Retrieving \/ (exists r, phase s = Draining r) \/ phase s = Finished) ->
  aborting s = false -> taken s = N s /\ ready s = [].
Proof.
  intros Hr Hp Hph Hab. destruct (reach_inv1234 s Hr) as [[_ H3] _].
  destruct (k_exh_all s H3 Hp) as [A B]; auto.
  destruct Hph as [-> | [[r ->] | ->]]; exact I.
Qed.

(* ---------------- F6: pre_dispatch evaluating to 0 silently drops every task ---------------- *)
Definition f6_events : list ev :=
  [ECall {| n_jobs := 2; pre := PreN 0; mode := Ordered |} 3 None; EDispatch 1; EDispatch 1; EPull].

Lemma predispatch_zero_returns_nothing :
  let r := run_events true init f6_events in
  snd r = [[]; []; []; [Stop]] /\ delivered (fst r) = [] /\ N (fst r) = 3 /\ exception (fst r) = false.
Proof. vm_compute. repeat split. Qed.

(* ---------------- non-vacuity: a concrete schedule with out-of-order completions ---------------- *)
Definition demo_events : list ev :=
  [ECall {| n_jobs := 2; pre := PreN 2; mode := Ordered |} 5 None; EDispatch 1; EDispatch 1; EDispatch 1;
   ECbStart 1 None; ECbFinish 1 2; ECbStart 0 None; EPull; ECbFinish 0 1; EPull; ECbStart 3 None; ECbStart 2 None;
   ECbFinish 2 1; ECbFinish 3 1; EPull; EPull; ECbStart 4 None; ECbFinish 4 1; EPull; EPull].

Lemma demo_wf : Forall wf_ev demo_events.
Proof. unfold demo_events. repeat constructor; cbn; lia. Qed.

Lemma demo_run :
  let s := fst (run_events true init demo_events) in
  phase s = Finished /\ exception s = false /\ abandoned s = false /\ delivered s = [0; 1; 2; 3; 4] /\
  mode (c s) = Ordered /\ ifail s = None.
Proof. vm_compute. repeat split. Qed.
