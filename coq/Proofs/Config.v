(* Proofs about M9 (Model/Config.v) and about _get_config_param as regenerated from the source. *)
From Coq Require Import ZArith List Bool Lia ZifyBool Arith.
Require Import JV.Model.C15Executor JV.Gen.T_executor JV.Proofs.C15Executor.
Require Import JV.Base.PyPrelude JV.Model.Config JV.Gen.T_config_param JV.Gen.T_active_backend JV.Gen.T_mp_context JV.Gen.T_backend_attrs JV.Gen.T_pool_settings.
Import ListNotations.
Open Scope Z_scope.

(* ------------------------------------------------------------- translated = hand model *)
Lemma gen_gcp_eq : forall (V : Type) (p c : option V) (d : V), get_config_param p c d = Ok (gcp p c d).
Proof. intros V [v|] [w|] d; reflexivity. Qed.

(* ------------------------------------------------------------------------ the machine *)
Lemma iter_add : forall n m ts, iter (n + m) ts = iter m (iter n ts).
Proof. induction n; intros; cbn; [reflexivity|apply IHn]. Qed.

Lemma iter_S_last : forall n ts, iter (S n) ts = step (iter n ts).
Proof. intros. replace (S n) with (n + 1)%nat by lia. rewrite iter_add. reflexivity. Qed.

Lemma halted_step : forall ts, halted ts = true -> step ts = ts.
Proof.
  intros [c x k tr]. unfold halted, step. cbn.
  destruct x as [p| |]; destruct k; try discriminate; reflexivity.
Qed.

Lemma halted_iter : forall n ts, halted ts = true -> iter n ts = ts.
Proof. induction n; intros ts H; cbn; [reflexivity|]. rewrite (halted_step _ H). apply IHn, H. Qed.

Definition is_final (x : ctl) : Prop := x = Done \/ x = Throw.

(* Every program fragment is configuration-neutral: started with configuration c on top of ANY stack k it
   comes back to exactly that stack with exactly that configuration, by normal completion or by an
   exception, whatever it contains (blocks at any depth, failing constructions, raise, try). *)
Lemma iter_compose : forall n m ts ts' ts'', iter n ts = ts' -> iter m ts' = ts'' -> iter (n + m) ts = ts''.
Proof. intros. rewrite iter_add. congruence. Qed.

Lemma block_neutral : forall p c k tr,
  exists n r tr', (1 <= n <= steps_bound p)%nat /\ is_final r /\
                  iter n (mk c (Run p) k tr) = mk c r k tr'.
Proof.
  induction p as [|p IHp q IHq|m s b IHb|q| |p IHp]; intros c k tr.
  - exists 1%nat, Done, tr. cbn. repeat split; auto; left; reflexivity.
  - destruct (IHp c (FSeq q :: k) tr) as (n1 & r1 & tr1 & Hn1 & Hr1 & E1).
    destruct Hr1 as [-> | ->].
    + destruct (IHq c k tr1) as (n2 & r2 & tr2 & Hn2 & Hr2 & E2).
      exists (1 + (n1 + (1 + n2)))%nat, r2, tr2. split; [cbn [steps_bound]; lia|]. split; [assumption|].
      eapply iter_compose; [reflexivity|]. eapply iter_compose; [exact E1|].
      eapply iter_compose; [reflexivity|]. exact E2.
    + exists (1 + (n1 + 1))%nat, Throw, tr1. split; [cbn [steps_bound]; lia|]. split; [right; reflexivity|].
      eapply iter_compose; [reflexivity|]. eapply iter_compose; [exact E1|]. reflexivity.
  - destruct (enter (norm_spec m s) c) as [c'|e] eqn:En.
    + destruct (IHb c' (FWith c (norm_spec m s) :: k) tr) as (n1 & r1 & tr1 & Hn1 & Hr1 & E1).
      exists (1 + (n1 + 1))%nat, r1, tr1. split; [cbn [steps_bound]; lia|]. split; [assumption|].
      eapply iter_compose; [cbn [iter]; unfold step; cbn [t_ctl t_cur t_stack t_trace mk]; rewrite En; reflexivity|].
      eapply iter_compose; [exact E1|]. destruct Hr1 as [-> | ->]; reflexivity.
    + exists 1%nat, Throw, tr. split; [cbn [steps_bound]; lia|]. split; [right; reflexivity|].
      cbn [iter]. unfold step. cbn [t_ctl t_cur t_stack t_trace mk]. rewrite En. reflexivity.
  - exists 1%nat, (if obs_raises (observe q c) then Throw else Done), (tr ++ [observe q c]).
    split; [cbn; lia|]. split; [destruct (obs_raises _); [right|left]; reflexivity|]. reflexivity.
  - exists 1%nat, Throw, tr. cbn. repeat split; auto; right; reflexivity.
  - destruct (IHp c (FTry :: k) tr) as (n1 & r1 & tr1 & Hn1 & Hr1 & E1).
    exists (1 + (n1 + 1))%nat, Done, tr1. split; [cbn [steps_bound]; lia|]. split; [left; reflexivity|].
    eapply iter_compose; [reflexivity|]. eapply iter_compose; [exact E1|]. destruct Hr1 as [-> | ->]; reflexivity.
Qed.

Lemma run_solo_iter : forall fuel n ts, (n <= fuel)%nat -> halted (iter n ts) = true -> run_solo fuel ts = iter n ts.
Proof.
  induction fuel; intros n ts Hn Hh.
  - assert (n = 0)%nat as -> by lia. reflexivity.
  - cbn [run_solo]. destruct (halted ts) eqn:H0.
    + symmetry. apply halted_iter, H0.
    + destruct n; [cbn in Hh; congruence|]. cbn [iter] in *. apply IHfuel; [lia|assumption].
Qed.

(* a thread that runs a whole program alone halts within steps_bound steps, with the configuration it started with *)
Lemma solo_scoped : forall p c,
  let ts := run_solo (steps_bound p) (start c p) in halted ts = true /\ t_cur ts = c /\ t_stack ts = [].
Proof.
  intros p c. destruct (block_neutral p c [] []) as (n & r & tr' & Hn & Hr & E).
  assert (halted (iter n (start c p)) = true) as Hh.
  { unfold start. rewrite E. destruct Hr as [-> | ->]; reflexivity. }
  cbn zeta. rewrite (run_solo_iter _ n _ (proj2 Hn) Hh). unfold start. rewrite E.
  destruct Hr as [-> | ->]; cbn; auto.
Qed.

(* ----------------------------------------------------------------------------- threads *)
Lemma gstep_other : forall g t u, u <> t -> gstep g t u = g u.
Proof. intros. unfold gstep. destruct (Nat.eqb u t) eqn:E; [apply Nat.eqb_eq in E; contradiction|reflexivity]. Qed.

Lemma gstep_self : forall g t, gstep g t t = step (g t).
Proof. intros. unfold gstep. rewrite Nat.eqb_refl. reflexivity. Qed.

(* under ANY schedule a thread's state is what its own steps alone produce *)
Lemma grun_local : forall sched g t, grun sched g t = iter (count_tid t sched) (g t).
Proof.
  induction sched as [|a s IH]; intros g t; [reflexivity|].
  unfold grun in *. cbn [fold_left]. rewrite IH. unfold count_tid. cbn [filter].
  destruct (Nat.eqb t a) eqn:E.
  - apply Nat.eqb_eq in E. subst a. rewrite gstep_self. reflexivity.
  - rewrite gstep_other; [reflexivity|]. intros ->. rewrite Nat.eqb_refl in E. discriminate.
Qed.

(* scoped under interleaving: once thread t stands before a program fragment with configuration c and stack k,
   there is a number of ITS OWN steps after which -- whatever the other threads did in between -- it is back at
   stack k with configuration c *)
Lemma scoped_any_schedule : forall g t p c k tr,
  g t = mk c (Run p) k tr ->
  exists n, (1 <= n <= steps_bound p)%nat /\
    forall sched, count_tid t sched = n ->
      t_cur (grun sched g t) = c /\ t_stack (grun sched g t) = k /\ is_final (t_ctl (grun sched g t)).
Proof.
  intros g t p c k tr Hg. destruct (block_neutral p c k tr) as (n & r & tr' & Hn & Hr & E).
  exists n. split; [assumption|]. intros sched Hc. rewrite grun_local, Hc, Hg, E. cbn. auto.
Qed.

(* ------------------------------------------------- the stack determines the configuration *)
Fixpoint stack_inv (base : config) (k : list frame) (cur : config) : Prop :=
  match k with
  | [] => cur = base
  | FWith old s :: k' => enter s old = Ok cur /\ stack_inv base k' old
  | _ :: k' => stack_inv base k' cur
  end.

Definition ts_inv (base : config) (ts : tstate) : Prop := stack_inv base (t_stack ts) (t_cur ts).

Lemma step_inv : forall base ts, ts_inv base ts -> ts_inv base (step ts).
Proof.
  intros base [c x k tr]. unfold ts_inv, step. cbn [t_cur t_ctl t_stack t_trace].
  destruct x as [p| |].
  - destruct p; cbn; auto.
    destruct (enter (norm_spec m s) c) eqn:En; cbn; auto.
  - destruct k as [|[q|old s|] k']; cbn; tauto.
  - destruct k as [|[q|old s|] k']; cbn; tauto.
Qed.

Lemma iter_inv : forall n base ts, ts_inv base ts -> ts_inv base (iter n ts).
Proof. induction n; intros; cbn; [assumption|]. apply IHn, step_inv; assumption. Qed.

Lemma reachable_inv : forall sched g t base p,
  g t = start base p -> ts_inv base (grun sched g t).
Proof. intros. rewrite grun_local. apply iter_inv. rewrite H. reflexivity. Qed.

Section Field.
  Context {A : Type} (pc : config -> option A) (ps : cspec -> option A).
  Hypothesis Henter : forall s old cur, enter s old = Ok cur -> pc cur = ov (ps s) (pc old).

  Lemma inv_field : forall base k cur, stack_inv base k cur ->
    pc cur = match innermost ps (specs_of k) with Some v => Some v | None => pc base end.
  Proof.
    intros base k. induction k as [|[q|old s|] k' IH]; intros cur H; cbn in *.
    - subst. reflexivity.
    - apply IH, H.
    - destruct H as [He Hk]. rewrite (Henter _ _ _ He). unfold ov. destruct (ps s); [reflexivity|]. apply IH, Hk.
    - apply IH, H.
  Qed.
End Field.

Lemma enter_inv : forall s old cur, enter s old = Ok cur ->
  exists b, check_backend s old = Ok b /\
  c_backend cur = ov b (c_backend old) /\ c_njobs cur = ov (s_njobs s) (c_njobs old) /\
  c_verbose cur = ov (s_verbose s) (c_verbose old) /\ c_temp cur = ov (s_temp s) (c_temp old) /\
  c_maxnb cur = ov (s_maxnb s) (c_maxnb old) /\ c_mmap cur = ov (s_mmap s) (c_mmap old) /\
  c_prefer cur = ov (s_prefer s) (c_prefer old) /\ c_require cur = ov (s_require s) (c_require old).
Proof.
  intros s old cur. unfold enter. destruct (check_backend s old) as [b|]; cbn [bind]; [|discriminate].
  intros H; inversion H; subst; cbn. exists b. repeat split; reflexivity.
Qed.

(* the class named by a block's backend argument *)
Definition spec_kind (s : cspec) : option ckind :=
  match s_backend s with Some (BInst k _) => Some k | _ => None end.

Lemma enter_kind : forall s old cur, enter s old = Ok cur ->
  option_map ck (c_backend cur) = ov (spec_kind s) (option_map ck (c_backend old)).
Proof.
  intros s old cur H. destruct (enter_inv _ _ _ H) as (b & Hb & Hbk & _). rewrite Hbk. unfold spec_kind.
  unfold check_backend in Hb. destruct (s_backend s) as [[k l|]|];
    repeat match type of Hb with context [if ?c then _ else _] => destruct c end;
    inversion Hb; subst; reflexivity.
Qed.

Ltac field_lemma :=
  let s0 := fresh in let o0 := fresh in let c0 := fresh in let H0 := fresh in
  intros s0 o0 c0 H0; destruct (enter_inv _ _ _ H0) as (? & _ & ? & ? & ? & ? & ? & ? & ? & ?); assumption.

Lemma inv_all_fields : forall k cur, stack_inv default_config k cur ->
  let sp := specs_of k in
  c_njobs cur = innermost s_njobs sp /\ c_verbose cur = innermost s_verbose sp /\
  c_temp cur = innermost s_temp sp /\ c_maxnb cur = innermost s_maxnb sp /\
  c_mmap cur = innermost s_mmap sp /\ c_prefer cur = innermost s_prefer sp /\
  c_require cur = innermost s_require sp /\ option_map ck (c_backend cur) = innermost spec_kind sp.
Proof.
  intros k cur H. cbn zeta.
  assert (forall {A} (o : option A), match o with Some v => Some v | None => None end = o) as Hid by (intros A []; reflexivity).
  repeat split.
  - rewrite (inv_field c_njobs s_njobs ltac:(field_lemma) _ _ _ H). apply Hid.
  - rewrite (inv_field c_verbose s_verbose ltac:(field_lemma) _ _ _ H). apply Hid.
  - rewrite (inv_field c_temp s_temp ltac:(field_lemma) _ _ _ H). apply Hid.
  - rewrite (inv_field c_maxnb s_maxnb ltac:(field_lemma) _ _ _ H). apply Hid.
  - rewrite (inv_field c_mmap s_mmap ltac:(field_lemma) _ _ _ H). apply Hid.
  - rewrite (inv_field c_prefer s_prefer ltac:(field_lemma) _ _ _ H). apply Hid.
  - rewrite (inv_field c_require s_require ltac:(field_lemma) _ _ _ H). apply Hid.
  - rewrite (inv_field (fun c => option_map ck (c_backend c)) spec_kind enter_kind _ _ _ H). apply Hid.
Qed.

Lemma gcp_prio : forall {A} (arg : option A) (f : cspec -> option A) sp d,
  gcp arg (innermost f sp) d = prio arg f sp d.
Proof. reflexivity. Qed.

(* --------------------------------------------------- _get_active_backend / Parallel.__init__ *)
Definition res_prefer (a : pargs) (c : config) : Z := gcp (a_prefer a) (c_prefer c) d_prefer.
Definition res_require (a : pargs) (c : config) : Z := gcp (a_require a) (c_require c) d_require.

(* the forced thread fallback of _get_active_backend fires *)
Definition forced (a : pargs) (c : config) : bool :=
  force_threads (match c_backend c with Some _ => true | None => false end)
                (match c_backend c with Some b => b | None => default_cbk end)
                (res_prefer a c) (res_require a c).

Lemma active_backend_inv : forall a c ab ctx,
  active_backend (a_prefer a) (a_require a) c = Ok (ab, ctx) ->
  valid_prefer (res_prefer a c) = true /\ valid_require (res_require a c) = true /\
  c_verbose ctx = c_verbose c /\ c_temp ctx = c_temp c /\ c_maxnb ctx = c_maxnb c /\ c_mmap ctx = c_mmap c /\
  c_prefer ctx = c_prefer c /\ c_require ctx = c_require c /\
  let b := match c_backend c with Some b => b | None => default_cbk end in
  ((forced a c = true /\ ab = {| ck := BThr; clevel := clevel b |} /\ c_njobs ctx = Some (Some 1)) \/
   (forced a c = false /\ c_njobs ctx = c_njobs c /\
    (ab = b \/ (c_backend c = None /\ ab = {| ck := BLoky; clevel := clevel b |})))).
Proof.
  intros a c ab ctx. unfold active_backend, active_backend_dk, forced, res_prefer, res_require.
  set (prefer := gcp (a_prefer a) (c_prefer c) d_prefer). set (require := gcp (a_require a) (c_require c) d_require).
  destruct (valid_prefer prefer) eqn:Vp; cbn [negb]; [|discriminate].
  destruct (valid_require require) eqn:Vr; cbn [negb]; [|discriminate].
  destruct ((prefer =? 2) && (require =? 1)) eqn:Inc; [discriminate|].
  assert (gcp None (option_map Some (c_backend c)) None = c_backend c) as -> by (destruct (c_backend c); reflexivity).
  destruct (c_backend c) as [b|] eqn:Eb.
  2: change {| ck := BLoky; clevel := 0 |} with default_cbk.
  - destruct (force_threads true b prefer require) eqn:Ft.
    + intros H; inversion H; subst. cbn. repeat split; auto.
    + destruct (force_processes true b prefer) eqn:Fp; [cbn in Fp; discriminate|].
      intros H; inversion H; subst. repeat split; auto.
  - destruct (force_threads false default_cbk prefer require) eqn:Ft.
    + intros H; inversion H; subst. cbn. repeat split; auto.
    + destruct (force_processes false default_cbk prefer) eqn:Fp.
      * intros H; inversion H; subst. repeat split; auto.
      * intros H; inversion H; subst. repeat split; auto.
Qed.

Definition njobs_arg (a : pargs) : option Z := match a_njobs a with Some (Some n) => Some n | _ => None end.

(* everything Parallel.__init__ computes, in terms of the arguments and the thread's current configuration *)
Lemma parallel_init_inv : forall a c r, parallel_init a c = Ok r ->
  r_verbose r = gcp (a_verbose a) (c_verbose c) d_verbose /\
  r_kw_verbose r = Z.max 0 (r_verbose r - 50) /\
  r_kw_temp r = gcp (a_temp a) (c_temp c) d_temp /\
  r_kw_mmap r = gcp (a_mmap a) (c_mmap c) d_mmap /\
  r_kw_prefer r = res_prefer a c /\ r_kw_require r = res_require a c /\
  conv_maxnb (gcp (a_maxnb a) (c_maxnb c) d_maxnb) = Ok (r_kw_maxnb r) /\
  valid_prefer (res_prefer a c) = true /\ valid_require (res_require a c) = true /\
  (* n_jobs *)
  (forall n, njobs_arg a = Some n -> r_njobs r = n) /\
  (njobs_arg a = None -> forced a c = false ->
     r_njobs r = match c_njobs c with Some (Some n) => n | _ => default_n_jobs (r_kind r) end) /\
  (njobs_arg a = None -> forced a c = true -> r_njobs r = 1) /\
  (* backend *)
  (forall kd l, a_backend a = Some (BInst kd l) -> r_kind r = kd) /\
  a_backend a <> Some BInvalid /\
  (a_backend a = None -> forced a c = true -> r_kind r = BThr) /\
  (a_backend a = None -> forced a c = false -> forall b, c_backend c = Some b -> r_kind r = ck b /\ r_level r = clevel b) /\
  (a_backend a = None -> forced a c = false -> c_backend c = None -> r_kind r = BLoky /\ r_level r = 0) /\
  (a_require a = Some 1 -> supports_sharedmem (r_kind r) = true).
Proof.
  intros a c r. unfold parallel_init, parallel_init_with.
  destruct (active_backend (a_prefer a) (a_require a) c) as [[ab ctx]|] eqn:Ea; cbn [bind]; [|discriminate].
  destruct (active_backend_inv _ _ _ _ Ea) as (Vp & Vr & Hv & Ht & Hm & Hmm & Hp & Hr & Hcase).
  rewrite Hv, Ht, Hm, Hmm, Hp, Hr.
  destruct (conv_maxnb (gcp (a_maxnb a) (c_maxnb c) d_maxnb)) as [kwm|] eqn:Ec; cbn [bind]; [|discriminate].
  fold (njobs_arg a).
  destruct (a_backend a) as [[kd l|]|] eqn:Eb; cbn [bind]; try discriminate.
  - (* explicit backend argument *)
    match goal with |- (if ?cond then _ else _) = _ -> _ => destruct cond eqn:Esh end; [discriminate|].
    intros H; inversion H; subst; clear H.
    cbn [r_kind r_level r_njobs r_verbose r_kw_maxnb r_kw_temp r_kw_mmap r_kw_prefer r_kw_require r_kw_verbose ck clevel].
    do 7 (split; [reflexivity|]). split; [assumption|]. split; [assumption|].
    split; [intros n Hn; rewrite Hn; reflexivity|].
    split.
    { intros Hn Hf. rewrite Hn. cbn [option_map gcp]. destruct Hcase as [(Hf' & _) | (_ & Hnj & _)]; [congruence|].
      rewrite Hnj. destruct (c_njobs c) as [[n|]|]; reflexivity. }
    split.
    { intros Hn Hf. rewrite Hn. cbn [option_map gcp]. destruct Hcase as [(_ & _ & Hnj) | (Hf' & _)]; [|congruence].
      rewrite Hnj. reflexivity. }
    split; [intros kd' l' E; inversion E; reflexivity|].
    split; [discriminate|]. do 3 (split; [intros E; discriminate E|]).
    intros Hreq. rewrite Hreq in Esh. cbn [ck] in Esh. destruct (supports_sharedmem kd); [reflexivity|discriminate Esh].
  - (* backend left to the context / default *)
    match goal with |- (if ?cond then _ else _) = _ -> _ => destruct cond eqn:Esh end; [discriminate|].
    intros H; inversion H; subst; clear H.
    cbn [r_kind r_level r_njobs r_verbose r_kw_maxnb r_kw_temp r_kw_mmap r_kw_prefer r_kw_require r_kw_verbose].
    do 7 (split; [reflexivity|]). split; [assumption|]. split; [assumption|].
    split; [intros n Hn; rewrite Hn; reflexivity|].
    split.
    { intros Hn Hf. rewrite Hn. cbn [option_map gcp]. destruct Hcase as [(Hf' & _) | (_ & Hnj & _)]; [congruence|].
      rewrite Hnj. destruct (c_njobs c) as [[n|]|]; reflexivity. }
    split.
    { intros Hn Hf. rewrite Hn. cbn [option_map gcp]. destruct Hcase as [(_ & _ & Hnj) | (Hf' & _)]; [|congruence].
      rewrite Hnj. reflexivity. }
    split; [intros kd' l' E; discriminate|].
    split; [discriminate|].
    split.
    { intros _ Hf. destruct Hcase as [(_ & -> & _) | (Hf' & _)]; [reflexivity|congruence]. }
    split.
    { intros _ Hf b Hbc. destruct Hcase as [(Hf' & _) | (_ & _ & Hab)]; [congruence|]. rewrite Hbc in Hab.
      destruct Hab as [-> | [Hnone _]]; [split; reflexivity|congruence]. }
    split.
    { intros _ Hf Hbc. destruct Hcase as [(Hf' & _) | (_ & _ & Hab)]; [congruence|]. rewrite Hbc in Hab.
      destruct Hab as [-> | [_ ->]]; split; reflexivity. }
    intros Hreq. rewrite Hreq in Esh. destruct (supports_sharedmem (ck ab)); [reflexivity|discriminate Esh].
Qed.

(* when the resolved constraint is 'sharedmem' and the backend is not passed explicitly, the backend has shared memory *)
Lemma sharedmem_resolved : forall a c r, parallel_init a c = Ok r ->
  res_require a c = 1 -> a_backend a = None -> supports_sharedmem (r_kind r) = true.
Proof.
  intros a c r H Hreq Hb.
  destruct (parallel_init_inv _ _ _ H) as (_ & _ & _ & _ & _ & _ & _ & _ & _ & _ & _ & _ & _ & _ & Hft & Hctx & Hdef & _).
  destruct (forced a c) eqn:Hf.
  - rewrite (Hft Hb eq_refl). reflexivity.
  - unfold forced, force_threads in Hf. rewrite Hreq in Hf. cbn [Z.eqb Pos.eqb andb] in Hf.
    destruct (c_backend c) as [b|] eqn:Eb.
    + destruct (Hctx Hb eq_refl b eq_refl) as [-> _]. destruct (supports_sharedmem (ck b)); [reflexivity|discriminate].
    + cbn in Hf. discriminate.
Qed.

(* prefer is only a hint: a backend named by the context is kept unless require='sharedmem' forbids it *)
Lemma prefer_hint_ctx : forall a c r b, parallel_init a c = Ok r ->
  a_backend a = None -> c_backend c = Some b -> res_require a c <> 1 -> r_kind r = ck b /\ r_level r = clevel b.
Proof.
  intros a c r b H Hb Hc Hreq.
  destruct (parallel_init_inv _ _ _ H) as (_ & _ & _ & _ & _ & _ & _ & _ & _ & _ & _ & _ & _ & _ & _ & Hctx & _).
  apply Hctx; try assumption. unfold forced, force_threads. rewrite Hc. cbn [negb andb].
  assert (res_require a c =? 1 = false) as -> by lia. reflexivity.
Qed.

(* with no backend named anywhere, the hints choose: threads for require='sharedmem' or prefer='threads', else loky *)
Lemma backend_from_hints : forall a c r, parallel_init a c = Ok r ->
  a_backend a = None -> c_backend c = None ->
  r_kind r = if (res_require a c =? 1) || (res_prefer a c =? 1) then BThr else BLoky.
Proof.
  intros a c r H Hb Hc.
  destruct (parallel_init_inv _ _ _ H) as (_ & _ & _ & _ & _ & _ & _ & _ & _ & _ & _ & _ & _ & _ & Hft & _ & Hdef & _).
  destruct (forced a c) eqn:Hf.
  - rewrite (Hft Hb eq_refl). unfold forced, force_threads in Hf. rewrite Hc in Hf. cbn in Hf.
    rewrite !andb_true_r in Hf. rewrite Hf. reflexivity.
  - destruct (Hdef Hb eq_refl Hc) as [-> _]. unfold forced, force_threads in Hf. rewrite Hc in Hf. cbn in Hf.
    rewrite !andb_true_r in Hf. rewrite Hf. reflexivity.
Qed.

(* ------------------------------------------- the regenerated _get_active_backend = the hand model *)
Lemma src_active_backend_eq : forall dk p r v c,
  src_get_active_backend dk p r v c = active_backend_dk dk p r c.
Proof.
  intros. unfold src_get_active_backend, active_backend_dk, force_threads, force_processes.
  assert (gcp None (option_map Some (c_backend c)) None = c_backend c) as -> by (destruct (c_backend c); reflexivity).
  destruct (c_backend c) as [b|]; cbn [bind];
  repeat match goal with |- context [if ?x then _ else _] => destruct x eqn:? end; cbn [bind negb andb orb] in *;
  try reflexivity; try congruence; try discriminate.
Qed.

(* Parallel.__init__ on top of the REGENERATED _get_active_backend (dk = the registered default backend class) *)
Definition parallel_init_src (dk : ckind) (a : pargs) (c : config) : result pres :=
  parallel_init_with (fun p r cfg => src_get_active_backend dk p r (a_verbose a) cfg) a c.

Lemma parallel_init_src_eq_dk : forall dk a c, parallel_init_src dk a c = parallel_init_dk dk a c.
Proof. intros. unfold parallel_init_src, parallel_init_dk, parallel_init_with. rewrite src_active_backend_eq. reflexivity. Qed.

Lemma parallel_init_src_eq : forall a c, parallel_init_src BLoky a c = parallel_init a c.
Proof. intros. rewrite parallel_init_src_eq_dk. reflexivity. Qed.

(* ---------------------------------------------------------------- statements of Props/C17.v (the file Props/C17.v only restates them and closes each with `exact`) *)
Definition spec_empty : cspec :=
  {| s_backend := None; s_njobs := None; s_verbose := None; s_temp := None; s_maxnb := None; s_mmap := None;
     s_prefer := None; s_require := None;
     s_byname := false; s_inner := None; s_params := false |}.

Definition args_empty : pargs :=
  {| a_njobs := None; a_backend := None; a_verbose := None; a_temp := None; a_maxnb := None; a_mmap := None;
     a_prefer := None; a_require := None |}.

Definition F16_spec : cspec :=
  {| s_backend := None; s_njobs := Some (Some 2); s_verbose := None; s_temp := None; s_maxnb := None; s_mmap := None;
     s_prefer := None; s_require := None;
     s_byname := false; s_inner := None; s_params := false |}.

Definition F16_args : pargs :=
  {| a_njobs := None; a_backend := None; a_verbose := None; a_temp := None; a_maxnb := None; a_mmap := None;
     a_prefer := Some 1; a_require := None |}.

Definition F17_spec : cspec :=
  {| s_backend := None; s_njobs := None; s_verbose := None; s_temp := None; s_maxnb := None; s_mmap := None;
     s_prefer := None; s_require := Some 1;
     s_byname := false; s_inner := None; s_params := false |}.

Definition F17_args : pargs :=
  {| a_njobs := Some (Some 2); a_backend := Some (BInst BLoky None); a_verbose := None; a_temp := None; a_maxnb := None;
     a_mmap := None; a_prefer := None; a_require := None |}.

Lemma C17_translation_matches_model_holds : forall (V : Type) (param ctxv : option V) (dflt : V),
  get_config_param param ctxv dflt = Ok (gcp param ctxv dflt) /\
  gcp param ctxv dflt = match param with Some v => v | None => match ctxv with Some v => v | None => dflt end end.
Proof. intros. split; [apply gen_gcp_eq | reflexivity]. Qed.

Lemma C17_thread_local_holds :
  (forall g t u, u <> t -> gstep g t u = g u) /\
  (forall sched g t, grun sched g t = iter (count_tid t sched) (g t)).
Proof. split; [exact gstep_other | exact grun_local]. Qed.

Lemma C17_reachable_config_holds : forall sched g t p,
  g t = start default_config p ->
  stack_inv default_config (t_stack (grun sched g t)) (t_cur (grun sched g t)).
Proof. intros. exact (reachable_inv sched g t default_config p H). Qed.

Lemma C17_priority_holds : forall k cur a r,
  stack_inv default_config k cur -> parallel_init a cur = Ok r ->
  let sp := specs_of k in
  r_verbose r = prio (a_verbose a) s_verbose sp d_verbose /\
  r_kw_verbose r = Z.max 0 (prio (a_verbose a) s_verbose sp d_verbose - 50) /\
  r_kw_temp r = prio (a_temp a) s_temp sp d_temp /\
  r_kw_mmap r = prio (a_mmap a) s_mmap sp d_mmap /\
  r_kw_prefer r = prio (a_prefer a) s_prefer sp d_prefer /\
  r_kw_require r = prio (a_require a) s_require sp d_require /\
  conv_maxnb (prio (a_maxnb a) s_maxnb sp d_maxnb) = Ok (r_kw_maxnb r) /\
  (forall n, njobs_arg a = Some n -> r_njobs r = n) /\
  (njobs_arg a = None -> forced a cur = false ->
     r_njobs r = match innermost s_njobs sp with Some (Some n) => n | _ => default_n_jobs (r_kind r) end) /\
  (forall kd l, a_backend a = Some (BInst kd l) -> r_kind r = kd) /\
  (a_backend a = None -> forced a cur = false ->
     r_kind r = match innermost spec_kind sp with Some kd => kd | None => BLoky end).
Proof.
  intros k cur a r Hinv H. cbn zeta.
  destruct (inv_all_fields k cur Hinv) as (Hn & Hv & Ht & Hm & Hmm & Hp & Hr & Hb).
  destruct (parallel_init_inv a cur r H) as
    (Pv & Pkv & Pt & Pmm & Pp & Pr & Pm & _ & _ & Pn1 & Pn2 & _ & Pb1 & _ & _ & Pb3 & Pb4 & _).
  unfold res_prefer, res_require in *. rewrite Hv in Pv. rewrite Ht in Pt. rewrite Hmm in Pmm. rewrite Hp in Pp.
  rewrite Hr in Pr. rewrite Hm in Pm. rewrite Hn in Pn2. rewrite Pv in Pkv.
  repeat (split; [assumption|]).
  intros Ha Hf. rewrite <- Hb. destruct (c_backend cur) as [b|] eqn:Eb; cbn [option_map].
  - exact (proj1 (Pb3 Ha Hf b eq_refl)).
  - exact (proj1 (Pb4 Ha Hf eq_refl)).
Qed.

Lemma C17_priority_forced_fallback_holds : forall cur a r,
  parallel_init a cur = Ok r -> forced a cur = true ->
  (njobs_arg a = None -> r_njobs r = 1) /\ (a_backend a = None -> r_kind r = BThr).
Proof.
  intros cur a r H Hf.
  destruct (parallel_init_inv a cur r H) as (_ & _ & _ & _ & _ & _ & _ & _ & _ & _ & _ & Pn3 & _ & _ & Pb2 & _).
  split; intros; auto.
Qed.

Lemma C17_priority_njobs_refuted_holds : exists k cur a r,
  stack_inv default_config k cur /\ parallel_init a cur = Ok r /\
  njobs_arg a = None /\ a_backend a = None /\ innermost spec_kind (specs_of k) = None /\
  innermost s_njobs (specs_of k) = Some (Some 2) /\ r_njobs r = 1.
Proof.
  eexists [FWith default_config F16_spec], _, F16_args, _.
  split; [split; [vm_compute; reflexivity|reflexivity]|]. split; [vm_compute; reflexivity|].
  repeat split.
Qed.

Lemma C17_sharedmem_holds : forall a c r, parallel_init a c = Ok r ->
  (a_require a = Some 1 -> supports_sharedmem (r_kind r) = true) /\
  (res_require a c = 1 -> a_backend a = None -> supports_sharedmem (r_kind r) = true).
Proof.
  intros a c r H. split.
  - destruct (parallel_init_inv a c r H) as (_ & _ & _ & _ & _ & _ & _ & _ & _ & _ & _ & _ & _ & _ & _ & _ & _ & Hs).
    exact Hs.
  - exact (sharedmem_resolved a c r H).
Qed.

Lemma C17_sharedmem_context_refuted_holds : exists k cur a r,
  stack_inv default_config k cur /\ parallel_init a cur = Ok r /\
  r_kw_require r = 1 /\ supports_sharedmem (r_kind r) = false.
Proof.
  eexists [FWith default_config F17_spec], _, F17_args, _.
  split; [split; [vm_compute; reflexivity|reflexivity]|]. split; [vm_compute; reflexivity|]. split; reflexivity.
Qed.

Lemma C17_prefer_hint_holds : forall a c r, parallel_init a c = Ok r ->
  (forall kd l, a_backend a = Some (BInst kd l) -> r_kind r = kd) /\
  (forall b, a_backend a = None -> c_backend c = Some b -> res_require a c <> 1 ->
     r_kind r = ck b /\ r_level r = clevel b) /\
  (a_backend a = None -> c_backend c = None ->
     r_kind r = if (res_require a c =? 1) || (res_prefer a c =? 1) then BThr else BLoky).
Proof.
  intros a c r H. split; [|split].
  - destruct (parallel_init_inv a c r H) as (_ & _ & _ & _ & _ & _ & _ & _ & _ & _ & _ & _ & Hb & _). exact Hb.
  - intros b Hb Hc Hr. exact (prefer_hint_ctx a c r b H Hb Hc Hr).
  - exact (backend_from_hints a c r H).
Qed.

Lemma C17_invalid_rejected_holds : forall a c r, parallel_init a c = Ok r ->
  valid_prefer (res_prefer a c) = true /\ valid_require (res_require a c) = true /\
  a_backend a <> Some BInvalid.
Proof.
  intros a c r H.
  destruct (parallel_init_inv a c r H) as (_ & _ & _ & _ & _ & _ & _ & Vp & Vr & _ & _ & _ & _ & Hb & _).
  auto.
Qed.

(* the same statements about Parallel.__init__ running the REGENERATED _get_active_backend *)
Lemma C17_priority_src : forall k cur a r,
  stack_inv default_config k cur -> parallel_init_src BLoky a cur = Ok r ->
  let sp := specs_of k in
  r_verbose r = prio (a_verbose a) s_verbose sp d_verbose /\
  r_kw_verbose r = Z.max 0 (prio (a_verbose a) s_verbose sp d_verbose - 50) /\
  r_kw_temp r = prio (a_temp a) s_temp sp d_temp /\
  r_kw_mmap r = prio (a_mmap a) s_mmap sp d_mmap /\
  r_kw_prefer r = prio (a_prefer a) s_prefer sp d_prefer /\
  r_kw_require r = prio (a_require a) s_require sp d_require /\
  conv_maxnb (prio (a_maxnb a) s_maxnb sp d_maxnb) = Ok (r_kw_maxnb r) /\
  (forall n, njobs_arg a = Some n -> r_njobs r = n) /\
  (njobs_arg a = None -> forced a cur = false ->
     r_njobs r = match innermost s_njobs sp with Some (Some n) => n | _ => default_n_jobs (r_kind r) end) /\
  (forall kd l, a_backend a = Some (BInst kd l) -> r_kind r = kd) /\
  (a_backend a = None -> forced a cur = false ->
     r_kind r = match innermost spec_kind sp with Some kd => kd | None => BLoky end).
Proof. intros *. rewrite parallel_init_src_eq. apply C17_priority_holds. Qed.

Lemma C17_priority_forced_fallback_src : forall cur a r,
  parallel_init_src BLoky a cur = Ok r -> forced a cur = true ->
  (njobs_arg a = None -> r_njobs r = 1) /\ (a_backend a = None -> r_kind r = BThr).
Proof. intros *. rewrite parallel_init_src_eq. apply C17_priority_forced_fallback_holds. Qed.

Lemma C17_priority_njobs_refuted_src : exists k cur a r,
  stack_inv default_config k cur /\ parallel_init_src BLoky a cur = Ok r /\
  njobs_arg a = None /\ a_backend a = None /\ innermost spec_kind (specs_of k) = None /\
  innermost s_njobs (specs_of k) = Some (Some 2) /\ r_njobs r = 1.
Proof.
  destruct C17_priority_njobs_refuted_holds as (k & cur & a & r & H). exists k, cur, a, r. rewrite parallel_init_src_eq. exact H.
Qed.

Lemma C17_sharedmem_src : forall a c r, parallel_init_src BLoky a c = Ok r ->
  (a_require a = Some 1 -> supports_sharedmem (r_kind r) = true) /\
  (res_require a c = 1 -> a_backend a = None -> supports_sharedmem (r_kind r) = true).
Proof. intros *. rewrite parallel_init_src_eq. apply C17_sharedmem_holds. Qed.

Lemma C17_sharedmem_context_refuted_src : exists k cur a r,
  stack_inv default_config k cur /\ parallel_init_src BLoky a cur = Ok r /\
  r_kw_require r = 1 /\ supports_sharedmem (r_kind r) = false.
Proof.
  destruct C17_sharedmem_context_refuted_holds as (k & cur & a & r & H). exists k, cur, a, r. rewrite parallel_init_src_eq. exact H.
Qed.

Lemma C17_prefer_hint_src : forall a c r, parallel_init_src BLoky a c = Ok r ->
  (forall kd l, a_backend a = Some (BInst kd l) -> r_kind r = kd) /\
  (forall b, a_backend a = None -> c_backend c = Some b -> res_require a c <> 1 ->
     r_kind r = ck b /\ r_level r = clevel b) /\
  (a_backend a = None -> c_backend c = None ->
     r_kind r = if (res_require a c =? 1) || (res_prefer a c =? 1) then BThr else BLoky).
Proof. intros *. rewrite parallel_init_src_eq. apply C17_prefer_hint_holds. Qed.

Lemma C17_invalid_rejected_src : forall a c r, parallel_init_src BLoky a c = Ok r ->
  valid_prefer (res_prefer a c) = true /\ valid_require (res_require a c) = true /\
  a_backend a <> Some BInvalid.
Proof. intros *. rewrite parallel_init_src_eq. apply C17_invalid_rejected_holds. Qed.

(* what the REGENERATED _get_active_backend returns, for every registered default backend class dk *)
Lemma src_active_backend_spec : forall dk p r v c b ctx,
  src_get_active_backend dk p r v c = Ok (b, ctx) ->
  let prefer := gcp p (c_prefer c) d_prefer in
  let require := gcp r (c_require c) d_require in
  let explicit := match c_backend c with Some _ => true | None => false end in
  let b0 := match c_backend c with Some b0 => b0 | None => {| ck := dk; clevel := 0 |} end in
  valid_prefer prefer = true /\ valid_require require = true /\ (prefer =? 2) && (require =? 1) = false /\
  ctx = (if force_threads explicit b0 prefer require then set_njobs c (Some (Some 1)) else c) /\
  b = (if force_threads explicit b0 prefer require then {| ck := BThr; clevel := clevel b0 |}
       else if force_processes explicit b0 prefer then {| ck := BLoky; clevel := clevel b0 |} else b0) /\
  clevel b = clevel b0.
Proof.
  intros dk p r v c b ctx. rewrite src_active_backend_eq. unfold active_backend_dk.
  assert (gcp None (option_map Some (c_backend c)) None = c_backend c) as -> by (destruct (c_backend c); reflexivity).
  set (prefer := gcp p (c_prefer c) d_prefer). set (require := gcp r (c_require c) d_require). cbn zeta.
  destruct (valid_prefer prefer) eqn:Vp; cbn [negb]; [|discriminate].
  destruct (valid_require require) eqn:Vr; cbn [negb]; [|discriminate].
  destruct ((prefer =? 2) && (require =? 1)) eqn:Inc; [discriminate|].
  destruct (c_backend c) as [b0|];
    match goal with |- context [force_threads ?e ?bb prefer require] => destruct (force_threads e bb prefer require) end;
    try match goal with |- context [force_processes ?e ?bb prefer] => destruct (force_processes e bb prefer) end;
    intros H; inversion H; subst; repeat split; reflexivity.
Qed.

(* hints, when no context names a backend: prefer='threads' / require='sharedmem' replace a default backend that is not
   thread-based by ThreadingBackend; prefer='processes' replaces a thread-based default by LokyBackend *)
Lemma src_active_backend_hints : forall dk p r v c b ctx,
  src_get_active_backend dk p r v c = Ok (b, ctx) -> c_backend c = None ->
  let prefer := gcp p (c_prefer c) d_prefer in
  let require := gcp r (c_require c) d_require in
  (require = 1 -> supports_sharedmem (ck b) = true) /\
  (prefer = 1 -> uses_threads (ck b) = true) /\
  (prefer = 2 -> uses_threads (ck b) = false \/ ck b = BLoky) /\
  (prefer = 0 -> require = 0 -> b = {| ck := dk; clevel := 0 |} /\ ctx = c).
Proof.
  intros dk p r v c b ctx H Hc. destruct (src_active_backend_spec _ _ _ _ _ _ _ H) as (_ & _ & Inc & Hctx & Hb & _).
  clear H. rewrite Hc in *. cbn zeta. unfold force_threads, force_processes in *. cbn [negb andb] in *.
  set (prefer := gcp p (c_prefer c) d_prefer) in *. set (require := gcp r (c_require c) d_require) in *.
  split; [|split; [|split]].
  - intros Hr. assert (require =? 1 = true) as E3 by lia. rewrite E3 in *. rewrite andb_true_r in Inc. rewrite Inc in *.
    subst b. destruct dk, (prefer =? 1); cbn; reflexivity.
  - intros Hp. assert (prefer =? 1 = true) as E1 by lia. assert (prefer =? 2 = false) as E2 by lia. rewrite E1, E2 in *.
    subst b. destruct dk, (require =? 1); cbn; reflexivity.
  - intros Hp. assert (prefer =? 1 = false) as E1 by lia. assert (prefer =? 2 = true) as E2 by lia. rewrite E1, E2 in *.
    cbn [andb] in Inc. rewrite Inc in *. subst b. destruct dk; cbn; auto.
  - intros Hp Hr. assert (prefer =? 1 = false) as E1 by lia. assert (prefer =? 2 = false) as E2 by lia.
    assert (require =? 1 = false) as E3 by lia. rewrite E1, E2, E3 in *. cbn in Hb, Hctx. rewrite ?orb_false_r in *.
    split; assumption.
Qed.

(* -------------------------------------------------------------------- rejected constructions *)
(* the constructions parallel_config / parallel_backend refuse (whatever the current configuration is) *)
Definition rejected (s : cspec) : bool :=
  match s_backend s with
  | None => is_some (s_inner s) || s_params s
  | Some BInvalid => true
  | Some (BInst k _) => (negb (s_byname s) && s_params s) || (is_some (s_inner s) && negb (supports_inner k))
  end.

Lemma enter_rejected_iff : forall s old, (exists e, enter s old = Raise e) <-> rejected s = true.
Proof.
  intros s old. unfold enter, check_backend, rejected.
  destruct (s_backend s) as [[k l|]|]; cbn [bind];
    repeat match goal with |- context [if ?c then _ else _] => destruct c eqn:? end; cbn [bind orb andb negb] in *;
    split; intros H; try reflexivity; try discriminate; try (destruct H; discriminate); try (eexists; reflexivity).
Qed.

(* a failed construction changes NOTHING: the thread keeps its configuration, its stack of open blocks and its
   observations; only the exception propagates (the new settings are installed as the last statement of __init__) *)
Lemma failed_construction_identity : forall m s body c k tr,
  rejected (norm_spec m s) = true ->
  step (mk c (Run (PWith m s body)) k tr) = mk c Throw k tr.
Proof.
  intros m s body c k tr H. destruct (proj2 (enter_rejected_iff (norm_spec m s) c) H) as [e He].
  unfold step. cbn [t_ctl t_cur t_stack t_trace mk]. rewrite He. reflexivity.
Qed.

(* ... for a thread among others, under any schedule in which it takes exactly that one step *)
Lemma failed_construction_any_schedule : forall g t m s body c k tr sched,
  g t = mk c (Run (PWith m s body)) k tr -> rejected (norm_spec m s) = true -> count_tid t sched = 1%nat ->
  grun sched g t = mk c Throw k tr.
Proof.
  intros g t m s body c k tr sched Hg Hr Hc. rewrite grun_local, Hc, Hg. cbn [iter].
  apply failed_construction_identity, Hr.
Qed.

(* and every later Parallel(...) of the thread resolves exactly as it would have without the failed call:
   `try: with <rejected>: body  except: pass` followed by p behaves as p alone (same configuration, same observations) *)
Lemma failed_construction_invisible : forall m s body p c k tr n,
  rejected (norm_spec m s) = true ->
  iter (5 + n) (mk c (Run (PSeq (PTry (PWith m s body)) p)) k tr) = iter n (mk c (Run p) k tr).
Proof.
  intros m s body p c k tr n H.
  apply (iter_compose 5 n _ (mk c (Run p) k tr)); [|reflexivity].
  apply (iter_compose 2 3 _ (mk c (Run (PWith m s body)) (FTry :: FSeq p :: k) tr)); [reflexivity|].
  cbn [iter]. rewrite (failed_construction_identity _ _ _ _ _ _ H). reflexivity.
Qed.

(* ----------------------------------------------------------------- start method; life of an object *)
Lemma src_mp_context_eq : forall env arg dflt, src_mp_context env arg dflt = Some (mp_context_model env arg dflt).
Proof. intros [e|] [a|] d; reflexivity. Qed.

Lemma mp_context_priority : forall env arg dflt,
  (forall a, arg = Some a -> src_mp_context env arg dflt = Some a) /\
  (forall e, arg = None -> env = Some e -> src_mp_context env arg dflt = Some e) /\
  (arg = None -> env = None -> src_mp_context env arg dflt = Some dflt).
Proof. intros. rewrite src_mp_context_eq. repeat split; intros; subst; reflexivity. Qed.

Lemma orun_res : forall passes ops o, o_res (orun passes ops o) = o_res o.
Proof.
  induction ops as [|op ops IH]; intros o; [reflexivity|]. unfold orun in *. cbn [fold_left]. rewrite IH.
  destruct op; cbn [ostep]; try reflexivity; destruct (o_managed o); reflexivity.
Qed.

(* every configuration the backend ever gets uses the record resolved at construction -- provided abort_everything passes
   the object's backend kwargs on *)
Lemma object_settings_constant : forall ops r,
  Forall (fun c => c = CFull r) (o_calls (orun true ops (new_obj r))).
Proof.
  intros ops r.
  assert (forall ops o, o_res o = r -> Forall (fun c => c = CFull r) (o_calls o) ->
                        Forall (fun c => c = CFull r) (o_calls (orun true ops o))) as G.
  { induction ops0 as [|op ops0 IH]; intros o Hr Ho; [exact Ho|]. unfold orun in *. cbn [fold_left]. apply IH.
    - destruct op; cbn [ostep]; try assumption; destruct (o_managed o); assumption.
    - destruct op; cbn [ostep]; try assumption; try (destruct (o_managed o); try assumption);
        cbn [o_calls]; rewrite Hr; apply Forall_app; split; auto. }
  apply G; [reflexivity|constructor].
Qed.

(* with a backend whose abort_everything does NOT pass them on, a failed call of a managed object reconfigures it bare *)
Lemma object_settings_lost : forall r,
  o_calls (orun false [OEnter; OCallOk; OCallFail; OCallOk] (new_obj r)) = [CFull r; CBare (r_njobs r)].
Proof. reflexivity. Qed.

(* which abort_everything a backend class runs: LokyBackend has its own, every other built-in one PoolManagerMixin's
   (both booleans regenerated from the source) *)
Definition abort_passes (k : ckind) : bool :=
  match k with BLoky => loky_abort_passes_kwargs | _ => pool_abort_passes_kwargs end.

Lemma object_settings_constant_all : forall k ops r,
  abort_passes k = true /\ Forall (fun c => c = CFull r) (o_calls (orun (abort_passes k) ops (new_obj r))).
Proof. intros k ops r. assert (abort_passes k = true) as E by (destruct k; reflexivity). rewrite E. split; [reflexivity|apply object_settings_constant]. Qed.

(* ------------------------------------------------------ class attributes, temp folder, kwargs merge *)
Lemma backend_flags_eq : forall k, src_supports_sharedmem k = supports_sharedmem k /\ src_uses_threads k = uses_threads k.
Proof. intros []; split; reflexivity. Qed.

(* the folder the pool really uses: the temp_folder it was given > JOBLIB_TEMP_FOLDER > /dev/shm when usable > the system one *)
Lemma temp_folder_priority : forall arg env shm tmpdir,
  src_temp_folder arg env shm tmpdir = Some (gcp arg env (gcp shm None tmpdir)).
Proof. intros [a|] [e|] [sh|] d; reflexivity. Qed.

(* kwargs of the call (what Parallel resolved and passes to configure) beat the kwargs carried by the backend object *)
Lemma pool_kwarg_merge : forall obj call,
  src_mp_pool_kwarg obj call = Some (gcp call obj 0) \/ (call = None /\ obj = None /\ src_mp_pool_kwarg obj call = None).
Proof. intros [o|] [c|]; cbn; auto. Qed.

Lemma pool_kwarg_merge_spec : forall obj call,
  (forall v, call = Some v -> src_mp_pool_kwarg obj call = Some v /\ src_loky_executor_kwarg obj call = Some v) /\
  (call = None -> src_mp_pool_kwarg obj call = obj /\ src_loky_executor_kwarg obj call = obj).
Proof. intros [o|] [c|]; split; intros; try discriminate; try (inversion H; subst); split; reflexivity. Qed.

(* loky: with the regenerated facts (temp_folder takes part in the reuse decision), whatever executor is alive and whether or
   not it is reused, the folder used is the one resolved for THIS call *)
Lemma loky_folder_is_given : forall prev given other,
  loky_folder_used reuse_key_has_temp_folder reused_executor_gets_new_manager prev given other = given.
Proof.
  intros prev given other. unfold loky_folder_used. cbn [reuse_key_has_temp_folder reused_executor_gets_new_manager negb orb andb].
  destruct other; cbn [andb]; [|reflexivity]. destruct (prev =? given) eqn:E; cbn; [lia|reflexivity].
Qed.

(* the hypothesis matters (F47): when temp_folder is NOT part of the reuse decision and a reused executor keeps its manager, a
   reused executor keeps the folder it was created with *)
Lemma loky_reused_keeps_old_folder : forall prev given, loky_folder_used false false prev given true = prev.
Proof. reflexivity. Qed.

Lemma loky_fresh_uses_given : forall k m prev given, loky_folder_used k m prev given false = given.
Proof. reflexivity. Qed.

(* ------------------------------------------------- three more regenerated facts (round 7) *)
Lemma default_njobs_owner : default_njobs_of_used_backend = true.
Proof. reflexivity. Qed.

Lemma batch_njobs_same : forall pickled n, batch_njobs_in_worker reduce_keeps_njobs pickled n = n.
Proof. intros [] n; reflexivity. Qed.

Lemma idle_timeout_priority : forall call obj, src_idle_worker_timeout call obj = Ok (gcp call obj 300).
Proof. intros [c|] [o|]; reflexivity. Qed.

(* ------------------------------------------------- round 8: where the settings are used *)
Lemma worker_mode_is_resolved : forall resolved,
  worker_mmap_mode mp_pool_passes_mmap_mode resolved = (if resolved =? 3 then 2 else resolved) /\
  worker_mmap_mode loky_executor_passes_mmap_mode resolved = (if resolved =? 3 then 2 else resolved) /\
  mp_pool_passes_max_nbytes = true /\ loky_executor_passes_max_nbytes = true.
Proof. intros. repeat split; reflexivity. Qed.

(* n_jobs is scoped at the level of the shared loky executor too: whatever blocks ran before (any history of executor
   operations, e.g. a block with n_jobs = 4 that has been left), the executor a later call with resolved n_jobs = n runs on
   has exactly n workers once its tasks are submitted -- the earlier block's size does not leak out of its scope *)
Lemma executor_size_scoped : forall ops n_before args n s' e reused,
  get_executor n args (erun (ops ++ [OGet n_before args; OSubmit]) init_state) = Ok (s', e, reused) ->
  x_max e = n /\ 0 <= x_alive e <= n /\
  (exists e', s_exec (estep s' OSubmit) = Some e' /\ x_max e' = n /\ x_alive e' = n /\ x_id e' = x_id e) /\
  (forall m cur, resize_noop m cur = true -> m = cur).
Proof.
  intros ops n_before args n s' e reused H. destruct (reuse_bounded _ _ _ _ _ _ H) as (A & B & C).
  repeat split; try assumption; try apply B. exact resize_noop_only_equal.
Qed.
