(* List facts used by the M1 (Parallel) proofs. *)
From Coq Require Import List Bool Arith Lia PeanoNat.
Require Import JV.Model.ParallelCore.
Import ListNotations.

(* ---------------- chunks ---------------- *)
Lemma chunks_fuel_concat : forall fuel k l, 1 <= k -> length l <= fuel -> concat (chunks_fuel fuel k l) = l.
Proof.
  induction fuel as [|f IH]; intros k l Hk Hl.
  - destruct l; [reflexivity | cbn in Hl; lia].
  - destruct l as [|x l']; [reflexivity|]. cbn [chunks_fuel concat].
    rewrite IH; [apply firstn_skipn | exact Hk |].
    rewrite skipn_length. cbn [length] in *. lia.
Qed.

Lemma chunks_concat k l : concat (chunks k l) = l.
Proof. unfold chunks. apply chunks_fuel_concat; lia. Qed.

Lemma chunks_fuel_nonempty : forall fuel k l x, 1 <= k -> In x (chunks_fuel fuel k l) -> x <> [].
Proof.
  induction fuel as [|f IH]; intros k l x Hk Hin; [destruct Hin|].
  destruct l as [|y l']; [destruct Hin|]. cbn [chunks_fuel] in Hin. destruct Hin as [<- | Hin].
  - destruct k; [lia|]. cbn. discriminate.
  - eapply IH; eassumption.
Qed.

Lemma chunks_nonempty k l x : In x (chunks k l) -> x <> [].
Proof. unfold chunks. apply chunks_fuel_nonempty. lia. Qed.

Lemma chunks_fuel_size : forall fuel k l x, In x (chunks_fuel fuel k l) -> length x <= k.
Proof.
  induction fuel as [|f IH]; intros k l x Hin; [destruct Hin|].
  destruct l as [|y l']; [destruct Hin|]. cbn [chunks_fuel] in Hin. destruct Hin as [<- | Hin].
  - rewrite firstn_length. lia.
  - eapply IH; eassumption.
Qed.

Lemma chunks_size k l x : In x (chunks k l) -> length x <= Nat.max 1 k.
Proof. unfold chunks. apply chunks_fuel_size. Qed.

Lemma chunks_nil_iff k l : chunks k l = [] <-> l = [].
Proof.
  split; intros H.
  - rewrite <- (chunks_concat k l), H. reflexivity.
  - subst. reflexivity.
Qed.

(* number of chunks is at most the number of items *)
Lemma chunks_fuel_count : forall fuel k l, 1 <= k -> length (chunks_fuel fuel k l) <= length l.
Proof.
  induction fuel as [|f IH]; intros k l Hk; cbn [chunks_fuel length]; [lia|].
  destruct l as [|y l']; cbn [length]; [lia|].
  specialize (IH k (skipn k (y :: l')) Hk). rewrite skipn_length in IH. cbn [length] in IH. lia.
Qed.
Lemma chunks_count k l : length (chunks k l) <= length l.
Proof. unfold chunks. apply chunks_fuel_count. lia. Qed.

(* ---------------- set_nth / nth_error ---------------- *)
Lemma set_nth_length {A} (n : nat) (x : A) l : length (set_nth n x l) = length l.
Proof. revert n; induction l as [|h t IH]; intros [|n]; cbn; auto. Qed.

Lemma nth_error_set_nth_eq {A} (n : nat) (x : A) l : n < length l -> nth_error (set_nth n x l) n = Some x.
Proof. revert n; induction l as [|h t IH]; intros [|n] H; cbn [length set_nth nth_error] in *; try lia; auto. apply IH. lia. Qed.

Lemma nth_error_set_nth_neq {A} (n m : nat) (x : A) l : n <> m -> nth_error (set_nth n x l) m = nth_error l m.
Proof.
  revert n m; induction l as [|h t IH]; intros [|n] [|m] H; cbn; auto; try congruence.
Qed.

(* ---------------- remove_id / mem_id ---------------- *)
Lemma mem_id_In x l : mem_id x l = true <-> In x l.
Proof.
  unfold mem_id. rewrite existsb_exists. split.
  - intros (y & Hy & E). apply Nat.eqb_eq in E. subst. exact Hy.
  - intros H. exists x. split; [exact H | apply Nat.eqb_refl].
Qed.

Lemma mem_id_false x l : mem_id x l = false <-> ~ In x l.
Proof. rewrite <- mem_id_In. destruct (mem_id x l); split; congruence. Qed.

Lemma In_remove_id x y l : In y (remove_id x l) <-> In y l /\ y <> x.
Proof.
  unfold remove_id. rewrite filter_In. split; intros [H1 H2]; split; auto.
  - intros ->. rewrite Nat.eqb_refl in H2. discriminate.
  - destruct (Nat.eqb_spec x y); [subst; congruence | reflexivity].
Qed.

Lemma NoDup_remove_id x l : NoDup l -> NoDup (remove_id x l).
Proof. unfold remove_id. apply NoDup_filter. Qed.

Lemma remove_id_notin x l : ~ In x l -> remove_id x l = l.
Proof.
  unfold remove_id. induction l as [|h t IH]; intros H; [reflexivity|]. cbn.
  destruct (Nat.eqb_spec x h); [subst; exfalso; apply H; left; reflexivity|].
  cbn. f_equal. apply IH. intros Hi. apply H. right. exact Hi.
Qed.

(* ---------------- sums ---------------- *)
Definition sum_list (l : list nat) : nat := fold_right Nat.add 0 l.
Lemma sum_list_app a b : sum_list (a ++ b) = sum_list a + sum_list b.
Proof. induction a as [|x a IH]; cbn [app sum_list fold_right]; [reflexivity|]. fold (sum_list (a ++ b)). fold (sum_list a). rewrite IH. lia. Qed.

Lemma length_concat (l : list (list nat)) : length (concat l) = sum_list (map (@length nat) l).
Proof. induction l as [|h t IH]; cbn [concat map sum_list fold_right]; [reflexivity|]. rewrite app_length, IH. reflexivity. Qed.

Lemma sum_list_zero_all l : sum_list l = 0 -> Forall (fun x => x = 0) l.
Proof. induction l as [|h t IH]; cbn [sum_list fold_right]; intros H; constructor; [lia | apply IH; fold (sum_list t) in H; lia]. Qed.

Lemma seq_app_split a k1 k2 : seq a (k1 + k2) = seq a k1 ++ seq (a + k1) k2.
Proof. apply seq_app. Qed.
