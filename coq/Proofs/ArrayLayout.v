(* Proofs about Model/ArrayLayout.v and the translated Gen/C19_Padding.v (C19). *)
From Coq Require Import ZArith List Bool Lia Arith.
Require Import JV.Base.PyPrelude JV.Gen.C03_Constants JV.Gen.C19_Padding JV.Model.ArrayLayout.
Import ListNotations.
Open Scope Z_scope.

(* ================================================================== alignment *)

Lemma writer_padding_eq : forall A pos, A <> 0 -> writer_padding A pos = Ok (pad_model A pos).
Proof.
  intros A pos HA. unfold writer_padding, py_mod, pad_model.
  destruct (A =? 0) eqn:E; [apply Z.eqb_eq in E; contradiction | reflexivity].
Qed.

Lemma pad_model_spec : forall A pos, 1 <= A ->
  1 <= pad_model A pos <= A /\ (pos + 1 + pad_model A pos) mod A = 0.
Proof.
  intros A pos HA. unfold pad_model.
  pose proof (Z.mod_pos_bound (pos + 1) A ltac:(lia)) as Hr.
  split; [lia|].
  pose proof (Z.div_mod (pos + 1) A ltac:(lia)) as Hd.
  replace (pos + 1 + (A - (pos + 1) mod A)) with (((pos + 1) / A + 1) * A) by lia.
  apply Z.mod_mul. lia.
Qed.

Lemma header_bytes_eq : forall A pos, 1 <= A <= 255 ->
  header_bytes A pos = Ok (pad_model A pos :: repeat 255 (Z.to_nat (pad_model A pos))).
Proof.
  intros A pos HA. unfold header_bytes. rewrite writer_padding_eq by lia. cbn [bind].
  destruct (pad_model_spec A pos ltac:(lia)) as [Hp _].
  unfold to_byte. replace ((0 <=? pad_model A pos) && (pad_model A pos <? 256)) with true
    by (symmetry; apply andb_true_iff; split; [apply Z.leb_le | apply Z.ltb_lt]; lia).
  cbn [bind]. unfold writer_writes_padding. cbn [bind].
  destruct (pad_model A pos =? 0) eqn:E; [apply Z.eqb_eq in E; lia | reflexivity].
Qed.

Lemma nth_error_pre : forall (pre : list Z) x tl, nth_error (pre ++ x :: tl) (length pre) = Some x.
Proof. induction pre as [|y pre IH]; intros; cbn; auto. Qed.

Lemma skipn_pre_hdr : forall (pre hdr data : list Z),
  skipn (length pre + length hdr) (pre ++ hdr ++ data) = data.
Proof.
  intros. rewrite app_assoc, <- app_length, skipn_app, skipn_all, Nat.sub_diag. reflexivity.
Qed.

(* writer and both readers agree on where the data starts, for every position and every alignment
   that fits the length byte *)
Lemma alignment_general : forall A pos pre data, 1 <= A <= 255 -> len pre = pos ->
  let pad := pad_model A pos in
  writer_padding A pos = Ok pad /\
  1 <= pad <= A /\ (pos + 1 + pad) mod A = 0 /\ pad < 256 /\
  exists hdr, header_bytes A pos = Ok hdr /\ len hdr = 1 + pad /\
    read_array_data_pos (pre ++ hdr ++ data) pos = Ok (pos + 1 + pad) /\
    read_mmap_offset (pre ++ hdr ++ data) pos = Ok (pos + 1 + pad) /\
    skipn (Z.to_nat (pos + 1 + pad)) (pre ++ hdr ++ data) = data.
Proof.
  intros A pos pre data HA Hpos pad.
  destruct (pad_model_spec A pos ltac:(lia)) as [Hp Hm]. fold pad in Hp, Hm.
  split; [apply writer_padding_eq; lia|]. split; [exact Hp|]. split; [exact Hm|]. split; [lia|].
  exists (pad :: repeat 255 (Z.to_nat pad)). split; [apply header_bytes_eq; exact HA|].
  assert (Hlen : len (pad :: repeat 255 (Z.to_nat pad)) = 1 + pad).
  { unfold len. cbn [length]. rewrite repeat_length. lia. }
  split; [exact Hlen|].
  assert (Hpre : Z.to_nat pos = length pre) by (unfold len in Hpos; lia).
  assert (Hr1 : read1 (pre ++ (pad :: repeat 255 (Z.to_nat pad)) ++ data) pos = (pad, pos + 1)).
  { unfold read1. rewrite Hpre. cbn [app]. rewrite nth_error_pre. reflexivity. }
  split; [|split].
  - unfold read_array_data_pos. rewrite Hr1. unfold reader_skips. cbn [bind].
    destruct (pad =? 0) eqn:E; [apply Z.eqb_eq in E; lia|]. cbn [negb]. f_equal.
    unfold len in *. rewrite !app_length. apply Z.min_l. lia.
  - unfold read_mmap_offset. rewrite Hr1. unfold mmap_offset. f_equal. lia.
  - replace (Z.to_nat (pos + 1 + pad)) with (length pre + length (pad :: repeat 255%Z (Z.to_nat pad)))%nat
      by (unfold len in *; cbn [length] in *; lia).
    apply skipn_pre_hdr.
Qed.

Lemma live_alignment_fits : 1 <= NUMPY_ARRAY_ALIGNMENT_BYTES <= 255.
Proof. vm_compute. split; discriminate. Qed.

Lemma alignment_live : forall pos pre data, len pre = pos ->
  let A := NUMPY_ARRAY_ALIGNMENT_BYTES in
  exists pad, writer_padding A pos = Ok pad /\
  1 <= pad <= A /\ (pos + 1 + pad) mod A = 0 /\ pad < 256 /\
  exists hdr, header_bytes A pos = Ok hdr /\ len hdr = 1 + pad /\
    read_array_data_pos (pre ++ hdr ++ data) pos = Ok (pos + 1 + pad) /\
    read_mmap_offset (pre ++ hdr ++ data) pos = Ok (pos + 1 + pad) /\
    skipn (Z.to_nat (pos + 1 + pad)) (pre ++ hdr ++ data) = data.
Proof.
  intros pos pre data Hpos A. exists (pad_model A pos).
  exact (alignment_general A pos pre data live_alignment_fits Hpos).
Qed.

(* ================================================================== element orders *)

Open Scope nat_scope.

Lemma c_index_acc_snoc : forall shape idx n i acc, length shape = length idx ->
  c_index_acc (shape ++ [n]) (idx ++ [i]) acc = c_index_acc shape idx acc * n + i.
Proof.
  induction shape as [|m shape IH]; intros idx n i acc Hl; destruct idx as [|j idx]; try discriminate.
  - reflexivity.
  - cbn [app c_index_acc]. apply IH. cbn in Hl. lia.
Qed.

(* "reshape to the reversed shape, then transpose" addresses Fortran positions *)
Lemma c_index_rev : forall shape idx, length shape = length idx ->
  c_index (rev shape) (rev idx) = f_index shape idx.
Proof.
  induction shape as [|n shape IH]; intros idx Hl; destruct idx as [|i idx]; try discriminate.
  - reflexivity.
  - cbn [rev f_index]. unfold c_index. rewrite c_index_acc_snoc by (rewrite !rev_length; cbn in Hl; lia).
    fold (c_index (rev shape) (rev idx)). rewrite IH by (cbn in Hl; lia). lia.
Qed.

Lemma in_bounds_length : forall shape idx, in_bounds shape idx -> length shape = length idx.
Proof.
  induction shape as [|n shape IH]; intros [|i idx] H; cbn in H; try contradiction; [reflexivity|].
  cbn. f_equal. apply IH. tauto.
Qed.

Lemma flat_map_uniform_length : forall (A B : Type) (g : A -> list B) n l,
  (forall x, length (g x) = n) -> length (flat_map g l) = n * length l.
Proof.
  intros A B g n l Hg. induction l as [|x l IH]; cbn [flat_map length]; [lia|].
  rewrite app_length, Hg, IH. lia.
Qed.

Lemma nth_flat_map_uniform : forall (A B : Type) (g : A -> list B) n l k i d d',
  (forall x, length (g x) = n) -> i < n -> k < length l ->
  nth (i + n * k) (flat_map g l) d = nth i (g (nth k l d')) d.
Proof.
  intros A B g n l. induction l as [|x l IH]; intros k i d d' Hg Hi Hk; [cbn in Hk; lia|].
  cbn [flat_map]. destruct k as [|k].
  - rewrite Nat.mul_0_r, Nat.add_0_r. cbn [nth]. apply app_nth1. rewrite Hg. exact Hi.
  - rewrite app_nth2 by (rewrite Hg; lia). rewrite Hg.
    replace (i + n * S k - n) with (i + n * k) by lia. cbn [nth]. apply IH; auto. cbn in Hk. lia.
Qed.

Lemma f_enum_length : forall shape, length (f_enum shape) = count shape.
Proof.
  induction shape as [|n shape IH]; [reflexivity|]. cbn [f_enum count fold_right].
  rewrite (flat_map_uniform_length _ _ _ n) by (intro; rewrite map_length, seq_length; reflexivity).
  rewrite IH. reflexivity.
Qed.

Lemma c_enum_length : forall shape, length (c_enum shape) = count shape.
Proof.
  induction shape as [|n shape IH]; [reflexivity|]. cbn [c_enum count fold_right].
  rewrite (flat_map_uniform_length _ _ _ (count shape)) by (intro; rewrite map_length; exact IH).
  rewrite seq_length. fold (count shape). lia.
Qed.

Lemma f_index_bound : forall shape idx, in_bounds shape idx -> f_index shape idx < count shape.
Proof.
  induction shape as [|n shape IH]; intros [|i idx] H; cbn in H; try contradiction.
  - cbn. lia.
  - destruct H as [Hi H]. specialize (IH idx H). cbn [f_index count fold_right]. fold (count shape). nia.
Qed.

(* the k-th vector visited in Fortran order is the one whose Fortran position is k *)
Lemma nth_f_enum : forall shape idx d, in_bounds shape idx -> nth (f_index shape idx) (f_enum shape) d = idx.
Proof.
  induction shape as [|n shape IH]; intros [|i idx] d H; cbn in H; try contradiction; [reflexivity|].
  destruct H as [Hi H]. cbn [f_index f_enum].
  rewrite (nth_flat_map_uniform _ _ _ n _ _ _ _ []);
    [| intro; rewrite map_length, seq_length; reflexivity | exact Hi
     | rewrite f_enum_length; apply f_index_bound; exact H].
  rewrite IH by exact H. cbv beta.
  rewrite (nth_indep _ d ((fun i0 => i0 :: idx) 0%nat)) by (rewrite map_length, seq_length; exact Hi).
  rewrite (map_nth (fun i0 => i0 :: idx) (seq 0 n) 0%nat i). rewrite seq_nth by exact Hi. reflexivity.
Qed.

(* C order: positional form of the Horner scheme *)
Fixpoint c_pos (shape idx : list nat) : nat :=
  match shape, idx with
  | _ :: ns, i :: is' => i * count ns + c_pos ns is'
  | _, _ => 0
  end.

Lemma c_index_acc_pos : forall shape idx acc, length shape = length idx ->
  c_index_acc shape idx acc = acc * count shape + c_pos shape idx.
Proof.
  induction shape as [|n shape IH]; intros [|i idx] acc Hl; try discriminate.
  - cbn. lia.
  - cbn [c_index_acc c_pos count fold_right]. fold (count shape). rewrite IH by (cbn in Hl; lia). nia.
Qed.

Lemma c_pos_bound : forall shape idx, in_bounds shape idx -> c_pos shape idx < count shape.
Proof.
  induction shape as [|n shape IH]; intros [|i idx] H; cbn in H; try contradiction.
  - cbn. lia.
  - destruct H as [Hi H]. specialize (IH idx H). cbn [c_pos count fold_right]. fold (count shape). nia.
Qed.

Lemma nth_c_enum : forall shape idx d, in_bounds shape idx -> nth (c_index shape idx) (c_enum shape) d = idx.
Proof.
  intros shape idx d H. unfold c_index. rewrite c_index_acc_pos by (apply in_bounds_length; exact H).
  cbn [Nat.mul Nat.add]. revert idx d H.
  induction shape as [|n shape IH]; intros [|i idx] d H; cbn in H; try contradiction; [reflexivity|].
  destruct H as [Hi H]. cbn [c_pos c_enum].
  replace (i * count shape + c_pos shape idx) with (c_pos shape idx + count shape * i) by lia.
  rewrite (nth_flat_map_uniform _ _ _ (count shape) _ _ _ _ 0);
    [| intro; rewrite map_length; apply c_enum_length | apply c_pos_bound; exact H | rewrite seq_length; exact Hi].
  rewrite seq_nth by exact Hi. cbn [Nat.add].
  rewrite (nth_indep _ d (i :: idx)) by (rewrite map_length, c_enum_length; apply c_pos_bound; exact H).
  rewrite (map_nth (cons i) (c_enum shape) idx). rewrite IH by exact H. reflexivity.
Qed.

(* what is read back at idx is the element that was at idx, in either order, for every shape *)
Lemma order_roundtrip : forall (T : Type) (o : order) shape (elem : list nat -> T) idx d,
  in_bounds shape idx ->
  read_elem o shape (write_elems o shape elem) idx d = elem idx /\
  length (write_elems o shape elem) = count shape.
Proof.
  intros T o shape elem idx d H. pose proof (in_bounds_length _ _ H) as Hl. split.
  - destruct o; unfold read_elem, write_elems.
    + rewrite (nth_indep _ d (elem idx)) by (rewrite map_length, c_enum_length; unfold c_index;
        rewrite c_index_acc_pos by exact Hl; cbn [Nat.mul Nat.add]; apply c_pos_bound; exact H).
      rewrite (map_nth elem (c_enum shape) idx). rewrite nth_c_enum by exact H. reflexivity.
    + rewrite c_index_rev by exact Hl.
      rewrite (nth_indep _ d (elem idx)) by (rewrite map_length, f_enum_length; apply f_index_bound; exact H).
      rewrite (map_nth elem (f_enum shape) idx). rewrite nth_f_enum by exact H. reflexivity.
  - destruct o; unfold write_elems; rewrite map_length; [apply c_enum_length | apply f_enum_length].
Qed.

(* zero extents: nothing is written, nothing can be addressed *)
Lemma zero_extent_empty : forall shape, In 0 shape -> count shape = 0 /\ forall idx, ~ in_bounds shape idx.
Proof.
  induction shape as [|n shape IH]; intros Hin; [contradiction|]. destruct Hin as [-> | Hin].
  - split; [reflexivity|]. intros [|i idx] H; cbn in H; [contradiction | lia].
  - destruct (IH Hin) as [Hc Hn]. split.
    + cbn [count fold_right]. fold (count shape). rewrite Hc. lia.
    + intros [|i idx] H; cbn in H; [contradiction|]. apply (Hn idx). tauto.
Qed.

Open Scope Z_scope.

(* ================================================================== chunked read loop *)

Fixpoint contiguous (i : Z) (l : list (Z * Z * Z)) : Prop :=
  match l with
  | [] => True
  | (i', rc, _) :: t => i' = i /\ contiguous (i + rc) t
  end.
Definition sum_rc (l : list (Z * Z * Z)) : Z := fold_right (fun c acc => snd (fst c) + acc) 0 l.
Definition sizes (l : list (Z * Z * Z)) : list Z := map snd l.
Definition sumZ (l : list Z) : Z := fold_right Z.add 0 l.

Lemma chunk_loop_done : forall fuel mrc isz cnt i, cnt <= i -> chunk_loop fuel mrc isz cnt i = Ok [].
Proof.
  intros [|f] mrc isz cnt i H; cbn [chunk_loop]; destruct (i <? cnt) eqn:E; try reflexivity;
    apply Z.ltb_lt in E; lia.
Qed.

Lemma chunk_loop_spec : forall fuel mrc isz cnt i, 1 <= mrc -> (Z.to_nat (cnt - i) <= fuel)%nat ->
  exists l, chunk_loop fuel mrc isz cnt i = Ok l /\ contiguous i l /\ sum_rc l = Z.max 0 (cnt - i) /\
            Forall (fun c => 1 <= snd (fst c) <= mrc /\ snd c = snd (fst c) * isz) l.
Proof.
  induction fuel as [|f IH]; intros mrc isz cnt i Hm Hf.
  - exists []. rewrite chunk_loop_done by lia. cbn. repeat split; [lia | constructor].
  - cbn [chunk_loop]. destruct (i <? cnt) eqn:E.
    + apply Z.ltb_lt in E. unfold chunk_step. cbn [bind].
      destruct (IH mrc isz cnt (i + mrc) Hm ltac:(lia)) as [tl [Htl [Hc [Hs Hall]]]].
      rewrite Htl. cbn [rmap]. eexists. split; [reflexivity|]. split; [|split].
      * cbn [contiguous]. split; [reflexivity|].
        destruct (Z.le_gt_cases mrc (cnt - i)) as [Hle | Hgt].
        -- rewrite Z.min_l by lia. exact Hc.
        -- rewrite chunk_loop_done in Htl by lia. injection Htl as <-. exact I.
      * cbn [sum_rc fold_right fst snd]. fold (sum_rc tl). rewrite Hs. lia.
      * constructor; [cbn [fst snd]; lia | exact Hall].
    + apply Z.ltb_ge in E. exists []. cbn. repeat split; [lia | constructor].
Qed.

Lemma firstn_add_skipn : forall (A : Type) a b (s : list A),
  firstn (a + b) s = firstn a s ++ firstn b (skipn a s).
Proof.
  intros A a. induction a as [|a IH]; intros b s; [reflexivity|].
  destruct s as [|x s]; [cbn; rewrite firstn_nil; reflexivity|]. cbn. f_equal. apply IH.
Qed.

(* exact successive reads return the stream in order *)
Lemma reads_concat : forall szs s, Forall (fun n => 0 <= n) szs ->
  concat (reads szs s) = firstn (Z.to_nat (sumZ szs)) s.
Proof.
  induction szs as [|n t IH]; intros s H; [reflexivity|].
  inversion H as [|? ? Hn Ht]; subst. cbn [reads concat sumZ fold_right]. fold (sumZ t).
  assert (Hs : 0 <= sumZ t) by (clear -Ht; induction Ht; cbn; [lia | fold (sumZ l); lia]).
  rewrite Z2Nat.inj_add by lia. rewrite firstn_add_skipn, IH by exact Ht. reflexivity.
Qed.

Lemma sizes_sum : forall l isz, Forall (fun c => snd c = snd (fst c) * isz) l -> sumZ (sizes l) = sum_rc l * isz.
Proof.
  induction l as [|c l IH]; intros isz H; [reflexivity|]. inversion H; subst.
  cbn [sizes map sumZ sum_rc fold_right]. fold (sizes l) (sumZ (sizes l)) (sum_rc l). rewrite (IH isz) by assumption. lia.
Qed.

Lemma chunks_spec : forall B isz cnt, 1 <= B -> 1 <= isz -> 0 <= cnt ->
  exists mrc l, max_read_count B isz = Ok mrc /\ 1 <= mrc /\ chunks B isz cnt = Ok l /\
    contiguous 0 l /\ sum_rc l = cnt /\ sumZ (sizes l) = cnt * isz /\
    Forall (fun c => 1 <= snd (fst c) <= mrc /\ snd c = snd (fst c) * isz) l /\
    forall s, concat (reads (sizes l) s) = firstn (Z.to_nat (cnt * isz)) s.
Proof.
  intros B isz cnt HB Hi Hc. unfold chunks, max_read_count, py_floordiv.
  destruct (Z.min B isz =? 0) eqn:E; [apply Z.eqb_eq in E; lia|]. cbn [bind].
  assert (Hm : 1 <= B / Z.min B isz).
  { pose proof (Z.div_str_pos B (Z.min B isz) ltac:(lia)). lia. }
  destruct (B / Z.min B isz <=? 0) eqn:E2; [apply Z.leb_le in E2; lia|].
  destruct (chunk_loop_spec (Z.to_nat cnt) (B / Z.min B isz) isz cnt 0 Hm ltac:(lia)) as [l [Hl [Hcont [Hs Hall]]]].
  exists (B / Z.min B isz), l. split; [reflexivity|]. split; [exact Hm|]. split; [exact Hl|].
  split; [exact Hcont|]. assert (Hs' : sum_rc l = cnt) by lia. split; [exact Hs'|].
  assert (Hsz : sumZ (sizes l) = cnt * isz).
  { rewrite (sizes_sum l isz), Hs'; [reflexivity|]. eapply Forall_impl; [|exact Hall]. intros c Hc'. cbv beta in Hc'. destruct Hc' as [_ Hc']. exact Hc'. }
  split; [exact Hsz|]. split; [exact Hall|].
  intro s. rewrite <- Hsz. apply reads_concat. unfold sizes. apply Forall_map.
  eapply Forall_impl; [|exact Hall]. intros c [H1 H2]. rewrite H2. nia.
Qed.

Lemma live_buffer_size_pos : 1 <= BUFFER_SIZE.
Proof. vm_compute. discriminate. Qed.

(* ================================================================== memmap-backed views *)

Lemma dot_acc : forall a b acc,
  fold_left (fun acc p => acc + fst p * snd p) (combine a b) acc = acc + dot a b.
Proof.
  induction a as [|x a IH]; intros b acc; [cbn; unfold dot; cbn; lia|].
  destruct b as [|y b]; [unfold dot; cbn; lia|]. unfold dot. cbn [combine fold_left fst snd].
  rewrite IH, (IH b (0 + x * y)). lia.
Qed.

Lemma dot_cons : forall x a y b, dot (x :: a) (y :: b) = x * y + dot a b.
Proof. intros. unfold dot at 1. cbn [combine fold_left fst snd]. rewrite dot_acc. lia. Qed.

Lemma in_boundsZ_length : forall shape idx, in_boundsZ shape idx -> length shape = length idx.
Proof.
  induction shape as [|n shape IH]; intros [|i idx] H; cbn in H; try contradiction; [reflexivity|].
  cbn. f_equal. apply IH. tauto.
Qed.

Lemma dot_c_strides : forall shape idx isz, length shape = length idx ->
  dot idx (c_strides shape isz) = isz * lin_c shape idx.
Proof.
  induction shape as [|n shape IH]; intros [|i idx] isz Hl; try discriminate; [unfold dot; cbn; lia|].
  cbn [c_strides lin_c]. rewrite dot_cons, IH by (cbn in Hl; lia). lia.
Qed.

Lemma dot_f_strides_from : forall shape idx acc, length shape = length idx ->
  dot idx (f_strides_from acc shape) = acc * lin_f shape idx.
Proof.
  induction shape as [|n shape IH]; intros [|i idx] acc Hl; try discriminate; [unfold dot; cbn; lia|].
  cbn [f_strides_from lin_f]. rewrite dot_cons, IH by (cbn in Hl; lia). lia.
Qed.

(* byte_bounds of a view without negative strides starts at its first element *)
Lemma bounds_fold_nonneg : forall shape strides lo hi, Forall (fun st => 0 <= st) strides ->
  fold_left (fun '(lo, hi) '(n, st) => if st <? 0 then (lo + (n - 1) * st, hi) else (lo, hi + (n - 1) * st))
            (combine shape strides) (lo, hi)
  = (lo, hi + dot (map (fun n => n - 1) shape) strides).
Proof.
  induction shape as [|n shape IH]; intros strides lo hi H; [cbn; unfold dot; cbn; f_equal; lia|].
  destruct strides as [|st strides]; [cbn; unfold dot; cbn; f_equal; lia|].
  inversion H; subst. cbn [combine fold_left map].
  destruct (st <? 0) eqn:E; [apply Z.ltb_lt in E; lia|]. rewrite IH by assumption. rewrite dot_cons. f_equal. lia.
Qed.

Lemma byte_bounds_nonneg : forall a, Forall (fun st => 0 <= st) (v_strides a) ->
  fst (byte_bounds a) = v_ptr a /\
  (v_c a = false -> snd (byte_bounds a) = v_ptr a + dot (map (fun n => n - 1) (v_shape a)) (v_strides a) + v_isz a).
Proof.
  intros a H. unfold byte_bounds. destruct (v_c a); [split; [reflexivity | discriminate]|].
  rewrite bounds_fold_nonneg by exact H. cbn [fst snd]. split; [reflexivity | reflexivity].
Qed.

Lemma dot_le_extent : forall shape idx strides, in_boundsZ shape idx -> Forall (fun st => 0 <= st) strides ->
  0 <= dot idx strides <= dot (map (fun n => n - 1) shape) strides.
Proof.
  induction shape as [|n shape IH]; intros [|i idx] strides Hb Hs; cbn in Hb; try contradiction.
  - unfold dot. cbn. lia.
  - destruct strides as [|st strides]; [unfold dot; cbn; lia|]. inversion Hs; subst.
    destruct Hb as [Hi Hb]. cbn [map]. rewrite !dot_cons. specialize (IH idx strides Hb ltac:(assumption)). nia.
Qed.

Lemma dot_divisible : forall a strides isz, Forall (fun st => (isz | st)) strides -> (isz | dot a strides).
Proof.
  induction a as [|x a IH]; intros strides isz H; [unfold dot; cbn; apply Z.divide_0_r|].
  destruct strides as [|st strides]; [unfold dot; cbn; apply Z.divide_0_r|]. inversion H; subst.
  rewrite dot_cons. apply Z.divide_add_r; [apply Z.divide_mul_r; assumption | apply IH; assumption].
Qed.

(* the translated source computes what the hand model computes, for every view and backing memmap *)
Lemma reduce_memmap_eq_hand : forall a m, reduce_memmap a m = reduce_memmap_hand a m.
Proof.
  intros a m. unfold reduce_memmap, reduce_memmap_hand, reduce_args.
  destruct (byte_bounds a) as [a_start a_end].
  destruct (m_f m), (v_f a), (v_c a); cbn [bind orb andb negb Z.eqb]; try reflexivity;
    unfold py_floordiv; destruct (v_isz a =? 0); reflexivity.
Qed.

(* numpy's relaxed contiguity gives the linear position of every in-bounds index *)
Lemma dot_c_contig : forall shape strides idx isz, is_c_contig shape strides isz = true ->
  in_boundsZ shape idx -> dot idx strides = isz * lin_c shape idx.
Proof.
  induction shape as [|n shape IH]; intros [|st strides] [|i idx] isz Hc Hb; cbn in Hc, Hb; try discriminate; try contradiction.
  - unfold dot. cbn. lia.
  - apply andb_true_iff in Hc. destruct Hc as [H1 H2]. destruct Hb as [Hi Hb].
    cbn [lin_c]. rewrite dot_cons, (IH strides idx isz H2 Hb).
    apply orb_true_iff in H1. destruct H1 as [H1 | H1]; apply Z.eqb_eq in H1.
    + assert (i = 0) by lia. subst i. lia.
    + subst st. lia.
Qed.

Lemma dot_f_contig : forall shape strides idx acc, is_f_contig_from acc shape strides = true ->
  in_boundsZ shape idx -> dot idx strides = acc * lin_f shape idx.
Proof.
  induction shape as [|n shape IH]; intros [|st strides] [|i idx] acc Hc Hb; cbn in Hc, Hb; try discriminate; try contradiction.
  - unfold dot. cbn. lia.
  - apply andb_true_iff in Hc. destruct Hc as [H1 H2]. destruct Hb as [Hi Hb].
    cbn [lin_f]. rewrite dot_cons, (IH strides idx (acc * n) H2 Hb).
    apply orb_true_iff in H1. destruct H1 as [H1 | H1]; apply Z.eqb_eq in H1.
    + assert (i = 0) by lia. subst i n. lia.
    + subst st. lia.
Qed.

(* the canonical strides are contiguous in numpy's sense *)
Lemma c_strides_contig : forall shape isz, is_c_contig shape (c_strides shape isz) isz = true.
Proof.
  induction shape as [|n shape IH]; intros isz; [reflexivity|]. cbn [c_strides is_c_contig].
  rewrite Z.eqb_refl, orb_true_r, IH. reflexivity.
Qed.
Lemma f_strides_contig : forall shape acc, is_f_contig_from acc shape (f_strides_from acc shape) = true.
Proof.
  induction shape as [|n shape IH]; intros acc; [reflexivity|]. cbn [f_strides_from is_f_contig_from].
  rewrite Z.eqb_refl, orb_true_r, IH. reflexivity.
Qed.

(* non-contiguous view, no negative stride: every element is rebuilt at its own file offset; when the
   strides are multiples of the item size the rebuilt base buffer contains every element *)
Lemma memmap_strided : forall a m r idx,
  v_c a = false -> v_f a = false -> 1 <= v_isz a -> Forall (fun st => 0 <= st) (v_strides a) ->
  reduce_memmap a m = Ok r -> in_boundsZ (v_shape a) idx ->
  recon_elem_off a r idx = orig_elem_off a m idx /\
  (Forall (fun st => (v_isz a | st)) (v_strides a) ->
     fst (recon_range a r) <= recon_elem_off a r idx /\
     recon_elem_off a r idx + v_isz a <= snd (recon_range a r)).
Proof.
  intros a m r idx Hc Hf Hisz Hst Hr Hb. rewrite reduce_memmap_eq_hand in Hr. unfold reduce_memmap_hand in Hr.
  destruct (byte_bounds_nonneg a Hst) as [Hlo Hhi]. specialize (Hhi Hc).
  destruct (byte_bounds a) as [a_start a_end]. cbn [fst snd] in Hlo, Hhi. rewrite Hf, Hc in Hr. cbn [orb] in Hr.
  unfold py_floordiv in Hr. destruct (v_isz a =? 0) eqn:E; [apply Z.eqb_eq in E; lia|]. cbn [bind] in Hr.
  injection Hr as <-. unfold recon_elem_off, orig_elem_off, recon_range. cbn [fst snd]. split; [lia|].
  intros Hdiv. pose proof (dot_le_extent _ _ _ Hb Hst) as Hle.
  assert (Hd : (v_isz a | a_end - a_start)).
  { rewrite Hhi, Hlo. replace (v_ptr a + dot (map (fun n => n - 1) (v_shape a)) (v_strides a) + v_isz a - v_ptr a)
      with (dot (map (fun n => n - 1) (v_shape a)) (v_strides a) + v_isz a) by lia.
    apply Z.divide_add_r; [apply dot_divisible; exact Hdiv | apply Z.divide_refl]. }
  destruct Hd as [q Hq]. rewrite Hq, Z.div_mul by lia. nia.
Qed.

(* contiguous view in numpy's (relaxed) sense, C or F, whatever the order of the backing memmap: rebuilt with
   the memory order of the view, every element at its own file offset *)
Lemma memmap_contiguous : forall a m r idx, 0 <= v_isz a -> in_boundsZ (v_shape a) idx ->
  reduce_memmap a m = Ok r ->
  (v_c a = true /\ is_c_contig (v_shape a) (v_strides a) (v_isz a) = true) \/
  (v_c a = false /\ v_f a = true /\ is_f_contig_from (v_isz a) (v_shape a) (v_strides a) = true
   /\ Forall (fun st => 0 <= st) (v_strides a)) ->
  recon_elem_off a r idx = orig_elem_off a m idx /\
  recon_range a r = (orig_elem_off a m (map (fun _ => 0) idx),
                     orig_elem_off a m (map (fun _ => 0) idx) + prodZ (v_shape a) * v_isz a).
Proof.
  intros a m r idx Hisz Hb Hr Hcase. rewrite reduce_memmap_eq_hand in Hr. unfold reduce_memmap_hand in Hr.
  assert (Hz : forall st, dot (map (fun _ : Z => 0) idx) st = 0).
  { clear. induction idx as [|i idx IH]; intros [|x st]; try (unfold dot; reflexivity).
    cbn [map]. rewrite dot_cons, IH. lia. }
  destruct Hcase as [[Hc Hs] | [Hc [Hf [Hs Hnn]]]].
  - unfold byte_bounds in Hr. rewrite Hc in Hr. rewrite orb_true_r, andb_false_r in Hr. injection Hr as <-.
    unfold recon_elem_off, orig_elem_off, recon_range. rewrite Hz, (dot_c_contig _ _ _ _ Hs Hb).
    split; [lia | f_equal; lia].
  - destruct (byte_bounds_nonneg a Hnn) as [Hlo _]. destruct (byte_bounds a) as [a_start a_end].
    cbn [fst] in Hlo. rewrite Hf, Hc in Hr. cbn [orb andb negb] in Hr. injection Hr as <-.
    unfold recon_elem_off, orig_elem_off, recon_range. rewrite Hz, (dot_f_contig _ _ _ _ Hs Hb).
    split; [lia | f_equal; lia].
Qed.

(* F28, the rule before the fix: re-mapping a contiguous view with the order of the backing memmap addresses
   other bytes as soon as the two orders differ (m.T of a C-ordered memmap) *)
Definition transposed_view : view := {| v_ptr := 1000; v_shape := [3; 4]; v_strides := [8; 24]; v_isz := 8; v_c := false; v_f := true |}.
Definition c_backing : backing := {| m_start := 1000; m_offset := 0; m_f := false |}.
Lemma old_order_rule_refuted : exists r,
  reduce_memmap_old transposed_view c_backing = Ok r /\ in_boundsZ (v_shape transposed_view) [0; 1] /\
  v_c transposed_view = np_c_contig (v_shape transposed_view) (v_strides transposed_view) (v_isz transposed_view) /\
  v_f transposed_view = np_f_contig (v_shape transposed_view) (v_strides transposed_view) (v_isz transposed_view) /\
  recon_elem_off transposed_view r [0; 1] <> orig_elem_off transposed_view c_backing [0; 1].
Proof. eexists. split; [vm_compute; reflexivity|]. vm_compute. repeat split; discriminate. Qed.

(* the auto-memmapping threshold: an array without a backing memmap is dumped to a temporary memmap iff it has
   no object dtype, a threshold is set and nbytes is STRICTLY above it; a memmap-backed array is always re-mapped *)
Lemma forward_route_spec : forall has_backing hasobject dtype_kind max_nbytes mmap_mode nbytes,
  exists rt, forward_route has_backing hasobject dtype_kind max_nbytes mmap_mode nbytes = Ok rt /\
  (rt = RReduceBacked <-> has_backing = true) /\
  (rt = RDumpTemp <-> has_backing = false /\ hasobject = false /\ mmap_mode <> None /\
                      exists t, max_nbytes = Some t /\ t < nbytes).
Proof.
  intros hb ho dk mx mm nb. unfold forward_route, forward_memmaps. destruct hb.
  - eexists. split; [reflexivity|]. split; split; intros H; auto; try discriminate. destruct H as [H _]. discriminate.
  - cbn [bind]. destruct ho; cbn [negb andb].
    + eexists. split; [reflexivity|]. split; split; intros H; try discriminate.
      destruct H as [_ [H _]]. discriminate.
    + destruct mx as [t|]; [destruct mm as [m|]|].
      * destruct (nb >? t) eqn:E; eexists; (split; [reflexivity|]); split; split; intros H; try discriminate.
        -- repeat split; [discriminate|]. exists t. split; [reflexivity|]. apply Z.gtb_lt in E. lia.
        -- reflexivity.
        -- destruct H as [_ [_ [_ [t' [Ht Hlt]]]]]. injection Ht as <-. apply Z.gtb_lt in Hlt. rewrite Hlt in E. discriminate.
      * eexists. split; [reflexivity|]. split; split; intros H; try discriminate.
        destruct H as [_ [_ [H _]]]. contradiction H. reflexivity.
      * eexists. split; [reflexivity|]. split; split; intros H; try discriminate.
        destruct H as [_ [_ [_ [t' [Ht _]]]]]. discriminate.
Qed.

(* mmap_mode=None ("None will disable memmapping"): an array without a backing memmap is pickled, whatever its size *)
Lemma mmap_mode_none_pickles : forall hasobject dtype_kind max_nbytes nbytes,
  forward_route false hasobject dtype_kind max_nbytes None nbytes = Ok RPickle.
Proof.
  intros ho dk mx nb. unfold forward_route, forward_memmaps. destruct ho, mx; reflexivity.
Qed.

(* a structured dtype with an object field (kind 'V' = 86, hasobject) is never dumped to a temporary memmap,
   however large: the file could not be memory-mapped by the worker *)
Lemma object_field_never_memmapped : forall max_nbytes mmap_mode nbytes,
  forward_route false true 86 max_nbytes mmap_mode nbytes = Ok RPickle.
Proof. intros mx mm nb. unfold forward_route, forward_memmaps. destruct mx; reflexivity. Qed.

(* array types: what comes back for each type that went in *)
Lemma loaded_type_spec : forall via_mmap,
  loaded_type TNdarray numpy_has_array_prepare via_mmap = (if via_mmap then TMemmap else TNdarray) /\
  loaded_type TMemmap numpy_has_array_prepare via_mmap = (if via_mmap then TMemmap else TNdarray) /\
  (forall t, loaded_type t true via_mmap = match t with TMatrix | TSubclass => t | _ => if via_mmap then TMemmap else TNdarray end) /\
  save_intercepts TSubclass = false /\ payload_kind true = PPickle2 /\ payload_kind false = PRaw /\
  (forall u, reads_via_mmap u false = false).
Proof.
  intros v. repeat match goal with |- _ /\ _ => split end; try reflexivity; intros []; reflexivity.
Qed.

(* F29: with the numpy in use ndarray has no __array_prepare__, so a matrix comes back as a plain ndarray *)
Lemma matrix_subclass_refuted : loaded_type TMatrix numpy_has_array_prepare false <> TMatrix.
Proof. vm_compute. discriminate. Qed.

(* ================================================================== refuted on the unchanged tree *)

(* F19: an item size of 0 makes both the writer's buffersize and the reader's max_read_count divide by zero *)
Lemma itemsize_zero_raises :
  writer_buffersize 0 = Raise ZeroDivisionError /\ max_read_count BUFFER_SIZE 0 = Raise ZeroDivisionError.
Proof. split; reflexivity. Qed.

(* F20: m = memmap of 10 int64 at file offset 0, a = m[::-1] *)
Definition neg_view : view := {| v_ptr := 1000 + 72; v_shape := [10]; v_strides := [-8]; v_isz := 8; v_c := false; v_f := false |}.
Definition neg_backing : backing := {| m_start := 1000; m_offset := 0; m_f := true |}.
Lemma negative_stride_refuted : exists r,
  reduce_memmap neg_view neg_backing = Ok r /\ in_boundsZ (v_shape neg_view) [1] /\
  recon_elem_off neg_view r [0] <> orig_elem_off neg_view neg_backing [0] /\
  recon_elem_off neg_view r [1] < fst (recon_range neg_view r).
Proof. eexists. split; [vm_compute; reflexivity|]. vm_compute. repeat split; discriminate. Qed.

(* F21: field 'f1' (int64 at byte 1) of a packed 9-byte record, 10 records *)
Definition field_view : view := {| v_ptr := 1000 + 1; v_shape := [10]; v_strides := [9]; v_isz := 8; v_c := false; v_f := false |}.
Lemma buffer_len_floor_refuted : exists r,
  reduce_memmap field_view neg_backing = Ok r /\ in_boundsZ (v_shape field_view) [9] /\
  recon_elem_off field_view r [9] = orig_elem_off field_view neg_backing [9] /\
  snd (recon_range field_view r) < recon_elem_off field_view r [9] + v_isz field_view.
Proof. eexists. split; [vm_compute; reflexivity|]. vm_compute. repeat split; discriminate. Qed.

(* F28 (fixed): the current code sends the view's order 'F' for m.T; element (0,1) is rebuilt at byte 24 *)
Lemma transposed_example :
  reduce_memmap transposed_view c_backing = Ok (0, OrdF, None, None) /\
  is_f_contig_from (v_isz transposed_view) (v_shape transposed_view) (v_strides transposed_view) = true /\
  recon_elem_off transposed_view (0, OrdF, None, None) [0; 1] = 24 /\
  orig_elem_off transposed_view c_backing [0; 1] = 24.
Proof. repeat match goal with |- _ /\ _ => split end; reflexivity. Qed.

(* ================================================================== non-vacuity examples *)

(* m[2:8:2] of a 10-element int64 memmap: the hypotheses of memmap_strided hold and give (16, F, (16,), 5) *)
Definition strided_view : view := {| v_ptr := 1000 + 16; v_shape := [3]; v_strides := [16]; v_isz := 8; v_c := false; v_f := false |}.
Lemma strided_example :
  v_c strided_view = false /\ v_f strided_view = false /\ 1 <= v_isz strided_view /\
  Forall (fun st => 0 <= st) (v_strides strided_view) /\
  Forall (fun st => (v_isz strided_view | st)) (v_strides strided_view) /\
  in_boundsZ (v_shape strided_view) [2] /\
  reduce_memmap strided_view neg_backing = Ok (16, OrdF, Some [16], Some 5).
Proof.
  repeat match goal with |- _ /\ _ => split end; try reflexivity; try (vm_compute; discriminate).
  - repeat constructor. discriminate.
  - repeat constructor. exists 2. reflexivity.
  - cbn. lia.
Qed.

(* position 21 (a typical wrapper pickle end), alignment 16: pad 10, data at 32 *)
Lemma alignment_example : writer_padding NUMPY_ARRAY_ALIGNMENT_BYTES 21 = Ok 10 /\
  header_bytes NUMPY_ARRAY_ALIGNMENT_BYTES 21 = Ok (10 :: repeat 255 10%nat).
Proof. split; reflexivity. Qed.

(* a 2 x 3 array written in Fortran order and read back *)
Lemma order_example :
  write_elems OrdF [2; 3]%nat (fun idx => idx) = [[0; 0]; [1; 0]; [0; 1]; [1; 1]; [0; 2]; [1; 2]]%nat /\
  read_elem OrdF [2; 3]%nat (write_elems OrdF [2; 3]%nat (fun idx => idx)) [1; 2]%nat [] = [1; 2]%nat.
Proof. split; reflexivity. Qed.

(* 100000 float64: 4 chunks of at most 32768 elements *)
Lemma chunks_example : chunks BUFFER_SIZE 8 100000 =
  Ok [(0, 32768, 262144); (32768, 32768, 262144); (65536, 32768, 262144); (98304, 1696, 13568)].
Proof. vm_compute. reflexivity. Qed.
