(* Model M2b (get_func_name / func_id): which callables share a function identifier.
   - split/join algebra;
   - for ordinary callables (module given and not "__main__", __name__ = last segment of __qualname__) the
     identifier is exactly the dotted path module.qualname with "/" for ".", hence two such callables collide
     iff their dotted paths are equal;
   - outside: witnesses of collisions between different callables (closures/wrappers/lambdas/partials share
     everything get_func_name looks at; module vs qualname boundary; "-" mangling of __main__ paths);
   - the IPython cell number never influences the identifier. *)
From Coq Require Import ZArith List Bool Lia.
Require Import JV.Model.FuncName.
Import ListNotations.
Open Scope Z_scope.

(* ------------------------------------------------------------------ strings *)
Lemma str_eqb_eq a : forall b, str_eqb a b = true <-> a = b.
Proof.
  induction a as [|x a IH]; intros [|y b]; cbn [str_eqb]; try (split; [discriminate | congruence]); [tauto|].
  rewrite andb_true_iff, Z.eqb_eq, IH. split; [intros [-> ->]; reflexivity | intros [= -> ->]; tauto].
Qed.

Definition sep_free (sep : Z) (s : str) : Prop := ~ In sep s.

Lemma split_on_nonempty sep s : split_on sep s <> [].
Proof. destruct s as [|c t]; cbn [split_on]; [discriminate|]. destruct (c =? sep); [discriminate|]. destruct (split_on sep t); discriminate. Qed.

Lemma join_cons2 sep x y t : join sep (x :: y :: t) = x ++ sep ++ join sep (y :: t).
Proof. reflexivity. Qed.

Lemma join_split sep s : join [sep] (split_on sep s) = s.
Proof.
  induction s as [|c t IH]; [reflexivity|]. cbn [split_on]. destruct (c =? sep) eqn:E.
  - apply Z.eqb_eq in E. subst c. destruct (split_on sep t) as [|h r] eqn:Es; [exfalso; exact (split_on_nonempty _ _ Es)|].
    rewrite join_cons2, IH. reflexivity.
  - destruct (split_on sep t) as [|h r] eqn:Es; [exfalso; exact (split_on_nonempty _ _ Es)|].
    destruct r as [|h2 r]; cbn [join] in *; rewrite <- IH; reflexivity.
Qed.

Lemma split_on_inj sep a b : split_on sep a = split_on sep b -> a = b.
Proof. intros H. rewrite <- (join_split sep a), <- (join_split sep b), H. reflexivity. Qed.

Lemma split_on_app sep a b : split_on sep (a ++ sep :: b) = split_on sep a ++ split_on sep b.
Proof.
  induction a as [|c a IH]; cbn [app split_on].
  - rewrite Z.eqb_refl. reflexivity.
  - destruct (c =? sep); rewrite IH; [reflexivity|].
    destruct (split_on sep a) as [|h r] eqn:Es; [exfalso; exact (split_on_nonempty _ _ Es)|]. reflexivity.
Qed.

Lemma split_on_free sep s : sep_free sep s -> split_on sep s = [s].
Proof.
  induction s as [|c t IH]; intros H; [reflexivity|]. cbn [split_on].
  assert (c <> sep) by (intros ->; apply H; left; reflexivity). apply Z.eqb_neq in H0. rewrite H0.
  rewrite IH by (intros Hin; apply H; right; exact Hin). reflexivity.
Qed.

Lemma split_on_parts_free sep s : Forall (sep_free sep) (split_on sep s).
Proof.
  induction s as [|c t IH]; cbn [split_on]; [repeat constructor; intros []|].
  destruct (c =? sep) eqn:E; [constructor; [intros [] | exact IH]|].
  destruct (split_on sep t) as [|h r]; [repeat constructor; intros [-> | []]; rewrite Z.eqb_refl in E; discriminate|].
  inversion IH; subst. constructor; [|assumption]. intros [-> | Hin]; [rewrite Z.eqb_refl in E; discriminate | contradiction].
Qed.

Lemma split_join sep parts : parts <> [] -> Forall (sep_free sep) parts -> split_on sep (join [sep] parts) = parts.
Proof.
  induction parts as [|x t IH]; intros Hne Hall; [contradiction|]. inversion Hall as [|? ? Hx Ht]; subst.
  destruct t as [|y t]; [cbn [join]; apply split_on_free; exact Hx|].
  rewrite join_cons2. cbn [app]. rewrite split_on_app, (split_on_free _ _ Hx), IH by (discriminate || exact Ht). reflexivity.
Qed.

Lemma last_In {A} (l : list A) d : l <> [] -> In (last l d) l.
Proof.
  induction l as [|x l IH]; intros H; [contradiction|]. destruct l as [|y l]; [left; reflexivity|].
  right. apply IH. discriminate.
Qed.

Lemma last_split_free sep s : sep_free sep (last (split_on sep s) []).
Proof.
  pose proof (split_on_parts_free sep s) as H. rewrite Forall_forall in H. apply H. apply last_In. apply split_on_nonempty.
Qed.

(* ------------------------------------------------------------------ ordinary callables *)
(* module given and not "__main__"; the callable has a __name__ and it is the last segment of its __qualname__
   (true of every function, class, method and nested function that was not renamed by hand) *)
Definition ordinary (f : callable) (m q : str) : Prop :=
  f_module f = Some m /\ str_eqb m s_main = false /\ f_qualname f = Some q
  /\ f_name f = Some (last (split_on DOT q) []).

Definition segments (f : callable) : list str := fst (get_func_name_model f) ++ [snd (get_func_name_model f)].

Theorem segments_ordinary f m q : ordinary f m q -> segments f = split_on DOT (dotted_path m q).
Proof.
  intros (Hm & Hmain & Hq & Hn). unfold segments, get_func_name_model, dotted_path. rewrite Hm, Hmain, Hq, Hn.
  cbn [fst snd app]. rewrite split_on_app. set (n := last (split_on DOT q) []).
  destruct (str_eqb q n) eqn:E.
  - apply str_eqb_eq in E. f_equal.
    assert (Hf : sep_free DOT q) by (rewrite E; apply last_split_free). rewrite (split_on_free _ _ Hf), E. reflexivity.
  - rewrite <- app_assoc. f_equal. symmetry. apply app_removelast_last. apply split_on_nonempty.
Qed.

(* posixpath.join of non-empty, slash-free components is "/".join *)
Definition clean (s : str) : Prop := s <> [] /\ sep_free SLASH s.

Lemma starts_with_slash_clean b : clean b -> starts_with [SLASH] b = false.
Proof.
  intros [Hne Hf]. destruct b as [|c b]; [contradiction|]. cbn [starts_with]. rewrite andb_true_r.
  apply Z.eqb_neq. intros E. apply Hf. left. symmetry. exact E.
Qed.

Lemma last_app_nonempty {A} (a b : list A) d : b <> [] -> last (a ++ b) d = last b d.
Proof.
  intros Hb. induction a as [|x a IH]; [reflexivity|]. cbn [app]. rewrite <- IH.
  destruct (a ++ b) eqn:E; [|reflexivity]. apply app_eq_nil in E. destruct E as [_ E]. contradiction.
Qed.

Lemma last_clean s : clean s -> last s 0 <> SLASH.
Proof.
  intros [Hne Hf]. destruct (exists_last Hne) as (p & x & ->). rewrite last_last. intros ->.
  apply Hf. apply in_app_iff. right. left. reflexivity.
Qed.

Lemma ends_with_slash path : path <> [] -> last path 0 <> SLASH -> ends_with [SLASH] path = false.
Proof.
  intros Hne Hl. destruct (exists_last Hne) as (p & x & ->). rewrite last_last in Hl.
  unfold ends_with. rewrite rev_app_distr. cbn [rev app starts_with]. rewrite andb_true_r.
  apply Z.eqb_neq. intros E. apply Hl. symmetry. exact E.
Qed.

Lemma posix_join_clean : forall rest path,
  path <> [] -> last path 0 <> SLASH -> Forall clean rest ->
  posix_join path rest = join [SLASH] (path :: rest).
Proof.
  induction rest as [|b t IH]; intros path Hne Hlast Hall; [reflexivity|].
  inversion Hall as [|? ? Hb Ht]; subst. cbn [posix_join]. rewrite (starts_with_slash_clean _ Hb).
  rewrite (ends_with_slash _ Hne Hlast). destruct path as [|c p]; [contradiction|]. cbn [orb].
  rewrite IH.
  - destruct t as [|y t]; [reflexivity|].
    change (join [SLASH] (((c :: p) ++ [SLASH] ++ b) :: y :: t)) with (((c :: p) ++ [SLASH] ++ b) ++ [SLASH] ++ join [SLASH] (y :: t)).
    change (join [SLASH] ((c :: p) :: b :: y :: t)) with ((c :: p) ++ [SLASH] ++ b ++ [SLASH] ++ join [SLASH] (y :: t)).
    rewrite <- !app_assoc. reflexivity.
  - destruct (c :: p); discriminate.
  - rewrite app_assoc. rewrite last_app_nonempty by apply Hb. apply last_clean. exact Hb.
  - exact Ht.
Qed.

Theorem func_id_ordinary f m q :
  ordinary f m q -> Forall clean (split_on DOT (dotted_path m q)) ->
  func_id_model f = join [SLASH] (split_on DOT (dotted_path m q)).
Proof.
  intros Ho Hc. unfold func_id_model. fold (segments f). rewrite (segments_ordinary _ _ _ Ho).
  destruct (split_on DOT (dotted_path m q)) as [|a rest] eqn:E; [exfalso; exact (split_on_nonempty _ _ E)|].
  inversion Hc as [|? ? Ha Hr]; subst. apply posix_join_clean; try assumption.
  - apply Ha.
  - apply last_clean. exact Ha.
Qed.

(* the collision class of ordinary callables: exactly "same dotted path" *)
Theorem func_id_collision_iff f1 m1 q1 f2 m2 q2 :
  ordinary f1 m1 q1 -> ordinary f2 m2 q2 ->
  Forall clean (split_on DOT (dotted_path m1 q1)) -> Forall clean (split_on DOT (dotted_path m2 q2)) ->
  (func_id_model f1 = func_id_model f2 <-> dotted_path m1 q1 = dotted_path m2 q2).
Proof.
  intros O1 O2 C1 C2. rewrite (func_id_ordinary _ _ _ O1 C1), (func_id_ordinary _ _ _ O2 C2). split.
  - intros H. apply (split_on_inj DOT).
    rewrite <- (split_join SLASH (split_on DOT (dotted_path m1 q1))), <- (split_join SLASH (split_on DOT (dotted_path m2 q2))).
    + rewrite H. reflexivity.
    + apply split_on_nonempty.
    + eapply Forall_impl; [|exact C2]. intros s Hs. apply Hs.
    + apply split_on_nonempty.
    + eapply Forall_impl; [|exact C1]. intros s Hs. apply Hs.
  - intros ->. reflexivity.
Qed.

(* get_func_name never looks at the code, the closure or bound arguments *)
Theorem func_id_ignores_identity f1 f2 :
  f_module f1 = f_module f2 -> f_name f1 = f_name f2 -> f_qualname f1 = f_qualname f2 ->
  f_sourcefile f1 = f_sourcefile f2 -> func_id_model f1 = func_id_model f2.
Proof.
  intros H1 H2 H3 H4. unfold func_id_model, get_func_name_model. rewrite H1, H2, H3, H4. reflexivity.
Qed.

(* ------------------------------------------------------------------ collisions outside the ordinary fragment *)
(* names below: "pkg.mod" "pkg" "f" "mod.f" "m" "g" "make.<locals>.g" "/a-b/c.py" "/a/b-c.py" *)
Definition w_mod1 : callable := mkCallable (Some [112; 107; 103; 46; 109; 111; 100]) (Some [102]) (Some [102]) None 1.
Definition w_mod2 : callable := mkCallable (Some [112; 107; 103]) (Some [102]) (Some [109; 111; 100; 46; 102]) None 2.
(* two closures produced by one factory make(k): everything get_func_name reads is equal *)
Definition w_clo1 : callable := mkCallable (Some [109]) (Some [103]) (Some [109; 97; 107; 101; 46; 60; 108; 111; 99; 97; 108; 115; 62; 46; 103]) None 1.
Definition w_clo2 : callable := mkCallable (Some [109]) (Some [103]) (Some [109; 97; 107; 101; 46; 60; 108; 111; 99; 97; 108; 115; 62; 46; 103]) None 2.
(* two scripts run as __main__ *)
Definition w_main1 : callable := mkCallable (Some s_main) (Some [102]) (Some [102]) (Some [47; 97; 45; 98; 47; 99; 46; 112; 121]) 1.
Definition w_main2 : callable := mkCallable (Some s_main) (Some [102]) (Some [102]) (Some [47; 97; 47; 98; 45; 99; 46; 112; 121]) 2.

(* the identifier does not determine (module, qualname): a function f of module pkg.mod and a method f of a
   class mod in module pkg get the same identifier "pkg/mod/f" *)
Lemma module_boundary_collision :
  f_module w_mod1 <> f_module w_mod2 /\ f_qualname w_mod1 <> f_qualname w_mod2
  /\ func_id_model w_mod1 = func_id_model w_mod2.
Proof. repeat split; try (vm_compute; discriminate). Qed.

(* different callables (closures of one factory, functions wrapped by one decorator without functools.wraps,
   lambdas, functools.partial objects) are indistinguishable *)
Lemma closure_collision : f_identity w_clo1 <> f_identity w_clo2 /\ func_id_model w_clo1 = func_id_model w_clo2.
Proof. split; [vm_compute; discriminate | reflexivity]. Qed.

(* "/a-b/c.py" and "/a/b-c.py" run as __main__: the os.sep -> "-" mangling is not injective *)
Lemma main_path_collision :
  f_sourcefile w_main1 <> f_sourcefile w_main2 /\ func_id_model w_main1 = func_id_model w_main2.
Proof. split; [vm_compute; discriminate | vm_compute; reflexivity]. Qed.

(* ------------------------------------------------------------------ the IPython cell number is irrelevant *)
Lemma starts_with_app a b : starts_with a (a ++ b) = true.
Proof. induction a as [|x a IH]; [reflexivity|]. cbn [app starts_with]. rewrite Z.eqb_refl, IH. reflexivity. Qed.

Lemma sep_free_app sep a b : sep_free sep a -> sep_free sep b -> sep_free sep (a ++ b).
Proof. unfold sep_free. intros Ha Hb Hin. apply in_app_iff in Hin. tauto. Qed.

Lemma sep_free_cons sep c a : c <> sep -> sep_free sep a -> sep_free sep (c :: a).
Proof. unfold sep_free. intros Hc Ha [E | Hin]; [apply Hc; exact E | exact (Ha Hin)]. Qed.

Lemma removelast_app1 {A} (l : list A) x : removelast (l ++ [x]) = l.
Proof. rewrite removelast_app by discriminate. cbn. apply app_nil_r. Qed.

(* the cell file name "<ipython-input-N-XYZ>" inside directory [dir] *)
Definition ipython_cell (dir n x : str) : str := dir ++ [SLASH] ++ s_ipython_input ++ [DASH] ++ n ++ [DASH] ++ x.

Lemma mangle_ipython dir n x :
  sep_free SLASH n -> sep_free DASH n -> sep_free SLASH x ->
  mangle_filename (ipython_cell dir n x) =
  let fn := join [DASH] (split_on SLASH dir ++
                         [join [DASH] (split_on DASH s_ipython_input ++ split_on DASH x)]) in
  if ends_with s_dot_py fn then firstn (length fn - 3) fn else fn.
Proof.
  intros Hsn Hdn Hsx. unfold mangle_filename, ipython_cell. cbv zeta.
  set (cell := s_ipython_input ++ [DASH] ++ n ++ [DASH] ++ x).
  assert (Hcell : sep_free SLASH cell).
  { unfold cell. apply sep_free_app; [vm_compute; intuition discriminate|]. cbn [app].
    apply sep_free_cons; [discriminate|]. apply sep_free_app; [exact Hsn|]. apply sep_free_cons; [discriminate | exact Hsx]. }
  change (dir ++ [SLASH] ++ cell) with (dir ++ SLASH :: cell).
  rewrite split_on_app, (split_on_free _ _ Hcell), last_last.
  unfold cell at 1. rewrite starts_with_app.
  assert (Hsp : split_on DASH cell = split_on DASH s_ipython_input ++ [n] ++ split_on DASH x).
  { unfold cell. change (s_ipython_input ++ [DASH] ++ n ++ [DASH] ++ x) with (s_ipython_input ++ DASH :: (n ++ DASH :: x)).
    rewrite !split_on_app, (split_on_free _ _ Hdn). reflexivity. }
  rewrite Hsp. unfold replace_last. rewrite removelast_app1. reflexivity.
Qed.

Theorem ipython_cell_number_irrelevant dir n1 n2 x :
  sep_free SLASH n1 -> sep_free DASH n1 -> sep_free SLASH n2 -> sep_free DASH n2 -> sep_free SLASH x ->
  mangle_filename (ipython_cell dir n1 x) = mangle_filename (ipython_cell dir n2 x).
Proof. intros. rewrite !mangle_ipython by assumption. reflexivity. Qed.
