(* Composition of M2 (filter_args) and M3 (hash stream) into the cache key of M4, part 1:
   the fragment instance of the M4 configuration, and the interface statements key_complete and accepts
   PROVED for it (they are hypotheses of the parametric C06 theorems). *)
From Coq Require Import ZArith List Bool Arith.
Require Import JV.Base.PyPrelude JV.Model.MemoryCore JV.Model.MemoryKey JV.Proofs.MemoryCore.
Require JV.Model.FilterArgs JV.Model.HashEnc JV.Proofs.FilterArgs JV.Proofs.FilterArgsIgnore.
Import ListNotations.

Module PFA := JV.Proofs.FilterArgs.
Module PFI := JV.Proofs.FilterArgsIgnore.

Lemma zlist_eqb_spec : forall a b, zlist_eqb a b = true <-> a = b.
Proof.
  induction a as [|x a IH]; destruct b as [|y b]; cbn; split; intros H; try reflexivity; try discriminate.
  - apply andb_true_iff in H. destruct H as [H1 H2]. apply Z.eqb_eq in H1. apply IH in H2. congruence.
  - inversion H. subst. rewrite Z.eqb_refl. cbn. apply IH. reflexivity.
Qed.

Lemma odigest_eqb_spec : forall a b, odigest_eqb a b = true <-> a = b.
Proof.
  intros [x|] [y|]; cbn; split; intros H; try reflexivity; try discriminate.
  - apply zlist_eqb_spec in H. congruence.
  - inversion H. apply zlist_eqb_spec. reflexivity.
Qed.

Section KeyCfg.
  Variable md5 : list Z -> list Z.
  Variable vmap : Z -> HE.value.
  Variable nmap : Z -> list Z.
  (* the rest of the M4 configuration is arbitrary *)
  Context {uvalue usrc : Type}.
  Variable usrc_eqb : usrc -> usrc -> bool.
  Variable ucode : nat -> usrc.
  Variable upath : nat -> nat.
  Variable unamed : nat -> bool.
  Variable uf : usrc -> FA.binding -> uvalue.

  (* a plain function with signature s cached with ignore list ign: the REAL key *)
  Definition key_cfg (s : FA.sig) (ign : list FA.key)
    : cfg FA.call FA.adict (option (list Z)) FA.binding FA.adict uvalue usrc :=
    {| canonicalise := FA.filter_args_model s ign None;
       bind_spec := fun c => if FA.wf_callb c then FA.py_bind s c else None;
       restrict := restrict_binding s ign;
       digest_of := digest_of_dict md5 vmap nmap;
       digest_eqb := odigest_eqb;
       src_eqb := usrc_eqb;
       code := ucode; path_of := upath; named := unamed; f := uf |}.

  (* the ignore list is duplicate-free and names keys of the canonical dict *)
  Definition ign_ok (s : FA.sig) (ign : list FA.key) : Prop :=
    NoDup ign /\ forall c b, FA.py_bind s c = Some b -> forall k, In k ign -> In k (map fst (FA.canon s b)).

  (* in the fragment the canonicaliser returns exactly the binding outside the ignore list *)
  Lemma canonicalise_is_restrict : forall s ign c b,
    FA.wf_sig s -> FA.sig_in_fragment s = true -> ign_ok s ign ->
    bind_spec (key_cfg s ign) c = Some b ->
    canonicalise (key_cfg s ign) c = Ok (restrict (key_cfg s ign) b).
  Proof.
    intros s ign c b Hwf Hfr [Hnd Hin] Hb. cbn in *.
    destruct (FA.wf_callb c) eqn:Ec; [|discriminate].
    unfold restrict_binding.
    apply (PFI.ignore_removes s None c ign (FA.canon s b)).
    - apply PFA.agree_partial; auto. apply PFA.sig_in_fragment_all. exact Hfr.
    - exact Hnd.
    - apply (Hin c b Hb).
  Qed.

  (* (a) key_complete: two calls with the same binding outside the ignore list -- positional, keyword or
     defaults left implicit, **kwargs in any order -- get the same key.  No hypothesis on md5, vmap, nmap. *)
  Theorem key_complete_fragment : forall s ign,
    FA.wf_sig s -> FA.sig_in_fragment s = true -> ign_ok s ign -> key_complete (key_cfg s ign).
  Proof.
    intros s ign Hwf Hfr Hok c1 c2 k1 k2 b1 b2 H1 H2 Hb1 Hb2 Hr.
    rewrite (canonicalise_is_restrict s ign c1 b1 Hwf Hfr Hok Hb1) in H1.
    rewrite (canonicalise_is_restrict s ign c2 b2 Hwf Hfr Hok Hb2) in H2.
    inversion H1. inversion H2. subst. f_equal. exact Hr.
  Qed.

  (* the wrapper accepts every call Python binds *)
  Theorem accepts_fragment : forall s ign,
    FA.wf_sig s -> FA.sig_in_fragment s = true -> ign_ok s ign -> accepts (key_cfg s ign).
  Proof.
    intros s ign Hwf Hfr Hok c b Hb. eexists. exact (canonicalise_is_restrict s ign c b Hwf Hfr Hok Hb).
  Qed.

End KeyCfg.
