(* M1 proofs, part 2b: structural, counting and status invariants of the trackers. *)
From Coq Require Import List Bool Arith Lia PeanoNat.
Require Import JV.Model.ParallelCore JV.Proofs.ParallelLemmas JV.Proofs.ParallelInv1 JV.Proofs.ParallelTrk.
Import ListNotations.

Definition valid (s : st) (l : list nat) : Prop := Forall (fun t => t < length (trk s)) l.
Definition allcur (s : st) (l : list nat) : Prop := Forall (fun t => is_cur s t = true) l.
Definition size_of (s : st) (t : nat) : nat := length (tasks_of s t).

Record Inv2 (s : st) : Prop := {
  j_cids : Forall (fun k => tk_cid k <= cid s) (trk s);
  j_jobs : allcur s (jobs s);
  j_jset : allcur s (jset s);
  j_closed : allcur s (closed s);
  j_rem : allcur s (rem_of s);
  j_infl : valid s (inflight s);
  j_mid : valid s (cbmid s);
  j_nd_closed : NoDup (closed s);
  j_nd_mid : NoDup (cbmid s);
  j_nd_infl : NoDup (inflight s);
  j_cl_mid : forall t, In t (closed s) -> ~ In t (cbmid s) /\ ~ In t (inflight s);
  j_mid_infl : forall t, In t (cbmid s) -> ~ In t (inflight s);
  j_sub : ifail s = None -> map (tasks_of s) (curids s) = submitted s;
  j_ndisp : n_disp s = length (concat (submitted s));
  j_cnt : n_disp s = n_comp s + sum_list (map (size_of s) (opens s));
  j_abexc : aborting s = true -> exception s = true;
  j_infl_pending : exception s = false -> forall t, In t (inflight s) -> is_cur s t = true -> status_of s t = Pending;
  j_mid_done : exception s = false -> forall t, In t (cbmid s) -> is_cur s t = true -> status_of s t = Done;
  j_closed_done : exception s = false -> forall t, In t (closed s) -> status_of s t = Done;
  j_open_where : exception s = false -> forall t, In t (opens s) -> In t (inflight s) \/ In t (cbmid s);
  j_nonempty : exception s = false -> forall t, is_cur s t = true -> tasks_of s t <> []
}.

Definition Inv12 (s : st) : Prop := Inv1 s /\ Inv2 s.

Ltac open2 H :=
  destruct H as [Hcids Hjobs Hjset Hclosed Hrem Hinfl Hmid Hndc Hndm Hndi Hclm Hmi Hsub Hnd Hcnt Habx Hip Hmd Hcd How Hne].

(* transformers that leave trk, cid, closed, inflight, cbmid, counters alone *)
Ltac frame2 :=
  intros;
  match goal with H : Inv12 _ |- _ =>
    let A := fresh "A" in let B := fresh "B" in
    destruct H as [A B];
    split; [ revert A; frame1 | open2 B; constructor; cbn; auto ]
  end.

Lemma is_cur_lt s t : is_cur s t = true -> t < length (trk s).
Proof.
  unfold is_cur, cur_of. destruct (nth_error (trk s) t) eqn:E; [|discriminate].
  intros _. apply nth_error_Some. congruence.
Qed.

Lemma allcur_valid s l : allcur s l -> valid s l.
Proof. apply Forall_impl. intros t. apply is_cur_lt. Qed.

(* ---------------- do_call ---------------- *)
Lemma inv12_call s cf n f : Inv12 s -> wf_cfg cf -> Inv12 (do_call s cf n f).
Proof.
  intros [H1 H2] Hcf. split.
  - destruct H1. constructor; cbn; auto. lia.
  - open2 H2.
    assert (Hfresh : curids_of (trk s) (S (cid s)) = []) by (apply curids_of_fresh; exact Hcids).
    assert (Hnocur : forall t, is_cur (do_call s cf n f) t = true -> False).
    { intros t Hc. unfold is_cur in Hc. cbn [trk cid do_call] in Hc.
      assert (Hin : In t (curids_of (trk s) (S (cid s)))) by (apply curids_of_In; exact Hc).
      rewrite Hfresh in Hin. destruct Hin. }
    constructor.
    + cbn. eapply Forall_impl; [|exact Hcids]. cbn. intros. lia.
    + constructor.
    + constructor.
    + constructor.
    + constructor.
    + exact Hinfl.
    + exact Hmid.
    + constructor.
    + exact Hndm.
    + exact Hndi.
    + intros t [].
    + exact Hmi.
    + intros _. unfold curids. cbn [trk cid do_call submitted]. rewrite Hfresh. reflexivity.
    + reflexivity.
    + unfold opens, opens_of. cbn [trk cid do_call closed n_disp n_comp]. rewrite Hfresh. reflexivity.
    + cbn. discriminate.
    + intros _ t _ Hc. exfalso. eapply Hnocur; exact Hc.
    + intros _ t _ Hc. exfalso. eapply Hnocur; exact Hc.
    + intros _ t [].
    + intros _ t Hin. unfold opens, opens_of in Hin. cbn [trk cid do_call closed] in Hin. rewrite Hfresh in Hin. destruct Hin.
    + intros _ t Hc. exfalso. eapply Hnocur; exact Hc.
Qed.

(* ---------------- submitting a batch ---------------- *)
Lemma allcur_app_old tr k cd l : Forall (fun t => cur_of tr cd t = true) l ->
  Forall (fun t => cur_of (tr ++ [k]) cd t = true) l.
Proof.
  apply Forall_impl. intros t H. rewrite cur_of_app_old; [exact H|].
  unfold cur_of in H. destruct (nth_error tr t) eqn:E; [|discriminate]. apply nth_error_Some. congruence.
Qed.

Lemma valid_app_old {A} (tr : list A) k l : Forall (fun t => t < length tr) l ->
  Forall (fun t => t < length (tr ++ [k])) l.
Proof. apply Forall_impl. intros t H. rewrite app_length. cbn. lia. Qed.

Lemma not_in_valid (tr : list tracker) l : Forall (fun t => t < length tr) l -> ~ In (length tr) l.
Proof. intros H Hin. rewrite Forall_forall in H. specialize (H _ Hin). lia. Qed.

Lemma NoDup_snoc {A} (l : list A) x : NoDup l -> ~ In x l -> NoDup (l ++ [x]).
Proof.
  intros Hn Hx. induction l as [|a l IH]; cbn; [constructor; [intros []|constructor]|].
  inversion Hn as [|? ? Ha Hn']; subst. constructor.
  - intros Hin. apply in_app_or in Hin. destruct Hin as [Hin | [<- | []]]; [exact (Ha Hin)|]. apply Hx. left. reflexivity.
  - apply IH; [exact Hn'|]. intros Hin. apply Hx. right. exact Hin.
Qed.

Definition size_in (tr : list tracker) (t : nat) : nat := length (tasks_in tr t).
Lemma tasks_of_fun s : tasks_of s = tasks_in (trk s). Proof. reflexivity. Qed.
Lemma status_of_fun s : status_of s = status_in (trk s). Proof. reflexivity. Qed.
Lemma size_of_fun s : size_of s = size_in (trk s). Proof. reflexivity. Qed.
Lemma is_cur_fun s : is_cur s = cur_of (trk s) (cid s). Proof. reflexivity. Qed.
Lemma curids_fun s : curids s = curids_of (trk s) (cid s). Proof. reflexivity. Qed.
Lemma opens_fun s : opens s = opens_of (trk s) (cid s) (closed s). Proof. reflexivity. Qed.

Ltac norm2 :=
  unfold valid, allcur, rem_of;
  rewrite ?tasks_of_fun, ?status_of_fun, ?size_of_fun, ?is_cur_fun, ?curids_fun, ?opens_fun.

Lemma inv2_submit s tk pl rdy t :
  Inv2 s -> t <> [] -> Inv2 (submit_state s tk pl rdy t).
Proof.
  intros H2 Ht. open2 H2.
  set (k := {| tk_cid := cid s; tk_tasks := t; tk_status := Pending |}).
  set (id := length (trk s)).
  assert (Vjobs := allcur_valid _ _ Hjobs). assert (Vjset := allcur_valid _ _ Hjset).
  assert (Vclosed := allcur_valid _ _ Hclosed).
  assert (Hidc : ~ In id (closed s)) by (apply not_in_valid; exact Vclosed).
  assert (Hidm : ~ In id (cbmid s)) by (apply not_in_valid; exact Hmid).
  assert (Hidi : ~ In id (inflight s)) by (apply not_in_valid; exact Hinfl).
  assert (Hcurnew : cur_of (trk s ++ [k]) (cid s) id = true).
  { unfold id. rewrite cur_of_app_new. cbn. apply Nat.eqb_refl. }
  assert (Hopens : opens_of (trk s ++ [k]) (cid s) (closed s) = opens s ++ [id]).
  { apply opens_of_app_new; [reflexivity | exact Hidc]. }
  assert (Hold_tasks : forall u, u < length (trk s) -> tasks_in (trk s ++ [k]) u = tasks_in (trk s) u).
  { intros u Hu. apply tasks_in_app_old. exact Hu. }
  assert (Hold_status : forall u, u < length (trk s) -> status_in (trk s ++ [k]) u = status_in (trk s) u).
  { intros u Hu. apply status_in_app_old. exact Hu. }
  assert (Hold_cur : forall u, u < length (trk s) -> cur_of (trk s ++ [k]) (cid s) u = cur_of (trk s) (cid s) u).
  { intros u Hu. apply cur_of_app_old. exact Hu. }
  assert (Hcur_cases : forall u, cur_of (trk s ++ [k]) (cid s) u = true -> u = id \/ (u < length (trk s) /\ is_cur s u = true)).
  { intros u Hu. destruct (Nat.lt_ge_cases u (length (trk s))) as [Hlt|Hge].
    - right. split; [exact Hlt|]. unfold is_cur. rewrite <- Hold_cur by exact Hlt. exact Hu.
    - left. unfold cur_of in Hu. destruct (nth_error (trk s ++ [k]) u) eqn:E; [|discriminate].
      assert (u < length (trk s ++ [k])) by (apply nth_error_Some; congruence).
      rewrite app_length in H. cbn in H. unfold id. lia. }
  remember (submit_state s tk pl rdy t) as s' eqn:Es'.
  assert (Etrk : trk s' = trk s ++ [k]) by (subst s'; reflexivity).
  assert (Ecid : cid s' = cid s) by (subst s'; reflexivity).
  assert (Ejobs : jobs s' = if is_ordered s then jobs s ++ [id] else jobs s) by (subst s'; reflexivity).
  assert (Ejset : jset s' = if is_ordered s then jset s else jset s ++ [id]) by (subst s'; reflexivity).
  assert (Einfl : inflight s' = inflight s ++ [id]) by (subst s'; reflexivity).
  assert (Emid : cbmid s' = cbmid s) by (subst s'; reflexivity).
  assert (Ecl : closed s' = closed s) by (subst s'; reflexivity).
  assert (Eph : phase s' = phase s) by (subst s'; reflexivity).
  assert (End : n_disp s' = n_disp s + length t) by (subst s'; reflexivity).
  assert (Enc : n_comp s' = n_comp s) by (subst s'; reflexivity).
  assert (Esub : submitted s' = submitted s ++ [t]) by (subst s'; reflexivity).
  assert (Eab : aborting s' = aborting s) by (subst s'; reflexivity).
  assert (Eex : exception s' = exception s) by (subst s'; reflexivity).
  assert (Eif : ifail s' = ifail s) by (subst s'; reflexivity).
  clear Es'.
  constructor; norm2; rewrite ?Etrk, ?Ecid, ?Ejobs, ?Ejset, ?Einfl, ?Emid, ?Ecl, ?Eph, ?End, ?Enc, ?Esub, ?Eab, ?Eex, ?Eif.
  - apply Forall_app. split; [exact Hcids | constructor; [cbn; lia | constructor]].
  - destruct (is_ordered s).
    + apply Forall_app. split; [apply allcur_app_old; exact Hjobs | constructor; [exact Hcurnew | constructor]].
    + apply allcur_app_old; exact Hjobs.
  - destruct (is_ordered s).
    + apply allcur_app_old; exact Hjset.
    + apply Forall_app. split; [apply allcur_app_old; exact Hjset | constructor; [exact Hcurnew | constructor]].
  - apply allcur_app_old; exact Hclosed.
  - unfold allcur, rem_of in Hrem. destruct (phase s); apply allcur_app_old; exact Hrem.
  - apply Forall_app. split; [apply valid_app_old; exact Hinfl | constructor; [rewrite app_length; cbn; unfold id; lia | constructor]].
  - apply valid_app_old; exact Hmid.
  - exact Hndc.
  - exact Hndm.
  - apply NoDup_snoc; assumption.
  - intros u Hu. destruct (Hclm u Hu) as [A B]. split; [exact A|]. intros Hin. apply in_app_or in Hin.
    destruct Hin as [Hin | [<- | []]]; [exact (B Hin) | exact (Hidc Hu)].
  - intros u Hu Hin. apply in_app_or in Hin. destruct Hin as [Hin | [<- | []]]; [exact (Hmi u Hu Hin) | exact (Hidm Hu)].
  - intros Hi. rewrite curids_of_app. cbn [tk_cid k].
    rewrite Nat.eqb_refl. rewrite map_app. cbn [map]. fold id. unfold id at 1. rewrite tasks_in_app_new. cbn [tk_tasks k].
    f_equal. rewrite <- (Hsub Hi). apply map_ext_in. intros u Hu. apply Hold_tasks.
    apply curids_of_lt in Hu. tauto.
  - rewrite concat_app, app_length. cbn [concat]. rewrite app_nil_r. rewrite Hnd. reflexivity.
  - rewrite Hopens. rewrite map_app, sum_list_app. cbn [map sum_list fold_right].
    unfold size_in at 2. unfold id at 1. rewrite tasks_in_app_new. cbn [tk_tasks k]. rewrite Hcnt.
    assert (E : map (size_in (trk s ++ [k])) (opens s) = map (size_of s) (opens s)).
    { apply map_ext_in. intros u Hu. unfold size_of, size_in. rewrite tasks_of_in. rewrite Hold_tasks; [reflexivity|].
      apply opens_of_In in Hu. destruct Hu as [Hu _]. apply (is_cur_lt s u Hu). }
    rewrite E. lia.
  - exact Habx.
  - intros Hx u Hin Hc. apply in_app_or in Hin. destruct Hin as [Hin | [<- | []]].
    + unfold valid in Hinfl; rewrite Forall_forall in Hinfl. pose proof (Hinfl u Hin) as Hlt.
      rewrite Hold_status by exact Hlt.
      apply (Hip Hx u Hin). unfold is_cur. rewrite <- Hold_cur by exact Hlt. exact Hc.
    + unfold id. rewrite status_in_app_new. reflexivity.
  - intros Hx u Hin Hc. unfold valid in Hmid; rewrite Forall_forall in Hmid. pose proof (Hmid u Hin) as Hlt.
    rewrite Hold_status by exact Hlt.
    apply (Hmd Hx u Hin). unfold is_cur. rewrite <- Hold_cur by exact Hlt. exact Hc.
  - intros Hx u Hin. unfold valid in Vclosed; rewrite Forall_forall in Vclosed. pose proof (Vclosed u Hin) as Hlt.
    rewrite Hold_status by exact Hlt. exact (Hcd Hx u Hin).
  - intros Hx u Hin. rewrite Hopens in Hin.
    apply in_app_or in Hin. destruct Hin as [Hin | [<- | []]].
    + destruct (How Hx u Hin) as [A|A]; [left; apply in_or_app; left; exact A | right; exact A].
    + left. apply in_or_app. right. left. reflexivity.
  - intros Hx u Hc.
    destruct (Hcur_cases u Hc) as [-> | [Hlt Hcu]].
    + unfold id. rewrite tasks_in_app_new. exact Ht.
    + rewrite Hold_tasks by exact Hlt. exact (Hne Hx u Hcu).
Qed.

(* field equations of a transformed state, then forget the transformer *)
Definition FE {A} (a b : A) : Prop := a = b.
Ltac fields e s' :=
  (let v := eval cbn in (trk e) in assert (Etrk : FE (trk e) v) by reflexivity);
  (let v := eval cbn in (cid e) in assert (Ecid : FE (cid e) v) by reflexivity);
  (let v := eval cbn in (jobs e) in assert (Ejobs : FE (jobs e) v) by reflexivity);
  (let v := eval cbn in (jset e) in assert (Ejset : FE (jset e) v) by reflexivity);
  (let v := eval cbn in (inflight e) in assert (Einfl : FE (inflight e) v) by reflexivity);
  (let v := eval cbn in (cbmid e) in assert (Emid : FE (cbmid e) v) by reflexivity);
  (let v := eval cbn in (closed e) in assert (Ecl : FE (closed e) v) by reflexivity);
  (let v := eval cbn in (phase e) in assert (Eph : FE (phase e) v) by reflexivity);
  (let v := eval cbn in (n_disp e) in assert (End : FE (n_disp e) v) by reflexivity);
  (let v := eval cbn in (n_comp e) in assert (Enc : FE (n_comp e) v) by reflexivity);
  (let v := eval cbn in (submitted e) in assert (Esub : FE (submitted e) v) by reflexivity);
  (let v := eval cbn in (aborting e) in assert (Eab : FE (aborting e) v) by reflexivity);
  (let v := eval cbn in (exception e) in assert (Eex : FE (exception e) v) by reflexivity);
  (let v := eval cbn in (ifail e) in assert (Eif : FE (ifail e) v) by reflexivity);
  let Hq := fresh "Heqs" in (remember e as s' eqn:Hq; clear Hq).
Ltac rw_fields := repeat match goal with H : FE ?lhs _ |- context [?lhs] => rewrite H end.

(* ---------------- the input iterator raised ---------------- *)
Lemma inv2_iter_error s f pl : Inv2 s -> ifail s <> None -> Inv2 (do_iter_error s f pl).
Proof.
  intros H2 Hif. open2 H2.
  set (k := {| tk_cid := cid s; tk_tasks := []; tk_status := Failed ErrIter |}).
  set (id := length (trk s)).
  assert (Vclosed := allcur_valid _ _ Hclosed).
  assert (Hidc : ~ In id (closed s)) by (apply not_in_valid; exact Vclosed).
  assert (Hcurnew : cur_of (trk s ++ [k]) (cid s) id = true).
  { unfold id. rewrite cur_of_app_new. cbn. apply Nat.eqb_refl. }
  assert (Hopens : opens_of (trk s ++ [k]) (cid s) (closed s) = opens s ++ [id]).
  { apply opens_of_app_new; [reflexivity | exact Hidc]. }
  fields (do_iter_error s f pl) s'. fold k in Etrk. fold id in Ejobs, Ejset.
  constructor; norm2; rw_fields; try (intros Hx; discriminate Hx).
  - apply Forall_app. split; [exact Hcids | constructor; [cbn; lia | constructor]].
  - apply Forall_app. split; [apply allcur_app_old; exact Hjobs | constructor; [exact Hcurnew | constructor]].
  - unfold is_ordered in *. destruct (mode (c s)).
    + apply allcur_app_old; exact Hjset.
    + apply Forall_app. split; [apply allcur_app_old; exact Hjset | constructor; [exact Hcurnew | constructor]].
  - apply allcur_app_old; exact Hclosed.
  - unfold allcur, rem_of in Hrem. destruct (phase s); apply allcur_app_old; exact Hrem.
  - apply valid_app_old; exact Hinfl.
  - apply valid_app_old; exact Hmid.
  - exact Hndc.
  - exact Hndm.
  - exact Hndi.
  - exact Hclm.
  - exact Hmi.
  - intros Hi. contradiction.
  - exact Hnd.
  - rewrite Hopens. rewrite map_app, sum_list_app. cbn [map sum_list fold_right].
    unfold size_in at 2. unfold id at 1. rewrite tasks_in_app_new. cbn [tk_tasks k length]. rewrite Hcnt.
    assert (E : map (size_in (trk s ++ [k])) (opens s) = map (size_of s) (opens s)).
    { apply map_ext_in. intros u Hu. unfold size_of, size_in. rewrite tasks_of_in. rewrite tasks_in_app_old; [reflexivity|].
      apply opens_of_In in Hu. destruct Hu as [Hu _]. apply (is_cur_lt s u Hu). }
    rewrite E. lia.
  - reflexivity.
Qed.

(* ---------------- first locked section of the completion callback ---------------- *)
Lemma Forall_remove_id (P : nat -> Prop) t l : Forall P l -> Forall P (remove_id t l).
Proof. intros H. apply Forall_forall. intros x Hx. apply In_remove_id in Hx. rewrite Forall_forall in H. apply H. tauto. Qed.

Lemma inv2_cb_start s t o : Inv2 s -> Inv2 (cb_start s t o).
Proof.
  intros H2. unfold cb_start.
  destruct (get_trk s t) as [k|] eqn:Hk; [|exact H2]. unfold get_trk in Hk.
  destruct (mem_id t (inflight s)) eqn:Hti; cbn [negb]; [|exact H2]. apply mem_id_In in Hti.
  assert (Hlt : t < length (trk s)) by (apply nth_error_Some; congruence).
  open2 H2.
  assert (Htm : ~ In t (cbmid s)) by (intros Hin; exact (Hmi t Hin Hti)).
  assert (Htc : ~ In t (closed s)) by (intros Hin; destruct (Hclm t Hin) as [_ B]; exact (B Hti)).
  destruct (negb (tk_cid k =? cid s) || aborting s) eqn:Hdrop.
  - (* stale or aborting: the callback returns at once *)
    match goal with |- Inv2 ?e => fields e s' end.
    constructor; norm2; rw_fields; auto.
    + apply Forall_remove_id. exact Hinfl.
    + apply NoDup_remove_id. exact Hndi.
    + intros u Hu. destruct (Hclm u Hu) as [A B]. split; [exact A|]. intros Hin. apply In_remove_id in Hin. tauto.
    + intros u Hu Hin. apply In_remove_id in Hin. exact (Hmi u Hu (proj1 Hin)).
    + intros Hx u Hin Hc. apply In_remove_id in Hin. apply (Hip Hx u (proj1 Hin) Hc).
    + intros Hx u Hin. destruct (How Hx u Hin) as [A|A]; [|right; exact A].
      left. apply In_remove_id. split; [exact A|]. intros ->.
      (* t is open, hence current; not aborting since no exception: contradiction with Hdrop *)
      apply opens_of_In in Hin. destruct Hin as [Hc _]. unfold cur_of in Hc. rewrite Hk in Hc.
      rewrite Hc in Hdrop. cbn in Hdrop.
      destruct (aborting s) eqn:Hab; [|discriminate]. rewrite (Habx eq_refl) in Hx. discriminate.
  - apply orb_false_iff in Hdrop as [Hcur Hab]. apply negb_false_iff in Hcur.
    assert (Hct : is_cur s t = true) by (unfold is_cur, cur_of; rewrite Hk; exact Hcur).
    assert (Hpend : exception s = false -> tk_status k = Pending).
    { intros Hx. pose proof (Hip Hx t Hti Hct) as Hs. unfold status_of, get_trk in Hs. rewrite Hk in Hs. exact Hs. }
    destruct o as [e|].
    + (* the batch failed *)
      destruct (tk_status k) eqn:Hst.
      * (* registration: status Failed, abort *)
        match goal with |- Inv2 ?e => fields e s' end. rewrite set_status_eq in Etrk.
        constructor; norm2; rw_fields; rewrite ?orb_true_r; try (intros Hx; discriminate Hx);
          rewrite ?curids_of_set_status, ?opens_of_set_status, ?set_status_in_length; auto.
        -- unfold set_status_in. rewrite Hk. apply Forall_forall. intros x Hx.
           apply In_nth_error in Hx as [n Hn]. destruct (Nat.eq_dec n t) as [->|Hnt].
           ++ rewrite nth_error_set_nth_eq in Hn by exact Hlt. injection Hn as <-. cbn.
              rewrite Forall_forall in Hcids. apply (Hcids k). eapply nth_error_In; exact Hk.
           ++ rewrite nth_error_set_nth_neq in Hn by congruence. rewrite Forall_forall in Hcids. apply Hcids. eapply nth_error_In; exact Hn.
        -- unfold is_ordered. destruct (mode (c s)); cbn [orb]; unfold allcur in *;
             [|apply Forall_app; split; [|constructor; [|constructor]]];
             try (eapply Forall_impl; [|exact Hjobs]; intros u Hu; rewrite cur_of_set_status; exact Hu).
           rewrite cur_of_set_status. exact Hct.
        -- eapply Forall_impl; [|exact Hjset]. intros u Hu. rewrite cur_of_set_status. exact Hu.
        -- eapply Forall_impl; [|exact Hclosed]. intros u Hu. rewrite cur_of_set_status. exact Hu.
        -- unfold allcur, rem_of in Hrem. destruct (phase s); (eapply Forall_impl; [|exact Hrem]); intros u Hu; rewrite cur_of_set_status; exact Hu.
        -- apply Forall_remove_id. exact Hinfl.
        -- apply NoDup_remove_id. exact Hndi.
        -- intros u Hu. destruct (Hclm u Hu) as [A B]. split; [exact A|]. intros Hin. apply In_remove_id in Hin. tauto.
        -- intros u Hu Hin. apply In_remove_id in Hin. exact (Hmi u Hu (proj1 Hin)).
        -- intros Hi. rewrite <- (Hsub Hi). apply map_ext. intros u. apply tasks_in_set_status.
        -- rewrite Hcnt. f_equal. f_equal. apply map_ext. intros u. unfold size_in, size_of. rewrite tasks_in_set_status. reflexivity.
      * (* already registered (only possible after a timeout): nothing but the in-flight list changes *)
        match goal with |- Inv2 ?e => fields e s' end.
        assert (Hx1 : exception s = true).
        { destruct (exception s) eqn:Hx; [reflexivity|]. specialize (Hpend eq_refl). discriminate. }
        constructor; norm2; rw_fields; rewrite ?Hx1; try (intros Hx; discriminate Hx); auto.
        -- apply Forall_remove_id. exact Hinfl.
        -- apply NoDup_remove_id. exact Hndi.
        -- intros u Hu. destruct (Hclm u Hu) as [A B]. split; [exact A|]. intros Hin. apply In_remove_id in Hin. tauto.
        -- intros u Hu Hin. apply In_remove_id in Hin. exact (Hmi u Hu (proj1 Hin)).
      * match goal with |- Inv2 ?e => fields e s' end.
        assert (Hx1 : exception s = true).
        { destruct (exception s) eqn:Hx; [reflexivity|]. specialize (Hpend eq_refl). discriminate. }
        constructor; norm2; rw_fields; rewrite ?Hx1; try (intros Hx; discriminate Hx); auto.
        -- apply Forall_remove_id. exact Hinfl.
        -- apply NoDup_remove_id. exact Hndi.
        -- intros u Hu. destruct (Hclm u Hu) as [A B]. split; [exact A|]. intros Hin. apply In_remove_id in Hin. tauto.
        -- intros u Hu Hin. apply In_remove_id in Hin. exact (Hmi u Hu (proj1 Hin)).
    + (* the batch succeeded *)
      assert (Hnd_mid' : NoDup (cbmid s ++ [t])) by (apply NoDup_snoc; assumption).
      assert (Hclm' : forall u, In u (closed s) -> ~ In u (cbmid s ++ [t]) /\ ~ In u (remove_id t (inflight s))).
      { intros u Hu. destruct (Hclm u Hu) as [A B]. split.
        - intros Hin. apply in_app_or in Hin. destruct Hin as [Hin | [<- | []]]; [exact (A Hin) | exact (Htc Hu)].
        - intros Hin. apply In_remove_id in Hin. tauto. }
      assert (Hmi' : forall u, In u (cbmid s ++ [t]) -> ~ In u (remove_id t (inflight s))).
      { intros u Hu Hin. apply In_remove_id in Hin. destruct Hin as [Hin Hne']. apply in_app_or in Hu.
        destruct Hu as [Hu | [<- | []]]; [exact (Hmi u Hu Hin) | congruence]. }
      assert (Hmidv : valid s (cbmid s ++ [t])) by (apply Forall_app; split; [exact Hmid | constructor; [exact Hlt | constructor]]).
      destruct (tk_status k) eqn:Hst.
      * match goal with |- Inv2 ?e => fields e s' end. rewrite set_status_eq in Etrk.
        rewrite ?orb_false_r in *.
        constructor; norm2; rw_fields; rewrite ?orb_false_r;
          rewrite ?curids_of_set_status, ?opens_of_set_status, ?set_status_in_length; auto.
        -- unfold set_status_in. rewrite Hk. apply Forall_forall. intros x Hx.
           apply In_nth_error in Hx as [n Hn]. destruct (Nat.eq_dec n t) as [->|Hne'].
           ++ rewrite nth_error_set_nth_eq in Hn by exact Hlt. injection Hn as <-. cbn.
              rewrite Forall_forall in Hcids. apply (Hcids k). eapply nth_error_In; exact Hk.
           ++ rewrite nth_error_set_nth_neq in Hn by congruence. rewrite Forall_forall in Hcids. apply Hcids. eapply nth_error_In; exact Hn.
        -- unfold is_ordered. destruct (mode (c s)); cbn [orb]; unfold allcur in *;
             [|apply Forall_app; split; [|constructor; [|constructor]]];
             try (eapply Forall_impl; [|exact Hjobs]; intros u Hu; rewrite cur_of_set_status; exact Hu).
           rewrite cur_of_set_status. exact Hct.
        -- eapply Forall_impl; [|exact Hjset]. intros u Hu. rewrite cur_of_set_status. exact Hu.
        -- eapply Forall_impl; [|exact Hclosed]. intros u Hu. rewrite cur_of_set_status. exact Hu.
        -- unfold allcur, rem_of in Hrem. destruct (phase s); (eapply Forall_impl; [|exact Hrem]); intros u Hu; rewrite cur_of_set_status; exact Hu.
        -- apply Forall_remove_id. exact Hinfl.
        -- apply NoDup_remove_id. exact Hndi.
        -- intros Hi. rewrite <- (Hsub Hi). apply map_ext. intros u. apply tasks_in_set_status.
        -- rewrite Hcnt. f_equal. f_equal. apply map_ext. intros u. unfold size_in, size_of. rewrite tasks_in_set_status. reflexivity.
        -- intros Hx u Hin Hc. apply In_remove_id in Hin. destruct Hin as [Hin Hne'].
           rewrite status_in_set_status_neq by congruence. rewrite cur_of_set_status in Hc. exact (Hip Hx u Hin Hc).
        -- intros Hx u Hin Hc. apply in_app_or in Hin. destruct Hin as [Hin | [<- | []]].
           ++ rewrite status_in_set_status_neq by (intros ->; exact (Htm Hin)). rewrite cur_of_set_status in Hc. exact (Hmd Hx u Hin Hc).
           ++ apply status_in_set_status_eq. exact Hlt.
        -- intros Hx u Hin. rewrite status_in_set_status_neq by (intros ->; exact (Htc Hin)). exact (Hcd Hx u Hin).
        -- intros Hx u Hin. destruct (Nat.eq_dec u t) as [->|Hne'].
           ++ right. apply in_or_app. right. left. reflexivity.
           ++ destruct (How Hx u Hin) as [A|A]; [left; apply In_remove_id; split; assumption | right; apply in_or_app; left; exact A].
        -- intros Hx u Hc. rewrite tasks_in_set_status. rewrite cur_of_set_status in Hc. exact (Hne Hx u Hc).
      * assert (Hx1 : exception s = true).
        { destruct (exception s) eqn:Hx; [reflexivity|]. specialize (Hpend eq_refl). discriminate. }
        match goal with |- Inv2 ?e => fields e s' end.
        constructor; norm2; rw_fields; rewrite ?Hx1; try (intros Hx; discriminate Hx); auto.
        -- apply Forall_remove_id. exact Hinfl.
        -- apply NoDup_remove_id. exact Hndi.
      * assert (Hx1 : exception s = true).
        { destruct (exception s) eqn:Hx; [reflexivity|]. specialize (Hpend eq_refl). discriminate. }
        match goal with |- Inv2 ?e => fields e s' end.
        constructor; norm2; rw_fields; rewrite ?Hx1; try (intros Hx; discriminate Hx); auto.
        -- apply Forall_remove_id. exact Hinfl.
        -- apply NoDup_remove_id. exact Hndi.
Qed.

(* ---------------- second locked section of the completion callback ---------------- *)
Lemma inv2_cb_close s t k : Inv2 s -> nth_error (trk s) t = Some k -> In t (cbmid s) -> tk_cid k = cid s ->
  Inv2 (mark_closed (add_comp s (length (tk_tasks k)) (remove_id t (cbmid s))) t).
Proof.
  intros H2 Hk Htm Hc. open2 H2.
  assert (Hct : is_cur s t = true) by (unfold is_cur, cur_of; rewrite Hk; apply Nat.eqb_eq; exact Hc).
  assert (Htc : ~ In t (closed s)) by (intros Hin; destruct (Hclm t Hin) as [A _]; exact (A Htm)).
  assert (Hti : ~ In t (inflight s)) by (exact (Hmi t Htm)).
  assert (Hto : In t (opens s)) by (apply opens_of_In; split; [exact Hct | exact Htc]).
  assert (Hsz : size_of s t = length (tk_tasks k)) by (unfold size_of, tasks_of, get_trk; rewrite Hk; reflexivity).
  match goal with |- Inv2 ?e => fields e s' end.
  constructor; norm2; rw_fields; auto.
  - apply Forall_app. split; [exact Hclosed | constructor; [exact Hct | constructor]].
  - apply Forall_remove_id. exact Hmid.
  - apply NoDup_snoc; assumption.
  - apply NoDup_remove_id. exact Hndm.
  - intros u Hu. apply in_app_or in Hu. destruct Hu as [Hu | [<- | []]].
    + destruct (Hclm u Hu) as [A B]. split; [|exact B]. intros Hin. apply In_remove_id in Hin. tauto.
    + split; [|exact Hti]. intros Hin. apply In_remove_id in Hin. tauto.
  - intros u Hu. apply In_remove_id in Hu. exact (Hmi u (proj1 Hu)).
  - rewrite opens_of_close.
    pose proof (sum_map_remove (size_of s) t (opens s) (opens_of_NoDup _ _ _) Hto) as E.
    rewrite Hcnt, E, Hsz. rewrite size_of_fun. unfold opens. lia.
  - intros Hx u Hin Hcu. apply In_remove_id in Hin. exact (Hmd Hx u (proj1 Hin) Hcu).
  - intros Hx u Hin. apply in_app_or in Hin. destruct Hin as [Hin | [<- | []]]; [exact (Hcd Hx u Hin) | exact (Hmd Hx t Htm Hct)].
  - intros Hx u Hin. rewrite opens_of_close in Hin. apply filter_In in Hin. destruct Hin as [Hin Hne'].
    apply negb_true_iff in Hne'. apply Nat.eqb_neq in Hne'.
    destruct (How Hx u Hin) as [A|A]; [left; exact A | right; apply In_remove_id; split; [exact A | congruence]].
Qed.

Lemma inv2_cb_stale s t k : Inv2 s -> nth_error (trk s) t = Some k -> tk_cid k <> cid s ->
  Inv2 (add_comp s 0 (remove_id t (cbmid s))).
Proof.
  intros H2 Hk Hstale. open2 H2.
  match goal with |- Inv2 ?e => fields e s' end.
  constructor; norm2; rw_fields; auto.
  - apply Forall_remove_id. exact Hmid.
  - apply NoDup_remove_id. exact Hndm.
  - intros u Hu. destruct (Hclm u Hu) as [A B]. split; [|exact B]. intros Hin. apply In_remove_id in Hin. tauto.
  - intros u Hu. apply In_remove_id in Hu. exact (Hmi u (proj1 Hu)).
  - rewrite Nat.add_0_r. exact Hcnt.
  - intros Hx u Hin Hcu. apply In_remove_id in Hin. exact (Hmd Hx u (proj1 Hin) Hcu).
  - intros Hx u Hin. destruct (How Hx u Hin) as [A|A]; [left; exact A|]. right. apply In_remove_id. split; [exact A|].
    intros ->. apply opens_of_In in Hin. destruct Hin as [Hc _]. unfold cur_of in Hc. rewrite Hk in Hc.
    apply Nat.eqb_eq in Hc. contradiction.
Qed.

(* ---------------- consumer-side transformers ---------------- *)
Lemma inv2_set_flags s i o ph : Inv2 s -> (rem_of s = [] \/ ph = phase s) ->
  (match ph with Draining _ => ph = phase s | _ => True end) -> Inv2 (set_flags s i o ph).
Proof.
  intros H2 Hr Hph. open2 H2.
  match goal with |- Inv2 ?e => fields e s' end.
  constructor; norm2; rw_fields; auto.
  destruct ph; try constructor. unfold allcur, rem_of in Hrem. rewrite <- Hph in Hrem. exact Hrem.
Qed.

Lemma inv2_finalize s ph exc ab : Inv2 s ->
  (ph = Finished /\ exc = true \/ ph = Draining (if exception s then [] else jobs s) /\ exc = exception s /\ ab = false) ->
  Inv2 (finalize s ph exc ab).
Proof.
  intros H2 Hc. open2 H2.
  match goal with |- Inv2 ?e => fields e s' end.
  destruct Hc as [[-> ->] | (-> & -> & ->)].
  - constructor; norm2; rw_fields; auto; try (intros Hx; discriminate Hx); try constructor.
  - constructor; norm2; rw_fields; rewrite ?orb_false_r; auto; try constructor.
    destruct (exception s); [constructor | exact Hjobs].
Qed.

Lemma inv2_set_out s jobs' jset' pend w ph : Inv2 s ->
  incl jobs' (jobs s) -> incl jset' (jset s) ->
  (forall r, ph = Draining r -> exists r0, phase s = Draining r0 /\ incl r r0) ->
  Inv2 (set_out s jobs' jset' pend w ph).
Proof.
  intros H2 Hj Hs Hph. open2 H2.
  match goal with |- Inv2 ?e => fields e s' end.
  constructor; norm2; rw_fields; auto.
  - apply Forall_forall. intros u Hu. unfold allcur in Hjobs. rewrite Forall_forall in Hjobs. apply Hjobs, Hj, Hu.
  - apply Forall_forall. intros u Hu. unfold allcur in Hjset. rewrite Forall_forall in Hjset. apply Hjset, Hs, Hu.
  - destruct ph as [ | | | |r| ]; try constructor.
    destruct (Hph r eq_refl) as (r0 & Hr0 & Hincl). unfold allcur, rem_of in Hrem. rewrite Hr0 in Hrem.
    apply Forall_forall. intros u Hu. rewrite Forall_forall in Hrem. apply Hrem, Hincl, Hu.
Qed.

Lemma inv2_deliver s v : Inv2 s -> Inv2 (deliver s v).
Proof.
  intros H2. open2 H2. match goal with |- Inv2 ?e => fields e s' end.
  constructor; norm2; rw_fields; auto.
Qed.

Lemma inv2_abandon s : Inv2 s -> Inv2 (abandon s).
Proof.
  intros H2. open2 H2. match goal with |- Inv2 ?e => fields e s' end.
  constructor; norm2; rw_fields; auto.
Qed.

Lemma incl_remove_id t l : incl (remove_id t l) l.
Proof. intros x Hx. apply In_remove_id in Hx. tauto. Qed.

Lemma inv2_timeout s j : Inv2 s -> timeout_target s = Some j -> Inv2 (do_timeout s j).
Proof.
  intros H2 Ht.
  assert (Hcj : is_cur s j = true).
  { open2 H2. unfold timeout_target in Ht. destruct (phase s); try discriminate.
    unfold allcur in Hjobs, Hjset. destruct (is_ordered s).
    - destruct (jobs s) as [|j0 js]; [discriminate|]. destruct (status_of s j0); try discriminate.
      injection Ht as <-. inversion Hjobs; assumption.
    - destruct (jobs s); [|discriminate]. destruct (jset s) as [|j0 js]; [discriminate|]. cbn in Ht.
      injection Ht as <-. inversion Hjset; assumption. }
  open2 H2.
  match goal with |- Inv2 ?e => fields e s' end. rewrite set_status_eq in Etrk.
  constructor; norm2; rw_fields; try (intros Hx; discriminate Hx);
    rewrite ?curids_of_set_status, ?opens_of_set_status, ?set_status_in_length; auto.
  - pose proof (is_cur_lt s j Hcj) as Hlt. unfold set_status_in.
    destruct (nth_error (trk s) j) as [k|] eqn:Hk; [|exact Hcids].
    apply Forall_forall. intros x Hx.
    apply In_nth_error in Hx as [n Hn]. destruct (Nat.eq_dec n j) as [->|Hnj].
    + rewrite nth_error_set_nth_eq in Hn by exact Hlt. injection Hn as <-. cbn.
      rewrite Forall_forall in Hcids. apply (Hcids k). eapply nth_error_In; exact Hk.
    + rewrite nth_error_set_nth_neq in Hn by congruence. rewrite Forall_forall in Hcids. apply Hcids. eapply nth_error_In; exact Hn.
  - unfold allcur in *. destruct (is_ordered s).
    + eapply Forall_impl; [|exact Hjobs]. intros u Hu. rewrite cur_of_set_status. exact Hu.
    + apply Forall_app. split; [|constructor; [rewrite cur_of_set_status; exact Hcj | constructor]].
      eapply Forall_impl; [|exact Hjobs]. intros u Hu. rewrite cur_of_set_status. exact Hu.
  - eapply Forall_impl; [|exact Hjset]. intros u Hu. rewrite cur_of_set_status. exact Hu.
  - eapply Forall_impl; [|exact Hclosed]. intros u Hu. rewrite cur_of_set_status. exact Hu.
  - unfold allcur, rem_of in Hrem. destruct (phase s); (eapply Forall_impl; [|exact Hrem]); intros u Hu; rewrite cur_of_set_status; exact Hu.
  - intros Hi. rewrite <- (Hsub Hi). apply map_ext. intros u. apply tasks_in_set_status.
  - rewrite Hcnt. f_equal. f_equal. apply map_ext. intros u. unfold size_in, size_of. rewrite tasks_in_set_status. reflexivity.
Qed.

(* ---------------- Inv1 /\ Inv2 in every reachable state ---------------- *)
Lemma rem_of_start s : phase s = StartFirst \/ phase s = StartLoop -> rem_of s = [].
Proof. unfold rem_of. intros [-> | ->]; reflexivity. Qed.

Theorem reach_inv12 : forall s, reach s -> Inv12 s.
Proof.
  apply (P_reach Inv12).
  - (* init *) split; [apply reach_inv1; constructor|].
    constructor; cbn; auto; try constructor; try (intros; contradiction); try discriminate.
    intros _ t Hc. unfold is_cur, cur_of in Hc. cbn in Hc. destruct t; discriminate.
  - intros s cf n f H Hcf _ _. apply inv12_call; assumption.
  - (* dispatch *) intros s b fo s' r [H1 H2] _ _ _ Hsh. split; [eapply dispatch_shape_inv1; eassumption|].
    inversion Hsh; subst; try exact H2.
    + apply inv2_submit; [exact H2|]. destruct H1 as [_ _ _ Hrne _].
      match goal with Hr : ready s = _ |- _ => rewrite Hr in Hrne end. inversion Hrne; assumption.
    + apply inv2_iter_error; [exact H2 | congruence].
    + apply inv2_submit; [exact H2|].
      match goal with Hc : chunks _ _ = _ |- _ => pose proof Hc as Hchunks end.
      eapply chunks_nonempty. rewrite Hchunks. left. reflexivity.
  - intros s r [H1 H2] Hph _. split; [revert H1; frame1|]. apply inv2_set_flags; [exact H2 | left; apply rem_of_start; auto | exact I].
  - intros s [H1 H2] Hph _. split; [revert H1; unfold end_start; frame1|]. unfold end_start.
    apply inv2_set_flags; [exact H2 | left; apply rem_of_start; right; exact Hph | exact I].
  - intros s t o [H1 H2]. split; [apply cb_start_frame1; exact H1 | apply inv2_cb_start; exact H2].
  - intros s t k [H1 H2] Hk Hin Hc. split; [revert H1; frame1 | apply inv2_cb_close; assumption].
  - intros s t k [H1 H2] Hk Hin Hc. split; [revert H1; frame1 | eapply inv2_cb_stale; eassumption].
  - intros s [H1 H2] _ _. split; [revert H1; frame1|]. apply inv2_set_flags; [exact H2 | right; reflexivity |].
    destruct (phase s); auto.
  - intros s [H1 H2]. split; [revert H1; frame1|]. unfold set_want.
    apply inv2_set_out; [exact H2 | apply incl_refl | apply incl_refl |].
    intros r Hr. exists r. split; [exact Hr | apply incl_refl].
  - intros s [H1 H2] _. split; [revert H1; frame1|]. apply inv2_abandon. apply inv2_finalize; [exact H2 | left; auto].
  - (* the backend refuses a batch *) intros s [H1 H2] _. split; [revert H1; frame1|]. apply inv2_finalize; [exact H2 | left; auto].
  - intros s r [H1 H2] Hph. split; [revert H1; frame1|]. apply inv2_abandon.
    apply inv2_set_out; [exact H2 | apply incl_refl | apply incl_refl | discriminate].
  - intros s j [H1 H2] _ Ht _. split; [revert H1; frame1 | apply inv2_timeout; assumption].
  - intros s v r [H1 H2] _. split; [revert H1; frame1|]. apply inv2_deliver.
    apply inv2_set_out; [exact H2 | apply incl_refl | apply incl_refl |].
    intros r0 Hr. exists r0. split; [exact Hr | apply incl_refl].
  - intros s e [H1 H2] _ _ _ _. split; [revert H1; frame1|]. apply inv2_finalize; [exact H2 | left; auto].
  - intros s [H1 H2] _ _ _. split; [revert H1; frame1|]. apply inv2_finalize; [exact H2 | right; auto].
  - intros s j js [H1 H2] _ _ _ Hj _. split; [revert H1; frame1|].
    apply inv2_set_out; [exact H2 | rewrite Hj; apply incl_tl, incl_refl | apply incl_remove_id | discriminate].
  - intros s j js e [H1 H2] _ _ _ Hj _. split; [revert H1; frame1|].
    apply inv2_finalize; [|left; auto].
    apply inv2_set_out; [exact H2 | rewrite Hj; apply incl_tl, incl_refl | apply incl_remove_id | discriminate].
  - intros s [H1 H2] _ _. split; [revert H1; frame1|].
    apply inv2_set_out; [exact H2 | apply incl_refl | apply incl_refl | discriminate].
  - intros s j js [H1 H2] Hph _ _. split; [revert H1; frame1|].
    apply inv2_set_out; [exact H2 | apply incl_refl | apply incl_refl |].
    intros r Hr. injection Hr as <-. exists (j :: js). split; [exact Hph | apply incl_tl, incl_refl].
  - intros s j js [H1 H2] _ _ _. split; [revert H1; frame1|].
    apply inv2_set_out; [exact H2 | apply incl_refl | apply incl_refl | discriminate].
  - intros s [[[Hn _] _ _ _ _] _]. exact Hn.
Qed.

(* ---------------- the same facts as stand-alone lemmas (used by the later invariants) ---------------- *)
Lemma inv12_dispatch s b fo s' r : Inv12 s -> dispatch_shape s b fo s' r -> Inv12 s'.
Proof.
  intros [H1 H2] Hsh. split; [eapply dispatch_shape_inv1; eassumption|].
  inversion Hsh; subst; try exact H2.
  - apply inv2_submit; [exact H2|]. destruct H1 as [_ _ _ Hrne _].
    match goal with Hr : ready s = _ |- _ => rewrite Hr in Hrne end. inversion Hrne; assumption.
  - apply inv2_iter_error; [exact H2 | congruence].
  - apply inv2_submit; [exact H2|].
    match goal with Hc : chunks _ _ = _ |- _ => pose proof Hc as Hchunks end.
    eapply chunks_nonempty. rewrite Hchunks. left. reflexivity.
Qed.

Lemma inv12_set_flags s i o ph : Inv12 s -> (rem_of s = [] \/ ph = phase s) ->
  (match ph with Draining _ => ph = phase s | _ => True end) -> Inv12 (set_flags s i o ph).
Proof. intros [H1 H2] A B. split; [revert H1; frame1 | apply inv2_set_flags; assumption]. Qed.

Lemma inv12_end_start s : Inv12 s -> rem_of s = [] -> Inv12 (end_start s).
Proof. intros H A. unfold end_start. apply inv12_set_flags; [exact H | left; exact A | exact I]. Qed.

Lemma dispatch_shape_phase s b fo s' r : dispatch_shape s b fo s' r -> phase s' = phase s.
Proof. intros H. inversion H; subst; reflexivity. Qed.
