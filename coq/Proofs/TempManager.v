(* Invariant of the client-side model (Model/TempManager.v) and the end state after a kill. *)
From Coq Require Import ZArith List Bool Lia ZifyBool Arith.
Require Import JV.Model.ResTracker JV.Model.TempManager JV.Proofs.ResTracker JV.Proofs.ResTrackerSpec.
Import ListNotations.
Open Scope Z_scope.

(* ------------------------------------------------------------------ small facts *)
Lemma mem_in : forall c l, mem c l = true <-> In c l.
Proof.
  intros c l. unfold mem. rewrite existsb_exists. split.
  - intros (x & I & E). apply Nat.eqb_eq in E. subst. exact I.
  - intros I. exists c. split; [exact I | apply Nat.eqb_refl].
Qed.

Lemma in_remove_c : forall c x l, In x (remove_c c l) <-> In x l /\ x <> c.
Proof.
  intros c x l. unfold remove_c. rewrite filter_In, negb_true_iff, Nat.eqb_neq. intuition congruence.
Qed.

Lemma fold_name_inj : forall c c', fold_name c = fold_name c' -> c = c'.
Proof. intros c c' H. inversion H. apply Nat2Z.inj. assumption. Qed.

Lemma nil_of_no_member : forall (A : Type) (l : list A), (forall x, ~ In x l) -> l = [].
Proof. intros A [|a l] H; [reflexivity | exfalso; apply (H a); left; reflexivity]. Qed.

Definition fkey (c : nat) : key := (Folder, fold_name c).

(* requests that cannot touch the key of folder c *)
Definition spares (c : nat) (q : request) : Prop :=
  match q with
  | QRegister t n | QUnregister t n | QMaybeUnlink t n => (t, n) <> fkey c
  | _ => True
  end.

Lemma cnt_step_spares : forall c x q, spares c q -> cnt_step (fkey c) x q = x.
Proof.
  intros c x q S. destruct q as [| | |t n|t n|t n|]; cbn [cnt_step]; try reflexivity;
    apply key_eqb_false_iff in S; rewrite S; reflexivity.
Qed.

Lemma cnt_fold_spares : forall c qs x, Forall (spares c) qs -> fold_left (fun a q => cnt_step (fkey c) a q) qs x = x.
Proof.
  induction qs as [|q t IH]; intros x F; [reflexivity|]. inversion F; subst. cbn [fold_left].
  rewrite cnt_step_spares by assumption. apply IH. assumption.
Qed.

Lemma cnt_step_nonneg : forall k x q, 0 <= x -> 0 <= cnt_step k x q.
Proof.
  intros k x q H. destruct q as [| | |t n|t n|t n|]; cbn [cnt_step]; try assumption;
    destruct (key_eqb (t, n) k); try lia. destruct (0 <? x) eqn:E; lia.
Qed.

Lemma cnt_fold_nonneg : forall k qs x, 0 <= x -> 0 <= fold_left (fun a q => cnt_step k a q) qs x.
Proof. induction qs as [|q t IH]; intros x H; [exact H|]. cbn [fold_left]. apply IH, cnt_step_nonneg, H. Qed.

Lemma pend_refc : forall w k, pend w k = fold_left (fun a q => cnt_step k a q) (w_pipe w) (refc (w_reg w) k).
Proof. reflexivity. Qed.

Lemma pend_send : forall w qs k, pend (send w qs) k = fold_left (fun a q => cnt_step k a q) qs (pend w k).
Proof. intros. unfold pend, send. cbn [w_pipe w_reg]. apply fold_left_app. Qed.

Lemma pend_nonneg : forall w k, wf (w_reg w) -> 0 <= pend w k.
Proof. intros w k W. rewrite pend_refc. apply cnt_fold_nonneg, refc_nonneg, W. Qed.

(* ------------------------------------------------------------------ the disk only shrinks under clean-ups *)
Definition fs_ok (cached fo : list nat) (fi : list (nat * nat)) : Prop :=
  (forall c, In c fo -> In c cached) /\ (forall c f, In (c, f) fi -> In c fo).

Lemma fs_cleanup_sub : forall d fo fi c, In c (fst (fs_cleanup d fo fi)) -> In c fo.
Proof.
  intros [t n] fo fi c. unfold fs_cleanup. cbn [fst snd]. destruct t; cbn [fst]; try tauto.
  rewrite filter_In. tauto.
Qed.

Lemma fs_cleanup_ok : forall cached d fo fi, fs_ok cached fo fi ->
  fs_ok cached (fst (fs_cleanup d fo fi)) (snd (fs_cleanup d fo fi)).
Proof.
  intros cached [t n] fo fi [A B]. unfold fs_cleanup. cbn [fst snd]. destruct t; cbn [fst snd]; split.
  - intros c H. apply filter_In in H. apply A. tauto.
  - intros c f H. apply filter_In in H. destruct H as [H1 H2]. cbn [fst] in H2.
    apply filter_In. split; [eapply B; eassumption | exact H2].
  - exact A.
  - intros c f H. apply filter_In in H. eapply B. apply H.
  - exact A.
  - exact B.
Qed.

Lemma fs_cleanups_sub : forall ds fo fi c, In c (fst (fs_cleanups ds fo fi)) -> In c fo.
Proof.
  induction ds as [|d t IH]; intros fo fi c H; cbn [fs_cleanups] in H; [exact H|].
  destruct (fs_cleanup d fo fi) as [fo' fi'] eqn:E. apply IH in H.
  apply (fs_cleanup_sub d fo fi). rewrite E. exact H.
Qed.

Lemma fs_cleanups_ok : forall cached ds fo fi, fs_ok cached fo fi ->
  fs_ok cached (fst (fs_cleanups ds fo fi)) (snd (fs_cleanups ds fo fi)).
Proof.
  induction ds as [|d t IH]; intros fo fi H; cbn [fs_cleanups]; [exact H|].
  pose proof (fs_cleanup_ok cached d fo fi H) as H'. destruct (fs_cleanup d fo fi) as [fo' fi']. apply IH. exact H'.
Qed.

Lemma fs_cleanups_removes : forall ds fo fi c, In (fkey c) ds -> ~ In c (fst (fs_cleanups ds fo fi)).
Proof.
  induction ds as [|d t IH]; intros fo fi c I; [destruct I|]. cbn [fs_cleanups].
  destruct (fs_cleanup d fo fi) as [fo' fi'] eqn:E. destruct I as [->|I]; [|apply IH; exact I].
  intros H. apply fs_cleanups_sub in H.
  assert (fo' = fst (fs_cleanup (fkey c) fo fi)) as -> by (rewrite E; reflexivity).
  unfold fs_cleanup, fkey in H. cbn [fst snd] in H. apply filter_In in H. destruct H as [_ H].
  rewrite beq_refl in H. discriminate.
Qed.

(* ------------------------------------------------------------------ the invariant *)
Record Inv (w : world) : Prop := {
  inv_wf : wf (w_reg w);
  (* every cached context's folder is (or, once the pipe is read, will be) registered *)
  inv_reg : forall c, In c (w_cached w) -> 0 < pend w (fkey c);
  (* every folder of ours on disk belongs to a cached context; every file lies in such a folder *)
  inv_fs : fs_ok (w_cached w) (w_folders w) (w_files w)
}.

Lemma Inv_world0 : Inv world0.
Proof. split; [apply wf_init | intros c [] | split; [intros c [] | intros c f []]]. Qed.

Lemma file_req_spares : forall c c' f, spares c (QRegister File (file_name c' f)) /\
  spares c (QUnregister File (file_name c' f)) /\ spares c (QMaybeUnlink File (file_name c' f)).
Proof. intros. repeat split; cbn; unfold fkey; congruence. Qed.

Lemma other_folder_spares : forall c c', c <> c' -> spares c (QRegister Folder (fold_name c')) /\
  spares c (QUnregister Folder (fold_name c')).
Proof.
  intros c c' N. split; cbn; unfold fkey; intros H; inversion H; apply N; symmetry; apply Nat2Z.inj; assumption.
Qed.

Lemma rm_folder_fs_ok : forall cached fo fi c, fs_ok cached fo fi ->
  fs_ok (remove_c c cached) (remove_c c fo) (filter (fun x => negb (Nat.eqb (fst x) c)) fi).
Proof.
  intros cached fo fi c [A B]. split.
  - intros x H. apply in_remove_c in H. apply in_remove_c. split; [apply A|]; tauto.
  - intros x f H. apply filter_In in H. destruct H as [H1 H2]. cbn [fst] in H2.
    apply in_remove_c. split; [eapply B; eassumption|]. apply negb_true_iff, Nat.eqb_neq in H2. exact H2.
Qed.

Lemma fs_ok_weaken : forall cached cached' fo fi,
  (forall c, In c fo -> In c cached -> In c cached') -> fs_ok cached fo fi -> fs_ok cached' fo fi.
Proof. intros cached cached' fo fi H [A B]. split; [intros c I; apply H; auto | exact B]. Qed.

Lemma ev_step_inv : forall w e, Inv w -> Inv (fst (ev_step w e)).
Proof.
  intros w e [W R F]. destruct e as [c|c|c f|c f|c f|c force|c allow|c allow|c|]; cbn [ev_step].
  - (* ENewContext *)
    destruct (mem c (w_cached w)) eqn:M; cbn [fst]; [split; assumption|].
    split; cbn [w_reg w_pipe w_cached w_folders w_files send].
    + exact W.
    + intros c' I. change (0 < pend (send w [QRegister Folder (fold_name c)]) (fkey c')).
      rewrite pend_send. cbn [fold_left]. destruct I as [<-|I].
      * cbn [cnt_step]. unfold fkey. rewrite key_eqb_refl. pose proof (pend_nonneg w (Folder, fold_name c) W). lia.
      * assert (c' <> c) by (intros ->; apply mem_in in I; congruence).
        rewrite cnt_step_spares by (apply other_folder_spares; assumption). apply R, I.
    + destruct F as [A B]. split; [intros x H; right; apply A, H | exact B].
  - (* EMkdir *)
    destruct (mem c (w_cached w)) eqn:M; cbn [fst]; [|split; assumption].
    split; cbn [w_reg w_pipe w_cached w_folders w_files]; [exact W | exact R |].
    destruct F as [A B]. split.
    + intros x H. destruct (mem c (w_folders w)); [apply A, H|]. destruct H as [<-|H]; [apply mem_in, M | apply A, H].
    + intros x f H. destruct (mem c (w_folders w)); [eapply B, H | right; eapply B, H].
  - (* ERegFile *)
    cbn [fst]. split; cbn [send w_reg w_cached w_folders w_files]; [exact W | | exact F].
    intros c' I. rewrite pend_send. cbn [fold_left]. rewrite cnt_step_spares by apply file_req_spares. apply R, I.
  - (* EWrite *)
    destruct (mem c (w_folders w)) eqn:M; cbn [fst]; [|split; assumption].
    split; cbn [w_reg w_pipe w_cached w_folders w_files]; [exact W | exact R |].
    destruct F as [A B]. split; [exact A|]. intros x g H.
    destruct (mem2 (c, f) (w_files w)); [eapply B, H|]. destruct H as [H|H]; [inversion H; subst; apply mem_in, M | eapply B, H].
  - (* EUnlinkFile *)
    cbn [fst]. split; cbn [send w_reg w_cached w_folders w_files]; [exact W | | exact F].
    intros c' I. rewrite pend_send. cbn [fold_left]. rewrite cnt_step_spares by apply file_req_spares. apply R, I.
  - (* ECleanFiles *)
    destruct (clean_guard w c); cbn [fst]; [|split; assumption].
    split; cbn [send w_reg w_cached w_folders w_files]; [exact W | | exact F].
    intros c' I. rewrite pend_send. rewrite cnt_fold_spares; [apply R, I|].
    apply Forall_forall. intros q H. apply in_map_iff in H. destruct H as (x & <- & _).
    destruct force; apply file_req_spares.
  - (* ECleanFolder *)
    destruct (clean_guard w c); cbn [fst]; [|split; assumption].
    assert (OK : Inv (fst (let w1 := send (rm_folder w c) [QUnregister Folder (fold_name c)] in
              ({| w_reg := w_reg w1; w_pipe := w_pipe w1; w_folders := w_folders w1; w_files := w_files w1;
                  w_cached := remove_c c (w_cached w1); w_final := remove_c c (w_final w1) |},
               [ADeleteFolder c true; ASend (QUnregister Folder (fold_name c))])))).
    { cbn [fst]. split; cbn [send rm_folder w_reg w_pipe w_cached w_folders w_files].
      - exact W.
      - intros c' I. apply in_remove_c in I. destruct I as [I N].
        change (0 < pend (send w [QUnregister Folder (fold_name c)]) (fkey c')).
        rewrite pend_send. cbn [fold_left]. rewrite cnt_step_spares by (apply other_folder_spares; assumption). apply R, I.
      - apply rm_folder_fs_ok, F. }
    destruct (delete_folder w c allow) as [[|]|]; cbn [fst]; [exact OK | split; assumption | exact OK].
  - (* EDeleteOnly *)
    destruct (clean_guard w c); cbn [fst]; [|split; assumption].
    assert (OK : Inv (rm_folder w c)).
    { split; cbn [rm_folder w_reg w_pipe w_cached w_folders w_files]; [exact W | exact R |].
      apply (fs_ok_weaken (remove_c c (w_cached w))); [|apply rm_folder_fs_ok, F].
      intros x _ H. apply in_remove_c in H. tauto. }
    destruct (delete_folder w c allow) as [[|]|]; cbn [fst]; [exact OK | split; assumption | exact OK].
  - (* EAtexit *)
    destruct (mem c (w_final w)); cbn [fst]; [|split; assumption].
    split; cbn [send rm_folder w_reg w_pipe w_cached w_folders w_files].
    + exact W.
    + intros c' I. apply in_remove_c in I. destruct I as [I N].
      change (0 < pend (send w [QUnregister Folder (fold_name c)]) (fkey c')).
      rewrite pend_send. cbn [fold_left]. rewrite cnt_step_spares by (apply other_folder_spares; assumption). apply R, I.
    + apply rm_folder_fs_ok, F.
  - (* ETracker *)
    destruct (w_pipe w) as [|q rest] eqn:P; cbn [fst]; [split; assumption|].
    pose proof (fs_cleanups_ok (w_cached w) (o_del (step_req false (fun _ => false) (w_reg w) q)) _ _ F) as F'.
    destruct (fs_cleanups (o_del (step_req false (fun _ : deletion => false) (w_reg w) q)) (w_folders w) (w_files w))
      as [fo fi]. cbn [fst snd] in *. split; cbn [w_reg w_pipe w_cached w_folders w_files].
    + apply step_req_wf, W.
    + intros c I. specialize (R c I). rewrite pend_refc in *. cbn [w_pipe w_reg]. rewrite P in R. cbn [fold_left] in R.
      rewrite step_req_refc by exact W. exact R.
    + exact F'.
Qed.

Lemma run_events_inv : forall evs w, Inv w -> Inv (run_events w evs).
Proof.
  induction evs as [|e t IH]; intros w I; [exact I|]. unfold run_events. cbn [fold_left]. apply IH, ev_step_inv, I.
Qed.

(* ------------------------------------------------------------------ after the kill *)
Lemma drain_spec : forall cached qs r fo fi, wf r -> fs_ok cached fo fi ->
  let '(r', (fo', fi')) := drain r qs fo fi in
  wf r' /\ fs_ok cached fo' fi' /\
  forall k, refc r' k = fold_left (fun a q => cnt_step k a q) qs (refc r k).
Proof.
  induction qs as [|q rest IH]; intros r fo fi W F; cbn [drain]; [auto|].
  pose proof (fs_cleanups_ok cached (o_del (step_req false (fun _ => false) r q)) _ _ F) as F'.
  destruct (fs_cleanups (o_del (step_req false (fun _ : deletion => false) r q)) fo fi) as [fo1 fi1]. cbn [fst snd] in F'.
  specialize (IH (o_reg (step_req false (fun _ => false) r q)) fo1 fi1 (step_req_wf _ _ _ _ W) F').
  destruct (drain (o_reg (step_req false (fun _ : deletion => false) r q)) rest fo1 fi1) as [r' [fo' fi']].
  destruct IH as (W' & F'' & C). split; [exact W' | split; [exact F''|]].
  intros k. rewrite C. cbn [fold_left]. rewrite step_req_refc by exact W. reflexivity.
Qed.

Lemma kill_leaves_nothing : forall w, Inv w -> disk_after_kill w = ([], []).
Proof.
  intros w [W R F]. unfold disk_after_kill.
  pose proof (drain_spec (w_cached w) (w_pipe w) (w_reg w) (w_folders w) (w_files w) W F) as D.
  destruct (drain (w_reg w) (w_pipe w) (w_folders w) (w_files w)) as [r [fo fi]].
  destruct D as (W' & F' & C).
  unfold finish. rewrite cleanup_all_complete by (left; reflexivity). cbn [fst].
  pose proof (fs_cleanups_ok (w_cached w) (pending r) fo fi F') as [A B].
  assert (E : fst (fs_cleanups (pending r) fo fi) = []).
  { apply nil_of_no_member. intros c H. pose proof (fs_cleanups_sub _ _ _ _ H) as H0.
    revert H. apply fs_cleanups_removes. apply in_pending.
    destruct F' as [A' _]. specialize (R c (A' c H0)). rewrite pend_refc, <- C in R.
    intros L. apply (refc_zero_iff r (fkey c) W') in L. lia. }
  destruct (fs_cleanups (pending r) fo fi) as [fo' fi']. cbn [fst snd] in *. subst fo'. f_equal.
  apply nil_of_no_member. intros [c f] H. apply (B c f H).
Qed.

(* ------------------------------------------------------------------ normal exit *)
Lemma remove_c_mono : forall c (A B : list nat), (forall x, In x A -> In x B) ->
  forall x, In x (remove_c c A) -> In x (remove_c c B).
Proof. intros c A B H x I. apply in_remove_c in I. destruct I as [I N]. apply in_remove_c. split; [apply H, I | exact N]. Qed.

Lemma ev_step_final : forall w e, (forall c, In c (w_cached w) -> In c (w_final w)) ->
  forall c, In c (w_cached (fst (ev_step w e))) -> In c (w_final (fst (ev_step w e))).
Proof.
  intros w e G. destruct e as [c|c|c f|c f|c f|c force|c allow|c allow|c|]; cbn [ev_step].
  - destruct (mem c (w_cached w)); cbn [fst send w_cached w_final]; [exact G|].
    intros x [<-|H]; [left; reflexivity | right; apply G, H].
  - destruct (mem c (w_cached w)); cbn [fst w_cached w_final]; exact G.
  - exact G.
  - destruct (mem c (w_folders w)); cbn [fst w_cached w_final]; exact G.
  - exact G.
  - destruct (clean_guard w c); cbn [fst send w_cached w_final]; exact G.
  - destruct (clean_guard w c); cbn [fst]; [|exact G].
    destruct (delete_folder w c allow) as [[|]|]; cbn [fst send rm_folder w_cached w_final]; try exact G;
      apply remove_c_mono, G.
  - destruct (clean_guard w c); cbn [fst]; [|exact G].
    destruct (delete_folder w c allow) as [[|]|]; cbn [fst rm_folder w_cached w_final]; exact G.
  - destruct (mem c (w_final w)); cbn [fst send rm_folder w_cached w_final]; [|exact G].
    apply remove_c_mono, G.
  - destruct (w_pipe w) as [|q rest]; cbn [fst]; [exact G|].
    destruct (fs_cleanups (o_del (step_req false (fun _ : deletion => false) (w_reg w) q)) (w_folders w) (w_files w)).
    cbn [fst w_cached w_final]. exact G.
Qed.

Lemma run_events_final : forall evs w, (forall c, In c (w_cached w) -> In c (w_final w)) ->
  forall c, In c (w_cached (run_events w evs)) -> In c (w_final (run_events w evs)).
Proof.
  induction evs as [|e t IH]; intros w G; [exact G|]. unfold run_events. cbn [fold_left]. apply IH, ev_step_final, G.
Qed.

Lemma exit_normally_events : forall w, exit_normally w = run_events w (map EAtexit (w_final w)).
Proof.
  intros w. unfold exit_normally, run_events. generalize (w_final w) as l. revert w.
  intros w l. revert w. induction l as [|a t IH]; intros w; [reflexivity|]. cbn [map fold_left]. apply IH.
Qed.

(* running the finalizers of the list l: a folder that is still on disk afterwards was on disk
   before and had no finalizer among those that ran *)
Lemma atexit_run : forall l w c, In c (w_folders (run_events w (map EAtexit l))) ->
  In c (w_folders w) /\ (~ In c l \/ ~ In c (w_final w)).
Proof.
  induction l as [|a t IH]; intros w c H; [split; [exact H | left; intros []]|].
  cbn [map] in H. unfold run_events in H. cbn [fold_left] in H. apply IH in H. destruct H as [H1 H2].
  cbn [ev_step] in H1, H2. destruct (mem a (w_final w)) eqn:M; cbn [fst send rm_folder w_folders w_final] in H1, H2.
  - apply in_remove_c in H1. destruct H1 as [H1 N]. split; [exact H1|].
    destruct H2 as [H2|H2]; [left; intros [E|E]; [congruence | exact (H2 E)]|].
    right. intros I. apply H2. apply in_remove_c. auto.
  - split; [exact H1|]. destruct (Nat.eq_dec c a) as [->|N].
    + right. intros I. apply mem_in in I. congruence.
    + destruct H2 as [H2|H2]; [left; intros [E|E]; [congruence | exact (H2 E)] | right; exact H2].
Qed.

Lemma exit_leaves_nothing : forall w, Inv w -> (forall c, In c (w_cached w) -> In c (w_final w)) ->
  w_folders (exit_normally w) = [] /\ w_files (exit_normally w) = [] /\ disk_after_kill (exit_normally w) = ([], []).
Proof.
  intros w I G. rewrite exit_normally_events.
  pose proof (run_events_inv (map EAtexit (w_final w)) w I) as I'.
  assert (E : w_folders (run_events w (map EAtexit (w_final w))) = []).
  { apply nil_of_no_member. intros c H. apply atexit_run in H. destruct H as [H1 [H2|H2]]; apply H2;
      apply G; destruct I as [_ _ [A _]]; apply A, H1. }
  split; [exact E|]. split; [|apply kill_leaves_nothing, I'].
  apply nil_of_no_member. intros [c f] H. destruct I' as [_ _ [_ B]]. apply B in H. rewrite E in H. exact H.
Qed.

(* ------------------------------------------------------------------ order of the try block *)
Lemma clean_folder_actions : forall w c allow,
  (snd (ev_step w (ECleanFolder c allow)) = [] /\ fst (ev_step w (ECleanFolder c allow)) = w) \/
  (snd (ev_step w (ECleanFolder c allow)) = [ADeleteFolder c false] /\ fst (ev_step w (ECleanFolder c allow)) = w /\
   In c (w_folders w)) \/
  (snd (ev_step w (ECleanFolder c allow)) = [ADeleteFolder c true; ASend (QUnregister Folder (fold_name c))] /\
   ~ In c (w_folders (fst (ev_step w (ECleanFolder c allow))))).
Proof.
  intros w c allow. cbn [ev_step]. destruct (clean_guard w c) eqn:G; [|left; auto]. right.
  apply andb_true_iff in G. destruct G as [_ G]. apply mem_in in G.
  assert (N : ~ In c (remove_c c (w_folders w))) by (intros H; apply in_remove_c in H; tauto).
  destruct (delete_folder w c allow) as [[|]|]; cbn [fst snd send rm_folder w_folders]; auto.
Qed.
