(* Refinement proof for model M2: in the fragment [in_fragment] the statement-by-statement model of
   joblib.func_inspect.filter_args returns the canonical dict of Python's own binding.
   By induction over the parameter list -- any number of parameters, any call. *)
From Coq Require Import ZArith List Bool Lia ZifyBool Sorting.Permutation Sorting.Sorted.
Require Import JV.Base.PyPrelude JV.Base.SortBy JV.Model.FilterArgs JV.Proofs.FilterArgsBase.
Import ListNotations.
Open Scope Z_scope.

Definition kwb (p : param) : bool := is_keywordable (pkind p).
Definition kparams (ps : sig) : sig := filter kwb ps.

Definition named_entries (ps : sig) (b : binding) : adict := flat_map canon_named (combine ps b).
Definition kw_entries (ps : sig) (b : binding) : adict := flat_map canon_kw (combine ps b).
Definition star_entries (ps : sig) (b : binding) : adict := flat_map canon_star (combine ps b).

Lemma named_entries_cons p n a ps b :
  named_entries (p :: ps) ((n, a) :: b)
  = (if is_named (pkind p) then [(KName (pname p), a)] else []) ++ named_entries ps b.
Proof. reflexivity. Qed.
Lemma kw_entries_cons p n a ps b :
  kw_entries (p :: ps) ((n, a) :: b) = canon_kw (p, (n, a)) ++ kw_entries ps b.
Proof. reflexivity. Qed.
Lemma star_entries_cons p n a ps b :
  star_entries (p :: ps) ((n, a) :: b) = canon_star (p, (n, a)) ++ star_entries ps b.
Proof. reflexivity. Qed.

Lemma canon_split s b : canon s b = named_entries s b ++ kw_entries s b ++ star_entries s b.
Proof. reflexivity. Qed.

(* ------------------------------------------------------------------ order of the kinds *)
Definition rank_ok (r : nat) (p : param) : Prop :=
  if is_var (pkind p) then (r < kind_rank (pkind p))%nat else (r <= kind_rank (pkind p))%nat.

Lemma ko_step r p t : kinds_ordered r (p :: t) = true ->
  rank_ok r p /\ kinds_ordered (kind_rank (pkind p)) t = true.
Proof.
  cbn [kinds_ordered]. unfold rank_ok. rewrite andb_true_iff. intros [H1 H2]. split; [|exact H2].
  destruct (is_var (pkind p)); [apply Nat.ltb_lt | apply Nat.leb_le]; exact H1.
Qed.

Lemma ko_weaken r r' t : kinds_ordered r t = true -> (r' <= r)%nat -> kinds_ordered r' t = true.
Proof.
  destruct t as [|p t]; [reflexivity|]. cbn [kinds_ordered]. rewrite !andb_true_iff. intros [H1 H2] Hle.
  split; [|exact H2]. destruct (is_var (pkind p)).
  - apply Nat.ltb_lt. apply Nat.ltb_lt in H1. lia.
  - apply Nat.leb_le. apply Nat.leb_le in H1. lia.
Qed.

Lemma ko_forall t : forall r, kinds_ordered r t = true -> Forall (rank_ok r) t.
Proof.
  induction t as [|p t IH]; intros r H; [constructor|].
  destruct (ko_step _ _ _ H) as [Hp Ht]. constructor; [exact Hp|].
  apply IH. eapply ko_weaken; [exact Ht|]. unfold rank_ok in Hp. destruct (is_var (pkind p)); lia.
Qed.

Lemma ko_after_varkw t : kinds_ordered 5 t = true -> t = [].
Proof.
  intros H. apply ko_forall in H. destruct t as [|p t]; [reflexivity|]. exfalso.
  inversion H as [|? ? Hp _]; subst. unfold rank_ok in Hp. destruct (pkind p); cbn in Hp; lia.
Qed.

Lemma ko_after_varpos t : kinds_ordered 3 t = true ->
  has_kind VarPos t = false /\ has_kind PosOnly t = false /\
  (forall p, In p t -> pkind p = KwOnly \/ pkind p = VarKw).
Proof.
  intros H. apply ko_forall in H. rewrite Forall_forall in H.
  assert (Hk : forall p, In p t -> pkind p = KwOnly \/ pkind p = VarKw).
  { intros p Hp. specialize (H p Hp). unfold rank_ok in H. destruct (pkind p); cbn in H; try lia; tauto. }
  repeat split; [| |exact Hk]; unfold has_kind; apply not_true_iff_false; rewrite existsb_exists;
    intros (p & Hp & E); destruct (Hk p Hp) as [K | K]; rewrite K in E; discriminate.
Qed.

Lemma has_kind_cons k p t : has_kind k (p :: t) = kind_eqb (pkind p) k || has_kind k t.
Proof. reflexivity. Qed.

Lemma has_kind_false_In k t p : has_kind k t = false -> In p t -> pkind p <> k.
Proof.
  unfold has_kind. intros H Hp E. apply not_true_iff_false in H. apply H. apply existsb_exists.
  exists p. split; [exact Hp|]. rewrite E. unfold kind_eqb. apply Nat.eqb_refl.
Qed.

(* ------------------------------------------------------------------ the two side conditions, as traversals *)
Fixpoint vp_go (ps : sig) (pos : list value) : bool :=
  match ps with
  | [] => true
  | p :: t =>
      match pkind p with
      | VarPos => is_nil pos || is_nil (kparams t)
      | PosOnly | PosOrKw => vp_go t (tl pos)
      | _ => vp_go t pos
      end
  end.

Lemma vp_go_no_varpos ps : forall pos, has_kind VarPos ps = false -> vp_go ps pos = true.
Proof.
  induction ps as [|p t IH]; intros pos H; [reflexivity|]. rewrite has_kind_cons in H.
  apply orb_false_iff in H. destruct H as [H1 H2]. cbn [vp_go].
  destruct (pkind p); try (apply IH; exact H2). discriminate.
Qed.

Lemma count_kind_cons k p t :
  count_kind k (p :: t) = ((if kind_eqb (pkind p) k then 1 else 0) + count_kind k t)%nat.
Proof. unfold count_kind. cbn [filter]. destruct (kind_eqb (pkind p) k); reflexivity. Qed.

Lemma kparams_nil_no_kwonly t :
  (forall p, In p t -> pkind p = KwOnly \/ pkind p = VarKw) -> has_kind KwOnly t = false -> kparams t = [].
Proof.
  intros Hk H. unfold kparams. induction t as [|p t IH]; [reflexivity|]. cbn [filter].
  rewrite has_kind_cons in H. apply orb_false_iff in H. destruct H as [H1 H2].
  destruct (Hk p (or_introl eq_refl)) as [K | K]; unfold kwb; rewrite K in *; [discriminate|].
  cbn. apply IH; [|exact H2]. intros q Hq. apply Hk. right. exact Hq.
Qed.

Lemma vp_go_of_global ps : forall r pos,
  kinds_ordered r ps = true -> has_kind PosOnly ps = false ->
  negb (has_kind VarPos ps && has_kind KwOnly ps) || Nat.leb (length pos) (count_kind PosOrKw ps) = true ->
  vp_go ps pos = true.
Proof.
  induction ps as [|p t IH]; intros r pos Hko Hpo Hg; [reflexivity|].
  destruct (ko_step _ _ _ Hko) as [Hp Ht]. rewrite has_kind_cons in Hpo. apply orb_false_iff in Hpo.
  destruct Hpo as [Hpo1 Hpo2]. cbn [vp_go]. rewrite !has_kind_cons, count_kind_cons in Hg.
  destruct (pkind p) eqn:K; cbn [kind_eqb kind_rank Nat.eqb orb] in *.
  - discriminate.
  - apply (IH _ _ Ht Hpo2). destruct (has_kind VarPos t && has_kind KwOnly t); cbn [negb orb] in *; [|reflexivity].
    apply Nat.leb_le. apply Nat.leb_le in Hg. destruct pos; cbn [tl length] in *; lia.
  - destruct (ko_after_varpos _ Ht) as (_ & _ & Hk). destruct pos as [|v pos]; [reflexivity|]. cbn [is_nil orb].
    destruct (has_kind KwOnly t) eqn:E.
    + cbn [andb negb orb] in Hg. apply Nat.leb_le in Hg. exfalso.
      assert (count_kind PosOrKw t = 0%nat).
      { unfold count_kind. clear -Hk. induction t as [|q t IH]; [reflexivity|]. cbn [filter].
        destruct (Hk q (or_introl eq_refl)) as [K | K]; rewrite K; cbn; apply IH; intros x Hx; apply Hk; right; exact Hx. }
      cbn [length] in Hg. lia.
    + rewrite (kparams_nil_no_kwonly _ Hk E). reflexivity.
  - apply vp_go_no_varpos. apply (ko_after_varpos t). eapply ko_weaken; [exact Ht | lia].
  - apply ko_after_varkw in Ht. subst. reflexivity.
Qed.

(* ------------------------------------------------------------------ defaults *)
Lemma all_defaults_flat l : forallb has_default l = true -> len (flat_map dflt l) = len l.
Proof.
  induction l as [|p t IH]; [reflexivity|]. cbn [forallb flat_map]. rewrite andb_true_iff. intros [H1 H2].
  unfold has_default, dflt in *. destruct (pdefault p); [|discriminate]. cbn [app]. rewrite !len_cons, IH by exact H2.
  reflexivity.
Qed.

Lemma defaults_no_var s : forall seen, defaults_wf seen s = true -> has_kind PosOnly s = false ->
  flat_map dflt s = flat_map dflt (kparams s).
Proof.
  induction s as [|p t IH]; intros seen H Hpo; [reflexivity|]. rewrite has_kind_cons in Hpo.
  apply orb_false_iff in Hpo. destruct Hpo as [Hpo1 Hpo2]. cbn [defaults_wf] in H. unfold kparams. cbn [flat_map filter].
  unfold kwb at 1. destruct (pkind p) eqn:K; cbn [is_var is_positional is_keywordable kind_eqb kind_rank Nat.eqb] in *.
  - discriminate.
  - cbn [flat_map]. f_equal. apply andb_true_iff in H. destruct H as [_ H]. exact (IH _ H Hpo2).
  - apply andb_true_iff in H. destruct H as [H1 H]. unfold has_default, dflt in *. destruct (pdefault p); [discriminate|].
    cbn [app]. exact (IH _ H Hpo2).
  - cbn [flat_map]. f_equal. exact (IH _ H Hpo2).
  - apply andb_true_iff in H. destruct H as [H1 H]. unfold has_default, dflt in *. destruct (pdefault p); [discriminate|].
    cbn [app]. exact (IH _ H Hpo2).
Qed.

(* ------------------------------------------------------------------ binding: small inversions *)
Lemma bcons_some n v rest b : bcons n v rest = Some b ->
  exists a b', v = Some a /\ rest = Some b' /\ b = (n, a) :: b'.
Proof. unfold bcons. destruct v as [a|], rest as [b'|]; try discriminate. intros [= <-]. eauto. Qed.

(* parameters that are neither keywordable nor *args nor positional-only: at most the **kwargs one *)
Lemma tail_lemma kw sur ps pos b :
  kinds_ordered 3 ps = true -> kparams ps = [] ->
  bind_go kw sur ps pos = Some b ->
  named_entries ps b = [] /\ star_entries ps b = []
  /\ kw_entries ps b = (if has_kind VarKw ps then [(KStarStar, VDict (sort_by fst sur))] else []).
Proof.
  intros Hko Hkp Hb. destruct (ko_after_varpos _ Hko) as (_ & _ & Hk). destruct ps as [|p t].
  - cbn in Hb. destruct pos; [|discriminate]. injection Hb as <-. repeat split.
  - destruct (Hk p (or_introl eq_refl)) as [K | K].
    + unfold kparams in Hkp. cbn [filter] in Hkp. unfold kwb in Hkp. rewrite K in Hkp. discriminate.
    + destruct (ko_step _ _ _ Hko) as [_ Ht]. rewrite K in Ht. apply ko_after_varkw in Ht. subst t.
      cbn [bind_go] in Hb. rewrite ?K in Hb. destruct pos; [|discriminate].
      apply bcons_some in Hb. destruct Hb as (a & b' & Ea & Eb & ->). injection Ea as <-. cbn in Eb. injection Eb as <-.
      unfold named_entries, star_entries, kw_entries, has_kind. cbn [combine flat_map existsb].
      unfold canon_named, canon_star, canon_kw. cbn [fst snd]. rewrite K. cbn. repeat split.
Qed.

Lemma of_nat_S i : Z.of_nat i + 1 = Z.of_nat (S i).
Proof. lia. Qed.

(* ------------------------------------------------------------------ the main loop *)
Section Core.
Variables (args : list value) (kw sur : list (name * value)) (kwonly : list name)
          (defaults : list value) (nlen : Z).

(* a named entry never contradicts a keyword argument of the same name *)
Definition entry_ok (e : key * argval) : Prop :=
  forall n v, fst e = KName n -> kw_lookup n kw = Some v -> snd e = VOne v.

(* one iteration for a parameter that gets no positional argument *)
Lemma step_by_keyword p rest i d a :
  skipn i args = [] ->
  by_keyword kw p = Some a ->
  Z.of_nat i + len (p :: rest) = nlen ->
  (exists A, defaults = A ++ flat_map dflt (p :: rest)) ->
  defaults_reachable kw (p :: rest) 0 = true ->
  dmem (KName (pname p)) d = false ->
  named_step args kw kwonly defaults nlen (Z.of_nat i) (pname p) d = Ok (d ++ [(KName (pname p), a)])
  /\ entry_ok (KName (pname p), a).
Proof.
  intros Hsk Hby Hlen [A HA] Hdr Hfresh. apply skipn_nil_len in Hsk.
  unfold named_step. unfold len at 1. destruct (Z.of_nat i <? Z.of_nat (length args)) eqn:E; [lia|].
  unfold by_keyword in Hby. destruct (kw_lookup (pname p) kw) as [v|] eqn:El.
  - injection Hby as <-. rewrite dset_fresh by exact Hfresh. split; [reflexivity|].
    intros n v' [= <-] Hv'. cbn [snd]. congruence.
  - destruct (pdefault p) as [dv|] eqn:Ed; [|discriminate]. injection Hby as <-.
    cbn [defaults_reachable] in Hdr. apply andb_true_iff in Hdr. destruct Hdr as [Hdr _].
    assert (Hm : kw_mem (pname p) kw = false) by (apply kw_mem_false; exact El).
    rewrite Hm in Hdr. unfold has_default at 1 in Hdr. rewrite Ed in Hdr. cbn [Nat.ltb Nat.leb orb negb] in Hdr.
    rename Hdr into Hall.
    cbn [flat_map] in HA. unfold dflt at 1 in HA. rewrite Ed in HA. cbn [app] in HA.
    replace (Z.of_nat i - nlen) with (- (1 + len (flat_map dflt rest))).
    2:{ rewrite all_defaults_flat by exact Hall. rewrite len_cons in Hlen. lia. }
    rewrite HA, py_index_from_end. rewrite dset_fresh by exact Hfresh. split; [reflexivity|].
    intros n v' [= <-] Hv'. congruence.
Qed.

Lemma core : forall ps r i d b,
  kinds_ordered r ps = true ->
  has_kind PosOnly ps = false ->
  (forall p, In p ps -> name_mem (pname p) kwonly = kind_eqb (pkind p) KwOnly) ->
  NoDup (map pname ps) ->
  (forall p, In p ps -> dmem (KName (pname p)) d = false) ->
  Z.of_nat i + len (kparams ps) = nlen ->
  (exists A, defaults = A ++ flat_map dflt (kparams ps)) ->
  vp_go ps (skipn i args) = true ->
  defaults_reachable kw (kparams ps) (length (skipn i args)) = true ->
  bind_go kw sur ps (skipn i args) = Some b ->
  named_loop args kw kwonly defaults nlen (map pname (kparams ps)) (Z.of_nat i) d = Ok (d ++ named_entries ps b)
  /\ star_entries ps b
     = (if has_kind VarPos ps then [(KStar, VTuple (skipn (i + length (kparams ps)) args))] else [])
  /\ kw_entries ps b = (if has_kind VarKw ps then [(KStarStar, VDict (sort_by fst sur))] else [])
  /\ Forall entry_ok (named_entries ps b)
  /\ map fst (named_entries ps b) = map (fun p => KName (pname p)) (kparams ps).
Proof.
  induction ps as [|p ps IH]; intros r i d b Hko Hpo Hkwo Hnd Hfresh Hlen Hdef Hvp Hdr Hb.
  - cbn [bind_go] in Hb. destruct (skipn i args); [|discriminate]. injection Hb as <-.
    cbn. rewrite app_nil_r. repeat split. constructor.
  - destruct (ko_step _ _ _ Hko) as [Hrp Hko']. rewrite has_kind_cons in Hpo. apply orb_false_iff in Hpo.
    destruct Hpo as [Hpo1 Hpo']. cbn [map] in Hnd. apply NoDup_cons_iff in Hnd. destruct Hnd as [Hnot Hnd'].
    assert (Hkwo' : forall q, In q ps -> name_mem (pname q) kwonly = kind_eqb (pkind q) KwOnly)
      by (intros q Hq; apply Hkwo; right; exact Hq).
    assert (Hfresh_p : dmem (KName (pname p)) d = false) by (apply Hfresh; left; reflexivity).
    assert (Hfresh' : forall a q, In q ps -> dmem (KName (pname q)) (d ++ [(KName (pname p), a)]) = false).
    { intros a q Hq. apply dmem_false. rewrite map_app, in_app_iff. cbn [map fst In]. intros [H | [H | []]].
      - apply dmem_In in H. rewrite Hfresh in H by (right; exact Hq). discriminate.
      - injection H as H. apply Hnot. rewrite H. apply in_map. exact Hq. }
    (* the step shared by positional-or-keyword (no positional left) and keyword-only parameters *)
    assert (Hkwstep : kwb p = true -> skipn i args = [] ->
      forall a b', by_keyword kw p = Some a -> bind_go kw sur ps [] = Some b' -> b = (pname p, a) :: b' ->
      vp_go ps [] = true -> is_named (pkind p) = true ->
      canon_kw (p, (pname p, a)) = [] -> canon_star (p, (pname p, a)) = [] ->
      has_kind VarPos (p :: ps) = has_kind VarPos ps -> has_kind VarKw (p :: ps) = has_kind VarKw ps ->
      named_loop args kw kwonly defaults nlen (map pname (kparams (p :: ps))) (Z.of_nat i) d
        = Ok (d ++ named_entries (p :: ps) b)
      /\ star_entries (p :: ps) b
         = (if has_kind VarPos (p :: ps) then [(KStar, VTuple (skipn (i + length (kparams (p :: ps))) args))] else [])
      /\ kw_entries (p :: ps) b = (if has_kind VarKw (p :: ps) then [(KStarStar, VDict (sort_by fst sur))] else [])
      /\ Forall entry_ok (named_entries (p :: ps) b)
      /\ map fst (named_entries (p :: ps) b) = map (fun p => KName (pname p)) (kparams (p :: ps))).
    { intros Hk Hsk a b' Hby Hb' -> Hvp' Hnamed Hck Hcs Hvpk Hvkk.
      unfold kparams in *. cbn [filter] in *. rewrite Hk in *. cbn [map named_loop].
      rewrite Hsk in Hdr. cbn [length] in Hdr.
      destruct (step_by_keyword p (filter kwb ps) i d a Hsk Hby Hlen Hdef Hdr Hfresh_p) as [Hstep Hok].
      rewrite Hstep. cbn [bind].
      assert (Hsk' : skipn (S i) args = []) by (rewrite <- Nat.add_1_r; apply skipn_nil_more; exact Hsk).
      rewrite of_nat_S.
      destruct (IH _ (S i) (d ++ [(KName (pname p), a)]) b' Hko' Hpo' Hkwo' Hnd' (Hfresh' a)) as (H1 & H2 & H3 & H4 & H5).
      + rewrite len_cons in Hlen. clear - Hlen. lia.
      + destruct Hdef as [A HA]. exists (A ++ dflt p). rewrite <- app_assoc. exact HA.
      + rewrite Hsk'. exact Hvp'.
      + rewrite Hsk'. cbn [length]. cbn [defaults_reachable] in Hdr. apply andb_true_iff in Hdr. apply Hdr.
      + rewrite Hsk'. exact Hb'.
      + rewrite H1. rewrite named_entries_cons, kw_entries_cons, star_entries_cons, Hck, Hcs, Hnamed.
        cbn [app map fst]. rewrite <- app_assoc. cbn [app]. rewrite H2, H3, Hvpk, Hvkk, H5. cbn [length].
        rewrite Nat.add_succ_r. repeat split. constructor; assumption. }
    destruct (pkind p) eqn:K.
    + (* positional-only *) discriminate.
    + (* positional-or-keyword *)
      cbn [bind_go] in Hb. rewrite ?K in Hb. destruct (skipn i args) as [|v pos'] eqn:Hsk.
      * apply bcons_some in Hb. destruct Hb as (a & b' & Ea & Eb & ->).
        apply Hkwstep with (a := a) (b' := b'); unfold kwb, canon_kw, canon_star; cbn [fst snd]; rewrite ?has_kind_cons, ?K; try reflexivity; try assumption.
        cbn [vp_go] in Hvp. rewrite ?K in Hvp. exact Hvp.
      * destruct (kw_mem (pname p) kw) eqn:Hm; [discriminate|].
        apply bcons_some in Hb. destruct Hb as (a & b' & Ea & Eb & ->). injection Ea as <-.
        destruct (skipn_cons_nth _ _ _ _ Hsk) as (Hnth & Hsk' & Hlt).
        assert (Hkp : kparams (p :: ps) = p :: kparams ps)
          by (unfold kparams; cbn [filter]; unfold kwb at 1; rewrite K; reflexivity).
        rewrite Hkp in *. cbn [map named_loop].
        unfold named_step. unfold len at 1. destruct (Z.of_nat i <? Z.of_nat (length args)) eqn:E; [|clear - E Hlt; lia].
        rewrite (Hkwo p (or_introl eq_refl)), K. cbn [kind_eqb kind_rank Nat.eqb negb].
        rewrite (py_index_nonneg _ _ _ Hnth). cbn [bind]. rewrite dset_fresh by exact Hfresh_p.
        rewrite of_nat_S.
        destruct (IH _ (S i) (d ++ [(KName (pname p), VOne v)]) b' Hko' Hpo' Hkwo' Hnd' (Hfresh' _)) as (H1 & H2 & H3 & H4 & H5).
        -- rewrite len_cons in Hlen. clear - Hlen. lia.
        -- destruct Hdef as [A HA]. exists (A ++ dflt p). rewrite <- app_assoc. exact HA.
        -- rewrite Hsk'. cbn [vp_go] in Hvp. rewrite ?K in Hvp. exact Hvp.
        -- rewrite Hsk'. cbn [defaults_reachable length] in Hdr. apply andb_true_iff in Hdr. apply Hdr.
        -- rewrite Hsk'. exact Eb.
        -- rewrite H1. rewrite named_entries_cons, kw_entries_cons, star_entries_cons.
           unfold canon_kw, canon_star. cbn [fst snd]. rewrite K.
           cbn [is_named is_var negb app map fst]. rewrite <- app_assoc. cbn [app].
           rewrite H2, H3, H5, !has_kind_cons, K. cbn [kind_eqb kind_rank Nat.eqb orb length].
           rewrite Nat.add_succ_r. repeat split. constructor; [|assumption].
           intros n v' [= <-] Hv'. apply kw_mem_false in Hm. congruence.
    + (* *args *)
      cbn [bind_go] in Hb. rewrite ?K in Hb. apply bcons_some in Hb. destruct Hb as (a & b' & Ea & Eb & ->).
      injection Ea as <-. rewrite ?K in Hko'. cbn [kind_rank] in Hko'.
      destruct (ko_after_varpos _ Hko') as (Hnovp & _ & _).
      cbn [vp_go] in Hvp. rewrite ?K in Hvp.
      assert (Hkp : kparams (p :: ps) = kparams ps) by (unfold kparams; cbn [filter]; unfold kwb at 1; rewrite K; reflexivity).
      rewrite Hkp in *. rewrite !has_kind_cons, K, Hnovp. cbn [kind_eqb kind_rank Nat.eqb orb].
      rewrite named_entries_cons, kw_entries_cons, star_entries_cons.
      unfold canon_kw, canon_star. cbn [fst snd]. rewrite K. cbn [is_named is_var negb app].
      destruct (skipn i args) as [|v pos'] eqn:Hsk.
      * destruct (IH _ i d b' Hko' Hpo' Hkwo' Hnd') as (H1 & H2 & H3 & H4 & H5); try assumption.
        -- intros q Hq. apply Hfresh. right. exact Hq.
        -- rewrite Hsk. apply vp_go_no_varpos. exact Hnovp.
        -- rewrite Hsk. exact Hdr.
        -- rewrite Hsk. exact Eb.
        -- rewrite H1, H2, H3, Hnovp, (skipn_nil_more _ _ _ Hsk). repeat split; assumption.
      * cbn [is_nil orb] in Hvp. destruct (kparams ps) eqn:Hkp'; [|discriminate].
        destruct (tail_lemma _ _ _ _ _ Hko' Hkp' Eb) as (T1 & T2 & T3).
        rewrite T1, T2, T3. cbn [map named_loop length]. rewrite app_nil_r, Nat.add_0_r, Hsk.
        repeat split. constructor.
    + (* keyword-only *)
      cbn [bind_go] in Hb. rewrite ?K in Hb. destruct (skipn i args) as [|v pos'] eqn:Hsk; [|discriminate].
      apply bcons_some in Hb. destruct Hb as (a & b' & Ea & Eb & ->).
      apply Hkwstep with (a := a) (b' := b'); unfold kwb, canon_kw, canon_star; cbn [fst snd]; rewrite ?has_kind_cons, ?K; try reflexivity; try assumption.
      cbn [vp_go] in Hvp. rewrite ?K in Hvp. exact Hvp.
    + (* **kwargs *)
      cbn [bind_go] in Hb. rewrite ?K in Hb. destruct (skipn i args) as [|v pos'] eqn:Hsk; [|discriminate].
      apply bcons_some in Hb. destruct Hb as (a & b' & Ea & Eb & ->). injection Ea as <-.
      rewrite ?K in Hko'. apply ko_after_varkw in Hko'. subst ps. cbn in Eb. injection Eb as <-.
      unfold kparams, named_entries, star_entries, kw_entries, has_kind. cbn [filter combine flat_map existsb].
      unfold kwb, canon_named, canon_kw, canon_star. cbn [fst snd]. rewrite K. cbn. rewrite app_nil_r.
      repeat split. constructor.
Qed.
End Core.

(* ------------------------------------------------------------------ the sorted-kwargs loop *)
Lemma kw_loop_spec varkw : forall items d vk,
  (forall k v, In (k, v) items -> dmem (KName k) d = true -> dget (KName k) d = Some (VOne v)) ->
  (varkw = None -> forall k v, In (k, v) items -> dmem (KName k) d = true) ->
  kw_loop varkw items d vk
  = Ok (d, vk ++ if is_some varkw then filter (fun kv => negb (dmem (KName (fst kv)) d)) items else []).
Proof.
  induction items as [|[k v] t IH]; intros d vk Hsame Hall; cbn [kw_loop filter fst].
  - destruct (is_some varkw); rewrite app_nil_r; reflexivity.
  - assert (Hsame' : forall k' v', In (k', v') t -> dmem (KName k') d = true -> dget (KName k') d = Some (VOne v'))
      by (intros k' v' Hin; apply Hsame; right; exact Hin).
    assert (Hall' : varkw = None -> forall k' v', In (k', v') t -> dmem (KName k') d = true)
      by (intros E k' v' Hin; apply (Hall E k' v'); right; exact Hin).
    destruct (dmem (KName k) d) eqn:E; cbn [negb].
    + rewrite dset_same by (apply Hsame; [left; reflexivity | exact E]). apply IH; assumption.
    + destruct varkw as [n|].
      * rewrite IH by assumption. cbn [is_some]. rewrite <- app_assoc. reflexivity.
      * rewrite (Hall eq_refl k v (or_introl eq_refl)) in E. discriminate.
Qed.

(* ------------------------------------------------------------------ everything after the main loop *)
Definition fa_tail (sc : scan) (args : list value) (kwargs : list (name * value)) (nlen : Z)
    (ign : list key) (d1 : adict) : result adict :=
  let arg_position := nlen - 1 in
  bind (kw_loop (sc_varkw sc) (sort_by fst kwargs) d1 [])
    (fun d2vk =>
       let d3 := match sc_varkw sc with
                 | Some _ => dset KStarStar (VDict (snd d2vk)) (fst d2vk)
                 | None => fst d2vk
                 end in
       let d4 := match sc_varargs sc with
                 | Some _ => dset KStar (VTuple (py_slice_from args (arg_position + 1))) d3
                 | None => d3
                 end in
       ignore_loop ign d4).

Lemma fa_unfold s ign meth c :
  filter_args_model s ign meth c =
  let sc := scan_sig s in
  let args := match meth with Some (_, sv) => sv :: cpos c | None => cpos c end in
  let arg_names := match meth with Some (sn, _) => sn :: sc_names sc | None => sc_names sc end in
  bind (named_loop args (ckw c) (sc_kwonly sc) (sc_defaults sc) (len arg_names) arg_names 0 [])
       (fa_tail sc args (ckw c) (len arg_names) ign).
Proof. reflexivity. Qed.

Lemma In_map_KName k keys : In (KName k) (map KName keys) <-> In k keys.
Proof.
  rewrite in_map_iff. split.
  - intros (x & E & Hx). injection E as ->. exact Hx.
  - intros H. exists k. split; [reflexivity | exact H].
Qed.

Lemma fa_tail_spec s args kw nn d1 keys :
  map fst d1 = map KName keys -> Forall (entry_ok kw) d1 -> NoDup (map fst kw) ->
  (has_kind VarKw s = false -> forall k v, In (k, v) kw -> In k keys) ->
  fa_tail (scan_sig s) args kw (Z.of_nat nn) [] d1 =
  Ok (d1 ++ (if has_kind VarKw s
             then [(KStarStar, VDict (sort_by fst (filter (fun kv => negb (name_mem (fst kv) keys)) kw)))]
             else [])
         ++ (if has_kind VarPos s then [(KStar, VTuple (skipn nn args))] else [])).
Proof.
  intros Hkeys Hok Hnd Hall.
  destruct (scan_sig_spec s) as (_ & _ & _ & Hva & Hvk).
  assert (Hdm : forall k, dmem (KName k) d1 = name_mem k keys).
  { intros k. destruct (name_mem k keys) eqn:E.
    - apply dmem_In. rewrite Hkeys. apply In_map_KName. apply name_mem_In. exact E.
    - apply dmem_false. rewrite Hkeys, In_map_KName. apply name_mem_false. exact E. }
  unfold fa_tail. rewrite kw_loop_spec.
  - cbn [bind fst snd app].
    rewrite (filter_ext_in_eq _ (fun kv => negb (name_mem (fst kv) keys))) by (intros x _; rewrite Hdm; reflexivity).
    rewrite filter_sort_by.
    assert (Hstar : dmem KStarStar d1 = false).
    { apply dmem_false. rewrite Hkeys. rewrite in_map_iff. intros (x & E & _). discriminate. }
    set (vk := sort_by fst (filter (fun kv => negb (name_mem (fst kv) keys)) kw)).
    replace (Z.of_nat nn - 1 + 1) with (Z.of_nat nn) by lia. rewrite py_slice_from_nonneg.
    destruct (sc_varkw (scan_sig s)) as [n1|]; cbn [is_some] in Hvk; rewrite <- Hvk;
      destruct (sc_varargs (scan_sig s)) as [n2|]; cbn [is_some] in Hva; rewrite <- Hva; cbn [ignore_loop].
    + rewrite (dset_fresh KStarStar) by exact Hstar. rewrite dset_fresh; [rewrite <- app_assoc; reflexivity|].
      apply dmem_false. rewrite map_app, in_app_iff, Hkeys. cbn [map fst In].
      intros [H | [H | []]]; [|discriminate]. rewrite in_map_iff in H. destruct H as (x & E & _). discriminate.
    + rewrite (dset_fresh KStarStar) by exact Hstar. rewrite app_nil_r. reflexivity.
    + rewrite dset_fresh; [reflexivity|]. apply dmem_false. rewrite Hkeys, in_map_iff. intros (x & E & _). discriminate.
    + rewrite app_nil_r. reflexivity.
  - intros k v Hin Hm. assert (Hin' : In (k, v) kw) by (eapply Permutation_in; [apply sort_by_perm | exact Hin]).
    unfold dmem in Hm. destruct (dget (KName k) d1) as [a|] eqn:Eg; [|discriminate].
    apply dget_In in Eg. rewrite Forall_forall in Hok. specialize (Hok _ Eg k v eq_refl (In_kw_lookup _ _ _ Hnd Hin')).
    cbn [snd] in Hok. subst a. reflexivity.
  - intros Evk k v Hin. assert (Hin' : In (k, v) kw) by (eapply Permutation_in; [apply sort_by_perm | exact Hin]).
    rewrite Evk in Hvk. cbn [is_some] in Hvk. rewrite Hdm. apply name_mem_In. eapply Hall; [symmetry; exact Hvk | exact Hin'].
Qed.

(* ------------------------------------------------------------------ facts about well-formed signatures *)
Lemma NoDup_map_inj {A B} (f : A -> B) l x y : NoDup (map f l) -> In x l -> In y l -> f x = f y -> x = y.
Proof.
  induction l as [|z t IH]; cbn [map In]; [tauto|]. intros Hnd Hx Hy E. apply NoDup_cons_iff in Hnd.
  destruct Hnd as [Hnot Hnd]. destruct Hx as [-> | Hx], Hy as [-> | Hy].
  - reflexivity.
  - exfalso. apply Hnot. rewrite E. apply in_map. exact Hy.
  - exfalso. apply Hnot. rewrite <- E. apply in_map. exact Hx.
  - apply IH; assumption.
Qed.

Lemma kwonly_mem s p : NoDup (map pname s) -> In p s ->
  name_mem (pname p) (kwonly_names s) = kind_eqb (pkind p) KwOnly.
Proof.
  intros Hnd Hp. unfold kwonly_names. destruct (kind_eqb (pkind p) KwOnly) eqn:E.
  - apply name_mem_In. apply in_map. apply filter_In. split; assumption.
  - apply name_mem_false. rewrite in_map_iff. intros (q & Eq & Hq). apply filter_In in Hq. destruct Hq as [Hq Kq].
    assert (q = p) by (eapply NoDup_map_inj; eassumption). subst q. congruence.
Qed.

Lemma wf_sig_parts s : wf_sig s ->
  kinds_ordered 0 s = true /\ defaults_wf false s = true /\ NoDup (map pname s).
Proof.
  unfold wf_sig, wf_sigb. rewrite !andb_true_iff. intros [[H1 H2] H3]. repeat split; try assumption.
  apply nodupb_NoDup. exact H3.
Qed.

Lemma in_fragment_parts s c : in_fragment s c = true ->
  has_kind PosOnly s = false
  /\ negb (has_kind VarPos s && has_kind KwOnly s) || Nat.leb (length (cpos c)) (count_kind PosOrKw s) = true
  /\ defaults_reachable (ckw c) (kparams s) (length (cpos c)) = true.
Proof.
  unfold in_fragment. rewrite !andb_true_iff, negb_true_iff. intros [[H1 H2] H3]. repeat split; assumption.
Qed.

Lemma keywordable_names_kparams s : keywordable_names s = map pname (kparams s).
Proof. reflexivity. Qed.

Lemma surplus_nil_all s kw : is_nil (surplus_kw s kw) = true ->
  forall k v, In (k, v) kw -> In k (keywordable_names s).
Proof.
  intros H k v Hin. destruct (surplus_kw s kw) eqn:E; [|discriminate].
  destruct (name_mem k (keywordable_names s)) eqn:Em; [apply name_mem_In; exact Em|]. exfalso.
  assert (Hin' : In (k, v) (surplus_kw s kw)) by (apply filter_In; split; [exact Hin | cbn [fst]; rewrite Em; reflexivity]).
  rewrite E in Hin'. exact Hin'.
Qed.

(* ------------------------------------------------------------------ plain functions *)
Theorem agree_partial : forall s c b,
  wf_sig s -> wf_call c -> in_fragment s c = true ->
  py_bind s c = Some b ->
  filter_args_model s [] None c = Ok (canon s b).
Proof.
  intros s c b Hwf Hwc Hfr Hb. destruct c as [pos kw]. cbn [cpos ckw] in *.
  destruct (wf_sig_parts _ Hwf) as (Hko & Hdw & Hnd).
  destruct (in_fragment_parts _ _ Hfr) as (Hpo & Hvpg & Hdr). cbn [cpos ckw] in *.
  apply nodupb_NoDup in Hwc. cbn [ckw] in Hwc.
  unfold py_bind in Hb. cbn [cpos ckw] in Hb.
  destruct (has_kind VarKw s || is_nil (surplus_kw s kw)) eqn:Hacc; [|discriminate].
  rewrite fa_unfold. cbv zeta. cbn [cpos ckw].
  destruct (scan_sig_spec s) as (Hn & Hd & Hk & _ & _). rewrite Hn, Hd, Hk, keywordable_names_kparams.
  destruct (core pos kw (surplus_kw s kw) (kwonly_names s) (flat_map dflt s) (len (map pname (kparams s)))
              s 0%nat 0%nat [] b Hko Hpo) as (H1 & H2 & H3 & H4 & H5).
  - intros p Hp. apply kwonly_mem; assumption.
  - exact Hnd.
  - reflexivity.
  - unfold len. rewrite map_length. reflexivity.
  - exists []. apply (defaults_no_var _ _ Hdw Hpo).
  - cbn [skipn]. eapply vp_go_of_global; eassumption.
  - exact Hdr.
  - exact Hb.
  - change (Z.of_nat 0) with 0 in H1. rewrite H1. cbn [bind app].
    unfold len. rewrite map_length.
    rewrite (fa_tail_spec s pos kw _ _ (keywordable_names s)).
    + rewrite canon_split, H2, H3. cbn [Nat.add]. reflexivity.
    + rewrite H5, keywordable_names_kparams, map_map. reflexivity.
    + exact H4.
    + exact Hwc.
    + intros Hvk. rewrite Hvk in Hacc. cbn [orb] in Hacc. apply surplus_nil_all. exact Hacc.
Qed.

(* ------------------------------------------------------------------ bound methods *)
(* [selfp] = first parameter of the underlying function, [sv] = the instance; inspect.signature of the
   bound method is [s].  Python binds by calling the underlying function with the instance prepended. *)
Theorem agree_partial_method : forall selfp sv s c b,
  wf_sig (selfp :: s) -> is_positional (pkind selfp) = true ->
  wf_call c -> in_fragment s c = true ->
  ~ In (pname selfp) (map fst (ckw c)) ->
  py_bind (selfp :: s) (mkCall (sv :: cpos c) (ckw c)) = Some b ->
  filter_args_model s [] (Some (pname selfp, sv)) c = Ok (canon (selfp :: s) b).
Proof.
  intros selfp sv s c b Hwf Hposl Hwc Hfr Hself Hb. destruct c as [pos kw]. cbn [cpos ckw] in *.
  destruct (wf_sig_parts _ Hwf) as (Hko & Hdw & Hnd).
  destruct (in_fragment_parts _ _ Hfr) as (Hpo & Hvpg & Hdr). cbn [cpos ckw] in *.
  apply nodupb_NoDup in Hwc. cbn [ckw] in Hwc.
  cbn [map] in Hnd. apply NoDup_cons_iff in Hnd. destruct Hnd as [Hsn Hnd].
  destruct (ko_step _ _ _ Hko) as [_ Hko'].
  assert (Hdw' : exists seen, defaults_wf seen s = true).
  { cbn [defaults_wf] in Hdw. destruct (pkind selfp); try discriminate; cbn [is_var is_positional] in Hdw;
      apply andb_true_iff in Hdw; destruct Hdw as [_ Hdw]; eexists; exact Hdw. }
  destruct Hdw' as [seen Hdw'].
  (* Python's side: self takes the instance *)
  set (sur := surplus_kw (selfp :: s) kw) in *.
  assert (Hlk : kw_mem (pname selfp) kw = false) by (apply kw_mem_false, kw_lookup_None; exact Hself).
  assert (Hb' : exists b', b = (pname selfp, VOne sv) :: b' /\ bind_go kw sur s pos = Some b'
                           /\ (has_kind VarKw s = false -> is_nil sur = true)).
  { unfold py_bind in Hb. cbn [cpos ckw] in Hb. fold sur in Hb. rewrite has_kind_cons in Hb.
    assert (Ek : kind_eqb (pkind selfp) VarKw = false) by (destruct (pkind selfp); try discriminate; reflexivity).
    rewrite Ek in Hb. cbn [orb] in Hb.
    destruct (has_kind VarKw s || is_nil sur) eqn:Hacc; [|discriminate].
    cbn [bind_go] in Hb. destruct (pkind selfp); try discriminate; rewrite ?Hlk in Hb;
      apply bcons_some in Hb; destruct Hb as (a & b' & Ea & Eb & ->); injection Ea as <-;
      (exists b'; repeat split; [exact Eb | intros Hvk; rewrite Hvk in Hacc; exact Hacc]). }
  destruct Hb' as (b' & -> & Hb' & Hacc).
  assert (Hsur : sur = filter (fun kv => negb (name_mem (fst kv) (pname selfp :: keywordable_names s))) kw).
  { unfold sur, surplus_kw. apply filter_ext_in_eq. intros [k v] Hin. cbn [fst]. f_equal.
    assert (Hne : (pname selfp =? k) = false).
    { apply Z.eqb_neq. intros E. apply Hself. rewrite E. change k with (fst (k, v)). apply in_map. exact Hin. }
    unfold keywordable_names at 1. cbn [filter]. destruct (is_keywordable (pkind selfp));
      cbn [map name_mem existsb]; rewrite ?(Z.eqb_sym k), ?Hne; reflexivity. }
  rewrite fa_unfold. cbv zeta. cbn [cpos ckw].
  destruct (scan_sig_spec s) as (Hn & Hd & Hk & _ & _). rewrite Hn, Hd, Hk, keywordable_names_kparams.
  (* first iteration: arg_names[0] = self, args[0] = the instance *)
  cbn [named_loop]. unfold named_step at 1. rewrite !len_cons.
  assert (Hkwo_self : name_mem (pname selfp) (kwonly_names s) = false).
  { apply name_mem_false. unfold kwonly_names. rewrite in_map_iff. intros (q & Eq & Hq). apply filter_In in Hq.
    apply Hsn. rewrite <- Eq. apply in_map. apply Hq. }
  destruct (0 <? 1 + len pos) eqn:E0; [|clear - E0; pose proof (len_nonneg pos); lia].
  rewrite Hkwo_self. cbn [negb]. change 0 with (Z.of_nat 0) at 1. rewrite (py_index_nonneg (sv :: pos) 0 sv eq_refl).
  cbn [bind dset]. change (0 + 1) with (Z.of_nat 1).
  destruct (core (sv :: pos) kw sur (kwonly_names s) (flat_map dflt s) (1 + len (map pname (kparams s)))
              s _ 1%nat [(KName (pname selfp), VOne sv)] b' Hko' Hpo) as (H1 & H2 & H3 & H4 & H5).
  - intros p Hp. apply kwonly_mem; assumption.
  - exact Hnd.
  - intros p Hp. apply dmem_false. cbn [map fst In]. intros [E | []]. injection E as E. apply Hsn. rewrite E.
    apply in_map. exact Hp.
  - unfold len. rewrite map_length. clear. lia.
  - exists []. apply (defaults_no_var _ _ Hdw' Hpo).
  - cbn [skipn]. eapply vp_go_of_global; eassumption.
  - exact Hdr.
  - exact Hb'.
  - rewrite H1. cbn [bind].
    replace (1 + len (map pname (kparams s))) with (Z.of_nat (S (length (kparams s))))
      by (unfold len; rewrite map_length; clear; lia).
    rewrite (fa_tail_spec s (sv :: pos) kw _ _ (pname selfp :: keywordable_names s)).
    + rewrite canon_split, named_entries_cons, kw_entries_cons, star_entries_cons, H2, H3, <- Hsur.
      assert (En : is_named (pkind selfp) = true) by (destruct (pkind selfp); try discriminate; reflexivity).
      rewrite En. unfold canon_kw, canon_star. cbn [fst snd].
      destruct (pkind selfp); try discriminate; reflexivity.
    + cbn [app map fst]. rewrite H5, keywordable_names_kparams, map_map. reflexivity.
    + cbn [app]. constructor; [|exact H4]. intros n v [= <-] Hv. exfalso. apply kw_lookup_In in Hv.
      apply Hself. change (pname selfp) with (fst (pname selfp, v)). apply in_map. exact Hv.
    + exact Hwc.
    + intros Hvk k v Hin. specialize (Hacc Hvk). rewrite Hsur in Hacc.
      destruct (name_mem k (pname selfp :: keywordable_names s)) eqn:Em; [apply name_mem_In; exact Em|]. exfalso.
      destruct (filter (fun kv => negb (name_mem (fst kv) (pname selfp :: keywordable_names s))) kw) eqn:Ef; [|discriminate].
      assert (Hin' : In (k, v) (filter (fun kv => negb (name_mem (fst kv) (pname selfp :: keywordable_names s))) kw))
        by (apply filter_In; split; [exact Hin | cbn [fst]; rewrite Em; reflexivity]).
      rewrite Ef in Hin'. exact Hin'.
Qed.

(* ------------------------------------------------------------------ the fragment as a property of the signature *)
Lemma defaults_suffix_reachable kw nps : defaults_suffix nps = true ->
  forall n, defaults_reachable kw nps n = true.
Proof.
  induction nps as [|p t IH]; intros H n; [reflexivity|]. cbn [defaults_suffix defaults_reachable] in *.
  apply andb_true_iff in H. destruct H as [H1 H2]. rewrite IH by exact H2. rewrite andb_true_r.
  destruct (has_default p); cbn [negb]; [rewrite H1|]; rewrite ?orb_true_r; reflexivity.
Qed.

Lemma sig_in_fragment_all s c : sig_in_fragment s = true -> in_fragment s c = true.
Proof.
  unfold sig_in_fragment, in_fragment. rewrite !andb_true_iff. intros [[H1 H2] H3]. repeat split.
  - exact H1.
  - rewrite H2. reflexivity.
  - apply defaults_suffix_reachable. exact H3.
Qed.
