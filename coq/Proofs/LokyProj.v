(* GENERATED projection lemmas for the record setters of Model/LokyExec.v (all by computation). *)
From Coq Require Import ZArith List Bool Arith.
Require Import JV.Model.LokyExec.
Import ListNotations.

Lemma p_set_futs_broken : forall e v, broken (set_futs e v) = broken e. Proof. reflexivity. Qed.
Lemma p_set_futs_shutdown : forall e v, shutdown (set_futs e v) = shutdown e. Proof. reflexivity. Qed.
Lemma p_set_futs_killw : forall e v, killw (set_futs e v) = killw e. Proof. reflexivity. Qed.
Lemma p_set_futs_maxw : forall e v, maxw (set_futs e v) = maxw e. Proof. reflexivity. Qed.
Lemma p_set_futs_qcap : forall e v, qcap (set_futs e v) = qcap e. Proof. reflexivity. Qed.
Lemma p_set_futs_procs : forall e v, procs (set_futs e v) = procs e. Proof. reflexivity. Qed.
Lemma p_set_futs_wk : forall e v, wk (set_futs e v) = wk e. Proof. reflexivity. Qed.
Lemma p_set_futs_pidc : forall e v, pidc (set_futs e v) = pidc e. Proof. reflexivity. Qed.
Lemma p_set_futs_futs : forall e v, futs (set_futs e v) = v. Proof. reflexivity. Qed.
Lemma p_set_futs_nfut : forall e v, nfut (set_futs e v) = nfut e. Proof. reflexivity. Qed.
Lemma p_set_futs_pending : forall e v, pending (set_futs e v) = pending e. Proof. reflexivity. Qed.
Lemma p_set_futs_work_ids : forall e v, work_ids (set_futs e v) = work_ids e. Proof. reflexivity. Qed.
Lemma p_set_futs_running : forall e v, running (set_futs e v) = running e. Proof. reflexivity. Qed.
Lemma p_set_futs_callq : forall e v, callq (set_futs e v) = callq e. Proof. reflexivity. Qed.
Lemma p_set_futs_resq : forall e v, resq (set_futs e v) = resq e. Proof. reflexivity. Qed.
Lemma p_set_futs_wakeup : forall e v, wakeup (set_futs e v) = wakeup e. Proof. reflexivity. Qed.
Lemma p_set_futs_mgr : forall e v, mgr (set_futs e v) = mgr e. Proof. reflexivity. Qed.
Lemma p_set_futs_faulted : forall e v, faulted (set_futs e v) = faulted e. Proof. reflexivity. Qed.
Lemma p_set_mgr_broken : forall e v, broken (set_mgr e v) = broken e. Proof. reflexivity. Qed.
Lemma p_set_mgr_shutdown : forall e v, shutdown (set_mgr e v) = shutdown e. Proof. reflexivity. Qed.
Lemma p_set_mgr_killw : forall e v, killw (set_mgr e v) = killw e. Proof. reflexivity. Qed.
Lemma p_set_mgr_maxw : forall e v, maxw (set_mgr e v) = maxw e. Proof. reflexivity. Qed.
Lemma p_set_mgr_qcap : forall e v, qcap (set_mgr e v) = qcap e. Proof. reflexivity. Qed.
Lemma p_set_mgr_procs : forall e v, procs (set_mgr e v) = procs e. Proof. reflexivity. Qed.
Lemma p_set_mgr_wk : forall e v, wk (set_mgr e v) = wk e. Proof. reflexivity. Qed.
Lemma p_set_mgr_pidc : forall e v, pidc (set_mgr e v) = pidc e. Proof. reflexivity. Qed.
Lemma p_set_mgr_futs : forall e v, futs (set_mgr e v) = futs e. Proof. reflexivity. Qed.
Lemma p_set_mgr_nfut : forall e v, nfut (set_mgr e v) = nfut e. Proof. reflexivity. Qed.
Lemma p_set_mgr_pending : forall e v, pending (set_mgr e v) = pending e. Proof. reflexivity. Qed.
Lemma p_set_mgr_work_ids : forall e v, work_ids (set_mgr e v) = work_ids e. Proof. reflexivity. Qed.
Lemma p_set_mgr_running : forall e v, running (set_mgr e v) = running e. Proof. reflexivity. Qed.
Lemma p_set_mgr_callq : forall e v, callq (set_mgr e v) = callq e. Proof. reflexivity. Qed.
Lemma p_set_mgr_resq : forall e v, resq (set_mgr e v) = resq e. Proof. reflexivity. Qed.
Lemma p_set_mgr_wakeup : forall e v, wakeup (set_mgr e v) = wakeup e. Proof. reflexivity. Qed.
Lemma p_set_mgr_mgr : forall e v, mgr (set_mgr e v) = v. Proof. reflexivity. Qed.
Lemma p_set_mgr_faulted : forall e v, faulted (set_mgr e v) = faulted e. Proof. reflexivity. Qed.
Lemma p_set_wk_broken : forall e v, broken (set_wk e v) = broken e. Proof. reflexivity. Qed.
Lemma p_set_wk_shutdown : forall e v, shutdown (set_wk e v) = shutdown e. Proof. reflexivity. Qed.
Lemma p_set_wk_killw : forall e v, killw (set_wk e v) = killw e. Proof. reflexivity. Qed.
Lemma p_set_wk_maxw : forall e v, maxw (set_wk e v) = maxw e. Proof. reflexivity. Qed.
Lemma p_set_wk_qcap : forall e v, qcap (set_wk e v) = qcap e. Proof. reflexivity. Qed.
Lemma p_set_wk_procs : forall e v, procs (set_wk e v) = procs e. Proof. reflexivity. Qed.
Lemma p_set_wk_wk : forall e v, wk (set_wk e v) = v. Proof. reflexivity. Qed.
Lemma p_set_wk_pidc : forall e v, pidc (set_wk e v) = pidc e. Proof. reflexivity. Qed.
Lemma p_set_wk_futs : forall e v, futs (set_wk e v) = futs e. Proof. reflexivity. Qed.
Lemma p_set_wk_nfut : forall e v, nfut (set_wk e v) = nfut e. Proof. reflexivity. Qed.
Lemma p_set_wk_pending : forall e v, pending (set_wk e v) = pending e. Proof. reflexivity. Qed.
Lemma p_set_wk_work_ids : forall e v, work_ids (set_wk e v) = work_ids e. Proof. reflexivity. Qed.
Lemma p_set_wk_running : forall e v, running (set_wk e v) = running e. Proof. reflexivity. Qed.
Lemma p_set_wk_callq : forall e v, callq (set_wk e v) = callq e. Proof. reflexivity. Qed.
Lemma p_set_wk_resq : forall e v, resq (set_wk e v) = resq e. Proof. reflexivity. Qed.
Lemma p_set_wk_wakeup : forall e v, wakeup (set_wk e v) = wakeup e. Proof. reflexivity. Qed.
Lemma p_set_wk_mgr : forall e v, mgr (set_wk e v) = mgr e. Proof. reflexivity. Qed.
Lemma p_set_wk_faulted : forall e v, faulted (set_wk e v) = faulted e. Proof. reflexivity. Qed.
Lemma p_set_resq_broken : forall e v, broken (set_resq e v) = broken e. Proof. reflexivity. Qed.
Lemma p_set_resq_shutdown : forall e v, shutdown (set_resq e v) = shutdown e. Proof. reflexivity. Qed.
Lemma p_set_resq_killw : forall e v, killw (set_resq e v) = killw e. Proof. reflexivity. Qed.
Lemma p_set_resq_maxw : forall e v, maxw (set_resq e v) = maxw e. Proof. reflexivity. Qed.
Lemma p_set_resq_qcap : forall e v, qcap (set_resq e v) = qcap e. Proof. reflexivity. Qed.
Lemma p_set_resq_procs : forall e v, procs (set_resq e v) = procs e. Proof. reflexivity. Qed.
Lemma p_set_resq_wk : forall e v, wk (set_resq e v) = wk e. Proof. reflexivity. Qed.
Lemma p_set_resq_pidc : forall e v, pidc (set_resq e v) = pidc e. Proof. reflexivity. Qed.
Lemma p_set_resq_futs : forall e v, futs (set_resq e v) = futs e. Proof. reflexivity. Qed.
Lemma p_set_resq_nfut : forall e v, nfut (set_resq e v) = nfut e. Proof. reflexivity. Qed.
Lemma p_set_resq_pending : forall e v, pending (set_resq e v) = pending e. Proof. reflexivity. Qed.
Lemma p_set_resq_work_ids : forall e v, work_ids (set_resq e v) = work_ids e. Proof. reflexivity. Qed.
Lemma p_set_resq_running : forall e v, running (set_resq e v) = running e. Proof. reflexivity. Qed.
Lemma p_set_resq_callq : forall e v, callq (set_resq e v) = callq e. Proof. reflexivity. Qed.
Lemma p_set_resq_resq : forall e v, resq (set_resq e v) = v. Proof. reflexivity. Qed.
Lemma p_set_resq_wakeup : forall e v, wakeup (set_resq e v) = wakeup e. Proof. reflexivity. Qed.
Lemma p_set_resq_mgr : forall e v, mgr (set_resq e v) = mgr e. Proof. reflexivity. Qed.
Lemma p_set_resq_faulted : forall e v, faulted (set_resq e v) = faulted e. Proof. reflexivity. Qed.
Lemma p_set_wakeup_broken : forall e v, broken (set_wakeup e v) = broken e. Proof. reflexivity. Qed.
Lemma p_set_wakeup_shutdown : forall e v, shutdown (set_wakeup e v) = shutdown e. Proof. reflexivity. Qed.
Lemma p_set_wakeup_killw : forall e v, killw (set_wakeup e v) = killw e. Proof. reflexivity. Qed.
Lemma p_set_wakeup_maxw : forall e v, maxw (set_wakeup e v) = maxw e. Proof. reflexivity. Qed.
Lemma p_set_wakeup_qcap : forall e v, qcap (set_wakeup e v) = qcap e. Proof. reflexivity. Qed.
Lemma p_set_wakeup_procs : forall e v, procs (set_wakeup e v) = procs e. Proof. reflexivity. Qed.
Lemma p_set_wakeup_wk : forall e v, wk (set_wakeup e v) = wk e. Proof. reflexivity. Qed.
Lemma p_set_wakeup_pidc : forall e v, pidc (set_wakeup e v) = pidc e. Proof. reflexivity. Qed.
Lemma p_set_wakeup_futs : forall e v, futs (set_wakeup e v) = futs e. Proof. reflexivity. Qed.
Lemma p_set_wakeup_nfut : forall e v, nfut (set_wakeup e v) = nfut e. Proof. reflexivity. Qed.
Lemma p_set_wakeup_pending : forall e v, pending (set_wakeup e v) = pending e. Proof. reflexivity. Qed.
Lemma p_set_wakeup_work_ids : forall e v, work_ids (set_wakeup e v) = work_ids e. Proof. reflexivity. Qed.
Lemma p_set_wakeup_running : forall e v, running (set_wakeup e v) = running e. Proof. reflexivity. Qed.
Lemma p_set_wakeup_callq : forall e v, callq (set_wakeup e v) = callq e. Proof. reflexivity. Qed.
Lemma p_set_wakeup_resq : forall e v, resq (set_wakeup e v) = resq e. Proof. reflexivity. Qed.
Lemma p_set_wakeup_wakeup : forall e v, wakeup (set_wakeup e v) = v. Proof. reflexivity. Qed.
Lemma p_set_wakeup_mgr : forall e v, mgr (set_wakeup e v) = mgr e. Proof. reflexivity. Qed.
Lemma p_set_wakeup_faulted : forall e v, faulted (set_wakeup e v) = faulted e. Proof. reflexivity. Qed.
Lemma p_set_callq_broken : forall e v, broken (set_callq e v) = broken e. Proof. reflexivity. Qed.
Lemma p_set_callq_shutdown : forall e v, shutdown (set_callq e v) = shutdown e. Proof. reflexivity. Qed.
Lemma p_set_callq_killw : forall e v, killw (set_callq e v) = killw e. Proof. reflexivity. Qed.
Lemma p_set_callq_maxw : forall e v, maxw (set_callq e v) = maxw e. Proof. reflexivity. Qed.
Lemma p_set_callq_qcap : forall e v, qcap (set_callq e v) = qcap e. Proof. reflexivity. Qed.
Lemma p_set_callq_procs : forall e v, procs (set_callq e v) = procs e. Proof. reflexivity. Qed.
Lemma p_set_callq_wk : forall e v, wk (set_callq e v) = wk e. Proof. reflexivity. Qed.
Lemma p_set_callq_pidc : forall e v, pidc (set_callq e v) = pidc e. Proof. reflexivity. Qed.
Lemma p_set_callq_futs : forall e v, futs (set_callq e v) = futs e. Proof. reflexivity. Qed.
Lemma p_set_callq_nfut : forall e v, nfut (set_callq e v) = nfut e. Proof. reflexivity. Qed.
Lemma p_set_callq_pending : forall e v, pending (set_callq e v) = pending e. Proof. reflexivity. Qed.
Lemma p_set_callq_work_ids : forall e v, work_ids (set_callq e v) = work_ids e. Proof. reflexivity. Qed.
Lemma p_set_callq_running : forall e v, running (set_callq e v) = running e. Proof. reflexivity. Qed.
Lemma p_set_callq_callq : forall e v, callq (set_callq e v) = v. Proof. reflexivity. Qed.
Lemma p_set_callq_resq : forall e v, resq (set_callq e v) = resq e. Proof. reflexivity. Qed.
Lemma p_set_callq_wakeup : forall e v, wakeup (set_callq e v) = wakeup e. Proof. reflexivity. Qed.
Lemma p_set_callq_mgr : forall e v, mgr (set_callq e v) = mgr e. Proof. reflexivity. Qed.
Lemma p_set_callq_faulted : forall e v, faulted (set_callq e v) = faulted e. Proof. reflexivity. Qed.
Lemma p_set_pending_broken : forall e v, broken (set_pending e v) = broken e. Proof. reflexivity. Qed.
Lemma p_set_pending_shutdown : forall e v, shutdown (set_pending e v) = shutdown e. Proof. reflexivity. Qed.
Lemma p_set_pending_killw : forall e v, killw (set_pending e v) = killw e. Proof. reflexivity. Qed.
Lemma p_set_pending_maxw : forall e v, maxw (set_pending e v) = maxw e. Proof. reflexivity. Qed.
Lemma p_set_pending_qcap : forall e v, qcap (set_pending e v) = qcap e. Proof. reflexivity. Qed.
Lemma p_set_pending_procs : forall e v, procs (set_pending e v) = procs e. Proof. reflexivity. Qed.
Lemma p_set_pending_wk : forall e v, wk (set_pending e v) = wk e. Proof. reflexivity. Qed.
Lemma p_set_pending_pidc : forall e v, pidc (set_pending e v) = pidc e. Proof. reflexivity. Qed.
Lemma p_set_pending_futs : forall e v, futs (set_pending e v) = futs e. Proof. reflexivity. Qed.
Lemma p_set_pending_nfut : forall e v, nfut (set_pending e v) = nfut e. Proof. reflexivity. Qed.
Lemma p_set_pending_pending : forall e v, pending (set_pending e v) = v. Proof. reflexivity. Qed.
Lemma p_set_pending_work_ids : forall e v, work_ids (set_pending e v) = work_ids e. Proof. reflexivity. Qed.
Lemma p_set_pending_running : forall e v, running (set_pending e v) = running e. Proof. reflexivity. Qed.
Lemma p_set_pending_callq : forall e v, callq (set_pending e v) = callq e. Proof. reflexivity. Qed.
Lemma p_set_pending_resq : forall e v, resq (set_pending e v) = resq e. Proof. reflexivity. Qed.
Lemma p_set_pending_wakeup : forall e v, wakeup (set_pending e v) = wakeup e. Proof. reflexivity. Qed.
Lemma p_set_pending_mgr : forall e v, mgr (set_pending e v) = mgr e. Proof. reflexivity. Qed.
Lemma p_set_pending_faulted : forall e v, faulted (set_pending e v) = faulted e. Proof. reflexivity. Qed.
Lemma p_set_running_broken : forall e v, broken (set_running e v) = broken e. Proof. reflexivity. Qed.
Lemma p_set_running_shutdown : forall e v, shutdown (set_running e v) = shutdown e. Proof. reflexivity. Qed.
Lemma p_set_running_killw : forall e v, killw (set_running e v) = killw e. Proof. reflexivity. Qed.
Lemma p_set_running_maxw : forall e v, maxw (set_running e v) = maxw e. Proof. reflexivity. Qed.
Lemma p_set_running_qcap : forall e v, qcap (set_running e v) = qcap e. Proof. reflexivity. Qed.
Lemma p_set_running_procs : forall e v, procs (set_running e v) = procs e. Proof. reflexivity. Qed.
Lemma p_set_running_wk : forall e v, wk (set_running e v) = wk e. Proof. reflexivity. Qed.
Lemma p_set_running_pidc : forall e v, pidc (set_running e v) = pidc e. Proof. reflexivity. Qed.
Lemma p_set_running_futs : forall e v, futs (set_running e v) = futs e. Proof. reflexivity. Qed.
Lemma p_set_running_nfut : forall e v, nfut (set_running e v) = nfut e. Proof. reflexivity. Qed.
Lemma p_set_running_pending : forall e v, pending (set_running e v) = pending e. Proof. reflexivity. Qed.
Lemma p_set_running_work_ids : forall e v, work_ids (set_running e v) = work_ids e. Proof. reflexivity. Qed.
Lemma p_set_running_running : forall e v, running (set_running e v) = v. Proof. reflexivity. Qed.
Lemma p_set_running_callq : forall e v, callq (set_running e v) = callq e. Proof. reflexivity. Qed.
Lemma p_set_running_resq : forall e v, resq (set_running e v) = resq e. Proof. reflexivity. Qed.
Lemma p_set_running_wakeup : forall e v, wakeup (set_running e v) = wakeup e. Proof. reflexivity. Qed.
Lemma p_set_running_mgr : forall e v, mgr (set_running e v) = mgr e. Proof. reflexivity. Qed.
Lemma p_set_running_faulted : forall e v, faulted (set_running e v) = faulted e. Proof. reflexivity. Qed.
Lemma p_set_procs_broken : forall e v, broken (set_procs e v) = broken e. Proof. reflexivity. Qed.
Lemma p_set_procs_shutdown : forall e v, shutdown (set_procs e v) = shutdown e. Proof. reflexivity. Qed.
Lemma p_set_procs_killw : forall e v, killw (set_procs e v) = killw e. Proof. reflexivity. Qed.
Lemma p_set_procs_maxw : forall e v, maxw (set_procs e v) = maxw e. Proof. reflexivity. Qed.
Lemma p_set_procs_qcap : forall e v, qcap (set_procs e v) = qcap e. Proof. reflexivity. Qed.
Lemma p_set_procs_procs : forall e v, procs (set_procs e v) = v. Proof. reflexivity. Qed.
Lemma p_set_procs_wk : forall e v, wk (set_procs e v) = wk e. Proof. reflexivity. Qed.
Lemma p_set_procs_pidc : forall e v, pidc (set_procs e v) = pidc e. Proof. reflexivity. Qed.
Lemma p_set_procs_futs : forall e v, futs (set_procs e v) = futs e. Proof. reflexivity. Qed.
Lemma p_set_procs_nfut : forall e v, nfut (set_procs e v) = nfut e. Proof. reflexivity. Qed.
Lemma p_set_procs_pending : forall e v, pending (set_procs e v) = pending e. Proof. reflexivity. Qed.
Lemma p_set_procs_work_ids : forall e v, work_ids (set_procs e v) = work_ids e. Proof. reflexivity. Qed.
Lemma p_set_procs_running : forall e v, running (set_procs e v) = running e. Proof. reflexivity. Qed.
Lemma p_set_procs_callq : forall e v, callq (set_procs e v) = callq e. Proof. reflexivity. Qed.
Lemma p_set_procs_resq : forall e v, resq (set_procs e v) = resq e. Proof. reflexivity. Qed.
Lemma p_set_procs_wakeup : forall e v, wakeup (set_procs e v) = wakeup e. Proof. reflexivity. Qed.
Lemma p_set_procs_mgr : forall e v, mgr (set_procs e v) = mgr e. Proof. reflexivity. Qed.
Lemma p_set_procs_faulted : forall e v, faulted (set_procs e v) = faulted e. Proof. reflexivity. Qed.
Lemma p_set_faulted_broken : forall e v, broken (set_faulted e v) = broken e. Proof. reflexivity. Qed.
Lemma p_set_faulted_shutdown : forall e v, shutdown (set_faulted e v) = shutdown e. Proof. reflexivity. Qed.
Lemma p_set_faulted_killw : forall e v, killw (set_faulted e v) = killw e. Proof. reflexivity. Qed.
Lemma p_set_faulted_maxw : forall e v, maxw (set_faulted e v) = maxw e. Proof. reflexivity. Qed.
Lemma p_set_faulted_qcap : forall e v, qcap (set_faulted e v) = qcap e. Proof. reflexivity. Qed.
Lemma p_set_faulted_procs : forall e v, procs (set_faulted e v) = procs e. Proof. reflexivity. Qed.
Lemma p_set_faulted_wk : forall e v, wk (set_faulted e v) = wk e. Proof. reflexivity. Qed.
Lemma p_set_faulted_pidc : forall e v, pidc (set_faulted e v) = pidc e. Proof. reflexivity. Qed.
Lemma p_set_faulted_futs : forall e v, futs (set_faulted e v) = futs e. Proof. reflexivity. Qed.
Lemma p_set_faulted_nfut : forall e v, nfut (set_faulted e v) = nfut e. Proof. reflexivity. Qed.
Lemma p_set_faulted_pending : forall e v, pending (set_faulted e v) = pending e. Proof. reflexivity. Qed.
Lemma p_set_faulted_work_ids : forall e v, work_ids (set_faulted e v) = work_ids e. Proof. reflexivity. Qed.
Lemma p_set_faulted_running : forall e v, running (set_faulted e v) = running e. Proof. reflexivity. Qed.
Lemma p_set_faulted_callq : forall e v, callq (set_faulted e v) = callq e. Proof. reflexivity. Qed.
Lemma p_set_faulted_resq : forall e v, resq (set_faulted e v) = resq e. Proof. reflexivity. Qed.
Lemma p_set_faulted_wakeup : forall e v, wakeup (set_faulted e v) = wakeup e. Proof. reflexivity. Qed.
Lemma p_set_faulted_mgr : forall e v, mgr (set_faulted e v) = mgr e. Proof. reflexivity. Qed.
Lemma p_set_faulted_faulted : forall e v, faulted (set_faulted e v) = v. Proof. reflexivity. Qed.
Lemma p_set_flags_broken : forall e b s k, broken (set_flags e b s k) = b. Proof. reflexivity. Qed.
Lemma p_set_flags_shutdown : forall e b s k, shutdown (set_flags e b s k) = s. Proof. reflexivity. Qed.
Lemma p_set_flags_killw : forall e b s k, killw (set_flags e b s k) = k. Proof. reflexivity. Qed.
Lemma p_set_flags_maxw : forall e b s k, maxw (set_flags e b s k) = maxw e. Proof. reflexivity. Qed.
Lemma p_set_flags_qcap : forall e b s k, qcap (set_flags e b s k) = qcap e. Proof. reflexivity. Qed.
Lemma p_set_flags_procs : forall e b s k, procs (set_flags e b s k) = procs e. Proof. reflexivity. Qed.
Lemma p_set_flags_wk : forall e b s k, wk (set_flags e b s k) = wk e. Proof. reflexivity. Qed.
Lemma p_set_flags_pidc : forall e b s k, pidc (set_flags e b s k) = pidc e. Proof. reflexivity. Qed.
Lemma p_set_flags_futs : forall e b s k, futs (set_flags e b s k) = futs e. Proof. reflexivity. Qed.
Lemma p_set_flags_nfut : forall e b s k, nfut (set_flags e b s k) = nfut e. Proof. reflexivity. Qed.
Lemma p_set_flags_pending : forall e b s k, pending (set_flags e b s k) = pending e. Proof. reflexivity. Qed.
Lemma p_set_flags_work_ids : forall e b s k, work_ids (set_flags e b s k) = work_ids e. Proof. reflexivity. Qed.
Lemma p_set_flags_running : forall e b s k, running (set_flags e b s k) = running e. Proof. reflexivity. Qed.
Lemma p_set_flags_callq : forall e b s k, callq (set_flags e b s k) = callq e. Proof. reflexivity. Qed.
Lemma p_set_flags_resq : forall e b s k, resq (set_flags e b s k) = resq e. Proof. reflexivity. Qed.
Lemma p_set_flags_wakeup : forall e b s k, wakeup (set_flags e b s k) = wakeup e. Proof. reflexivity. Qed.
Lemma p_set_flags_mgr : forall e b s k, mgr (set_flags e b s k) = mgr e. Proof. reflexivity. Qed.
Lemma p_set_flags_faulted : forall e b s k, faulted (set_flags e b s k) = faulted e. Proof. reflexivity. Qed.
Lemma p_kill_workers_broken : forall e, broken (kill_workers e) = broken e. Proof. reflexivity. Qed.
Lemma p_kill_workers_shutdown : forall e, shutdown (kill_workers e) = shutdown e. Proof. reflexivity. Qed.
Lemma p_kill_workers_killw : forall e, killw (kill_workers e) = killw e. Proof. reflexivity. Qed.
Lemma p_kill_workers_maxw : forall e, maxw (kill_workers e) = maxw e. Proof. reflexivity. Qed.
Lemma p_kill_workers_qcap : forall e, qcap (kill_workers e) = qcap e. Proof. reflexivity. Qed.
Lemma p_kill_workers_procs : forall e, procs (kill_workers e) = []. Proof. reflexivity. Qed.
Lemma p_kill_workers_wk : forall e, wk (kill_workers e) = (fun p => if memb p (procs e) then WDead else wk e p). Proof. reflexivity. Qed.
Lemma p_kill_workers_pidc : forall e, pidc (kill_workers e) = pidc e. Proof. reflexivity. Qed.
Lemma p_kill_workers_futs : forall e, futs (kill_workers e) = futs e. Proof. reflexivity. Qed.
Lemma p_kill_workers_nfut : forall e, nfut (kill_workers e) = nfut e. Proof. reflexivity. Qed.
Lemma p_kill_workers_pending : forall e, pending (kill_workers e) = pending e. Proof. reflexivity. Qed.
Lemma p_kill_workers_work_ids : forall e, work_ids (kill_workers e) = work_ids e. Proof. reflexivity. Qed.
Lemma p_kill_workers_running : forall e, running (kill_workers e) = running e. Proof. reflexivity. Qed.
Lemma p_kill_workers_callq : forall e, callq (kill_workers e) = callq e. Proof. reflexivity. Qed.
Lemma p_kill_workers_resq : forall e, resq (kill_workers e) = resq e. Proof. reflexivity. Qed.
Lemma p_kill_workers_wakeup : forall e, wakeup (kill_workers e) = wakeup e. Proof. reflexivity. Qed.
Lemma p_kill_workers_mgr : forall e, mgr (kill_workers e) = mgr e. Proof. reflexivity. Qed.
Lemma p_kill_workers_faulted : forall e, faulted (kill_workers e) = faulted e. Proof. reflexivity. Qed.
Lemma p_join_broken : forall e, broken (join_executor_internals e) = broken e. Proof. reflexivity. Qed.
Lemma p_join_shutdown : forall e, shutdown (join_executor_internals e) = shutdown e. Proof. reflexivity. Qed.
Lemma p_join_killw : forall e, killw (join_executor_internals e) = killw e. Proof. reflexivity. Qed.
Lemma p_join_maxw : forall e, maxw (join_executor_internals e) = maxw e. Proof. reflexivity. Qed.
Lemma p_join_qcap : forall e, qcap (join_executor_internals e) = qcap e. Proof. reflexivity. Qed.
Lemma p_join_procs : forall e, procs (join_executor_internals e) = []. Proof. reflexivity. Qed.
Lemma p_join_pidc : forall e, pidc (join_executor_internals e) = pidc e. Proof. reflexivity. Qed.
Lemma p_join_futs : forall e, futs (join_executor_internals e) = futs e. Proof. reflexivity. Qed.
Lemma p_join_nfut : forall e, nfut (join_executor_internals e) = nfut e. Proof. reflexivity. Qed.
Lemma p_join_pending : forall e, pending (join_executor_internals e) = pending e. Proof. reflexivity. Qed.
Lemma p_join_work_ids : forall e, work_ids (join_executor_internals e) = work_ids e. Proof. reflexivity. Qed.
Lemma p_join_running : forall e, running (join_executor_internals e) = running e. Proof. reflexivity. Qed.
Lemma p_join_callq : forall e, callq (join_executor_internals e) = []. Proof. reflexivity. Qed.
Lemma p_join_resq : forall e, resq (join_executor_internals e) = resq e. Proof. reflexivity. Qed.
Lemma p_join_wakeup : forall e, wakeup (join_executor_internals e) = false. Proof. reflexivity. Qed.
Lemma p_join_mgr : forall e, mgr (join_executor_internals e) = mgr e. Proof. reflexivity. Qed.
Lemma p_join_faulted : forall e, faulted (join_executor_internals e) = faulted e. Proof. reflexivity. Qed.

#[export] Hint Rewrite p_set_futs_broken p_set_futs_shutdown p_set_futs_killw p_set_futs_maxw p_set_futs_qcap p_set_futs_procs p_set_futs_wk p_set_futs_pidc p_set_futs_futs p_set_futs_nfut p_set_futs_pending p_set_futs_work_ids : proj.
#[export] Hint Rewrite p_set_futs_running p_set_futs_callq p_set_futs_resq p_set_futs_wakeup p_set_futs_mgr p_set_futs_faulted p_set_mgr_broken p_set_mgr_shutdown p_set_mgr_killw p_set_mgr_maxw p_set_mgr_qcap p_set_mgr_procs : proj.
#[export] Hint Rewrite p_set_mgr_wk p_set_mgr_pidc p_set_mgr_futs p_set_mgr_nfut p_set_mgr_pending p_set_mgr_work_ids p_set_mgr_running p_set_mgr_callq p_set_mgr_resq p_set_mgr_wakeup p_set_mgr_mgr p_set_mgr_faulted : proj.
#[export] Hint Rewrite p_set_wk_broken p_set_wk_shutdown p_set_wk_killw p_set_wk_maxw p_set_wk_qcap p_set_wk_procs p_set_wk_wk p_set_wk_pidc p_set_wk_futs p_set_wk_nfut p_set_wk_pending p_set_wk_work_ids : proj.
#[export] Hint Rewrite p_set_wk_running p_set_wk_callq p_set_wk_resq p_set_wk_wakeup p_set_wk_mgr p_set_wk_faulted p_set_resq_broken p_set_resq_shutdown p_set_resq_killw p_set_resq_maxw p_set_resq_qcap p_set_resq_procs : proj.
#[export] Hint Rewrite p_set_resq_wk p_set_resq_pidc p_set_resq_futs p_set_resq_nfut p_set_resq_pending p_set_resq_work_ids p_set_resq_running p_set_resq_callq p_set_resq_resq p_set_resq_wakeup p_set_resq_mgr p_set_resq_faulted : proj.
#[export] Hint Rewrite p_set_wakeup_broken p_set_wakeup_shutdown p_set_wakeup_killw p_set_wakeup_maxw p_set_wakeup_qcap p_set_wakeup_procs p_set_wakeup_wk p_set_wakeup_pidc p_set_wakeup_futs p_set_wakeup_nfut p_set_wakeup_pending p_set_wakeup_work_ids : proj.
#[export] Hint Rewrite p_set_wakeup_running p_set_wakeup_callq p_set_wakeup_resq p_set_wakeup_wakeup p_set_wakeup_mgr p_set_wakeup_faulted p_set_callq_broken p_set_callq_shutdown p_set_callq_killw p_set_callq_maxw p_set_callq_qcap p_set_callq_procs : proj.
#[export] Hint Rewrite p_set_callq_wk p_set_callq_pidc p_set_callq_futs p_set_callq_nfut p_set_callq_pending p_set_callq_work_ids p_set_callq_running p_set_callq_callq p_set_callq_resq p_set_callq_wakeup p_set_callq_mgr p_set_callq_faulted : proj.
#[export] Hint Rewrite p_set_pending_broken p_set_pending_shutdown p_set_pending_killw p_set_pending_maxw p_set_pending_qcap p_set_pending_procs p_set_pending_wk p_set_pending_pidc p_set_pending_futs p_set_pending_nfut p_set_pending_pending p_set_pending_work_ids : proj.
#[export] Hint Rewrite p_set_pending_running p_set_pending_callq p_set_pending_resq p_set_pending_wakeup p_set_pending_mgr p_set_pending_faulted p_set_running_broken p_set_running_shutdown p_set_running_killw p_set_running_maxw p_set_running_qcap p_set_running_procs : proj.
#[export] Hint Rewrite p_set_running_wk p_set_running_pidc p_set_running_futs p_set_running_nfut p_set_running_pending p_set_running_work_ids p_set_running_running p_set_running_callq p_set_running_resq p_set_running_wakeup p_set_running_mgr p_set_running_faulted : proj.
#[export] Hint Rewrite p_set_procs_broken p_set_procs_shutdown p_set_procs_killw p_set_procs_maxw p_set_procs_qcap p_set_procs_procs p_set_procs_wk p_set_procs_pidc p_set_procs_futs p_set_procs_nfut p_set_procs_pending p_set_procs_work_ids : proj.
#[export] Hint Rewrite p_set_procs_running p_set_procs_callq p_set_procs_resq p_set_procs_wakeup p_set_procs_mgr p_set_procs_faulted p_set_faulted_broken p_set_faulted_shutdown p_set_faulted_killw p_set_faulted_maxw p_set_faulted_qcap p_set_faulted_procs : proj.
#[export] Hint Rewrite p_set_faulted_wk p_set_faulted_pidc p_set_faulted_futs p_set_faulted_nfut p_set_faulted_pending p_set_faulted_work_ids p_set_faulted_running p_set_faulted_callq p_set_faulted_resq p_set_faulted_wakeup p_set_faulted_mgr p_set_faulted_faulted : proj.
#[export] Hint Rewrite p_set_flags_broken p_set_flags_shutdown p_set_flags_killw p_set_flags_maxw p_set_flags_qcap p_set_flags_procs p_set_flags_wk p_set_flags_pidc p_set_flags_futs p_set_flags_nfut p_set_flags_pending p_set_flags_work_ids : proj.
#[export] Hint Rewrite p_set_flags_running p_set_flags_callq p_set_flags_resq p_set_flags_wakeup p_set_flags_mgr p_set_flags_faulted p_kill_workers_broken p_kill_workers_shutdown p_kill_workers_killw p_kill_workers_maxw p_kill_workers_qcap p_kill_workers_procs : proj.
#[export] Hint Rewrite p_kill_workers_wk p_kill_workers_pidc p_kill_workers_futs p_kill_workers_nfut p_kill_workers_pending p_kill_workers_work_ids p_kill_workers_running p_kill_workers_callq p_kill_workers_resq p_kill_workers_wakeup p_kill_workers_mgr p_kill_workers_faulted : proj.
#[export] Hint Rewrite p_join_broken p_join_shutdown p_join_killw p_join_maxw p_join_qcap p_join_procs p_join_pidc p_join_futs p_join_nfut p_join_pending p_join_work_ids p_join_running : proj.
#[export] Hint Rewrite p_join_callq p_join_resq p_join_wakeup p_join_mgr p_join_faulted : proj.

Global Opaque set_futs.
Global Opaque set_mgr.
Global Opaque set_wk.
Global Opaque set_resq.
Global Opaque set_wakeup.
Global Opaque set_callq.
Global Opaque set_pending.
Global Opaque set_running.
Global Opaque set_procs.
Global Opaque set_faulted.
Global Opaque set_flags.
Global Opaque kill_workers.
Global Opaque join_executor_internals.
