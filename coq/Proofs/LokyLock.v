(* M10c: the shutdown_lock discipline and the wake-up order as invariants over ALL interleavings. *)
From Coq Require Import ZArith List Bool Arith Lia.
Require Import JV.Model.LokyExec JV.Model.LokyLock JV.Proofs.LokyProj JV.Proofs.LokyExec JV.Proofs.LokyExec2
               JV.Proofs.LokyExec3.
Import ListNotations.

(* ------------------------------------------------------------------ frames *)
Lemma feed_loop_flags : forall n e, broken (feed_loop n e) = broken e /\ killw (feed_loop n e) = killw e /\
  wakeup (feed_loop n e) = wakeup e.
Proof.
  induction n; intros e; cbn [feed_loop]; [auto|].
  destruct (Nat.leb _ _); [auto|]. destruct (work_ids e); [auto|].
  destruct (memb _ _); [|pj; auto].
  match goal with |- context [feed_loop n ?E] => destruct (IHn E) as (A & B & C); rewrite A, B, C end. cbn. auto.
Qed.

Lemma manager_feed_flags : forall e, wf e -> broken (manager_feed e) = broken e /\ shutdown (manager_feed e) = shutdown e.
Proof.
  intros e W. unfold manager_feed. destruct (mgr e) eqn:Hm; auto. unfold add_call_item_to_queue.
  destruct (feed_loop_flags (length (work_ids e)) e) as (A & _).
  destruct (wf_feed_loop (length (work_ids e)) e W Hm) as (_ & _ & S & _).
  destruct (is_crashed _); pj; auto.
Qed.

Lemma worker_frame : forall e ev, is_worker_event ev = true ->
  procs (step e ev) = procs e /\ wakeup (step e ev) = wakeup e /\ mgr (step e ev) = mgr e /\
  broken (step e ev) = broken e /\ shutdown (step e ev) = shutdown e.
Proof.
  intros e ev H. destruct ev; try discriminate; cbn [step].
  - unfold worker_take. destruct (wk e p); auto. destruct (callq e); pj; auto.
  - unfold worker_send. destruct (wk e p); pj; auto.
  - unfold worker_send. destruct (wk e p); pj; auto.
  - unfold worker_send_garbage. destruct (wk e p); pj; auto.
  - unfold worker_bad_args. destruct (wk e p); auto. destruct (callq e); pj; auto.
  - unfold worker_retire. destruct (wk e p); pj; auto.
  - unfold worker_die. destruct (is_proc e p); pj; auto.
  - unfold worker_die_midsend. destruct (wk e p); pj; auto.
Qed.

Lemma shutdown_flag_frame : forall k e, broken (shutdown_flag k e) = broken e /\ procs (shutdown_flag k e) = procs e /\
  mgr (shutdown_flag k e) = mgr e /\ (mgr e = AtWait -> wakeup (shutdown_flag k e) = true).
Proof.
  intros k e. unfold shutdown_flag. destruct (mgr (set_flags e (broken e) true k)) eqn:Hm; pj; repeat split; auto;
    intros H; rewrite H in Hm; discriminate.
Qed.

Lemma wf_register : forall e, wf e -> shutdown e = false -> wf (register e).
Proof.
  intros e [H1 H2 H3 H5] Hs. unfold register. constructor; cbn.
  - intros id Hin. apply in_app_or in Hin. destruct Hin as [Hin|[<-|[]]].
    + destruct (H1 id Hin) as [Hlt Hun]. split; [lia|]. rewrite upd_other by lia. exact Hun.
    + split; [lia|]. rewrite upd_same. reflexivity.
  - intros id Hlt Hun. apply in_or_app. destruct (Nat.eq_dec id (nfut e)) as [->|Hne].
    + right; left; reflexivity.
    + left. rewrite upd_other in Hun by assumption. apply H2; [lia | assumption].
  - rewrite <- (rev_involutive (pending e ++ [nfut e])). apply NoDup_rev.
    rewrite rev_app_distr. cbn. constructor.
    + rewrite <- in_rev. intro Hin. destruct (H1 _ Hin). lia.
    + apply NoDup_rev. assumption.
  - intros Hex. destruct (H5 Hex) as [Hsd _]. congruence.
Qed.

Lemma spawn_start_frame : forall rw e,
  futs (spawn_start rw e) = futs e /\ nfut (spawn_start rw e) = nfut e /\ pending (spawn_start rw e) = pending e /\
  shutdown (spawn_start rw e) = shutdown e /\ broken (spawn_start rw e) = broken e /\
  (mgr (spawn_start rw e) = mgr e \/ (mgr e = NotStarted /\ mgr (spawn_start rw e) = AtFeed)).
Proof.
  intros rw e. unfold spawn_start.
  set (e1 := if Nat.eqb (length (procs e)) (maxw e) then e else _).
  assert (F : futs e1 = futs e /\ nfut e1 = nfut e /\ pending e1 = pending e /\ shutdown e1 = shutdown e /\
              broken e1 = broken e /\ mgr e1 = mgr e).
  { subst e1. destruct (Nat.eqb _ _); [repeat split; reflexivity|]. unfold adjust_process_count.
    destruct (spawn_n_frame (maxw e - length (procs e)) e) as (A & B & C & D & E & F & _).
    destruct rw; pj; repeat split; assumption. }
  destruct F as (A & B & C & D & E & F). clearbody e1.
  destruct (mgr e1) eqn:Hm; pj; rewrite ?A, ?B, ?C, ?D, ?E; repeat split; auto.
  all: try (left; rewrite ?Hm; exact F).
Qed.

Lemma wf_spawn_start : forall rw e, wf e -> wf (spawn_start rw e).
Proof.
  intros rw e [H1 H2 H3 H5]. destruct (spawn_start_frame rw e) as (A & B & C & D & _ & M).
  constructor; rewrite ?A, ?B, ?C, ?D; try assumption.
  intros Hex. apply H5. destruct M as [M|[_ M]]; congruence.
Qed.

Lemma after_wait_flags : forall item e, wf e -> shutdown e = false ->
  broken (after_wait item e) = broken e /\ shutdown (after_wait item e) = false.
Proof.
  intros item e W Hs. unfold after_wait.
  set (e1 := match item with Some m => process_result_item m e | None => e end).
  assert (P : shutdown e1 = shutdown e /\ broken e1 = broken e).
  { subst e1. destruct item as [m|]; [|auto].
    destruct (process_result_item_spec m e W) as (_ & _ & _ & A & B & _). auto. }
  destruct P as [A B]. clearbody e1. rewrite A, Hs. cbn [andb].
  destruct (is_crashed e1); [rewrite A, B; auto|]. pj. rewrite A, B. auto.
Qed.

Lemma after_wait_leaves_wait : forall item e, mgr (after_wait item e) <> AtWait.
Proof.
  intros item e. unfold after_wait.
  set (e1 := match item with Some m => process_result_item m e | None => e end). clearbody e1.
  assert (Cr : forall x, is_crashed x = true -> mgr x <> AtWait).
  { intros x. unfold is_crashed. destruct (mgr x); discriminate. }
  destruct (is_crashed e1) eqn:C1; [apply Cr; assumption|].
  destruct (_ && _)%bool; [|pj; discriminate].
  destruct (is_crashed (flag_executor_shutting_down e1)) eqn:C2; [apply Cr; assumption|].
  destruct (pending _); pj; discriminate.
Qed.

Lemma terminate_broken_leaves_wait : forall b e, mgr (terminate_broken b e) <> AtWait.
Proof.
  intros b e. unfold terminate_broken. pj.
  destruct (fail_ids _ _ _) as [f crashed]. destruct crashed; pj; discriminate.
Qed.

(* ------------------------------------------------------- the lock discipline *)
Record FI (st : fstate) : Prop := {
  fi_wf : wf (ex st);
  fi_mid : caller st <> CIdle -> broken (ex st) = None /\ shutdown (ex st) = false;
  fi_b2 : forall b, mx st = MBreak2 b -> broken (ex st) = Some b
}.

Lemma FI_init : forall mw qc p0, FI (finit mw qc p0).
Proof. intros. constructor; cbn; [apply wf_new | intros H; contradiction | discriminate]. Qed.

Lemma FI_step : forall c st ev, locked c = true -> FI st -> FI (fstep c st ev).
Proof.
  intros c st ev Hl [W Mid B2]. destruct st as [e cp m w]. cbn [ex caller mx LokyLock.watch] in *.
  destruct ev; cbn [fstep ex caller mx LokyLock.watch].
  - (* FCheck *)
    destruct cp; try (constructor; assumption).
    destruct (broken e) eqn:Hb; [constructor; cbn [ex caller mx]; rewrite ?Hb; assumption|].
    destruct (shutdown e) eqn:Hs; constructor; cbn [ex caller mx]; rewrite ?Hb, ?Hs; auto.
  - (* FRegister *)
    destruct cp; try (constructor; assumption).
    destruct Mid as [Hb Hs]; [discriminate|].
    constructor; cbn [ex caller mx].
    + apply wf_register; assumption.
    + intros _. cbn. auto.
    + intros b Hm. cbn. apply B2. exact Hm.
  - (* FSpawnStart *)
    destruct cp; try (constructor; assumption).
    destruct (spawn_start_frame (rewake c) e) as (_ & _ & _ & _ & E & _).
    constructor; cbn [ex caller mx].
    + apply wf_spawn_start. exact W.
    + intros H; contradiction.
    + intros b Hm. rewrite E. apply B2. exact Hm.
  - (* FFeed *)
    destruct m; try (constructor; assumption). destruct (mgr e) eqn:Hm; try (constructor; assumption).
    destruct (manager_feed_flags e W) as [A B].
    constructor; cbn [ex caller mx].
    + apply wf_manager_feed. exact W.
    + intros H. rewrite A, B. apply Mid. exact H.
    + discriminate.
  - (* FWake *)
    unfold fwake. cbn [ex caller mx LokyLock.watch].
    destruct m; try (constructor; assumption). destruct (mgr e) eqn:Hm; try (constructor; assumption).
    assert (Fr : forall r wv, same e (set_wakeup (set_resq e r) wv)) by (intros; unfold same; pj; repeat split; reflexivity).
    assert (AW : forall item r wv, FI (mkF (after_wait item (set_wakeup (set_resq e r) wv)) cp MNormal w)).
    { intros item r wv. pose proof (Fr r wv) as S. pose proof (same_wf _ _ S W) as W0.
      destruct S as (_ & _ & _ & M0 & S0 & B0 & _).
      constructor; cbn [ex caller mx].
      - apply after_wait_spec; [exact W0 | rewrite M0; exact Hm].
      - intros H. destruct (Mid H) as [Hb Hs].
        destruct (after_wait_flags item _ W0) as [A B]; [rewrite S0; exact Hs|]. rewrite A, B0. auto.
      - discriminate. }
    assert (BR : forall r wv b, FI (mkF (set_wakeup (set_resq e r) wv) cp (MBreak1 b) w)).
    { intros r wv b. pose proof (Fr r wv) as S. pose proof (same_wf _ _ S W) as W0.
      destruct S as (_ & _ & _ & _ & S0 & B0 & _).
      constructor; cbn [ex caller mx]; [exact W0 | rewrite S0, B0; exact Mid | discriminate]. }
    destruct (resq e) as [|msg rest] eqn:Hr.
    + destruct (wakeup e) eqn:Hw.
      * assert (E : set_wakeup e false = set_wakeup (set_resq e (resq e)) false).
        { Transparent set_wakeup set_resq. destruct e; reflexivity. Opaque set_wakeup set_resq. }
        rewrite E. apply AW.
      * destruct (dead_in w e); constructor; cbn [ex caller mx]; auto; discriminate.
    + destruct msg; try apply AW; try apply BR.
      constructor; cbn [ex caller mx]; [apply wf_set_mgr; [exact W | discriminate] | pj; exact Mid | discriminate].
  - (* FFlag *)
    destruct m; try (constructor; assumption). rewrite Hl. cbn [negb orb].
    unfold lock_free. cbn [caller]. destruct cp; try (constructor; assumption).
    destruct W as [H1 H2 H3 H5].
    constructor; cbn [ex caller mx].
    + constructor; pj; try assumption. intros Hex. split; [reflexivity | apply H5; exact Hex].
    + intros H; contradiction.
    + intros b0 Hb. inversion Hb; subst. pj. reflexivity.
  - (* FFailAll *)
    destruct m; try (constructor; assumption).
    assert (Hc : cp = CIdle).
    { destruct cp; [reflexivity | |]; destruct Mid as [Hb _]; try discriminate; rewrite (B2 b eq_refl) in Hb; discriminate. }
    subst cp. destruct (terminate_broken_spec b e W) as (W' & _).
    constructor; cbn [ex caller mx]; [exact W' | intros H; contradiction | discriminate].
  - (* FShutdown *)
    unfold lock_free. cbn [caller]. destruct cp; try (constructor; assumption).
    destruct (shutdown_flag_frame k e) as (A & _).
    constructor; cbn [ex caller mx]; [apply shutdown_flag_wf; exact W | intros H; contradiction |].
    intros b Hm. rewrite A. apply B2. exact Hm.
  - (* FWorker *)
    destruct (is_worker_event ev) eqn:Hev; [|constructor; assumption].
    destruct (worker_frame e ev Hev) as (_ & _ & _ & A & B).
    constructor; cbn [ex caller mx]; [apply step_wf; exact W | rewrite A, B; exact Mid | rewrite A; exact B2].
Qed.

Lemma FI_run : forall c evs st, locked c = true -> FI st -> FI (frun c st evs).
Proof.
  intros c evs. induction evs as [|ev t IH]; intros st Hl H; [exact H|]. cbn. apply IH; [exact Hl|]. apply FI_step; assumption.
Qed.

(* with the lock: whatever the interleaving of the two halves of submit with the three steps of
   terminate_broken, an exited manager leaves no unfinished future behind *)
Lemma lock_discipline : forall c evs mw qc p0, locked c = true ->
  let st := frun c (finit mw qc p0) evs in
  mgr (ex st) = Exited -> forall id, id < nfut (ex st) -> finished (futs (ex st) id) = true.
Proof.
  intros c evs mw qc p0 Hl st Hm id Hlt.
  destruct (FI_run c evs (finit mw qc p0) Hl (FI_init mw qc p0)) as [[H1 H2 H3 H5] _ _]. fold st in H1, H2, H3, H5.
  destruct (H5 Hm) as [_ Hp]. destruct (finished (futs (ex st) id)) eqn:Hf; [reflexivity|].
  pose proof (H2 id Hlt Hf) as Hin. rewrite Hp in Hin. destruct Hin.
Qed.

(* without it (seeded defect C10-4): check ; decision ; flag ; fail-all ; register *)
Definition unlocked_trace : list fevent :=
  [FCheck; FRegister; FSpawnStart; FFeed; FWake; FFeed; FWorker (Take 0); FWorker (Die 0);
   FCheck; FWake; FFlag; FFailAll; FRegister; FSpawnStart].

Lemma unlocked_refuted :
  let bad := frun unlocked_flag (finit 2 5 0) unlocked_trace in
  let good := frun the_code (finit 2 5 0) unlocked_trace in
  (mgr (ex bad) = Exited /\ futs (ex bad) 1 = FPending /\ 1 < nfut (ex bad)) /\
  (* the same schedule with the lock: FFlag has to wait, the second submit is registered first and the
     manager is still about to fail everything *)
  (mx good = MBreak1 TerminatedWorkerError /\ pending (ex good) = [0; 1] /\ broken (ex good) = None).
Proof. vm_compute. repeat split; reflexivity || lia. Qed.

(* --------------------------------------------------------- the wake-up order *)
(* every process of the executor is in the sentinel list the manager is blocked on, or a wake-up is pending *)
Definition FW (st : fstate) : Prop :=
  mgr (ex st) = AtWait -> mx st = MNormal ->
  (forall p, In p (procs (ex st)) -> In p (watch st)) \/ wakeup (ex st) = true.

Lemma FW_init : forall mw qc p0, FW (finit mw qc p0).
Proof. intros mw qc p0 H. discriminate. Qed.

Lemma FW_step : forall c st ev, rewake c = true -> FW st -> FW (fstep c st ev).
Proof.
  intros c st ev Hr H. destruct st as [e cp m w]. unfold FW in *. cbn [ex caller mx LokyLock.watch] in *.
  destruct ev; cbn [fstep ex caller mx LokyLock.watch].
  - destruct cp; try exact H. destruct (broken e); [exact H|]. destruct (shutdown e); exact H.
  - destruct cp; try exact H. cbn. intros _ _. right. reflexivity.
  - destruct cp; try exact H. cbn [ex mx LokyLock.watch]. rewrite Hr. unfold spawn_start.
    destruct (Nat.eqb (length (procs e)) (maxw e)).
    + destruct (mgr e) eqn:Hm; pj; try exact H; try (rewrite Hm; exact H); try (intros X; discriminate).
    + set (e2 := set_wakeup (adjust_process_count e) true).
      assert (Wk : wakeup e2 = true) by (subst e2; pj; reflexivity).
      destruct (mgr e2) eqn:Hm; pj; try (intros _ _; right; exact Wk); try (intros X; discriminate).
  - destruct m; try exact H. destruct (mgr e) eqn:Hm; cbn [ex caller mx LokyLock.watch]; rewrite ?Hm; try exact H.
    cbn [ex mx LokyLock.watch]. intros _ _. left. auto.
  - unfold fwake. cbn [ex caller mx LokyLock.watch].
    destruct m; try exact H. destruct (mgr e) eqn:Hm; cbn [ex caller mx LokyLock.watch]; rewrite ?Hm; try exact H.
    destruct (resq e) as [|msg rest].
    + destruct (wakeup e) eqn:Hw.
      * cbn [ex mx]. intros X. exfalso. exact (after_wait_leaves_wait _ _ X).
      * destruct (dead_in w e); cbn [ex mx LokyLock.watch]; [intros _ X; discriminate | rewrite Hm, Hw; exact H].
    + destruct msg; cbn [ex mx LokyLock.watch];
        try (intros X; exfalso; exact (after_wait_leaves_wait _ _ X));
        try (intros _ X; discriminate).
      pj. intros X; discriminate.
  - destruct m; try exact H. destruct (_ || _)%bool; [cbn [mx]; intros _ X; discriminate | exact H].
  - destruct m; try exact H. cbn [ex mx]. intros X. exfalso. exact (terminate_broken_leaves_wait _ _ X).
  - unfold lock_free. cbn [caller]. destruct cp; try exact H. cbn [ex mx LokyLock.watch].
    destruct (shutdown_flag_frame k e) as (_ & P & M & Wk). rewrite M, P. intros Hm _. right. apply Wk. exact Hm.
  - destruct (is_worker_event ev) eqn:Hev; [|exact H]. cbn [ex mx LokyLock.watch].
    destruct (worker_frame e ev Hev) as (P & Wk & M & _). rewrite P, Wk, M. exact H.
Qed.

Lemma FW_run : forall c evs st, rewake c = true -> FW st -> FW (frun c st evs).
Proof.
  intros c evs. induction evs as [|ev t IH]; intros st Hr H; [exact H|]. cbn. apply IH; [exact Hr|]. apply FW_step; assumption.
Qed.

(* consequence (fix F38): in every reachable state, a manager that waits with nothing to read notices a dead
   process of the executor at this very wake-up -- however the submits that (re)spawned the workers were
   interleaved with it *)
Lemma respawn_death_noticed : forall c evs mw qc p0 p, rewake c = true ->
  let st := frun c (finit mw qc p0) evs in
  mgr (ex st) = AtWait -> mx st = MNormal -> resq (ex st) = [] -> wakeup (ex st) = false ->
  In p (procs (ex st)) -> wk (ex st) p = WDead ->
  mx (fstep c st FWake) = MBreak1 TerminatedWorkerError.
Proof.
  intros c evs mw qc p0 p Hr st Hm Hx Hq Hw Hin Hd.
  pose proof (FW_run c evs (finit mw qc p0) Hr (FW_init mw qc p0)) as F. fold st in F.
  destruct (F Hm Hx) as [Sub|Wk]; [|congruence].
  cbn [fstep]. unfold fwake. rewrite Hx, Hm, Hq, Hw.
  assert (D : dead_in (watch st) (ex st) = true).
  { unfold dead_in. apply existsb_exists. exists p. split; [apply Sub; exact Hin | rewrite Hd; reflexivity]. }
  rewrite D. reflexivity.
Qed.

(* before the fix: all workers retire, the next submit wakes the manager up, the manager is back in wait()
   before the workers are spawned; a fresh worker takes the task and dies: nobody notices *)
Definition before_F38_trace : list fevent :=
  [FCheck; FRegister; FSpawnStart; FFeed; FWake; FFeed; FWorker (Take 0); FWorker (Result 0 1); FWake; FFeed;
   FWorker (Retire 0); FWorker (Retire 1); FWake; FFeed; FWake; FFeed;
   FCheck; FRegister; FWake; FFeed; FSpawnStart;
   FWorker (Take 2); FWorker (Die 2)].

Lemma before_F38_refuted :
  let old := frun before_F38 (finit 2 5 0) before_F38_trace in
  let new := frun the_code (finit 2 5 0) before_F38_trace in
  (mgr (ex old) = AtWait /\ mx old = MNormal /\ resq (ex old) = [] /\ wakeup (ex old) = false /\
   In 2 (procs (ex old)) /\ wk (ex old) 2 = WDead /\ futs (ex old) 1 = FRunning /\
   fstep before_F38 old FWake = old) /\                                           (* blocked for ever *)
  (wakeup (ex new) = true /\
   mx (frun the_code new [FWake; FFeed; FWake]) = MBreak1 TerminatedWorkerError).  (* fixed: re-woken, noticed *)
Proof. vm_compute. repeat split; try reflexivity. left; reflexivity. Qed.

(* ------------------------------------------------------------- the two-lock order *)
(* the wrapper only ever blocks an event: every invariant of M10c carries over *)
Lemma gstep_cases : forall cbl c g ev, gstep cbl c g ev = g \/ (exists fev, fst (gstep cbl c g ev) = fstep c (fst g) fev) \/
  fst (gstep cbl c g ev) = fst g.
Proof.
  intros cbl c [st d] ev. destruct ev as [| |fev]; cbn [gstep].
  - destruct (caller st); auto.
  - destruct (caller st); auto.
  - destruct fev; cbn [fst]; try (right; left; eexists; reflexivity).
    + destruct (mgr_holds_S cbl st); [left; reflexivity | right; left; eexists; reflexivity].
    + destruct d; [left; reflexivity | right; left; eexists; reflexivity].
    + destruct (mgr_holds_S cbl st); [left; reflexivity | right; left; eexists; reflexivity].
Qed.

Lemma FI_grun : forall cbl c evs g, locked c = true -> FI (fst g) -> FI (fst (grun cbl c g evs)).
Proof.
  intros cbl c evs. induction evs as [|ev t IH]; intros g Hl H; [exact H|]. cbn [grun fold_left]. apply IH; [exact Hl|].
  destruct (gstep_cases cbl c g ev) as [E|[[fev E]|E]]; rewrite E; [exact H | apply FI_step; assumption | exact H].
Qed.

(* the code (cbl = false): the manager never holds shutdown_lock between two of its steps, so a dispatching caller
   is never kept out of submit by the manager, whatever the manager is doing ... *)
Lemma caller_never_blocked_by_manager : forall c st d,
  gstep false c (st, d) (GF FCheck) = (fstep c st FCheck, d) /\ deadlocked false (st, d) = false.
Proof. intros c st d. unfold deadlocked, mgr_holds_S. cbn. split; [reflexivity | apply andb_false_r || (destruct d; reflexivity)]. Qed.

(* ... and once the caller has left dispatch_one_batch the manager can run the callbacks *)
Lemma manager_runs_callbacks_after_dispatch : forall cbl c st,
  gstep cbl c (st, false) (GF FFailAll) = (fstep c st FFailAll, false).
Proof. reflexivity. Qed.

(* seeded defect C10-14 (cbl = true): the caller dispatches (holds P), a worker dies, the manager decides and flags
   under S and keeps S for the fail-all loop, which needs P: both threads are blocked for ever, future 0 pending *)
Definition deadlock_trace : list gevent :=
  [GDispatchBegin; GF FCheck; GF FRegister; GF FSpawnStart; GF FFeed; GF FWake; GF FFeed;
   GF (FWorker (Take 0)); GF (FWorker (Die 0)); GF FWake; GF FFlag].

Lemma callbacks_under_lock_deadlock :
  let g := grun true the_code (finit 2 5 0, false) deadlock_trace in
  deadlocked true g = true /\ futs (ex (fst g)) 0 = FRunning /\
  gstep true the_code g (GF FCheck) = g /\ gstep true the_code g (GF FFailAll) = g /\
  (* the same schedule with the real lock order: nobody is blocked, the caller's submit raises, the futures get failed *)
  (let h := grun false the_code (finit 2 5 0, false) deadlock_trace in
   deadlocked false h = false /\
   futs (ex (fst (grun false the_code h [GF FCheck; GDispatchEnd; GF FFailAll]))) 0 = FExc (PoolError TerminatedWorkerError)).
Proof. vm_compute. repeat split; reflexivity. Qed.
