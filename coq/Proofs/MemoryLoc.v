(* Proofs about the multi-location product of M4 (Model/MemoryLoc.v): the single-location invariant holds at every
   location along every history; every call through an admissible location returns what the called version's own
   source computes; a fast-path answer at location L implies that func_code.py AT L holds the current source. *)
From Coq Require Import List Bool Arith Lia.
Require Import JV.Base.PyPrelude JV.Model.MemoryCore JV.Model.MemoryLoc JV.Proofs.MemoryCore.
Import ListNotations.

Section LocProofs.
  Context {call key_input digest binding kbinding value src : Type}.
  Variable C : cfg call key_input digest binding kbinding value src.
  Variable sibs : nat -> list nat.
  Hypothesis digest_eqb_spec : forall a b, digest_eqb C a b = true <-> a = b.
  Hypothesis src_eqb_spec : forall a b, src_eqb C a b = true <-> a = b.

  Notation slot := (slot (call:=call) (digest:=digest) (value:=value) (src:=src)).

  (* the invariant of Proofs/MemoryCore.v at one location, as long as the history is admissible there *)
  Definition SInv (s : slot) : Prop := forall m, snd s = Some m -> Inv C (fst s) m.

  Lemma slot_step_inv : forall (s : slot) e, SInv s -> SInv (snd (slot_step C s e)).
  Proof.
    intros [st om] e H m' Hm. unfold slot_step in *. cbn [fst snd] in *.
    destruct (step C st e) as [o st'] eqn:Es. cbn [fst snd] in *.
    destruct om as [m|]; [|discriminate].
    pose proof (Inv_step C digest_eqb_spec src_eqb_spec st m e m' (H m eq_refl) Hm) as I. rewrite Es in I. exact I.
  Qed.

  Lemma slot_apply_inv : forall es (s : slot), SInv s -> SInv (slot_apply C s es).
  Proof.
    induction es as [|e t IH]; intros s H; cbn; [exact H|]. apply IH. apply slot_step_inv. exact H.
  Qed.

  Lemma update_others_inv : forall L es (l : list slot) i, Forall SInv l -> Forall SInv (update_others C L es i l).
  Proof.
    induction l as [|s t IH]; intros i H; cbn; [constructor|]. inversion H; subst. constructor.
    - destruct (Nat.eqb i L); [assumption | apply slot_apply_inv; assumption].
    - apply IH. assumption.
  Qed.

  Lemma set_nth_inv : forall (l : list slot) L x, Forall SInv l -> SInv x -> Forall SInv (set_nth L x l).
  Proof.
    induction l as [|s t IH]; intros L x H Hx; [destruct L; constructor|]. inversion H; subst.
    destruct L; cbn; constructor; auto.
  Qed.

  Lemma nth_error_Forall {A} (P : A -> Prop) : forall l n x, Forall P l -> nth_error l n = Some x -> P x.
  Proof. intros l n x H E. rewrite Forall_forall in H. apply H. eapply nth_error_In. exact E. Qed.

  Theorem mstep_inv : forall (sl : list slot) me, Forall SInv sl -> Forall SInv (snd (mstep C sibs sl me)).
  Proof.
    intros sl [L e|e] H; cbn.
    - destruct (nth_error sl L) as [s|] eqn:En; [|exact H].
      pose proof (slot_step_inv s e (nth_error_Forall _ _ _ _ H En)) as Hs.
      destruct (slot_step C s e) as [o s']. cbn [snd] in *.
      apply update_others_inv. apply set_nth_inv; [assumption|]. apply slot_apply_inv. assumption.
    - rewrite Forall_map. rewrite Forall_forall in *. intros s Hin. apply slot_step_inv. apply H. exact Hin.
  Qed.

  Theorem mrun_inv : forall h (sl : list slot), Forall SInv sl -> Forall SInv (snd (mrun C sibs sl h)).
  Proof.
    induction h as [|me t IH]; intros sl H; cbn; [exact H|].
    pose proof (mstep_inv sl me H) as H1. destruct (mstep C sibs sl me) as [o sl']. cbn [snd] in H1.
    specialize (IH sl' H1). destruct (mrun C sibs sl' t) as [os sl'']. exact IH.
  Qed.

  Lemma minit_inv : forall n, Forall SInv (minit n).
  Proof.
    intros n. unfold minit. apply Forall_forall. intros s Hin. apply repeat_spec in Hin. subst s.
    intros m Hm. cbn in Hm. inversion Hm. subst. apply Inv_init.
  Qed.

  (* the in-memory fast path at a location vouches for THAT location's func_code.py *)
  Lemma fast_path_disk : forall st m k,
    Inv C st m -> usable C m k -> mem_nat k (table st) = true -> disk st = Some (code C k).
  Proof.
    intros st m k I [_ [_ Hc]] Ht. apply mem_nat_In in Ht.
    pose proof (i_table _ _ _ I k Ht) as Hcalled. pose proof (i_named _ _ _ I k Ht) as Hn.
    destruct Hc as [Hc|[Hc|Hc]]; [congruence | contradiction |]. exact (i_cur _ _ _ I _ Hc).
  Qed.

  Theorem fast_path_location : forall h n L st m k,
    nth_error (snd (mrun C sibs (minit n) h)) L = Some (st, Some m) ->
    usable C m k -> mem_nat k (table st) = true ->
    check_code C st k = Some (true, st) /\ disk st = Some (code C k).
  Proof.
    intros h n L st m k En U Ht.
    pose proof (nth_error_Forall _ _ _ _ (mrun_inv h _ (minit_inv n)) En) as H.
    split; [unfold check_code; rewrite Ht; reflexivity|].
    exact (fast_path_disk st m k (H m eq_refl) U Ht).
  Qed.

  (* every call through the wrapper of an admissible location returns what the called version's source computes *)
  Definition step_sound (sl : list slot) (me : mevent (call:=call) (digest:=digest)) : Prop :=
    match me with
    | At L (Call k c vld) =>
        forall st m m' v b, nth_error sl L = Some (st, Some m) -> adm_step C m (Call k c vld) = Some m' ->
          (fst (mstep C sibs sl me) = OHit v \/ fst (mstep C sibs sl me) = OMiss v) ->
          bind_spec C c = Some b -> v = f C (code C k) b
    | _ => True
    end.

  Fixpoint msound (sl : list slot) (h : list (mevent (call:=call) (digest:=digest))) : Prop :=
    match h with
    | [] => True
    | me :: t => step_sound sl me /\ msound (snd (mstep C sibs sl me)) t
    end.

  Theorem mrun_sound : key_sound C -> f_respects C -> forall h (sl : list slot), Forall SInv sl -> msound sl h.
  Proof.
    intros KS FR. induction h as [|me t IH]; intros sl H; cbn [msound]; [exact I|]. split.
    - destruct me as [L e|e]; [|exact I]. destruct e; try exact I. cbn [step_sound].
      intros st m m' v b En Ha Ho Hb. cbn in Ho. rewrite En in Ho. unfold slot_step in Ho. cbn [fst snd] in Ho.
      pose proof (nth_error_Forall _ _ _ _ H En m eq_refl) as Iv. cbn [fst] in Iv.
      pose proof (step_call_sound C digest_eqb_spec src_eqb_spec st m (Call k c vld) m' Iv Ha KS FR) as S.
      destruct (step C st (Call k c vld)) as [o st'] eqn:Es. cbn [fst snd] in *.
      unfold call_sound in S. destruct Ho as [Ho|Ho]; subst o; apply S; exact Hb.
    - apply IH. apply mstep_inv. exact H.
  Qed.

End LocProofs.
