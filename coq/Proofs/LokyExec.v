(* Invariants of the executor-level model M10b and the executor-level halves of C10. *)
From Coq Require Import ZArith List Bool Arith Lia.
Require Import JV.Model.LokyExec JV.Proofs.LokyProj.
Import ListNotations.

Ltac pj := repeat (autorewrite with proj in * ).

(* ------------------------------------------------------------------ helpers *)
Lemma memb_In : forall x l, memb x l = true <-> In x l.
Proof.
  unfold memb. intros x l. rewrite existsb_exists. split.
  - intros [y [Hy He]]. apply Nat.eqb_eq in He. subst. assumption.
  - intros H. exists x. split; [assumption | apply Nat.eqb_refl].
Qed.

Lemma upd_same : forall A (f : nat -> A) i v, upd f i v i = v.
Proof. intros. unfold upd. rewrite Nat.eqb_refl. reflexivity. Qed.

Lemma upd_other : forall A (f : nat -> A) i j v, j <> i -> upd f i v j = f j.
Proof. intros. unfold upd. destruct (Nat.eqb_spec j i); [contradiction | reflexivity]. Qed.

Lemma popkey_In : forall x y l, In y (popkey x l) <-> In y l /\ y <> x.
Proof.
  intros. unfold popkey. rewrite filter_In. rewrite negb_true_iff, Nat.eqb_neq. tauto.
Qed.

Lemma popkey_NoDup : forall x l, NoDup l -> NoDup (popkey x l).
Proof. intros. unfold popkey. apply NoDup_filter. assumption. Qed.

(* fail_ids on distinct unfinished futures: never InvalidStateError, fails exactly those *)
Lemma fail_ids_ok : forall x ids f, NoDup ids -> (forall id, In id ids -> finished (f id) = false) ->
  exists f', fail_ids x ids f = (f', false) /\
             (forall id, In id ids -> f' id = FExc x) /\ (forall id, ~ In id ids -> f' id = f id).
Proof.
  intros x ids. induction ids as [|a t IH]; intros f Hnd Hun.
  - exists f. cbn. split; [reflexivity | split; [intros ? [] | reflexivity]].
  - inversion Hnd as [|? ? Hna Hnt]; subst. cbn [fail_ids].
    rewrite (Hun a (or_introl eq_refl)).
    destruct (IH (upd f a (FExc x)) Hnt) as [f' [He [Hin Hout]]].
    + intros id Hid. rewrite upd_other; [apply Hun; right; assumption | intro; subst; contradiction].
    + exists f'. split; [exact He | split].
      * intros id [->|Hid]; [rewrite Hout by assumption; apply upd_same | apply Hin; assumption].
      * intros id Hn. rewrite Hout by (intro; apply Hn; right; assumption).
        apply upd_other. intro; subst; apply Hn; left; reflexivity.
Qed.

(* -------------------------------------------------------- well-formedness *)
Record wf (e : exec) : Prop := {
  wf_pend : forall id, In id (pending e) -> id < nfut e /\ finished (futs e id) = false;
  wf_cover : forall id, id < nfut e -> finished (futs e id) = false -> In id (pending e);
  wf_nodup : NoDup (pending e);
  wf_exit : mgr e = Exited -> shutdown e = true /\ pending e = []
}.

Lemma wf_new : forall mw qc p0, wf (new_exec mw qc p0).
Proof.
  intros. constructor; cbn.
  - intros id [].
  - intros id Hlt. lia.
  - constructor.
  - discriminate.
Qed.

(* functions that leave futs/nfut/pending/mgr/shutdown untouched preserve wf *)
Lemma wf_frame : forall e e', wf e -> futs e' = futs e -> nfut e' = nfut e -> pending e' = pending e ->
  mgr e' = mgr e -> shutdown e' = shutdown e -> wf e'.
Proof.
  intros e e' [H1 H2 H3 H5] Hf Hn Hp Hm Hs. constructor; rewrite ?Hf, ?Hn, ?Hp, ?Hm, ?Hs; assumption.
Qed.

Lemma spawn_n_frame : forall n e, futs (spawn_n n e) = futs e /\ nfut (spawn_n n e) = nfut e /\
  pending (spawn_n n e) = pending e /\ mgr (spawn_n n e) = mgr e /\ shutdown (spawn_n n e) = shutdown e /\
  broken (spawn_n n e) = broken e /\ resq (spawn_n n e) = resq e /\ wakeup (spawn_n n e) = wakeup e /\
  faulted (spawn_n n e) = faulted e /\ running (spawn_n n e) = running e /\ killw (spawn_n n e) = killw e.
Proof.
  induction n; intros e; cbn [spawn_n]; [repeat split; reflexivity|].
  destruct (IHn (spawn1 e)) as (A & B & C & D & E & F & G & H & I & J & K).
  rewrite A, B, C, D, E, F, G, H, I, J, K. cbn. repeat split; reflexivity.
Qed.

Lemma wf_adjust : forall e, wf e -> wf (adjust_process_count e).
Proof.
  intros e H. unfold adjust_process_count.
  destruct (spawn_n_frame (maxw e - length (procs e)) e) as (A & B & C & D & E & _).
  eapply wf_frame; eauto.
Qed.

Lemma wf_submit : forall e, wf e -> wf (fst (submit e)).
Proof.
  intros e H. unfold submit. destruct (broken e) eqn:Hb; [exact H|].
  destruct (shutdown e) eqn:Hs; [exact H|]. cbn [fst].
  set (e1 := mkExec _ _ _ _ _ _ _ _ _ _ _ _ _ _ _ _ _ _).
  assert (W1 : wf e1).
  { destruct H as [H1 H2 H3 H5]. subst e1. constructor; cbn.
    - intros id Hin. apply in_app_or in Hin. destruct Hin as [Hin|[<-|[]]].
      + destruct (H1 id Hin) as [Hlt Hun]. split; [lia|]. rewrite upd_other by lia. exact Hun.
      + split; [lia|]. rewrite upd_same. reflexivity.
    - intros id Hlt Hun. apply in_or_app. destruct (Nat.eq_dec id (nfut e)) as [->|Hne].
      + right; left; reflexivity.
      + left. rewrite upd_other in Hun by assumption. apply H2; [lia | assumption].
    - apply NoDup_app_remove_l with (l := []) || idtac.
      rewrite <- (rev_involutive (pending e ++ [nfut e])). apply NoDup_rev.
      rewrite rev_app_distr. cbn. constructor.
      + rewrite <- in_rev. intro Hin. destruct (H1 _ Hin). lia.
      + apply NoDup_rev. assumption.
    - intros Hex. destruct (H5 Hex) as [Hsd _]. congruence. }
  unfold ensure_running.
  set (e2 := if Nat.eqb (length (procs e1)) (maxw e1) then e1 else adjust_process_count e1).
  assert (W2 : wf e2) by (subst e2; destruct (Nat.eqb _ _); [exact W1 | apply wf_adjust; exact W1]).
  assert (Hsd : shutdown e2 = false).
  { subst e2. destruct (Nat.eqb _ _); [reflexivity|]. unfold adjust_process_count.
    destruct (spawn_n_frame (maxw e1 - length (procs e1)) e1) as (_ & _ & _ & _ & E & _). rewrite E. reflexivity. }
  destruct (mgr e2) eqn:Hm; try exact W2.
  destruct W2 as [H1 H2 H3 H5]. constructor; pj; try assumption; discriminate.
Qed.

(* ------------------------------------------------------------- manager thread *)
Lemma wf_set_mgr : forall e m, wf e -> (m = Exited -> shutdown e = true /\ pending e = []) -> wf (set_mgr e m).
Proof. intros e m [H1 H2 H3 H5] Hm. constructor; pj; assumption. Qed.

Lemma wf_feed_loop : forall n e, wf e -> mgr e = AtFeed ->
  wf (feed_loop n e) /\ (mgr (feed_loop n e) = AtFeed \/ mgr (feed_loop n e) = Crashed) /\
  shutdown (feed_loop n e) = shutdown e /\ pending (feed_loop n e) = pending e /\ nfut (feed_loop n e) = nfut e /\
  (forall id, finished (futs e id) = true -> futs (feed_loop n e) id = futs e id) /\
  (forall id, finished (futs (feed_loop n e) id) = finished (futs e id)).
Proof.
  assert (triv : forall e, wf e -> mgr e = AtFeed ->
    wf e /\ (mgr e = AtFeed \/ mgr e = Crashed) /\ shutdown e = shutdown e /\ pending e = pending e /\ nfut e = nfut e /\
    (forall id, finished (futs e id) = true -> futs e id = futs e id) /\
    (forall id, finished (futs e id) = finished (futs e id))).
  { intros e W Hm. split; [exact W|]. split; [left; exact Hm|]. repeat split; reflexivity. }
  induction n; intros e W Hm; cbn [feed_loop].
  - apply triv; assumption.
  - destruct (Nat.leb (qcap e) (length (callq e))); [apply triv; assumption|].
    destruct (work_ids e) as [|id rest] eqn:Hw; [apply triv; assumption|].
    destruct (memb id (pending e)) eqn:Hmem.
    + apply memb_In in Hmem. destruct W as [H1 H2 H3 H5].
      destruct (H1 id Hmem) as [Hlt Hun].
      match goal with |- context [feed_loop n ?E] => set (e1 := E) end.
      assert (W1 : wf e1).
      { subst e1. constructor; cbn.
        - intros i Hi. destruct (H1 i Hi) as [A B]. split; [assumption|].
          destruct (Nat.eq_dec i id) as [->|Hne]; [rewrite upd_same; reflexivity | rewrite upd_other by assumption; assumption].
        - intros i Hi Hu. destruct (Nat.eq_dec i id) as [->|Hne]; [assumption|].
          rewrite upd_other in Hu by assumption. apply H2; assumption.
        - assumption.
        - rewrite Hm. discriminate. }
      destruct (IHn e1 W1) as (A & B & C & D & E & F & G); [subst e1; cbn; assumption|].
      split; [exact A|]. split; [exact B|]. split; [rewrite C; reflexivity|]. split; [rewrite D; reflexivity|].
      split; [rewrite E; reflexivity|]. split.
      * intros i Hi. rewrite F.
        -- subst e1; cbn. apply upd_other. intro; subst. congruence.
        -- subst e1; cbn. rewrite upd_other; [assumption | intro; subst; congruence].
      * intros i. rewrite G. subst e1; cbn. destruct (Nat.eq_dec i id) as [->|Hne];
          [rewrite upd_same; rewrite Hun; reflexivity | rewrite upd_other by assumption; reflexivity].
    + split; [apply wf_set_mgr; [assumption | discriminate]|]. pj. split; [right; reflexivity|].
      repeat split; reflexivity.
Qed.

Lemma wf_manager_feed : forall e, wf e -> wf (manager_feed e).
Proof.
  intros e W. unfold manager_feed. destruct (mgr e) eqn:Hm; try exact W.
  unfold add_call_item_to_queue.
  destruct (wf_feed_loop (length (work_ids e)) e W Hm) as (A & B & _).
  destruct (is_crashed _); [exact A | apply wf_set_mgr; [exact A | discriminate]].
Qed.

Lemma kill_workers_frame : forall e, futs (kill_workers e) = futs e /\ nfut (kill_workers e) = nfut e /\
  pending (kill_workers e) = pending e /\ mgr (kill_workers e) = mgr e /\ shutdown (kill_workers e) = shutdown e /\
  broken (kill_workers e) = broken e.
Proof. intros. pj. repeat split; reflexivity. Qed.

Lemma join_frame : forall e, futs (join_executor_internals e) = futs e /\ nfut (join_executor_internals e) = nfut e /\
  pending (join_executor_internals e) = pending e /\ mgr (join_executor_internals e) = mgr e /\
  shutdown (join_executor_internals e) = shutdown e /\ broken (join_executor_internals e) = broken e.
Proof. intros. pj. repeat split; reflexivity. Qed.

(* terminate_broken on a well-formed state: never InvalidStateError; flags broken, fails exactly the
   unfinished futures, leaves the finished ones, exits *)
Lemma terminate_broken_spec : forall b e, wf e ->
  let e' := terminate_broken b e in
  wf e' /\ mgr e' = Exited /\ broken e' = Some b /\ shutdown e' = true /\ pending e' = [] /\ procs e' = [] /\
  nfut e' = nfut e /\
  (forall id, id < nfut e -> finished (futs e id) = false -> futs e' id = FExc (PoolError b)) /\
  (forall id, finished (futs e id) = true -> futs e' id = futs e id) /\
  (forall id, nfut e <= id -> futs e' id = futs e id).
Proof.
  intros b e W. destruct W as [H1 H2 H3 H5]. cbn zeta. unfold terminate_broken.
  destruct (fail_ids_ok (PoolError b) (pending e) (futs e) H3) as [f' [He [Hin Hout]]].
  { intros id Hid. apply H1. assumption. }
  pj. rewrite He. cbn iota beta.
  match goal with |- context [wf ?X] => set (e' := X) end.
  assert (Em : mgr e' = Exited) by (subst e'; pj; reflexivity).
  assert (Eb : broken e' = Some b) by (subst e'; pj; reflexivity).
  assert (Es : shutdown e' = true) by (subst e'; pj; reflexivity).
  assert (Ep : pending e' = []) by (subst e'; pj; reflexivity).
  assert (Epr : procs e' = []) by (subst e'; pj; reflexivity).
  assert (En : nfut e' = nfut e) by (subst e'; pj; reflexivity).
  assert (Ef : futs e' = f') by (subst e'; pj; reflexivity).
  clearbody e'.
  assert (Hfin : forall id, finished (futs e id) = true -> ~ In id (pending e)).
  { intros id Hf Hi. destruct (H1 id Hi). congruence. }
  split.
  { constructor.
    - rewrite Ep. intros id [].
    - intros id Hlt Hun. rewrite En in Hlt. rewrite Ef in Hun. rewrite Ep.
      destruct (in_dec Nat.eq_dec id (pending e)) as [Hi|Hn].
      + rewrite (Hin id Hi) in Hun. discriminate.
      + rewrite (Hout id Hn) in Hun. exfalso. apply Hn. apply H2; assumption.
    - rewrite Ep. constructor.
    - intros _. split; assumption. }
  rewrite Ef. repeat split; try assumption.
  - intros id Hlt Hun. apply Hin. apply H2; assumption.
  - intros id Hf. apply Hout. apply Hfin. assumption.
  - intros id Hge. apply Hout. intro Hi. destruct (H1 id Hi). lia.
Qed.

(* finished futures never change; ids are never recycled *)
Definition ext (e e' : exec) : Prop :=
  nfut e <= nfut e' /\ forall id, id < nfut e -> finished (futs e id) = true -> futs e' id = futs e id.

Lemma ext_refl : forall e, ext e e.
Proof. intros. split; [lia | reflexivity]. Qed.

Lemma ext_trans : forall a b c, ext a b -> ext b c -> ext a c.
Proof.
  intros a b c [H1 H2] [H3 H4]. split; [lia|]. intros id Hlt Hf. rewrite H4; [apply H2; assumption|lia|].
  rewrite H2; assumption.
Qed.

Lemma ext_frame : forall e e', futs e' = futs e -> nfut e' = nfut e -> ext e e'.
Proof. intros e e' Hf Hn. split; [lia | intros; rewrite Hf; reflexivity]. Qed.

Ltac unf := unfold join_executor_internals, kill_workers, set_mgr, set_pending, set_futs, set_flags, set_wakeup,
  set_callq, set_procs, set_wk, set_resq, set_running, set_faulted in *.


Lemma flag_shutting_down_spec : forall e, wf e -> mgr e <> Exited ->
  let e' := flag_executor_shutting_down e in
  wf e' /\ ext e e' /\ mgr e' = mgr e /\ shutdown e' = true /\ broken e' = broken e /\
  (killw e = true -> pending e' = []) /\ (killw e = false -> pending e' = pending e).
Proof.
  intros e W Hne. destruct W as [H1 H2 H3 H5]. cbn zeta. unfold flag_executor_shutting_down.
  pj. destruct (killw e) eqn:Hk.
  - destruct (fail_ids_ok ShutdownExecutorError (rev (pending e)) (futs e)) as [f' [He [Hin Hout]]].
    { apply NoDup_rev. assumption. }
    { intros id Hid. apply in_rev in Hid. apply H1. assumption. }
    rewrite He. cbn iota beta.
    match goal with |- context [wf ?X] => set (e' := X) end.
    assert (Em : mgr e' = mgr e) by (subst e'; pj; reflexivity).
    assert (Eb : broken e' = broken e) by (subst e'; pj; reflexivity).
    assert (Es : shutdown e' = true) by (subst e'; pj; reflexivity).
    assert (Ep : pending e' = []) by (subst e'; pj; reflexivity).
    assert (En : nfut e' = nfut e) by (subst e'; pj; reflexivity).
    assert (Ef : futs e' = f') by (subst e'; pj; reflexivity).
    clearbody e'. split.
    { constructor.
      - rewrite Ep. intros id [].
      - intros id Hlt Hun. rewrite En in Hlt. rewrite Ef in Hun. rewrite Ep.
        destruct (in_dec Nat.eq_dec id (pending e)) as [Hi|Hn].
        + rewrite (Hin id) in Hun by (rewrite <- in_rev; assumption). discriminate.
        + rewrite (Hout id) in Hun by (rewrite <- in_rev; assumption). exfalso. apply Hn. apply H2; assumption.
      - rewrite Ep. constructor.
      - rewrite Em. intros Hex. contradiction. }
    split.
    { split; [lia|]. rewrite Ef. intros id _ Hf. apply Hout. rewrite <- in_rev. intro Hi.
      destruct (H1 id Hi). congruence. }
    repeat split; try assumption; intros; first [assumption | discriminate].
  - match goal with |- context [wf ?X] => set (e' := X) end.
    assert (Em : mgr e' = mgr e) by (subst e'; pj; reflexivity).
    assert (Eb : broken e' = broken e) by (subst e'; pj; reflexivity).
    assert (Es : shutdown e' = true) by (subst e'; pj; reflexivity).
    assert (Ep : pending e' = pending e) by (subst e'; pj; reflexivity).
    assert (En : nfut e' = nfut e) by (subst e'; pj; reflexivity).
    assert (Ef : futs e' = futs e) by (subst e'; pj; reflexivity).
    clearbody e'. split.
    { constructor; rewrite ?Ep, ?En, ?Ef, ?Em; try assumption. intros Hex; contradiction. }
    split; [apply ext_frame; assumption|]. repeat split; try assumption; intros; first [assumption | discriminate].
Qed.

Lemma set_result_wf : forall e id v, wf e -> In id (pending e) -> finished v = true ->
  let e' := set_running (set_pending (set_futs e (upd (futs e) id v)) (popkey id (pending e))) (remove1 id (running e)) in
  wf e' /\ ext e e' /\ mgr e' = mgr e /\ shutdown e' = shutdown e /\ broken e' = broken e /\ killw e' = killw e.
Proof.
  intros e id v [H1 H2 H3 H5] Hin Hv. cbn zeta.
  match goal with |- context [wf ?X] => set (e' := X) end.
  assert (Em : mgr e' = mgr e) by (subst e'; pj; reflexivity).
  assert (Eb : broken e' = broken e) by (subst e'; pj; reflexivity).
  assert (Es : shutdown e' = shutdown e) by (subst e'; pj; reflexivity).
  assert (Ek : killw e' = killw e) by (subst e'; pj; reflexivity).
  assert (Ep : pending e' = popkey id (pending e)) by (subst e'; pj; reflexivity).
  assert (En : nfut e' = nfut e) by (subst e'; pj; reflexivity).
  assert (Ef : futs e' = upd (futs e) id v) by (subst e'; pj; reflexivity).
  clearbody e'. destruct (H1 id Hin) as [Hlt Hun].
  split; [|split; [|repeat split; assumption]].
  - constructor; rewrite ?Ep, ?En, ?Ef, ?Em, ?Es.
    + intros i Hi. apply popkey_In in Hi. destruct Hi as [Hi Hne]. rewrite upd_other by assumption. apply H1; assumption.
    + intros i Hi Hu. apply popkey_In. destruct (Nat.eq_dec i id) as [->|Hne].
      * rewrite upd_same in Hu. congruence.
      * rewrite upd_other in Hu by assumption. split; [apply H2; assumption | assumption].
    + apply popkey_NoDup. assumption.
    + intros Hex. destruct (H5 Hex) as [A B]. rewrite B in Hin. destruct Hin.
  - split; [lia|]. rewrite Ef. intros i _ Hf. apply upd_other. intro; subst. congruence.
Qed.

Lemma process_result_item_spec : forall m e, wf e ->
  let e' := process_result_item m e in
  wf e' /\ ext e e' /\ mgr e' = mgr e /\ shutdown e' = shutdown e /\ broken e' = broken e /\ killw e' = killw e.
Proof.
  intros m e W. cbn zeta.
  assert (triv : wf e /\ ext e e /\ mgr e = mgr e /\ shutdown e = shutdown e /\ broken e = broken e /\ killw e = killw e).
  { split; [exact W|]. split; [apply ext_refl|]. repeat split; reflexivity. }
  destruct m as [id r|id c|p| | |]; cbn [process_result_item]; try exact triv.
  - destruct (memb id (pending e)) eqn:Hm; [|exact triv]. apply memb_In in Hm.
    destruct W as [H1 H2 H3 H5]. destruct (H1 id Hm) as [_ Hun]. rewrite Hun.
    apply set_result_wf; [constructor; assumption | assumption | reflexivity].
  - destruct (memb id (pending e)) eqn:Hm; [|exact triv]. apply memb_In in Hm.
    destruct W as [H1 H2 H3 H5]. destruct (H1 id Hm) as [_ Hun]. rewrite Hun.
    apply set_result_wf; [constructor; assumption | assumption | reflexivity].
  - set (e1 := if memb p (procs e) then _ else e).
    assert (F1 : futs e1 = futs e /\ nfut e1 = nfut e /\ pending e1 = pending e /\ mgr e1 = mgr e /\
                 shutdown e1 = shutdown e /\ broken e1 = broken e /\ killw e1 = killw e).
    { subst e1. destruct (memb p (procs e)); pj; repeat split; reflexivity. }
    destruct F1 as (A & B & C & D & E & F & G).
    assert (F2 : forall e2, e2 = e1 \/ e2 = adjust_process_count e1 ->
       futs e2 = futs e /\ nfut e2 = nfut e /\ pending e2 = pending e /\ mgr e2 = mgr e /\
       shutdown e2 = shutdown e /\ broken e2 = broken e /\ killw e2 = killw e).
    { intros e2 [->| ->]; [repeat split; assumption|]. unfold adjust_process_count.
      destruct (spawn_n_frame (maxw e1 - length (procs e1)) e1) as (A' & B' & C' & D' & E' & F' & _ & _ & _ & _ & G').
      rewrite A', B', C', D', E', F', G'. repeat split; assumption. }
    match goal with |- context [wf ?X] => destruct (F2 X) as (A2 & B2 & C2 & D2 & E2 & F3 & G2) end.
    { destruct (_ || _)%bool; [destruct (Nat.ltb _ _)|]; auto. }
    split; [eapply wf_frame; eauto|]. split; [apply ext_frame; assumption|]. repeat split; assumption.
Qed.
