(* Composition of M2 and M3, part 4: key_sound PROVED for the fragment instance of M4 -- equal digests force
   equal bindings outside the ignore list -- with md5 collision-freeness as the only hypothesis about the hash,
   and the bridge hypotheses about the value universe. *)
From Coq Require Import ZArith List Bool Lia.
Require Import JV.Base.PyPrelude JV.Model.MemoryCore JV.Model.MemoryKey JV.Proofs.MemoryCore JV.Proofs.MemoryKey.
Require JV.Model.FilterArgs JV.Model.HashEnc JV.Proofs.FilterArgsCanon JV.Proofs.HashEncDefs JV.Proofs.HashEncInj
        JV.Proofs.MemoryKeyBridge JV.Proofs.MemoryKeyCanon.
Import ListNotations.

Module HD := JV.Proofs.HashEncDefs.
Module HI := JV.Proofs.HashEncInj.
Module KB := JV.Proofs.MemoryKeyBridge.
Module KC := JV.Proofs.MemoryKeyCanon.
Module PFC := JV.Proofs.FilterArgsCanon.

Section KeySound.
  Variable md5 : list Z -> list Z.
  Variable vmap : Z -> HE.value.
  Variable nmap : Z -> list Z.
  Context {uvalue usrc : Type}.
  Variable usrc_eqb : usrc -> usrc -> bool.
  Variable ucode : nat -> usrc.
  Variable upath : nat -> nat.
  Variable unamed : nat -> bool.
  Variable uf : usrc -> FA.binding -> uvalue.

  (* the only hypothesis about the hash function: no collision (on the streams that occur) *)
  Hypothesis md5_collision_free : forall a b, md5 a = md5 b -> a = b.
  (* the value bridge is faithful (see Proofs/MemoryKeyBridge.v) *)
  Hypothesis nmap_inj : forall a b, nmap a = nmap b -> a = b.
  Hypothesis vmap_inj : forall a b, HD.veq (vmap a) (vmap b) -> a = b.
  Hypothesis vmap_good : forall a, HD.good (vmap a).

  Variable s : FA.sig.
  Variable ign : list FA.key.
  (* the canonical dicts of the calls Python binds lie in C08's injective sub-universe: dict keys / set elements
     plain and totally ordered, every length / int / memo index fits its protocol field *)
  Hypothesis trees_ok : forall c b, FA.wf_callb c = true -> FA.py_bind s c = Some b ->
    HD.good (dict_tree vmap nmap (restrict_binding s ign b)) /\
    HI.fits md5 (dict_tree vmap nmap (restrict_binding s ign b)).

  Notation Cfg := (key_cfg md5 vmap nmap usrc_eqb ucode upath unamed uf s ign).

  Theorem key_sound_fragment :
    FA.wf_sig s -> FA.sig_in_fragment s = true -> ign_ok s ign -> key_sound Cfg.
  Proof.
    intros Hwf Hfr Hok c1 c2 k1 k2 b1 b2 H1 H2 Hd Hb1 Hb2.
    rewrite (canonicalise_is_restrict md5 vmap nmap usrc_eqb ucode upath unamed uf s ign c1 b1 Hwf Hfr Hok Hb1) in H1.
    rewrite (canonicalise_is_restrict md5 vmap nmap usrc_eqb ucode upath unamed uf s ign c2 b2 Hwf Hfr Hok Hb2) in H2.
    inversion H1. inversion H2. subst k1 k2. clear H1 H2.
    cbn in Hb1, Hb2, Hd |- *.
    destruct (FA.wf_callb c1) eqn:W1; [|discriminate]. destruct (FA.wf_callb c2) eqn:W2; [|discriminate].
    destruct (trees_ok c1 b1 W1 Hb1) as [G1 F1]. destruct (trees_ok c2 b2 W2 Hb2) as [G2 F2].
    pose proof (PFC.py_bind_typed s c1 b1 Hb1) as T1. pose proof (PFC.py_bind_typed s c2 b2 Hb2) as T2.
    unfold digest_of_dict, stream_of in Hd.
    destruct (HE.enc_top md5 (dict_tree vmap nmap (restrict_binding s ign b1))) as [s1|] eqn:E1;
      [|exfalso; exact (HI.enc_top_total md5 _ G1 E1)].
    destruct (HE.enc_top md5 (dict_tree vmap nmap (restrict_binding s ign b2))) as [s2|] eqn:E2;
      [|exfalso; exact (HI.enc_top_total md5 _ G2 E2)].
    injection Hd as Hd. apply md5_collision_free in Hd. subst s2.
    apply (KB.stream_inj md5 vmap nmap nmap_inj vmap_inj vmap_good _ _ s1); auto.
    - unfold restrict_binding. apply KC.Forall_filter. apply KC.canon_shaped. exact T1.
    - unfold restrict_binding. apply KC.Forall_filter. apply KC.canon_shaped. exact T2.
    - unfold restrict_binding.
      rewrite !(KC.map_fst_filter (fun k => negb (FA.key_mem k ign))).
      rewrite (KC.canon_keys_spec s b1 T1), (KC.canon_keys_spec s b2 T2). reflexivity.
  Qed.

End KeySound.

(* ------------------------------------------------------------------ the hypotheses are satisfiable *)
(* integers as argument values, names spelled by their own number, a function without parameters *)
Definition int_of (v : HE.value) : option Z := match v with HE.VInt z => Some z | _ => None end.

Lemma veq_int_of : forall a b, HD.veq a b -> int_of a = int_of b.
Proof.
  apply (HD.veq_ind' (fun a b => int_of a = int_of b)); intros; try reflexivity; congruence.
Qed.

Lemma vint_inj : forall a b, HD.veq (HE.VInt a) (HE.VInt b) -> a = b.
Proof. intros a b H. apply veq_int_of in H. cbn in H. congruence. Qed.

Lemma empty_dict_ok : forall md5 vmap nmap,
  HD.good (dict_tree vmap nmap []) /\ HI.fits md5 (dict_tree vmap nmap []).
Proof.
  intros md5 vmap nmap. split.
  - cbn. split; [split; [constructor|]|exact I].
    unfold HD.key_order_ok. repeat split; try (intros; contradiction). constructor.
  - intros ops H. vm_compute in H. injection H as <-. repeat constructor; cbn; lia.
Qed.
