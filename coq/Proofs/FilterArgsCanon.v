(* Facts about py_bind and canon for the models that compose M2 with the hash model (C02/C06):
   a binding is aligned with its signature and well-typed, and canon determines the binding
   (up to the order of the **kwargs dict). *)
From Coq Require Import ZArith List Bool Lia.
Require Import JV.Base.PyPrelude JV.Model.FilterArgs JV.Proofs.FilterArgsBase JV.Proofs.FilterArgs.
Import ListNotations.
Open Scope Z_scope.

(* entry [e] is what Python binds to parameter [p]: same name, value of the right shape *)
Definition typed (p : param) (e : name * argval) : Prop :=
  fst e = pname p /\
  match pkind p, snd e with
  | VarPos, VTuple _ => True
  | VarKw, VDict _ => True
  | PosOnly, VOne _ | PosOrKw, VOne _ | KwOnly, VOne _ => True
  | _, _ => False
  end.

Lemma by_keyword_one kw p a : by_keyword kw p = Some a -> exists v, a = VOne v.
Proof.
  unfold by_keyword. destruct (kw_lookup (pname p) kw); [intros [= <-]; eauto|].
  destruct (pdefault p); [intros [= <-]; eauto | discriminate].
Qed.

Lemma bind_go_typed kw sur : forall ps pos b, bind_go kw sur ps pos = Some b -> Forall2 typed ps b.
Proof.
  induction ps as [|p ps IH]; intros pos b H; cbn [bind_go] in H.
  - destruct pos; [|discriminate]. injection H as <-. constructor.
  - destruct (pkind p) eqn:K.
    + destruct pos as [|v pos]; apply bcons_some in H; destruct H as (a & b' & Ea & Eb & ->);
        (constructor; [|eapply IH; exact Eb]); split; try reflexivity; cbn [snd]; rewrite K.
      * destruct (pdefault p); [injection Ea as <-; exact I | discriminate].
      * injection Ea as <-. exact I.
    + destruct pos as [|v pos].
      * apply bcons_some in H. destruct H as (a & b' & Ea & Eb & ->). constructor; [|eapply IH; exact Eb].
        split; [reflexivity|]. cbn [snd]. rewrite K. destruct (by_keyword_one _ _ _ Ea) as [v ->]. exact I.
      * destruct (kw_mem (pname p) kw); [discriminate|]. apply bcons_some in H.
        destruct H as (a & b' & Ea & Eb & ->). injection Ea as <-. constructor; [|eapply IH; exact Eb].
        split; [reflexivity|]. cbn [snd]. rewrite K. exact I.
    + apply bcons_some in H. destruct H as (a & b' & Ea & Eb & ->). injection Ea as <-.
      constructor; [|eapply IH; exact Eb]. split; [reflexivity|]. cbn [snd]. rewrite K. exact I.
    + destruct pos as [|v pos]; [|discriminate]. apply bcons_some in H. destruct H as (a & b' & Ea & Eb & ->).
      constructor; [|eapply IH; exact Eb]. split; [reflexivity|]. cbn [snd]. rewrite K.
      destruct (by_keyword_one _ _ _ Ea) as [v ->]. exact I.
    + destruct pos as [|v pos]; [|discriminate]. apply bcons_some in H. destruct H as (a & b' & Ea & Eb & ->).
      injection Ea as <-. constructor; [|eapply IH; exact Eb]. split; [reflexivity|]. cbn [snd]. rewrite K. exact I.
Qed.

(* BoundArguments after apply_defaults: one entry per parameter, in parameter order *)
Theorem py_bind_typed s c b : py_bind s c = Some b -> Forall2 typed s b.
Proof.
  unfold py_bind. destruct (has_kind VarKw s || is_nil (surplus_kw s (ckw c))); [|discriminate].
  apply bind_go_typed.
Qed.

Corollary py_bind_aligned s c b : py_bind s c = Some b -> map fst b = map pname s.
Proof.
  intros H. apply py_bind_typed in H. induction H as [|p e s b [Hn _] _ IH]; [reflexivity|].
  cbn [map]. rewrite Hn, IH. reflexivity.
Qed.

(* equality of bound values up to the order of a **kwargs dict *)
Definition aveq (a1 a2 : argval) : Prop :=
  match a1, a2 with
  | VDict d1, VDict d2 => sort_by fst d1 = sort_by fst d2
  | _, _ => a1 = a2
  end.

Lemma app_inj_len {A} (a1 a2 r1 r2 : list A) :
  length a1 = length a2 -> a1 ++ r1 = a2 ++ r2 -> a1 = a2 /\ r1 = r2.
Proof.
  revert a2. induction a1 as [|x a1 IH]; intros [|y a2] Hl H; try discriminate.
  - split; [reflexivity | exact H].
  - cbn [app] in H. injection H as -> H. injection Hl as Hl. destruct (IH _ Hl H) as [-> ->]. split; reflexivity.
Qed.

Lemma entries_lengths s b1 b2 : Forall2 typed s b1 -> Forall2 typed s b2 ->
  length (named_entries s b1) = length (named_entries s b2)
  /\ length (kw_entries s b1) = length (kw_entries s b2).
Proof.
  intros H1. revert b2. induction H1 as [|p e1 s b1 [_ T1] _ IH]; intros b2 H2; inversion H2 as [|? e2 ? b2' [_ T2] H2']; subst.
  - split; reflexivity.
  - destruct e1 as [n1 a1], e2 as [n2 a2]. rewrite !named_entries_cons, !kw_entries_cons, !app_length.
    destruct (IH _ H2') as [E1 E2]. rewrite E1, E2. unfold canon_kw. cbn [fst snd] in *.
    destruct (pkind p), a1, a2; try contradiction; split; reflexivity.
Qed.

(* canon loses nothing: two bindings of one signature with the same canonical dict are equal,
   up to the order inside **kwargs *)
Theorem canon_inj s b1 b2 : Forall2 typed s b1 -> Forall2 typed s b2 ->
  canon s b1 = canon s b2 ->
  Forall2 (fun e1 e2 => fst e1 = fst e2 /\ aveq (snd e1) (snd e2)) b1 b2.
Proof.
  intros H1 H2 Hc. rewrite !canon_split in Hc.
  destruct (entries_lengths _ _ _ H1 H2) as [L1 L2].
  destruct (app_inj_len _ _ _ _ L1 Hc) as [EN Hc'].
  destruct (app_inj_len _ _ _ _ L2 Hc') as [EK ES]. clear Hc Hc' L1 L2.
  revert b2 H2 EN EK ES. induction H1 as [|p e1 s b1 [N1 T1] _ IH]; intros b2 H2 EN EK ES;
    inversion H2 as [|? e2 ? b2' [N2 T2] H2']; subst; [constructor|].
  destruct e1 as [n1 a1], e2 as [n2 a2]. cbn [fst snd] in *. subst n1 n2.
  rewrite !named_entries_cons in EN. rewrite !kw_entries_cons in EK. rewrite !star_entries_cons in ES.
  unfold canon_kw, canon_star in EK, ES. cbn [fst snd] in EK, ES.
  destruct (pkind p), a1, a2; try contradiction; cbn [is_named is_var negb app] in *;
    try (injection EN as EN0 EN); try (injection EK as EK0 EK); try (injection ES as ES0 ES); subst;
    (constructor; [split; [reflexivity | cbn [snd aveq]; congruence] | apply IH; assumption]).
Qed.

Corollary py_bind_canon_inj s c1 c2 b1 b2 :
  py_bind s c1 = Some b1 -> py_bind s c2 = Some b2 -> canon s b1 = canon s b2 ->
  Forall2 (fun e1 e2 => fst e1 = fst e2 /\ aveq (snd e1) (snd e2)) b1 b2.
Proof. intros H1 H2. apply canon_inj; eapply py_bind_typed; eassumption. Qed.


(* the fallback form {'*': args, '**': kwargs} of callables that are not walked (builtins, classes, partial
   objects, callable instances) keeps every argument: it is injective in (args, kwargs) *)
Theorem fallback_injective c1 c2 : filter_args_opaque c1 = filter_args_opaque c2 -> c1 = c2.
Proof. destruct c1, c2. unfold filter_args_opaque. cbn. intros H. injection H as -> ->. reflexivity. Qed.

Theorem fallback_class : forall is_method is_function,
  takes_fallback is_method is_function = true <-> is_method = false /\ is_function = false.
Proof. intros [|] [|]; cbn; intuition discriminate. Qed.
