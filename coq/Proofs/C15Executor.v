(* Proofs about the reusable-executor machine (Model/C15Executor.v) and the decisions regenerated from the source. *)
From Coq Require Import ZArith List Bool Lia ZifyBool.
Require Import JV.Base.PyPrelude JV.Model.C15Executor JV.Gen.T_executor.
Import ListNotations.
Open Scope Z_scope.

(* the regenerated decisions are the ones the machine uses *)
Lemma gen_resize_noop_eq : forall n cur, resize_noop n cur = resize_noop_model n cur.
Proof. intros. unfold resize_noop, resize_noop_model. lia. Qed.

Lemma gen_needs_new_eq : forall b sd r, needs_new b sd r = needs_new_model b sd r.
Proof. intros [] [] []; reflexivity. Qed.

Lemma gen_args_reuse_eq : forall none_ eq_, args_reuse none_ eq_ = none_ || eq_.
Proof. intros [] []; reflexivity. Qed.

(* the resize is skipped only when there is nothing to change *)
Lemma resize_noop_only_equal : forall n cur, resize_noop n cur = true -> n = cur.
Proof. intros n cur. unfold resize_noop. lia. Qed.

Lemma resize_max : forall n e, x_max (resize n e) = n.
Proof.
  intros n e. unfold resize, resize_noop_model. destruct (n =? x_max e) eqn:E; [lia|].
  destruct (negb (x_started e)); reflexivity.
Qed.

(* live workers of an executor that was never started: none *)
Definition started_inv (e : executor) : Prop := x_started e = false -> x_alive e = 0.

Definition inv (s : estate) : Prop :=
  match s_exec s with
  | None => True
  | Some e => 0 <= x_alive e <= x_max e /\ 1 <= x_max e /\ started_inv e
  end.

Lemma resize_inv : forall n e, 1 <= n ->
  (0 <= x_alive e <= x_max e /\ 1 <= x_max e /\ started_inv e) ->
  0 <= x_alive (resize n e) <= x_max (resize n e) /\ 1 <= x_max (resize n e) /\ started_inv (resize n e).
Proof.
  intros n e Hn (Ha & Hm & Hs). unfold resize, resize_noop_model. destruct (n =? x_max e) eqn:E; [auto|].
  destruct (x_started e) eqn:St; cbn [negb].
  - unfold started_inv. cbn. repeat split; try lia; try discriminate.
  - unfold started_inv in *. cbn. rewrite (Hs St). repeat split; try lia.
Qed.

Lemma get_executor_spec : forall n args s s' e reused,
  inv s -> get_executor n args s = Ok (s', e, reused) ->
  s_exec s' = Some e /\ x_max e = n /\ 1 <= n /\ inv s' /\ 0 <= x_alive e <= n /\
  x_broken e = false /\ x_shutdown e = false /\
  (reused = true -> exists e0, s_exec s = Some e0 /\ x_id e = x_id e0 /\ x_broken e0 = false /\ x_shutdown e0 = false /\
                               (s_args s = None \/ s_args s = Some args)) /\
  (reused = false -> x_alive e = 0 /\ x_id e = s_next s).
Proof.
  intros n args s s' e reused Hinv. unfold get_executor.
  destruct (n <=? 0) eqn:Hn; [discriminate|]. assert (1 <= n) by lia.
  destruct (s_exec s) as [e0|] eqn:Ee.
  - destruct (needs_new_model (x_broken e0) (x_shutdown e0) _) eqn:Nn.
    + intros H0; inversion H0; subst; clear H0. cbn. unfold inv, started_inv. cbn.
      repeat split; try lia; try reflexivity; try discriminate.
    + intros H0; inversion H0; subst; clear H0. unfold inv in Hinv. rewrite Ee in Hinv.
      pose proof (resize_inv n e0 H Hinv) as (R1 & R2 & R3). pose proof (resize_max n e0) as RM.
      unfold needs_new_model in Nn.
      assert (x_broken e0 = false /\ x_shutdown e0 = false) as [Hb Hsd] by (destruct (x_broken e0), (x_shutdown e0); cbn in Nn; auto; discriminate).
      assert (x_broken (resize n e0) = false /\ x_shutdown (resize n e0) = false /\ x_id (resize n e0) = x_id e0) as (B1 & B2 & B3).
      { unfold resize. destruct (resize_noop_model n (x_max e0)); [auto|]. destruct (negb (x_started e0)); cbn; auto. }
      cbn [s_exec]. unfold inv. cbn [s_exec]. repeat split; try assumption; try lia.
      intros _. exists e0. repeat split; auto. rewrite Hb, Hsd in Nn. cbn in Nn.
      destruct (s_args s) as [a|]; [right|left; reflexivity]. destruct (a =? args) eqn:Ea; [|discriminate].
      f_equal. lia.
  - intros H0; inversion H0; subst; clear H0. cbn. unfold inv, started_inv. cbn.
    repeat split; try lia; try reflexivity; try discriminate.
Qed.

Lemma estep_inv : forall s o, inv s -> inv (estep s o).
Proof.
  intros s o Hinv. destruct o as [n args|  |k| | ]; cbn [estep].
  - destruct (get_executor n args s) as [[[s' e] r]|] eqn:E; [|assumption].
    exact (proj1 (proj2 (proj2 (proj2 (get_executor_spec _ _ _ _ _ _ Hinv E))))).
  - unfold inv, on_exec in *. cbn. destruct (s_exec s) as [e|]; cbn; [|trivial]. destruct Hinv as (Ha & Hm & Hs).
    destruct (x_broken e || x_shutdown e); [auto|]. unfold started_inv. cbn. repeat split; try lia; try discriminate.
  - unfold inv, on_exec in *. cbn. destruct (s_exec s) as [e|]; cbn; [|trivial]. destruct Hinv as (Ha & Hm & Hs).
    unfold started_inv in *. cbn. repeat split; try lia; intros St; rewrite (Hs St); lia.
  - unfold inv, on_exec in *. cbn. destruct (s_exec s) as [e|]; cbn; [|trivial]. destruct Hinv as (Ha & Hm & Hs).
    unfold started_inv. cbn. repeat split; try lia.
  - unfold inv, on_exec in *. cbn. destruct (s_exec s) as [e|]; cbn; [|trivial]. destruct Hinv as (Ha & Hm & Hs).
    unfold started_inv. cbn. repeat split; try lia.
Qed.

Lemma erun_inv : forall ops s, inv s -> inv (erun ops s).
Proof. induction ops; intros s H; cbn; [assumption|]. apply IHops, estep_inv, H. Qed.

Lemma init_inv : inv init_state.
Proof. exact I. Qed.

(* the step that submits the tasks of a call leaves the size alone and brings the live workers up to it *)
Lemma submit_spec : forall s e, s_exec s = Some e -> x_broken e = false -> x_shutdown e = false ->
  exists e', s_exec (estep s OSubmit) = Some e' /\ x_max e' = x_max e /\ x_alive e' = x_max e /\ x_id e' = x_id e.
Proof.
  intros s e He Hb Hs. cbn [estep]. unfold on_exec. cbn. rewrite He. cbn. rewrite Hb, Hs. cbn.
  eexists; split; [reflexivity|]. cbn. auto.
Qed.

(* WHATEVER happened before (any sequence of calls of any sizes, argument changes, submissions, idle time-outs, breakage,
   shutdown): the executor handed to a call with resolved n_jobs = n has _max_workers = n, at most n live workers, and after
   the tasks are submitted exactly n -- never the size of an earlier, larger call *)
Lemma reuse_bounded : forall ops n args s' e reused,
  get_executor n args (erun ops init_state) = Ok (s', e, reused) ->
  x_max e = n /\ 0 <= x_alive e <= n /\
  exists e', s_exec (estep s' OSubmit) = Some e' /\ x_max e' = n /\ x_alive e' = n /\ x_id e' = x_id e.
Proof.
  intros ops n args s' e reused H.
  destruct (get_executor_spec _ _ _ _ _ _ (erun_inv ops _ init_inv) H) as (He & Hm & Hn & _ & Ha & Hb & Hsd & _).
  split; [assumption|]. split; [assumption|].
  destruct (submit_spec s' e He Hb Hsd) as (e' & E1 & E2 & E3 & E4). exists e'. rewrite Hm in *. auto.
Qed.

(* a resolved n_jobs is always >= 1, so the request is never rejected *)
Lemma get_executor_total : forall n args s, 1 <= n -> exists r, get_executor n args s = Ok r.
Proof.
  intros n args s Hn. unfold get_executor. assert (n <=? 0 = false) as -> by lia.
  destruct (s_exec s) as [e0|]; [destruct (needs_new_model _ _ _)|]; eexists; reflexivity.
Qed.

(* the executor object is kept exactly when it is healthy and the arguments did not change *)
Lemma reuse_iff : forall n args s e0, 1 <= n -> s_exec s = Some e0 ->
  exists s' e reused, get_executor n args s = Ok (s', e, reused) /\
  (reused = true <-> (x_broken e0 = false /\ x_shutdown e0 = false /\ (s_args s = None \/ s_args s = Some args))).
Proof.
  intros n args s e0 Hn He. unfold get_executor. assert (n <=? 0 = false) as -> by lia. rewrite He.
  unfold needs_new_model. destruct (x_broken e0), (x_shutdown e0); cbn [orb].
  1-3: (do 3 eexists; split; [reflexivity|]; split; [discriminate|intros (A & B & _); discriminate]).
  destruct (s_args s) as [a|]; cbn [negb orb].
  - destruct (a =? args) eqn:Ea; cbn [negb].
    + do 3 eexists; split; [reflexivity|]. split; [intros _; repeat split; auto; right; f_equal; lia|reflexivity].
    + do 3 eexists; split; [reflexivity|]. split; [discriminate|]. intros (_ & _ & [A|A]); [discriminate|]. inversion A. lia.
  - do 3 eexists; split; [reflexivity|]. split; [intros _; auto|reflexivity].
Qed.

Lemma executor_decisions : forall n cur b sd r an ae,
  resize_noop n cur = resize_noop_model n cur /\ (resize_noop n cur = true -> n = cur) /\
  needs_new b sd r = needs_new_model b sd r /\ args_reuse an ae = an || ae.
Proof.
  intros. split; [apply gen_resize_noop_eq|]. split; [apply resize_noop_only_equal|].
  split; [apply gen_needs_new_eq | apply gen_args_reuse_eq].
Qed.

Lemma replacement_is_requested : forall requested dead,
  replacement_size_is_requested = true /\ replacement_size replacement_size_is_requested requested dead = requested.
Proof. intros. split; reflexivity. Qed.
