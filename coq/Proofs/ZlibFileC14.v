(* C14 part of M6: every history terminates on every file (any list of raw blocks, hence every
   truncation and every trailer); truncations deliver a prefix; the pre-fix loop spins on trailers;
   _read_bytes terminates with exactly the requested count or an error. *)
From Coq Require Import ZArith List Bool Lia ZifyBool.
Require Import JV.Base.PyPrelude JV.Model.ZlibFile JV.Proofs.ZlibFileLists JV.Proofs.ZlibFile.
Import ListNotations.
Open Scope Z_scope.

(* the only fact about the decompressor state the loops need: unused_data is empty before eof *)
Definition wk (st : rstate) : Prop := deof st = false -> dunused st = [].

Lemma decompress_wk t o e u : decompress false [] t = (o, e, u) -> e = false -> u = [].
Proof. destruct t; cbn [decompress]; intros [= <- <- <-]; congruence. Qed.

Lemma fill_loop_total : forall fuel st, wk st -> (length (fp st) < fuel)%nat ->
  exists b st', fill_loop fuel st = Some (b, st') /\ wk st' /\
    (length (fp st') <= length (fp st))%nat /\
    (b = true ->
       (off st = len (buf st) -> off st' = 0 /\ buf st' <> [] /\ (length (fp st') < length (fp st))%nat) /\
       (off st <> len (buf st) -> st' = st)).
Proof.
  induction fuel as [|f IH]; intros st W L; [lia|].
  cbn [fill_loop]. destruct (off st =? len (buf st)) eqn:E.
  - apply Z.eqb_eq in E. destruct (deof st) eqn:De.
    + exists false, (set_eof st). split; [reflexivity|]. split; [exact W|]. split; [unfold set_eof; cbn [fp]; lia|].
      discriminate.
    + unfold next_raw. rewrite (W De). destruct (fp st) as [|t r] eqn:Efp.
      * exists false, (set_eof st). split; [reflexivity|]. split; [exact W|].
        split; [unfold set_eof; cbn [fp]; rewrite Efp; cbn [length]; lia|]. discriminate.
      * destruct (raw_empty t).
        -- exists false, (set_eof (with_fp st r)). split; [reflexivity|].
           split; [exact W|]. split; [unfold set_eof, with_fp; cbn [fp length]; lia|]. discriminate.
        -- destruct (decompress false [] t) as [[o e] u] eqn:Ed.
           set (st1 := mkR (mode st) (pos st) (size st) o 0 r e u).
           assert (W1 : wk st1) by (unfold wk, st1; cbn [deof dunused]; eapply decompress_wk; eassumption).
           destruct (IH st1 W1) as (b & st' & H1 & H2 & H3 & H4).
           { unfold st1. cbn [fp]. cbn [length] in L. lia. }
           exists b, st'. split; [exact H1|]. split; [exact H2|].
           unfold st1 in H3, H4. cbn [fp off buf] in H3, H4. cbn [length]. split; [lia|].
           intros Hb. destruct (H4 Hb) as [G1 G2]. split; [|intros; lia]. intros _.
           destruct (Z.eq_dec 0 (len o)) as [Eo|Eo].
           ++ destruct (G1 Eo) as (A & B & C). split; [exact A|]. split; [exact B|lia].
           ++ rewrite (G2 Eo). unfold st1. cbn [off buf fp]. split; [reflexivity|]. split; [|lia].
              intros ->. apply Eo. reflexivity.
  - apply Z.eqb_neq in E. exists true, st. split; [reflexivity|]. split; [exact W|]. split; [lia|].
    intros _. split; [intros; lia|reflexivity].
Qed.

Lemma fill_buffer_total : forall F st, wk st -> off st = 0 -> (length (fp st) < F)%nat ->
  exists b st', fill_buffer F st = Some (b, st') /\ wk st' /\
    (length (fp st') <= length (fp st))%nat /\
    (b = true -> off st' = 0 /\ buf st' <> [] /\ (length (fp st') < mu st)%nat).
Proof.
  intros F st W O L.
  assert (G : exists b st', fill_loop F st = Some (b, st') /\ wk st' /\
    (length (fp st') <= length (fp st))%nat /\
    (b = true -> off st' = 0 /\ buf st' <> [] /\ (length (fp st') < mu st)%nat)).
  { destruct (fill_loop_total F st W L) as (b & st' & H1 & H2 & H3 & H4).
    exists b, st'. split; [exact H1|]. split; [exact H2|]. split; [exact H3|].
    intros Hb. destruct (H4 Hb) as [G1 G2].
    destruct (Z.eq_dec (off st) (len (buf st))) as [E|E].
    - destruct (G1 E) as (A & B & C). split; [exact A|]. split; [exact B|]. unfold mu. lia.
    - rewrite (G2 E). split; [exact O|]. split.
      + intros Hn. apply E. rewrite Hn, O. reflexivity.
      + unfold mu. destruct (buf st); [exfalso; apply E; rewrite O; reflexivity|]. cbn [is_nilb]. lia. }
  unfold fill_buffer. destruct (mode st); try exact G.
  exists false, st. split; [reflexivity|]. split; [exact W|]. split; [lia|discriminate].
Qed.

Lemma mu_pos_of_lt st (n : nat) : (n < mu st)%nat -> (1 <= mu st)%nat.
Proof. lia. Qed.

Lemma ra_loop_total : forall F f ret acc st,
  wk st -> off st = 0 -> (mu st < f)%nat -> (length (fp st) < F)%nat ->
  exists acc' st', ra_loop fill_buffer F f ret acc st = Some (acc', st') /\ wk st' /\
    (length (fp st') <= length (fp st))%nat.
Proof.
  intros F f. induction f as [|f IH]; intros ret acc st W O Lf LF; [lia|].
  cbn [ra_loop]. destruct (fill_buffer_total F st W O LF) as (b & st1 & H1 & H2 & H3 & H4).
  rewrite H1. destruct b.
  - destruct (H4 eq_refl) as (A & B & C).
    destruct (IH ret (if ret then acc ++ [buf st1] else acc)
                 (mkR (mode st1) (pos st1 + len (buf st1)) (size st1) [] (off st1) (fp st1) (deof st1)
                      (dunused st1))) as (acc' & st' & G1 & G2 & G3).
    + exact H2.
    + exact A.
    + unfold mu. cbn [fp buf is_nilb]. lia.
    + cbn [fp]. lia.
    + exists acc', st'. split; [exact G1|]. split; [exact G2|]. cbn [fp] in G3. lia.
  - exists acc, st1. split; [reflexivity|]. split; [exact H2|exact H3].
Qed.

Lemma wk_compact st : wk st -> wk (compact st) /\ off (compact st) = 0 /\
  (mu (compact st) <= length (fp st) + 1)%nat.
Proof.
  intros W. split; [exact W|]. split; [reflexivity|]. unfold mu, compact. cbn [fp buf].
  destruct (is_nilb _); lia.
Qed.

Lemma read_all_total : forall F ret st, wk st -> (length (fp st) + 2 <= F)%nat ->
  exists d st', read_all fill_buffer F ret st = Some (d, st') /\ wk st' /\
    (length (fp st') <= length (fp st))%nat.
Proof.
  intros F ret st W L. unfold read_all. destruct (wk_compact st W) as (C1 & C2 & C3).
  destruct (ra_loop_total F F ret [] (compact st) C1 C2) as (acc' & st' & H1 & H2 & H3); [lia| |].
  { unfold compact. cbn [fp]. lia. }
  rewrite H1. eexists. exists st'. split; [reflexivity|]. split; [exact H2|].
  unfold compact in H3. cbn [fp] in H3. exact H3.
Qed.

Lemma rb_loop_total : forall F f ret n acc st,
  wk st -> (1 <= f)%nat -> (0 < n -> off st = 0 /\ (mu st < f)%nat) -> (length (fp st) < F)%nat ->
  exists acc' st', rb_loop fill_buffer F f ret n acc st = Some (acc', st') /\ wk st' /\
    (length (fp st') <= length (fp st))%nat.
Proof.
  intros F f. induction f as [|f IH]; intros ret n acc st W L1 Lmu LF; [lia|].
  cbn [rb_loop]. destruct (0 <? n) eqn:En.
  - apply Z.ltb_lt in En. destruct (Lmu En) as [O Lf].
    destruct (fill_buffer_total F st W O LF) as (b & st1 & H1 & H2 & H3 & H4).
    rewrite H1. destruct b.
    + destruct (H4 eq_refl) as (A & B & C).
      assert (Hf : (1 <= f)%nat) by lia.
      destruct (n <? len (buf st1)) eqn:Enb; cbn [mode pos size buf off fp deof dunused].
      * apply Z.ltb_lt in Enb.
        assert (Ld : len (py_upto (buf st1) n) = n).
        { rewrite py_upto_in by lia. rewrite len_zfirstn by lia. lia. }
        rewrite Ld. replace (n - n) with 0 by lia.
        destruct (IH ret 0 (if ret then acc ++ [py_upto (buf st1) n] else acc)
                     (mkR (mode st1) (pos st1 + n) (size st1) (buf st1) n (fp st1) (deof st1) (dunused st1)))
          as (acc' & st' & G1 & G2 & G3).
        -- exact H2.
        -- exact Hf.
        -- lia.
        -- cbn [fp]. lia.
        -- exists acc', st'. split; [exact G1|]. split; [exact G2|]. cbn [fp] in G3. lia.
      * apply Z.ltb_ge in Enb.
        destruct (IH ret (n - len (buf st1)) (if ret then acc ++ [buf st1] else acc)
                     (mkR (mode st1) (pos st1 + len (buf st1)) (size st1) [] (off st1) (fp st1) (deof st1)
                          (dunused st1)))
          as (acc' & st' & G1 & G2 & G3).
        -- exact H2.
        -- exact Hf.
        -- intros _. cbn [off]. split; [exact A|]. unfold mu. cbn [fp buf is_nilb]. lia.
        -- cbn [fp]. lia.
        -- exists acc', st'. split; [exact G1|]. split; [exact G2|]. cbn [fp] in G3. lia.
    + exists acc, st1. split; [reflexivity|]. split; [exact H2|exact H3].
  - exists acc, st. split; [reflexivity|]. split; [exact W|lia].
Qed.

Lemma read_block_total : forall F ret n st, wk st -> (length (fp st) + 2 <= F)%nat ->
  exists d st', read_block fill_buffer F ret n st = Some (d, st') /\ wk st' /\
    (length (fp st') <= length (fp st))%nat.
Proof.
  intros F ret n st W L. unfold read_block. cbv zeta.
  destruct (off st + n <=? len (buf st)).
  - eexists. eexists. split; [reflexivity|]. split; [exact W|]. cbn [fp]. lia.
  - destruct (wk_compact st W) as (C1 & C2 & C3).
    destruct (rb_loop_total F F ret n [] (compact st) C1) as (acc' & st' & H1 & H2 & H3); [lia| | |].
    { intros _. split; [exact C2|lia]. }
    { unfold compact. cbn [fp]. lia. }
    rewrite H1. eexists. exists st'. split; [reflexivity|]. split; [exact H2|].
    unfold compact in H3. cbn [fp] in H3. exact H3.
Qed.

Definition wkf (file : list raw) (st : rstate) : Prop := wk st /\ (length (fp st) <= length file)%nat.

Lemma do_read_total F file n st : (length file + 3 <= F)%nat -> wkf file st ->
  exists r st', do_read fill_buffer F n st = Some (r, st') /\ wkf file st'.
Proof.
  intros LF [W L]. unfold do_read. destruct (check_can_read st).
  - eexists. exists st. split; [reflexivity|split; assumption].
  - destruct (n =? 0); [eexists; exists st; split; [reflexivity|split; assumption]|].
    destruct (n <? 0).
    + destruct (read_all_total F true st W) as (d & st' & H1 & H2 & H3); [lia|]. rewrite H1.
      eexists. exists st'. split; [reflexivity|]. split; [exact H2|lia].
    + destruct (read_block_total F true n st W) as (d & st' & H1 & H2 & H3); [lia|]. rewrite H1.
      eexists. exists st'. split; [reflexivity|]. split; [exact H2|lia].
Qed.

Lemma wkf_rewind file st : wkf file (rewind file st).
Proof. split; [intros _; reflexivity|unfold rewind; cbn [fp]; lia]. Qed.

Lemma step_total F file o st : (length file + 3 <= F)%nat -> wkf file st ->
  exists r st', step fill_buffer F file o st = Some (r, st') /\ wkf file st'.
Proof.
  intros LF WL. destruct o as [n|n|k w| | | |q| |]; cbn [step].
  - apply do_read_total; assumption.
  - unfold do_readinto. destruct (do_read_total F file n st LF WL) as (r & st' & H1 & H2). rewrite H1.
    destruct r; eexists; exists st'; (split; [reflexivity|exact H2]).
  - unfold do_seek. destruct (check_can_seek st); [eexists; exists st; split; [reflexivity|exact WL]|].
    assert (FIN : forall target st1, wkf file st1 ->
      exists r st', (let '(skip, st2) := if target <? pos st1 then (target, rewind file st1)
                                         else (target - pos st1, st1) in
                     match read_block fill_buffer F false skip st2 with
                     | None => None
                     | Some (_, st3) => Some (VInt (pos st3), st3)
                     end) = Some (r, st') /\ wkf file st').
    { intros target st1 W1. destruct (target <? pos st1).
      - destruct (wkf_rewind file st1) as [A B].
        destruct (read_block_total F false target (rewind file st1) A) as (d & st' & H1 & H2 & H3); [lia|].
        rewrite H1. eexists. exists st'. split; [reflexivity|]. split; [exact H2|lia].
      - destruct W1 as [A B].
        destruct (read_block_total F false (target - pos st1) st1 A) as (d & st' & H1 & H2 & H3); [lia|].
        rewrite H1. eexists. exists st'. split; [reflexivity|]. split; [exact H2|lia]. }
    destruct (w =? 0); [apply FIN; exact WL|].
    destruct (w =? 1); [apply FIN; exact WL|].
    destruct (w =? 2); [|eexists; exists st; split; [reflexivity|exact WL]].
    destruct (size st <? 0); [|apply FIN; exact WL].
    destruct WL as [A B].
    destruct (read_all_total F false st A) as (d & st1 & H1 & H2 & H3); [lia|]. rewrite H1.
    apply FIN. split; [exact H2|lia].
  - unfold do_tell. destruct (check_not_closed st); eexists; eexists; (split; [reflexivity|exact WL]).
  - unfold do_close. destruct WL as [A B].
    destruct (mode st); eexists; eexists; (split; [reflexivity|]); (split; [exact A|exact B]).
  - unfold do_write_r. destruct (check_can_write_r st); eexists; eexists; (split; [reflexivity|exact WL]).
  - unfold do_query. destruct q; destruct (check_not_closed st); eexists; eexists; (split; [reflexivity|exact WL]).
  - eexists; eexists; (split; [reflexivity|exact WL]).
  - eexists; eexists; (split; [reflexivity|exact WL]).
Qed.

Lemma run_total F file ops : forall st, (length file + 3 <= F)%nat -> wkf file st ->
  exists rs st', run fill_buffer F file ops st = Some (rs, st') /\ wkf file st'.
Proof.
  induction ops as [|o ops IH]; intros st LF W; cbn [run].
  - eexists. exists st. split; [reflexivity|exact W].
  - destruct (step_total F file o st LF W) as (r & st1 & H1 & W1). rewrite H1.
    destruct (IH st1 LF W1) as (rs & st2 & H2 & W2). rewrite H2.
    eexists. exists st2. split; [reflexivity|exact W2].
Qed.

(* every history -- in or outside the property's scope -- returns on every file *)
Theorem terminates : forall (file : list raw) ops fuel, (fuel_for file <= fuel)%nat ->
  run_new fuel file ops (init_state file) <> None.
Proof.
  intros file ops fuel LF. unfold fuel_for in LF.
  destruct (run_total fuel file ops (init_state file) LF) as (rs & st' & H & _).
  - split; [intros _; reflexivity|unfold init_state; cbn [fp]; lia].
  - unfold run_new. rewrite H. discriminate.
Qed.

(* ------------------------------------------------------------------ truncation: a prefix *)
Lemma concat_firstn_prefix (l : list bytes) k : exists r, concat l = concat (firstn k l) ++ r.
Proof.
  exists (concat (skipn k l)). rewrite <- concat_app, firstn_skipn. reflexivity.
Qed.

Lemma concat_inside_prefix : forall k (l : list bytes) p,
  is_prefix p (nth k l []) = true -> exists r, concat l = concat (firstn k l ++ [p]) ++ r.
Proof.
  induction k as [|k IH]; intros l p H.
  - destruct l as [|x l]; cbn [nth] in H; apply is_prefix_spec in H; destruct H as [r0 H].
    + destruct p; [|discriminate]. exists []. reflexivity.
    + subst x. exists (r0 ++ concat l). cbn [firstn app concat]. rewrite app_nil_r, app_assoc. reflexivity.
  - destruct l as [|x l]; cbn [nth] in H.
    + apply is_prefix_spec in H. destruct H as [r0 H]. destruct p; [|discriminate]. exists []. reflexivity.
    + destruct (IH l p H) as [r Hr]. exists r. cbn [firstn app concat]. rewrite Hr, app_assoc. reflexivity.
Qed.

Lemma truncation_prefix S T : truncation_of S T -> is_prefix (payload T) (payload S) = true.
Proof.
  intros [k|k p H]; unfold payload at 1; cbn [all_outs]; apply is_prefix_spec; unfold payload.
  - apply concat_firstn_prefix.
  - apply concat_inside_prefix. exact H.
Qed.

Lemma ref_read_all D : ref_run D [ORead (-1)] ref_init = Some ([VBytes D], mkRef (len D) false).
Proof. reflexivity. Qed.

(* reading a truncated file to the end delivers what the decompressor could decode: a prefix of
   the original payload *)
Theorem truncated_read_is_prefix : forall S T fuel,
  truncation_of S T -> (fuel_for (file_of T) <= fuel)%nat ->
  exists st', run_new fuel (file_of T) [ORead (-1)] (init_state (file_of T)) = Some ([VBytes (payload T)], st') /\
              is_prefix (payload T) (payload S) = true.
Proof.
  intros S T fuel H LF.
  destruct (refines_stream T [ORead (-1)] _ _ fuel (ref_read_all (payload T)) LF) as (st' & H1 & _).
  exists st'. split; [exact H1|]. apply truncation_prefix. exact H.
Qed.

(* a complete stream followed by ANY trailer (unused bytes in the last block, further blocks)
   delivers exactly the payload *)
Theorem trailer_read_is_exact : forall os o u ex fuel,
  (fuel_for (file_of (Complete os o u ex)) <= fuel)%nat ->
  exists st', run_new fuel (file_of (Complete os o u ex)) [ORead (-1)]
                      (init_state (file_of (Complete os o u ex))) = Some ([VBytes (concat (os ++ [o]))], st').
Proof.
  intros os o u ex fuel LF.
  destruct (refines_stream (Complete os o u ex) [ORead (-1)] _ _ fuel (ref_read_all _) LF) as (st' & H1 & _).
  exists st'. exact H1.
Qed.

(* ------------------------------------------------------------------ the loop before the F7 fix *)
Definition doomed (st : rstate) : Prop :=
  mode st = MRead /\
  ((deof st = true /\ dunused st <> []) \/
   (deof st = true /\ dunused st = [] /\ exists x r, fp st = RJunk x :: r /\ x <> []) \/
   (deof st = false /\ dunused st = [] /\
    exists ds o u js, fp st = map RData ds ++ RLast o u :: js /\
                      (u <> [] \/ exists x r, js = RJunk x :: r /\ x <> []))).

Lemma fill_loop_old_doomed : forall fuel st, doomed st ->
  fill_loop_old fuel st = None \/ exists st', fill_loop_old fuel st = Some (true, st') /\ doomed st'.
Proof.
  induction fuel as [|f IH]; intros st Hd; [left; reflexivity|].
  cbn [fill_loop_old]. destruct (off st =? len (buf st)).
  - destruct Hd as [M [[De Un]|[(De & Un & x & r & Efp & Hx)|(De & Un & ds & o & u & js & Efp & Hj)]]].
    + (* unused_data is fed again and again *)
      unfold next_raw. destruct (dunused st) as [|y ys] eqn:Eu; [congruence|].
      cbn [raw_empty]. rewrite De. cbn [decompress raw_bytes].
      apply IH. split; [exact M|]. left. cbn [deof dunused]. split; [reflexivity|discriminate].
    + unfold next_raw. rewrite Un, Efp. destruct x as [|y ys]; [congruence|].
      cbn [raw_empty]. rewrite De. cbn [decompress raw_bytes app].
      apply IH. split; [exact M|]. left. cbn [deof dunused]. split; [reflexivity|discriminate].
    + unfold next_raw. rewrite Un, Efp. destruct ds as [|d ds]; cbn [map app].
      * cbn [raw_empty]. rewrite De. cbn [decompress].
        apply IH. split; [exact M|]. cbn [deof dunused fp].
        destruct Hj as [Hu|(x & r & -> & Hx)].
        -- left. split; [reflexivity|exact Hu].
        -- destruct u as [|y ys].
           ++ right; left. split; [reflexivity|]. split; [reflexivity|]. exists x, r. split; [reflexivity|exact Hx].
           ++ left. split; [reflexivity|discriminate].
      * cbn [raw_empty]. rewrite De. cbn [decompress].
        apply IH. split; [exact M|]. right; right. cbn [deof dunused fp].
        split; [reflexivity|]. split; [reflexivity|]. exists ds, o, u, js. split; [reflexivity|exact Hj].
  - right. exists st. split; [reflexivity|exact Hd].
Qed.

Lemma ra_loop_old_doomed : forall F f ret acc st, doomed st ->
  ra_loop fill_buffer_old F f ret acc st = None.
Proof.
  intros F f. induction f as [|f IH]; intros ret acc st Hd; [reflexivity|].
  cbn [ra_loop]. unfold fill_buffer_old. destruct Hd as [M Hd]. rewrite M.
  destruct (fill_loop_old_doomed F st (conj M Hd)) as [->|(st1 & -> & [M1 Hd1])]; [reflexivity|].
  apply IH. split; [exact M1|exact Hd1].
Qed.

(* before the fix: a complete stream followed by at least one byte makes read() spin for ever *)
Theorem trailing_old_spins : forall os o u ex fuel,
  (u <> [] \/ exists x r, ex = x :: r /\ x <> []) ->
  run_old fuel (file_of (Complete os o u ex)) [ORead (-1)] (init_state (file_of (Complete os o u ex))) = None.
Proof.
  intros os o u ex fuel H. unfold run_old. cbn [run step]. unfold do_read. cbn [check_can_read init_state mode is_reading].
  cbn [Z.eqb Z.ltb Z.compare]. unfold read_all.
  rewrite ra_loop_old_doomed; [reflexivity|].
  split; [reflexivity|]. right; right. unfold compact. cbn [deof dunused fp file_of].
  split; [reflexivity|]. split; [reflexivity|]. exists os, o, u, (map RJunk ex). split; [reflexivity|].
  destruct H as [H|(x & r & -> & Hx)]; [left; exact H|right]. exists x, (map RJunk r). split; [reflexivity|exact Hx].
Qed.

(* ------------------------------------------------------------------ _read_bytes *)
Section ReadBytesProofs.
Variable F : Type.
Variable fread : F -> Z -> F * bytes.
(* the file object never returns more than it was asked for *)
Hypothesis fread_le : forall f n, 0 <= n -> len (snd (fread f n)) <= n.

Lemma read_bytes_loop_total : forall fuel sz data f,
  0 <= len data <= sz -> (Z.to_nat (sz - len data) < fuel)%nat ->
  exists d f', read_bytes_loop F fread fuel sz data f = Some (d, f') /\ len d <= sz /\
               is_prefix data d = true.
Proof.
  induction fuel as [|k IH]; intros sz data f Hd Hf; [lia|].
  cbn [read_bytes_loop]. pose proof (fread_le f (sz - len data)) as Hle.
  destruct (fread f (sz - len data)) as [f' r]. cbn [snd] in Hle.
  assert (Hr : len r <= sz - len data) by (apply Hle; lia).
  pose proof (zl_len_nonneg r) as Hr0.
  destruct ((len r =? 0) || (len (data ++ r) =? sz)) eqn:E.
  - exists (data ++ r), f'. split; [reflexivity|]. rewrite zl_len_app. split; [lia|apply is_prefix_app].
  - apply orb_false_iff in E. destruct E as [E1 E2]. apply Z.eqb_neq in E1. apply Z.eqb_neq in E2.
    rewrite zl_len_app in E2.
    destruct (IH sz (data ++ r) f') as (d & f'' & H1 & H2 & H3).
    + rewrite zl_len_app. lia.
    + rewrite zl_len_app. lia.
    + exists d, f''. split; [exact H1|]. split; [exact H2|].
      apply is_prefix_spec in H3. destruct H3 as [q ->]. rewrite <- app_assoc. apply is_prefix_app.
Qed.

Theorem read_bytes_exact : forall sz f fuel, 0 <= sz -> (Z.to_nat sz + 1 <= fuel)%nat ->
  exists r f', read_bytes F fread fuel sz f = Some (r, f') /\
               (r = Raise ValueError \/ exists d, r = Ok d /\ len d = sz).
Proof.
  intros sz f fuel Hs Hf. unfold read_bytes.
  destruct (read_bytes_loop_total fuel sz [] f) as (d & f' & H1 & H2 & _).
  - unfold len. cbn [length]. lia.
  - unfold len. cbn [length]. lia.
  - rewrite H1. destruct (len d =? sz) eqn:E.
    + eexists. exists f'. split; [reflexivity|]. right. exists d. split; [reflexivity|]. apply Z.eqb_eq. exact E.
    + eexists. exists f'. split; [reflexivity|]. left. reflexivity.
Qed.
End ReadBytesProofs.

(* the hypothesis is satisfiable: a file object with short reads *)
Lemma short_read_le : forall f n, 0 <= n -> len (snd (short_read f n)) <= n.
Proof.
  intros [d caps] n Hn. unfold short_read. replace (n <? 0) with false by lia.
  destruct caps as [|c cs]; cbn [snd]; rewrite len_zfirstn by lia; lia.
Qed.

Theorem read_bytes_short_reads : forall sz f fuel, 0 <= sz -> (Z.to_nat sz + 1 <= fuel)%nat ->
  exists r f', read_bytes _ short_read fuel sz f = Some (r, f') /\
               (r = Raise ValueError \/ exists d, r = Ok d /\ len d = sz).
Proof. intros. apply read_bytes_exact; [exact short_read_le|assumption|assumption]. Qed.
