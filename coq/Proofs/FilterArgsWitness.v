(* Concrete witnesses: the calls on which the CURRENT filter_args deviates from Python's binding
   (findings F1-F3 and the self-name collision), and non-vacuity examples.  All by computation. *)
From Coq Require Import ZArith List Bool.
Require Import JV.Base.PyPrelude JV.Model.FilterArgs.
Import ListNotations.
Open Scope Z_scope.

(* "the code agrees with Python on this accepted call" -- the full-strength statement of C07 at one point.
   [self] = None for a plain function; Some p for a bound method whose underlying function has first
   parameter p (inspect.signature of the bound method, [s], does not contain it). *)
Definition agrees (s : sig) (self : option (param * value)) (c : call) : Prop :=
  let full_s := match self with Some (p, _) => p :: s | None => s end in
  let full_c := match self with Some (_, v) => mkCall (v :: cpos c) (ckw c) | None => c end in
  let meth := match self with Some (p, v) => Some (pname p, v) | None => None end in
  forall b, py_bind full_s full_c = Some b -> filter_args_model s [] meth c = Ok (canon full_s b).

Definition deviates (s : sig) (self : option (param * value)) (c : call) : Prop :=
  let full_s := match self with Some (p, _) => p :: s | None => s end in
  let full_c := match self with Some (_, v) => mkCall (v :: cpos c) (ckw c) | None => c end in
  let meth := match self with Some (p, v) => Some (pname p, v) | None => None end in
  wf_sig full_s /\ wf_call full_c /\
  exists b, py_bind full_s full_c = Some b /\ filter_args_model s [] meth c <> Ok (canon full_s b).

Lemma deviates_not_agrees s self c : deviates s self c -> ~ agrees s self c.
Proof.
  unfold deviates, agrees. intros (_ & _ & b & Hb & Hne) H. apply Hne. apply H. exact Hb.
Qed.

(* names: a = 1, b = 2, c = 3, args = 9, self = 19 *)

(* F1  def f(a, /, b)        f(1, 2)            ->  {'b': 1}                 *)
Definition w_posonly_sig : sig := [mkParam PosOnly 1 None; mkParam PosOrKw 2 None].
Definition w_posonly_call : call := mkCall [1; 2] [].
(* F2  def f(a=1, b=2, *, c) f(5, c=0)          ->  {'a': 5, 'b': 1, 'c': 0} *)
Definition w_merged_sig : sig := [mkParam PosOrKw 1 (Some 1); mkParam PosOrKw 2 (Some 2); mkParam KwOnly 3 None].
Definition w_merged_call : call := mkCall [5] [(3, 0)].
(* F3  def f(a, *args, b)    f(1, 2, 3, b=4)    ->  ValueError               *)
Definition w_varargs_sig : sig := [mkParam PosOrKw 1 None; mkParam VarPos 9 None; mkParam KwOnly 2 None].
Definition w_varargs_call : call := mkCall [1; 2; 3] [(2, 4)].
(* F2' def f(a, *, b=1, c)   f(0, c=5)          ->  ValueError               *)
Definition w_kwdefault_sig : sig := [mkParam PosOrKw 1 None; mkParam KwOnly 2 (Some 1); mkParam KwOnly 3 None].
Definition w_kwdefault_call : call := mkCall [0] [(3, 5)].
(* new  class K: def m(self, /, **kw)   K().m(self=3)  ->  {'self': 3, '**': {}}  *)
Definition w_self_sig : sig := [mkParam VarKw 2 None].
Definition w_self_param : param := mkParam PosOnly 19 None.
Definition w_self_call : call := mkCall [] [(19, 3)].

Ltac dev := unfold deviates; split; [vm_compute; reflexivity | split; [vm_compute; reflexivity |
  eexists; split; [vm_compute; reflexivity | vm_compute; discriminate]]].

Lemma posonly_deviates : deviates w_posonly_sig None w_posonly_call
  /\ filter_args_model w_posonly_sig [] None w_posonly_call = Ok [(KName 2, VOne 1)].
Proof. split; [dev | vm_compute; reflexivity]. Qed.

Lemma merged_deviates : deviates w_merged_sig None w_merged_call
  /\ filter_args_model w_merged_sig [] None w_merged_call
     = Ok [(KName 1, VOne 5); (KName 2, VOne 1); (KName 3, VOne 0)].
Proof. split; [dev | vm_compute; reflexivity]. Qed.

Lemma varargs_deviates : deviates w_varargs_sig None w_varargs_call
  /\ filter_args_model w_varargs_sig [] None w_varargs_call = Raise ValueError.
Proof. split; [dev | vm_compute; reflexivity]. Qed.

Lemma kwdefault_deviates : deviates w_kwdefault_sig None w_kwdefault_call
  /\ filter_args_model w_kwdefault_sig [] None w_kwdefault_call = Raise ValueError.
Proof. split; [dev | vm_compute; reflexivity]. Qed.

Lemma self_deviates : deviates w_self_sig (Some (w_self_param, 999)) w_self_call
  /\ filter_args_model w_self_sig [] (Some (19, 999)) w_self_call
     = Ok [(KName 19, VOne 3); (KStarStar, VDict [])].
Proof. split; [dev | vm_compute; reflexivity]. Qed.

(* the unrestricted agreement statement is false of the current code *)
Lemma full_statement_false :
  ~ (forall s c b, wf_sig s -> wf_call c -> py_bind s c = Some b ->
     filter_args_model s [] None c = Ok (canon s b)).
Proof.
  intros H. pose proof (proj1 posonly_deviates) as D. unfold deviates in D. cbv zeta in D.
  destruct D as (Hwf & Hwc & b & Hb & Hne). apply Hne. exact (H _ _ _ Hwf Hwc Hb).
Qed.
