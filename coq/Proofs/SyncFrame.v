(* M1s proofs, part 1: reachable states of Model/ParallelSync.v and a preservation principle: to show
   that a predicate over (state, job the caller is blocked on) holds in every reachable state it
   suffices to show it preserved by the primitive transformers the events are made of.  The
   dispatch-side transformers are those of M1 (ParallelFrame2), so M1's invariant lemmas are reused. *)
From Coq Require Import List Bool Arith Lia PeanoNat.
Require Import JV.Model.ParallelCore JV.Model.ParallelSync JV.Proofs.ParallelLemmas JV.Proofs.ParallelInv1
               JV.Proofs.ParallelFrame2 JV.Proofs.ParallelFrame3.
Import ListNotations.

Definition wf_sev (e : sev) : Prop :=
  match e with
  | SCall cf _ _ => wf_cfg cf
  | SDispatch b => 1 <= b
  | SCb _ b => 1 <= b
  | SResult _ => True
  end.

Inductive sreach : sst -> Prop :=
| sreach_init : sreach sinit
| sreach_step s e : sreach s -> wf_sev e -> sreach (fst (sstep s e)).

Lemma wf_list_cfg cf : wf_cfg cf -> wf_cfg (list_cfg cf).
Proof. intros H. exact H. Qed.

Definition no_return (o : list sobs) : Prop := forall l, ~ In (SReturned l) o.

Lemma fst_lift r : fst (lift r) = fst r.
Proof. reflexivity. Qed.

Lemma step_raw_dispatch_first s b : phase s = StartFirst ->
  fst (step_raw true s (EDispatch b)) =
  ParallelFrame2.start_first_next (fst (dispatch_one_batch s b false)) (snd (dispatch_one_batch s b false)).
Proof.
  intros Hph. cbn [step_raw]. rewrite Hph. destruct (dispatch_one_batch s b false) as [s1 r]. cbn [fst snd].
  unfold ParallelFrame2.start_first_next. destruct (aborting _); reflexivity.
Qed.

Lemma step_raw_dispatch_loop s b : phase s = StartLoop ->
  fst (step_raw true s (EDispatch b)) =
  ParallelFrame2.start_loop_next (fst (dispatch_one_batch s b false)) (snd (dispatch_one_batch s b false)).
Proof.
  intros Hph. cbn [step_raw]. rewrite Hph. destruct (dispatch_one_batch s b false) as [s1 r]. cbn [fst snd].
  unfold ParallelFrame2.start_loop_next. destruct r; [destruct (aborting s1)|]; reflexivity.
Qed.

(* ---------------- principle A: the locked section of the callback (_dispatch_new) is one step -------------- *)
Section SyncPreservation3.
Variable P : st -> option nat -> Prop.
Definition PS (s : sst) : Prop := P (base s) (blk s).

Hypothesis S_init : P init None.
Hypothesis S_call : forall s k cf n f, P s k -> wf_cfg cf -> running s = false ->
  (phase s = Idle \/ phase s = Finished) -> P (do_call s (list_cfg cf) n f) None.
Hypothesis S_start_first : forall s b s1 r, P s None -> 1 <= n_jobs (c s) -> 1 <= b -> phase s = StartFirst ->
  dispatch_shape s b false s1 r -> P (ParallelFrame2.start_first_next s1 r) None.
Hypothesis S_start_loop : forall s b s1 r, P s None -> 1 <= n_jobs (c s) -> 1 <= b -> phase s = StartLoop ->
  dispatch_shape s b false s1 r -> P (ParallelFrame2.start_loop_next s1 r) None.
(* the completion callback *)
Hypothesis S_cb_ghost : forall s k t tk, P s k -> nth_error (trk s) t = Some tk -> In t (inflight s) ->
  tk_cid tk = cid s -> aborting s = false -> P (cb_start s t None) k.
Hypothesis S_cb_move : forall s k t tk, P s k -> nth_error (trk s) t = Some tk -> In t (inflight s) ->
  (tk_cid tk <> cid s \/ aborting s = true) -> P (move_mid s t) k.
Hypothesis S_cb_finish_noorig : forall s k t tk, P s k -> nth_error (trk s) t = Some tk -> In t (cbmid s) ->
  tk_cid tk = cid s -> orig s = false -> P (closed_state s t tk) k.
Hypothesis S_cb_finish_orig : forall s k t tk b s2 r, P s k -> 1 <= n_jobs (c s) -> 1 <= b ->
  nth_error (trk s) t = Some tk -> In t (cbmid s) -> tk_cid tk = cid s -> orig s = true ->
  dispatch_shape (closed_state s t tk) b true s2 r ->
  P (if r then s2 else set_flags s2 false false (phase s2)) k.
Hypothesis S_cb_stale : forall s k t tk, P s k -> nth_error (trk s) t = Some tk -> In t (cbmid s) ->
  tk_cid tk <> cid s -> P (add_comp s 0 (remove_id t (cbmid s))) k.
(* the caller's retrieval loop *)
Hypothesis S_raise_fast : forall s e, P s None -> phase s = Retrieving -> aborting s = true ->
  first_failed s = Some e -> P (finalize s Finished true true) None.
Hypothesis S_loop_exit : forall s, P s None -> phase s = Retrieving ->
  (aborting s = true /\ first_failed s = None \/
   aborting s = false /\ jobs s = [] /\ iterating s = false /\ n_disp s <= n_comp s) ->
  P (loop_exit s) None.
Hypothesis S_pop : forall s j js, P s None -> phase s = Retrieving -> aborting s = false -> jobs s = j :: js ->
  P (set_out s js (jset s) [] false Retrieving) (Some j).
Hypothesis S_drain_end : forall s, P s None -> phase s = Draining [] ->
  P (set_out s (jobs s) (jset s) [] false Finished) None.
Hypothesis S_drain_pop : forall s j js, P s None -> phase s = Draining (j :: js) ->
  P (set_out s (jobs s) (jset s) [] false (Draining js)) (Some j).
Hypothesis S_result_ok : forall s j, P s (Some j) -> P (deliver_list s (tasks_of s j)) None.
Hypothesis S_result_fail : forall s j, P s (Some j) -> P (finalize s Finished true true) None.
Hypothesis S_wf : forall s k, P s k -> 1 <= n_jobs (c s).

Lemma PS_drain b : P b None -> PS (fst (drain_s b)).
Proof.
  intros H. unfold drain_s. destruct (phase b) as [ | | | |rem| ] eqn:Hph; try exact H.
  destruct rem as [|j js]; cbn [fst]; unfold PS; cbn [base blk].
  - apply S_drain_end; assumption.
  - apply S_drain_pop; assumption.
Qed.

Lemma PS_adv b : P b None -> PS (fst (adv_s b)).
Proof.
  intros H. unfold adv_s. destruct (phase b) as [ | | | |rem| ] eqn:Hph; try exact H.
  - destruct (aborting b) eqn:Hab.
    + destruct (first_failed b) as [e|] eqn:Hff.
      * cbn [fst]. unfold PS; cbn [base blk]. eapply S_raise_fast; eassumption.
      * apply PS_drain. apply S_loop_exit; auto.
    + destruct (jobs b) as [|j js] eqn:Hj.
      * destruct (iterating b) eqn:Hit; cbn [orb]; [exact H|].
        destruct (n_comp b <? n_disp b) eqn:Hlt; [exact H|].
        apply PS_drain. apply S_loop_exit; auto. right. apply Nat.ltb_ge in Hlt. auto.
      * cbn [fst]. unfold PS; cbn [base blk]. apply S_pop; assumption.
  - pose proof (PS_drain b H) as Hd. unfold drain_s in Hd |- *. rewrite Hph in Hd |- *. exact Hd.
Qed.

Lemma P_cb_sync s k t b : P s k -> 1 <= n_jobs (c s) -> 1 <= b -> P (cb_sync s t b) k.
Proof.
  intros H Hnj Hb. unfold cb_sync.
  destruct (get_trk s t) as [tk|] eqn:Hk; [|exact H].
  destruct (mem_id t (inflight s)) eqn:Hm; [|exact H].
  apply mem_id_In in Hm.
  assert (He : P (cb_enter s t) k).
  { unfold cb_enter. rewrite Hk. unfold get_trk in Hk.
    destruct (Nat.eqb_spec (tk_cid tk) (cid s)) as [E|E]; cbn [negb orb].
    - destruct (aborting s) eqn:Hab.
      + eapply S_cb_move; eauto.
      + eapply S_cb_ghost; eauto.
    - eapply S_cb_move; eauto. }
  assert (Hnj' : 1 <= n_jobs (c (cb_enter s t))).
  { eapply S_wf. exact He. }
  exact (ParallelFrame3.P_cb_finish (fun x => P x k)
           (fun x tt kk Hx => S_cb_finish_noorig x k tt kk Hx)
           (fun x tt kk bb x2 r Hx => S_cb_finish_orig x k tt kk bb x2 r Hx)
           (fun x tt kk Hx => S_cb_stale x k tt kk Hx) (cb_enter s t) t b He Hnj' Hb).
Qed.

Lemma PS_step s e : PS s -> wf_sev e -> PS (fst (sstep s e)).
Proof.
  intros H Hwf. unfold PS in H. destruct s as [b k]. cbn [base blk] in H.
  pose proof (S_wf b k H) as Hnj.
  destruct e as [cf n f|bs|t bs|o]; cbn [sstep base blk].
  - destruct (running b) eqn:Hr; [exact H|].
    destruct (phase b) eqn:Hph; cbn [fst]; try exact H; unfold PS; cbn [base blk]; eapply S_call; eauto.
  - cbn [wf_sev] in Hwf. destruct k as [j|]; [destruct (phase b); exact H|].
    destruct (phase b) eqn:Hph; try exact H; rewrite fst_lift; apply PS_adv.
    + rewrite step_raw_dispatch_first by exact Hph.
      apply (S_start_first b bs _ _ H Hnj Hwf Hph). apply dispatch_one_batch_shape; assumption.
    + rewrite step_raw_dispatch_loop by exact Hph.
      apply (S_start_loop b bs _ _ H Hnj Hwf Hph). apply dispatch_one_batch_shape; assumption.
  - cbn [wf_sev] in Hwf. pose proof (P_cb_sync b k t bs H Hnj Hwf) as H1.
    destruct k as [j|]; [exact H1|]. rewrite fst_lift. apply PS_adv. exact H1.
  - destruct k as [j|]; [|exact H].
    destruct o as [e|]; [cbn [fst]; unfold PS; cbn [base blk]; eapply S_result_fail; exact H|].
    rewrite fst_lift. apply PS_adv. apply S_result_ok. exact H.
Qed.

(* a step either is the caller's retrieval loop run from a state that satisfies P, or returns nothing *)
Lemma PS_step_shape3 s e : PS s -> wf_sev e ->
  (exists x, P x None /\ sstep s e = lift (adv_s x)) \/ no_return (snd (sstep s e)).
Proof.
  intros H Hwf. unfold PS in H. destruct s as [b k]. cbn [base blk] in H.
  pose proof (S_wf b k H) as Hnj.
  assert (Hnil : forall x : sst, no_return (snd (x, @nil sobs))) by (intros x l []).
  destruct e as [cf n f|bs|t bs|o]; cbn [sstep base blk].
  - right. destruct (running b); [intros l [E | []]; discriminate E|]. destruct (phase b); apply Hnil.
  - cbn [wf_sev] in Hwf. destruct k as [j|]; [right; destruct (phase b); apply Hnil|].
    destruct (phase b) eqn:Hph; try (right; apply Hnil); left.
    + eexists. split; [|reflexivity]. rewrite step_raw_dispatch_first by exact Hph.
      apply (S_start_first b bs _ _ H Hnj Hwf Hph). apply dispatch_one_batch_shape; assumption.
    + eexists. split; [|reflexivity]. rewrite step_raw_dispatch_loop by exact Hph.
      apply (S_start_loop b bs _ _ H Hnj Hwf Hph). apply dispatch_one_batch_shape; assumption.
  - cbn [wf_sev] in Hwf. pose proof (P_cb_sync b k t bs H Hnj Hwf) as H1.
    destruct k as [j|]; [right; apply Hnil|]. left. eexists. split; [exact H1 | reflexivity].
  - destruct k as [j|]; [|right; apply Hnil].
    destruct o as [e|]; [right; intros l [E | []]; discriminate E|].
    left. eexists. split; [apply S_result_ok; exact H | reflexivity].
Qed.

Theorem PS_reach3 : forall s, sreach s -> PS s.
Proof.
  induction 1 as [|s e Hr IH Hwf]; [exact S_init|]. apply PS_step; assumption.
Qed.
End SyncPreservation3.

(* ---------------- principle B: the same with the callback's section split into its primitive
   transformers (count + close, dispatch_next, exhaustion flags) -- enough for invariants that hold in
   between ---------------- *)
Section SyncPreservation.
Variable P : st -> option nat -> Prop.

Hypothesis S_init : P init None.
Hypothesis S_call : forall s k cf n f, P s k -> wf_cfg cf -> running s = false ->
  (phase s = Idle \/ phase s = Finished) -> P (do_call s (list_cfg cf) n f) None.
Hypothesis S_start_first : forall s b s1 r, P s None -> 1 <= n_jobs (c s) -> 1 <= b -> phase s = StartFirst ->
  dispatch_shape s b false s1 r -> P (ParallelFrame2.start_first_next s1 r) None.
Hypothesis S_start_loop : forall s b s1 r, P s None -> 1 <= n_jobs (c s) -> 1 <= b -> phase s = StartLoop ->
  dispatch_shape s b false s1 r -> P (ParallelFrame2.start_loop_next s1 r) None.
Hypothesis S_cb_ghost : forall s k t tk, P s k -> nth_error (trk s) t = Some tk -> In t (inflight s) ->
  tk_cid tk = cid s -> aborting s = false -> P (cb_start s t None) k.
Hypothesis S_cb_move : forall s k t tk, P s k -> nth_error (trk s) t = Some tk -> In t (inflight s) ->
  (tk_cid tk <> cid s \/ aborting s = true) -> P (move_mid s t) k.
Hypothesis S_dispatch : forall s k b s' r, P s k -> 1 <= n_jobs (c s) -> 1 <= b -> orig s = true ->
  closed s <> [] -> dispatch_shape s b true s' r -> P s' k.
Hypothesis S_cb_close : forall s k t tk, P s k -> nth_error (trk s) t = Some tk -> In t (cbmid s) ->
  tk_cid tk = cid s -> P (mark_closed (add_comp s (length (tk_tasks tk)) (remove_id t (cbmid s))) t) k.
Hypothesis S_cb_stale : forall s k t tk, P s k -> nth_error (trk s) t = Some tk -> In t (cbmid s) ->
  tk_cid tk <> cid s -> P (add_comp s 0 (remove_id t (cbmid s))) k.
Hypothesis S_exhaust : forall s k, P s k -> orig s = true -> closed s <> [] ->
  (aborting s = true \/ (ready s = [] /\ N s <= taken s)) -> P (set_flags s false false (phase s)) k.
Hypothesis S_raise_fast : forall s e, P s None -> phase s = Retrieving -> aborting s = true ->
  first_failed s = Some e -> P (finalize s Finished true true) None.
Hypothesis S_loop_exit : forall s, P s None -> phase s = Retrieving ->
  (aborting s = true /\ first_failed s = None \/
   aborting s = false /\ jobs s = [] /\ iterating s = false /\ n_disp s <= n_comp s) ->
  P (loop_exit s) None.
Hypothesis S_pop : forall s j js, P s None -> phase s = Retrieving -> aborting s = false -> jobs s = j :: js ->
  P (set_out s js (jset s) [] false Retrieving) (Some j).
Hypothesis S_drain_end : forall s, P s None -> phase s = Draining [] ->
  P (set_out s (jobs s) (jset s) [] false Finished) None.
Hypothesis S_drain_pop : forall s j js, P s None -> phase s = Draining (j :: js) ->
  P (set_out s (jobs s) (jset s) [] false (Draining js)) (Some j).
Hypothesis S_result_ok : forall s j, P s (Some j) -> P (deliver_list s (tasks_of s j)) None.
Hypothesis S_result_fail : forall s j, P s (Some j) -> P (finalize s Finished true true) None.
Hypothesis S_wf : forall s k, P s k -> 1 <= n_jobs (c s).

Lemma comb_noorig : forall s k t tk, P s k -> nth_error (trk s) t = Some tk -> In t (cbmid s) ->
  tk_cid tk = cid s -> orig s = false -> P (closed_state s t tk) k.
Proof. intros s k t tk H Hk Hin Hc _. apply S_cb_close; assumption. Qed.

Lemma comb_orig : forall s k t tk b s2 r, P s k -> 1 <= n_jobs (c s) -> 1 <= b ->
  nth_error (trk s) t = Some tk -> In t (cbmid s) -> tk_cid tk = cid s -> orig s = true ->
  dispatch_shape (closed_state s t tk) b true s2 r ->
  P (if r then s2 else set_flags s2 false false (phase s2)) k.
Proof.
  intros s k t tk b s2 r H Hnj Hb Hk Hin Hc Ho Hsh.
  pose proof (S_cb_close s k t tk H Hk Hin Hc) as H1. fold (closed_state s t tk) in H1.
  assert (Hcl : closed (closed_state s t tk) <> []) by (cbn; destruct (closed s); discriminate).
  assert (Ho1 : orig (closed_state s t tk) = true) by exact Ho.
  assert (Hnj1 : 1 <= n_jobs (c (closed_state s t tk))) by exact Hnj.
  pose proof (S_dispatch _ k b s2 r H1 Hnj1 Hb Ho1 Hcl Hsh) as H2.
  destruct r; [exact H2|].
  inversion Hsh; subst.
  - apply S_exhaust; [exact H2 | exact Ho1 | exact Hcl | left; assumption].
  - apply S_exhaust; [exact H2 | exact Ho1 | exact Hcl |]. right. split; [assumption|].
    match goal with Hx : _ \/ _ \/ _ |- _ => destruct Hx as [Hy | [[Hy _] | Hy]];
      [exact Hy | discriminate Hy | exfalso; change (n_jobs (c (closed_state s t tk))) with (n_jobs (c s)) in Hy; nia] end.
Qed.

Theorem PS_reach : forall s, sreach s -> PS P s.
Proof.
  exact (PS_reach3 P S_init S_call S_start_first S_start_loop S_cb_ghost S_cb_move comb_noorig comb_orig S_cb_stale
           S_raise_fast S_loop_exit S_pop S_drain_end S_drain_pop S_result_ok S_result_fail S_wf).
Qed.

Lemma PS_step_shape s e : PS P s -> wf_sev e ->
  (exists x, P x None /\ sstep s e = lift (adv_s x)) \/ no_return (snd (sstep s e)).
Proof.
  exact (PS_step_shape3 P S_start_first S_start_loop S_cb_ghost S_cb_move comb_noorig comb_orig S_cb_stale
           S_result_ok S_wf s e).
Qed.
End SyncPreservation.
