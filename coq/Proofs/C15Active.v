(* C15 goes THROUGH the regenerated _get_active_backend (Gen/T_active_backend.v, shared with C17): the backend a Parallel
   call resolves to at a site is _get_active_backend applied to the context that joblib installed there (the nested backend
   that get_nested_backend returned, n_jobs None) and to the call's own hints. *)
From Coq Require Import ZArith List Bool Lia ZifyBool.
Require Import JV.Base.PyPrelude JV.Model.Config JV.Gen.T_active_backend JV.Proofs.Config JV.Model.NJobs.
Require Import JV.Gen.T_njobs JV.Gen.T_nested JV.Proofs.NJobs.
Import ListNotations.
Open Scope Z_scope.

Definition to_ck (k : kind) : ckind := match k with KSeq => BSeq | KThr => BThr | KLoky => BLoky | KMp => BMp end.
Definition of_ck (k : ckind) : kind :=
  match k with BSeq => KSeq | BThr => KThr | BLoky => KLoky | BMp => KMp | BCustShm => KThr | BCustProc => KLoky end.
Definition bk_of (b : cbk) : bk := {| bkind := of_ck (ck b); blevel := clevel b |}.

(* the thread-local configuration at a site: BatchedCalls.__call__ entered parallel_config(backend=<nested>, n_jobs=None);
   at the top level nothing is set *)
Definition site_config (s : site) : config :=
  {| c_backend := option_map (fun b => {| ck := to_ck (bkind b); clevel := blevel b |}) (s_ctx s);
     c_njobs := match s_ctx s with Some _ => Some None | None => None end;
     c_verbose := None; c_temp := None; c_maxnb := None; c_mmap := None; c_prefer := None; c_require := None |}.

Definition source_active (s : site) (h : hint) : result bk :=
  rmap (fun r : cbk * config => bk_of (fst r))
       (src_get_active_backend BLoky (Some (h_prefer h)) (Some (h_require h)) None (site_config s)).

Lemma of_to_ck : forall k, of_ck (to_ck k) = k.
Proof. intros []; reflexivity. Qed.

Lemma active_h_is_source : forall s h, source_active s h = active_h s h.
Proof.
  intros s [p r]. unfold source_active. rewrite src_active_backend_eq.
  unfold active_backend_dk, active_h, hint_valid, valid_prefer, valid_require, force_threads, force_processes, site_config, gcp.
  cbn [h_prefer h_require c_backend c_prefer c_require option_map].
  destruct (s_ctx s) as [[k l]|]; cbn [option_map bkind blevel];
    [destruct k; cbn [to_ck supports_sharedmem uses_threads kind_shm ck clevel negb andb orb]|
     cbn [supports_sharedmem uses_threads ck clevel negb andb orb]];
    repeat match goal with |- context [if ?c then _ else _] => destruct c eqn:? end;
    cbn [rmap fst bk_of ck clevel of_ck];
    first [ reflexivity | exfalso; lia ].
Qed.

(* what a Parallel(n_jobs=n, backend=bsel, <hints h>) call resolves to at site s, composed ONLY of regenerated code:
   _get_active_backend, then the class named by `backend=`, then _initialize_backend over the regenerated configure methods *)
Definition call_outcome_src (s : site) (bsel : option kind) (h : hint) (n : Z) : result (bk * Z) :=
  bind (bind (source_active s h) (fun ab =>
        match bsel with
        | None => Ok ab
        | Some k => if (h_require h =? 1) && negb (kind_shm k) then Raise ValueError
                    else Ok {| bkind := k; blevel := blevel ab |}
        end)) (fun b => initialize_backend_gen b (s_env s) n).

Lemma call_outcome_src_eq : forall s bsel h n, call_outcome_src s bsel h n = call_outcome s bsel h n.
Proof.
  intros. unfold call_outcome_src, call_outcome, chosen_r. rewrite active_h_is_source.
  destruct (bind (active_h s h) _) as [b|]; cbn [bind]; [apply initialize_backend_gen_eq|reflexivity].
Qed.

(* inside a worker (the context names a thread-based or sequential backend) NO hint of the nested call -- not even
   prefer='processes' -- makes the regenerated _get_active_backend hand back anything but the context's backend *)
Lemma source_active_in_worker : forall s b h, s_ctx s = Some b -> kind_shm (bkind b) = true ->
  source_active s h = if hint_valid h then Ok b else Raise ValueError.
Proof.
  intros s b h Hctx Hk. rewrite active_h_is_source. unfold active_h. rewrite Hctx, Hk.
  destruct (hint_valid h); cbn [negb]; [|reflexivity]. rewrite andb_false_r. reflexivity.
Qed.

Lemma nested_resolution_regenerated :
  (forall s h, source_active s h = active_h s h) /\
  (forall s bsel h n, call_outcome_src s bsel h n = call_outcome s bsel h n) /\
  (forall s b h, s_ctx s = Some b -> kind_shm (bkind b) = true ->
     source_active s h = if hint_valid h then Ok b else Raise ValueError).
Proof. split; [exact active_h_is_source|]. split; [exact call_outcome_src_eq | exact source_active_in_worker]. Qed.
