(* Pool / call layer of M10b: a call one of whose futures was failed never returns a result list;
   get_reusable_executor replaces a broken or shut-down executor by a pristine one. *)
From Coq Require Import ZArith List Bool Arith Lia.
Require Import JV.Model.LokyExec JV.Proofs.LokyProj JV.Proofs.LokyExec JV.Proofs.LokyExec2 JV.Proofs.LokyExec3.
Import ListNotations.

Definition pinv (s : pool) : Prop :=
  match cur s with
  | Some e => wf e /\ match call s with Some c => forall id, In id (ids c) -> id < nfut e | None => True end
  | None => call s = None
  end.

Lemma submit_ok : forall e e1 id, submit e = (e1, SOk id) -> id = nfut e /\ nfut e1 = S (nfut e).
Proof.
  intros e e1 id. unfold submit. destruct (broken e); [discriminate|]. destruct (shutdown e); [discriminate|].
  intros H. inversion H; subst. split; [reflexivity|]. unfold ensure_running.
  match goal with |- context [if ?c then ?a else ?b] => set (e2 := if c then a else b) end.
  assert (N : nfut e2 = S (nfut e)).
  { subst e2. destruct (Nat.eqb _ _); [reflexivity|]. unfold adjust_process_count.
    match goal with |- context [spawn_n ?n ?x] => destruct (spawn_n_frame n x) as (_ & B & _) end. rewrite B. reflexivity. }
  destruct (mgr e2); pj; exact N.
Qed.

Lemma submit_raise : forall e e1 x, submit e = (e1, SRaise x) -> e1 = e.
Proof.
  intros e e1 x. unfold submit. destruct (broken e); [intros H; inversion H; reflexivity|].
  destruct (shutdown e); intros H; inversion H; reflexivity.
Qed.

Lemma get_reusable_shape : forall s s' ok, get_reusable s = (s', ok) ->
  call s' = call s /\ outcomes s' = outcomes s /\ managed s' = managed s /\
  match cur s' with
  | Some e' => (exists mw qc p0, e' = new_exec mw qc p0) \/
               (exists e, cur s = Some e /\ (e' = e \/ e' = shutdown_flag false e))
  | None => False
  end.
Proof.
  intros s s' ok. unfold get_reusable. destruct (cur s) as [e|] eqn:Hc.
  - destruct (_ || _)%bool.
    + destruct (mgr_gone _); intros H; inversion H; subst; cbn; repeat split; try reflexivity.
      * left. eauto.
      * right. exists e. auto.
    + intros H; inversion H; subst. rewrite Hc. repeat split; try reflexivity. right. exists e. auto.
  - intros H; inversion H; subst; cbn. repeat split; try reflexivity. left. eauto.
Qed.

Lemma pinv_get_reusable : forall s s' ok, pinv s -> call s = None -> get_reusable s = (s', ok) -> pinv s' /\ call s' = None.
Proof.
  intros s s' ok P Hc H. destruct (get_reusable_shape s s' ok H) as (A & _ & _ & B).
  split; [|congruence]. unfold pinv. destruct (cur s') as [e'|]; [|destruct B].
  rewrite A, Hc. split; [|exact I]. destruct B as [(mw & qc & p0 & ->)|(e & He & [->| ->])].
  - apply wf_new.
  - unfold pinv in P. rewrite He in P. apply P.
  - unfold pinv in P. rewrite He in P. apply shutdown_flag_wf. apply P.
Qed.

Lemma configure_shape : forall s s' ok, configure s = (s', ok) ->
  exists s1, get_reusable s = (s1, ok) /\ cur s' = cur s1 /\ call s' = call s1 /\ outcomes s' = outcomes s1 /\
             managed s' = managed s1.
Proof.
  intros s s' ok. unfold configure. destruct (get_reusable s) as [s1 ok1] eqn:G.
  destruct ok1; intros H; inversion H; subst; (eexists; split; [reflexivity|]; cbn; repeat split; reflexivity).
Qed.

Lemma pinv_configure : forall s s' ok, pinv s -> call s = None -> configure s = (s', ok) -> pinv s' /\ call s' = None.
Proof.
  intros s s' ok P Hc H. destruct (configure_shape s s' ok H) as (s1 & G & A & B & _).
  destruct (pinv_get_reusable s s1 ok P Hc G) as [P1 C1]. split; [|congruence].
  unfold pinv in *. rewrite A, B. exact P1.
Qed.

Definition call_ids (s : pool) : option (list nat) :=
  match call s with Some c => Some (ids c) | None => None end.

(* what an executor event does at pool level *)
Lemma pex_shape : forall s ev,
   cur (pex s ev) = match cur s with Some e => Some (step e ev) | None => None end /\
   call_ids (pex s ev) = call_ids s /\ outcomes (pex s ev) = outcomes s /\ managed (pex s ev) = managed s.
Proof.
  intros s ev. unfold pex, note_error, with_cur, call_ids.
  destruct (cur s) as [e|] eqn:He; cbn [cur set_cur call outcomes managed]; rewrite ?He;
  destruct (call s) as [c|]; cbn [cur set_cur call outcomes managed]; rewrite ?He;
  try destruct (first_error c); cbn; rewrite ?He; auto.
Qed.

Lemma pstep_ex : forall s ev, pstep s (Ex ev) = s \/ pstep s (Ex ev) = pex s ev.
Proof. intros s ev. destruct ev; cbn; auto. Qed.

Lemma pinv_step : forall s ev, pinv s -> pinv (pstep s ev).
Proof.
  intros s ev P. destruct ev as [| |n| | | |ev]; [cbn [pstep] .. | idtac].
  - destruct (call s) eqn:Hc; [exact P|]. destruct (managed s); [exact P|].
    destruct (configure s) as [s1 ok] eqn:C. destruct (pinv_configure s s1 ok P Hc C) as [P1 C1].
    destruct ok; [|exact P1]. unfold pinv in *. cbn. exact P1.
  - destruct (call s) eqn:Hc; [exact P|]. unfold pinv in *. cbn. rewrite Hc in P.
    destruct (cur s); [split; [apply P | exact I] | reflexivity].
  - destruct (call s) eqn:Hc; [exact P|].
    destruct (if managed s then (s, (has_workers s && match cur s with Some _ => true | None => false end)%bool) else configure s) as [s1 ok] eqn:C.
    assert (P1 : pinv s1 /\ call s1 = None).
    { destruct (managed s); [inversion C; subst; auto | eapply pinv_configure; eauto]. }
    destruct P1 as [P1 C1]. destruct ok; [|exact P1].
    unfold pinv in *. unfold set_call; cbn. destruct (cur s1) eqn:Hc1; [|].
    + split; [apply P1 | intros id []].
    + (* no executor: cannot happen after a successful configure, keep the invariant shape *)
      exfalso. destruct (managed s) eqn:Hm.
      * inversion C; subst. rewrite Hc1, andb_false_r in H1. discriminate.
      * destruct (configure_shape s s1 true C) as (s2 & G & A & _).
        destruct (get_reusable_shape s s2 true G) as (_ & _ & _ & B). rewrite <- A in B.
        rewrite Hc1 in B. exact B.
  - destruct (call s) as [c|] eqn:Hc; [|exact P]. destruct (cur s) as [e|] eqn:He; [|exact P].
    destruct (_ || _)%bool; [exact P|].
    unfold pinv in P. rewrite He, Hc in P. destruct P as [W Hid].
    destruct (submit e) as [e1 [id|x]] eqn:Hs.
    + destruct (submit_ok e e1 id Hs) as [-> N]. unfold pinv, set_call, set_cur; cbn.
      split; [pose proof (wf_submit e W) as W1; rewrite Hs in W1; exact W1|].
      intros i Hi. apply in_app_or in Hi. destruct Hi as [Hi|[<-|[]]]; [specialize (Hid i Hi)|]; lia.
    + rewrite (submit_raise e e1 x Hs). unfold pinv, set_call, set_cur; cbn.
      destruct (shutdown_flag_wf true e W) as [W1 [N _]]. split; [exact W1|]. intros i Hi. specialize (Hid i Hi). lia.
  - destruct (call s) as [c|] eqn:Hc; [|exact P]. destruct (cur s) as [e|] eqn:He; [|exact P].
    unfold pinv in P. rewrite He, Hc in P. destruct P as [W Hid].
    destruct (aborting c); [unfold pinv; rewrite He, Hc; auto|].
    destruct (first_error c).
    + unfold pinv, set_call, set_cur; cbn. destruct (shutdown_flag_wf true e W) as [W1 [N _]].
      split; [exact W1|]. intros i Hi. specialize (Hid i Hi). lia.
    + destruct (Nat.eqb _ _); [|unfold pinv; rewrite He, Hc; auto].
      destruct (results_of _ _); [|unfold pinv; rewrite He, Hc; auto].
      unfold pinv; cbn. try rewrite He. auto.
  - destruct (call s) as [c|] eqn:Hc; [|exact P]. destruct (cur s) as [e|] eqn:He; [|exact P].
    destruct (_ && _)%bool; [|exact P]. destruct (first_error c); [|exact P].
    set (s1 := finish_raise f s).
    assert (P1 : pinv s1 /\ call s1 = None).
    { subst s1. unfold finish_raise, pinv in *; cbn. rewrite He in *. split; [split; [apply P | exact I] | reflexivity]. }
    destruct (managed s1); [|apply P1]. destruct (configure s1) as [s2 ok] eqn:C.
    cbn [fst]. eapply pinv_configure; [apply P1 | apply P1 | exact C].
  - destruct (pstep_ex s ev) as [-> | ->]; [exact P|].
    destruct (pex_shape s ev) as (A & B & _).
    unfold pinv in *. rewrite A. destruct (cur s) as [e|] eqn:He.
    + destruct P as [W Hid]. destruct (step_wf e ev W) as [W1 [N _]]. split; [exact W1|].
      unfold call_ids in B. destruct (call (pex s ev)) as [c'|]; [|exact I].
      destruct (call s) as [c|]; [|discriminate]. inversion B as [B']. rewrite B'.
      intros i Hi. specialize (Hid i Hi). lia.
    + unfold call_ids in B. rewrite P in B. destruct (call (pex s ev)); [discriminate | reflexivity].
Qed.

(* ------------------------------------------------------------------ no partial results *)
(* a future of the running call holds an exception *)
Definition doomed (s : pool) : Prop :=
  exists c e id x, call s = Some c /\ cur s = Some e /\ In id (ids c) /\ futs e id = FExc x.

Lemma results_of_exc : forall f l id x, In id l -> f id = FExc x -> results_of f l = None.
Proof.
  intros f l id x. induction l as [|a t IH]; intros Hin Hf; [destruct Hin|].
  unfold results_of. cbn [fold_right]. fold (results_of f t). destruct Hin as [->|Hin].
  - rewrite Hf. reflexivity.
  - rewrite (IH Hin Hf). destruct (f a); reflexivity.
Qed.

Lemma doomed_step : forall s ev, pinv s -> doomed s ->
  (doomed (pstep s ev) /\ outcomes (pstep s ev) = outcomes s) \/
  (exists x, outcomes (pstep s ev) = ORaise x :: outcomes s).
Proof.
  intros s ev P (c & e & id & x & Hc & He & Hin & Hf).
  assert (D0 : doomed s) by (exists c, e, id, x; auto).
  unfold pinv in P. rewrite He, Hc in P. destruct P as [W Hid].
  assert (St : forall e', ext e e' -> futs e' id = FExc x).
  { intros e' [_ X]. rewrite X; [exact Hf | apply Hid; exact Hin | rewrite Hf; reflexivity]. }
  destruct ev as [| |n| | | |ev]; [cbn [pstep]; rewrite ?Hc, ?He .. | idtac].
  - left; auto.
  - left; auto.
  - left; auto.
  - destruct (_ || _)%bool; [left; auto|]. destruct (submit e) as [e1 [i|y]] eqn:Hs.
    + left. split; [|reflexivity]. exists (mkCall (ntasks c) (ids c ++ [i]) None false), e1, id, x. cbn.
      repeat split; try reflexivity; [apply in_or_app; left; exact Hin|].
      apply St. pose proof (submit_ext e) as X. rewrite Hs in X. exact X.
    + left. split; [|reflexivity]. rewrite (submit_raise e e1 y Hs).
      exists (mkCall (ntasks c) (ids c) (Some y) true), (shutdown_flag true e), id, x. cbn.
      repeat split; try reflexivity; [exact Hin|]. apply St. apply shutdown_flag_wf. exact W.
  - destruct (aborting c); [left; auto|]. destruct (first_error c) as [y|].
    + left. split; [|reflexivity]. exists (mkCall (ntasks c) (ids c) (Some y) true), (shutdown_flag true e), id, x. cbn.
      repeat split; try reflexivity; [exact Hin|]. apply St. apply shutdown_flag_wf. exact W.
    + destruct (Nat.eqb _ _); [|left; auto]. rewrite (results_of_exc (futs e) (ids c) id x Hin Hf). left; auto.
  - destruct (_ && _)%bool; [|left; auto]. destruct (first_error c) as [y|]; [|left; auto].
    right. exists y. unfold finish_raise. destruct (managed _) eqn:Hm; [|reflexivity].
    cbn [managed] in Hm.
    match goal with |- context [configure ?S] => destruct (configure S) as [s2 ok] eqn:C end.
    destruct (configure_shape _ _ _ C) as (s1 & G & _ & _ & O & _).
    destruct (get_reusable_shape _ _ _ G) as (_ & O1 & _). cbn [fst]. rewrite O, O1. reflexivity.
  - destruct (pstep_ex s ev) as [-> | ->]; [left; auto|]. left.
    destruct (pex_shape s ev) as (A & B & O & _). split; [|exact O].
    unfold call_ids in B. rewrite Hc in B. destruct (call (pex s ev)) as [c'|] eqn:Hc'; [|discriminate].
    inversion B as [B']. rewrite He in A. exists c', (step e ev), id, x. repeat split; try assumption.
    + rewrite B'. exact Hin.
    + apply St. apply step_wf. exact W.
Qed.

(* C10_no_partial: once a future of the running call has been failed, whatever happens next the call
   can only end by raising; it never returns a result list *)
Lemma no_partial : forall evs s, pinv s -> doomed s ->
  (doomed (prun s evs) /\ outcomes (prun s evs) = outcomes s) \/
  (exists evs1 ev evs2 x, evs = evs1 ++ ev :: evs2 /\ outcomes (prun s (evs1 ++ [ev])) = ORaise x :: outcomes s /\
                          outcomes (prun s evs1) = outcomes s).
Proof.
  induction evs as [|ev t IH]; intros s P D.
  - left. auto.
  - cbn [prun fold_left]. fold (prun (pstep s ev) t).
    destruct (doomed_step s ev P D) as [[D1 O1]|[x O1]].
    + destruct (IH (pstep s ev) (pinv_step s ev P) D1) as [[D2 O2]|(e1 & ev' & e2 & x & E & O2 & O3)].
      * left. split; [exact D2 | congruence].
      * right. exists (ev :: e1), ev', e2, x. split; [rewrite E; reflexivity|].
        cbn [app prun fold_left]. fold (prun (pstep s ev) (e1 ++ [ev'])). fold (prun (pstep s ev) e1).
        split; congruence.
    + right. exists [], ev, t, x. split; [reflexivity|]. cbn. split; [exact O1 | reflexivity].
Qed.

(* ------------------------------------------------------------------------- healing *)
(* get_reusable_executor on a broken or shut-down executor: either the caller is still blocked in
   shutdown(wait=True), or it gets a pristine executor whose first pid is beyond every pid the old
   executor ever allocated *)
Lemma heal : forall s e s', cur s = Some e -> (broken e <> None \/ shutdown e = true) ->
  get_reusable s = (s', true) ->
  exists e', cur s' = Some e' /\ e' = new_exec (p_maxw s) (p_qcap s) (pidc e) /\
             broken e' = None /\ shutdown e' = false /\ procs e' = [] /\ faulted e' = false /\ mgr e' = NotStarted /\
             mgr_gone e = true.
Proof.
  intros s e s' Hc Hb. unfold get_reusable. rewrite Hc.
  assert (Hbs : (match broken e with Some _ => true | None => false end || shutdown e)%bool = true).
  { destruct Hb as [Hb|Hb]; [destruct (broken e); [reflexivity | contradiction] | rewrite Hb; apply orb_true_r]. }
  rewrite Hbs.
  assert (Pc : pidc (shutdown_flag false e) = pidc e /\ mgr (shutdown_flag false e) = mgr e).
  { unfold shutdown_flag. destruct (mgr (set_flags e (broken e) true false)) eqn:Hm; pj; auto. }
  destruct Pc as [Pc Pm].
  destruct (mgr_gone (shutdown_flag false e)) eqn:Hg; intros H; inversion H; subst; cbn.
  eexists. split; [reflexivity|]. rewrite Pc. repeat split; try reflexivity.
  unfold mgr_gone in *. rewrite Pm in Hg. exact Hg.
Qed.
