(* C08: the byte serialisation of opcode sequences is uniquely decodable (a prefix code per opcode,
   given that every field fits its width), and pickle.encode_long is inverted by [dec_long]. *)
From Coq Require Import ZArith List Bool Lia.
Require Import JV.Model.HashEnc.
Import ListNotations.
Open Scope Z_scope.

Ltac dlia := Z.to_euclidean_division_equations; lia.

Definition op_wf (o : op) : Prop :=
  match o with
  | OBinInt1 z => 0 <= z < 256
  | OBinInt2 z => 0 <= z < 65536
  | OBinInt z => -2147483648 <= z < 2147483648
  | OLong1 bs => zlen bs < 256
  | OLong4 bs => zlen bs < 4294967296
  | OBinFloat b => 0 <= b < 18446744073709551616
  | OBinUnicode u => zlen u < 4294967296
  | OShortBinBytes bs => zlen bs < 256
  | OBinBytes bs => zlen bs < 4294967296
  | OBinPut i | OBinGet i => 0 <= i < 256
  | OLongBinPut i | OLongBinGet i => 0 <= i < 4294967296
  | _ => True
  end.

Lemma le_bytes_length n u : length (le_bytes n u) = n.
Proof. revert u. induction n; intros u; cbn; auto. Qed.


Fixpoint le_val (bs : list byte) : Z := match bs with [] => 0 | b :: t => b + 256 * le_val t end.

Lemma le_val_le_bytes n : forall u, 0 <= u -> le_val (le_bytes n u) = u mod 256 ^ Z.of_nat n.
Proof.
  induction n as [|n IH]; intros u Hu.
  - cbn. rewrite Z.mod_1_r. reflexivity.
  - cbn [le_bytes le_val]. rewrite IH by (apply Z.div_pos; lia).
    rewrite Nat2Z.inj_succ, Z.pow_succ_r by lia.
    rewrite (Z.rem_mul_r u 256 (256 ^ Z.of_nat n)); [reflexivity|lia|]. apply Z.pow_pos_nonneg; lia.
Qed.

Lemma le_val_small n u : 0 <= u < 256 ^ Z.of_nat n -> le_val (le_bytes n u) = u.
Proof. intros H. rewrite le_val_le_bytes by lia. apply Z.mod_small. exact H. Qed.

Lemma zlen_eq {A} (a b : list A) : zlen a = zlen b -> length a = length b.
Proof. unfold zlen. lia. Qed.
Lemma zlen_nonneg {A} (a : list A) : 0 <= zlen a.
Proof. unfold zlen. lia. Qed.

Lemma firstn_app_exact {A} (a r : list A) : firstn (length a) (a ++ r) = a.
Proof. induction a; cbn; congruence. Qed.
Lemma skipn_app_exact {A} (a r : list A) : skipn (length a) (a ++ r) = r.
Proof. induction a; cbn; congruence. Qed.

Lemma firstn_app_len {A} n (a r : list A) : length a = n -> firstn n (a ++ r) = a.
Proof. intros <-. apply firstn_app_exact. Qed.
Lemma skipn_app_len {A} n (a r : list A) : length a = n -> skipn n (a ++ r) = r.
Proof. intros <-. apply skipn_app_exact. Qed.

Fixpoint starts_with (p l : list byte) : bool :=
  match p, l with
  | [], _ => true
  | x :: p', y :: l' => (x =? y) && starts_with p' l'
  | _ :: _, [] => false
  end.
Lemma starts_with_app p r : starts_with p (p ++ r) = true.
Proof. induction p; cbn; [reflexivity|]. rewrite Z.eqb_refl. exact IHp. Qed.

(* payload of n-byte-length-prefixed opcodes *)
Definition take_payload (n : nat) (l : list byte) : list byte * list byte :=
  let k := Z.to_nat (le_val (firstn n l)) in (firstn k (skipn n l), skipn k (skipn n l)).

Lemma take_payload_ok n p r : zlen p < 256 ^ Z.of_nat n ->
  take_payload n (le_bytes n (zlen p) ++ p ++ r) = (p, r).
Proof.
  intros H. unfold take_payload. pose proof (zlen_nonneg p).
  rewrite (firstn_app_len n), (skipn_app_len n) by apply le_bytes_length.
  rewrite le_val_small by lia.
  unfold zlen. rewrite Nat2Z.id, firstn_app_exact, skipn_app_exact. reflexivity.
Qed.

Definition take_num (n : nat) (l : list byte) : Z * list byte := (le_val (firstn n l), skipn n l).
Lemma take_num_ok n u r : 0 <= u < 256 ^ Z.of_nat n -> take_num n (le_bytes n u ++ r) = (u, r).
Proof.
  intros H. unfold take_num.
  rewrite (firstn_app_len n), (skipn_app_len n) by apply le_bytes_length.
  rewrite le_val_small by lia. reflexivity.
Qed.

(* one step of a byte-level opcode reader (a proof device, not a model of anything in joblib) *)
Definition parse1 (l : list byte) : option (op * list byte) :=
  match l with
  | [] => None
  | b :: r =>
    if b =? 128 then match r with _ :: r' => Some (OProto, r') | [] => None end
    else if b =? 46 then Some (OStop, r)
    else if b =? 78 then Some (ONone, r)
    else if b =? 136 then Some (OTrue, r)
    else if b =? 137 then Some (OFalse, r)
    else if b =? 75 then let (u, r') := take_num 1 r in Some (OBinInt1 u, r')
    else if b =? 77 then let (u, r') := take_num 2 r in Some (OBinInt2 u, r')
    else if b =? 74 then let (u, r') := take_num 4 r in
                         Some (OBinInt (if u <? 2147483648 then u else u - 4294967296), r')
    else if b =? 138 then let (p, r') := take_payload 1 r in Some (OLong1 p, r')
    else if b =? 139 then let (p, r') := take_payload 4 r in Some (OLong4 p, r')
    else if b =? 71 then Some (OBinFloat (le_val (rev (firstn 8 r))), skipn 8 r)
    else if b =? 88 then let (p, r') := take_payload 4 r in Some (OBinUnicode p, r')
    else if b =? 67 then let (p, r') := take_payload 1 r in Some (OShortBinBytes p, r')
    else if b =? 66 then let (p, r') := take_payload 4 r in Some (OBinBytes p, r')
    else if b =? 41 then Some (OEmptyTuple, r)
    else if b =? 133 then Some (OTuple1, r)
    else if b =? 134 then Some (OTuple2, r)
    else if b =? 135 then Some (OTuple3, r)
    else if b =? 40 then Some (OMark, r)
    else if b =? 116 then Some (OTuple, r)
    else if b =? 93 then Some (OEmptyList, r)
    else if b =? 97 then Some (OAppend, r)
    else if b =? 101 then Some (OAppends, r)
    else if b =? 125 then Some (OEmptyDict, r)
    else if b =? 115 then Some (OSetItem, r)
    else if b =? 117 then Some (OSetItems, r)
    else if b =? 113 then let (u, r') := take_num 1 r in Some (OBinPut u, r')
    else if b =? 114 then let (u, r') := take_num 4 r in Some (OLongBinPut u, r')
    else if b =? 104 then let (u, r') := take_num 1 r in Some (OBinGet u, r')
    else if b =? 106 then let (u, r') := take_num 4 r in Some (OLongBinGet u, r')
    else if b =? 99 then
      if starts_with (name_module ++ name_set) r
      then Some (OGlobal false, skipn (length (name_module ++ name_set)) r)
      else if starts_with (name_module ++ name_fset) r
      then Some (OGlobal true, skipn (length (name_module ++ name_fset)) r)
      else None
    else if b =? 129 then Some (ONewObj, r)
    else if b =? 98 then Some (OBuild, r)
    else None
  end.

Lemma parse1_ser o r : op_wf o -> parse1 (ser o ++ r) = Some (o, r).
Proof.
  intros W. destruct o; cbn [ser app op_wf] in *; unfold parse1; cbn [Z.eqb Pos.eqb];
    try reflexivity.
  - rewrite (take_num_ok 1) by (cbn; lia). reflexivity.
  - rewrite (take_num_ok 2) by (cbn; lia). reflexivity.
  - rewrite (take_num_ok 4) by (cbn; dlia). repeat f_equal.
    destruct (z mod 4294967296 <? 2147483648) eqn:E; [apply Z.ltb_lt in E|apply Z.ltb_ge in E]; dlia.
  - rewrite <- app_assoc, (take_payload_ok 1) by (cbn; lia). reflexivity.
  - rewrite <- app_assoc, (take_payload_ok 4) by (cbn; lia). reflexivity.
  - unfold be_bytes.
    rewrite (firstn_app_len 8), (skipn_app_len 8) by (rewrite rev_length; apply le_bytes_length).
    rewrite rev_involutive, (le_val_small 8) by (cbn; lia). reflexivity.
  - rewrite <- app_assoc, (take_payload_ok 4) by (cbn; lia). reflexivity.
  - rewrite <- app_assoc, (take_payload_ok 1) by (cbn; lia). reflexivity.
  - rewrite <- app_assoc, (take_payload_ok 4) by (cbn; lia). reflexivity.
  - rewrite (take_num_ok 1) by (cbn; lia). reflexivity.
  - rewrite (take_num_ok 4) by (cbn; lia). reflexivity.
  - rewrite (take_num_ok 1) by (cbn; lia). reflexivity.
  - rewrite (take_num_ok 4) by (cbn; lia). reflexivity.
  - destruct frozen; cbn [ser app]; cbn [Z.eqb Pos.eqb].
    + rewrite starts_with_app, skipn_app_exact.
      replace (starts_with (name_module ++ name_set) ((name_module ++ name_fset) ++ r)) with false by reflexivity.
      reflexivity.
    + rewrite starts_with_app, skipn_app_exact. reflexivity.
Qed.

Lemma ser_inj o1 o2 r1 r2 : op_wf o1 -> op_wf o2 -> ser o1 ++ r1 = ser o2 ++ r2 -> o1 = o2 /\ r1 = r2.
Proof.
  intros W1 W2 H. pose proof (parse1_ser o1 r1 W1) as P1. rewrite H, (parse1_ser o2 r2 W2) in P1.
  injection P1 as -> ->. split; reflexivity.
Qed.

Lemma ser_nonempty o : ser o <> [].
Proof. destruct o as [| | | | | | | | | | | | | | | | | | | | | | | | | | | | | |[]| |]; discriminate. Qed.

Theorem ser_all_inj ops1 : forall ops2, Forall op_wf ops1 -> Forall op_wf ops2 ->
  ser_all ops1 = ser_all ops2 -> ops1 = ops2.
Proof.
  unfold ser_all. induction ops1 as [|o1 t1 IH]; intros [|o2 t2] W1 W2 H; cbn [flat_map] in H; auto.
  - symmetry in H. apply app_eq_nil in H. destruct H as [H _]. exfalso. eapply ser_nonempty; eauto.
  - apply app_eq_nil in H. destruct H as [H _]. exfalso. eapply ser_nonempty; eauto.
  - inversion W1; subst. inversion W2; subst. apply ser_inj in H; auto. destruct H as [-> H]. f_equal. apply IH; auto.
Qed.

(* ---------------------------------------------------------------- pickle.decode_long *)
Definition dec_long (bs : list byte) : Z :=
  let n := zlen bs in let u := le_val bs in
  if n =? 0 then 0 else if u <? 2 ^ (8 * n - 1) then u else u - 2 ^ (8 * n).

Lemma pow256 n : 0 <= n -> 256 ^ n = 2 ^ (8 * n).
Proof. intros. change 256 with (2 ^ 8). rewrite <- Z.pow_mul_r; lia. Qed.

Lemma le_val_nat n u : 0 <= u -> 0 <= n -> le_val (le_bytes (Z.to_nat n) u) = u mod 2 ^ (8 * n).
Proof. intros Hu Hn. rewrite le_val_le_bytes, Z2Nat.id, pow256 by lia. reflexivity. Qed.
Lemma zlen_le_bytes n u : 0 <= n -> zlen (le_bytes (Z.to_nat n) u) = n.
Proof. intros. unfold zlen. rewrite le_bytes_length. lia. Qed.

Theorem dec_enc_long x : dec_long (encode_long x) = x.
Proof.
  unfold encode_long. destruct (x =? 0) eqn:E0; [apply Z.eqb_eq in E0; subst; reflexivity|].
  apply Z.eqb_neq in E0.
  set (L := Z.log2 (Z.abs x)). set (n := (L + 1) / 8 + 1).
  assert (HL : 0 <= L) by apply Z.log2_nonneg.
  assert (Hn : 1 <= n) by (unfold n; dlia).
  assert (H8n : L + 1 <= 8 * n - 1) by (unfold n; dlia).
  assert (Habs : Z.abs x < 2 ^ (8 * n - 1)).
  { assert (Hp : 0 < Z.abs x) by lia. destruct (Z.log2_spec (Z.abs x) Hp) as [_ Hlt]. fold L in Hlt.
    eapply Z.lt_le_trans; [exact Hlt|]. apply Z.pow_le_mono_r; lia. }
  set (M := 2 ^ (8 * n)).
  assert (HM : M = 2 * 2 ^ (8 * n - 1)).
  { unfold M. rewrite <- Z.pow_succ_r by lia. f_equal. lia. }
  set (Hf := 2 ^ (8 * n - 1)) in *.
  assert (HHf : 0 < Hf) by (apply Z.pow_pos_nonneg; lia).
  set (u := x mod M).
  assert (Hu : u = if x <? 0 then x + M else x).
  { unfold u. destruct (x <? 0) eqn:Ex.
    - symmetry. apply (Z.mod_unique x M (-1) (x + M)); lia.
    - apply Z.mod_small. lia. }
  assert (Hu0 : 0 <= u < M) by (destruct (x <? 0) eqn:Ex; lia).
  match goal with |- dec_long (if ?c then _ else _) = _ => destruct c eqn:Ec end.
  - (* trimmed *)
    apply andb_prop in Ec. destruct Ec as [Ec T2]. apply andb_prop in Ec. destruct Ec as [Ec T1].
    apply andb_prop in Ec. destruct Ec as [Ex En].
    rewrite Ex in Hu.
    apply Z.ltb_lt in Ex, En. apply Z.eqb_eq in T1. apply Z.leb_le in T2.
    set (M1 := 2 ^ (8 * (n - 1))) in *. set (M2 := 2 ^ (8 * (n - 2))) in *.
    assert (HM1 : M = 256 * M1).
    { unfold M, M1. change 256 with (2 ^ 8). rewrite <- Z.pow_add_r by lia. f_equal. lia. }
    assert (HM2 : M1 = M2 * 256).
    { unfold M1, M2. change 256 with (2 ^ 8). rewrite <- Z.pow_add_r by lia. f_equal. lia. }
    assert (HM1p : 0 < M1) by (apply Z.pow_pos_nonneg; lia).
    assert (HM2p : 0 < M2) by (apply Z.pow_pos_nonneg; lia).
    assert (Hthr : 2 ^ (8 * (n - 1) - 1) = 128 * M2).
    { unfold M2. change 128 with (2 ^ 7). rewrite <- Z.pow_add_r by lia. f_equal. lia. }
    unfold dec_long. rewrite zlen_le_bytes, le_val_nat by lia. fold M1. rewrite Hthr.
    assert (Hq : u / M1 = 255).
    { assert (0 <= u / M1) by (apply Z.div_pos; lia).
      assert (u / M1 < 256) by (apply Z.div_lt_upper_bound; lia).
      rewrite Z.mod_small in T1 by lia. exact T1. }
    pose proof (Z.div_mod u M1 ltac:(lia)) as Hdm. rewrite Hq in Hdm.
    assert (Hr : 128 * M2 <= u mod M1).
    { rewrite HM2. rewrite (Z.rem_mul_r u M2 256) by lia.
      pose proof (Z.mod_pos_bound u M2 HM2p).
      assert (M2 * 128 <= M2 * ((u / M2) mod 256)) by (apply Z.mul_le_mono_nonneg_l; lia). lia. }
    destruct (n - 1 =? 0) eqn:En1; [apply Z.eqb_eq in En1; lia|].
    destruct (u mod M1 <? 128 * M2) eqn:Elt; [apply Z.ltb_lt in Elt; lia|]. lia.
  - (* not trimmed *)
    unfold dec_long. rewrite zlen_le_bytes, le_val_nat by lia. fold M. fold Hf.
    rewrite (Z.mod_small u M) by lia.
    destruct (n =? 0) eqn:En0; [apply Z.eqb_eq in En0; lia|].
    destruct (x <? 0) eqn:Ex.
    + apply Z.ltb_lt in Ex. destruct (u <? Hf) eqn:Elt; [apply Z.ltb_lt in Elt; lia|lia].
    + apply Z.ltb_ge in Ex. destruct (u <? Hf) eqn:Elt; [lia|apply Z.ltb_ge in Elt; lia].
Qed.
