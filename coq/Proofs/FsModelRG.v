(* M5, part 2: well-formed participants, the per-participant stage invariant, preservation of the
   state invariant by every step of every participant (any number of participants, any schedule,
   kills and torn writes included), and the sequential corollaries (run, crash_run). *)
From Coq Require Import ZArith List Bool Lia.
Require Import JV.Base.PyPrelude JV.Model.FsModel JV.Proofs.FsModelBase.
Import ListNotations.
Open Scope Z_scope.

Section RG.
Variable outok : Z -> bytes -> Prop.
Variable metaok : bytes -> Prop.
Variable codeok : bytes -> Prop.
Variable codew : bytes -> Prop.
Variable Extra : fs -> Prop.
Variable xok : fsop -> Prop.

Hypothesis codeok_nil : codeok [].
Hypothesis codeok_overlay : forall b old, codew b -> codeok old -> codeok (overlay b old).
Hypothesis codew_firstn : forall b j, codew b -> codew (firstn j b).
Hypothesis extra_step : forall o s, allowed codew o -> xok o -> Inv outok metaok codeok s -> Extra s ->
  Extra (snd (exec o s)).
Hypothesis xok_torn : forall q b j, xok (Write q b) -> xok (Write q (firstn j b)).
(* the write-then-rename pattern only touches <k>/output.pkl, <k>/metadata.json and their
   temporaries; the extra invariant does not look at them *)
Hypothesis extra_entry : forall o s,
  match o with
  | Creat p | Write p _ => is_tmp p = true
  | Rename p d => is_tmp p = true /\ is_final d = true
  | _ => False
  end -> Extra s -> Extra (snd (exec o s)).

Notation Inv := (Inv outok metaok codeok).
Notation J := (J outok metaok codeok Extra).
Notation allowed := (allowed codew).
Notation tmp_final := (tmp_final outok metaok).

Section Wf.
Variable A : Type.
Variable t : Z.
Variable Q : A -> Prop.

(* a participant program: harmless operations, and the fixed pattern
   creat(tmp) ; write(tmp, complete bytes) ; rename(tmp, final) for its OWN temporary names.
   Continuations need to be well formed only for results that can arise in a state satisfying J. *)
Inductive wf : prog A -> Prop :=
| wf_ret a : Q a -> wf (Ret a)
| wf_op o k : allowed o -> xok o -> (forall s, J s -> wf (k (fst (exec o s)))) -> wf (Op o k)
| wf_csw tmp final b k :
    tmp_final t tmp final b ->
    (forall e, wf (k (RErr e))) ->
    (forall r, is_ok r = true -> wstage tmp final b (k r)) ->
    wf (Op (Creat tmp) k)
with wstage : path -> path -> bytes -> prog A -> Prop :=
| ws_intro tmp final b k : (forall r, rstage tmp final (k r)) -> wstage tmp final b (Op (Write tmp b) k)
with rstage : path -> path -> prog A -> Prop :=
| rs_intro tmp final k : (forall r, wf (k r)) -> rstage tmp final (Op (Rename tmp final) k).

Lemma wf_op_all : forall o k, allowed o -> xok o -> (forall r, wf (k r)) -> wf (Op o k).
Proof. intros; apply wf_op; auto. Qed.

(* where a participant stands, relative to the current file system *)
Inductive pst (s : fs) : prog A -> Prop :=
| pst_wf p : wf p -> pst s p
| pst_w tmp final b p : tmp_final t tmp final b -> wstage tmp final b p ->
    (lookup tmp s = None \/ lookup tmp s = Some []) -> pst s p
| pst_r tmp final b p : tmp_final t tmp final b -> rstage tmp final p ->
    (lookup tmp s = None \/ lookup tmp s = Some b) -> pst s p.

(* the paths whose content the participant relies on *)
Definition mine (p : path) : Prop := exists k, p = POutT k t \/ p = PMetaT k t.

Lemma tmp_final_mine : forall tmp final b, tmp_final t tmp final b -> mine tmp.
Proof. intros tmp final b [(k & -> & _)|(k & -> & _)]; exists k; auto. Qed.

(* own step *)
Lemma pst_step : forall s o k, J s -> pst s (Op o k) ->
  J (snd (exec o s)) /\ pst (snd (exec o s)) (k (fst (exec o s))).
Proof.
  intros s o k [HI HX] Hp. inversion Hp as [p Hwf|tmp final b p Htf Hws Hl|tmp final b p Htf Hrs Hl]; subst.
  - inversion Hwf as [|o' k' Ha Hx Hk|tmp final b k' Htf He Hok]; subst.
    + split; [split; [eapply allowed_inv; eauto | apply extra_step; auto]|].
      apply pst_wf. apply Hk. split; auto.
    + destruct (tmp_final_is_tmp _ _ _ _ _ _ Htf) as [Htmp _].
      split; [split; [eapply creat_tmp_inv; eauto | apply extra_entry; auto]|].
      simpl. destruct (parent_present tmp s) eqn:Hpp; simpl.
      * eapply pst_w; eauto. right. rewrite lookup_set, path_eqb_refl; reflexivity.
      * apply pst_wf; apply He.
  - inversion Hws as [tmp' final' b' k' Hk]; subst.
    destruct (tmp_final_is_tmp _ _ _ _ _ _ Htf) as [Htmp _].
    split; [split; [eapply write_tmp_inv; eauto | apply extra_entry; auto]|].
    simpl. destruct Hl as [Hl|Hl]; rewrite Hl; simpl.
    + eapply pst_r; eauto.
    + eapply pst_r; eauto. right. rewrite lookup_set, path_eqb_refl, overlay_nil; reflexivity.
  - inversion Hrs as [tmp' final' k' Hk]; subst.
    destruct (tmp_final_is_tmp _ _ _ _ _ _ Htf) as [Htmp _].
    split; [split; [eapply rename_tmp_inv; eauto | apply extra_entry; auto; split; auto; eapply tmp_final_is_final; eauto]|].
    apply pst_wf; apply Hk.
Qed.

(* dying inside a write *)
Lemma pst_torn : forall s q b k j, J s -> pst s (Op (Write q b) k) ->
  J (snd (exec (Write q (firstn j b)) s)).
Proof.
  intros s q b k j [HI HX] Hp. inversion Hp as [p Hwf|tmp final b' p Htf Hws Hl|tmp final b' p Htf Hrs Hl]; subst.
  - inversion Hwf as [|o' k' Ha Hx Hk|]; subst.
    assert (Ha' : allowed (Write q (firstn j b))).
    { simpl in *. destruct Ha as [Ha|[Ha Hw]]; auto. }
    split; [eapply allowed_inv; eauto | apply extra_step; auto].
  - inversion Hws; subst. destruct (tmp_final_is_tmp _ _ _ _ _ _ Htf) as [Htmp _].
    split; [eapply write_tmp_inv; eauto | apply extra_entry; auto].
  - inversion Hrs.
Qed.

(* the paths an operation of this participant can create or overwrite *)
Definition targets (o : fsop) (p : path) : Prop :=
  match o with
  | Creat q | Write q _ | Mkdir q => q = p
  | Rename _ d => d = p
  | _ => False
  end.

Lemma pst_targets : forall s o k p, pst s (Op o k) -> targets o p -> is_tmp p = true -> mine p.
Proof.
  intros s o k p Hp Ht Htmp.
  inversion Hp as [p0 Hwf|tmp final b p0 Htf Hws Hl|tmp final b p0 Htf Hrs Hl]; subst.
  - inversion Hwf as [|o' k' Ha Hx Hk|tmp final b k' Htf He Hok]; subst.
    + destruct o; simpl in *; try contradiction; subst.
      * destruct p; discriminate.
      * destruct Ha; subst; discriminate.
      * destruct Ha as [Ha|[Ha _]]; subst; discriminate.
    + simpl in Ht; subst. eapply tmp_final_mine; eauto.
  - inversion Hws; subst. simpl in Ht; subst. eapply tmp_final_mine; eauto.
  - inversion Hrs; subst. simpl in Ht; subst.
    destruct Htf as [(k0 & -> & -> & _)|(k0 & -> & -> & _)]; discriminate.
Qed.

End Wf.

(* steps of ANOTHER participant keep the stage of this one *)
Lemma pst_stable : forall A t Q (s : fs) (p : prog A) o,
  pst A t Q s p ->
  (forall q, targets o q -> is_tmp q = true -> ~ mine t q) ->
  pst A t Q (snd (exec o s)) p.
Proof.
  intros A t Q s p o Hp Hno.
  assert (Hst : forall tmp, mine t tmp -> is_tmp tmp = true ->
            lookup tmp (snd (exec o s)) = lookup tmp s \/ lookup tmp (snd (exec o s)) = None).
  { intros tmp Hm Htmp. apply other_tmp_stable; auto.
    destruct o; simpl; auto; intros E; subst; eapply Hno; simpl; eauto. }
  inversion Hp as [p0 Hwf|tmp final b p0 Htf Hws Hl|tmp final b p0 Htf Hrs Hl]; subst.
  - apply pst_wf; auto.
  - eapply pst_w; eauto.
    destruct (Hst tmp) as [E|E]; [eapply tmp_final_mine; eauto | eapply tmp_final_is_tmp; eauto | rewrite E; auto | auto].
  - eapply pst_r; eauto.
    destruct (Hst tmp) as [E|E]; [eapply tmp_final_mine; eauto | eapply tmp_final_is_tmp; eauto | rewrite E; auto | auto].
Qed.

Lemma mine_disjoint : forall t t' p, t <> t' -> mine t p -> mine t' p -> False.
Proof. intros t t' p Hne [k Hk] [k' Hk']. destruct Hk as [Hk|Hk], Hk' as [Hk'|Hk']; subst; inversion Hk'; congruence. Qed.

(* ------------------------------------------------- sequential corollaries *)
Lemma pst_run : forall A t Q (p : prog A) s, J s -> pst A t Q s p ->
  J (snd (run p s)) /\ Q (fst (run p s)).
Proof.
  intros A t Q p; induction p as [a|o k IH]; intros s HJ Hp; simpl.
  - split; auto. inversion Hp as [p0 Hwf|? ? ? ? ? Hws|? ? ? ? ? Hrs]; subst.
    + inversion Hwf; auto.
    + inversion Hws.
    + inversion Hrs.
  - destruct (pst_step _ _ _ _ _ _ HJ Hp) as [HJ' Hp']. destruct (exec o s) as [r s']; simpl in *.
    apply IH; auto.
Qed.

Lemma pst_crash : forall A t Q (p : prog A) n torn s, J s -> pst A t Q s p -> J (crash_run p n torn s).
Proof.
  intros A t Q p; induction p as [a|o k IH]; intros n torn s HJ Hp; simpl; auto.
  pose proof (pst_step _ _ _ _ _ _ HJ Hp) as [HJ' Hp'].
  destruct (is_mut o) eqn:Hm.
  - destruct n as [|n'].
    + destruct o; auto. destruct torn as [j|]; auto. eapply pst_torn; eauto.
    + destruct (exec o s) as [r s']; simpl in *. apply IH; auto.
  - destruct (exec o s) as [r s']; simpl in *. apply IH; auto.
Qed.

(* ------------------------------------------------------ the global system *)
(* participants: writer ids [ts], expected results [Qs], states [ps] *)
Section Global.
Variable A : Type.

Definition GInv (ts : list Z) (Qs : list (A -> Prop)) (c : fs * list (pstate A)) : Prop :=
  J (fst c) /\ length (snd c) = length ts /\ length Qs = length ts /\
  forall i t Q p, nth_error ts i = Some t -> nth_error Qs i = Some Q ->
                  nth_error (snd c) i = Some (Some p) -> pst A t Q (fst c) p.

Lemma nth_error_upd_same : forall B (l : list B) i x, (i < length l)%nat -> nth_error (upd i x l) i = Some x.
Proof. induction l; intros [|i] x H; simpl in *; try lia; auto. apply IHl; lia. Qed.

Lemma nth_error_upd_other : forall B (l : list B) i j x, i <> j -> nth_error (upd i x l) j = nth_error l j.
Proof. induction l; intros [|i] [|j] x H; simpl in *; auto; try congruence. Qed.

Lemma length_upd : forall B (l : list B) i x, length (upd i x l) = length l.
Proof. induction l; intros [|i] x; simpl; auto. Qed.

Lemma nth_nth_error : forall B (l : list B) i d x, nth i l d = x -> x <> d -> nth_error l i = Some x.
Proof.
  induction l; intros [|i] d x H Hne; simpl in *; try congruence.
  eapply IHl; eauto.
Qed.

Lemma NoDup_nth_error : forall (l : list Z) i j x, NoDup l -> nth_error l i = Some x -> nth_error l j = Some x -> i = j.
Proof.
  intros l i j x Hnd Hi Hj. rewrite NoDup_nth_error in Hnd. apply Hnd.
  - apply nth_error_Some; congruence.
  - congruence.
Qed.

(* a step by participant i with operation o': everybody else keeps their stage *)
Lemma others_keep : forall ts Qs s ps i ti Qi o k o' s',
  NoDup ts -> GInv ts Qs (s, ps) ->
  nth_error ts i = Some ti -> nth_error Qs i = Some Qi -> nth_error ps i = Some (Some (Op o k)) ->
  (forall q, targets o' q -> targets o q) -> s' = snd (exec o' s) ->
  forall j t Q p, j <> i -> nth_error ts j = Some t -> nth_error Qs j = Some Q ->
    nth_error ps j = Some (Some p) -> pst A t Q s' p.
Proof.
  intros ts Qs s ps i ti Qi o k o' s' Hnd (HJ & Hl1 & Hl2 & Hall) Hti HQi Hpi Htg -> j t Q p Hji Ht HQ Hp.
  apply pst_stable; [eapply Hall; eauto|].
  intros q Hq Htmp Hm.
  assert (Hmi : mine ti q).
  { eapply pst_targets; [eapply (Hall i); eauto | apply Htg; eauto | auto]. }
  assert (ti <> t). { intros E; subst. apply Hji. eapply NoDup_nth_error; eauto. }
  eapply mine_disjoint; eauto.
Qed.

Theorem ginv_step : forall ts Qs e c, NoDup ts -> GInv ts Qs c -> GInv ts Qs (gstep e c).
Proof.
  intros ts Qs e [s ps] Hnd HG. pose proof HG as (HJ & Hl1 & Hl2 & Hall). simpl in HJ, Hl1.
  destruct e as [i|i|i j]; simpl.
  - (* Run *)
    destruct (nth i ps None) as [[a|o k]|] eqn:Hn; auto.
    assert (Hpi : nth_error ps i = Some (Some (Op o k))) by (eapply nth_nth_error; eauto; congruence).
    assert (Hi : (i < length ts)%nat) by (rewrite <- Hl1; apply nth_error_Some; congruence).
    destruct (nth_error ts i) as [ti|] eqn:Hti; [|apply nth_error_None in Hti; lia].
    destruct (nth_error Qs i) as [Qi|] eqn:HQi; [|apply nth_error_None in HQi; lia].
    pose proof (Hall i ti Qi _ Hti HQi Hpi) as Hp. simpl in Hp.
    destruct (pst_step _ _ _ _ _ _ HJ Hp) as [HJ' Hp'].
    pose proof (others_keep ts Qs s ps i ti Qi o k o _ Hnd HG Hti HQi Hpi (fun q H => H) eq_refl) as Hoth.
    destruct (exec o s) as [r s'] eqn:He; simpl in *.
    split; [exact HJ'|]. split; [simpl; rewrite length_upd; auto|]. split; auto.
    intros j t Q p Ht HQ Hpj. simpl in *.
    destruct (Nat.eq_dec j i) as [->|Hne].
    + rewrite nth_error_upd_same in Hpj by (unfold pstate in *; lia). inversion Hpj; subst. congruence.
    + rewrite nth_error_upd_other in Hpj by auto. eapply Hoth; eauto.
  - (* Kill *)
    destruct (nth i ps None) as [[a|o k]|] eqn:Hn; auto.
    split; [exact HJ|]. split; [simpl; rewrite length_upd; auto|]. split; auto.
    intros j t Q p Ht HQ Hpj. simpl in *.
    destruct (Nat.eq_dec j i) as [->|Hne].
    + assert (Hi : (i < length ps)%nat).
      { destruct (Nat.lt_ge_cases i (length ps)); auto. rewrite nth_overflow in Hn by lia; discriminate. }
      rewrite nth_error_upd_same in Hpj by (unfold pstate in *; lia). discriminate.
    + rewrite nth_error_upd_other in Hpj by auto. eapply Hall; eauto.
  - (* Torn *)
    destruct (nth i ps None) as [[a|o k]|] eqn:Hn; auto.
    assert (Hpi : nth_error ps i = Some (Some (Op o k))) by (eapply nth_nth_error; eauto; congruence).
    assert (Hi : (i < length ts)%nat) by (rewrite <- Hl1; apply nth_error_Some; congruence).
    destruct (nth_error ts i) as [ti|] eqn:Hti; [|apply nth_error_None in Hti; lia].
    destruct (nth_error Qs i) as [Qi|] eqn:HQi; [|apply nth_error_None in HQi; lia].
    pose proof (Hall i ti Qi _ Hti HQi Hpi) as Hp. simpl in Hp.
    assert (Hdead : forall s', J s' ->
              (forall j t Q p, j <> i -> nth_error ts j = Some t -> nth_error Qs j = Some Q ->
                               nth_error ps j = Some (Some p) -> pst A t Q s' p) ->
              GInv ts Qs (s', upd i None ps)).
    { intros s' HJ' Hoth. split; [exact HJ'|]. split; [simpl; rewrite length_upd; auto|]. split; auto.
      intros j0 t Q p Ht HQ Hpj. simpl in *.
      destruct (Nat.eq_dec j0 i) as [->|Hne].
      - rewrite nth_error_upd_same in Hpj by (unfold pstate in *; lia). discriminate.
      - rewrite nth_error_upd_other in Hpj by auto. eapply Hoth; eauto. }
    destruct o; try (apply Hdead; [exact HJ | intros; eapply Hall; eauto]).
    apply Hdead.
    + eapply pst_torn; eauto.
    + eapply (others_keep ts Qs s ps i ti Qi (Write p b) k (Write p (firstn j b))); eauto.
Qed.

Theorem ginv_run : forall ts Qs evs c, NoDup ts -> GInv ts Qs c -> GInv ts Qs (grun evs c).
Proof.
  intros ts Qs evs; induction evs as [|e evs IH]; intros c Hnd HG; simpl; auto.
  apply IH; auto. apply ginv_step; auto.
Qed.

Lemma ginv_init : forall ts Qs (progs : list (prog A)) s,
  J s -> length progs = length ts -> length Qs = length ts ->
  (forall i t Q p, nth_error ts i = Some t -> nth_error Qs i = Some Q -> nth_error progs i = Some p ->
                   wf A t Q p) ->
  GInv ts Qs (s, map Some progs).
Proof.
  intros ts Qs progs s HJ Hl1 Hl2 Hwf. split; [exact HJ|]. split; [simpl; rewrite map_length; auto|]. split; auto.
  intros i t Q p Ht HQ Hp. simpl in *. rewrite nth_error_map in Hp.
  destruct (nth_error progs i) eqn:E; simpl in Hp; inversion Hp; subst.
  apply pst_wf. eapply Hwf; eauto.
Qed.

(* a participant that has finished, in any reachable configuration, returned an expected result *)
Lemma ginv_result : forall ts Qs c i Q a,
  GInv ts Qs c -> nth_error Qs i = Some Q -> nth_error (snd c) i = Some (Some (Ret a)) -> Q a.
Proof.
  intros ts Qs [s ps] i Q a (HJ & Hl1 & Hl2 & Hall) HQ Hp. simpl in *.
  assert (Hi : (i < length ts)%nat) by (rewrite <- Hl2; apply nth_error_Some; congruence).
  destruct (nth_error ts i) as [t|] eqn:Ht; [|apply nth_error_None in Ht; lia].
  pose proof (Hall i t Q _ Ht HQ Hp) as Hpst.
  inversion Hpst as [p0 Hwf|? ? ? ? ? Hws|? ? ? ? ? Hrs]; subst.
  - inversion Hwf; auto.
  - inversion Hws.
  - inversion Hrs.
Qed.

End Global.
End RG.
