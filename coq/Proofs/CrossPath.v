(* One statement across the three models of joblib.Parallel: whatever the parallel run was (any number of workers, any
   batch sizes, any completion order and interleaving, anything that happened on the object before), the list it
   returns is the list the one-worker path (Model/ParallelSeq.v: n_jobs = 1, any batch size) returns for an input of
   the same length. *)
From Coq Require Import List Arith.
Require Import JV.Model.ParallelCore JV.Proofs.ParallelInv1 JV.Proofs.ParallelInv4 JV.Proofs.ParallelMisc.
Require Import JV.Model.ParallelSync JV.Proofs.SyncFrame JV.Proofs.SyncInv JV.Proofs.SyncThm.
Require Import JV.Model.ParallelSeq JV.Proofs.SeqThm.
Import ListNotations.

Theorem parallel_equals_one_worker_path s q cf :
  reach s -> mode (c s) = Ordered -> ifail s = None -> phase s = Finished -> exception s = false -> abandoned s = false ->
  qrunning q = false -> wf_qcfg cf -> qgen cf = false -> qifail cf = None -> qtfail cf = None -> qN cf = N s ->
  snd (qstep q (QCall cf)) = [QReturned (delivered s)].
Proof.
  intros Hr Hm Hi Hp He Ha Hq Hwf Hg Hqi Hqt HN.
  rewrite (ordered_output_complete s Hr Hm Hi Hp He Ha), <- HN.
  exact (proj1 (seq_list_returns_sequential_results q cf Hq Hwf Hg Hqi Hqt)).
Qed.

Theorem sync_equals_one_worker_path s e l q cf :
  sreach s -> wf_sev e -> In (SReturned l) (snd (sstep s e)) -> ifail (base (fst (sstep s e))) = None ->
  qrunning q = false -> wf_qcfg cf -> qgen cf = false -> qifail cf = None -> qtfail cf = None ->
  qN cf = N (base (fst (sstep s e))) ->
  snd (qstep q (QCall cf)) = [QReturned l].
Proof.
  intros Hr Hw Hin Hi Hq Hwf Hg Hqi Hqt HN.
  rewrite (sync_returns_sequential_results s e l Hr Hw Hin Hi), <- HN.
  exact (proj1 (seq_list_returns_sequential_results q cf Hq Hwf Hg Hqi Hqt)).
Qed.

(* non-vacuity: the demo run of M1 (5 tasks, two workers, out-of-order completions) against a one-worker call with
   batch_size = 3 on an input of the same length *)
Example cross_path_demo :
  let s := fst (run_events true init demo_events) in
  let cf := {| qN := 5; qifail := None; qtfail := None; qbs := 3; qgen := false |} in
  reach s /\ mode (c s) = Ordered /\ ifail s = None /\ phase s = Finished /\ exception s = false /\
  abandoned s = false /\ qN cf = N s /\ wf_qcfg cf /\
  snd (qstep qinit (QCall cf)) = [QReturned (delivered s)] /\ delivered s = [0; 1; 2; 3; 4].
Proof.
  split; [apply reach_run; [constructor | exact demo_wf]|].
  unfold wf_qcfg. vm_compute. repeat split; auto.
Qed.
