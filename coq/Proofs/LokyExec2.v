(* Executor-level invariants, part 2: one manager iteration, all events, reachability. *)
From Coq Require Import ZArith List Bool Arith Lia.
Require Import JV.Model.LokyExec JV.Proofs.LokyProj JV.Proofs.LokyExec.
Import ListNotations.

(* "same futures" frame *)
Definition same (e e' : exec) : Prop :=
  futs e' = futs e /\ nfut e' = nfut e /\ pending e' = pending e /\ mgr e' = mgr e /\ shutdown e' = shutdown e /\
  broken e' = broken e /\ killw e' = killw e.

Lemma same_wf : forall e e', same e e' -> wf e -> wf e'.
Proof. intros e e' (A & B & C & D & E & _) W. eapply wf_frame; eauto. Qed.

Lemma same_ext : forall e e', same e e' -> ext e e'.
Proof. intros e e' (A & B & _). apply ext_frame; assumption. Qed.

Ltac same_tac := unfold same; pj; repeat split; reflexivity.

Lemma terminate_broken_ext : forall b e, wf e -> ext e (terminate_broken b e).
Proof.
  intros b e W. destruct (terminate_broken_spec b e W) as (_ & _ & _ & _ & _ & _ & En & _ & Hf & _).
  split; [lia | intros id _; apply Hf].
Qed.

Lemma after_wait_spec : forall item e, wf e -> mgr e = AtWait ->
  let e' := after_wait item e in
  wf e' /\ ext e e' /\ (mgr e' = AtFeed \/ mgr e' = Exited).
Proof.
  intros item e W Hm. cbn zeta. unfold after_wait.
  set (e1 := match item with Some m => process_result_item m e | None => e end).
  assert (P1 : wf e1 /\ ext e e1 /\ mgr e1 = mgr e).
  { subst e1. destruct item as [m|].
    - destruct (process_result_item_spec m e W) as (A & B & C & _). auto.
    - split; [exact W|]. split; [apply ext_refl | reflexivity]. }
  destruct P1 as (W1 & X1 & M1). clearbody e1.
  assert (C1 : is_crashed e1 = false) by (unfold is_crashed; rewrite M1, Hm; reflexivity).
  rewrite C1.
  destruct (shutdown e1 && match broken e1 with None => true | Some _ => false end)%bool.
  - destruct (flag_shutting_down_spec e1 W1) as (W2 & X2 & M2 & S2 & _).
    { rewrite M1, Hm. discriminate. }
    set (e2 := flag_executor_shutting_down e1) in *. clearbody e2.
    assert (C2 : is_crashed e2 = false) by (unfold is_crashed; rewrite M2, M1, Hm; reflexivity).
    rewrite C2. destruct (pending e2) eqn:Hp.
    + assert (Sj : same e2 (join_executor_internals e2)) by same_tac.
      split; [apply wf_set_mgr; [eapply same_wf; eauto | intros _; pj; split; assumption]|].
      split; [|right; pj; reflexivity].
      eapply ext_trans; [exact X1|]. eapply ext_trans; [exact X2|]. apply ext_frame; pj; reflexivity.
    + split; [apply wf_set_mgr; [assumption | discriminate]|].
      split; [|left; pj; reflexivity].
      eapply ext_trans; [exact X1|]. eapply ext_trans; [exact X2|]. apply ext_frame; pj; reflexivity.
  - split; [apply wf_set_mgr; [assumption | discriminate]|].
    split; [|left; pj; reflexivity].
    eapply ext_trans; [exact X1|]. apply ext_frame; pj; reflexivity.
Qed.

Lemma manager_wake_spec : forall e, wf e -> wf (manager_wake e) /\ ext e (manager_wake e).
Proof.
  intros e W. unfold manager_wake. destruct (mgr e) eqn:Hm; try (split; [exact W | apply ext_refl]).
  assert (Hfr : forall r w, same e (set_wakeup (set_resq e r) w)) by (intros; same_tac).
  assert (Haw : forall item r w, wf (after_wait item (set_wakeup (set_resq e r) w)) /\
                                 ext e (after_wait item (set_wakeup (set_resq e r) w))).
  { intros item r w. destruct (after_wait_spec item (set_wakeup (set_resq e r) w)) as (A & B & _).
    - eapply same_wf; eauto.
    - pj. exact Hm.
    - split; [exact A|]. eapply ext_trans; [apply same_ext; apply Hfr | exact B]. }
  assert (Htb : forall b r w, wf (terminate_broken b (set_wakeup (set_resq e r) w)) /\
                              ext e (terminate_broken b (set_wakeup (set_resq e r) w))).
  { intros b r w. assert (W' : wf (set_wakeup (set_resq e r) w)) by (eapply same_wf; eauto).
    split; [apply terminate_broken_spec; exact W'|].
    eapply ext_trans; [apply same_ext; apply Hfr | apply terminate_broken_ext; exact W']. }
  destruct (resq e) as [|m rest] eqn:Hr.
  - destruct (wakeup e) eqn:Hw.
    + assert (E : set_wakeup e false = set_wakeup (set_resq e (resq e)) false).
      { Transparent set_wakeup set_resq. destruct e; reflexivity. Opaque set_wakeup set_resq. }
      rewrite E. apply Haw.
    + destruct (sentinel_ready e).
      * split; [apply terminate_broken_spec; exact W | apply terminate_broken_ext; exact W].
      * split; [exact W | apply ext_refl].
  - destruct m; try apply Haw; try apply Htb.
    split; [apply wf_set_mgr; [exact W | discriminate] | apply ext_frame; pj; reflexivity].
Qed.

Lemma manager_feed_ext : forall e, wf e -> ext e (manager_feed e).
Proof.
  intros e W. unfold manager_feed. destruct (mgr e) eqn:Hm; try apply ext_refl.
  unfold add_call_item_to_queue.
  destruct (wf_feed_loop (length (work_ids e)) e W Hm) as (A & B & C & D & E & F & G).
  assert (X : ext e (feed_loop (length (work_ids e)) e)) by (split; [lia | intros id _; apply F]).
  destruct (is_crashed _); [exact X|]. eapply ext_trans; [exact X | apply ext_frame; pj; reflexivity].
Qed.

Lemma submit_ext : forall e, ext e (fst (submit e)).
Proof.
  intros e. unfold submit. destruct (broken e); [apply ext_refl|]. destruct (shutdown e); [apply ext_refl|].
  cbn [fst]. set (e1 := mkExec _ _ _ _ _ _ _ _ _ _ _ _ _ _ _ _ _ _).
  assert (X1 : ext e e1).
  { subst e1. split; cbn; [lia|]. intros id Hlt Hf. apply upd_other. lia. }
  eapply ext_trans; [exact X1|]. unfold ensure_running.
  set (e2 := if Nat.eqb (length (procs e1)) (maxw e1) then e1 else adjust_process_count e1).
  assert (X2 : ext e1 e2).
  { subst e2. destruct (Nat.eqb _ _); [apply ext_refl|]. unfold adjust_process_count.
    destruct (spawn_n_frame (maxw e1 - length (procs e1)) e1) as (A & B & _). apply ext_frame; assumption. }
  eapply ext_trans; [exact X2|]. destruct (mgr e2); try apply ext_refl. apply ext_frame; pj; reflexivity.
Qed.

(* ------------------------------------------------------------ worker / caller events *)
Lemma same_refl : forall e, same e e.
Proof. intros. unfold same. repeat split; reflexivity. Qed.

Lemma worker_take_same : forall p e, same e (worker_take p e).
Proof. intros. unfold worker_take. destruct (wk e p); try apply same_refl. destruct (callq e); [apply same_refl | same_tac]. Qed.
Lemma worker_send_same : forall p mk e, same e (worker_send p mk e).
Proof. intros. unfold worker_send. destruct (wk e p); try apply same_refl. same_tac. Qed.
Lemma worker_send_garbage_same : forall p e, same e (worker_send_garbage p e).
Proof. intros. unfold worker_send_garbage. destruct (wk e p); try apply same_refl. same_tac. Qed.
Lemma worker_bad_args_same : forall p e, same e (worker_bad_args p e).
Proof. intros. unfold worker_bad_args. destruct (wk e p); try apply same_refl. destruct (callq e); [apply same_refl | same_tac]. Qed.
Lemma worker_retire_same : forall p e, same e (worker_retire p e).
Proof. intros. unfold worker_retire. destruct (wk e p); try apply same_refl. same_tac. Qed.
Lemma worker_die_same : forall p e, same e (worker_die p e).
Proof. intros. unfold worker_die. destruct (is_proc e p); [same_tac | apply same_refl]. Qed.
Lemma worker_die_midsend_same : forall p e, same e (worker_die_midsend p e).
Proof. intros. unfold worker_die_midsend. destruct (wk e p); try apply same_refl. same_tac. Qed.

Lemma shutdown_flag_wf : forall k e, wf e -> wf (shutdown_flag k e) /\ ext e (shutdown_flag k e).
Proof.
  intros k e [H1 H2 H3 H5]. unfold shutdown_flag.
  set (e1 := set_flags e (broken e) true k).
  assert (A : futs e1 = futs e /\ nfut e1 = nfut e /\ pending e1 = pending e /\ mgr e1 = mgr e /\ shutdown e1 = true)
    by (subst e1; pj; repeat split; reflexivity).
  destruct A as (Ef & En & Ep & Em & Es). clearbody e1.
  assert (W1 : wf e1).
  { constructor; rewrite ?Ef, ?En, ?Ep, ?Em, ?Es; try assumption. intros Hex. split; [reflexivity | apply H5; assumption]. }
  assert (X1 : ext e e1) by (apply ext_frame; assumption).
  destruct (mgr e1) eqn:Hm1; try (split; assumption).
  all: split; [eapply same_wf; [|exact W1]; same_tac | eapply ext_trans; [exact X1 | apply ext_frame; pj; reflexivity]].
Qed.

Theorem step_wf : forall e ev, wf e -> wf (step e ev) /\ ext e (step e ev).
Proof.
  intros e ev W. destruct ev; cbn [step].
  - split; [apply wf_submit; exact W | apply submit_ext].
  - split; [apply wf_manager_feed; exact W | apply manager_feed_ext; exact W].
  - apply manager_wake_spec; exact W.
  - split; [eapply same_wf; [apply worker_take_same | exact W] | apply same_ext; apply worker_take_same].
  - split; [eapply same_wf; [apply worker_send_same | exact W] | apply same_ext; apply worker_send_same].
  - split; [eapply same_wf; [apply worker_send_same | exact W] | apply same_ext; apply worker_send_same].
  - split; [eapply same_wf; [apply worker_send_garbage_same | exact W] | apply same_ext; apply worker_send_garbage_same].
  - split; [eapply same_wf; [apply worker_bad_args_same | exact W] | apply same_ext; apply worker_bad_args_same].
  - split; [eapply same_wf; [apply worker_retire_same | exact W] | apply same_ext; apply worker_retire_same].
  - split; [eapply same_wf; [apply worker_die_same | exact W] | apply same_ext; apply worker_die_same].
  - split; [eapply same_wf; [apply worker_die_midsend_same | exact W] | apply same_ext; apply worker_die_midsend_same].
  - apply shutdown_flag_wf; exact W.
Qed.

Theorem run_wf : forall evs e, wf e -> wf (run e evs) /\ ext e (run e evs).
Proof.
  induction evs as [|ev t IH]; intros e W; cbn.
  - split; [exact W | apply ext_refl].
  - destruct (step_wf e ev W) as [W1 X1]. destruct (IH (step e ev) W1) as [W2 X2].
    split; [exact W2 | eapply ext_trans; eauto].
Qed.
