(* M1 proofs: the third preservation principle again, for a restricted set of batch sizes.
   M1 proofs: a third preservation principle in which, in addition, the second locked section of the
   completion callback (_dispatch_new: counter, dispatch_next, exhaustion flags) is one combined step. *)
From Coq Require Import List Bool Arith Lia PeanoNat.
Require Import JV.Model.ParallelCore JV.Proofs.ParallelLemmas JV.Proofs.ParallelInv1.
Import ListNotations.

(* ---------------- generic step decomposition ---------------- *)
(* To show that a predicate holds in every reachable state it suffices to show that it is preserved
   by the primitive state transformers the events are made of. *)
Section Preservation4.
(* admissible batch sizes: a predicate implying b >= 1 (e.g. 1 <= b <= B) *)
Variable okb : nat -> Prop.
Hypothesis okb_pos : forall b, okb b -> 1 <= b.

Definition wf_evb (e : ev) : Prop :=
  match e with
  | ECall cf _ _ => wf_cfg cf
  | EDispatch b => okb b
  | ERefuse b => okb b
  | ECbFinish _ b => okb b
  | _ => True
  end.

Inductive reachb : st -> Prop :=
| reachb_init : reachb init
| reachb_step s e : reachb s -> wf_evb e -> reachb (fst (step true s e)).

Lemma wf_evb_wf e : wf_evb e -> wf_ev e.
Proof. destruct e; cbn; auto. Qed.

Lemma reachb_reach s : reachb s -> reach s.
Proof. induction 1; [constructor | apply reach_step; [assumption | apply wf_evb_wf; assumption]]. Qed.

Variable P : st -> Prop.
Hypothesis P_init : P init.
Hypothesis P_call : forall s cf n f, P s -> wf_cfg cf -> running s = false ->
  (phase s = Idle \/ phase s = Finished) -> P (do_call s cf n f).
(* the caller's dispatch in _start, together with the flag updates that follow it *)
Definition start_first_next (s1 : st) (r : bool) : st :=
  let s2 := set_flags s1 (if r then orig s1 else iterating s1) (orig s1) StartLoop in
  if aborting s2 then end_start s2 else s2.
Definition start_loop_next (s1 : st) (r : bool) : st :=
  if r then (if aborting s1 then end_start s1 else s1) else end_start s1.
Hypothesis P_start_first : forall s b s1 r, P s -> 1 <= n_jobs (c s) -> okb b -> phase s = StartFirst ->
  dispatch_shape s b false s1 r -> P (start_first_next s1 r).
Hypothesis P_start_loop : forall s b s1 r, P s -> 1 <= n_jobs (c s) -> okb b -> phase s = StartLoop ->
  dispatch_shape s b false s1 r -> P (start_loop_next s1 r).
Hypothesis P_cb_start : forall s t o, P s -> P (cb_start s t o).
Definition closed_state (s : st) (t : nat) (k : tracker) : st :=
  mark_closed (add_comp s (length (tk_tasks k)) (remove_id t (cbmid s))) t.
Hypothesis P_cb_finish_noorig : forall s t k, P s -> nth_error (trk s) t = Some k -> In t (cbmid s) ->
  tk_cid k = cid s -> orig s = false -> P (closed_state s t k).
Hypothesis P_cb_finish_orig : forall s t k b s2 r, P s -> 1 <= n_jobs (c s) -> okb b ->
  nth_error (trk s) t = Some k -> In t (cbmid s) -> tk_cid k = cid s -> orig s = true ->
  dispatch_shape (closed_state s t k) b true s2 r ->
  P (if r then s2 else set_flags s2 false false (phase s2)).
Hypothesis P_cb_stale : forall s t k, P s -> nth_error (trk s) t = Some k -> In t (cbmid s) ->
  tk_cid k <> cid s -> P (add_comp s 0 (remove_id t (cbmid s))).
Hypothesis P_want : forall s, P s -> P (set_want s).
Hypothesis P_close_try : forall s, P s -> phase s = Retrieving -> P (abandon (finalize s Finished true true)).
(* the backend refuses the batch the caller has just registered: the call is aborted from inside _start *)
Hypothesis P_refuse_first : forall s b s1, P s -> 1 <= n_jobs (c s) -> okb b -> phase s = StartFirst ->
  dispatch_shape s b false s1 true -> P (finalize s1 Finished true true).
Hypothesis P_refuse_loop : forall s b s1, P s -> 1 <= n_jobs (c s) -> okb b -> phase s = StartLoop ->
  dispatch_shape s b false s1 true -> P (finalize s1 Finished true true).
Hypothesis P_close_drain : forall s r, P s -> phase s = Draining r -> P (abandon (set_out s (jobs s) (jset s) [] false Finished)).
Hypothesis P_timeout : forall s j, P s -> want s = true -> timeout_target s = Some j -> status_of s j = Pending ->
  P (do_timeout s j).
(* retrieval *)
Hypothesis P_yield : forall s v r, P s -> pend_out s = v :: r ->
  P (deliver (set_out s (jobs s) (jset s) r false (phase s)) v).
Hypothesis P_raise_fast : forall s e, P s -> phase s = Retrieving -> pend_out s = [] -> aborting s = true ->
  first_failed s = Some e -> P (finalize s Finished true true).
Hypothesis P_loop_exit : forall s, P s -> phase s = Retrieving -> pend_out s = [] ->
  (aborting s = true /\ first_failed s = None \/
   aborting s = false /\ iterating s = false /\ n_disp s <= n_comp s) ->
  P (finalize s (Draining (if exception s then [] else jobs s)) (exception s) false).
Hypothesis P_pop_done : forall s j js, P s -> phase s = Retrieving -> pend_out s = [] -> aborting s = false ->
  jobs s = j :: js -> status_of s j = Done ->
  P (set_out s js (remove_id j (jset s)) (tasks_of s j) true Retrieving).
Hypothesis P_pop_failed : forall s j js e, P s -> phase s = Retrieving -> pend_out s = [] -> aborting s = false ->
  jobs s = j :: js -> status_of s j = Failed e ->
  P (finalize (set_out s js (remove_id j (jset s)) [] true Retrieving) Finished true true).
Hypothesis P_drain_end : forall s, P s -> phase s = Draining [] -> pend_out s = [] ->
  P (set_out s (jobs s) (jset s) [] false Finished).
Hypothesis P_drain_pop : forall s j js, P s -> phase s = Draining (j :: js) -> pend_out s = [] ->
  status_of s j = Done -> P (set_out s (jobs s) (jset s) (tasks_of s j) true (Draining js)).
Hypothesis P_drain_bad : forall s j js, P s -> phase s = Draining (j :: js) -> pend_out s = [] ->
  status_of s j <> Done -> P (set_out s (jobs s) (jset s) [] false Finished).

Lemma P_advance : forall fuel s, P s -> P (fst (advance fuel s)).
Proof.
  induction fuel as [|fuel IH]; intros s Hs; cbn [advance]; [exact Hs|].
  destruct (pend_out s) as [|v r] eqn:Hpo; [|cbn [fst]; apply P_yield; assumption].
  destruct (phase s) as [ | | | |rem| ] eqn:Hph; try exact Hs.
  - (* Retrieving *)
    destruct (aborting s) eqn:Hab; cbn [orb].
    + destruct (first_failed s) as [e|] eqn:Hff.
      * cbn [fst]. eapply P_raise_fast; eassumption.
      * apply IH. apply P_loop_exit; try assumption. left. split; assumption.
    + destruct (iterating s) eqn:Hit; cbn [orb].
      * destruct (jobs s) as [|j js] eqn:Hj; [exact Hs|].
        destruct (status_of s j) as [ | |e] eqn:Hst; [exact Hs | |].
        -- apply IH. apply P_pop_done; assumption.
        -- cbn [fst]. eapply P_pop_failed; eassumption.
      * destruct (n_comp s <? n_disp s) eqn:Hlt.
        -- destruct (jobs s) as [|j js] eqn:Hj; [exact Hs|].
           destruct (status_of s j) as [ | |e] eqn:Hst; [exact Hs | |].
           ++ apply IH. apply P_pop_done; assumption.
           ++ cbn [fst]. eapply P_pop_failed; eassumption.
        -- apply IH. apply P_loop_exit; try assumption. right. apply Nat.ltb_ge in Hlt. auto.
  - (* Draining *)
    destruct rem as [|j js].
    + cbn [fst]. apply P_drain_end; assumption.
    + destruct (status_of s j) as [ | |e] eqn:Hst.
      * cbn [fst]. apply (P_drain_bad s j js Hs Hph Hpo). rewrite Hst. discriminate.
      * apply IH. apply P_drain_pop; assumption.
      * cbn [fst]. apply (P_drain_bad s j js Hs Hph Hpo). rewrite Hst. discriminate.
Qed.

Lemma P_try_advance s : P s -> P (fst (try_advance s)).
Proof. intros Hs. unfold try_advance. destruct (want s); [apply P_advance; exact Hs | exact Hs]. Qed.

Lemma P_cb_finish s t b : P s -> 1 <= n_jobs (c s) -> okb b -> P (cb_finish true s t b).
Proof.
  intros Hs Hnj Hob. pose proof (okb_pos b Hob) as Hb. unfold cb_finish.
  destruct (get_trk s t) as [k|] eqn:Hk; [|exact Hs]. unfold get_trk in Hk.
  destruct (mem_id t (cbmid s)) eqn:Hm; cbn [negb]; [|exact Hs].
  apply mem_id_In in Hm. cbn [andb].
  destruct (Nat.eqb_spec (tk_cid k) (cid s)) as [E|E]; cbn [negb].
  - fold (closed_state s t k).
    destruct (orig (closed_state s t k)) eqn:Ho.
    + pose proof (dispatch_one_batch_shape (closed_state s t k) b true Hnj Hb) as Hsh.
      destruct (dispatch_one_batch (closed_state s t k) b true) as [s2 r] eqn:Hd. cbn [fst snd] in Hsh.
      exact (P_cb_finish_orig s t k b s2 r Hs Hnj Hob Hk Hm E Ho Hsh).
    + exact (P_cb_finish_noorig s t k Hs Hk Hm E Ho).
  - eapply P_cb_stale; eassumption.
Qed.

Lemma P_step_raw s e : P s -> 1 <= n_jobs (c s) -> wf_evb e -> P (fst (step_raw true s e)).
Proof.
  intros Hs Hnj Hwf. destruct e as [cf n f|b|t o|t b| | | |b]; cbn [step_raw].
  - destruct (running s) eqn:Hr; [exact Hs|].
    destruct (phase s) eqn:Hph; cbn [fst]; try exact Hs; apply P_call; auto.
  - cbn [wf_evb] in Hwf. pose proof (okb_pos b Hwf) as Hb1. destruct (phase s) eqn:Hph; try exact Hs.
    + pose proof (dispatch_one_batch_shape s b false Hnj Hb1) as Hsh.
      destruct (dispatch_one_batch s b false) as [s1 r] eqn:Hd. cbn [fst snd] in Hsh.
      pose proof (P_start_first s b s1 r Hs Hnj Hwf Hph Hsh) as H2. unfold start_first_next in H2.
      cbn [fst]. destruct (aborting _); exact H2.
    + pose proof (dispatch_one_batch_shape s b false Hnj Hb1) as Hsh.
      destruct (dispatch_one_batch s b false) as [s1 r] eqn:Hd. cbn [fst snd] in Hsh.
      pose proof (P_start_loop s b s1 r Hs Hnj Hwf Hph Hsh) as H2. unfold start_loop_next in H2.
      destruct r; [destruct (aborting s1)|]; cbn [fst]; exact H2.
  - cbn [fst]. apply P_cb_start; exact Hs.
  - cbn [fst]. apply P_cb_finish; assumption.
  - destruct (phase s); cbn [fst]; try exact Hs; apply P_want; exact Hs.
  - destruct (phase s) eqn:Hph; cbn [fst]; try exact Hs.
    + apply P_close_try; assumption.
    + eapply P_close_drain; eassumption.
  - destruct (want s) eqn:Hw; [|exact Hs].
    destruct (timeout_target s) as [j|] eqn:Ht; [|exact Hs].
    destruct (status_of s j) eqn:Hst; cbn [fst]; try exact Hs.
    apply P_timeout; assumption.
  - (* the backend refuses the batch *)
    cbn [wf_evb] in Hwf. pose proof (okb_pos b Hwf) as Hb1. destruct (phase s) eqn:Hph; try exact Hs.
    + pose proof (dispatch_one_batch_shape s b false Hnj Hb1) as Hsh.
      destruct (dispatch_one_batch s b false) as [s1 r] eqn:Hd. cbn [fst snd] in Hsh.
      destruct (r && negb (aborting s1)) eqn:Hrf.
      { apply andb_true_iff in Hrf as [-> _]. cbn [fst]. exact (P_refuse_first s b s1 Hs Hnj Hwf Hph Hsh). }
      pose proof (P_start_first s b s1 r Hs Hnj Hwf Hph Hsh) as H2. unfold start_first_next in H2.
      cbn [fst]. destruct (aborting _); exact H2.
    + pose proof (dispatch_one_batch_shape s b false Hnj Hb1) as Hsh.
      destruct (dispatch_one_batch s b false) as [s1 r] eqn:Hd. cbn [fst snd] in Hsh.
      destruct (r && negb (aborting s1)) eqn:Hrf.
      { apply andb_true_iff in Hrf as [-> _]. cbn [fst]. exact (P_refuse_loop s b s1 Hs Hnj Hwf Hph Hsh). }
      pose proof (P_start_loop s b s1 r Hs Hnj Hwf Hph Hsh) as H2. unfold start_loop_next in H2.
      destruct r; [destruct (aborting s1)|]; cbn [fst]; exact H2.
Qed.

Lemma P_step s e : P s -> 1 <= n_jobs (c s) ->
  (1 <= n_jobs (c (fst (step_raw true s e)))) -> wf_evb e -> P (fst (step true s e)).
Proof.
  intros Hs Hnj Hnj' Hwf. unfold step.
  pose proof (P_step_raw s e Hs Hnj Hwf) as H1.
  destruct (step_raw true s e) as [s1 o1]. cbn [fst] in *.
  destruct o1 as [o|]; [exact H1|].
  pose proof (P_try_advance s1 H1) as H2.
  destruct (try_advance s1) as [s2 o2]. exact H2.
Qed.

Hypothesis P_wf : forall s, P s -> 1 <= n_jobs (c s).

Theorem P_reach : forall s, reachb s -> P s.
Proof.
  induction 1 as [|s e Hr IH Hwf]; [exact P_init|].
  apply P_step; [exact IH | apply P_wf; exact IH | | exact Hwf].
  apply P_wf. apply P_step_raw; [exact IH | apply P_wf; exact IH | exact Hwf].
Qed.
End Preservation4.
