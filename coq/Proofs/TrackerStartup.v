(* The order ignore-then-unblock makes the tracker immune to SIGINT/SIGTERM at every instant. *)
From Coq Require Import List Bool.
Require Import JV.Model.TrackerStartup.
Import ListNotations.

(* s will be set to SIG_IGN before the mask is lifted *)
Fixpoint ignored_first (s : sig) (pc : list instr) : Prop :=
  match pc with
  | [] => False
  | IIgnore s' :: t => s = s' \/ ignored_first s t
  | IUnblock :: _ => False
  end.

Definition safe (p : proc) : Prop :=
  p_alive p = true /\
  forall s, ignored (get p s) = true \/ (blocked (get p s) = true /\ ignored_first s (p_pc p)).

Lemma get_set_same : forall p s st, get (set p s st) s = st.
Proof. intros p [] st; reflexivity. Qed.
Lemma get_set_other : forall p s s' st, s <> s' -> get (set p s st) s' = get p s'.
Proof. intros p [] [] st N; try reflexivity; congruence. Qed.
Lemma alive_set : forall p s st, p_alive (set p s st) = p_alive p.
Proof. intros p [] st; reflexivity. Qed.
Lemma pc_set : forall p s st, p_pc (set p s st) = p_pc p.
Proof. intros p [] st; reflexivity. Qed.
Lemma get_with_pc : forall p pc s, get (with_pc p pc) s = get p s.
Proof. intros p pc []; reflexivity. Qed.
Lemma sig_dec : forall a b : sig, {a = b} + {a <> b}.
Proof. decide equality. Qed.

Lemma arrive_safe : forall p s, safe p -> safe (arrive p s).
Proof.
  intros p s [A H]. unfold arrive. rewrite A. cbn [negb].
  destruct (blocked (get p s)) eqn:B.
  - split; [rewrite alive_set; exact A|]. intros s'. rewrite pc_set. destruct (sig_dec s s') as [<-|N].
    + rewrite get_set_same. cbn. destruct (H s) as [I|[_ F]]; auto.
    + rewrite get_set_other by exact N. apply H.
  - destruct (H s) as [I|[B' _]]; [|congruence]. rewrite I. split; assumption.
Qed.

Lemma unblock1_ignored : forall p s, p_alive p = true -> (forall s', ignored (get p s') = true) ->
  p_alive (unblock1 p s) = true /\ (forall s', ignored (get (unblock1 p s) s') = true) /\ p_pc (unblock1 p s) = p_pc p.
Proof.
  intros p s A I. unfold unblock1. rewrite (I s), andb_false_r. rewrite alive_set, pc_set. repeat split; auto.
  intros s'. destruct (sig_dec s s') as [<-|N]; [rewrite get_set_same; reflexivity | rewrite get_set_other by exact N; apply I].
Qed.

Lemma exec1_safe : forall p, safe p -> safe (exec1 p).
Proof.
  intros p [A H]. unfold exec1. rewrite A. cbn [negb]. destruct (p_pc p) as [|[s|] rest] eqn:P.
  - split; [exact A|]. intros s0. rewrite P. exact (H s0).
  - split; [cbn; rewrite alive_set; exact A|]. intros s'. rewrite get_with_pc. cbn [p_pc with_pc].
    destruct (sig_dec s s') as [<-|N].
    + rewrite get_set_same. left. reflexivity.
    + rewrite get_set_other by exact N. destruct (H s') as [I|[B [E|F]]]; auto; try congruence.
  - assert (I : forall s', ignored (get p s') = true) by (intros s'; destruct (H s') as [I|[_ []]]; exact I).
    destruct (unblock1_ignored p SIGINT A I) as (A1 & I1 & _).
    destruct (unblock1_ignored _ SIGTERM A1 I1) as (A2 & I2 & _).
    split; [exact A2|]. intros s'. rewrite get_with_pc. left. apply I2.
Qed.

Lemma spawn_safe : safe (spawn true code_startup).
Proof. split; [reflexivity|]. intros []; right; cbn; auto. Qed.

Lemma run_sched_safe : forall sched p, safe p -> safe (run_sched p sched).
Proof.
  induction sched as [|e t IH]; intros p S; [exact S|]. unfold run_sched. cbn [fold_left]. apply IH.
  destruct e; [apply arrive_safe | apply exec1_safe]; exact S.
Qed.

Lemma run_sched_app : forall a b p, run_sched p (a ++ b) = run_sched (run_sched p a) b.
Proof. intros. unfold run_sched. apply fold_left_app. Qed.
