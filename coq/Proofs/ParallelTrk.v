(* M1 proofs, part 2a: tracker bookkeeping (ids, current trackers, open trackers). *)
From Coq Require Import List Bool Arith Lia PeanoNat.
Require Import JV.Model.ParallelCore JV.Proofs.ParallelLemmas JV.Proofs.ParallelInv1.
Import ListNotations.

Definition cur_of (tr : list tracker) (cd : nat) (t : nat) : bool :=
  match nth_error tr t with Some k => tk_cid k =? cd | None => false end.
Definition is_cur (s : st) (t : nat) : bool := cur_of (trk s) (cid s) t.
Definition curids_of (tr : list tracker) (cd : nat) : list nat := filter (cur_of tr cd) (seq 0 (length tr)).
Definition curids (s : st) : list nat := curids_of (trk s) (cid s).
Definition tasks_in (tr : list tracker) (t : nat) : list nat :=
  match nth_error tr t with Some k => tk_tasks k | None => [] end.
Definition status_in (tr : list tracker) (t : nat) : status :=
  match nth_error tr t with Some k => tk_status k | None => Pending end.
Definition opens_of (tr : list tracker) (cd : nat) (cl : list nat) : list nat :=
  filter (fun t => negb (mem_id t cl)) (curids_of tr cd).
Definition opens (s : st) : list nat := opens_of (trk s) (cid s) (closed s).
Definition rem_of (s : st) : list nat := match phase s with Draining r => r | _ => [] end.

Lemma tasks_of_in s t : tasks_of s t = tasks_in (trk s) t.
Proof. reflexivity. Qed.
Lemma status_of_in s t : status_of s t = status_in (trk s) t.
Proof. reflexivity. Qed.

(* ---- appending a tracker ---- *)
Lemma cur_of_app_old tr k cd t : t < length tr -> cur_of (tr ++ [k]) cd t = cur_of tr cd t.
Proof. intros H. unfold cur_of. rewrite nth_error_app1 by exact H. reflexivity. Qed.
Lemma cur_of_app_new tr k cd : cur_of (tr ++ [k]) cd (length tr) = (tk_cid k =? cd).
Proof. unfold cur_of. rewrite nth_error_app2 by lia. rewrite Nat.sub_diag. reflexivity. Qed.
Lemma tasks_in_app_old tr k t : t < length tr -> tasks_in (tr ++ [k]) t = tasks_in tr t.
Proof. intros H. unfold tasks_in. rewrite nth_error_app1 by exact H. reflexivity. Qed.
Lemma tasks_in_app_new tr k : tasks_in (tr ++ [k]) (length tr) = tk_tasks k.
Proof. unfold tasks_in. rewrite nth_error_app2 by lia. rewrite Nat.sub_diag. reflexivity. Qed.
Lemma status_in_app_old tr k t : t < length tr -> status_in (tr ++ [k]) t = status_in tr t.
Proof. intros H. unfold status_in. rewrite nth_error_app1 by exact H. reflexivity. Qed.
Lemma status_in_app_new tr k : status_in (tr ++ [k]) (length tr) = tk_status k.
Proof. unfold status_in. rewrite nth_error_app2 by lia. rewrite Nat.sub_diag. reflexivity. Qed.

Lemma filter_ext_in_seq (f g : nat -> bool) a n :
  (forall t, a <= t < a + n -> f t = g t) -> filter f (seq a n) = filter g (seq a n).
Proof. intros H. apply filter_ext_in. intros t Ht. apply in_seq in Ht. apply H. exact Ht. Qed.

Lemma curids_of_app tr k cd :
  curids_of (tr ++ [k]) cd = curids_of tr cd ++ (if tk_cid k =? cd then [length tr] else []).
Proof.
  unfold curids_of. rewrite app_length. cbn [length]. rewrite seq_app. cbn [seq Nat.add].
  rewrite filter_app. f_equal.
  - apply filter_ext_in_seq. intros t Ht. apply cur_of_app_old. lia.
  - cbn [filter]. rewrite cur_of_app_new. reflexivity.
Qed.

Lemma curids_of_lt tr cd t : In t (curids_of tr cd) -> t < length tr /\ cur_of tr cd t = true.
Proof. unfold curids_of. rewrite filter_In, in_seq. intros [H1 H2]. split; [lia | exact H2]. Qed.

Lemma curids_of_In tr cd t : In t (curids_of tr cd) <-> cur_of tr cd t = true.
Proof.
  split; [intros H; apply curids_of_lt in H; tauto|].
  intros H. unfold curids_of. apply filter_In. split; [|exact H]. apply in_seq.
  unfold cur_of in H. destruct (nth_error tr t) eqn:E; [|discriminate].
  assert (t < length tr) by (apply nth_error_Some; congruence). lia.
Qed.

Lemma curids_of_NoDup tr cd : NoDup (curids_of tr cd).
Proof. unfold curids_of. apply NoDup_filter, seq_NoDup. Qed.

(* ---- changing one status ---- *)
Definition set_status_in (tr : list tracker) (t : nat) (x : status) : list tracker :=
  match nth_error tr t with
  | Some k => set_nth t {| tk_cid := tk_cid k; tk_tasks := tk_tasks k; tk_status := x |} tr
  | None => tr
  end.
Lemma set_status_eq s t x : set_status s t x = set_status_in (trk s) t x.
Proof. reflexivity. Qed.

Lemma set_status_in_length tr t x : length (set_status_in tr t x) = length tr.
Proof. unfold set_status_in. destruct (nth_error tr t); [apply set_nth_length | reflexivity]. Qed.

Lemma nth_error_set_status_in tr t x u :
  nth_error (set_status_in tr t x) u =
  if Nat.eqb t u then option_map (fun k => {| tk_cid := tk_cid k; tk_tasks := tk_tasks k; tk_status := x |}) (nth_error tr t)
  else nth_error tr u.
Proof.
  unfold set_status_in. destruct (nth_error tr t) as [k|] eqn:E.
  - destruct (Nat.eqb_spec t u) as [<-|Hne].
    + cbn. apply nth_error_set_nth_eq. apply nth_error_Some. congruence.
    + apply nth_error_set_nth_neq. exact Hne.
  - destruct (Nat.eqb_spec t u) as [<-|Hne]; [rewrite E; reflexivity | reflexivity].
Qed.

Lemma cur_of_set_status tr t x cd u : cur_of (set_status_in tr t x) cd u = cur_of tr cd u.
Proof.
  unfold cur_of. rewrite nth_error_set_status_in. destruct (Nat.eqb_spec t u) as [<-|]; [|reflexivity].
  destruct (nth_error tr t); reflexivity.
Qed.
Lemma tasks_in_set_status tr t x u : tasks_in (set_status_in tr t x) u = tasks_in tr u.
Proof.
  unfold tasks_in. rewrite nth_error_set_status_in. destruct (Nat.eqb_spec t u) as [<-|]; [|reflexivity].
  destruct (nth_error tr t); reflexivity.
Qed.
Lemma status_in_set_status_neq tr t x u : t <> u -> status_in (set_status_in tr t x) u = status_in tr u.
Proof.
  intros H. unfold status_in. rewrite nth_error_set_status_in.
  destruct (Nat.eqb_spec t u); [contradiction | reflexivity].
Qed.
Lemma status_in_set_status_eq tr t x : t < length tr -> status_in (set_status_in tr t x) t = x.
Proof.
  intros H. unfold status_in. rewrite nth_error_set_status_in, Nat.eqb_refl.
  destruct (nth_error tr t) eqn:E; [reflexivity|]. apply nth_error_None in E. lia.
Qed.
Lemma curids_of_set_status tr t x cd : curids_of (set_status_in tr t x) cd = curids_of tr cd.
Proof.
  unfold curids_of. rewrite set_status_in_length. apply filter_ext. intros u. apply cur_of_set_status.
Qed.
Lemma opens_of_set_status tr t x cd cl : opens_of (set_status_in tr t x) cd cl = opens_of tr cd cl.
Proof. unfold opens_of. rewrite curids_of_set_status. reflexivity. Qed.

(* ---- a new call id makes every existing tracker stale ---- *)
Lemma curids_of_fresh tr cd : Forall (fun k => tk_cid k <= cd) tr -> curids_of tr (S cd) = [].
Proof.
  intros H. unfold curids_of.
  assert (E : forall t, cur_of tr (S cd) t = false).
  { intros t. unfold cur_of. destruct (nth_error tr t) as [k|] eqn:Ek; [|reflexivity].
    apply nth_error_In in Ek. rewrite Forall_forall in H. specialize (H k Ek).
    apply Nat.eqb_neq. lia. }
  induction (seq 0 (length tr)) as [|a l IH]; [reflexivity|]. cbn. rewrite E. exact IH.
Qed.

(* ---- sums over open trackers ---- *)
Lemma sum_map_remove (f : nat -> nat) t l : NoDup l -> In t l ->
  sum_list (map f l) = f t + sum_list (map f (filter (fun x => negb (Nat.eqb t x)) l)).
Proof.
  induction l as [|a l IH]; intros Hnd Hin; [destruct Hin|].
  inversion Hnd as [|? ? Hna Hnd']; subst. cbn [map sum_list fold_right filter].
  fold (sum_list (map f l)).
  destruct Hin as [->|Hin].
  - rewrite Nat.eqb_refl. cbn [negb]. f_equal.
    change (filter (fun x => negb (t =? x)) l) with (remove_id t l).
    rewrite (remove_id_notin t l Hna). reflexivity.
  - destruct (Nat.eqb_spec t a) as [->|Hne]; [contradiction|]. cbn [negb map sum_list fold_right].
    fold (sum_list (map f (filter (fun x => negb (t =? x)) l))). rewrite (IH Hnd' Hin). lia.
Qed.

Lemma mem_id_app x a b : mem_id x (a ++ b) = mem_id x a || mem_id x b.
Proof. unfold mem_id. apply existsb_app. Qed.

Lemma opens_of_close tr cd cl t :
  opens_of tr cd (cl ++ [t]) = filter (fun x => negb (Nat.eqb t x)) (opens_of tr cd cl).
Proof.
  unfold opens_of. induction (curids_of tr cd) as [|a l IH]; [reflexivity|].
  cbn [filter]. rewrite mem_id_app. cbn [mem_id existsb]. rewrite orb_false_r.
  destruct (mem_id a cl) eqn:Ea; cbn [orb negb].
  - exact IH.
  - rewrite (Nat.eqb_sym a t). destruct (t =? a) eqn:E; cbn [negb filter]; rewrite ?E; cbn [negb]; [exact IH | f_equal; exact IH].
Qed.

Lemma opens_of_app_new tr k cd cl : tk_cid k = cd -> ~ In (length tr) cl ->
  opens_of (tr ++ [k]) cd cl = opens_of tr cd cl ++ [length tr].
Proof.
  intros Hc Hn. unfold opens_of. rewrite curids_of_app, filter_app. f_equal.
  rewrite Hc, Nat.eqb_refl. cbn [filter]. apply mem_id_false in Hn. rewrite Hn. reflexivity.
Qed.

Lemma opens_of_app_stale tr k cd cl : tk_cid k <> cd -> opens_of (tr ++ [k]) cd cl = opens_of tr cd cl.
Proof.
  intros Hc. unfold opens_of. rewrite curids_of_app.
  destruct (Nat.eqb_spec (tk_cid k) cd); [contradiction|]. rewrite app_nil_r. reflexivity.
Qed.

Lemma opens_of_In tr cd cl t : In t (opens_of tr cd cl) <-> cur_of tr cd t = true /\ ~ In t cl.
Proof.
  unfold opens_of. rewrite filter_In, curids_of_In. rewrite negb_true_iff, mem_id_false. tauto.
Qed.

Lemma opens_of_NoDup tr cd cl : NoDup (opens_of tr cd cl).
Proof. unfold opens_of. apply NoDup_filter, curids_of_NoDup. Qed.

Lemma map_tasks_ext tr tr' l : (forall t, In t l -> tasks_in tr' t = tasks_in tr t) ->
  map (tasks_in tr') l = map (tasks_in tr) l.
Proof. intros H. apply map_ext_in. exact H. Qed.
