(* Proofs about Model/ZlibFile.v (M6): the reader refines the reference stream (C13), every read
   loop terminates on every file (C14), writer bookkeeping, _read_bytes. *)
From Coq Require Import ZArith List Bool Lia ZifyBool.
Require Import JV.Base.PyPrelude JV.Model.ZlibFile JV.Proofs.ZlibFileLists.
Import ListNotations.
Open Scope Z_scope.

(* ------------------------------------------------------------------ invariant *)
(* what the file object has still to deliver: rest of the buffer + what the decompressor will
   output for the raw blocks not read yet *)
Definition remaining (st : rstate) : bytes := zskipn (off st) (buf st) ++ stream_out (fp st).

(* shape of the unread part of the file while the decompressor has not seen the end marker *)
Fixpoint wf_live (l : list raw) : Prop :=
  match l with
  | [] => True
  | RData _ :: r => wf_live r
  | RLast _ _ :: r => stream_out r = []
  | RJunk _ :: _ => False
  end.
Definition wf_fp (e : bool) (l : list raw) : Prop := if e then stream_out l = [] else wf_live l.

Record wfst (st : rstate) : Prop := {
  wf_off : 0 <= off st <= len (buf st);
  wf_fpw : wf_fp (deof st) (fp st);
  wf_un : deof st = false -> dunused st = [];
  wf_eof : mode st = MReadEOF -> remaining st = [] /\ size st = pos st;
  wf_mode : is_reading (mode st) = true
}.

Ltac simp_st :=
  unfold remaining, set_eof, with_fp, compact, rewind, init_state in *;
  cbn [mode pos size buf off fp deof dunused] in *.

Lemma concat_snoc_b (l : list bytes) (x : bytes) : concat (l ++ [x]) = concat l ++ x.
Proof. apply concat_snoc. Qed.

Lemma stream_out_cons t r : stream_out (t :: r) = raw_out t ++ stream_out r.
Proof. reflexivity. Qed.
Lemma stream_out_app a b : stream_out (a ++ b) = stream_out a ++ stream_out b.
Proof. unfold stream_out. rewrite map_app, concat_app. reflexivity. Qed.
Lemma stream_out_data os : stream_out (map RData os) = concat os.
Proof. induction os as [|o os IH]; [reflexivity|]. cbn [map]. rewrite stream_out_cons, IH. reflexivity. Qed.
Lemma stream_out_junk ex : stream_out (map RJunk ex) = [].
Proof. induction ex as [|o os IH]; [reflexivity|]. cbn [map]. rewrite stream_out_cons, IH. reflexivity. Qed.

Lemma stream_out_file s : stream_out (file_of s) = payload s.
Proof.
  destruct s as [os|os o u ex]; unfold payload; cbn [file_of all_outs].
  - apply stream_out_data.
  - rewrite stream_out_app, stream_out_cons, stream_out_data, stream_out_junk.
    cbn [raw_out]. rewrite app_nil_r. symmetry. apply concat_snoc.
Qed.
Lemma wf_live_file s : wf_live (file_of s).
Proof.
  destruct s as [os|os o u ex]; cbn [file_of].
  - induction os; cbn [map wf_live]; auto.
  - induction os; cbn [map wf_live app]; auto. apply stream_out_junk.
Qed.

(* ------------------------------------------------------------------ _fill_buffer *)
Lemma wfst_set_eof st : wfst st -> remaining st = [] -> wfst (set_eof st).
Proof.
  intros [W1 W2 W3 W4 W5] R. constructor; unfold set_eof, remaining in *;
    cbn [mode pos size buf off fp deof dunused].
  - exact W1.
  - exact W2.
  - exact W3.
  - intros _. split; [exact R|reflexivity].
  - reflexivity.
Qed.

Lemma wfst_refill st o r e u :
  wfst st -> mode st = MRead -> wf_fp e r -> (e = false -> u = []) ->
  wfst (mkR (mode st) (pos st) (size st) o 0 r e u).
Proof.
  intros W M Hr Hu. constructor; cbn [mode pos size buf off fp deof dunused].
  - pose proof (zl_len_nonneg o). lia.
  - exact Hr.
  - exact Hu.
  - rewrite M. discriminate.
  - rewrite M. reflexivity.
Qed.

Lemma fill_loop_spec : forall fuel st,
  wfst st -> mode st = MRead -> (length (fp st) < fuel)%nat ->
  exists b st', fill_loop fuel st = Some (b, st') /\ wfst st' /\ remaining st' = remaining st /\
    pos st' = pos st /\ (length (fp st') <= length (fp st))%nat /\
    (b = true -> mode st' = MRead /\ size st' = size st /\ off st' < len (buf st') /\
                 (off st = len (buf st) -> off st' = 0 /\ (length (fp st') < length (fp st))%nat) /\
                 (off st <> len (buf st) -> st' = st)) /\
    (b = false -> mode st' = MReadEOF /\ remaining st = []).
Proof.
  induction fuel as [|f IH]; intros st W M L; [lia|].
  cbn [fill_loop]. destruct (off st =? len (buf st)) eqn:E.
  - apply Z.eqb_eq in E.
    assert (Hskip : zskipn (off st) (buf st) = []) by (apply zskipn_all; lia).
    pose proof (wf_fpw _ W) as W2. pose proof (wf_un _ W) as W3.
    assert (EOFCASE : remaining st = [] ->
      exists b st', Some (false, set_eof st) = Some (b, st') /\ wfst st' /\ remaining st' = remaining st /\
        pos st' = pos st /\ (length (fp st') <= length (fp st))%nat /\
        (b = true -> mode st' = MRead /\ size st' = size st /\ off st' < len (buf st') /\
                 (off st = len (buf st) -> off st' = 0 /\ (length (fp st') < length (fp st))%nat) /\
                 (off st <> len (buf st) -> st' = st)) /\
        (b = false -> mode st' = MReadEOF /\ remaining st = [])).
    { intros R. exists false, (set_eof st). split; [reflexivity|]. split; [apply wfst_set_eof; assumption|].
      split; [reflexivity|]. split; [reflexivity|]. split; [unfold set_eof; cbn [fp]; lia|].
      split; [discriminate|]. intros _. split; [reflexivity|exact R]. }
    destruct (deof st) eqn:De.
    + (* the decompressor has seen the end marker *)
      cbn [wf_fp] in W2. apply EOFCASE. unfold remaining. rewrite Hskip, W2. reflexivity.
    + specialize (W3 eq_refl). unfold next_raw. rewrite W3. cbn [wf_fp] in W2.
      destruct (fp st) as [|t r] eqn:Efp.
      * (* end of file *)
        apply EOFCASE. unfold remaining. rewrite Hskip, Efp. reflexivity.
      * assert (STEP : forall o e u, wf_fp e r -> (e = false -> u = []) -> raw_out t = o ->
          exists b st', fill_loop f (mkR (mode st) (pos st) (size st) o 0 r e u) = Some (b, st') /\
            wfst st' /\ remaining st' = remaining st /\
            pos st' = pos st /\ (length (fp st') <= length (t :: r))%nat /\
            (b = true -> mode st' = MRead /\ size st' = size st /\ off st' < len (buf st') /\
                 (off st = len (buf st) -> off st' = 0 /\ (length (fp st') < length (t :: r))%nat) /\
                 (off st <> len (buf st) -> st' = st)) /\
            (b = false -> mode st' = MReadEOF /\ remaining st = [])).
        { intros o e u Hr Hu Ho.
          set (st1 := mkR (mode st) (pos st) (size st) o 0 r e u).
          assert (W' : wfst st1) by (apply wfst_refill; assumption).
          assert (R1 : remaining st1 = remaining st).
          { unfold remaining, st1. cbn [off buf fp]. rewrite Hskip, Efp, stream_out_cons, Ho. reflexivity. }
          destruct (IH st1 W' M) as (b & st' & F1 & F2 & F3 & F4 & F5 & F6 & F7).
          { unfold st1. cbn [fp]. cbn [length] in L. lia. }
          exists b, st'. split; [exact F1|]. split; [exact F2|]. split; [congruence|].
          split; [exact F4|]. unfold st1 in F5, F6. cbn [off buf fp] in F5, F6. cbn [length].
          split; [lia|]. split.
          - intros Hb. destruct (F6 Hb) as (G1 & G2 & G3 & G4 & G5).
            split; [exact G1|]. split; [exact G2|]. split; [exact G3|]. split; [|intros; lia].
            intros _. destruct (Z.eq_dec 0 (len o)) as [Eo|Eo].
            + destruct (G4 Eo). split; [assumption|lia].
            + rewrite (G5 Eo). unfold st1. cbn [off fp]. split; [reflexivity|lia].
          - intros Hb. destruct (F7 Hb) as (G1 & G2). split; [exact G1|]. rewrite <- R1. exact G2. }
        destruct t as [o|o u|b]; cbn [wf_live] in W2; [| |contradiction].
        -- cbn [raw_empty decompress]. apply STEP; [exact W2|reflexivity|reflexivity].
        -- cbn [raw_empty decompress]. apply STEP; [exact W2|discriminate|reflexivity].
  - apply Z.eqb_neq in E. exists true, st.
    split; [reflexivity|]. split; [exact W|]. split; [reflexivity|]. split; [reflexivity|].
    split; [lia|]. split; [|discriminate].
    intros _. pose proof (wf_off _ W) as W1.
    split; [exact M|]. split; [reflexivity|]. split; [lia|]. split; [intros; lia|reflexivity].
Qed.

Definition is_nilb {A} (l : list A) : bool := match l with [] => true | _ => false end.
(* loop measure: blocks not read yet, plus one if the buffer still holds data *)
Definition mu (st : rstate) : nat := (length (fp st) + (if is_nilb (buf st) then 0 else 1))%nat.

(* _fill_buffer at a loop head (offset 0) *)
Lemma fill_buffer_spec : forall F st,
  wfst st -> off st = 0 -> (length (fp st) < F)%nat ->
  exists b st', fill_buffer F st = Some (b, st') /\ wfst st' /\ remaining st' = remaining st /\
    pos st' = pos st /\ (length (fp st') <= length (fp st))%nat /\
    (b = true -> mode st' = MRead /\ size st' = size st /\ off st' = 0 /\ 0 < len (buf st') /\
                 (length (fp st') < mu st)%nat) /\
    (b = false -> mode st' = MReadEOF /\ remaining st = []).
Proof.
  intros F st W O L. unfold fill_buffer.
  destruct (mode st) eqn:M.
  - destruct W as [_ _ _ _ W5]. rewrite M in W5. discriminate.
  - destruct (fill_loop_spec F st W M L) as (b & st' & F1 & F2 & F3 & F4 & F5 & F6 & F7).
    exists b, st'. split; [exact F1|]. split; [exact F2|]. split; [exact F3|]. split; [exact F4|].
    split; [exact F5|]. split; [|exact F7]. intros Hb. destruct (F6 Hb) as (G1 & G2 & G3 & G4 & G5).
    split; [exact G1|]. split; [exact G2|].
    destruct (Z.eq_dec (off st) (len (buf st))) as [E|E].
    + destruct (G4 E) as [H1 H2]. split; [exact H1|]. split; [lia|].
      unfold mu. lia.
    + rewrite (G5 E) in *. split; [exact O|]. split; [lia|].
      unfold mu. destruct (buf st); [rewrite zl_len_nil in E; lia|]. cbn [is_nilb]. lia.
  - exists false, st. split; [reflexivity|]. split; [exact W|]. split; [reflexivity|].
    split; [reflexivity|]. split; [lia|]. split; [discriminate|]. intros _. split; [exact M|].
    destruct W as [_ _ _ W4 _]. apply W4. exact M.
  - destruct W as [_ _ _ _ W5]. rewrite M in W5. discriminate.
Qed.

(* ------------------------------------------------------------------ _read_all *)
Lemma ra_loop_spec : forall F f ret acc st,
  wfst st -> off st = 0 -> (mu st < f)%nat -> (length (fp st) < F)%nat ->
  exists acc' st', ra_loop fill_buffer F f ret acc st = Some (acc', st') /\
    concat acc' = (if ret then concat acc ++ remaining st else concat acc) /\
    (ret = false -> acc' = acc) /\
    wfst st' /\ mode st' = MReadEOF /\ pos st' = pos st + len (remaining st) /\
    (length (fp st') <= length (fp st))%nat.
Proof.
  intros F f. induction f as [|f IH]; intros ret acc st W O Lf LF; [lia|].
  cbn [ra_loop].
  destruct (fill_buffer_spec F st W O LF) as (b & st1 & F1 & F2 & F3 & F4 & Fle & F5 & F6).
  rewrite F1. destruct b.
  - destruct (F5 eq_refl) as (G1 & G2 & G3 & G4 & G5).
    set (st2 := mkR (mode st1) (pos st1 + len (buf st1)) (size st1) [] (off st1) (fp st1) (deof st1)
                    (dunused st1)).
    assert (W2 : wfst st2).
    { destruct F2 as [A1 A2 A3 A4 A5]. constructor; unfold st2; cbn [mode pos size buf off fp deof dunused].
      - rewrite G3. unfold len. cbn [length]. lia.
      - exact A2.
      - exact A3.
      - rewrite G1. discriminate.
      - exact A5. }
    assert (R1 : remaining st1 = buf st1 ++ stream_out (fp st1)).
    { unfold remaining. rewrite G3, zskipn_0. reflexivity. }
    assert (R2 : remaining st2 = stream_out (fp st1)).
    { subst st2. simp_st. rewrite zskipn_nil. reflexivity. }
    destruct (IH ret (if ret then acc ++ [buf st1] else acc) st2 W2) as (acc' & st' & H1 & H2 & H3 & H4 & H5 & H6 & H7).
    { subst st2. simp_st. exact G3. }
    { subst st2. unfold mu. simp_st. cbn [is_nilb]. lia. }
    { subst st2. simp_st. unfold mu in G5. destruct (is_nilb (buf st)); lia. }
    exists acc', st'. split; [exact H1|]. split.
    + rewrite H2. destruct ret; [|reflexivity].
      rewrite concat_snoc_b, R2, <- F3, R1, app_assoc. reflexivity.
    + split. { intros Hr. rewrite (H3 Hr). rewrite Hr. reflexivity. }
      split; [exact H4|]. split; [exact H5|]. split.
      * rewrite H6, R2. subst st2. simp_st. rewrite F4, <- F3, R1, zl_len_app. lia.
      * subst st2. simp_st. unfold mu in G5. destruct (is_nilb (buf st)); lia.
  - destruct (F6 eq_refl) as (G1 & G2).
    exists acc, st1. split; [reflexivity|]. split.
    + rewrite G2. destruct ret; [rewrite app_nil_r|]; reflexivity.
    + split; [reflexivity|]. split; [exact F2|]. split; [exact G1|]. split.
      * rewrite F4, G2, zl_len_nil. lia.
      * exact Fle.
Qed.

Lemma wfst_compact st : wfst st -> wfst (compact st) /\ remaining (compact st) = remaining st /\
  off (compact st) = 0 /\ (mu (compact st) <= length (fp st) + 1)%nat.
Proof.
  intros [W1 W2 W3 W4 W5].
  assert (E : py_from (buf st) (off st) = zskipn (off st) (buf st)) by (apply py_from_in; lia).
  assert (R : remaining (compact st) = remaining st).
  { unfold remaining, compact. cbn [off buf fp]. rewrite E, zskipn_0. reflexivity. }
  split; [|split; [exact R|split; [reflexivity|]]].
  - constructor; try (unfold compact; cbn [mode pos size buf off fp deof dunused]; assumption).
    + unfold compact; cbn [off buf]. pose proof (zl_len_nonneg (py_from (buf st) (off st))). lia.
    + intros M. rewrite R. unfold compact in *. cbn [mode size pos] in *. apply W4. exact M.
  - unfold mu, compact. cbn [fp buf]. destruct (is_nilb _); lia.
Qed.

Lemma read_all_spec : forall F ret st,
  wfst st -> (length (fp st) + 2 <= F)%nat ->
  exists st', read_all fill_buffer F ret st = Some (if ret then remaining st else [], st') /\
    wfst st' /\ mode st' = MReadEOF /\ pos st' = pos st + len (remaining st) /\
    (length (fp st') <= length (fp st))%nat.
Proof.
  intros F ret st W L. unfold read_all.
  destruct (wfst_compact st W) as (C1 & C2 & C3 & C4).
  destruct (ra_loop_spec F F ret [] (compact st) C1 C3) as (acc' & st' & H1 & H2 & H3 & H4 & H5 & H6 & H7).
  { lia. }
  { unfold compact. cbn [fp]. lia. }
  rewrite H1. exists st'. split.
  - destruct ret; [|reflexivity]. rewrite H2, C2. reflexivity.
  - split; [exact H4|]. split; [exact H5|]. split; [rewrite H6, C2; unfold compact; reflexivity|].
    unfold compact in H7. cbn [fp] in H7. exact H7.
Qed.

(* ------------------------------------------------------------------ _read_block *)
Lemma rb_loop_spec : forall F f ret n acc st,
  wfst st -> 0 <= n -> (1 <= f)%nat -> (0 < n -> off st = 0 /\ (mu st < f)%nat) ->
  (length (fp st) < F)%nat ->
  exists acc' st', rb_loop fill_buffer F f ret n acc st = Some (acc', st') /\
    concat acc' = (if ret then concat acc ++ zfirstn n (remaining st) else concat acc) /\
    (ret = false -> acc' = acc) /\
    wfst st' /\ pos st' = pos st + len (zfirstn n (remaining st)) /\
    remaining st' = zskipn n (remaining st) /\
    (size st' = size st \/ mode st' = MReadEOF) /\
    (length (fp st') <= length (fp st))%nat.
Proof.
  intros F f. induction f as [|f IH]; intros ret n acc st W N L1 Lmu LF; [lia|].
  cbn [rb_loop]. destruct (0 <? n) eqn:En.
  - apply Z.ltb_lt in En. destruct (Lmu En) as [O Lf].
    destruct (fill_buffer_spec F st W O LF) as (b & st1 & F1 & F2 & F3 & F4 & Fle & F5 & F6).
    rewrite F1. destruct b.
    + destruct (F5 eq_refl) as (G1 & G2 & G3 & G4 & G5).
      assert (R1 : remaining st1 = buf st1 ++ stream_out (fp st1)).
      { unfold remaining. rewrite G3, zskipn_0. reflexivity. }
      assert (Hf : (1 <= f)%nat) by lia.
      destruct F2 as [A1 A2 A3 A4 A5].
      destruct (n <? len (buf st1)) eqn:Enb.
      * (* the buffer holds more than asked for *)
        apply Z.ltb_lt in Enb. cbn [mode pos size buf off fp deof dunused].
        assert (Ed : py_upto (buf st1) n = zfirstn n (buf st1)) by (apply py_upto_in; lia).
        assert (Ld : len (py_upto (buf st1) n) = n) by (rewrite Ed, len_zfirstn; lia).
        rewrite Ld. replace (n - n) with 0 by lia.
        set (st3 := mkR (mode st1) (pos st1 + n) (size st1) (buf st1) n (fp st1) (deof st1) (dunused st1)).
        assert (W3 : wfst st3).
        { constructor; unfold st3; cbn [mode pos size buf off fp deof dunused]; auto.
          - lia.
          - rewrite G1. discriminate. }
        destruct (IH ret 0 (if ret then acc ++ [py_upto (buf st1) n] else acc) st3 W3) as
            (acc' & st' & H1 & H2 & H3 & H4 & H5 & H6 & H7 & H8); [lia|exact Hf|lia| |].
        { unfold st3. cbn [fp]. lia. }
        exists acc', st'. split; [exact H1|].
        assert (Fn : zfirstn n (remaining st) = zfirstn n (buf st1)).
        { rewrite <- F3, R1, zfirstn_app. rewrite (zfirstn_neg (n - len (buf st1))) by lia.
          apply app_nil_r. }
        assert (R3 : remaining st3 = zskipn n (remaining st)).
        { rewrite <- F3, R1, zskipn_app. rewrite (zskipn_neg (n - len (buf st1))) by lia.
          unfold remaining, st3. reflexivity. }
        split.
        { rewrite H2. destruct ret; [|reflexivity]. rewrite zfirstn_0, app_nil_r, concat_snoc_b, Fn, Ed.
          reflexivity. }
        split. { intros Hr. rewrite (H3 Hr), Hr. reflexivity. }
        split; [exact H4|]. split.
        { rewrite H5, zfirstn_0, zl_len_nil, Fn, len_zfirstn by lia. unfold st3. cbn [pos]. lia. }
        split. { rewrite H6, zskipn_0. exact R3. }
        split. { destruct H7 as [H7|H7]; [left; rewrite H7; unfold st3; cbn [size]; exact G2|right; exact H7]. }
        unfold st3 in H8. cbn [fp] in H8. lia.
      * (* the whole buffer is consumed *)
        apply Z.ltb_ge in Enb. cbn [mode pos size buf off fp deof dunused].
        set (st3 := mkR (mode st1) (pos st1 + len (buf st1)) (size st1) [] (off st1) (fp st1) (deof st1)
                        (dunused st1)).
        assert (W3 : wfst st3).
        { constructor; unfold st3; cbn [mode pos size buf off fp deof dunused]; auto.
          - rewrite G3. unfold len. cbn [length]. lia.
          - rewrite G1. discriminate. }
        assert (R3 : remaining st3 = stream_out (fp st1)).
        { unfold remaining, st3. cbn [off buf fp]. rewrite zskipn_nil. reflexivity. }
        destruct (IH ret (n - len (buf st1)) (if ret then acc ++ [buf st1] else acc) st3 W3) as
            (acc' & st' & H1 & H2 & H3 & H4 & H5 & H6 & H7 & H8); [lia|exact Hf| |unfold st3; cbn [fp]; lia|].
        { intros _. split; [unfold st3; cbn [off]; exact G3|].
          unfold mu, st3. cbn [fp buf is_nilb]. lia. }
        exists acc', st'. split; [exact H1|].
        assert (Fn : zfirstn n (remaining st) = buf st1 ++ zfirstn (n - len (buf st1)) (stream_out (fp st1))).
        { rewrite <- F3, R1, zfirstn_app. rewrite (zfirstn_all n (buf st1)) by lia. reflexivity. }
        assert (Sn : zskipn n (remaining st) = zskipn (n - len (buf st1)) (stream_out (fp st1))).
        { rewrite <- F3, R1, zskipn_app. rewrite (zskipn_all n (buf st1)) by lia. reflexivity. }
        split.
        { rewrite H2. destruct ret; [|reflexivity]. rewrite concat_snoc_b, R3, Fn, app_assoc. reflexivity. }
        split. { intros Hr. rewrite (H3 Hr), Hr. reflexivity. }
        split; [exact H4|]. split.
        { rewrite H5, R3, Fn, zl_len_app. unfold st3. cbn [pos]. lia. }
        split. { rewrite H6, R3, Sn. reflexivity. }
        split. { destruct H7 as [H7|H7]; [left; rewrite H7; unfold st3; cbn [size]; exact G2|right; exact H7]. }
        unfold st3 in H8. cbn [fp] in H8. lia.
    + destruct (F6 eq_refl) as (G1 & G2).
      exists acc, st1. split; [reflexivity|]. rewrite G2, zfirstn_nil, zskipn_nil.
      split. { destruct ret; [rewrite app_nil_r|]; reflexivity. }
      split; [reflexivity|]. split; [exact F2|]. split; [rewrite zl_len_nil; lia|].
      split; [rewrite F3; exact G2|]. split; [right; exact G1|exact Fle].
  - apply Z.ltb_ge in En. assert (n = 0) by lia. subst n.
    exists acc, st. split; [reflexivity|]. rewrite zfirstn_0, zskipn_0.
    split. { destruct ret; [rewrite app_nil_r|]; reflexivity. }
    split; [reflexivity|]. split; [exact W|]. split; [rewrite zl_len_nil; lia|].
    split; [reflexivity|]. split; [left; reflexivity|lia].
Qed.

Lemma read_block_spec : forall F ret n st,
  wfst st -> 0 <= n -> (length (fp st) + 2 <= F)%nat ->
  exists st', read_block fill_buffer F ret n st = Some (if ret then zfirstn n (remaining st) else [], st') /\
    wfst st' /\ pos st' = pos st + len (zfirstn n (remaining st)) /\
    remaining st' = zskipn n (remaining st) /\
    (size st' = size st \/ mode st' = MReadEOF) /\
    (length (fp st') <= length (fp st))%nat.
Proof.
  intros F ret n st W N L. unfold read_block. cbv zeta.
  destruct (off st + n <=? len (buf st)) eqn:E.
  - apply Z.leb_le in E. destruct W as [W1 W2 W3 W4 W5].
    assert (Ed : py_slice (buf st) (off st) (off st + n) = zfirstn n (zskipn (off st) (buf st))).
    { rewrite py_slice_in by lia. f_equal. lia. }
    assert (Fn : zfirstn n (remaining st) = zfirstn n (zskipn (off st) (buf st))).
    { unfold remaining. rewrite zfirstn_app, len_zskipn by lia.
      rewrite (zfirstn_neg (n - _)) by lia. apply app_nil_r. }
    assert (Sn : zskipn n (remaining st) = zskipn (off st + n) (buf st) ++ stream_out (fp st)).
    { unfold remaining. rewrite zskipn_app, len_zskipn by lia.
      rewrite (zskipn_neg (n - _)) by lia. rewrite zskipn_zskipn by lia. reflexivity. }
    rewrite Ed, <- Fn. eexists. split; [reflexivity|].
    split.
    { constructor; cbn [mode pos size buf off fp deof dunused]; auto.
      - lia.
      - intros M. destruct (W4 M) as [R S]. split.
        + unfold remaining at 1. cbn [off buf fp]. rewrite <- Sn, R. apply zskipn_nil.
        + rewrite R, zfirstn_nil, zl_len_nil. lia. }
    cbn [mode pos size buf off fp deof dunused]. split; [reflexivity|].
    split; [unfold remaining at 1; cbn [off buf fp]; symmetry; exact Sn|]. split; [left; reflexivity|lia].
  - apply Z.leb_gt in E.
    destruct (wfst_compact st W) as (C1 & C2 & C3 & C4).
    destruct (rb_loop_spec F F ret n [] (compact st) C1 N) as (acc' & st' & H1 & H2 & H3 & H4 & H5 & H6 & H7 & H8).
    { lia. }
    { intros _. split; [exact C3|lia]. }
    { unfold compact. cbn [fp]. lia. }
    rewrite H1. exists st'. rewrite C2 in *. split.
    { destruct ret; [|reflexivity]. rewrite H2. reflexivity. }
    split; [exact H4|]. split; [exact H5|]. split; [exact H6|]. split; [exact H7|exact H8].
Qed.

(* ------------------------------------------------------------------ refinement of the reference stream *)
Section Refine.
Variable s : script.
Let file := file_of s.
Let D := payload s.

Record Inv (st : rstate) : Prop := {
  inv_wf : wfst st;
  inv_pos : 0 <= pos st;
  inv_rem : zskipn (pos st) D = remaining st;
  inv_len : pos st + len (remaining st) = len D;
  inv_size : size st = -1 \/ size st = len D;
  inv_fp : (length (fp st) <= length file)%nat
}.

Definition Sim (st : rstate) (rs : refst) : Prop :=
  if rclosed rs then mode st = MClosed else Inv st /\ pos st = rpos rs.

Lemma Inv_init : Inv (init_state file).
Proof.
  constructor; unfold init_state; cbn [mode pos size buf off fp deof dunused].
  - constructor; cbn [mode pos size buf off fp deof dunused].
    + unfold len. cbn [length]. lia.
    + cbn [wf_fp]. apply wf_live_file.
    + reflexivity.
    + discriminate.
    + reflexivity.
  - lia.
  - unfold remaining. cbn [off buf fp]. rewrite zskipn_nil. cbn [app]. unfold file, D.
    rewrite stream_out_file. reflexivity.
  - unfold remaining. cbn [off buf fp]. rewrite zskipn_nil. cbn [app]. unfold file, D.
    rewrite stream_out_file. lia.
  - left; reflexivity.
  - lia.
Qed.

Lemma Inv_rewind st : Inv st -> Inv (rewind file st).
Proof.
  intros I. destruct Inv_init as [A1 A2 A3 A4 A5 A6].
  constructor; try assumption.
  - destruct A1 as [B1 B2 B3 B4 B5]. constructor; try assumption. discriminate.
  - unfold rewind. cbn [size]. apply (inv_size _ I).
Qed.

Lemma Inv_advance st st' n :
  Inv st -> 0 <= n -> wfst st' ->
  pos st' = pos st + len (zfirstn n (remaining st)) ->
  remaining st' = zskipn n (remaining st) ->
  (size st' = size st \/ mode st' = MReadEOF) ->
  (length (fp st') <= length (fp st))%nat ->
  Inv st'.
Proof.
  intros [I1 I2 I3 I4 I5 I6] N W P R S L.
  pose proof (zl_len_nonneg (remaining st)) as LR.
  assert (Hlen : pos st' + len (remaining st') = len D).
  { rewrite P, R, len_zfirstn, len_zskipn by lia. lia. }
  assert (Hrem : zskipn (pos st') D = remaining st').
  { rewrite P, R, len_zfirstn by lia.
    rewrite <- (zskipn_zskipn (Z.min n (len (remaining st))) (pos st) D) by lia.
    rewrite I3. destruct (Z.le_ge_cases n (len (remaining st))) as [C|C].
    - rewrite Z.min_l by lia. reflexivity.
    - rewrite Z.min_r by lia. rewrite !zskipn_all by lia. reflexivity. }
  constructor; try assumption.
  - rewrite P. pose proof (zl_len_nonneg (zfirstn n (remaining st))). lia.
  - destruct S as [S|S]; [rewrite S; exact I5|].
    destruct (wf_eof _ W S) as [E1 E2]. right. rewrite E2. rewrite E1, zl_len_nil in Hlen. lia.
  - lia.
Qed.

Lemma read_all_inv F ret st :
  Inv st -> (length file + 3 <= F)%nat ->
  exists st', read_all fill_buffer F ret st = Some (if ret then zskipn (pos st) D else [], st') /\
    Inv st' /\ pos st' = len D /\ size st' = len D.
Proof.
  intros I LF. pose proof I as [I1 I2 I3 I4 I5 I6].
  destruct (read_all_spec F ret st I1) as (st' & H1 & H2 & H3 & H4 & H5); [lia|].
  exists st'. rewrite I3. split; [exact H1|].
  destruct (wf_eof _ H2 H3) as [E1 E2].
  assert (P : pos st' = len D) by lia.
  pose proof (zl_len_nonneg D) as LD.
  split; [|split; [exact P|lia]].
  constructor; try assumption.
  - lia.
  - rewrite E1, P. apply zskipn_all. lia.
  - rewrite E1, zl_len_nil. lia.
  - right. lia.
  - lia.
Qed.

Lemma read_block_inv F ret n st :
  Inv st -> 0 <= n -> (length file + 3 <= F)%nat ->
  exists st', read_block fill_buffer F ret n st =
                Some (if ret then zfirstn n (zskipn (pos st) D) else [], st') /\
    Inv st' /\ pos st' = pos st + len (zfirstn n (zskipn (pos st) D)).
Proof.
  intros I N LF. pose proof I as [I1 I2 I3 I4 I5 I6].
  destruct (read_block_spec F ret n st I1 N) as (st' & H1 & H2 & H3 & H4 & H5 & H6); [lia|].
  exists st'. rewrite I3. split; [exact H1|]. split; [|exact H3].
  apply (Inv_advance st st' n); assumption.
Qed.

Lemma Inv_reading st : Inv st -> is_reading (mode st) = true.
Proof. intros I. apply (wf_mode _ (inv_wf _ I)). Qed.

Lemma do_read_sim F n st rs r rs' :
  (length file + 3 <= F)%nat -> Inv st -> pos st = rpos rs -> rclosed rs = false ->
  ref_step D (ORead n) rs = Some (r, rs') ->
  exists st', do_read fill_buffer F n st = Some (r, st') /\ Sim st' rs'.
Proof.
  intros LF I P C H. unfold ref_step in H. rewrite C in H.
  unfold do_read, check_can_read. rewrite (Inv_reading _ I).
  destruct (n =? 0) eqn:E0.
  - injection H as <- <-. exists st. split; [reflexivity|]. unfold Sim. rewrite C. split; assumption.
  - destruct (n <? 0) eqn:En.
    + injection H as <- <-. destruct (read_all_inv F true st I LF) as (st' & H1 & H2 & H3 & H4).
      rewrite H1. exists st'. rewrite P. split; [reflexivity|]. unfold Sim. cbn [rclosed rpos].
      split; assumption.
    + injection H as <- <-. destruct (read_block_inv F true n st I) as (st' & H1 & H2 & H3); [lia|exact LF|].
      rewrite H1. exists st'. rewrite P. split; [reflexivity|]. unfold Sim. cbn [rclosed rpos].
      split; [exact H2|]. rewrite H3, P. reflexivity.
Qed.

Lemma step_sim F o st rs r rs' :
  (length file + 3 <= F)%nat -> Sim st rs -> ref_step D o rs = Some (r, rs') ->
  exists st', step fill_buffer F file o st = Some (r, st') /\ Sim st' rs'.
Proof.
  intros LF S H. unfold Sim in S. destruct (rclosed rs) eqn:C.
  - (* closed *)
    unfold ref_step in H. rewrite C in H.
    assert (SS : Sim st rs) by (unfold Sim; rewrite C; exact S).
    destruct o as [n|n|k w| | | |q| |]; try destruct q; try discriminate H;
      injection H as <- <-; exists st; (split; [|exact SS]); cbn [step];
      unfold do_read, do_readinto, do_read, do_seek, do_tell, do_close, do_write_r, do_query, check_can_seek,
        check_can_read, check_can_write_r, check_not_closed; try rewrite S; reflexivity.
  - destruct S as [I P].
    destruct o as [n|n|k w| | | |q| |]; cbn [step].
    + apply (do_read_sim F n st rs r rs'); assumption.
    + (* readinto = read + copy *)
      unfold ref_step in H. rewrite C in H. unfold do_readinto.
      assert (exists rb, ref_step D (ORead n) rs = Some (VBytes rb, rs') /\ r = VInto rb) as (rb & Hr & ->).
      { unfold ref_step. rewrite C. destruct (n =? 0); [|destruct (n <? 0)]; injection H as <- <-;
          eexists; split; reflexivity. }
      destruct (do_read_sim F n st rs _ _ LF I P C Hr) as (st' & H1 & H2).
      rewrite H1. exists st'. split; [reflexivity|exact H2].
    + (* seek *)
      unfold ref_step in H. rewrite C in H. unfold do_seek, check_can_seek, check_can_read.
      rewrite (Inv_reading _ I).
      destruct (w =? 0) eqn:W0; [|destruct (w =? 1) eqn:W1; [|destruct (w =? 2) eqn:W2]]; cbn [orb] in H.
      * (* from the start *)
        destruct (k <? 0) eqn:T; [discriminate|]. injection H as <- <-. apply Z.ltb_ge in T.
        destruct (k <? pos st) eqn:B.
        -- destruct (read_block_inv F false k (rewind file st) (Inv_rewind _ I) T LF) as (st' & H1 & H2 & H3).
           rewrite H1. exists st'. unfold rewind in H3. cbn [pos] in H3. rewrite zskipn_0 in H3.
           rewrite H3, len_zfirstn by lia. split; [f_equal; f_equal; f_equal; lia|].
           unfold Sim. cbn [rclosed rpos]. split; [exact H2|]. rewrite H3, len_zfirstn by lia. lia.
        -- apply Z.ltb_ge in B.
           destruct (read_block_inv F false (k - pos st) st I) as (st' & H1 & H2 & H3); [lia|exact LF|].
           rewrite H1. exists st'. pose proof (inv_len _ I) as IL. pose proof (inv_rem _ I) as IR.
           assert (E : pos st' = Z.min k (len D)).
           { rewrite H3, IR, len_zfirstn by lia. lia. }
           rewrite E. split; [reflexivity|]. unfold Sim. cbn [rclosed rpos]. split; assumption.
      * (* from the current position *)
        rewrite <- P in H. destruct (pos st + k <? 0) eqn:T; [discriminate|]. injection H as <- <-.
        apply Z.ltb_ge in T.
        destruct (pos st + k <? pos st) eqn:B.
        -- destruct (read_block_inv F false (pos st + k) (rewind file st) (Inv_rewind _ I) T LF)
             as (st' & H1 & H2 & H3).
           rewrite H1. exists st'. unfold rewind in H3. cbn [pos] in H3. rewrite zskipn_0 in H3.
           rewrite H3, len_zfirstn by lia. split; [f_equal; f_equal; f_equal; lia|].
           unfold Sim. cbn [rclosed rpos]. split; [exact H2|]. rewrite H3, len_zfirstn by lia. lia.
        -- apply Z.ltb_ge in B.
           destruct (read_block_inv F false (pos st + k - pos st) st I) as (st' & H1 & H2 & H3); [lia|exact LF|].
           rewrite H1. exists st'. pose proof (inv_len _ I) as IL. pose proof (inv_rem _ I) as IR.
           assert (E : pos st' = Z.min (pos st + k) (len D)).
           { rewrite H3, IR, len_zfirstn by lia. lia. }
           rewrite E. split; [reflexivity|]. unfold Sim. cbn [rclosed rpos]. split; assumption.
      * (* from the end: the size has to be known *)
        destruct (len D + k <? 0) eqn:T; [discriminate|]. injection H as <- <-. apply Z.ltb_ge in T.
        assert (exists st1, (if size st <? 0
                             then match read_all fill_buffer F false st with
                                  | None => None
                                  | Some (_, st1) => Some (Some (size st1 + k, st1))
                                  end
                             else Some (Some (size st + k, st))) = Some (Some (len D + k, st1)) /\ Inv st1)
          as (st1 & -> & I1).
        { destruct (size st <? 0) eqn:Sz.
          - destruct (read_all_inv F false st I LF) as (st1 & H1 & H2 & H3 & H4). rewrite H1.
            exists st1. rewrite H4. split; [reflexivity|exact H2].
          - exists st. apply Z.ltb_ge in Sz. destruct (inv_size _ I) as [Q|Q]; [lia|]. rewrite Q.
            split; [reflexivity|exact I]. }
        destruct (len D + k <? pos st1) eqn:B.
        -- destruct (read_block_inv F false (len D + k) (rewind file st1) (Inv_rewind _ I1) T LF)
             as (st' & H1 & H2 & H3).
           rewrite H1. exists st'. unfold rewind in H3. cbn [pos] in H3. rewrite zskipn_0 in H3.
           rewrite H3, len_zfirstn by lia. split; [f_equal; f_equal; f_equal; lia|].
           unfold Sim. cbn [rclosed rpos]. split; [exact H2|]. rewrite H3, len_zfirstn by lia. lia.
        -- apply Z.ltb_ge in B.
           destruct (read_block_inv F false (len D + k - pos st1) st1 I1) as (st' & H1 & H2 & H3); [lia|exact LF|].
           rewrite H1. exists st'. pose proof (inv_len _ I1) as IL. pose proof (inv_rem _ I1) as IR.
           assert (E : pos st' = Z.min (len D + k) (len D)).
           { rewrite H3, IR, len_zfirstn by lia. lia. }
           rewrite E. split; [reflexivity|]. unfold Sim. cbn [rclosed rpos]. split; assumption.
      * (* invalid whence *)
        injection H as <- <-. exists st. split; [reflexivity|]. unfold Sim. rewrite C. split; assumption.
    + unfold ref_step in H. rewrite C in H. injection H as <- <-. exists st. split.
      * unfold do_tell, check_not_closed. pose proof (Inv_reading _ I) as R.
        destruct (mode st); try discriminate; rewrite P; reflexivity.
      * unfold Sim. rewrite C. split; assumption.
    + unfold ref_step in H. rewrite C in H. injection H as <- <-. pose proof (Inv_reading _ I) as R.
      unfold do_close. destruct (mode st); try discriminate; eexists; (split; [reflexivity|]);
        unfold Sim; cbn [rclosed mode]; reflexivity.
    + unfold ref_step in H. rewrite C in H. injection H as <- <-. pose proof (Inv_reading _ I) as R.
      exists st. split.
      * unfold do_write_r, check_can_write_r, check_not_closed. destruct (mode st); try discriminate; reflexivity.
      * unfold Sim. rewrite C. split; assumption.
    + unfold ref_step in H. rewrite C in H. pose proof (Inv_reading _ I) as R.
      exists st. split.
      * unfold do_query, check_not_closed.
        destruct q; injection H as <- <-; destruct (mode st); try discriminate; reflexivity.
      * destruct q; injection H as <- <-; unfold Sim; rewrite C; split; assumption.
    + unfold ref_step in H. rewrite C in H. injection H as <- <-. exists st. split; [reflexivity|].
      unfold Sim. rewrite C. split; assumption.
    + unfold ref_step in H. rewrite C in H. injection H as <- <-. exists st. split; [reflexivity|].
      unfold Sim. rewrite C. split; assumption.
Qed.

Lemma run_sim F ops : forall st rs routs rs',
  (length file + 3 <= F)%nat -> Sim st rs -> ref_run D ops rs = Some (routs, rs') ->
  exists st', run fill_buffer F file ops st = Some (routs, st') /\ Sim st' rs'.
Proof.
  induction ops as [|o ops IH]; intros st rs routs rs' LF S H; cbn [ref_run run] in *.
  - injection H as <- <-. exists st. split; [reflexivity|exact S].
  - destruct (ref_step D o rs) as [[r rs1]|] eqn:E; [|discriminate].
    destruct (ref_run D ops rs1) as [[rs_out rs2]|] eqn:E2; [|discriminate].
    injection H as <- <-.
    destruct (step_sim F o st rs r rs1 LF S E) as (st1 & H1 & S1). rewrite H1.
    destruct (IH st1 rs1 rs_out rs2 LF S1 E2) as (st2 & H2 & S2). rewrite H2.
    exists st2. split; [reflexivity|exact S2].
Qed.
End Refine.

(* C13: for every script (truncated, or complete with any trailer), every history whose seek
   targets are at or after the start: same results and same final position as the reference
   stream over the payload, with fuel [fuel_for] (so no operation runs out of fuel) *)
Theorem refines_stream : forall s ops routs rs fuel,
  ref_run (payload s) ops ref_init = Some (routs, rs) ->
  (fuel_for (file_of s) <= fuel)%nat ->
  exists st', run_new fuel (file_of s) ops (init_state (file_of s)) = Some (routs, st') /\
              (if rclosed rs then mode st' = MClosed else pos st' = rpos rs).
Proof.
  intros s ops routs rs fuel H LF. unfold fuel_for in LF.
  destruct (run_sim s fuel ops (init_state (file_of s)) ref_init routs rs LF) as (st' & H1 & H2).
  - unfold Sim. cbn [rclosed ref_init]. split; [apply Inv_init|reflexivity].
  - exact H.
  - exists st'. split; [exact H1|]. unfold Sim in H2. destruct (rclosed rs); [exact H2|apply H2].
Qed.
