(* M5, part 7: the warm refinement -- no participant clears, func_code.py holds the current
   source: no call raises (C11_no_raise_partial). *)
From Coq Require Import ZArith List Bool Lia.
Require Import JV.Base.PyPrelude JV.Model.FsModel JV.Proofs.FsModelBase JV.Proofs.FsModelRG
               JV.Proofs.FsModelWf JV.Proofs.FsModelThm.
Import ListNotations.
Open Scope Z_scope.

Definition calm (a : action) : Prop := match a with ACall _ | AReduce _ => True | _ => False end.

Section Warm.
Variable pickle : Z -> bytes.
Variable unpickle : bytes -> option Z.
Variable meta : bytes.
Variable parse_meta : bytes -> bool.
Variable code : Z -> bytes.
Variable code_eq : bytes -> Z -> bool.
Variable decodes : bytes -> bool.
Variable gitbytes : bytes.
Variable f : Z -> Z -> Z.
Variable cur : Z.

Definition Warm (s : fs) : Prop :=
  present PLoc s = true /\ present PRoot s = true /\ present PMod s = true /\
  present PFunc s = true /\ lookup PCode s = Some (code cur).

Definition calm_ok (a : action) (o : outcome) : Prop :=
  match a with
  | ACall k => exists c, o = OVal (f cur k) c
  | AReduce _ => o = ODone
  | _ => False
  end.

Notation outB := (outB pickle f cur).
Notation metaA := (metaA meta).
Notation codeB := (codeB code cur).
Notation InvB := (InvB pickle meta code f cur).
Notation wfW := (wf outB metaA codeB codeB Warm safe_op).
Notation JW := (J outB metaA codeB Warm).
Notation TT := (fun _ => True).

Hypothesis dec_cur : decodes (code cur) = true.
Hypothesis eq_cur : code_eq (code cur) cur = true.

Lemma warm_step : forall o s, allowed codeB o -> safe_op o -> Inv outB metaA codeB s -> Warm s ->
  Warm (snd (exec o s)).
Proof.
  intros o s Ha Hs _ (H1 & H2 & H3 & H4 & H5). unfold Warm.
  destruct o; simpl in *;
    try (destruct (present p s); simpl; auto; fail); try (destruct (lookup p s); simpl; auto; fail).
  - destruct (present p s); simpl; auto. destruct (parent_present p s); simpl; auto.
    rewrite !present_set, lookup_set, H1, H2, H3, H4, !orb_true_r.
    destruct (path_eqb PCode p) eqn:E; auto. apply path_eqb_eq in E; subst; discriminate.
  - destruct (parent_present p s); simpl; auto.
    rewrite !present_set, lookup_set, H1, H2, H3, H4, !orb_true_r.
    destruct (path_eqb PCode p) eqn:E; auto. apply path_eqb_eq in E; subst; congruence.
  - destruct (lookup p s); simpl; auto.
    rewrite !present_set, lookup_set, H1, H2, H3, H4, !orb_true_r.
    destruct (path_eqb PCode p) eqn:E; auto. apply path_eqb_eq in E; subst; congruence.
  - contradiction.
  - destruct (present p s); simpl; auto.
    rewrite !present_remove, lookup_remove, H1, H2, H3, H4, !andb_true_r.
    destruct (path_eqb PCode p) eqn:E; [apply path_eqb_eq in E; subst; congruence|].
    destruct p; simpl in *; try discriminate; auto.
  - destruct (is_dir p) eqn:Hdir; simpl; auto. destruct (present p s); simpl; auto. destruct (children p s); simpl; auto.
    rewrite !present_remove, lookup_remove, H1, H2, H3, H4, !andb_true_r.
    destruct Hs as (N1 & N2 & N3 & N4).
    destruct p; simpl in *; try congruence; auto.
Qed.

Lemma warm_entry : forall o s,
  match o with
  | Creat p | Write p _ => is_tmp p = true
  | Rename p d => is_tmp p = true /\ is_final d = true
  | _ => False
  end -> Warm s -> Warm (snd (exec o s)).
Proof.
  intros o s Ho (H1 & H2 & H3 & H4 & H5). unfold Warm.
  destruct o; simpl in *; try contradiction.
  - destruct (parent_present p s); simpl; auto.
    rewrite !present_set, lookup_set, H1, H2, H3, H4, !orb_true_r. destruct p; try discriminate; auto.
  - destruct (lookup p s); simpl; auto.
    rewrite !present_set, lookup_set, H1, H2, H3, H4, !orb_true_r. destruct p; try discriminate; auto.
  - destruct Ho as [Hs Hd]. destruct (lookup src s); simpl; auto.
    destruct (parent_present dst s); simpl; auto.
    rewrite !present_set, !present_remove, lookup_set, lookup_remove, H1, H2, H3, H4, !andb_true_r.
    destruct src; try discriminate; destruct dst; try discriminate; simpl; auto.
Qed.

Section Part.
Variable t : Z.
Variable cb : option bool.

Ltac wfo := apply wf_op_all; [simpl; auto | simpl; first [exact I | congruence | (repeat split; congruence)] | intros ?r].
Ltac wfr := apply wf_ret; auto.
Ltac safe := intros ? Hsafe; exact Hsafe.

Lemma rm_files_W : forall rec l, (forall q, In q l -> is_dir q = false /\ q <> PCode) ->
  wfW _ t TT (rm_entries rec false l).
Proof.
  intros rec l; induction l as [|q tl IH]; intros Hl; simpl; [wfr|].
  destruct (Hl q (or_introl eq_refl)) as [Hd Hc]. rewrite Hd.
  eapply wf_pbind with (Q1 := TT).
  - apply wf_op_all; simpl; auto. intros r; wfr.
  - intros [u|e] _; apply IH; intros q' Hq'; apply Hl; right; auto.
Qed.

Lemma rmtree_entry_W : forall k, wfW _ t TT (rmtree_ign (PEntry k)).
Proof.
  intros k. unfold rmtree_ign. eapply wf_pbind with (Q1 := TT); [|intros; wfr].
  unfold rmtree. wfo. cbn [rmtree_unsafe].
  assert (Hrm : wfW _ t TT (Op (Rmdir (PEntry k)) (fun r2 => Ret (match r2 with
                  | RErr e => if false then Raise (exn_of e) else Ok tt | _ => Ok tt end)))).
  { wfo. wfr. }
  apply wf_op; simpl; auto.
  intros s HJ. destruct (present (PEntry k) s); simpl; auto.
  eapply wf_pbind with (Q1 := TT).
  - apply rm_files_W. intros q Hq. apply in_children in Hq. destruct Hq as [_ Hp].
    destruct q; simpl in Hp; inversion Hp; split; simpl; congruence.
  - intros [u|e] _; auto. wfr.
Qed.

Lemma clear_item_W : forall k, wfW _ t TT (clear_item k).
Proof. intros. unfold clear_item. wfo. destruct (is_ok r); [apply rmtree_entry_W | wfr]. Qed.

Lemma check_code_W : forall it,
  wfW _ t (fun ri => fst ri = Ok true) (check_code code code_eq decodes cur it).
Proof.
  intros it. unfold check_code. destruct it; [wfr|].
  apply wf_op; simpl; auto.
  intros s [_ (_ & _ & _ & _ & H5)]. rewrite H5; simpl. rewrite dec_cur, eq_cur; simpl. wfr.
Qed.

Lemma is_valid_W : forall k it,
  wfW _ t (fun ri => exists v, fst ri = Ok v) (is_valid parse_meta code code_eq decodes cur cb k it).
Proof.
  intros k it. unfold is_valid. eapply wf_pbind; [apply check_code_W|].
  intros [r it'] Hr; simpl in Hr; subst r.
  wfo. destruct (negb (is_ok r)); [wfr; simpl; eauto|]. wfo.
  destruct cb as [v|]; [|wfr; simpl; eauto].
  match goal with |- context [if ?c then _ else _] => destruct c end; [|wfr; simpl; eauto].
  eapply wf_pbind; [apply clear_item_W | intros; wfr; simpl; eauto].
Qed.

Notation valok := (valok unpickle f cur outB).

Lemma cached_call_W : forall k it,
  wfW _ t (fun oi => exists v c, fst oi = OVal v c /\ valok k v)
      (cached_call pickle unpickle meta parse_meta code code_eq decodes f cur t cb false k it).
Proof.
  intros k it. unfold cached_call.
  eapply wf_pbind; [apply is_valid_W|].
  intros [r it'] [v Hv]; simpl in Hv; subst r.
  assert (Hre : wfW _ t (fun oi => exists v c, fst oi = OVal v c /\ valok k v)
            (pbind (compute_store pickle meta f cur t k) (fun _ => Ret (OVal (f cur k) true, it')))).
  { eapply wf_pbind with (Q1 := TT).
    - apply wf_compute_store; unfold outB, metaA; auto; try safe.
    - intros _ _. wfr. simpl. do 2 eexists; split; eauto. left; reflexivity. }
  destruct v; auto.
  wfo. destruct (negb (is_ok r)); auto.
  apply wf_read_out; try safe. intros r2 Hr2.
  destruct r2 as [|e|b|l]; auto.
  destruct (unpickle b) eqn:E; auto. wfr. simpl. do 2 eexists; split; eauto. right; exists b; auto.
Qed.

Lemma clear_entries_W : forall ks, wfW _ t TT (clear_entries ks).
Proof.
  induction ks as [|k tl IH]; cbn [clear_entries]; [wfr|].
  eapply wf_pbind; [apply rmtree_entry_W|]. intros; auto.
Qed.

Lemma reduce_size_W : forall ks, wfW _ t TT (reduce_size ks).
Proof.
  intros. unfold reduce_size. eapply wf_pbind with (Q1 := TT); [apply wf_walk; try safe|].
  intros; apply clear_entries_W.
Qed.

Definition calm_mid (a : action) (o : outcome) : Prop :=
  match a with
  | ACall k => exists v c, o = OVal v c /\ valok k v
  | AReduce _ => o = ODone
  | _ => False
  end.

Lemma run_actions_W : forall acts it, Forall calm acts ->
  wfW _ t (fun outs => Forall2 calm_mid acts outs)
      (run_actions pickle unpickle meta parse_meta code code_eq decodes f cur t cb acts it).
Proof.
  induction acts as [|a tl IH]; intros it Hc; cbn [run_actions]; [wfr|].
  inversion Hc as [|? ? Ha Htl]; subst.
  assert (Hnext : forall o it', calm_mid a o ->
            wfW _ t (fun outs => Forall2 calm_mid (a :: tl) outs)
               (pbind (run_actions pickle unpickle meta parse_meta code code_eq decodes f cur t cb tl it')
                      (fun os => Ret (o :: os)))).
  { intros o it' Ho. eapply wf_pbind; [apply IH; auto|]. intros os Hos; wfr. }
  destruct a as [k|k| | |ks]; simpl in Ha; try contradiction.
  - eapply wf_pbind; [apply cached_call_W|]. intros [o it'] (v & c & Ho & Hv); simpl in Ho; subst o.
    apply Hnext; simpl; eauto.
  - eapply wf_pbind; [apply reduce_size_W|]. intros _ _; apply Hnext; simpl; auto.
Qed.

Lemma session_W : forall acts, Forall calm acts ->
  wfW _ t (fun outs => Forall2 calm_mid acts outs)
      (session pickle unpickle meta parse_meta code code_eq decodes gitbytes f cur t cb acts).
Proof.
  intros acts Hc. unfold session.
  eapply wf_pbind with (Q1 := fun r => r = Ok tt).
  - unfold memory_init. apply wf_op; simpl; auto.
    intros s [_ (H1 & H2 & _)]. rewrite H2; simpl.
    apply wf_op; simpl; auto; [congruence|].
    intros s' [_ (H1' & _)]. unfold parent_present; simpl; rewrite H1'; simpl.
    wfo. wfr.
  - intros r ->.
    eapply wf_pbind with (Q1 := fun r => r = Ok tt).
    + unfold cache_init, store_code. apply wf_op; simpl; auto.
      intros s [_ (_ & _ & _ & H4 & _)]. rewrite H4; simpl. wfr.
    + intros r ->. apply run_actions_W; auto.
Qed.
End Part.

Hypothesis unpickle_pickle : forall v, unpickle (pickle v) = Some v.

Notation sess := (sess pickle unpickle meta parse_meta code code_eq decodes gitbytes f).

Theorem warm_no_raise : forall (sps : list spec) evs s i sp outs,
  NoDup (map spec_tid sps) -> Forall (same_version cur) sps ->
  Forall (fun sp => Forall calm (spec_acts sp)) sps ->
  InvB s -> Warm s ->
  nth_error sps i = Some sp ->
  nth_error (snd (grun evs (s, map (fun sp => Some (sess sp)) sps))) i = Some (Some (Ret outs)) ->
  Forall2 calm_ok (spec_acts sp) outs.
Proof.
  intros sps evs s i sp outs Hnd Hv Hcalm HI HW Hsp Hout.
  assert (HG : GInv outB metaA codeB codeB Warm safe_op _ (map spec_tid sps)
                 (map (fun sp => fun outs => Forall2 (calm_mid) (spec_acts sp) outs) sps)
                 (grun evs (s, map (fun sp => Some (sess sp)) sps))).
  { apply (ginv_run outB metaA codeB codeB Warm safe_op (codeB_nil code cur) (codeB_overlay code cur)
             (codeB_firstn code cur) warm_step (fun q b j H => H) warm_entry); auto.
    - replace (map (fun sp => Some (sess sp)) sps) with (map Some (map sess sps)) by (rewrite map_map; reflexivity).
      apply ginv_init; try (rewrite !map_length; reflexivity).
      + split; auto.
      + intros i0 t Q p Ht HQ Hp.
        apply nth_error_map_inv in Ht, HQ, Hp.
        destruct Ht as (x1 & E1 & ->), HQ as (x2 & E2 & ->), Hp as (x3 & E3 & ->).
        rewrite E1 in E2, E3; inversion E2; inversion E3; subst.
        rewrite Forall_forall in Hv, Hcalm.
        pose proof (Hv _ (nth_error_In _ _ E1)) as Hver. unfold same_version in Hver.
        unfold FsModelThm.sess. rewrite Hver. apply session_W. apply Hcalm. eapply nth_error_In; eauto. }
  assert (Hmid : Forall2 calm_mid (spec_acts sp) outs).
  { eapply (ginv_result _ _ _ _ _ _ _ _ _ _ i) in HG; [exact HG | | exact Hout].
    rewrite nth_error_map, Hsp; reflexivity. }
  clear - Hmid unpickle_pickle.
  induction Hmid as [|a o acts outs Ha _ IH]; constructor; auto.
  destruct a; simpl in *; auto.
  destruct Ha as (v & c & -> & Hv). exists c. f_equal.
  eapply valok_B; eauto.
Qed.

End Warm.
