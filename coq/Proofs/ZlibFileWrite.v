(* Writer half of M6: write()/close() bookkeeping of BinaryZlibFile in mode 'wb'. *)
From Coq Require Import ZArith List Bool Lia ZifyBool.
Require Import JV.Base.PyPrelude JV.Model.ZlibFile JV.Proofs.ZlibFileLists.
Import ListNotations.
Open Scope Z_scope.

Section WriterProofs.
Variable C : Type.
Variable compress : C -> bytes -> C * bytes.
Variable flush : C -> bytes.

Notation wrun' := (wrun C compress flush).
Notation deflate' := (deflate_chunks C compress flush).

(* interleaved tell(): the position is the number of bytes written so far *)
Inductive wev := EW (d : bytes) | ET.
Definition ev_op (e : wev) : wop := match e with EW d => WWrite d | ET => WTell end.
Fixpoint ev_results (p : Z) (evs : list wev) : list res :=
  match evs with
  | [] => []
  | EW d :: tl => VInt (len d) :: ev_results (p + len d) tl
  | ET :: tl => VInt p :: ev_results p tl
  end.
Fixpoint ev_chunks (evs : list wev) : list bytes :=
  match evs with [] => [] | EW d :: tl => d :: ev_chunks tl | ET :: tl => ev_chunks tl end.

Lemma wrun_events : forall evs st, wmode C st = MWrite ->
  exists cf,
    wrun' (map ev_op evs ++ [WClose]) st =
    (ev_results (wpos C st) evs ++ [VNone],
     mkW C MClosed (wpos C st + len (concat (ev_chunks evs))) cf
         (wfile C st ++ deflate' (wc C st) (ev_chunks evs))).
Proof.
  induction evs as [|e evs IH]; intros st M.
  - exists (wc C st). cbn [map app wrun wstep ev_results ev_chunks concat deflate_chunks]. rewrite M.
    unfold len at 1. cbn [length]. rewrite Z.add_0_r. reflexivity.
  - destruct e as [d|]; cbn [map app ev_op wrun wstep ev_results ev_chunks concat deflate_chunks].
    + unfold w_check_can_write. rewrite M. destruct (compress (wc C st) d) as [c' out] eqn:Ec.
      set (st1 := mkW C MWrite (wpos C st + len d) c' (wfile C st ++ out)).
      destruct (IH st1 eq_refl) as [cf H]. rewrite H. exists cf. unfold st1. cbn [wpos wfile wc].
      rewrite zl_len_app, <- app_assoc, Z.add_assoc. reflexivity.
    + unfold w_check_not_closed. rewrite M. destruct (IH st M) as [cf H]. rewrite H. exists cf. reflexivity.
Qed.

(* the standard decoder, and what is assumed of zlib: whatever the chunking, the bytes produced by
   compress(d1), ..., compress(dn), flush() decode to d1 ++ ... ++ dn *)
Variable inflate : bytes -> option bytes.
Variable cinit : Z -> C.                                  (* zlib.compressobj(level, ...) *)
Hypothesis inflate_deflate : forall level chunks, 1 <= level <= 9 ->
  inflate (deflate' (cinit level) chunks) = Some (concat chunks).

Theorem write_stream_decodes : forall level evs, 1 <= level <= 9 ->
  exists cf file,
    wrun' (map ev_op evs ++ [WClose]) (winit C (cinit level)) =
      (ev_results 0 evs ++ [VNone], mkW C MClosed (len (concat (ev_chunks evs))) cf file) /\
    inflate file = Some (concat (ev_chunks evs)).
Proof.
  intros level evs L. destruct (wrun_events evs (winit C (cinit level)) eq_refl) as [cf H].
  exists cf. eexists. split; [exact H|]. unfold winit. cbn [wfile wc app]. apply inflate_deflate. exact L.
Qed.
End WriterProofs.

(* the hypothesis is satisfiable (a compressor that stores) *)
Example write_hypothesis_satisfiable :
  forall level chunks, 1 <= level <= 9 ->
    (fun b : bytes => Some b) (deflate_chunks unit (fun c d => (c, d)) (fun _ => []) tt chunks) = Some (concat chunks).
Proof.
  intros _ chunks _. cbv beta. f_equal. induction chunks as [|d tl IH]; [reflexivity|].
  cbn [deflate_chunks concat]. rewrite IH. reflexivity.
Qed.
