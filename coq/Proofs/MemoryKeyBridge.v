(* Composition of M2 and M3, part 2 (bridge lemmas, no M4 here): on canonical dicts of one signature, the byte
   stream determines the dict -- [stream_inj].  Built on C08's stack-machine decoding of the stream
   (Proofs/HashEncInj.v: the stream decodes to the NORMAL FORM of the tree) and on the explicit value bridge of
   Model/MemoryKey.v. *)
From Coq Require Import ZArith List Bool Lia Sorting.Permutation Sorting.Sorted.
Require Import JV.Base.PyPrelude JV.Base.SortBy.
Require Import JV.Model.HashEnc JV.Proofs.HashEncDefs JV.Proofs.HashEncOrder JV.Proofs.HashEncBytes
               JV.Proofs.HashEncInj.
Require JV.Model.FilterArgs.
Require Import JV.Model.MemoryKey.
Import ListNotations.
Open Scope Z_scope.

(* ------------------------------------------------------------------------------ plain list lemmas *)
Lemma NoDup_fst_inj {A B} (l : list (A * B)) x y :
  NoDup (map fst l) -> In x l -> In y l -> fst x = fst y -> x = y.
Proof.
  induction l as [|z t IH]; intros Hnd Hx Hy He; [destruct Hx|].
  cbn in Hnd. inversion Hnd as [|? ? Hn Hnd']; subst.
  destruct Hx as [->|Hx], Hy as [->|Hy]; auto.
  - exfalso. apply Hn. rewrite He. apply in_map. exact Hy.
  - exfalso. apply Hn. rewrite <- He. apply in_map. exact Hx.
Qed.

(* two association lists with the same key sequence, without repeated keys, that are permutations: equal *)
Lemma perm_same_keys {A B} : forall (l1 l2 : list (A * B)),
  map fst l1 = map fst l2 -> NoDup (map fst l1) -> Permutation l1 l2 -> l1 = l2.
Proof.
  induction l1 as [|[k v1] t1 IH]; intros [|[k2 v2] t2] Hk Hnd Hp; try discriminate; [reflexivity|].
  cbn in Hk. injection Hk as Hk1 Hk2. subst k2.
  assert (Hin : In (k, v1) ((k, v2) :: t2)) by (eapply Permutation_in; [exact Hp | left; reflexivity]).
  assert (Hv : v1 = v2).
  { assert (E : (k, v1) = (k, v2)); [|congruence].
    apply (NoDup_fst_inj ((k, v2) :: t2)); auto.
    - cbn. rewrite <- Hk2. exact Hnd.
    - left. reflexivity. }
  subst v2. f_equal. apply IH; auto.
  - cbn in Hnd. inversion Hnd. assumption.
  - eapply Permutation_cons_inv. exact Hp.
Qed.

(* two lists sorted by a key, without repeated keys, that are permutations: equal *)
Lemma sorted_perm_eq {A} (key : A -> Z) : forall (a b : list A),
  sorted_by key a -> sorted_by key b -> Permutation a b -> NoDup (map key a) -> a = b.
Proof.
  induction a as [|x a' IH]; intros b Sa Sb Hp Hnd.
  - apply Permutation_nil in Hp. auto.
  - destruct b as [|y b']; [apply Permutation_sym, Permutation_nil in Hp; discriminate|].
    assert (Hxy : x = y).
    { assert (Hx : In x (y :: b')) by (eapply Permutation_in; [exact Hp | left; reflexivity]).
      assert (Hy : In y (x :: a')) by (eapply Permutation_in; [apply Permutation_sym; exact Hp | left; reflexivity]).
      destruct Hx as [Hx|Hx]; [auto|]. destruct Hy as [Hy|Hy]; [auto|].
      unfold sorted_by in Sa, Sb. inversion Sa as [|? ? _ Fa]; subst. inversion Sb as [|? ? _ Fb]; subst.
      rewrite Forall_forall in Fa, Fb. pose proof (Fa y Hy) as L1. pose proof (Fb x Hx) as L2.
      unfold le_key in L1, L2. assert (E : key x = key y) by lia.
      exfalso. cbn in Hnd. inversion Hnd as [|? ? Hn _]; subst. apply Hn. rewrite E. apply in_map. exact Hy. }
    subst y. f_equal. apply IH.
    + inversion Sa; assumption.
    + inversion Sb; assumption.
    + eapply Permutation_cons_inv; exact Hp.
    + cbn in Hnd. inversion Hnd; assumption.
Qed.

Lemma map_inj_in {A B} (g : A -> B) : forall l1 l2,
  (forall x y, g x = g y -> x = y) -> map g l1 = map g l2 -> l1 = l2.
Proof.
  induction l1 as [|x t IH]; intros [|y t2] Hg H; try discriminate; [reflexivity|].
  cbn in H. injection H as H1 H2. f_equal; auto.
Qed.

Section Bridge.
  Variable md5 : list Z -> list Z.
  Variable vmap : Z -> value.
  Variable nmap : Z -> list Z.

  (* the bridge is faithful: distinct names have distinct spellings; distinct abstract argument values denote
     Python values that differ by more than the iteration order of dicts / sets; every denoted value lies in
     C08's universe *)
  Hypothesis nmap_inj : forall a b, nmap a = nmap b -> a = b.
  Hypothesis vmap_inj : forall a b, veq (vmap a) (vmap b) -> a = b.
  Hypothesis vmap_good : forall a, good (vmap a).

  Notation dict_tree := (dict_tree vmap nmap).
  Notation arg_tree := (arg_tree vmap nmap).
  Notation kw_item := (kw_item vmap nmap).
  Notation dict_item := (dict_item vmap nmap).

  (* the stream decodes to the normal form of the tree (C08's decoder): equal streams, equal normal forms *)
  Lemma stream_normv : forall a b s, good a -> good b -> fits md5 a -> fits md5 b ->
    enc_top md5 a = Some s -> enc_top md5 b = Some s -> normv a = normv b.
  Proof.
    intros a b s Ga Gb Fa Fb Ha Hb.
    destruct (enc_top_decode md5 a Ga) as (oa & ma & Ea & Ra).
    destruct (enc_top_decode md5 b Gb) as (ob & mb & Eb & Rb).
    assert (Ha' : enc_top_ops md5 a = Some (OProto :: oa ++ [OStop])) by (unfold enc_top_ops; rewrite Ea; reflexivity).
    assert (Hb' : enc_top_ops md5 b = Some (OProto :: ob ++ [OStop])) by (unfold enc_top_ops; rewrite Eb; reflexivity).
    unfold enc_top in Ha, Hb. rewrite Ha' in Ha. rewrite Hb' in Hb. injection Ha as Ha. injection Hb as Hb.
    assert (Hops : OProto :: oa ++ [OStop] = OProto :: ob ++ [OStop]).
    { apply ser_all_inj; [apply Fa; exact Ha' | apply Fb; exact Hb' | transitivity s; [exact Ha | symmetry; exact Hb]]. }
    injection Hops as Hops. apply app_inj_tail in Hops. destruct Hops as [-> _].
    rewrite Ra in Rb. injection Rb as Hn _ _. exact Hn.
  Qed.

  Lemma normv_inj_vmap : forall a b, normv (vmap a) = normv (vmap b) -> a = b.
  Proof.
    intros a b H. apply vmap_inj.
    eapply veq_trans; [apply normv_veq; apply vmap_good|]. rewrite H. apply veq_sym, normv_veq, vmap_good.
  Qed.

  (* two dict trees with equal normal forms have the same items up to order, values normalised *)
  Lemma normv_dict_perm : forall i1 i2, good (VDict i1) -> good (VDict i2) ->
    normv (VDict i1) = normv (VDict i2) -> Permutation (map nkv i1) (map nkv i2).
  Proof.
    intros i1 i2 G1 G2 H. rewrite !normv_VDict in H. injection H as H.
    apply good_VDict in G1. apply good_VDict in G2. destruct G1 as [[_ K1] _]. destruct G2 as [[_ K2] _].
    assert (E : forall i, map fst (map nkv i) = map fst i).
    { intros i. rewrite map_map. apply map_ext. intros [k v]. reflexivity. }
    eapply Permutation_trans; [apply sortk_perm; rewrite E; exact K1|].
    rewrite H. apply Permutation_sym, sortk_perm. rewrite E. exact K2.
  Qed.

  (* ---------------------------------------------------------------- canonical dicts *)
  (* every entry has the shape filter_args gives it: a value under a name, a list under '*', a dict sorted by
     name under '**' *)
  Definition shaped_entry (ka : FA.key * FA.argval) : Prop :=
    match fst ka, snd ka with
    | FA.KName _, FA.VOne _ => True
    | FA.KStar, FA.VTuple _ => True
    | FA.KStarStar, FA.VDict dd => sorted_by fst dd
    | _, _ => False
    end.
  Definition shaped (d : FA.adict) : Prop := Forall shaped_entry d.

  Lemma kw_item_inj : forall x y, nkv (kw_item x) = nkv (kw_item y) -> x = y.
  Proof.
    intros [n1 v1] [n2 v2] H. unfold kw_item, nkv in H. cbn in H. injection H as Hn Hv.
    apply nmap_inj in Hn. apply normv_inj_vmap in Hv. congruence.
  Qed.

  Lemma arg_tree_inj : forall k a1 a2,
    shaped_entry (k, a1) -> shaped_entry (k, a2) -> good (arg_tree a1) -> good (arg_tree a2) ->
    normv (arg_tree a1) = normv (arg_tree a2) -> a1 = a2.
  Proof.
    intros k a1 a2 S1 S2 G1 G2 H. unfold shaped_entry in S1, S2. cbn [fst snd] in S1, S2.
    destruct k as [n| |]; destruct a1 as [v1|l1|d1]; try contradiction; destruct a2 as [v2|l2|d2]; try contradiction.
    - cbn in H. f_equal. apply normv_inj_vmap. exact H.
    - cbn [MemoryKey.arg_tree] in H. rewrite !normv_VList in H. injection H as H. rewrite !map_map in H.
      f_equal. eapply map_inj_in; [|exact H]. intros x y E. apply normv_inj_vmap. exact E.
    - cbn [MemoryKey.arg_tree] in H, G1, G2.
      pose proof (normv_dict_perm _ _ G1 G2 H) as P. rewrite !map_map in P.
      assert (P' : Permutation d1 d2).
      { apply Permutation_sym in P. apply Permutation_map_inv in P. destruct P as (l3 & E3 & P3).
        assert (l3 = d2) by (symmetry; eapply map_inj_in; [|exact E3]; intros x y E; apply kw_item_inj; exact E).
        subst l3. exact P3. }
      f_equal. apply (sorted_perm_eq fst); auto.
      (* names inside '**' are distinct: the tree is good *)
      apply good_VDict in G1. destruct G1 as [[_ [Hnd _]] _]. rewrite map_map in Hnd. cbn in Hnd.
      assert (E : map (fun x : FA.name * FA.value => VStr (nmap (fst x))) d1 = map (fun n => VStr (nmap n)) (map fst d1))
        by (rewrite map_map; reflexivity).
      rewrite E in Hnd. eapply NoDup_map_inv. exact Hnd.
  Qed.

  (* on shaped dicts with one key sequence, the stream determines the dict *)
  Theorem stream_inj : forall d1 d2 s, shaped d1 -> shaped d2 -> map fst d1 = map fst d2 ->
    good (dict_tree d1) -> good (dict_tree d2) -> fits md5 (dict_tree d1) -> fits md5 (dict_tree d2) ->
    stream_of md5 vmap nmap d1 = Some s -> stream_of md5 vmap nmap d2 = Some s -> d1 = d2.
  Proof.
    intros d1 d2 s S1 S2 Hk G1 G2 F1 F2 H1 H2.
    pose proof (stream_normv _ _ s G1 G2 F1 F2 H1 H2) as Hn.
    unfold MemoryKey.dict_tree in Hn, G1, G2.
    pose proof (normv_dict_perm _ _ G1 G2 Hn) as P.
    (* same tree keys in the same order, no repeated tree key: the normalised items are equal pointwise *)
    assert (Ekeys : map fst (map nkv (map dict_item d1)) = map fst (map nkv (map dict_item d2))).
    { rewrite !map_map. cbn. rewrite <- !(map_map fst (fun k => VStr (key_name nmap k))). rewrite Hk. reflexivity. }
    assert (Hnd : NoDup (map fst (map nkv (map dict_item d1)))).
    { apply good_VDict in G1. destruct G1 as [[_ [Hnd _]] _]. rewrite !map_map in *. exact Hnd. }
    pose proof (perm_same_keys _ _ Ekeys Hnd P) as E. rewrite !map_map in E.
    (* entry by entry *)
    apply good_VDict in G1. apply good_VDict in G2. destruct G1 as [_ V1]. destruct G2 as [_ V2].
    rewrite Forall_map in V1, V2. unfold shaped in S1, S2.
    clear F1 F2 H1 H2 Hn P Ekeys Hnd. revert d2 Hk S2 V2 E.
    induction d1 as [|[k a1] t1 IH]; intros [|[k2 a2] t2] Hk S2 V2 E; try discriminate; [reflexivity|].
    cbn in Hk. injection Hk as Hk1 Hk2. subst k2. cbn in E. injection E as E1 E2.
    inversion S1 as [|? ? Sa1 St1]; subst. inversion S2 as [|? ? Sa2 St2]; subst.
    inversion V1 as [|? ? Ga1 Gt1]; subst. inversion V2 as [|? ? Ga2 Gt2]; subst.
    f_equal.
    - f_equal. eapply arg_tree_inj; eauto.
    - apply IH; auto.
  Qed.

End Bridge.
