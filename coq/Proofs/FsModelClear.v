(* M5, part 8: what rmtree does when nobody interferes (it removes the whole subtree), hence what
   MemorizedFunc.clear leaves behind; the call after a source change; the crash states of the
   source-change workload. *)
From Coq Require Import ZArith List Bool Lia.
Require Import JV.Base.PyPrelude JV.Model.FsModel JV.Proofs.FsModelBase JV.Proofs.FsModelRG
               JV.Proofs.FsModelWf JV.Proofs.FsModelSeq JV.Proofs.FsModelThm.
Import ListNotations.
Open Scope Z_scope.

Definition inb (q : path) (l : list path) : bool := existsb (path_eqb q) l.

Lemma inb_In : forall q l, In q l -> inb q l = true.
Proof.
  intros q l H. unfold inb. apply existsb_exists. exists q; split; auto. apply path_eqb_refl.
Qed.

Lemma inb_true_In : forall q l, inb q l = true -> In q l.
Proof.
  intros q l H. unfold inb in H. apply existsb_exists in H. destruct H as (x & Hx & E).
  apply path_eqb_eq in E; subst; auto.
Qed.

Lemma children_nil : forall p s, (forall q, present q s = true -> parent q = Some p -> False) -> children p s = [].
Proof.
  intros p s H. destruct (children p s) as [|q tl] eqn:E; auto.
  assert (Hin : In q (children p s)) by (rewrite E; left; auto).
  apply in_children in Hin. destruct Hin; exfalso; eauto.
Qed.

Lemma rm_entries_ok : forall rec l s, fst (run (rm_entries rec false l) s) = Ok tt.
Proof.
  intros rec l; induction l as [|q tl IH]; intros s; simpl; auto.
  rewrite run_pbind. destruct (run _ s) as [[u|e] s1]; apply IH.
Qed.

Lemma rm_files_post : forall rec l s, (forall q, In q l -> is_dir q = false) ->
  forall q, lookup q (snd (run (rm_entries rec false l) s)) = if inb q l then None else lookup q s.
Proof.
  intros rec l; induction l as [|q0 tl IH]; intros s Hl q; simpl; auto.
  rewrite (Hl q0 (or_introl eq_refl)). rewrite run_pbind, run_op. cbn [exec].
  assert (Htl : forall q, In q tl -> is_dir q = false) by (intros; apply Hl; right; auto).
  destruct (present q0 s) eqn:Hp; cbn [fst snd run].
  - rewrite IH by auto. rewrite lookup_remove.
    destruct (path_eqb q q0) eqn:E; simpl; auto. destruct (inb q tl); auto.
  - rewrite IH by auto. destruct (path_eqb q q0) eqn:E; simpl; auto.
    apply path_eqb_eq in E; subst. apply present_false in Hp. rewrite Hp. destruct (inb q0 tl); auto.
Qed.

Lemma child_of_entry_file : forall q k, parent q = Some (PEntry k) -> is_dir q = false.
Proof. intros q k H; destruct q; simpl in *; try discriminate; auto. Qed.

Lemma rmdir_seq : forall p s, is_dir p = true -> present p s = true ->
  (forall q, present q s = true -> parent q = Some p -> False) ->
  run (Op (Rmdir p) (fun r2 => Ret (match r2 with RErr e => if false then Raise (exn_of e) else Ok tt | _ => Ok tt end))) s
  = (Ok tt, remove p s).
Proof.
  intros p s Hd Hp Hc. simpl. rewrite Hd, Hp; simpl. rewrite (children_nil p s Hc). reflexivity.
Qed.

(* rmtree of an entry directory, alone: the directory and its files are gone, nothing else moved *)
Lemma rmtree_entry_post : forall d k s, Tree s ->
  forall q, lookup q (snd (run (rmtree_unsafe d false (PEntry k)) s))
            = if path_eqb q (PEntry k) || is_child (PEntry k) q then None else lookup q s.
Proof.
  intros d k s HT q.
  assert (Habs : present (PEntry k) s = false ->
                 (if path_eqb q (PEntry k) || is_child (PEntry k) q then None else lookup q s) = lookup q s).
  { intros Hp. destruct (path_eqb q (PEntry k)) eqn:E1; simpl.
    - apply path_eqb_eq in E1; subst. symmetry; apply present_false; auto.
    - destruct (is_child (PEntry k) q) eqn:E2; auto. unfold is_child in E2.
      destruct (parent q) as [h|] eqn:Eh; [|discriminate]. apply path_eqb_eq in E2; subst h.
      symmetry. apply present_false. destruct (present q s) eqn:Hq; auto.
      rewrite (HT q (PEntry k) Hq Eh) in Hp; discriminate. }
  destruct d as [|d]; cbn [rmtree_unsafe]; rewrite run_op; cbn [exec];
    (destruct (present (PEntry k) s) eqn:Hp; cbn [fst snd];
     [ | (* absent: the rmdir fails, nothing changes *)
         rewrite run_op; cbn [exec is_dir negb]; rewrite Hp; cbn [fst snd run]; symmetry; apply Habs; auto ]).
  all: set (l := children (PEntry k) s);
    assert (Hfiles : forall q0, In q0 l -> is_dir q0 = false)
      by (intros q0 Hq0; apply in_children in Hq0; destruct Hq0 as [_ Hq0]; eapply child_of_entry_file; eauto);
    rewrite run_pbind;
    match goal with |- context [run (rm_entries ?rec false ?l0) ?s0] =>
      pose proof (rm_entries_ok rec l0 s0) as Hok; pose proof (rm_files_post rec l0 s0 Hfiles) as Hpost;
      destruct (run (rm_entries rec false l0) s0) as [r1 s1] end;
    cbn [fst snd] in *; subst r1;
    assert (Hp1 : present (PEntry k) s1 = true)
      by (unfold present; rewrite Hpost;
          destruct (inb (PEntry k) l) eqn:E; [apply inb_true_In in E; apply Hfiles in E; discriminate | exact Hp]);
    assert (Hc1 : forall q0, present q0 s1 = true -> parent q0 = Some (PEntry k) -> False)
      by (intros q0 Hq0 Hpar; unfold present in Hq0; rewrite Hpost in Hq0;
          destruct (inb q0 l) eqn:E; [discriminate|];
          assert (In q0 l) by (apply in_children; split; auto);
          rewrite (inb_In q0 l) in E by auto; discriminate);
    rewrite (rmdir_seq (PEntry k) s1 eq_refl Hp1 Hc1); cbn [snd];
    rewrite lookup_remove, Hpost;
    destruct (path_eqb q (PEntry k)) eqn:E1; simpl; auto;
    destruct (inb q l) eqn:E2;
    [ apply inb_true_In in E2; apply in_children in E2; destruct E2 as [_ E2];
      unfold is_child; rewrite E2, path_eqb_refl; reflexivity
    | destruct (is_child (PEntry k) q) eqn:E3; auto;
      unfold is_child in E3; destruct (parent q) as [h|] eqn:Eh; [|discriminate];
      apply path_eqb_eq in E3; subst h;
      destruct (lookup q s) eqn:El; auto;
      assert (In q l) by (apply in_children; split; auto; apply present_lookup; eauto);
      rewrite (inb_In q l) in E2 by auto; discriminate ].
Qed.

(* ---------- the tree invariant alone, along any well-formed program run sequentially *)
Definition anyo : Z -> bytes -> Prop := fun _ _ => True.

Lemma tree_run : forall A t (Q : A -> Prop) (p : prog A) s,
  wf anyo anyb anyb anyb XT xT A t Q p -> Tree s -> Tree (snd (run p s)).
Proof.
  intros A t Q p s Hwf HT.
  destruct (pst_run anyo anyb anyb anyb XT xT) with (A := A) (t := t) (Q := Q) (p := p) (s := s)
    as [[[HT' _] _] _]; unfold anyb, XT, xT, anyo; auto.
  - split; [|exact I]. repeat split; auto.
  - apply pst_wf; exact Hwf.
Qed.

Definition under_func (q : path) : bool :=
  match q with PLoc | PGit | PRoot | PMod => false | _ => true end.

Definition covered (l : list path) (q' : path) : bool :=
  existsb (fun q => path_eqb q' q || is_child q q') l.

Lemma is_child_file : forall q q', is_dir q = false -> is_child q q' = false.
Proof.
  intros q q' Hd. unfold is_child. destruct (parent q') as [h|] eqn:E; auto.
  destruct (path_eqb h q) eqn:E2; auto. apply path_eqb_eq in E2; subst.
  apply parent_is_dir in E; congruence.
Qed.

Lemma rm_func_children_post : forall d l s, Tree s -> (forall q, In q l -> parent q = Some PFunc) ->
  Tree (snd (run (rm_entries (rmtree_unsafe d false) false l) s)) /\
  forall q', lookup q' (snd (run (rm_entries (rmtree_unsafe d false) false l) s))
             = if covered l q' then None else lookup q' s.
Proof.
  intros d l; induction l as [|q0 tl IH]; intros s HT Hl; [simpl; auto|].
  assert (Htl : forall q, In q tl -> parent q = Some PFunc) by (intros; apply Hl; right; auto).
  pose proof (Hl q0 (or_introl eq_refl)) as Hq0.
  cbn [rm_entries]. rewrite run_pbind.
  destruct (is_dir q0) eqn:Hd.
  - (* an entry directory *)
    assert (Hk : exists k, q0 = PEntry k) by (destruct q0; simpl in *; try discriminate; eauto).
    destruct Hk as [k ->].
    pose proof (rmtree_entry_post d k s HT) as Hpost.
    assert (HT1 : Tree (snd (run (rmtree_unsafe d false (PEntry k)) s))).
    { eapply tree_run with (t := 0) (Q := fun _ => True); eauto.
      apply wf_rmtree_unsafe; unfold xT; auto. }
    destruct (run (rmtree_unsafe d false (PEntry k)) s) as [r s1]; cbn [fst snd] in *.
    assert (E : run (match r with
                     | Ok _ => rm_entries (rmtree_unsafe d false) false tl
                     | Raise e => if false then Ret (Raise e) else rm_entries (rmtree_unsafe d false) false tl
                     end) s1 = run (rm_entries (rmtree_unsafe d false) false tl) s1) by (destruct r; reflexivity).
    rewrite E. destruct (IH s1 HT1 Htl) as [HT2 Hl2]. split; auto.
    intros q'. rewrite Hl2, Hpost. cbn [covered existsb]. fold (covered tl q').
    destruct (covered tl q'); [rewrite orb_true_r; reflexivity|]. rewrite orb_false_r. reflexivity.
  - (* a file: func_code.py *)
    rewrite run_op. cbn [exec].
    assert (Hleaf : forall q, present q s = true -> parent q = Some q0 -> False).
    { intros q _ Hp. apply parent_is_dir in Hp; congruence. }
    destruct (present q0 s) eqn:Hp; cbn [fst snd run].
    + destruct (IH (remove q0 s) (Tree_remove_leaf q0 s HT Hleaf) Htl) as [HT2 Hl2]. split; auto.
      intros q'. rewrite Hl2, lookup_remove. cbn [covered existsb]. fold (covered tl q').
      rewrite (is_child_file q0 q' Hd), orb_false_r.
      destruct (covered tl q'); [rewrite orb_true_r; reflexivity|]. rewrite orb_false_r. reflexivity.
    + destruct (IH s HT Htl) as [HT2 Hl2]. split; auto.
      intros q'. rewrite Hl2. cbn [covered existsb]. fold (covered tl q').
      rewrite (is_child_file q0 q' Hd), orb_false_r.
      destruct (covered tl q'); [rewrite orb_true_r; reflexivity|]. rewrite orb_false_r.
      destruct (path_eqb q' q0) eqn:E; auto. apply path_eqb_eq in E; subst.
      apply present_false in Hp; auto.
Qed.

Lemma under_func_absent : forall s q, Tree s -> present PFunc s = false -> under_func q = true -> lookup q s = None.
Proof.
  intros s q HT Hp Hu. apply present_false. destruct (present q s) eqn:Hq; auto. exfalso.
  assert (H1 : forall q1, parent q1 = Some PFunc -> present q1 s = true -> False).
  { intros q1 Hpar Hq1. rewrite (HT q1 PFunc Hq1 Hpar) in Hp; discriminate. }
  destruct q as [ | | | | | |k|k|k|k t|k t]; simpl in Hu; try discriminate;
    try (rewrite Hq in Hp; discriminate);
    try (eapply H1; [|exact Hq]; reflexivity);
    (eapply (H1 (PEntry k)); [reflexivity | eapply HT; [exact Hq | reflexivity]]).
Qed.

Lemma covered_self : forall l q, In q l -> covered l q = true.
Proof.
  intros l q H. unfold covered. apply existsb_exists. exists q; split; auto. rewrite path_eqb_refl; reflexivity.
Qed.

Lemma covered_child : forall l q h, In h l -> parent q = Some h -> covered l q = true.
Proof.
  intros l q h H Hp. unfold covered. apply existsb_exists. exists h; split; auto.
  unfold is_child. rewrite Hp, path_eqb_refl, orb_true_r; reflexivity.
Qed.

Lemma not_covered_absent : forall s q, Tree s -> under_func q = true -> q <> PFunc ->
  covered (children PFunc s) q = false -> lookup q s = None.
Proof.
  intros s q HT Hu Hne Hc. apply present_false. destruct (present q s) eqn:Hq; auto. exfalso.
  assert (H1 : forall q1, parent q1 = Some PFunc -> present q1 s = true -> In q1 (children PFunc s))
    by (intros; apply in_children; auto).
  destruct q as [ | | | | | |k|k|k|k t|k t]; simpl in Hu; try discriminate; try congruence.
  - rewrite (covered_self _ _ (H1 PCode eq_refl Hq)) in Hc; discriminate.
  - rewrite (covered_self _ _ (H1 (PEntry k) eq_refl Hq)) in Hc; discriminate.
  - rewrite (covered_child _ (POut k) (PEntry k) (H1 (PEntry k) eq_refl (HT (POut k) (PEntry k) Hq eq_refl)) eq_refl) in Hc; discriminate.
  - rewrite (covered_child _ (PMeta k) (PEntry k) (H1 (PEntry k) eq_refl (HT (PMeta k) (PEntry k) Hq eq_refl)) eq_refl) in Hc; discriminate.
  - rewrite (covered_child _ (POutT k t) (PEntry k) (H1 (PEntry k) eq_refl (HT (POutT k t) (PEntry k) Hq eq_refl)) eq_refl) in Hc; discriminate.
  - rewrite (covered_child _ (PMetaT k t) (PEntry k) (H1 (PEntry k) eq_refl (HT (PMetaT k t) (PEntry k) Hq eq_refl)) eq_refl) in Hc; discriminate.
Qed.

(* rmtree of the function directory, alone: the whole subtree is gone, nothing else moved *)
Lemma rmtree_func_post : forall d s, Tree s ->
  Tree (snd (run (rmtree_unsafe (S d) false PFunc) s)) /\
  forall q, lookup q (snd (run (rmtree_unsafe (S d) false PFunc) s)) = if under_func q then None else lookup q s.
Proof.
  intros d s HT. cbn [rmtree_unsafe]. rewrite run_op. cbn [exec].
  destruct (present PFunc s) eqn:Hp; cbn [fst snd].
  - set (l := children PFunc s).
    assert (Hl : forall q, In q l -> parent q = Some PFunc) by (intros q Hq; apply in_children in Hq; tauto).
    rewrite run_pbind.
    pose proof (rm_entries_ok (rmtree_unsafe d false) l s) as Hok.
    destruct (rm_func_children_post d l s HT Hl) as [HT1 Hpost].
    destruct (run (rm_entries (rmtree_unsafe d false) false l) s) as [r1 s1]; cbn [fst snd] in *. subst r1.
    assert (Hnc : covered l PFunc = false).
    { unfold covered. apply not_true_is_false. intros H. apply existsb_exists in H. destruct H as (q & Hq & H).
      apply Hl in Hq. apply orb_true_iff in H. destruct H as [H|H].
      - apply path_eqb_eq in H; subst q. discriminate.
      - unfold is_child in H. simpl in H. destruct q; simpl in *; discriminate. }
    assert (Hp1 : present PFunc s1 = true) by (unfold present; rewrite Hpost, Hnc; exact Hp).
    assert (Hc1 : forall q, present q s1 = true -> parent q = Some PFunc -> False).
    { intros q Hq Hpar. unfold present in Hq. rewrite Hpost in Hq.
      destruct (covered l q) eqn:E; [discriminate|].
      assert (Hin : In q l) by (apply in_children; split; auto).
      assert (covered l q = true).
      { unfold covered. apply existsb_exists. exists q; split; auto. rewrite path_eqb_refl; reflexivity. }
      congruence. }
    rewrite (rmdir_seq PFunc s1 eq_refl Hp1 Hc1). cbn [snd]. split.
    + apply Tree_remove_leaf; auto.
    + intros q. rewrite lookup_remove, Hpost.
      destruct (path_eqb q PFunc) eqn:E1; [apply path_eqb_eq in E1; subst; reflexivity|].
      destruct (covered l q) eqn:E2.
      * unfold covered in E2. apply existsb_exists in E2. destruct E2 as (q1 & Hq1 & H).
        apply Hl in Hq1. apply orb_true_iff in H. destruct H as [H|H].
        -- apply path_eqb_eq in H; subst q1. destruct q; simpl in *; try discriminate; reflexivity.
        -- unfold is_child in H. destruct (parent q) as [h|] eqn:Eh; [|discriminate].
           apply path_eqb_eq in H; subst h.
           destruct q1; simpl in Hq1; try discriminate; destruct q; simpl in Eh; try discriminate; reflexivity.
      * destruct (under_func q) eqn:Eu; auto.
        (* under the function directory but not reached by the listing: it was not there *)
        apply not_covered_absent; auto. intros ->. rewrite path_eqb_refl in E1; discriminate.
  - (* no function directory: nothing to do, and nothing below it exists *)
    rewrite run_op. cbn [exec is_dir negb]. rewrite Hp. cbn [fst snd run]. split; auto.
    intros q. destruct (under_func q) eqn:Eu; auto. apply under_func_absent; auto.
Qed.

Section Clear.
Variable pickle : Z -> bytes.
Variable unpickle : bytes -> option Z.
Variable meta : bytes.
Variable parse_meta : bytes -> bool.
Variable code : Z -> bytes.
Variable code_eq : bytes -> Z -> bool.
Variable decodes : bytes -> bool.
Variable gitbytes : bytes.
Variable f : Z -> Z -> Z.
Variable cur : Z.

Notation InvB := (InvB pickle meta code f cur).
Notation outB := (outB pickle f cur).
Notation metaA := (metaA meta).
Notation codeB := (codeB code cur).
Notation wfB := (wf outB metaA codeB codeB XT xT).

(* func_code.py is there, decodes, and is NOT the current source: the next check clears *)
Definition Guarded (s : fs) : Prop :=
  exists b, lookup PCode s = Some b /\ decodes b = true /\ code_eq b cur = false.

Lemma no_finals_InvB : forall s, Tree s -> (forall q, under_func q = true -> lookup q s = None) -> InvB s.
Proof.
  intros s HT Hn. split; auto. repeat split; intros *; rewrite Hn by reflexivity; discriminate.
Qed.

(* MemorizedFunc.clear, alone, from ANY well-formed tree: afterwards the invariant of the current version holds *)
Lemma clear_func_post : forall s, Tree s -> InvB (snd (run (clear_func code cur) s)).
Proof.
  intros s HT. unfold clear_func. rewrite run_pbind, run_op. cbn [exec].
  assert (Hwf : wfB _ 0 (fun _ => True) (store_code (Some (code cur)))).
  { apply wf_store_code; unfold xT; auto. right; eexists; split; eauto. apply codeB_cur. }
  destruct (present PFunc s) eqn:Hp; cbn [fst snd is_ok].
  - unfold rmtree_ign, rmtree. rewrite run_pbind, run_op. cbn [exec].
    destruct (rmtree_func_post 3 s HT) as [HT1 Hpost].
    assert (E : snd (if present PFunc s then ROk else RErr ENOENT, s) = s) by reflexivity. rewrite E.
    destruct (run (rmtree_unsafe 4 false PFunc) s) as [r s1]; cbn [fst snd run] in *.
    assert (HI1 : InvB s1) by (apply no_finals_InvB; auto; intros q Hq; rewrite Hpost, Hq; reflexivity).
    exact (proj1 (run_B pickle meta code f cur _ 0 _ _ s1 HI1 Hwf)).
  - cbn [run].
    assert (HI1 : InvB s) by (apply no_finals_InvB; auto; intros q Hq; apply under_func_absent; auto).
    exact (proj1 (run_B pickle meta code f cur _ 0 _ _ s HI1 Hwf)).
Qed.

Variable t : Z.
Variable cb : option bool.

Lemma guarded_first_call : forall k s, Tree s -> Guarded s ->
  let r := run (cached_call pickle unpickle meta parse_meta code code_eq decodes f cur t cb false k false) s in
  fst r = (OVal (f cur k) true, true) /\ InvB (snd r).
Proof.
  intros k s HT (b & Hb & Hdec & Hne). cbv zeta.
  unfold cached_call, is_valid, check_code. rewrite !run_pbind, run_op. cbn [exec]. rewrite Hb. cbn [fst snd].
  rewrite Hdec, Hne. cbn [negb]. rewrite run_pbind.
  pose proof (clear_func_seq code cur s) as Hok. pose proof (clear_func_post s HT) as HI.
  destruct (run (clear_func code cur) s) as [r1 s1]; cbn [fst snd] in *. subst r1. cbn [run].
  rewrite run_pbind.
  assert (Hwf : wfB _ t (fun _ => True) (compute_store pickle meta f cur t k)).
  { apply wf_compute_store; unfold outB, metaA, xT; auto. }
  destruct (run_B pickle meta code f cur _ t _ _ s1 HI Hwf) as [HI2 _].
  destruct (run (compute_store pickle meta f cur t k) s1) as [u s2]; cbn [fst snd run] in *.
  split; auto.
Qed.

(* ops that are harmless and do not touch func_code.py keep its content and the tree *)
Lemma code_kept : forall A (Q : A -> Prop) (p : prog A) s b,
  wf anyo anyb anyb anyb (fun s => lookup PCode s = Some b) safe_op A t Q p ->
  Tree s -> lookup PCode s = Some b ->
  Tree (snd (run p s)) /\ lookup PCode (snd (run p s)) = Some b.
Proof.
  intros A Q p s b Hwf HT Hb.
  destruct (pst_run anyo anyb anyb anyb (fun s => lookup PCode s = Some b) safe_op) with (A := A) (t := t) (Q := Q) (p := p) (s := s)
    as [[[HT' _] HX] _]; unfold anyb, anyo; auto.
  - (* one allowed, safe operation keeps func_code.py *)
    intros o s0 Ha Hs _ H0.
    destruct o as [p0|p0|p0|p0 b0|p0|src dst|p0|p0|p0]; simpl in *;
      try (destruct (present p0 s0); simpl; auto; fail); try (destruct (lookup p0 s0); simpl; auto; fail).
    + destruct (present p0 s0); simpl; auto. destruct (parent_present p0 s0); simpl; auto.
      rewrite lookup_set. destruct (path_eqb PCode p0) eqn:E; auto. apply path_eqb_eq in E; subst; discriminate.
    + destruct (parent_present p0 s0); simpl; auto.
      rewrite lookup_set. destruct (path_eqb PCode p0) eqn:E; auto. apply path_eqb_eq in E; subst; congruence.
    + destruct (lookup p0 s0); simpl; auto.
      rewrite lookup_set. destruct (path_eqb PCode p0) eqn:E; auto. apply path_eqb_eq in E; subst; congruence.
    + contradiction.
    + destruct (present p0 s0); simpl; auto.
      rewrite lookup_remove. destruct (path_eqb PCode p0) eqn:E; auto. apply path_eqb_eq in E; subst; congruence.
    + destruct (is_dir p0) eqn:Hd; simpl; auto. destruct (present p0 s0); simpl; auto. destruct (children p0 s0); simpl; auto.
      rewrite lookup_remove. destruct (path_eqb PCode p0) eqn:E; auto. apply path_eqb_eq in E; subst; discriminate.
  - (* the write-then-rename pattern works on other names *)
    intros o s0 Ho H0. destruct o; simpl in *; try contradiction.
    + destruct (parent_present p0 s0); simpl; auto. rewrite lookup_set. destruct p0; try discriminate; auto.
    + destruct (lookup p0 s0); simpl; auto. rewrite lookup_set. destruct p0; try discriminate; auto.
    + destruct Ho as [Hs Hd]. destruct (lookup src s0); simpl; auto. destruct (parent_present dst s0); simpl; auto.
      rewrite lookup_set, lookup_remove. destruct src; try discriminate; destruct dst; try discriminate; auto.
  - split; [repeat split; auto | exact Hb].
  - apply pst_wf; exact Hwf.
Qed.

Hypothesis unpickle_pickle : forall v, unpickle (pickle v) = Some v.
Hypothesis decodes_prefix : forall j, decodes (firstn j (code cur)) = true.

Notation session := (session pickle unpickle meta parse_meta code code_eq decodes gitbytes f).

(* a fresh process of the current version on a guarded directory: the first call clears and
   recomputes, every call returns the current function's value, the invariant is established *)
Lemma guarded_session : forall k ks s, Tree s -> Guarded s ->
  Forall2 (fun k o => exists c, o = OVal (f cur k) c) (k :: ks) (fst (run (session cur t cb (map ACall (k :: ks))) s)) /\
  InvB (snd (run (session cur t cb (map ACall (k :: ks))) s)).
Proof.
  intros k ks s HT (b & Hb & Hdec & Hne). unfold FsModel.session. rewrite run_pbind.
  pose proof (memory_init_seq gitbytes s HT) as Hr1.
  assert (Hwf1 : wf anyo anyb anyb anyb (fun s => lookup PCode s = Some b) safe_op _ t (fun _ => True) (memory_init gitbytes)).
  { apply wf_memory_init; auto. }
  destruct (code_kept _ _ _ s b Hwf1 HT Hb) as [HT1 Hb1].
  destruct (run (memory_init gitbytes) s) as [r1 s1]; cbn [fst snd] in *. subst r1.
  rewrite run_pbind. unfold cache_init.
  pose proof (store_code_seq None s1) as Hr2.
  assert (Hwf2 : wf anyo anyb anyb anyb (fun s => lookup PCode s = Some b) safe_op _ t (fun _ => True) (store_code None)).
  { unfold store_code, store_code_src, handled; cbn [fst snd interp_store path_of].
    apply wf_op_all; simpl; auto. intros r. destruct (is_ok r); [apply wf_ret; auto|].
    unfold ebind. eapply wf_pbind; [apply wf_mkdirp; auto|]. intros [u|e] _; apply wf_ret; auto. }
  destruct (code_kept _ _ _ s1 b Hwf2 HT1 Hb1) as [HT2 Hb2].
  destruct (run (store_code None) s1) as [r2 s2]; cbn [fst snd] in *. subst r2.
  cbn [map run_actions]. rewrite run_pbind.
  destruct (guarded_first_call k s2 HT2) as [Hv HI3]; [exists b; auto|].
  destruct (run (cached_call pickle unpickle meta parse_meta code code_eq decodes f cur t cb false k false) s2)
    as [oi s3]; cbn [fst snd] in *. subst oi. cbn [fst snd].
  rewrite run_pbind.
  destruct (run_calls_B pickle unpickle meta parse_meta code code_eq decodes f cur unpickle_pickle decodes_prefix
              t cb ks true s3 HI3) as [HF HI4].
  destruct (run (run_actions pickle unpickle meta parse_meta code code_eq decodes f cur t cb (map ACall ks) true) s3)
    as [os s4]; cbn [run fst snd] in *.
  split; [constructor; eauto | exact HI4].
Qed.

End Clear.
