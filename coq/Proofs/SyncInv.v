(* M1s proofs, part 2: M1's invariants Inv1-Inv3 (partition of the input, tracker bookkeeping and
   counters, _iterating / _original_iterator / exhaustion) hold in every reachable state of the
   sync-retrieval model.  The dispatch-side lemmas of M1 are reused as they are; only the transformers of
   the caller's retrieval loop are new. *)
From Coq Require Import List Bool Arith Lia PeanoNat.
Require Import JV.Model.ParallelCore JV.Model.ParallelSync JV.Proofs.ParallelLemmas JV.Proofs.ParallelInv1
               JV.Proofs.ParallelTrk JV.Proofs.ParallelInv2 JV.Proofs.ParallelFrame2 JV.Proofs.ParallelInv3
               JV.Proofs.SyncFrame.
Import ListNotations.

Definition blocked_phase (s : st) : Prop := phase s = Retrieving \/ exists r, phase s = Draining r.

Record SI (s : st) (k : option nat) : Prop := {
  si_inv : Inv123 s;
  si_pend : pend_out s = [];
  si_ord : mode (c s) = Ordered;
  si_blk : forall j, k = Some j -> blocked_phase s
}.

(* ---------------- fields that the dispatch side never touches ---------------- *)
Definition side_fields (s : st) := (pend_out s, c s, phase s).

Lemma dispatch_shape_side s b fo s' r : dispatch_shape s b fo s' r -> side_fields s' = side_fields s.
Proof. intros H. inversion H; subst; reflexivity. Qed.

Lemma cb_start_side s t o : side_fields (cb_start s t o) = side_fields s.
Proof.
  unfold cb_start. destruct (get_trk s t); [|reflexivity].
  destruct (negb (mem_id t (inflight s))); [reflexivity|].
  destruct (negb (tk_cid t0 =? cid s) || aborting s); reflexivity.
Qed.

Ltac side H := unfold side_fields in H; injection H as ? ? ?.

(* ---------------- new transformers ---------------- *)
Lemma inv123_move_mid s t tk : Inv123 s -> nth_error (trk s) t = Some tk -> In t (inflight s) ->
  (tk_cid tk <> cid s \/ aborting s = true) -> Inv123 (move_mid s t).
Proof.
  intros [[H1 H2] H3] Hk Hin Hc. split; [split; [revert H1; frame1|]|mono3].
  open2 H2.
  assert (Hvt : t < length (trk s)) by (apply nth_error_Some; congruence).
  assert (Hvac : exception s = false -> is_cur s t = true -> False).
  { intros Hx Hcu. destruct Hc as [Hc | Hc].
    - unfold is_cur, cur_of in Hcu. rewrite Hk in Hcu. apply Nat.eqb_eq in Hcu. contradiction.
    - rewrite (Habx Hc) in Hx. discriminate. }
  match goal with |- Inv2 ?e => fields e s' end.
  constructor; norm2; rw_fields; auto.
  - apply Forall_remove_id. exact Hinfl.
  - apply Forall_app. split; [exact Hmid | constructor; [exact Hvt | constructor]].
  - apply NoDup_snoc; [exact Hndm | intros Hm; exact (Hmi t Hm Hin)].
  - apply NoDup_filter. exact Hndi.
  - intros u Hu. destruct (Hclm u Hu) as [A B]. split.
    + intros Hx. apply in_app_or in Hx as [Hx | [<- | []]]; [exact (A Hx) | exact (B Hin)].
    + intros Hx. apply B. eapply incl_remove_id. exact Hx.
  - intros u Hu Hx. apply in_app_or in Hu as [Hu | [<- | []]].
    + apply (Hmi u Hu). eapply incl_remove_id. exact Hx.
    + unfold remove_id in Hx. apply filter_In in Hx as [_ Hx]. rewrite Nat.eqb_refl in Hx. discriminate.
  - intros Hx u Hu Hcu. apply (Hip Hx u); [eapply incl_remove_id; exact Hu | exact Hcu].
  - intros Hx u Hu Hcu. apply in_app_or in Hu as [Hu | [<- | []]]; [exact (Hmd Hx u Hu Hcu)|].
    exfalso. apply Hvac; [exact Hx|]. rewrite is_cur_fun. exact Hcu.
  - intros Hx u Hu. destruct (How Hx u Hu) as [A | A].
    + destruct (Nat.eq_dec t u) as [<- | Hneq].
      * right. apply in_or_app. right. left. reflexivity.
      * left. unfold remove_id. apply filter_In. split; [exact A|]. apply Nat.eqb_neq in Hneq. rewrite Hneq. reflexivity.
    + right. apply in_or_app. left. exact A.
Qed.

Lemma inv123_pop_blk s j js : Inv123 s -> phase s = Retrieving -> jobs s = j :: js ->
  Inv123 (set_out s js (jset s) [] false Retrieving).
Proof.
  intros [[H1 H2] H3] Hph Hj. split; [split; [revert H1; frame1|]|].
  - apply inv2_set_out; [exact H2 | rewrite Hj; apply incl_tl, incl_refl | apply incl_refl | discriminate].
  - mono3; try discriminate; rewrite ?Hph, ?orb_true_r, ?orb_false_r; cbn; auto; try discriminate.
Qed.

Lemma inv123_drain_blk s j js : Inv123 s -> phase s = Draining (j :: js) ->
  Inv123 (set_out s (jobs s) (jset s) [] false (Draining js)).
Proof.
  intros [[H1 H2] H3] Hph. split; [split; [revert H1; frame1|]|].
  - apply inv2_set_out; [exact H2 | apply incl_refl | apply incl_refl |].
    intros r Hr. injection Hr as <-. exists (j :: js). split; [exact Hph | apply incl_tl, incl_refl].
  - mono3; try discriminate; rewrite ?Hph, ?orb_true_r, ?orb_false_r; cbn; auto; try discriminate.
Qed.

Lemma inv123_deliver_list s l : Inv123 s -> Inv123 (deliver_list s l).
Proof.
  intros [[H1 H2] H3]. split; [split; [revert H1; frame1|]|mono3].
  open2 H2. match goal with |- Inv2 ?e => fields e s' end.
  constructor; norm2; rw_fields; auto.
Qed.

Lemma inv123_fail s : Inv123 s -> blocked_phase s -> Inv123 (finalize s Finished true true).
Proof.
  intros [[H1 H2] H3] Hph. split; [split; [revert H1; frame1 | apply inv2_finalize; [exact H2 | left; auto]]|].
  destruct Hph as [Hph | [r Hph]];
    mono3; try discriminate; rewrite ?Hph, ?orb_true_r, ?orb_false_r; cbn; auto; try discriminate.
Qed.

(* ---------------- Inv1-3 in every reachable state of the sync model ---------------- *)
Lemma start_first_next_side s1 r : pend_out (start_first_next s1 r) = pend_out s1 /\ c (start_first_next s1 r) = c s1.
Proof. unfold start_first_next. cbn zeta. destruct (aborting _); split; reflexivity. Qed.
Lemma start_loop_next_side s1 r : pend_out (start_loop_next s1 r) = pend_out s1 /\ c (start_loop_next s1 r) = c s1.
Proof. unfold start_loop_next. destruct r; [destruct (aborting s1)|]; split; reflexivity. Qed.

Theorem sreach_SI : forall s, sreach s -> SI (base s) (blk s).
Proof.
  apply (PS_reach SI).
  - (* init *) constructor; [exact inv123_init | reflexivity | reflexivity | discriminate].
  - (* call *) intros s k cf n f [Hi Hp Ho Hb] Hcf Hr Hph.
    constructor; [apply inv123_call; auto | reflexivity | reflexivity | discriminate].
  - (* start_first *) intros s b s1 r [Hi Hp Ho Hb] Hnj Hb1 Hph Hsh.
    pose proof (dispatch_shape_side _ _ _ _ _ Hsh) as E. side E.
    destruct (start_first_next_side s1 r) as [E1 E2].
    constructor; [eapply inv123_start_first; eauto | congruence | congruence | discriminate].
  - (* start_loop *) intros s b s1 r [Hi Hp Ho Hb] Hnj Hb1 Hph Hsh.
    pose proof (dispatch_shape_side _ _ _ _ _ Hsh) as E. side E.
    destruct (start_loop_next_side s1 r) as [E1 E2].
    constructor; [eapply inv123_start_loop; eauto | congruence | congruence | discriminate].
  - (* ghost completion *) intros s k t tk [Hi Hp Ho Hb] _ _ _ _.
    pose proof (cb_start_side s t None) as E. side E.
    constructor; [apply inv123_cb_start; exact Hi | congruence | congruence |].
    intros j Hj. destruct (Hb j Hj) as [A | [r A]]; [left | right; exists r]; congruence.
  - (* move *) intros s k t tk [Hi Hp Ho Hb] Hk Hin Hc.
    constructor; [eapply inv123_move_mid; eauto | exact Hp | exact Ho | exact Hb].
  - (* dispatch_next *) intros s k b s' r [Hi Hp Ho Hb] Hnj Hb1 Hor Hcl Hsh.
    pose proof (dispatch_shape_side _ _ _ _ _ Hsh) as E. side E.
    constructor; [eapply inv123_cb_dispatch; eauto | congruence | congruence |].
    intros j Hj. destruct (Hb j Hj) as [A | [r0 A]]; [left | right; exists r0]; congruence.
  - (* close *) intros s k t tk [Hi Hp Ho Hb] Hk Hin Hc.
    constructor; [apply inv123_cb_close; auto | exact Hp | exact Ho | exact Hb].
  - (* stale *) intros s k t tk [Hi Hp Ho Hb] Hk Hin Hc.
    constructor; [eapply inv123_cb_stale; eauto | exact Hp | exact Ho | exact Hb].
  - (* exhaust *) intros s k [Hi Hp Ho Hb] Hor Hcl Hc.
    constructor; [apply inv123_exhaust; auto | exact Hp | exact Ho | exact Hb].
  - (* raise fast *) intros s e [Hi Hp Ho Hb] Hph Hab Hff.
    constructor; [eapply inv123_raise_fast; eauto | reflexivity | exact Ho | discriminate].
  - (* loop exit *) intros s [Hi Hp Ho Hb] Hph Hc.
    constructor; [apply inv123_loop_exit; auto; tauto | reflexivity | exact Ho | discriminate].
  - (* pop *) intros s j js [Hi Hp Ho Hb] Hph Hab Hj.
    constructor; [eapply inv123_pop_blk; eauto | reflexivity | exact Ho | intros _ _; left; reflexivity].
  - (* drain end *) intros s [Hi Hp Ho Hb] Hph.
    constructor; [apply inv123_drain_end; auto | reflexivity | exact Ho | discriminate].
  - (* drain pop *) intros s j js [Hi Hp Ho Hb] Hph.
    constructor; [eapply inv123_drain_blk; eauto | reflexivity | exact Ho |].
    intros _ _. right. exists js. reflexivity.
  - (* result ok *) intros s j [Hi Hp Ho Hb].
    constructor; [apply inv123_deliver_list; exact Hi | exact Hp | exact Ho | discriminate].
  - (* result fail *) intros s j [Hi Hp Ho Hb].
    constructor; [apply inv123_fail; [exact Hi | apply (Hb j eq_refl)] | reflexivity | exact Ho | discriminate].
  - (* wf *) intros s k [Hi _ _ _]. apply inv123_wf. exact Hi.
Qed.

(* ---------------- C01 (sync): every task taken from the input is in exactly one submitted or
   look-ahead batch, in input order ---------------- *)
Theorem sync_partition s : sreach s -> ifail (base s) = None ->
  concat (submitted (base s)) ++ concat (ready (base s)) = seq 0 (taken (base s)) /\ taken (base s) <= N (base s).
Proof.
  intros Hr Hi. destruct (sreach_SI s Hr) as [[[H1 _] _] _ _ _].
  destruct H1 as [_ Hp Hl _ _]. split; auto.
Qed.
