(* The tracker loop refines the per-key reference counter of the specification; deletions,
   robustness and the EOF phase.  (Model/ResTracker.v, Proofs/ResTracker.v) *)
From Coq Require Import ZArith List Bool Lia ZifyBool FinFun.
Require Import JV.Model.ResTracker JV.Proofs.ResTracker.
Import ListNotations.
Open Scope Z_scope.

(* ------------------------------------------------------------------ frame *)
Lemma lookup_put_frame : forall r t n d' k,
  (forall n', n <> n' -> d_get d' n' = d_get (reg_get r t) n') ->
  (t, n) <> k -> lookup (reg_put r t d') k = lookup r k.
Proof.
  intros r t n d' [t' n'] F N. destruct (rtype_eqb t' t) eqn:E.
  - apply rtype_eqb_true_iff in E. subst t'. rewrite lookup_put_same. unfold lookup. cbn [fst snd].
    apply F. intros ->. apply N. reflexivity.
  - apply lookup_put_other_type. cbn. intros ->. destruct t; discriminate.
Qed.

Lemma refc_same : forall r t n, refc r (t, n) = match d_get (reg_get r t) n with None => 0 | Some c => c end.
Proof. reflexivity. Qed.

(* ------------------------------------------------------------------ a step moves the counter as the spec says *)
Lemma step_req_refc : forall w cf r q k, wf r ->
  refc (o_reg (step_req w cf r q)) k = cnt_step k (refc r k) q.
Proof.
  intros w cf r q k W. unfold step_req.
  destruct q as [| | |t n|t n|t n|]; cbn [o_reg fst cnt_step]; try reflexivity.
  - (* REGISTER *)
    destruct (key_eqb (t, n) k) eqn:E.
    + apply key_eqb_true_iff in E. subst k. unfold refc at 1. rewrite lookup_put_same. rewrite refc_same.
      destruct (d_get (reg_get r t) n); rewrite d_get_set_same; lia.
    + apply key_eqb_false_iff in E. unfold refc. rewrite (lookup_put_frame r t n); auto.
      intros n' N. destruct (d_get (reg_get r t) n); apply d_get_set_other; assumption.
  - (* UNREGISTER *)
    destruct (W t) as [ND P].
    destruct (key_eqb (t, n) k) eqn:E.
    + apply key_eqb_true_iff in E. subst k.
      destruct (d_get (reg_get r t) n) eqn:G; cbn [o_reg fst].
      * unfold refc. rewrite lookup_put_same, d_get_del_same by assumption. reflexivity.
      * rewrite refc_same, G. reflexivity.
    + apply key_eqb_false_iff in E.
      destruct (d_get (reg_get r t) n) eqn:G; cbn [o_reg fst]; [|reflexivity].
      unfold refc. rewrite (lookup_put_frame r t n); auto. intros n' N. apply d_get_del_other; assumption.
  - (* MAYBE_UNLINK *)
    destruct (W t) as [ND P].
    destruct (key_eqb (t, n) k) eqn:E.
    + apply key_eqb_true_iff in E. subst k. rewrite (refc_same r).
      destruct (d_get (reg_get r t) n) as [c|] eqn:G; cbn [o_reg fst].
      * assert (1 <= c) by (eapply pos_vals_get; eauto).
        destruct (c - 1 =? 0) eqn:Ez; cbn [o_reg fst]; unfold refc; rewrite lookup_put_same.
        -- rewrite d_del_set by congruence. rewrite d_get_del_same by assumption.
           destruct (0 <? c) eqn:Ec; lia.
        -- rewrite d_get_set_same. destruct (0 <? c) eqn:Ec; lia.
      * rewrite refc_same, G. reflexivity.
    + apply key_eqb_false_iff in E.
      destruct (d_get (reg_get r t) n) as [c|] eqn:G; cbn [o_reg fst]; [|reflexivity].
      destruct (c - 1 =? 0); cbn [o_reg fst]; unfold refc; rewrite (lookup_put_frame r t n); auto; intros n' N.
      * rewrite d_get_del_other by assumption. apply d_get_set_other; assumption.
      * apply d_get_set_other; assumption.
Qed.

Lemma step_refc : forall w cf r l k, wf r ->
  refc (o_reg (step w cf r l)) k = cnt_step k (refc r k) (classify l).
Proof. intros. apply step_req_refc. assumption. Qed.

(* what a step deletes *)
Lemma step_req_del : forall w cf r q,
  o_del (step_req w cf r q) =
  match q with
  | QMaybeUnlink t n => if refc r (t, n) =? 1 then [(t, n)] else []
  | _ => []
  end.
Proof.
  intros w cf r q. unfold step_req. destruct q as [| | |t n|t n|t n|]; cbn [o_del fst snd]; try reflexivity.
  - destruct (d_get (reg_get r t) n); reflexivity.
  - rewrite refc_same. destruct (d_get (reg_get r t) n) as [c|]; cbn [o_del fst snd]; [|reflexivity].
    destruct (c - 1 =? 0) eqn:A, (c =? 1) eqn:B; cbn [o_del fst snd]; try reflexivity; lia.
Qed.

Lemma step_del : forall w cf r l,
  o_del (step w cf r l) =
  match classify l with
  | QMaybeUnlink t n => if refc r (t, n) =? 1 then [(t, n)] else []
  | _ => []
  end.
Proof. intros. apply step_req_del. Qed.

(* neither the outcome of the clean-up function nor the warning filter influences the registry
   or the deletions *)
Lemma step_env_irrelevant : forall w cf w' cf' r l,
  o_reg (step w cf r l) = o_reg (step w' cf' r l) /\ o_del (step w cf r l) = o_del (step w' cf' r l).
Proof.
  intros. unfold step, step_req. destruct (classify l) as [| | |t n|t n|t n|]; cbn; auto.
  destruct (d_get (reg_get r t) n) as [c|]; cbn; auto. destruct (c - 1 =? 0); cbn; auto.
Qed.

(* every logged error except the -W error case leaves registry and file system alone *)
Lemma step_error_unchanged : forall w cf r l e,
  o_err (step w cf r l) = Some e -> e <> EWarning -> o_reg (step w cf r l) = r /\ o_del (step w cf r l) = [].
Proof.
  intros w cf r l e. unfold step, step_req. destruct (classify l) as [| | |t n|t n|t n|]; cbn; auto; try discriminate.
  - destruct (d_get (reg_get r t) n); cbn; auto; discriminate.
  - destruct (d_get (reg_get r t) n) as [c|]; cbn; auto.
    destruct (c - 1 =? 0); cbn; [|discriminate]. destruct (cf (t, n) && w); [|discriminate].
    intros H N. inversion H. congruence.
Qed.

Definition malformed (q : request) : Prop := q = QDecodeError \/ q = QBadType \/ q = QBadCmd.

Lemma step_malformed : forall w cf r l, malformed (classify l) ->
  o_reg (step w cf r l) = r /\ o_del (step w cf r l) = [] /\ o_err (step w cf r l) <> None.
Proof.
  intros w cf r l [H|[H|H]]; unfold step, step_req; rewrite H; cbn; repeat split; discriminate.
Qed.

Lemma step_unbalanced : forall w cf r l t n,
  classify l = QMaybeUnlink t n \/ classify l = QUnregister t n -> lookup r (t, n) = None ->
  o_reg (step w cf r l) = r /\ o_del (step w cf r l) = [] /\ o_err (step w cf r l) = Some EKey.
Proof.
  intros w cf r l t n [H|H] L; unfold step, step_req; rewrite H; unfold lookup in L; cbn [fst snd] in L; rewrite L; cbn; auto.
Qed.

Lemma step_del_registered : forall w cf r l k, In k (o_del (step w cf r l)) -> lookup r k <> None.
Proof.
  intros w cf r l k. rewrite step_del. destruct (classify l) as [| | |t n|t n|t n|]; try (intros []).
  destruct (refc r (t, n) =? 1) eqn:E; [|intros []]. intros [<-|[]]. unfold refc in E.
  destruct (lookup r (t, n)); [discriminate | lia].
Qed.

(* ------------------------------------------------------------------ the loop *)
Lemma run_app : forall w cf r a b, run w cf r (a ++ b) = run w cf (run w cf r a) b.
Proof. intros. unfold run. apply fold_left_app. Qed.

Lemma run_cons : forall w cf r l t, run w cf r (l :: t) = run w cf (o_reg (step w cf r l)) t.
Proof. reflexivity. Qed.

Lemma run_wf : forall w cf ls r, wf r -> wf (run w cf r ls).
Proof. induction ls as [|l t IH]; intros r W; [exact W|]. rewrite run_cons. apply IH, step_wf, W. Qed.

Lemma run_refc : forall w cf ls r k, wf r -> refc (run w cf r ls) k = count_from (refc r k) ls k.
Proof.
  induction ls as [|l t IH]; intros r k W; [reflexivity|].
  rewrite run_cons, IH by (apply step_wf; exact W). rewrite step_refc by exact W. reflexivity.
Qed.

Lemma refc_init : forall k, refc init k = 0.
Proof. intros [[] n]; reflexivity. Qed.

Lemma run_init_refc : forall w cf ls k, refc (run w cf init ls) k = count ls k.
Proof. intros. rewrite run_refc by apply wf_init. rewrite refc_init. reflexivity. Qed.

Lemma count_snoc : forall ls l k, count (ls ++ [l]) k = cnt_step k (count ls k) (classify l).
Proof. intros. unfold count, count_from. rewrite fold_left_app. reflexivity. Qed.

Lemma run_env_irrelevant : forall w cf w' cf' ls r, run w cf r ls = run w' cf' r ls.
Proof.
  induction ls as [|l t IH]; intros r; [reflexivity|]. rewrite !run_cons.
  rewrite (proj1 (step_env_irrelevant w cf w' cf' r l)). apply IH.
Qed.

Lemma trace_length : forall w cf ls r, length (trace w cf r ls) = length ls.
Proof. induction ls as [|l t IH]; intros r; cbn; [reflexivity | rewrite IH; reflexivity]. Qed.

Lemma trace_app : forall w cf a b r, trace w cf r (a ++ b) = trace w cf r a ++ trace w cf (run w cf r a) b.
Proof.
  induction a as [|l t IH]; intros b r; [reflexivity|]. cbn [app trace]. rewrite IH, run_cons. reflexivity.
Qed.

(* the i-th entry of the trace is the step taken from the registry reached by the first i lines *)
Lemma trace_nth : forall w cf pre l post r,
  nth_error (trace w cf r (pre ++ l :: post)) (length pre) =
  Some (o_del (step w cf (run w cf r pre) l), o_err (step w cf (run w cf r pre) l)).
Proof.
  intros. rewrite trace_app, nth_error_app2 by (rewrite trace_length; lia).
  rewrite trace_length, Nat.sub_diag. reflexivity.
Qed.

(* ------------------------------------------------------------------ deletions in the loop *)
Lemma loop_delete_iff : forall w cf ls l k,
  In k (o_del (step w cf (run w cf init ls) l)) <->
  classify l = QMaybeUnlink (fst k) (snd k) /\ count ls k = 1.
Proof.
  intros w cf ls l [t n]. rewrite step_del. cbn [fst snd].
  destruct (classify l) as [| | |t' n'|t' n'|t' n'|] eqn:C; try (split; [intros [] | intros [H _]; discriminate]).
  rewrite run_init_refc. destruct (count ls (t', n') =? 1) eqn:E.
  - split.
    + intros [H|[]]. inversion H; subst. split; [reflexivity | lia].
    + intros [H _]. inversion H; subst. left. reflexivity.
  - split; [intros [] | intros [H1 H2]]. inversion H1; subst. lia.
Qed.

Lemma loop_delete_at_most_one : forall w cf r l,
  o_del (step w cf r l) = [] \/ exists k, o_del (step w cf r l) = [k].
Proof.
  intros. rewrite step_del. destruct (classify l); auto. destruct (refc r (t, n) =? 1); eauto.
Qed.

Lemma count_nonneg : forall ls k, 0 <= count ls k.
Proof.
  intros. rewrite <- (run_init_refc false (fun _ => false)). apply refc_nonneg, run_wf, wf_init.
Qed.

(* ------------------------------------------------------------------ EOF *)
Lemma in_keys_of : forall r t k, In k (keys_of r t) <-> fst k = t /\ In (snd k) (d_keys (reg_get r t)).
Proof.
  intros r t [t' n']. unfold keys_of. rewrite in_map_iff. cbn [fst snd]. split.
  - intros (n & E & I). inversion E; subst. auto.
  - intros [-> I]. exists n'. auto.
Qed.

Lemma in_pending : forall r k, In k (pending r) <-> lookup r k <> None.
Proof.
  intros r [t n]. unfold pending, lookup. rewrite !in_app_iff, !in_keys_of, d_get_in_keys. cbn [fst snd].
  destruct t; intuition (discriminate || auto).
Qed.

Lemma NoDup_app_disjoint : forall (A : Type) (a b : list A),
  NoDup a -> NoDup b -> (forall x, In x a -> ~ In x b) -> NoDup (a ++ b).
Proof.
  induction a as [|x a IH]; intros b Na Nb D; cbn; [exact Nb|].
  inversion Na; subst. constructor.
  - rewrite in_app_iff. intros [H|H]; [contradiction | apply (D x); [left; reflexivity | exact H]].
  - apply IH; auto. intros y Hy. apply D. right. exact Hy.
Qed.

Lemma keys_of_nodup : forall r t, wf r -> NoDup (keys_of r t).
Proof.
  intros r t W. unfold keys_of. apply Injective_map_NoDup; [|apply W].
  intros a b H. inversion H. reflexivity.
Qed.

Lemma pending_nodup : forall r, wf r -> NoDup (pending r).
Proof.
  intros r W. unfold pending. apply NoDup_app_disjoint; [apply keys_of_nodup, W | |].
  - apply NoDup_app_disjoint; try (apply keys_of_nodup, W).
    intros x H1 H2. apply in_keys_of in H1, H2. destruct H1, H2. congruence.
  - intros x H1 H2. apply in_keys_of in H1. apply in_app_iff in H2.
    destruct H1 as [E _], H2 as [H2|H2]; apply in_keys_of in H2; destruct H2; congruence.
Qed.

Lemma pending_folders_last : forall r,
  exists a b, pending r = a ++ b /\ Forall (fun d => is_folder d = false) a /\ Forall (fun d => is_folder d = true) b.
Proof.
  intros r. exists (keys_of r File ++ keys_of r Semlock), (keys_of r Folder). split; [|split].
  - unfold pending. rewrite app_assoc. reflexivity.
  - apply Forall_app; split; apply Forall_forall; intros x H; apply in_keys_of in H; destruct H as [E _];
      unfold is_folder; rewrite E; reflexivity.
  - apply Forall_forall. intros x H. apply in_keys_of in H. destruct H as [E _]. unfold is_folder. rewrite E. reflexivity.
Qed.

Lemma cleanup_all_complete : forall w cf ds,
  w = false \/ (forall d, In d ds -> cf d = false) -> cleanup_all w cf ds = (ds, false).
Proof.
  induction ds as [|d t IH]; intros H; cbn; [reflexivity|].
  assert (cf d && w = false) as ->.
  { destruct H as [->|H]; [apply andb_false_r | rewrite H; [reflexivity | left; reflexivity]]. }
  rewrite IH; [reflexivity|]. destruct H as [H|H]; [left; exact H | right; intros x Hx; apply H; right; exact Hx].
Qed.

Lemma cleanup_all_prefix : forall w cf ds, exists rest, ds = fst (cleanup_all w cf ds) ++ rest.
Proof.
  induction ds as [|d t IH]; cbn; [exists []; reflexivity|].
  destruct (cf d && w); [exists t; reflexivity|].
  destruct IH as [rest E]. destruct (cleanup_all w cf t) as [x a]. cbn in *. exists rest. rewrite <- E. reflexivity.
Qed.

Lemma cleanup_all_aborted : forall w cf ds,
  snd (cleanup_all w cf ds) = true -> exists d, In d ds /\ cf d = true /\ w = true.
Proof.
  induction ds as [|d t IH]; cbn; [discriminate|].
  destruct (cf d && w) eqn:E.
  - intros _. exists d. apply andb_true_iff in E. tauto.
  - destruct (cleanup_all w cf t) as [x a]. cbn in *. intros H. destruct (IH H) as (d' & I & F). exists d'. tauto.
Qed.

Lemma pending_iff_count : forall w cf ls k, In k (pending (run w cf init ls)) <-> 0 < count ls k.
Proof.
  intros. rewrite in_pending. rewrite <- (run_init_refc w cf).
  assert (W : wf (run w cf init ls)) by (apply run_wf, wf_init).
  pose proof (refc_zero_iff _ k W). pose proof (refc_nonneg _ k W).
  split; intros A.
  - destruct (Z.eq_dec (refc (run w cf init ls) k) 0) as [E|E]; [apply H in E; contradiction | lia].
  - intros E. apply H in E. lia.
Qed.

(* ------------------------------------------------------------------ the harness' synchronisation group *)
Lemma d_del_set_absent : forall d k v, d_get d k = None -> d_del (d_set d k v) k = d.
Proof.
  induction d as [|[k0 v0] t IH]; intros k v H; cbn in *.
  - rewrite beq_refl. reflexivity.
  - destruct (beq k k0) eqn:E; [discriminate|]. cbn. rewrite E, IH by assumption. reflexivity.
Qed.

Lemma reg_put_put_get : forall r t d, reg_put (reg_put r t d) t (reg_get r t) = r.
Proof. intros [a b c] [] d; reflexivity. Qed.

(* REGISTER s ; MAYBE_UNLINK s ; <malformed line>  for a name s that is not in the registry:
   the registry is back where it was and exactly s was cleaned, by the second line *)
Lemma sync_transparent : forall w cf r l1 l2 l3 t s,
  classify l1 = QRegister t s -> classify l2 = QMaybeUnlink t s -> malformed (classify l3) ->
  lookup r (t, s) = None ->
  run w cf r [l1; l2; l3] = r /\
  map fst (trace w cf r [l1; l2; l3]) = [[]; [(t, s)]; []].
Proof.
  intros w cf r l1 l2 l3 t s C1 C2 C3 L. unfold lookup in L. cbn [fst snd] in L.
  assert (S1 : step w cf r l1 = (reg_put r t (d_set (reg_get r t) s 1), [], None)).
  { unfold step, step_req. rewrite C1, L. reflexivity. }
  set (r1 := reg_put r t (d_set (reg_get r t) s 1)) in *.
  assert (S2 : o_reg (step w cf r1 l2) = r /\ o_del (step w cf r1 l2) = [(t, s)]).
  { unfold step, step_req. rewrite C2. unfold r1. rewrite reg_get_put_same, d_get_set_same.
    change (1 - 1 =? 0) with true. cbn [o_reg o_del fst snd].
    rewrite d_del_set by (rewrite d_get_set_same; discriminate).
    rewrite d_del_set_absent by exact L. rewrite reg_put_put_get. auto. }
  destruct S2 as [S2 D2].
  destruct (step_malformed w cf r l3 C3) as (S3 & D3 & _).
  split.
  - unfold run. cbn [fold_left]. rewrite S1. cbn [o_reg fst]. fold r1. rewrite S2. exact S3.
  - cbn [trace map]. rewrite S1. cbn [o_reg o_del fst snd]. fold r1. rewrite D2, S2, D3. reflexivity.
Qed.
