(* M1 proofs, part 3: the _iterating / _original_iterator flags and exhaustion of the input. *)
From Coq Require Import List Bool Arith Lia PeanoNat.
Require Import JV.Model.ParallelCore JV.Proofs.ParallelLemmas JV.Proofs.ParallelInv1 JV.Proofs.ParallelTrk
               JV.Proofs.ParallelInv2 JV.Proofs.ParallelFrame2.
Import ListNotations.

Definition in_loop (ph : phase_t) : Prop :=
  match ph with StartLoop | Retrieving | Draining _ | Finished => True | _ => False end.
Definition after_start (ph : phase_t) : Prop :=
  match ph with Retrieving | Draining _ | Finished => True | _ => False end.
Definition exhausted (s : st) : Prop := ready s = [] /\ taken s = N s.

Record Inv3 (s : st) : Prop := {
  k_idle : phase s = Idle -> pre (c s) = PreAll;
  k_iter_orig : iterating s = true -> orig s = true;
  k_preall : pre (c s) = PreAll -> orig s = false /\ iterating s = false /\ pre_left s = None;
  k_first : phase s = StartFirst ->
            curids s = [] /\ closed s = [] /\ ready s = [] /\ pre_left s = pre_amount (pre (c s)) /\ iterating s = false /\
            (forall n, pre (c s) = PreN n -> orig s = true);
  k_J : forall n, pre (c s) = PreN n -> orig s = false -> aborting s = false -> exhausted s;
  k_exh_n : forall n, pre (c s) = PreN n -> in_loop (phase s) -> iterating s = false -> aborting s = false -> exhausted s;
  k_exh_all : pre (c s) = PreAll -> after_start (phase s) -> aborting s = false -> exhausted s
}.

Definition Inv123 (s : st) : Prop := Inv12 s /\ Inv3 s.

(* a transformation that keeps the dispatch-side fields and moves the phase forward *)
Lemma inv3_mono s s' :
  Inv3 s ->
  c s' = c s -> N s' = N s -> iterating s' = iterating s -> orig s' = orig s -> pre_left s' = pre_left s ->
  ready s' = ready s -> taken s' = taken s -> curids s' = curids s -> closed s' = closed s ->
  (aborting s' = false -> aborting s = false) ->
  (phase s' = Idle -> phase s = Idle) -> (phase s' = StartFirst -> phase s = StartFirst) ->
  (in_loop (phase s') -> in_loop (phase s)) -> (after_start (phase s') -> after_start (phase s)) ->
  Inv3 s'.
Proof.
  intros [Hid Hio Hpa Hf HJ Hen Hea] Ec EN Ei Eo Epl Er Et Ecu Ecl Hab Hp1 Hp2 Hp3 Hp4.
  unfold exhausted in *.
  constructor; rewrite ?Ec, ?EN, ?Ei, ?Eo, ?Epl, ?Er, ?Et, ?Ecu, ?Ecl; unfold exhausted; rewrite ?Er, ?Et, ?EN; auto.
  - intros n A B C. eapply HJ; eauto.
  - intros n A B C D. eapply Hen; eauto.
Qed.

Ltac mono3 := eapply inv3_mono; [eassumption | try reflexivity ..]; cbn; auto.

Lemma exhausted_no_dispatch s b fo s' r : Inv1 s -> 1 <= n_jobs (c s) -> 1 <= b ->
  exhausted s -> aborting s = false -> dispatch_shape s b fo s' r -> s' = s \/ aborting s' = true.
Proof.
  intros H1 Hnj Hb [Hr Ht] Hab Hsh. inversion Hsh; subst; auto; try congruence; try (exfalso; lia).
Qed.

Lemma wf_pre_amount cf : wf_cfg cf -> pre_amount (pre cf) <> Some 0.
Proof. intros [_ H]. destruct (pre cf) as [|n]; cbn; [discriminate|]. intros [= E]. lia. Qed.

Lemma inv3_call s cf n f : Inv12 s -> wf_cfg cf -> Inv3 (do_call s cf n f).
Proof.
  intros [_ H2] Hcf. destruct H2 as [Hcids _ _ _ _ _ _ _ _ _ _ _ _ _ _ _ _ _ _ _ _].
  assert (Hfresh : curids_of (trk s) (S (cid s)) = []) by (apply curids_of_fresh; exact Hcids).
  constructor; cbn [phase do_call c pre iterating orig pre_left aborting ready taken N closed].
  - discriminate.
  - discriminate.
  - intros E. rewrite E. auto.
  - intros _. repeat split; auto. intros n0 E. rewrite E. reflexivity.
  - intros n0 E. rewrite E. discriminate.
  - intros n0 _ [].
  - intros _ [].
Qed.

Ltac c7 := constructor; unfold exhausted, end_start;
  cbn [phase c pre iterating orig pre_left aborting ready taken N closed set_flags submit_state do_submit
       upd_dispatch do_iter_error in_loop after_start].

Lemma inv3_start_first s b s1 r : Inv123 s -> 1 <= n_jobs (c s) -> 1 <= b -> phase s = StartFirst ->
  dispatch_shape s b false s1 r -> Inv3 (start_first_next s1 r).
Proof.
  intros [[H1 H2] H3] Hnj Hb Hph Hsh.
  destruct H3 as [Hid Hio Hpa Hf HJ Hen Hea].
  destruct (Hf Hph) as (Hcu & Hcl & Hrd & Hpl & Hit & Hor).
  destruct H1 as [Hwf _ Hle _ _].
  pose proof (wf_pre_amount _ Hwf) as Hpa0.
  unfold start_first_next. inversion Hsh; subst.
  - (* aborting *)
    cbn [aborting set_flags]. match goal with H : aborting s1 = true |- _ => rewrite H end.
    c7.
    + discriminate.
    + destruct (pre (c s1)); [discriminate | rewrite Hit; discriminate].
    + intros E. rewrite E. destruct (Hpa E) as (A & B & C). auto.
    + discriminate.
    + intros n0 E _ A. match goal with H : aborting s1 = true |- _ => rewrite H in A end. discriminate.
    + intros n0 E _ _ A. match goal with H : aborting s1 = true |- _ => rewrite H in A end. discriminate.
    + intros E _ A. match goal with H : aborting s1 = true |- _ => rewrite H in A end. discriminate.
  - congruence.
  - (* iterator failure *)
    cbn [aborting set_flags do_iter_error]. c7.
    + discriminate.
    + destruct (pre (c s)); [discriminate | auto].
    + intros E. rewrite E. destruct (Hpa E) as (A & B & C). rewrite C in *. repeat split; auto.
      match goal with H : _ \/ _ |- _ => destruct H as [-> | [g ->]] end; reflexivity.
    + discriminate.
    + intros n0 _ _ A. discriminate A.
    + intros n0 _ _ _ A. discriminate A.
    + intros _ _ A. discriminate A.
  - (* nothing to take *)
    cbn [aborting set_flags]. match goal with H : aborting s1 = false |- _ => rewrite H end.
    assert (Hex : ready s1 = [] /\ taken s1 = N s1).
    { split; [assumption|]. match goal with H : _ \/ _ \/ _ |- _ => destruct H as [A | [[_ A] | A]] end.
      - lia.
      - rewrite Hpl in A. contradiction.
      - nia. }
    c7.
    + discriminate.
    + rewrite Hit. discriminate.
    + intros E. destruct (Hpa E) as (A & B & C). auto.
    + discriminate.
    + intros n0 E A B. exact Hex.
    + intros n0 E _ _ _. exact Hex.
    + intros _ [].
  - (* a slice was dispatched *)
    cbn [aborting set_flags submit_state do_submit upd_dispatch orig iterating].
    match goal with H : aborting s = false |- _ => rewrite H end.
    c7.
    + discriminate.
    + auto.
    + intros E. destruct (Hpa E) as (A & B & C). rewrite A. repeat split; auto.
      match goal with H : false = false -> _ |- _ => destruct (H eq_refl) as [_ ->] end. rewrite C. reflexivity.
    + discriminate.
    + intros n0 E A. rewrite (Hor n0 E) in A. discriminate.
    + intros n0 E _ A. rewrite (Hor n0 E) in A. discriminate.
    + intros _ [].
Qed.

Lemma inv3_start_loop s b s1 r : Inv123 s -> 1 <= n_jobs (c s) -> 1 <= b -> phase s = StartLoop ->
  dispatch_shape s b false s1 r -> Inv3 (start_loop_next s1 r).
Proof.
  intros [[H1 H2] H3] Hnj Hb Hph Hsh.
  destruct H3 as [Hid Hio Hpa Hf HJ Hen Hea].
  destruct H1 as [Hwf _ Hle _ _].
  assert (Hil : in_loop (phase s)) by (rewrite Hph; exact I).
  unfold start_loop_next. inversion Hsh; subst.
  - (* aborting: _start ends *)
    c7.
    + discriminate.
    + destruct (pre (c s1)); [discriminate | exact Hio].
    + intros E. rewrite E. destruct (Hpa E) as (A & B & C). auto.
    + discriminate.
    + intros n0 E _ A. congruence.
    + intros n0 E _ _ A. congruence.
    + intros E _ A. congruence.
  - (* from the look-ahead queue *)
    cbn [aborting submit_state do_submit upd_dispatch].
    match goal with H : aborting s = false |- _ => rewrite H end.
    assert (Hne : ~ (ready s = [] /\ taken s = N s)) by (intros [A _]; congruence).
    c7.
    + rewrite Hph. discriminate.
    + exact Hio.
    + exact Hpa.
    + rewrite Hph. discriminate.
    + intros n0 E A B. exfalso. apply Hne. eapply HJ; eauto.
    + intros n0 E _ A B. exfalso. apply Hne. eapply Hen; eauto.
    + rewrite Hph. intros _ [].
  - (* iterator failure: abort, _start ends *)
    cbn [aborting do_iter_error]. c7.
    + discriminate.
    + destruct (pre (c s)); [discriminate | exact Hio].
    + intros E. rewrite E. destruct (Hpa E) as (A & B & C). rewrite C in *. repeat split; auto.
      match goal with H : _ \/ _ |- _ => destruct H as [-> | [g ->]] end; reflexivity.
    + discriminate.
    + intros n0 _ _ A. discriminate A.
    + intros n0 _ _ _ A. discriminate A.
    + intros _ _ A. discriminate A.
  - (* nothing more to take: _start ends *)
    assert (Hab : aborting s1 = false) by assumption.
    c7.
    + discriminate.
    + destruct (pre (c s1)); [discriminate | exact Hio].
    + intros E. rewrite E. destruct (Hpa E) as (A & B & C). auto.
    + discriminate.
    + exact HJ.
    + intros n0 E _ A B. rewrite E in A. eapply Hen; eauto.
    + intros E _ _. destruct (Hpa E) as (A & B & C). split; [assumption|].
      match goal with H : _ \/ _ \/ _ |- _ => destruct H as [D | [[_ D] | D]] end; [lia | congruence | nia].
  - (* a new slice *)
    cbn [aborting submit_state do_submit upd_dispatch].
    match goal with H : aborting s = false |- _ => rewrite H end.
    assert (Hne : ~ (ready s = [] /\ taken s = N s)) by (intros [_ A]; lia).
    c7.
    + rewrite Hph. discriminate.
    + exact Hio.
    + intros E. destruct (Hpa E) as (A & B & C). repeat split; auto.
      match goal with H : false = false -> _ |- _ => destruct (H eq_refl) as [_ ->] end. rewrite C. reflexivity.
    + rewrite Hph. discriminate.
    + intros n0 E A B. exfalso. apply Hne. eapply HJ; eauto.
    + intros n0 E _ A B. exfalso. apply Hne. eapply Hen; eauto.
    + rewrite Hph. intros _ [].
Qed.

Lemma inv3_cb_dispatch s b s' r : Inv123 s -> 1 <= n_jobs (c s) -> 1 <= b -> orig s = true -> closed s <> [] ->
  dispatch_shape s b true s' r -> Inv3 s'.
Proof.
  intros [[H1 H2] H3] Hnj Hb Ho Hcl Hsh.
  destruct H3 as [Hid Hio Hpa Hf HJ Hen Hea].
  assert (Hnf : phase s <> StartFirst) by (intros E; destruct (Hf E) as (_ & A & _); contradiction).
  assert (Hnpa : pre (c s) <> PreAll) by (intros E; destruct (Hpa E) as (A & _); congruence).
  assert (Hnid : phase s <> Idle) by (intros E; exact (Hnpa (Hid E))).
  inversion Hsh; subst; try (constructor; assumption).
  - cbn [aborting submit_state do_submit upd_dispatch].
    assert (Hne : ~ (ready s = [] /\ taken s = N s)) by (intros [A _]; congruence).
    c7; try contradiction.
    + exact Hio.
    + intros n0 E A. congruence.
    + intros n0 E A B C. exfalso. apply Hne. eapply Hen; eauto.
  - c7; try contradiction.
    + exact Hio.
    + discriminate.
    + discriminate.
  - cbn [aborting submit_state do_submit upd_dispatch].
    assert (Hne : ~ (ready s = [] /\ taken s = N s)) by (intros [_ A]; lia).
    c7; try contradiction.
    + exact Hio.
    + intros n0 E A. congruence.
    + intros n0 E A B C. exfalso. apply Hne. eapply Hen; eauto.
Qed.

Lemma cb_start_fields3 s t o :
  let s' := cb_start s t o in
  c s' = c s /\ N s' = N s /\ iterating s' = iterating s /\ orig s' = orig s /\ pre_left s' = pre_left s /\
  ready s' = ready s /\ taken s' = taken s /\ curids s' = curids s /\ closed s' = closed s /\
  (aborting s' = false -> aborting s = false) /\ phase s' = phase s.
Proof.
  unfold cb_start. destruct (get_trk s t) as [k|] eqn:Hk; [|cbn; repeat split; auto].
  destruct (negb (mem_id t (inflight s))); [cbn; repeat split; auto|].
  destruct (negb (tk_cid k =? cid s) || aborting s); [cbn; repeat split; auto|].
  cbn. repeat split; auto.
  - destruct (tk_status k); try reflexivity.
    unfold curids. cbn [trk cid]. rewrite set_status_eq. apply curids_of_set_status.
  - destruct (tk_status k); [|auto|auto]. intros A. apply orb_false_iff in A. tauto.
Qed.

Lemma inv3_cb_close s t k : Inv3 s -> nth_error (trk s) t = Some k -> tk_cid k = cid s ->
  Inv3 (mark_closed (add_comp s (length (tk_tasks k)) (remove_id t (cbmid s))) t).
Proof.
  intros [Hid Hio Hpa Hf HJ Hen Hea] Hk Hc.
  assert (Hcur : In t (curids s)).
  { apply curids_of_In. unfold cur_of. rewrite Hk. apply Nat.eqb_eq. exact Hc. }
  constructor; cbn [phase c pre iterating orig pre_left aborting ready taken N mark_closed add_comp]; auto.
  intros E. destruct (Hf E) as (A & _). rewrite A in Hcur. destruct Hcur.
Qed.

Lemma inv3_exhaust s : Inv1 s -> Inv3 s -> orig s = true -> closed s <> [] ->
  (aborting s = true \/ (ready s = [] /\ N s <= taken s)) -> Inv3 (set_flags s false false (phase s)).
Proof.
  intros [_ _ Hle _ _] [Hid Hio Hpa Hf HJ Hen Hea] Ho Hcl Hx.
  assert (Hex : aborting s = false -> ready s = [] /\ taken s = N s).
  { intros A. destruct Hx as [B | [B C]]; [congruence | split; [exact B | lia]]. }
  c7.
  - exact Hid.
  - discriminate.
  - intros E. destruct (Hpa E) as (A & B & C). auto.
  - intros E. destruct (Hf E) as (_ & A & _). contradiction.
  - intros n0 E _ A. exact (Hex A).
  - intros n0 E _ _ A. exact (Hex A).
  - exact Hea.
Qed.

Lemma inv123_init : Inv123 init.
Proof.
  (* init *)
    split; [apply reach_inv12; constructor|].
    constructor; cbn; auto; try discriminate; try (intros _ []); try (intros n E; discriminate E).
Qed.

Lemma inv123_call : forall s cf n f, Inv123 s -> wf_cfg cf -> running s = false ->
  (phase s = Idle \/ phase s = Finished) -> Inv123 (do_call s cf n f).
Proof.
  intros s cf n f [H12 H3] Hcf _ _. split; [apply inv12_call; assumption | apply inv3_call; assumption].
Qed.

Lemma inv123_start_first : forall s b s1 r, Inv123 s -> 1 <= n_jobs (c s) -> 1 <= b -> phase s = StartFirst ->
  dispatch_shape s b false s1 r -> Inv123 (start_first_next s1 r).
Proof.
  (* start_first *)
    intros s b s1 r H Hnj Hb Hph Hsh. split; [|eapply inv3_start_first; eassumption].
    destruct H as [H12 _]. pose proof (inv12_dispatch _ _ _ _ _ H12 Hsh) as H12'.
    pose proof (dispatch_shape_phase _ _ _ _ _ Hsh) as Hp1.
    assert (Hr1 : rem_of s1 = []) by (unfold rem_of; rewrite Hp1, Hph; reflexivity).
    unfold start_first_next.
    pose proof (inv12_set_flags s1 (if r then orig s1 else iterating s1) (orig s1) StartLoop H12' (or_introl Hr1) I) as Hsf.
    destruct (aborting _); [|exact Hsf]. apply inv12_end_start; [exact Hsf | reflexivity].
Qed.

Lemma inv123_start_loop : forall s b s1 r, Inv123 s -> 1 <= n_jobs (c s) -> 1 <= b -> phase s = StartLoop ->
  dispatch_shape s b false s1 r -> Inv123 (start_loop_next s1 r).
Proof.
  (* start_loop *)
    intros s b s1 r H Hnj Hb Hph Hsh. split; [|eapply inv3_start_loop; eassumption].
    destruct H as [H12 _]. pose proof (inv12_dispatch _ _ _ _ _ H12 Hsh) as H12'.
    pose proof (dispatch_shape_phase _ _ _ _ _ Hsh) as Hp1.
    assert (Hr1 : rem_of s1 = []) by (unfold rem_of; rewrite Hp1, Hph; reflexivity).
    unfold start_loop_next. destruct r; [destruct (aborting s1)|]; try exact H12'; apply inv12_end_start; assumption.
Qed.

Lemma inv123_cb_dispatch : forall s b s' r, Inv123 s -> 1 <= n_jobs (c s) -> 1 <= b -> orig s = true ->
  closed s <> [] -> dispatch_shape s b true s' r -> Inv123 s'.
Proof.
  (* dispatch from a callback *)
    intros s b s' r H Hnj Hb Ho Hcl Hsh. split; [|eapply inv3_cb_dispatch; eassumption].
    destruct H as [H12 _]. eapply inv12_dispatch; eassumption.
Qed.

Lemma inv123_cb_start : forall s t o, Inv123 s -> Inv123 (cb_start s t o).
Proof.
  (* cb_start *)
    intros s t o [[H1 H2] H3]. split; [split; [apply cb_start_frame1; exact H1 | apply inv2_cb_start; exact H2]|].
    destruct (cb_start_fields3 s t o) as (A1 & A2 & A3 & A4 & A5 & A6 & A7 & A8 & A9 & A10 & A11).
    eapply inv3_mono; try eassumption; rewrite A11; auto.
Qed.

Lemma inv123_cb_close : forall s t k, Inv123 s -> nth_error (trk s) t = Some k -> In t (cbmid s) ->
  tk_cid k = cid s -> Inv123 (mark_closed (add_comp s (length (tk_tasks k)) (remove_id t (cbmid s))) t).
Proof.
  (* cb_close *)
    intros s t k [[H1 H2] H3] Hk Hin Hc.
    split; [split; [revert H1; frame1 | apply inv2_cb_close; assumption] | apply inv3_cb_close; assumption].
Qed.

Lemma inv123_cb_stale : forall s t k, Inv123 s -> nth_error (trk s) t = Some k -> In t (cbmid s) ->
  tk_cid k <> cid s -> Inv123 (add_comp s 0 (remove_id t (cbmid s))).
Proof.
  (* cb_stale *)
    intros s t k [[H1 H2] H3] Hk Hin Hc.
    split; [split; [revert H1; frame1 | eapply inv2_cb_stale; eassumption]|]. mono3.
Qed.

Lemma inv123_exhaust : forall s, Inv123 s -> orig s = true -> closed s <> [] ->
  (aborting s = true \/ (ready s = [] /\ N s <= taken s)) -> Inv123 (set_flags s false false (phase s)).
Proof.
  (* exhaust *)
    intros s [[H1 H2] H3] Ho Hcl Hx.
    split; [apply inv12_set_flags; [split; assumption | right; reflexivity | destruct (phase s); auto]|].
    apply inv3_exhaust; assumption.
Qed.

Lemma inv123_want : forall s, Inv123 s -> Inv123 (set_want s).
Proof.
  (* want *)
    intros s [[H1 H2] H3]. split; [split; [revert H1; frame1|]|mono3].
    unfold set_want. apply inv2_set_out; [exact H2 | apply incl_refl | apply incl_refl |].
    intros r Hr. exists r. split; [exact Hr | apply incl_refl].
Qed.

(* the backend refuses the batch that was just registered: the flags of an aborted call, whatever was dispatched *)
Lemma dispatch_shape_flags s b s1 : dispatch_shape s b false s1 true ->
  c s1 = c s /\ iterating s1 = iterating s /\ orig s1 = orig s /\ (pre_left s = None -> pre_left s1 = None).
Proof.
  intros Hsh. inversion Hsh; subst; cbn; repeat split; auto.
  - intros E. match goal with H : _ \/ _ |- _ => destruct H as [-> | [g ->]] end; rewrite E; reflexivity.
  - intros E. match goal with H : false = false -> _ |- _ => destruct (H eq_refl) as [_ ->] end. rewrite E. reflexivity.
Qed.

Lemma inv3_refuse s b s1 : Inv3 s -> dispatch_shape s b false s1 true -> Inv3 (finalize s1 Finished true true).
Proof.
  intros [Hid Hio Hpa Hf HJ Hen Hea] Hsh.
  destruct (dispatch_shape_flags s b s1 Hsh) as (Ec & Ei & Eo & Epl).
  constructor; cbn [finalize phase c iterating orig pre_left aborting]; rewrite ?orb_true_r; try discriminate.
  - rewrite Ei, Eo. exact Hio.
  - rewrite Ec, Ei, Eo. intros E. destruct (Hpa E) as (A & B & C). auto.
Qed.

Lemma inv123_refuse : forall s b s1, Inv123 s -> 1 <= n_jobs (c s) -> 1 <= b ->
  (phase s = StartFirst \/ phase s = StartLoop) -> dispatch_shape s b false s1 true ->
  Inv123 (finalize s1 Finished true true).
Proof.
  intros s b s1 [H12 H3] Hnj Hb Hph Hsh. split; [|eapply inv3_refuse; eassumption].
  pose proof (inv12_dispatch _ _ _ _ _ H12 Hsh) as [H1' H2'].
  split; [revert H1'; frame1 | apply inv2_finalize; [exact H2' | left; auto]].
Qed.

Lemma inv123_close_try : forall s, Inv123 s -> phase s = Retrieving -> Inv123 (abandon (finalize s Finished true true)).
Proof.
  (* close in the try block *)
    intros s [[H1 H2] H3] Hph. split; [split; [revert H1; frame1 | apply inv2_abandon, inv2_finalize; [exact H2 | left; auto]]|].
    mono3; try discriminate; rewrite ?Hph, ?orb_true_r, ?orb_false_r; cbn; auto; try discriminate.
Qed.

Lemma inv123_close_drain : forall s r, Inv123 s -> phase s = Draining r -> Inv123 (abandon (set_out s (jobs s) (jset s) [] false Finished)).
Proof.
  (* close while draining *)
    intros s r [[H1 H2] H3] Hph. split; [split; [revert H1; frame1|]|].
    + apply inv2_abandon, inv2_set_out; [exact H2 | apply incl_refl | apply incl_refl | discriminate].
    + mono3; try discriminate; rewrite ?Hph, ?orb_true_r, ?orb_false_r; cbn; auto; try discriminate.
Qed.

Lemma inv123_timeout : forall s j, Inv123 s -> want s = true -> timeout_target s = Some j -> status_of s j = Pending ->
  Inv123 (do_timeout s j).
Proof.
  (* timeout *)
    intros s j [[H1 H2] H3] _ Ht _. split; [split; [revert H1; frame1 | apply inv2_timeout; assumption]|].
    eapply inv3_mono; try eassumption; try reflexivity; cbn; auto; try discriminate.
    unfold curids. cbn [trk cid do_timeout]. rewrite set_status_eq. apply curids_of_set_status.
Qed.

Lemma inv123_yield : forall s v r, Inv123 s -> pend_out s = v :: r ->
  Inv123 (deliver (set_out s (jobs s) (jset s) r false (phase s)) v).
Proof.
  (* yield *)
    intros s v r [[H1 H2] H3] _. split; [split; [revert H1; frame1|]|mono3].
    apply inv2_deliver. apply inv2_set_out; [exact H2 | apply incl_refl | apply incl_refl |].
    intros r0 Hr. exists r0. split; [exact Hr | apply incl_refl].
Qed.

Lemma inv123_raise_fast : forall s e, Inv123 s -> phase s = Retrieving -> pend_out s = [] -> aborting s = true ->
  first_failed s = Some e -> Inv123 (finalize s Finished true true).
Proof.
  (* raise fast *)
    intros s e [[H1 H2] H3] Hph _ _ _. split; [split; [revert H1; frame1 | apply inv2_finalize; [exact H2 | left; auto]]|].
    mono3; try discriminate; rewrite ?Hph, ?orb_true_r, ?orb_false_r; cbn; auto; try discriminate.
Qed.

Lemma inv123_loop_exit : forall s, Inv123 s -> phase s = Retrieving -> pend_out s = [] ->
  (aborting s = true /\ first_failed s = None \/
   aborting s = false /\ iterating s = false /\ n_disp s <= n_comp s) ->
  Inv123 (finalize s (Draining (if exception s then [] else jobs s)) (exception s) false).
Proof.
  (* loop exit *)
    intros s [[H1 H2] H3] Hph _ _. split; [split; [revert H1; frame1 | apply inv2_finalize; [exact H2 | right; auto]]|].
    mono3; try discriminate; rewrite ?Hph; auto. rewrite orb_false_r. auto.
Qed.

Lemma inv123_pop_done : forall s j js, Inv123 s -> phase s = Retrieving -> pend_out s = [] -> aborting s = false ->
  jobs s = j :: js -> status_of s j = Done ->
  Inv123 (set_out s js (remove_id j (jset s)) (tasks_of s j) true Retrieving).
Proof.
  (* pop done *)
    intros s j js [[H1 H2] H3] Hph _ _ Hj _. split; [split; [revert H1; frame1|]|].
    + apply inv2_set_out; [exact H2 | rewrite Hj; apply incl_tl, incl_refl | apply incl_remove_id | discriminate].
    + mono3; try discriminate; rewrite ?Hph, ?orb_true_r, ?orb_false_r; cbn; auto; try discriminate.
Qed.

Lemma inv123_pop_failed : forall s j js e, Inv123 s -> phase s = Retrieving -> pend_out s = [] -> aborting s = false ->
  jobs s = j :: js -> status_of s j = Failed e ->
  Inv123 (finalize (set_out s js (remove_id j (jset s)) [] true Retrieving) Finished true true).
Proof.
  (* pop failed *)
    intros s j js e [[H1 H2] H3] Hph _ _ Hj _. split; [split; [revert H1; frame1|]|].
    + apply inv2_finalize; [|left; auto].
      apply inv2_set_out; [exact H2 | rewrite Hj; apply incl_tl, incl_refl | apply incl_remove_id | discriminate].
    + mono3; try discriminate; rewrite ?Hph, ?orb_true_r, ?orb_false_r; cbn; auto; try discriminate.
Qed.

Lemma inv123_drain_end : forall s, Inv123 s -> phase s = Draining [] -> pend_out s = [] ->
  Inv123 (set_out s (jobs s) (jset s) [] false Finished).
Proof.
  (* drain end *)
    intros s [[H1 H2] H3] Hph _. split; [split; [revert H1; frame1|]|].
    + apply inv2_set_out; [exact H2 | apply incl_refl | apply incl_refl | discriminate].
    + mono3; try discriminate; rewrite ?Hph, ?orb_true_r, ?orb_false_r; cbn; auto; try discriminate.
Qed.

Lemma inv123_drain_pop : forall s j js, Inv123 s -> phase s = Draining (j :: js) -> pend_out s = [] ->
  status_of s j = Done -> Inv123 (set_out s (jobs s) (jset s) (tasks_of s j) true (Draining js)).
Proof.
  (* drain pop *)
    intros s j js [[H1 H2] H3] Hph _ _. split; [split; [revert H1; frame1|]|].
    + apply inv2_set_out; [exact H2 | apply incl_refl | apply incl_refl |].
      intros r Hr. injection Hr as <-. exists (j :: js). split; [exact Hph | apply incl_tl, incl_refl].
    + mono3; try discriminate; rewrite ?Hph, ?orb_true_r, ?orb_false_r; cbn; auto; try discriminate.
Qed.

Lemma inv123_drain_bad : forall s j js, Inv123 s -> phase s = Draining (j :: js) -> pend_out s = [] ->
  status_of s j <> Done -> Inv123 (set_out s (jobs s) (jset s) [] false Finished).
Proof.
  (* drain bad *)
    intros s j js [[H1 H2] H3] Hph _ _. split; [split; [revert H1; frame1|]|].
    + apply inv2_set_out; [exact H2 | apply incl_refl | apply incl_refl | discriminate].
    + mono3; try discriminate; rewrite ?Hph, ?orb_true_r, ?orb_false_r; cbn; auto; try discriminate.
Qed.

Lemma inv123_wf : forall s, Inv123 s -> 1 <= n_jobs (c s).
Proof.
  intros s [[[[Hn _] _ _ _ _] _] _]. exact Hn.
Qed.

Theorem reach_inv123 : forall s, reach s -> Inv123 s.
Proof.
  apply (ParallelFrame2.P_reach Inv123).
  - exact inv123_init.
  - exact inv123_call.
  - exact inv123_start_first.
  - exact inv123_start_loop.
  - exact inv123_cb_dispatch.
  - exact inv123_cb_start.
  - exact inv123_cb_close.
  - exact inv123_cb_stale.
  - exact inv123_exhaust.
  - exact inv123_want.
  - exact inv123_close_try.
  - intros s b s1 H Hnj Hb Hph Hsh. eapply inv123_refuse; eauto.
  - intros s b s1 H Hnj Hb Hph Hsh. eapply inv123_refuse; eauto.
  - exact inv123_close_drain.
  - exact inv123_timeout.
  - exact inv123_yield.
  - exact inv123_raise_fast.
  - exact inv123_loop_exit.
  - exact inv123_pop_done.
  - exact inv123_pop_failed.
  - exact inv123_drain_end.
  - exact inv123_drain_pop.
  - exact inv123_drain_bad.
  - exact inv123_wf.
Qed.
