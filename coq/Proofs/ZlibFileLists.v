(* List facts (Z-indexed firstn/skipn, Python slices) used by the proofs about Model/ZlibFile.v *)
From Coq Require Import ZArith List Bool Lia ZifyBool.
Require Import JV.Base.PyPrelude JV.Model.ZlibFile.
Import ListNotations.
Open Scope Z_scope.

Lemma zl_len_nil {A} : len (@nil A) = 0. Proof. reflexivity. Qed.
Lemma zl_len_cons {A} (x : A) l : len (x :: l) = 1 + len l.
Proof. unfold len. cbn [length]. lia. Qed.
Lemma zl_len_app {A} (a b : list A) : len (a ++ b) = len a + len b.
Proof. unfold len. rewrite app_length. lia. Qed.
Lemma zl_len_nonneg {A} (l : list A) : 0 <= len l. Proof. unfold len. lia. Qed.
Lemma zl_len_zero {A} (l : list A) : len l = 0 -> l = [].
Proof. destruct l; [reflexivity|]. rewrite zl_len_cons. pose proof (zl_len_nonneg l). lia. Qed.
Lemma zl_len_pos {A} (l : list A) : l <> [] -> 0 < len l.
Proof. destruct l; [congruence|]. intros _. rewrite zl_len_cons. pose proof (zl_len_nonneg l). lia. Qed.

Lemma zskipn_0 {A} (l : list A) : zskipn 0 l = l. Proof. reflexivity. Qed.
Lemma zfirstn_0 {A} (l : list A) : zfirstn 0 l = []. Proof. reflexivity. Qed.
Lemma zskipn_nil {A} n : zskipn n (@nil A) = [].
Proof. unfold zskipn. apply skipn_nil. Qed.
Lemma zfirstn_nil {A} n : zfirstn n (@nil A) = [].
Proof. unfold zfirstn. apply firstn_nil. Qed.
Lemma zskipn_neg {A} n (l : list A) : n <= 0 -> zskipn n l = l.
Proof. intros H. unfold zskipn. replace (Z.to_nat n) with O by lia. reflexivity. Qed.
Lemma zfirstn_neg {A} n (l : list A) : n <= 0 -> zfirstn n l = [].
Proof. intros H. unfold zfirstn. replace (Z.to_nat n) with O by lia. reflexivity. Qed.
Lemma zskipn_all {A} n (l : list A) : len l <= n -> zskipn n l = [].
Proof. intros H. unfold zskipn, len in *. apply skipn_all2. lia. Qed.
Lemma zfirstn_all {A} n (l : list A) : len l <= n -> zfirstn n l = l.
Proof. intros H. unfold zfirstn, len in *. apply firstn_all2. lia. Qed.

Lemma len_zfirstn {A} n (l : list A) : 0 <= n -> len (zfirstn n l) = Z.min n (len l).
Proof. intros H. unfold zfirstn, len. rewrite firstn_length. lia. Qed.
Lemma len_zskipn {A} n (l : list A) : 0 <= n -> len (zskipn n l) = Z.max 0 (len l - n).
Proof. intros H. unfold zskipn, len. rewrite skipn_length. lia. Qed.

Lemma skipn_skipn_nat {A} (a b : nat) (l : list A) : skipn a (skipn b l) = skipn (b + a) l.
Proof.
  revert l. induction b as [|b IH]; intros l; [reflexivity|].
  destruct l as [|x l]; [rewrite !skipn_nil; reflexivity|]. cbn [skipn Nat.add]. apply IH.
Qed.
Lemma zskipn_zskipn {A} a b (l : list A) : 0 <= a -> 0 <= b -> zskipn a (zskipn b l) = zskipn (b + a) l.
Proof.
  intros Ha Hb. unfold zskipn. rewrite skipn_skipn_nat. f_equal. lia.
Qed.

Lemma zfirstn_app {A} n (a b : list A) :
  zfirstn n (a ++ b) = zfirstn n a ++ zfirstn (n - len a) b.
Proof.
  unfold zfirstn, len. rewrite firstn_app. f_equal. f_equal. lia.
Qed.
Lemma zskipn_app {A} n (a b : list A) :
  zskipn n (a ++ b) = zskipn n a ++ zskipn (n - len a) b.
Proof.
  unfold zskipn, len. rewrite skipn_app. f_equal. f_equal. lia.
Qed.
Lemma zfirstn_zskipn {A} n (l : list A) : zfirstn n l ++ zskipn n l = l.
Proof. unfold zfirstn, zskipn. apply firstn_skipn. Qed.

(* Python slices with in-range indices *)
Lemma norm_idx_in n i : 0 <= i <= n -> norm_idx n i = i.
Proof. intros H. unfold norm_idx. destruct (i <? 0) eqn:E; lia. Qed.
Lemma py_from_in {A} (l : list A) a : 0 <= a <= len l -> py_from l a = zskipn a l.
Proof. intros H. unfold py_from. rewrite norm_idx_in by lia. reflexivity. Qed.
Lemma py_upto_in {A} (l : list A) e : 0 <= e <= len l -> py_upto l e = zfirstn e l.
Proof. intros H. unfold py_upto. rewrite norm_idx_in by lia. reflexivity. Qed.
Lemma py_slice_in {A} (l : list A) a e :
  0 <= a -> a <= e -> e <= len l -> py_slice l a e = zfirstn (e - a) (zskipn a l).
Proof. intros H1 H2 H3. unfold py_slice. cbv zeta. rewrite !norm_idx_in by lia. reflexivity. Qed.

Lemma concat_snoc {A} (l : list (list A)) x : concat (l ++ [x]) = concat l ++ x.
Proof. rewrite concat_app. cbn [concat]. rewrite app_nil_r. reflexivity. Qed.

(* is_prefix *)
Lemma is_prefix_app p l : is_prefix p (p ++ l) = true.
Proof. induction p as [|x p IH]; [reflexivity|]. cbn [is_prefix app]. rewrite IH, Z.eqb_refl. reflexivity. Qed.
Lemma is_prefix_spec p l : is_prefix p l = true <-> exists r, l = p ++ r.
Proof.
  split.
  - revert l. induction p as [|x p IH]; intros l H; [exists l; reflexivity|].
    destruct l as [|y l]; cbn [is_prefix] in H; [discriminate|].
    apply andb_true_iff in H. destruct H as [H1 H2]. apply Z.eqb_eq in H1. subst y.
    destruct (IH _ H2) as [r ->]. exists r. reflexivity.
  - intros [r ->]. apply is_prefix_app.
Qed.
Lemma is_prefix_refl p : is_prefix p p = true.
Proof. apply is_prefix_spec. exists []. rewrite app_nil_r. reflexivity. Qed.
