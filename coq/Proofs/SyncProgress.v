(* M1s proofs, part 5: progress -- a caller of a sync-retrieval backend that is left waiting (not blocked
   in retrieve_result, nothing returned, nothing raised) waits for a completion callback that is really
   due: a batch of the current call is in flight. *)
From Coq Require Import List Bool Arith Lia PeanoNat.
Require Import JV.Model.ParallelCore JV.Model.ParallelSync JV.Proofs.ParallelLemmas JV.Proofs.ParallelInv1
               JV.Proofs.ParallelTrk JV.Proofs.ParallelInv2 JV.Proofs.ParallelFrame2 JV.Proofs.ParallelInv3
               JV.Proofs.ParallelInv4 JV.Proofs.ParallelInv5 JV.Proofs.ParallelFrame3 JV.Proofs.ParallelInv6
               JV.Proofs.SyncFrame JV.Proofs.SyncInv JV.Proofs.SyncOut.
Import ListNotations.

Definition SIO6 (s : st) (k : option nat) : Prop := SIO s k /\ Inv6 s.

Lemma sio_inv2 s k : SIO s k -> Inv2 s.
Proof. intros [[[[_ H2] _] _ _ _] _]. exact H2. Qed.
Lemma sio_inv3 s k : SIO s k -> Inv3 s.
Proof. intros [[[_ H3] _ _ _] _]. exact H3. Qed.

Lemma s6_init : SIO6 init None.
Proof. split; [exact sio_init | apply inv6_off; reflexivity]. Qed.

Lemma s6_call : forall s k cf n f, SIO6 s k -> wf_cfg cf -> running s = false ->
  (phase s = Idle \/ phase s = Finished) -> SIO6 (do_call s (list_cfg cf) n f) None.
Proof. intros s k cf n f [H _] A B C. split; [eapply sio_call; eauto | apply inv6_off; reflexivity]. Qed.

Lemma s6_start_first : forall s b s1 r, SIO6 s None -> 1 <= n_jobs (c s) -> 1 <= b -> phase s = StartFirst ->
  dispatch_shape s b false s1 r -> SIO6 (ParallelFrame2.start_first_next s1 r) None.
Proof.
  intros s b s1 r [H H6] Hnj Hb Hph Hsh. split; [eapply sio_start_first; eassumption|].
  pose proof (sio_inv2 _ _ H) as H2. pose proof (sio_inv3 _ _ H) as H3.
  destruct (k_first s H3 Hph) as (_ & _ & _ & _ & Hit & _).
  unfold ParallelFrame2.start_first_next.
  destruct r.
  - pose proof (inv6_after_dispatch _ _ _ _ _ H2 Hsh eq_refl) as H6'.
    assert (Hf : Inv6 (set_flags s1 (orig s1) (orig s1) StartLoop)).
    { destruct H6' as [Q]. constructor. cbn. intros _ A _. inversion Hsh; subst.
      - apply opens_submit_nonempty. exact H2.
      - discriminate A.
      - apply opens_submit_nonempty. exact H2. }
    destruct (aborting _) eqn:Hab; [apply inv6_aborting; exact Hab | exact Hf].
  - assert (Hit1 : iterating s1 = false) by (inversion Hsh; subst; exact Hit).
    destruct (aborting _); apply inv6_off; cbn; rewrite ?Hit1; try reflexivity; destruct (pre (c s1)); auto.
Qed.

Lemma s6_start_loop : forall s b s1 r, SIO6 s None -> 1 <= n_jobs (c s) -> 1 <= b -> phase s = StartLoop ->
  dispatch_shape s b false s1 r -> SIO6 (ParallelFrame2.start_loop_next s1 r) None.
Proof.
  intros s b s1 r [H H6] Hnj Hb Hph Hsh. split; [eapply sio_start_loop; eassumption|].
  pose proof (sio_inv2 _ _ H) as H2.
  unfold ParallelFrame2.start_loop_next. destruct r.
  - pose proof (inv6_after_dispatch _ _ _ _ _ H2 Hsh eq_refl) as H6'.
    destruct (aborting s1) eqn:Hab; [apply inv6_aborting; exact Hab | exact H6'].
  - inversion Hsh; subst.
    + apply inv6_aborting. assumption.
    + unfold end_start. destruct H6 as [Q]. constructor. cbn. intros A B _.
      apply Q; [|exact B | left; exact Hph]. destruct (pre (c s1)); [discriminate A | exact A].
Qed.

Lemma s6_cb_ghost : forall s k t tk, SIO6 s k -> nth_error (trk s) t = Some tk -> In t (inflight s) ->
  tk_cid tk = cid s -> aborting s = false -> SIO6 (cb_start s t None) k.
Proof.
  intros s k t tk [H H6] Hk Hin Hc Hab. split; [eapply sio_cb_ghost; eauto|].
  destruct (cb_start_fields3 s t None) as (A1 & A2 & A3 & A4 & A5 & A6 & A7 & A8 & A9 & A10 & A11).
  destruct H6 as [Q]. constructor. unfold opens in *. intros A B C.
  assert (E : opens_of (trk (cb_start s t None)) (cid (cb_start s t None)) (closed (cb_start s t None)) =
              opens_of (trk s) (cid s) (closed s)).
  { unfold opens_of. rewrite A9. unfold curids in A8. rewrite A8. reflexivity. }
  rewrite E. apply Q; [rewrite <- A3; exact A | apply A10; exact B | rewrite <- A11; exact C].
Qed.

Lemma s6_cb_move : forall s k t tk, SIO6 s k -> nth_error (trk s) t = Some tk -> In t (inflight s) ->
  (tk_cid tk <> cid s \/ aborting s = true) -> SIO6 (move_mid s t) k.
Proof. intros s k t tk [H H6] Hk Hin Hc. split; [eapply sio_cb_move; eauto | same6]. Qed.

Lemma s6_cb_finish_noorig : forall s k t tk, SIO6 s k -> nth_error (trk s) t = Some tk -> In t (cbmid s) ->
  tk_cid tk = cid s -> orig s = false -> SIO6 (closed_state s t tk) k.
Proof.
  intros s k t tk [H H6] Hk Hin Hc Ho. split; [apply sio_cb_close; assumption|].
  pose proof (sio_inv3 _ _ H) as H3. apply inv6_off. cbn.
  destruct (iterating s) eqn:E; [|reflexivity]. rewrite (k_iter_orig s H3 E) in Ho. discriminate.
Qed.

Lemma s6_cb_finish_orig : forall s k t tk b s2 r, SIO6 s k -> 1 <= n_jobs (c s) -> 1 <= b ->
  nth_error (trk s) t = Some tk -> In t (cbmid s) -> tk_cid tk = cid s -> orig s = true ->
  dispatch_shape (closed_state s t tk) b true s2 r ->
  SIO6 (if r then s2 else set_flags s2 false false (phase s2)) k.
Proof.
  intros s k t tk b s2 r [H H6] Hnj Hb Hk Hin Hc Ho Hsh.
  split.
  - exact (comb_orig SIO sio_dispatch sio_cb_close sio_exhaust s k t tk b s2 r H Hnj Hb Hk Hin Hc Ho Hsh).
  - destruct r.
    + eapply inv6_after_dispatch; [|exact Hsh | reflexivity].
      pose proof (sio_cb_close s k t tk H Hk Hin Hc) as H1. exact (sio_inv2 _ _ H1).
    + apply inv6_off. reflexivity.
Qed.

Lemma s6_cb_stale : forall s k t tk, SIO6 s k -> nth_error (trk s) t = Some tk -> In t (cbmid s) ->
  tk_cid tk <> cid s -> SIO6 (add_comp s 0 (remove_id t (cbmid s))) k.
Proof. intros s k t tk [H H6] Hk Hin Hc. split; [eapply sio_cb_stale; eauto | same6]. Qed.

Lemma s6_raise_fast : forall s e, SIO6 s None -> phase s = Retrieving -> aborting s = true ->
  first_failed s = Some e -> SIO6 (finalize s Finished true true) None.
Proof.
  intros s e [H H6] A B C. split; [eapply sio_raise_fast; eauto|].
  apply inv6_phase. cbn. intros [X | X]; discriminate X.
Qed.

Lemma s6_loop_exit : forall s, SIO6 s None -> phase s = Retrieving ->
  (aborting s = true /\ first_failed s = None \/
   aborting s = false /\ jobs s = [] /\ iterating s = false /\ n_disp s <= n_comp s) ->
  SIO6 (loop_exit s) None.
Proof.
  intros s [H H6] A B. split; [apply sio_loop_exit; assumption|].
  apply inv6_phase. cbn. intros [X | X]; discriminate X.
Qed.

Lemma s6_pop : forall s j js, SIO6 s None -> phase s = Retrieving -> aborting s = false -> jobs s = j :: js ->
  SIO6 (set_out s js (jset s) [] false Retrieving) (Some j).
Proof.
  intros s j js [H H6] A B C. split; [eapply sio_pop; eauto|].
  same6.
Qed.

Lemma s6_drain_end : forall s, SIO6 s None -> phase s = Draining [] ->
  SIO6 (set_out s (jobs s) (jset s) [] false Finished) None.
Proof.
  intros s [H H6] A. split; [apply sio_drain_end; assumption|].
  apply inv6_phase. cbn. intros [X | X]; discriminate X.
Qed.

Lemma s6_drain_pop : forall s j js, SIO6 s None -> phase s = Draining (j :: js) ->
  SIO6 (set_out s (jobs s) (jset s) [] false (Draining js)) (Some j).
Proof.
  intros s j js [H H6] A. split; [eapply sio_drain_pop; eauto|].
  apply inv6_phase. cbn. intros [X | X]; discriminate X.
Qed.

Lemma s6_result_ok : forall s j, SIO6 s (Some j) -> SIO6 (deliver_list s (tasks_of s j)) None.
Proof. intros s j [H H6]. split; [apply sio_result_ok; exact H | same6]. Qed.

Lemma s6_result_fail : forall s j, SIO6 s (Some j) -> SIO6 (finalize s Finished true true) None.
Proof.
  intros s j [H H6]. split; [eapply sio_result_fail; eauto|].
  apply inv6_phase. cbn. intros [X | X]; discriminate X.
Qed.

Lemma s6_wf : forall s k, SIO6 s k -> 1 <= n_jobs (c s).
Proof. intros s k [H _]. eapply sio_wf; eauto. Qed.

Theorem sreach_SIO6 : forall s, sreach s -> SIO6 (base s) (blk s).
Proof.
  exact (PS_reach3 SIO6 s6_init s6_call s6_start_first s6_start_loop s6_cb_ghost s6_cb_move s6_cb_finish_noorig
           s6_cb_finish_orig s6_cb_stale s6_raise_fast s6_loop_exit s6_pop s6_drain_end s6_drain_pop
           s6_result_ok s6_result_fail s6_wf).
Qed.

(* ---------------- C04 (sync): no hang ---------------- *)
(* Whenever the caller's loop can neither return, raise nor block on a job -- it polls --, the call is not
   aborting and a batch of THIS call is in flight (its completion callback has not run its locked section
   yet), so the state changes as soon as the backend honours its contract. *)
Theorem sync_waiting_means_work_in_flight s : sreach s -> blk s = None -> phase (base s) = Retrieving ->
  snd (adv_s (base s)) = None -> blk (fst (adv_s (base s))) = None ->
  aborting (base s) = false /\ jobs (base s) = [] /\
  exists t, is_cur (base s) t = true /\ (In t (inflight (base s)) \/ In t (cbmid (base s))).
Proof.
  intros Hr Hb Hp Hnone Hblk. destruct (sreach_SIO6 s Hr) as [H [H6]].
  pose proof (sio_inv2 _ _ H) as H2. destruct H as [_ HY].
  set (b := base s) in *.
  unfold adv_s in Hnone, Hblk. rewrite Hp in Hnone, Hblk.
  assert (Hdrain : forall x r, phase x = Draining r -> snd (drain_s x) = None -> blk (fst (drain_s x)) = None -> False).
  { intros x r Hpx A B. unfold drain_s in A, B. rewrite Hpx in A, B.
    destruct r; [discriminate A | discriminate B]. }
  destruct (aborting b) eqn:Hab.
  { exfalso. destruct (first_failed b); [discriminate Hnone|].
    apply (Hdrain (loop_exit b) _ eq_refl); [exact Hnone | exact Hblk]. }
  destruct (jobs b) as [|j js] eqn:Hj; [|discriminate Hblk].
  split; [reflexivity|]. split; [reflexivity|].
  assert (Hx : exception b = false).
  { destruct (exception b) eqn:E; [|reflexivity]. pose proof (y_exc_ab _ _ HY E). congruence. }
  assert (Hwit : opens b <> [] -> exists t, is_cur b t = true /\ (In t (inflight b) \/ In t (cbmid b))).
  { intros Hne. destruct (opens b) as [|t l] eqn:Ho; [contradiction|].
    assert (Hin : In t (opens b)) by (rewrite Ho; left; reflexivity).
    exists t. split; [apply opens_of_In in Hin; tauto | exact (j_open_where b H2 Hx t Hin)]. }
  destruct (iterating b) eqn:Hit; cbn [orb] in Hnone, Hblk.
  - apply Hwit. apply H6; auto.
  - destruct (n_comp b <? n_disp b) eqn:Hlt.
    + apply Nat.ltb_lt in Hlt. apply Hwit. intros Ho. pose proof (j_cnt b H2) as Hc. rewrite Ho in Hc. cbn in Hc. lia.
    + exfalso. apply (Hdrain (loop_exit b) _ eq_refl); [exact Hnone | exact Hblk].
Qed.

(* ---------------- between two events no completion callback is inside its locked section ---------------- *)
Lemma dispatch_shape_cbmid s b fo s' r : dispatch_shape s b fo s' r -> cbmid s' = cbmid s.
Proof. intros H. inversion H; subst; reflexivity. Qed.

Lemma adv_s_cbmid b : cbmid (base (fst (adv_s b))) = cbmid b.
Proof.
  assert (Hd : forall x, cbmid (base (fst (drain_s x))) = cbmid x).
  { intros x. unfold drain_s. destruct (phase x) as [ | | | |rem| ]; try reflexivity. destruct rem; reflexivity. }
  unfold adv_s. destruct (phase b) as [ | | | |rem| ]; try reflexivity.
  - destruct (aborting b).
    + destruct (first_failed b); [reflexivity|]. apply (Hd (loop_exit b)).
    + destruct (jobs b); [|reflexivity].
      destruct (iterating b || (n_comp b <? n_disp b)); [reflexivity|]. apply (Hd (loop_exit b)).
  - apply Hd.
Qed.

Lemma remove_id_snoc t : remove_id t ([] ++ [t]) = [].
Proof. unfold remove_id. cbn. rewrite Nat.eqb_refl. reflexivity. Qed.

Lemma cb_sync_cbmid s t b : 1 <= n_jobs (c s) -> 1 <= b -> cbmid s = [] -> cbmid (cb_sync s t b) = [].
Proof.
  intros Hnj Hb Hm. unfold cb_sync.
  destruct (get_trk s t) as [tk|] eqn:Hk; [|exact Hm].
  destruct (mem_id t (inflight s)) eqn:Hin; [|exact Hm].
  (* after cb_enter the tracker table has an entry for t with the same call id, and cbmid = [t] *)
  assert (He : exists tk', get_trk (cb_enter s t) t = Some tk' /\ tk_cid tk' = tk_cid tk /\ cbmid (cb_enter s t) = [t] /\
                           cid (cb_enter s t) = cid s /\ c (cb_enter s t) = c s).
  { unfold cb_enter. rewrite Hk.
    destruct (negb (tk_cid tk =? cid s) || aborting s) eqn:Hd.
    - exists tk. cbn. rewrite Hm. repeat split; auto.
    - unfold cb_start. rewrite Hk, Hin. cbn [negb]. rewrite Hd.
      destruct (tk_status tk) eqn:Hst; cbn [get_trk trk cbmid cid c]; rewrite ?Hm.
      + unfold set_status. rewrite Hk. unfold get_trk in Hk.
        exists {| tk_cid := tk_cid tk; tk_tasks := tk_tasks tk; tk_status := Done |}.
        repeat split; auto. unfold get_trk. cbn [trk].
        assert (Hlt : t < length (trk s)) by (apply nth_error_Some; congruence).
        clear -Hlt. revert t Hlt. induction (trk s) as [|h l IH]; intros t Hlt; [cbn in Hlt; lia|].
        destruct t; [reflexivity|]. cbn. apply IH. cbn in Hlt. lia.
      + exists tk. repeat split; auto.
      + exists tk. repeat split; auto. }
  destruct He as (tk' & Hk' & Hc' & Hm' & Hcid' & Hcfg').
  unfold cb_finish. rewrite Hk', Hm'. cbn [mem_id existsb]. rewrite Nat.eqb_refl. cbn [orb negb].
  assert (Hrm : remove_id t [t] = []) by (unfold remove_id; cbn; rewrite Nat.eqb_refl; reflexivity).
  rewrite Hrm.
  destruct (negb (tk_cid tk' =? cid (cb_enter s t))); cbn [andb]; [reflexivity|].
  set (s1 := mark_closed (add_comp (cb_enter s t) (length (tk_tasks tk')) []) t).
  assert (Hm1 : cbmid s1 = []) by reflexivity.
  destruct (orig s1); [|exact Hm1].
  assert (Hnj1 : 1 <= n_jobs (c s1)) by (unfold s1; cbn [c mark_closed add_comp]; rewrite Hcfg'; exact Hnj).
  pose proof (dispatch_one_batch_shape s1 b true Hnj1 Hb) as Hsh.
  destruct (dispatch_one_batch s1 b true) as [s2 r]. cbn [fst snd] in Hsh.
  pose proof (dispatch_shape_cbmid _ _ _ _ _ Hsh) as E.
  destruct r; cbn [cbmid set_flags]; congruence.
Qed.

Theorem sreach_cbmid : forall s, sreach s -> cbmid (base s) = [].
Proof.
  induction 1 as [|s e Hr IH Hwf]; [reflexivity|].
  pose proof (sio_wf _ _ (sreach_SIO s Hr)) as Hnj.
  destruct s as [b k]. cbn [base blk] in *.
  destruct e as [cf n f|bs|t bs|o]; cbn [sstep base blk].
  - destruct (running b); [exact IH|]. destruct (phase b); cbn [fst base]; exact IH.
  - cbn [wf_sev] in Hwf. destruct k as [j|]; [destruct (phase b); exact IH|].
    destruct (phase b) eqn:Hph; try exact IH; rewrite fst_lift, adv_s_cbmid.
    + rewrite step_raw_dispatch_first by exact Hph.
      pose proof (dispatch_one_batch_shape b bs false Hnj Hwf) as Hsh.
      rewrite <- IH, <- (dispatch_shape_cbmid _ _ _ _ _ Hsh).
      unfold ParallelFrame2.start_first_next. cbn zeta. destruct (aborting _); reflexivity.
    + rewrite step_raw_dispatch_loop by exact Hph.
      pose proof (dispatch_one_batch_shape b bs false Hnj Hwf) as Hsh.
      rewrite <- IH, <- (dispatch_shape_cbmid _ _ _ _ _ Hsh).
      unfold ParallelFrame2.start_loop_next. destruct (snd _); [destruct (aborting _)|]; reflexivity.
  - cbn [wf_sev] in Hwf. pose proof (cb_sync_cbmid b t bs Hnj Hwf IH) as H1.
    destruct k as [j|]; [exact H1|]. rewrite fst_lift, adv_s_cbmid. exact H1.
  - destruct k as [j|]; [|exact IH].
    destruct o as [e|]; [exact IH|]. rewrite fst_lift, adv_s_cbmid. exact IH.
Qed.

(* the polling caller waits for a callback that is due *)
Corollary sync_waiting_means_callback_due s : sreach s -> blk s = None -> phase (base s) = Retrieving ->
  snd (adv_s (base s)) = None -> blk (fst (adv_s (base s))) = None ->
  aborting (base s) = false /\ exists t, is_cur (base s) t = true /\ In t (inflight (base s)).
Proof.
  intros Hr A B C D. destruct (sync_waiting_means_work_in_flight s Hr A B C D) as (E & _ & t & Ht & [F | F]).
  - split; [exact E|]. exists t. split; assumption.
  - rewrite (sreach_cbmid s Hr) in F. destruct F.
Qed.

(* ---------------- the termination variant of M1 (Proofs/ParallelProgress.v) in the sync model ---------------- *)
Require Import JV.Proofs.ParallelProgress.

Lemma mu_adv_s b : mu (base (fst (adv_s b))) <= mu b.
Proof.
  assert (Hfin : forall x ph exc ab, mu (finalize x ph exc ab) <= mu x).
  { intros x ph exc ab. unfold mu, todo. cbn [aborting N taken ready inflight cbmid finalize].
    destruct (aborting x); cbn [orb]; [lia|]. destruct ab; lia. }
  assert (Hd : forall x, mu (base (fst (drain_s x))) <= mu x).
  { intros x. unfold drain_s. destruct (phase x) as [ | | | |rem| ]; cbn [fst base]; try lia.
    destruct rem; cbn [fst base]; unfold mu, todo; cbn; lia. }
  unfold adv_s. destruct (phase b) as [ | | | |rem| ]; cbn [fst base]; try lia.
  - destruct (aborting b) eqn:Hab.
    + destruct (first_failed b); cbn [fst base]; [apply Hfin|].
      pose proof (Hd (loop_exit b)). pose proof (Hfin b (Draining (if exception b then [] else jobs b)) (exception b) false).
      unfold loop_exit in *. lia.
    + destruct (jobs b); cbn [fst base]; [|unfold mu, todo; cbn; lia].
      destruct (iterating b || (n_comp b <? n_disp b)); cbn [fst base]; [lia|].
      pose proof (Hd (loop_exit b)). pose proof (Hfin b (Draining (if exception b then [] else jobs b)) (exception b) false).
      unfold loop_exit in *. lia.
  - apply Hd.
Qed.

Lemma mu_cb_enter s t k : Inv2 s -> get_trk s t = Some k -> In t (inflight s) ->
  mu (cb_enter s t) < mu s /\ In t (cbmid (cb_enter s t)) /\ get_trk (cb_enter s t) t <> None.
Proof.
  intros H2 Hk Hin. unfold cb_enter. rewrite Hk.
  pose proof (length_remove_id_in t (inflight s) (j_nd_infl s H2) Hin) as Hlen.
  destruct (negb (tk_cid k =? cid s) || aborting s) eqn:Hd.
  - split; [|split].
    + unfold mu, todo. cbn [aborting N taken ready inflight cbmid move_mid]. rewrite app_length. cbn [length]. lia.
    + cbn. apply in_or_app. right. left. reflexivity.
    + unfold get_trk. cbn [trk move_mid]. unfold get_trk in Hk. congruence.
  - split; [apply (mu_cb_start_strict s t None k H2 Hk Hin)|].
    apply orb_false_iff in Hd as [Hcur Hab].
    unfold cb_start. rewrite Hk. assert (Hm : mem_id t (inflight s) = true) by (apply mem_id_In; exact Hin).
    rewrite Hm. cbn [negb]. rewrite Hcur, Hab. cbn [orb].
    split.
    + cbn [cbmid]. apply in_or_app. right. left. reflexivity.
    + unfold get_trk. cbn [trk]. destruct (tk_status k); cbn [orb].
      * rewrite set_status_eq. intros E. apply nth_error_None in E. rewrite set_status_in_length in E.
        unfold get_trk in Hk. assert (t < length (trk s)) by (apply nth_error_Some; congruence). lia.
      * unfold get_trk in Hk. congruence.
      * unfold get_trk in Hk. congruence.
Qed.

(* a completion callback of an in-flight batch strictly decreases mu; every other event leaves it or decreases it *)
Theorem sync_mu_callback_decreases s t b : sreach s -> 1 <= b -> t < length (trk (base s)) ->
  In t (inflight (base s)) -> mu (base (fst (sstep s (SCb t b)))) < mu (base s).
Proof.
  intros Hr Hb Hlt Hin. pose proof (sreach_SIO6 s Hr) as [H _].
  pose proof (sio_inv2 _ _ H) as H2. pose proof (sio_wf _ _ H) as Hnj.
  destruct H as [[[[H1 _] _] _ _ _] _].
  destruct s as [bs k]. cbn [base blk] in *.
  destruct (get_trk bs t) as [tk|] eqn:Hk; [|unfold get_trk in Hk; apply nth_error_None in Hk; lia].
  assert (Hcs : mu (cb_sync bs t b) < mu bs).
  { unfold cb_sync. rewrite Hk. assert (Hm : mem_id t (inflight bs) = true) by (apply mem_id_In; exact Hin). rewrite Hm.
    destruct (mu_cb_enter bs t tk H2 Hk Hin) as (Hlt1 & Hmid & Hk1).
    (* the entered state still satisfies Inv1 / Inv2 *)
    assert (He : SIO (cb_enter bs t) k).
    { pose proof (sreach_SIO _ Hr) as HS. cbn [base blk] in HS. unfold cb_enter. rewrite Hk. unfold get_trk in Hk.
      destruct (Nat.eqb_spec (tk_cid tk) (cid bs)) as [E|E]; cbn [negb orb].
      - destruct (aborting bs) eqn:Hab; [eapply sio_cb_move; eauto | eapply sio_cb_ghost; eauto].
      - eapply sio_cb_move; eauto. }
    pose proof (sio_inv2 _ _ He) as H2e. destruct He as [[[[H1e _] _] _ _ _] _].
    assert (Hnje : 1 <= n_jobs (c (cb_enter bs t))) by (destruct H1e as [[A _] _ _ _ _]; exact A).
    destruct (mu_cb_finish (cb_enter bs t) t b H1e H2e Hnje Hb) as [_ Hs]. specialize (Hs Hmid Hk1). lia. }
  cbn [sstep base blk]. destruct k as [j|]; cbn [fst base]; [exact Hcs|].
  rewrite fst_lift. pose proof (mu_adv_s (cb_sync bs t b)). lia.
Qed.
