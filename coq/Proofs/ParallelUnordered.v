(* M1 proofs, part 9: generator_unordered delivers every result exactly once (as a multiset). *)
From Coq Require Import List Bool Arith Lia PeanoNat Sorting.Permutation.
Require Import JV.Model.ParallelCore JV.Proofs.ParallelLemmas JV.Proofs.ParallelInv1 JV.Proofs.ParallelTrk
               JV.Proofs.ParallelInv2 JV.Proofs.ParallelFrame2 JV.Proofs.ParallelInv3 JV.Proofs.ParallelInv4
               JV.Proofs.ParallelInv5.
Import ListNotations.

Definition is_pending (x : status) : bool := match x with Pending => true | _ => false end.
Definition pendings_of (tr : list tracker) (cd : nat) : list nat :=
  filter (fun t => is_pending (status_in tr t)) (curids_of tr cd).
Definition pendings (s : st) : list nat := pendings_of (trk s) (cid s).

Definition bag (s : st) : list nat :=
  delivered s ++ pend_out s ++ concat (map (tasks_of s) (jobs s ++ rem_of s)) ++ concat (map (tasks_of s) (pendings s)).

Record InvU (s : st) : Prop := {
  u_bag : mode (c s) = Unordered -> exception s = false -> abandoned s = false -> Permutation (bag s) (concat (submitted s))
}.
Definition InvAllU (s : st) : Prop := Inv12345 s /\ InvU s.

Lemma invU_vacuous s : (exception s = true \/ abandoned s = true) -> InvU s.
Proof. intros [H|H]; constructor; intros _ A B; congruence. Qed.

Lemma invU_same s s' : InvU s -> c s' = c s -> exception s' = exception s -> abandoned s' = abandoned s ->
  bag s' = bag s -> submitted s' = submitted s -> InvU s'.
Proof. intros [H] Ec Ex Ea Eb Es. constructor. rewrite Ec, Ex, Ea, Eb, Es. exact H. Qed.

(* ---- pendings under tracker-list changes ---- *)
Lemma pendings_of_app_pending tr k cd : tk_cid k = cd -> tk_status k = Pending ->
  pendings_of (tr ++ [k]) cd = pendings_of tr cd ++ [length tr].
Proof.
  intros Hc Hs. unfold pendings_of. rewrite curids_of_app, Hc, Nat.eqb_refl, filter_app. f_equal.
  - apply filter_ext_in. intros t Ht. apply curids_of_lt in Ht. rewrite status_in_app_old by tauto. reflexivity.
  - cbn [filter]. rewrite status_in_app_new, Hs. reflexivity.
Qed.

Lemma pendings_of_app_failed tr k cd : tk_cid k = cd -> is_pending (tk_status k) = false ->
  pendings_of (tr ++ [k]) cd = pendings_of tr cd.
Proof.
  intros Hc Hs. unfold pendings_of. rewrite curids_of_app, Hc, Nat.eqb_refl, filter_app.
  cbn [filter]. rewrite status_in_app_new, Hs, app_nil_r.
  apply filter_ext_in. intros t Ht. apply curids_of_lt in Ht. rewrite status_in_app_old by tauto. reflexivity.
Qed.

Lemma pendings_of_set_done tr t x cd : t < length tr -> is_pending x = false ->
  pendings_of (set_status_in tr t x) cd = filter (fun u => negb (Nat.eqb t u)) (pendings_of tr cd).
Proof.
  intros Hlt Hx. unfold pendings_of. rewrite curids_of_set_status.
  induction (curids_of tr cd) as [|a l IH]; [reflexivity|]. cbn [filter].
  destruct (Nat.eqb_spec t a) as [<-|Hne].
  - rewrite status_in_set_status_eq by exact Hlt. rewrite Hx.
    destruct (is_pending (status_in tr t)); [cbn [filter]; rewrite Nat.eqb_refl; cbn [negb]|]; exact IH.
  - rewrite status_in_set_status_neq by exact Hne.
    destruct (is_pending (status_in tr a)); [cbn [filter]; destruct (Nat.eqb_spec t a); [contradiction|]; cbn [negb]; f_equal|]; exact IH.
Qed.

Lemma perm_concat_remove (f : nat -> list nat) t l : NoDup l -> In t l ->
  Permutation (concat (map f l)) (f t ++ concat (map f (filter (fun u => negb (Nat.eqb t u)) l))).
Proof.
  induction l as [|a l IH]; intros Hnd Hin; [destruct Hin|].
  inversion Hnd as [|? ? Hna Hnd']; subst. cbn [map concat filter].
  destruct Hin as [->|Hin].
  - rewrite Nat.eqb_refl. cbn [negb].
    change (filter (fun u => negb (t =? u)) l) with (remove_id t l). rewrite (remove_id_notin t l Hna). reflexivity.
  - destruct (Nat.eqb_spec t a) as [->|Hne]; [contradiction|]. cbn [negb map concat].
    rewrite (IH Hnd' Hin). rewrite !app_assoc. apply Permutation_app_tail. apply Permutation_app_comm.
Qed.

Lemma pendings_NoDup tr cd : NoDup (pendings_of tr cd).
Proof. unfold pendings_of. apply NoDup_filter, curids_of_NoDup. Qed.

Lemma pendings_In tr cd t : In t (pendings_of tr cd) <-> cur_of tr cd t = true /\ status_in tr t = Pending.
Proof.
  unfold pendings_of. rewrite filter_In, curids_of_In. split; intros [A B]; split; auto.
  - destruct (status_in tr t); try discriminate; reflexivity.
  - rewrite B. reflexivity.
Qed.

Lemma map_tasks_old tr k l : Forall (fun t => t < length tr) l -> map (tasks_in (tr ++ [k])) l = map (tasks_in tr) l.
Proof. intros H. apply map_ext_in. intros t Ht. rewrite Forall_forall in H. apply tasks_in_app_old. apply H, Ht. Qed.

Lemma pendings_valid tr cd : Forall (fun t => t < length tr) (pendings_of tr cd).
Proof. apply Forall_forall. intros t Ht. apply pendings_In in Ht. destruct Ht as [Hc _].
  unfold cur_of in Hc. destruct (nth_error tr t) eqn:E; [|discriminate]. apply nth_error_Some. congruence. Qed.

Lemma invU_submit s tk pl rdy t : Inv2 s -> InvU s -> InvU (submit_state s tk pl rdy t).
Proof.
  intros H2 [HU]. constructor. unfold bag, pendings, rem_of.
  cbn [c mode exception abandoned delivered pend_out jobs phase submitted trk cid submit_state do_submit upd_dispatch].
  intros Hm Hx Ha. specialize (HU Hm Hx Ha). unfold is_ordered. cbn [c upd_dispatch]. rewrite Hm.
  set (k := {| tk_cid := cid s; tk_tasks := t; tk_status := Pending |}).
  rewrite !tasks_of_fun. cbn [trk cid submit_state do_submit upd_dispatch]. fold k.
  rewrite (pendings_of_app_pending (trk s) k (cid s) eq_refl eq_refl).
  rewrite (map_app (tasks_in (trk s ++ [k])) (pendings_of (trk s) (cid s)) [length (trk s)]).
  cbn [map]. rewrite tasks_in_app_new. cbn [tk_tasks k].
  assert (V1 : Forall (fun u => u < length (trk s)) (jobs s ++ match phase s with Draining r => r | _ => [] end)).
  { apply Forall_app. split; [apply allcur_valid, (j_jobs s H2)|]. pose proof (allcur_valid _ _ (j_rem s H2)) as V. exact V. }
  rewrite (map_tasks_old (trk s) k _ V1). rewrite (map_tasks_old (trk s) k _ (pendings_valid (trk s) (cid s))).
  rewrite concat_app. cbn [concat]. rewrite app_nil_r. rewrite (concat_app (submitted s)). cbn [concat]. rewrite app_nil_r.
  unfold bag, pendings, rem_of in HU. rewrite !tasks_of_fun in HU.
  rewrite !app_assoc. apply Permutation_app_tail. rewrite <- !app_assoc. exact HU.
Qed.

Lemma invU_dispatch s b fo s' r : Inv2 s -> InvU s -> dispatch_shape s b fo s' r -> InvU s'.
Proof.
  intros H2 HU Hsh. inversion Hsh; subst; try exact HU.
  - apply invU_submit; assumption.
  - apply invU_vacuous. left. reflexivity.
  - apply invU_submit; assumption.
Qed.

Lemma invU_flags s i o ph : InvU s -> rem_of s = [] -> (forall r, ph <> Draining r) -> InvU (set_flags s i o ph).
Proof.
  intros HU Hr Hp. eapply invU_same; [exact HU | reflexivity ..| | reflexivity].
  unfold bag, pendings. rewrite Hr. unfold rem_of. cbn [phase set_flags delivered pend_out jobs trk cid].
  destruct ph; try reflexivity. exfalso. eapply Hp. reflexivity.
Qed.

Lemma invU_flags_same s i o : InvU s -> InvU (set_flags s i o (phase s)).
Proof. intros HU. eapply invU_same; [exact HU | reflexivity ..]. Qed.

Lemma invU_cb_start s t o : Inv2 s -> Inv4 s -> InvU s -> InvU (cb_start s t o).
Proof.
  intros H2 H4 HU. unfold cb_start.
  destruct (get_trk s t) as [k|] eqn:Hk; [|exact HU]. unfold get_trk in Hk.
  destruct (mem_id t (inflight s)) eqn:Hti; cbn [negb]; [|exact HU]. apply mem_id_In in Hti.
  assert (Hlt : t < length (trk s)) by (apply nth_error_Some; congruence).
  destruct (negb (tk_cid k =? cid s) || aborting s) eqn:Hdrop.
  { eapply invU_same; [exact HU | reflexivity ..]. }
  apply orb_false_iff in Hdrop as [Hcur Hab]. apply negb_false_iff in Hcur.
  assert (Hct : is_cur s t = true) by (unfold is_cur, cur_of; rewrite Hk; exact Hcur).
  assert (Hxs : exception s = false).
  { destruct (exception s) eqn:E; [|reflexivity]. pose proof (o_exc_ab s H4 E). congruence. }
  assert (Hst : tk_status k = Pending).
  { pose proof (j_infl_pending s H2 Hxs t Hti Hct) as A. unfold status_of, get_trk in A. rewrite Hk in A. exact A. }
  rewrite Hst. cbn [orb].
  destruct o as [e|]; [apply invU_vacuous; left; cbn; rewrite Hxs; reflexivity|].
  destruct HU as [HU]. constructor. unfold bag, pendings, rem_of.
  cbn [c mode exception abandoned delivered pend_out jobs phase submitted trk cid].
  rewrite Hxs. cbn [orb]. intros Hm _ Ha. specialize (HU Hm Hxs Ha).
  unfold is_ordered. rewrite Hm. cbn [orb]. rewrite !tasks_of_fun. cbn [trk]. rewrite set_status_eq.
  rewrite (pendings_of_set_done (trk s) t Done (cid s) Hlt eq_refl).
  assert (Et : forall l, map (tasks_in (set_status_in (trk s) t Done)) l = map (tasks_in (trk s)) l).
  { intros l. apply map_ext. intros u. apply tasks_in_set_status. }
  rewrite !Et.
  assert (Htp : In t (pendings_of (trk s) (cid s))).
  { apply pendings_In. split; [exact Hct|]. unfold status_in. rewrite Hk. exact Hst. }
  pose proof (perm_concat_remove (tasks_in (trk s)) t _ (pendings_NoDup (trk s) (cid s)) Htp) as Hperm.
  unfold bag, pendings, rem_of in HU. rewrite !tasks_of_fun in HU.
  etransitivity; [|exact HU].
  apply Permutation_app_head. apply Permutation_app_head.
  rewrite Hperm. rewrite <- !app_assoc. rewrite !map_app, !concat_app. cbn [map concat]. rewrite app_nil_r.
  rewrite <- !app_assoc. apply Permutation_app_head.
  rewrite !app_assoc. apply Permutation_app_tail. apply Permutation_app_comm.
Qed.

Theorem reach_invallu : forall s, reach s -> InvAllU s.
Proof.
  apply (ParallelFrame2.P_reach InvAllU).
  - split; [exact inv12345_init|]. constructor. intros _ _ _. cbn. constructor.
  - (* call *)
    intros s cf n f [H HU] Hcf Hr Hp. split; [apply inv12345_call; assumption|].
    destruct H as [[[[_ H2] _] _] _].
    assert (Hfresh : curids_of (trk s) (S (cid s)) = []) by (apply curids_of_fresh, (j_cids s H2)).
    constructor. intros _ _ _. unfold bag, pendings, pendings_of, rem_of. cbn [delivered pend_out jobs phase submitted trk cid do_call].
    rewrite Hfresh. cbn. constructor.
  - (* start_first *)
    intros s b s1 r [H HU] Hnj Hb Hph Hsh. split; [eapply inv12345_start_first; eassumption|].
    destruct H as [[[[_ H2] _] _] _]. pose proof (invU_dispatch _ _ _ _ _ H2 HU Hsh) as HU1.
    pose proof (dispatch_shape_phase _ _ _ _ _ Hsh) as Hp1. rewrite Hph in Hp1.
    assert (Hr1 : rem_of s1 = []) by (unfold rem_of; rewrite Hp1; reflexivity).
    unfold start_first_next.
    assert (Hf : InvU (set_flags s1 (if r then orig s1 else iterating s1) (orig s1) StartLoop))
      by (apply invU_flags; [exact HU1 | exact Hr1 | discriminate]).
    destruct (aborting _); [|exact Hf]. unfold end_start. apply invU_flags; [exact Hf | reflexivity | discriminate].
  - (* start_loop *)
    intros s b s1 r [H HU] Hnj Hb Hph Hsh. split; [eapply inv12345_start_loop; eassumption|].
    destruct H as [[[[_ H2] _] _] _]. pose proof (invU_dispatch _ _ _ _ _ H2 HU Hsh) as HU1.
    pose proof (dispatch_shape_phase _ _ _ _ _ Hsh) as Hp1. rewrite Hph in Hp1.
    assert (Hr1 : rem_of s1 = []) by (unfold rem_of; rewrite Hp1; reflexivity).
    unfold start_loop_next, end_start.
    destruct r; [destruct (aborting s1)|]; try exact HU1; apply invU_flags; try exact HU1; try exact Hr1; discriminate.
  - (* dispatch from a callback *)
    intros s b s' r [H HU] Hnj Hb Ho Hcl Hsh. split; [eapply inv12345_cb_dispatch; eassumption|].
    destruct H as [[[[_ H2] _] _] _]. eapply invU_dispatch; eassumption.
  - intros s t o [H HU]. split; [apply inv12345_cb_start; exact H|].
    destruct H as [[[[_ H2] _] H4] _]. apply invU_cb_start; assumption.
  - intros s t k [H HU] Hk Hin Hc. split; [apply inv12345_cb_close; assumption|].
    eapply invU_same; [exact HU | reflexivity ..].
  - intros s t k [H HU] Hk Hin Hc. split; [eapply inv12345_cb_stale; eassumption|].
    eapply invU_same; [exact HU | reflexivity ..].
  - intros s [H HU] Ho Hcl Hx. split; [apply inv12345_exhaust; assumption | apply invU_flags_same; exact HU].
  - intros s [H HU]. split; [apply inv12345_want; exact H|]. eapply invU_same; [exact HU | reflexivity ..].
  - intros s [H HU] Hp. split; [apply inv12345_close_try; assumption | apply invU_vacuous; right; reflexivity].
  - intros s b s1 [H HU] Hnj Hb Hph Hsh. split; [eapply inv12345_refuse; eauto | apply invU_vacuous; left; reflexivity].
  - intros s b s1 [H HU] Hnj Hb Hph Hsh. split; [eapply inv12345_refuse; eauto | apply invU_vacuous; left; reflexivity].
  - intros s r [H HU] Hp. split; [eapply inv12345_close_drain; eassumption | apply invU_vacuous; right; reflexivity].
  - intros s j [H HU] Hw Ht Hst. split; [apply inv12345_timeout; assumption | apply invU_vacuous; left; reflexivity].
  - (* yield *)
    intros s v r [H HU] Hp. split; [eapply inv12345_yield; eassumption|].
    eapply invU_same; [exact HU | reflexivity ..| | reflexivity].
    unfold bag, pendings, rem_of. cbn [delivered pend_out jobs phase trk cid deliver set_out]. rewrite Hp.
    rewrite !tasks_of_fun. cbn [trk deliver set_out]. rewrite <- !app_assoc. reflexivity.
  - intros s e [H HU] Hp Hpo Hab Hff. split; [eapply inv12345_raise_fast; eassumption | apply invU_vacuous; left; reflexivity].
  - (* loop exit *)
    intros s [H HU] Hp Hpo Hc. split; [apply inv12345_loop_exit; assumption|].
    destruct HU as [HU]. constructor. cbn [c mode exception abandoned submitted finalize].
    intros Hm Hx Ha. specialize (HU Hm Hx Ha).
    unfold bag, pendings, rem_of in *. cbn [delivered pend_out jobs phase trk cid finalize]. rewrite Hx.
    rewrite Hp, Hpo in HU. rewrite !tasks_of_fun in *. cbn [trk finalize]. cbn [app] in *. rewrite app_nil_r in HU. exact HU.
  - (* pop done *)
    intros s j js [H HU] Hp Hpo Hab Hj Hst. split; [eapply inv12345_pop_done; eassumption|].
    eapply invU_same; [exact HU | reflexivity ..| | reflexivity].
    unfold bag, pendings, rem_of. cbn [delivered pend_out jobs phase trk cid set_out]. rewrite Hp, Hpo, Hj.
    rewrite !tasks_of_fun. cbn [trk set_out app map concat]. rewrite !app_nil_r. rewrite <- !app_assoc. reflexivity.
  - intros s j js e [H HU] Hp Hpo Hab Hj Hst. split; [eapply inv12345_pop_failed; eassumption | apply invU_vacuous; left; reflexivity].
  - (* drain end *)
    intros s [H HU] Hp Hpo. split; [apply inv12345_drain_end; assumption|].
    eapply invU_same; [exact HU | reflexivity ..| | reflexivity].
    unfold bag, pendings, rem_of. cbn [delivered pend_out jobs phase trk cid set_out]. rewrite Hp, Hpo. reflexivity.
  - (* drain pop *)
    intros s j js [H HU] Hp Hpo Hst. split; [eapply inv12345_drain_pop; eassumption|].
    destruct H as [[_ H4] _].
    destruct (exception s) eqn:Hx.
    + apply invU_vacuous. left. exact Hx.
    + eapply invU_same; [exact HU | reflexivity ..| | reflexivity].
      unfold bag, pendings, rem_of. cbn [delivered pend_out jobs phase trk cid set_out]. rewrite Hp, Hpo.
      rewrite (o_drain_jobs s H4 _ Hp Hx). rewrite !tasks_of_fun. cbn [trk set_out app map concat]. rewrite <- !app_assoc. reflexivity.
  - (* drain bad *)
    intros s j js [H HU] Hp Hpo Hst. split; [eapply inv12345_drain_bad; eassumption|].
    destruct H as [[_ H4] _]. destruct (exception s) eqn:Hx.
    + apply invU_vacuous. left. exact Hx.
    + exfalso. apply Hst. apply (o_drain_done s H4 _ Hp Hx). left. reflexivity.
  - intros s [H _]. apply inv12345_wf. exact H.
Qed.

(* ---------------- generator_unordered: every result exactly once ---------------- *)
Theorem unordered_output_complete s : reach s -> mode (c s) = Unordered -> ifail s = None ->
  phase s = Finished -> exception s = false -> abandoned s = false ->
  Permutation (delivered s) (seq 0 (N s)) /\ NoDup (delivered s).
Proof.
  intros Hr Hm Hi Hp Hx Ha. destruct (reach_invallu s Hr) as [[[[[H1 H2] H3] H4] H5] [HU]].
  assert (Hab : aborting s = false).
  { destruct (aborting s) eqn:E; [|reflexivity]. rewrite (j_abexc s H2 E) in Hx. discriminate. }
  assert (Hex : exhausted s) by (apply after_loop_exhausted; auto; rewrite Hp; exact I).
  destruct Hex as [Hrd Htk]. specialize (HU Hm Hx Ha).
  destruct (o_fin s H4 Hp Hx) as [Hj Hpo].
  assert (Hpend : pendings s = []).
  { destruct (pendings s) as [|t l] eqn:E; [reflexivity|exfalso].
    assert (Hin : In t (pendings s)) by (rewrite E; left; reflexivity).
    apply pendings_In in Hin. destruct Hin as [Hc Hst].
    assert (Hcl : In t (closed s)) by (apply (o_all_closed s H4); [rewrite Hp; exact I | exact Hx | exact Hc]).
    pose proof (j_closed_done s H2 Hx t Hcl) as Hd. rewrite status_of_fun in Hd. congruence. }
  unfold bag, rem_of in HU. rewrite Hp, Hj, Hpo, Hpend in HU. cbn in HU. rewrite app_nil_r in HU.
  destruct H1 as [_ Hpart _ _ _]. specialize (Hpart Hi). rewrite Hrd in Hpart. cbn in Hpart. rewrite app_nil_r in Hpart.
  rewrite Hpart, Htk in HU. split; [exact HU|].
  eapply Permutation_NoDup; [symmetry; exact HU | apply seq_NoDup].
Qed.

Lemma NoDup_app_l {A} (a b : list A) : NoDup (a ++ b) -> NoDup a.
Proof.
  induction a as [|x a IH]; intros H; [constructor|]. cbn in H. inversion H as [|? ? Hx Hn]; subst.
  constructor; [intros Hin; apply Hx; apply in_or_app; left; exact Hin | apply IH; exact Hn].
Qed.

(* at any time of a clean unordered call nothing has been delivered twice and nothing invented *)
Theorem unordered_output_sound s : reach s -> mode (c s) = Unordered -> ifail s = None ->
  exception s = false -> abandoned s = false ->
  NoDup (delivered s) /\ incl (delivered s) (seq 0 (taken s)).
Proof.
  intros Hr Hm Hi Hx Ha. destruct (reach_invallu s Hr) as [[[[[H1 H2] H3] H4] H5] [HU]].
  specialize (HU Hm Hx Ha). destruct H1 as [_ Hpart _ _ _]. specialize (Hpart Hi).
  assert (Hnd : NoDup (concat (submitted s))).
  { pose proof (seq_NoDup (taken s) 0) as A. rewrite <- Hpart in A. apply NoDup_app_l in A. exact A. }
  pose proof (Permutation_NoDup (Permutation_sym HU) Hnd) as Hb. unfold bag in Hb.
  split; [apply NoDup_app_l in Hb; exact Hb|].
  intros v Hv. assert (Hin : In v (concat (submitted s))).
  { eapply Permutation_in; [exact HU|]. unfold bag. apply in_or_app. left. exact Hv. }
  rewrite <- Hpart. apply in_or_app. left. exact Hin.
Qed.
