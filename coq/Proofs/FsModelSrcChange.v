(* M5, part 9: the exact crash states of the source-change workload. *)
From Coq Require Import ZArith List Bool Lia.
Require Import JV.Base.PyPrelude JV.Model.FsModel JV.Proofs.FsModelBase JV.Proofs.FsModelRG
               JV.Proofs.FsModelWf JV.Proofs.FsModelSeq JV.Proofs.FsModelThm JV.Proofs.FsModelClear
               JV.Proofs.FsModelProps.
Import ListNotations.
Open Scope Z_scope.

(* a crash inside [p ;; g] is a crash inside p, or p ran to completion and the crash is inside g *)
Lemma crash_run_pbind : forall A B (p : prog A) (g : A -> prog B) n torn s,
  crash_run (pbind p g) n torn s = crash_run p n torn s \/
  exists m, crash_run (pbind p g) n torn s = crash_run (g (fst (run p s))) m torn (snd (run p s)).
Proof.
  intros A B p g; induction p as [a|o k IH]; intros n torn s; simpl.
  - right; exists n; reflexivity.
  - destruct (is_mut o).
    + destruct n as [|n']; [left; reflexivity|].
      destruct (exec o s) as [r s1]. apply IH.
    + destruct (exec o s) as [r s1]. apply IH.
Qed.

Lemma crash_run_read : forall A o (k : res -> prog A) n torn s, is_mut o = false ->
  crash_run (Op o k) n torn s = crash_run (k (fst (exec o s))) n torn (snd (exec o s)).
Proof. intros A o k n torn s H. simpl. rewrite H. destruct (exec o s); reflexivity. Qed.

(* operations that neither create nor write func_code.py *)
Definition nocode (o : fsop) : Prop :=
  match o with Creat p | Write p _ => p <> PCode | _ => True end.

Lemma nocode_step : forall codew o s, allowed codew o -> nocode o ->
  lookup PCode (snd (exec o s)) = lookup PCode s \/ lookup PCode (snd (exec o s)) = None.
Proof.
  intros codew o s Ha Hn.
  destruct o as [p0|p0|p0|p0 b0|p0|src dst|p0|p0|p0]; simpl in *;
    try (destruct (present p0 s); simpl; auto; fail); try (destruct (lookup p0 s); simpl; auto; fail).
  - destruct (present p0 s); simpl; auto. destruct (parent_present p0 s); simpl; auto.
    rewrite lookup_set. destruct (path_eqb PCode p0) eqn:E; auto. apply path_eqb_eq in E; subst; discriminate.
  - destruct (parent_present p0 s); simpl; auto.
    rewrite lookup_set. destruct (path_eqb PCode p0) eqn:E; auto. apply path_eqb_eq in E; subst; congruence.
  - destruct (lookup p0 s); simpl; auto.
    rewrite lookup_set. destruct (path_eqb PCode p0) eqn:E; auto. apply path_eqb_eq in E; subst; congruence.
  - contradiction.
  - destruct (present p0 s); simpl; auto. rewrite lookup_remove. destruct (path_eqb PCode p0); auto.
  - destruct (is_dir p0); simpl; auto. destruct (present p0 s); simpl; auto. destruct (children p0 s); simpl; auto.
    rewrite lookup_remove. destruct (path_eqb PCode p0); auto.
Qed.

Section SrcChange.
Variable pickle : Z -> bytes.
Variable unpickle : bytes -> option Z.
Variable meta : bytes.
Variable parse_meta : bytes -> bool.
Variable code : Z -> bytes.
Variable code_eq : bytes -> Z -> bool.
Variable decodes : bytes -> bool.
Variable gitbytes : bytes.
Variable f : Z -> Z -> Z.
Variable cur : Z.
Variable t : Z.
Variable cb : option bool.
Variable b : bytes.                       (* the old func_code.py *)
Hypothesis dec_b : decodes b = true.
Hypothesis ne_b : code_eq b cur = false.

Notation InvB := (InvB pickle meta code f cur).
Notation outB := (outB pickle f cur).
Notation metaA := (metaA meta).
Notation codeB := (codeB code cur).
Notation wfB := (wf outB metaA codeB codeB XT xT).

(* the three kinds of crash state *)
Definition Old (s : fs) : Prop := Tree s /\ lookup PCode s = Some b.       (* guarded: the next check clears *)
Definition Gone (s : fs) : Prop := Tree s /\ lookup PCode s = None.         (* inside the clearing rmtree: the F23 window *)
Definition Cls (s : fs) : Prop := Old s \/ Gone s \/ InvB s.

Definition XG (s : fs) : Prop := lookup PCode s = Some b \/ lookup PCode s = None.
Notation wfG := (wf anyo anyb anyb anyb XG nocode).

Lemma XG_step : forall o s, allowed anyb o -> nocode o -> Inv anyo anyb anyb s -> XG s -> XG (snd (exec o s)).
Proof.
  intros o s Ha Hn _ HX. destruct (nocode_step anyb o s Ha Hn) as [E|E]; unfold XG; rewrite E; auto.
Qed.

Lemma XG_entry : forall o s,
  match o with
  | Creat p | Write p _ => is_tmp p = true
  | Rename p d => is_tmp p = true /\ is_final d = true
  | _ => False
  end -> XG s -> XG (snd (exec o s)).
Proof.
  intros o s Ho HX. unfold XG in *. destruct o; simpl in *; try contradiction.
  - destruct (parent_present p s); simpl; auto. rewrite lookup_set. destruct p; try discriminate; auto.
  - destruct (lookup p s); simpl; auto. rewrite lookup_set. destruct p; try discriminate; auto.
  - destruct Ho as [Hs Hd]. destruct (lookup src s); simpl; auto. destruct (parent_present dst s); simpl; auto.
    rewrite lookup_set, lookup_remove. destruct src; try discriminate; destruct dst; try discriminate; auto.
Qed.

(* crash states of a program that never creates or writes func_code.py, from an Old or Gone state *)
Lemma crash_G : forall A (Q : A -> Prop) (p : prog A) n torn s,
  wfG A t Q p -> Tree s -> XG s -> Old (crash_run p n torn s) \/ Gone (crash_run p n torn s).
Proof.
  intros A Q p n torn s Hwf HT HX.
  assert (HJ : J anyo anyb anyb XG (crash_run p n torn s)).
  { apply (pst_crash anyo anyb anyb anyb XG nocode I (fun _ _ _ _ => I) (fun _ _ _ => I) XG_step
             (fun q b0 j H => H) XG_entry A t Q p n torn s).
    - split; [repeat split; unfold anyo, anyb; auto | exact HX].
    - apply pst_wf; exact Hwf. }
  destruct HJ as [[HT' _] [E|E]]; [left | right]; split; auto.
Qed.

Lemma nocode_safe : forall o, safe_op o -> nocode o.
Proof. intros o; destruct o; simpl; auto. Qed.

(* crash states of a program of the current version, from an InvB state *)
Lemma crash_Bp : forall A (Q : A -> Prop) (p : prog A) n torn s,
  wfB A t Q p -> InvB s -> InvB (crash_run p n torn s).
Proof.
  intros A Q p n torn s Hwf HI.
  eapply (pst_crash outB metaA codeB codeB XT xT);
    try apply codeB_nil; try apply codeB_overlay; try apply codeB_firstn; unfold XT, xT; auto.
  - apply J_B; exact HI.
  - apply pst_wf; exact Hwf.
Qed.

Lemma crash_clear_func : forall n torn s, Old s -> Cls (crash_run (clear_func code cur) n torn s).
Proof.
  intros n torn s [HT Hb]. unfold clear_func.
  destruct (crash_run_pbind _ _ (Op (Stat PFunc) (fun r => if is_ok r then rmtree_ign PFunc else Ret tt))
              (fun _ => store_code (Some (code cur))) n torn s) as [E|[m E]]; rewrite E; clear E.
  - (* inside exists + rmtree *)
    assert (Hwf : wfG _ t (fun _ => True) (Op (Stat PFunc) (fun r => if is_ok r then rmtree_ign PFunc else Ret tt))).
    { apply wf_op_all; simpl; auto. intros r. destruct (is_ok r); [|apply wf_ret; auto].
      apply wf_rmtree_ign; simpl; auto. apply nocode_safe. }
    destruct (crash_G _ _ _ n torn s Hwf HT (or_introl Hb)) as [H|H]; unfold Cls; auto.
  - (* the rmtree is complete: nothing is left under the function directory *)
    right; right.
    assert (HI : InvB (snd (run (Op (Stat PFunc) (fun r => if is_ok r then rmtree_ign PFunc else Ret tt)) s))).
    { rewrite run_op. cbn [exec]. destruct (present PFunc s) eqn:Hp; cbn [fst snd is_ok].
      - unfold rmtree_ign, rmtree. rewrite run_pbind, run_op. cbn [exec].
        destruct (rmtree_func_post 3 s HT) as [HT1 Hpost].
        rewrite Hp; cbn [fst snd].
        destruct (run (rmtree_unsafe 4 false PFunc) s) as [r s1]; cbn [fst snd run] in *.
        apply no_finals_InvB; auto. intros q Hq. rewrite Hpost, Hq; reflexivity.
      - cbn [run snd]. apply no_finals_InvB; auto. intros q Hq. apply under_func_absent; auto. }
    apply (crash_Bp _ (fun _ => True)); auto.
    apply wf_store_code; unfold xT; auto. right; eexists; split; eauto. apply codeB_cur.
Qed.

Lemma after_clear : forall s, Old s ->
  fst (run (clear_func code cur) s) = Ok tt /\ InvB (snd (run (clear_func code cur) s)).
Proof. intros s [HT _]. split; [apply clear_func_seq | apply clear_func_post; auto]. Qed.

Lemma crash_cached_call : forall k n torn s, Old s ->
  Cls (crash_run (cached_call pickle unpickle meta parse_meta code code_eq decodes f cur t cb false k false) n torn s).
Proof.
  intros k n torn s HO. pose proof HO as [HT Hb].
  assert (Hrec : forall it : bool, wfB (outcome * bool)%type t (fun _ => True)
            (pbind (compute_store pickle meta f cur t k) (fun _ => Ret (OVal (f cur k) true, it)))).
  { intros it. eapply wf_pbind; [apply wf_compute_store; unfold outB, metaA, xT; auto|]. intros; apply wf_ret; auto. }
  unfold cached_call.
  match goal with |- Cls (crash_run (pbind ?p ?g) n torn s) =>
    destruct (crash_run_pbind _ _ p g n torn s) as [E|[m E]]; rewrite E; clear E end.
  - (* inside _is_in_cache_and_valid *)
    unfold is_valid.
    match goal with |- Cls (crash_run (pbind ?p ?g) n torn s) =>
      destruct (crash_run_pbind _ _ p g n torn s) as [E|[m E]]; rewrite E; clear E end.
    + (* inside _check_previous_func_code: the read, then clear-and-rewrite *)
      unfold check_code. rewrite crash_run_read by reflexivity. cbn [exec]. rewrite Hb. cbn [fst snd]. rewrite dec_b, ne_b. cbn [negb].
      match goal with |- Cls (crash_run (pbind ?p ?g) n torn s) =>
        destruct (crash_run_pbind _ _ p g n torn s) as [E|[m E]]; rewrite E; clear E end.
      * apply crash_clear_func; auto.
      * destruct (after_clear s HO) as [Hok HI].
        destruct (run (clear_func code cur) s) as [r1 s1]; cbn [fst snd] in *. subst r1.
        simpl. right; right; exact HI.
    + (* the check is over: (False, in the table) *)
      unfold check_code. rewrite run_op. cbn [exec]. rewrite Hb. cbn [fst snd]. rewrite dec_b, ne_b. cbn [negb].
      rewrite run_pbind. destruct (after_clear s HO) as [Hok HI].
      destruct (run (clear_func code cur) s) as [r1 s1]; cbn [fst snd] in *. subst r1.
      simpl. right; right; exact HI.
  - (* the validity check is over: recomputation from a cleared directory *)
    unfold is_valid, check_code. rewrite run_pbind, run_op. cbn [exec]. rewrite Hb. cbn [fst snd]. rewrite dec_b, ne_b. cbn [negb].
    rewrite run_pbind. destruct (after_clear s HO) as [Hok HI].
    destruct (run (clear_func code cur) s) as [r1 s1]; cbn [fst snd] in *. subst r1. cbn [run fst snd].
    right; right. apply (crash_Bp _ (fun _ => True)); auto.
Qed.

Notation session := (session pickle unpickle meta parse_meta code code_eq decodes gitbytes f).

(* every crash state of "a process whose source changed calls f(k)" on a guarded directory *)
Theorem source_change_crash_states : forall k n torn s, Old s ->
  Cls (crash_run (session cur t cb [ACall k]) n torn s).
Proof.
  intros k n torn s HO. pose proof HO as [HT Hb]. unfold FsModel.session.
  assert (Hwf1 : wfG _ t (fun _ => True) (memory_init gitbytes)) by (apply wf_memory_init; apply nocode_safe).
  assert (Hwf1' : wf anyo anyb anyb anyb (fun s => lookup PCode s = Some b) safe_op _ t (fun _ => True) (memory_init gitbytes))
    by (apply wf_memory_init; auto).
  assert (Hsc : forall (X : fs -> Prop) (xok : fsop -> Prop), (forall o, safe_op o -> xok o) ->
            wf anyo anyb anyb anyb X xok _ t (fun _ => True) (store_code None)).
  { intros X xok Hx. unfold store_code, store_code_src, handled; cbn [fst snd interp_store path_of].
    apply wf_op_all; [simpl; auto | apply Hx; simpl; auto | intros r]. destruct (is_ok r); [apply wf_ret; auto|].
    unfold ebind. eapply wf_pbind; [apply wf_mkdirp; auto|]. intros [u|e] _; apply wf_ret; auto. }
  match goal with |- Cls (crash_run (pbind ?p ?g) n torn s) =>
    destruct (crash_run_pbind _ _ p g n torn s) as [E|[m E]]; rewrite E; clear E end.
  { destruct (crash_G _ _ _ n torn s Hwf1 HT (or_introl Hb)) as [H|H]; unfold Cls; auto. }
  pose proof (memory_init_seq gitbytes s HT) as Hr1.
  destruct (code_kept t _ _ _ s b Hwf1' HT Hb) as [HT1 Hb1].
  destruct (run (memory_init gitbytes) s) as [r1 s1]; cbn [fst snd] in *. subst r1.
  match goal with |- Cls (crash_run (pbind ?p ?g) m torn s1) =>
    destruct (crash_run_pbind _ _ p g m torn s1) as [E|[m2 E]]; rewrite E; clear E end.
  { destruct (crash_G _ _ _ m torn s1 (Hsc XG nocode nocode_safe) HT1 (or_introl Hb1)) as [H|H]; unfold Cls; auto. }
  unfold cache_init in *.
  pose proof (store_code_seq None s1) as Hr2.
  destruct (code_kept t _ _ _ s1 b (Hsc _ safe_op (fun o H => H)) HT1 Hb1) as [HT2 Hb2].
  destruct (run (store_code None) s1) as [r2 s2]; cbn [fst snd] in *. subst r2.
  cbn [run_actions].
  match goal with |- Cls (crash_run (pbind ?p ?g) m2 torn s2) =>
    destruct (crash_run_pbind _ _ p g m2 torn s2) as [E|[m3 E]]; rewrite E; clear E end.
  { apply crash_cached_call; split; auto. }
  (* the call is over *)
  destruct (guarded_first_call pickle unpickle meta parse_meta code code_eq decodes f cur t cb k s2 HT2) as [Hv HI].
  { exists b; auto. }
  destruct (run (cached_call pickle unpickle meta parse_meta code code_eq decodes f cur t cb false k false) s2) as [oi s3].
  cbn [fst snd] in *. simpl. right; right; exact HI.
Qed.

End SrcChange.

Section Final.
Variable pickle : Z -> bytes.
Variable unpickle : bytes -> option Z.
Variable meta : bytes.
Variable parse_meta : bytes -> bool.
Variable code : Z -> bytes.
Variable code_eq : bytes -> Z -> bool.
Variable decodes : bytes -> bool.
Variable gitbytes : bytes.
Variable f : Z -> Z -> Z.
Notation session := (session pickle unpickle meta parse_meta code code_eq decodes gitbytes f).
Notation sess := (sess pickle unpickle meta parse_meta code code_eq decodes gitbytes f).

Lemma classified : forall cur t cb b k n torn s,
  decodes b = true -> code_eq b cur = false ->
  InvA pickle meta s -> lookup PCode s = Some b ->
  let s' := crash_run (session cur t cb [ACall k]) n torn s in
  InvA pickle meta s' /\ (Old b s' \/ Gone s' \/ InvB pickle meta code f cur s').
Proof.
  intros cur t cb b k n torn s Hd Hne HA Hb s'. split.
  - exact (crash_A pickle unpickle meta parse_meta code code_eq decodes gitbytes f (cur, t, cb, [ACall k]) n torn s HA).
  - apply (source_change_crash_states pickle unpickle meta parse_meta code code_eq decodes gitbytes f cur t cb b Hd Hne).
    split; [exact (proj1 HA) | exact Hb].
Qed.

(* ... and each of them is recovered by the next process, or lies in the window where func_code.py is gone *)
Lemma recovered_or_listed : forall cur t cb b k n torn s,
  (forall v, unpickle (pickle v) = Some v) -> (forall j, decodes (firstn j (code cur)) = true) ->
  decodes b = true -> code_eq b cur = false ->
  InvA pickle meta s -> lookup PCode s = Some b ->
  let s' := crash_run (session cur t cb [ACall k]) n torn s in
  (forall t' cb' k' ks,
     Forall2 (fun k o => exists c, o = OVal (f cur k) c) (k' :: ks)
             (fst (run (session cur t' cb' (map ACall (k' :: ks))) s')) /\
     InvB pickle meta code f cur (snd (run (session cur t' cb' (map ACall (k' :: ks))) s')))
  \/ Gone s'.
Proof.
  intros cur t cb b k n torn s Hup Hdp Hd Hne HA Hb s'.
  destruct (classified cur t cb b k n torn s Hd Hne HA Hb) as [_ [[HT Hb']|[HG|HB]]]; fold s' in HT, Hb' || idtac.
  - left. intros t' cb' k' ks.
    apply (guarded_session pickle unpickle meta parse_meta code code_eq decodes gitbytes f cur t' cb' Hup Hdp); auto.
    exists b; auto.
  - right; exact HG.
  - left. intros t' cb' k' ks.
    apply (recover_B pickle unpickle meta parse_meta code code_eq decodes gitbytes f cur Hup Hdp); auto.
Qed.

End Final.

(* the F23 witness lies in that window *)
Lemma toy_s1_InvA : InvA Toy.pickle Toy.meta FsModelProps.toy_s1.
Proof.
  pose proof (recover_B Toy.pickle Toy.unpickle Toy.meta Toy.parse_meta Toy.code Toy.code_eq Toy.decodes
                Toy.gitbytes Toy.f 1 FsModelProps.toy_unpickle_pickle (fun j => FsModelProps.toy_decodes_prefix 1 j eq_refl) 1 None [1; 2] []
                (FsModelProps.InvB_empty Toy.pickle Toy.meta Toy.code Toy.f 1)) as [_ (HT & HO & HM & _)].
  split; [exact HT|]. split; [|split].
  - intros k0 b0 H. exists (Toy.f 1 k0). apply (HO k0 b0 H).
  - exact HM.
  - intros; exact I.
Qed.

Lemma f23_in_window : Gone FsModelProps.f23_crashed.
Proof.
  split; [|vm_compute; reflexivity].
  exact (proj1 (proj1 (classified Toy.pickle Toy.unpickle Toy.meta Toy.parse_meta Toy.code Toy.code_eq Toy.decodes
                         Toy.gitbytes Toy.f 2 2 None (Toy.code 1) 1 3 None FsModelProps.toy_s1
                         eq_refl eq_refl toy_s1_InvA eq_refl))).
Qed.
