(* Proofs about Model/Persist.v (C03).  General lemmas are stated for an arbitrary table with the
   decidable side conditions as hypotheses; they are instantiated at the REGENERATED registry by
   vm_compute, so a change of the live table is re-checked here. *)
From Coq Require Import ZArith List Bool Lia Arith Sorting.Permutation.
Require Import JV.Base.PyPrelude JV.Gen.C03_Constants JV.Model.Persist.
Import ListNotations.
Open Scope Z_scope.

(* ------------------------------------------------------------------ lists of Z *)

Lemma list_eqb_eq : forall a b, list_eqb a b = true <-> a = b.
Proof.
  induction a as [|x a IH]; destruct b as [|y b]; cbn [list_eqb]; split; intro H; try discriminate; auto.
  - apply andb_true_iff in H. destruct H as [H1 H2]. apply Z.eqb_eq in H1. apply IH in H2. subst. reflexivity.
  - injection H as -> ->. apply andb_true_iff. split; [apply Z.eqb_refl | apply IH; reflexivity].
Qed.

Lemma list_eqb_refl : forall a, list_eqb a a = true.
Proof. intro a. apply list_eqb_eq. reflexivity. Qed.

Lemma starts_with_iff : forall p s, starts_with s p = true <-> exists t, s = p ++ t.
Proof.
  induction p as [|x p IH]; intros s; cbn [starts_with].
  - split; [intros _; exists s; reflexivity | reflexivity].
  - destruct s as [|y s].
    + split; [discriminate | intros [t Ht]; discriminate].
    + rewrite andb_true_iff, Z.eqb_eq, IH. split.
      * intros [-> [t ->]]. exists t. reflexivity.
      * intros [t Ht]. cbn in Ht. injection Ht as -> ->. split; [reflexivity | exists t; reflexivity].
Qed.

Lemma starts_with_app : forall p t, starts_with (p ++ t) p = true.
Proof. intros. apply starts_with_iff. exists t. reflexivity. Qed.

Lemma starts_with_refl : forall p, starts_with p p = true.
Proof. intro p. apply starts_with_iff. exists []. symmetry. apply app_nil_r. Qed.

(* looking at the first n bytes only changes nothing for a prefix of length <= n *)
Lemma starts_with_firstn : forall p s n, (length p <= n)%nat ->
  starts_with (firstn n s) p = starts_with s p.
Proof.
  induction p as [|x p IH]; intros s n Hn; cbn [starts_with]; [reflexivity|].
  destruct n as [|n]; [cbn in Hn; lia|]. destruct s as [|y s]; cbn [firstn]; [reflexivity|].
  rewrite IH by (cbn in Hn; lia). reflexivity.
Qed.

Lemma starts_with_firstn_weak : forall p s n, starts_with (firstn n s) p = true -> starts_with s p = true.
Proof.
  intros p s n H. apply starts_with_iff in H. destruct H as [t Ht]. apply starts_with_iff.
  exists (t ++ skipn n s). rewrite app_assoc, <- Ht. symmetry. apply firstn_skipn.
Qed.

(* two prefixes of the same string are comparable *)
Lemma prefixes_comparable : forall s p q, starts_with s p = true -> starts_with s q = true ->
  comparable p q = true.
Proof.
  induction s as [|y s IH]; intros p q Hp Hq.
  - destruct p; [|discriminate]. unfold comparable. destruct q; cbn; reflexivity.
  - destruct p as [|a p]; [unfold comparable; cbn [starts_with]; apply orb_true_r|].
    destruct q as [|b q]; [unfold comparable; cbn [starts_with]; reflexivity|].
    cbn [starts_with] in Hp, Hq. apply andb_true_iff in Hp, Hq. destruct Hp as [Ha Hp], Hq as [Hb Hq].
    apply Z.eqb_eq in Ha, Hb. subst a b. specialize (IH p q Hp Hq). unfold comparable in *.
    cbn [starts_with]. rewrite Z.eqb_refl. cbn [andb]. exact IH.
Qed.

Lemma comparable_sym : forall p q, comparable p q = comparable q p.
Proof. intros. unfold comparable. apply orb_comm. Qed.

(* ------------------------------------------------------------------ entries *)

Lemma entry_eqb_eq : forall e e', entry_eqb e e' = true -> e = e'.
Proof.
  intros [[[n p] x] a] [[[n' p'] x'] a'] H. unfold entry_eqb in H. cbn in H.
  repeat (apply andb_true_iff in H; destruct H as [H ?]).
  apply list_eqb_eq in H. apply list_eqb_eq in H2. apply list_eqb_eq in H1. apply eqb_prop in H0.
  subst. reflexivity.
Qed.

Section Table.
  Variable tbl : list entry.
  Hypothesis Hunamb : table_unambiguous tbl = true.

  Lemma unamb_zf : forall e, In e tbl -> comparable zfile_prefix (e_prefix e) = false.
  Proof.
    intros e He. unfold table_unambiguous in Hunamb. rewrite forallb_forall in Hunamb.
    specialize (Hunamb e He). apply andb_true_iff in Hunamb. destruct Hunamb as [H _].
    apply negb_true_iff in H. exact H.
  Qed.

  Lemma unamb_pair : forall e e', In e tbl -> In e' tbl ->
    comparable (e_prefix e) (e_prefix e') = true -> e = e'.
  Proof.
    intros e e' He He' Hc. unfold table_unambiguous in Hunamb. rewrite forallb_forall in Hunamb.
    specialize (Hunamb e He). apply andb_true_iff in Hunamb. destruct Hunamb as [_ H].
    rewrite forallb_forall in H. specialize (H e' He'). rewrite Hc in H. cbn in H.
    apply entry_eqb_eq. exact H.
  Qed.

  (* at most one entry of the table matches a given byte string *)
  Lemma match_unique : forall s e e', In e tbl -> In e' tbl ->
    starts_with s (e_prefix e) = true -> starts_with s (e_prefix e') = true -> e = e'.
  Proof.
    intros s e e' He He' H1 H2. apply unamb_pair; auto. eapply prefixes_comparable; eauto.
  Qed.

  Lemma zf_excludes : forall s e, In e tbl -> starts_with s (e_prefix e) = true ->
    starts_with s zfile_prefix = false.
  Proof.
    intros s e He H. destruct (starts_with s zfile_prefix) eqn:Hz; [|reflexivity].
    pose proof (prefixes_comparable s _ _ Hz H) as Hc. rewrite (unamb_zf e He) in Hc. discriminate.
  Qed.

  Lemma find_unique_perm : forall (f : entry -> bool) (l l' : list entry),
    (forall x y, In x l -> In y l -> f x = true -> f y = true -> x = y) ->
    Permutation l l' -> find f l = find f l'.
  Proof.
    intros f l l' Hu Hp.
    destruct (find f l) as [x|] eqn:Hx.
    - apply find_some in Hx. destruct Hx as [Hin Hfx].
      destruct (find f l') as [y|] eqn:Hy.
      + apply find_some in Hy. destruct Hy as [Hin' Hfy].
        f_equal. apply Hu; auto. eapply Permutation_in; [apply Permutation_sym; exact Hp | exact Hin'].
      + pose proof (find_none f l' Hy x (Permutation_in x Hp Hin)) as Hn. congruence.
    - destruct (find f l') as [y|] eqn:Hy; [|reflexivity].
      apply find_some in Hy. destruct Hy as [Hin' Hfy].
      pose proof (find_none f l Hx y (Permutation_in y (Permutation_sym Hp) Hin')) as Hn. congruence.
  Qed.

  (* detection does not depend on the order of the table *)
  Lemma detect_order_independent : forall tbl' fb, Permutation tbl tbl' ->
    detect_in tbl' fb = detect_in tbl fb.
  Proof.
    intros tbl' fb Hp. unfold detect_in. destruct (starts_with fb zfile_prefix); [reflexivity|].
    rewrite (find_unique_perm (fun e => starts_with fb (e_prefix e)) tbl tbl'); [reflexivity| |exact Hp].
    intros x y Hx Hy H1 H2. eapply match_unique; eauto.
  Qed.

  (* a stream that begins with the magic of a registered entry is detected as that entry, whatever follows *)
  Lemma detect_magic : forall e tail got, In e tbl -> (length (e_prefix e) <= got)%nat ->
    detect_in tbl (firstn got (e_prefix e ++ tail)) = KCodec (e_name e).
  Proof.
    intros e tail got He Hlen. unfold detect_in.
    assert (Hm : starts_with (firstn got (e_prefix e ++ tail)) (e_prefix e) = true).
    { rewrite starts_with_firstn by exact Hlen. apply starts_with_app. }
    rewrite (zf_excludes _ e He Hm).
    destruct (find (fun e0 => starts_with (firstn got (e_prefix e ++ tail)) (e_prefix e0)) tbl) as [e'|] eqn:Hf.
    - apply find_some in Hf. destruct Hf as [Hin' Hm'].
      rewrite (match_unique _ e' e Hin' He Hm' Hm). reflexivity.
    - pose proof (find_none _ _ Hf e He) as Hn. cbn beta in Hn. congruence.
  Qed.

  (* a compat file is detected as compat *)
  Lemma detect_compat : forall tail got, (length zfile_prefix <= got)%nat ->
    detect_in tbl (firstn got (zfile_prefix ++ tail)) = KCompat.
  Proof.
    intros. unfold detect_in. rewrite starts_with_firstn by assumption. rewrite starts_with_app. reflexivity.
  Qed.
End Table.

(* ------------------------------------------------------------------ pickle heads *)

Definition byte_ok (b : Z) : Prop := 0 <= b < 256.
Definition bytes_ok (l : bytes) : Prop := Forall byte_ok l.

Lemma byte_in_values : forall b, byte_ok b -> In b byte_values.
Proof.
  intros b [H0 H1]. unfold byte_values. rewrite <- (Z2Nat.id b H0). apply in_map. apply in_seq. lia.
Qed.

Lemma may_match2_of_starts : forall p b0 b1 tl, starts_with (b0 :: b1 :: tl) p = true -> may_match2 p b0 b1 = true.
Proof.
  intros p b0 b1 tl H. destruct p as [|x [|y p]]; cbn [may_match2]; [reflexivity| |].
  - cbn [starts_with] in H. apply andb_true_iff in H. tauto.
  - cbn [starts_with] in H. apply andb_true_iff in H. destruct H as [H1 H2].
    apply andb_true_iff in H2. destruct H2 as [H2 _]. rewrite H1, H2. reflexivity.
Qed.

(* an uncompressed pickle is never mistaken for a compressed or compat file *)
Lemma detect_pickle_plain : forall tbl payload got,
  pickle_heads_clear tbl = true -> bytes_ok payload -> pickle_startb payload = true ->
  detect_in tbl (firstn got payload) = KPlain.
Proof.
  intros tbl payload got Hclear Hok Hstart.
  destruct payload as [|b0 [|b1 tl]]; [discriminate Hstart | discriminate Hstart |]. cbn [pickle_startb] in Hstart.
  assert (Hb0 : byte_ok b0) by (inversion Hok; assumption).
  assert (Hb1 : byte_ok b1) by (inversion Hok as [|? ? ? H2]; inversion H2; assumption).
  unfold pickle_heads_clear in Hclear. rewrite forallb_forall in Hclear.
  specialize (Hclear b0 (byte_in_values b0 Hb0)). rewrite forallb_forall in Hclear.
  specialize (Hclear b1 (byte_in_values b1 Hb1)). rewrite Hstart in Hclear. cbn [negb orb] in Hclear.
  rewrite forallb_forall in Hclear.
  assert (Hno : forall p, In p (all_prefixes tbl) -> starts_with (firstn got (b0 :: b1 :: tl)) p = false).
  { intros p Hp. destruct (starts_with (firstn got (b0 :: b1 :: tl)) p) eqn:E; [|reflexivity].
    apply starts_with_firstn_weak in E. apply may_match2_of_starts in E.
    specialize (Hclear p Hp). rewrite E in Hclear. discriminate. }
  unfold detect_in. rewrite (Hno zfile_prefix) by (left; reflexivity).
  destruct (find _ tbl) as [e|] eqn:Hf; [|reflexivity].
  apply find_some in Hf. destruct Hf as [Hin Hm]. cbn beta in Hm.
  rewrite Hno in Hm; [discriminate|]. right. apply in_map. exact Hin.
Qed.

(* ------------------------------------------------------------------ extensions *)

Lemma find_app_last : forall (f : entry -> bool) l e,
  find f (l ++ [e]) = match find f l with Some x => Some x | None => if f e then Some e else None end.
Proof.
  induction l as [|y l IH]; intros e; cbn [find app]; [reflexivity|].
  destruct (f y); [reflexivity | apply IH].
Qed.

(* the extension loop keeps the LAST matching entry *)
Lemma ext_method_in_find : forall tbl fname acc,
  fold_left (fun acc e => if ends_with fname (e_ext e) then Some (e_name e) else acc) tbl acc =
  match find (fun e => ends_with fname (e_ext e)) (rev tbl) with Some e => Some (e_name e) | None => acc end.
Proof.
  induction tbl as [|e tbl IH]; intros fname acc; cbn [fold_left rev find]; [reflexivity|].
  rewrite IH, find_app_last. destruct (find _ (rev tbl)); [reflexivity|].
  destruct (ends_with fname (e_ext e)); reflexivity.
Qed.

Lemma ext_method_in_none : forall tbl fname,
  (forall e, In e tbl -> ends_with fname (e_ext e) = false) -> ext_method_in tbl fname = None.
Proof.
  intros tbl fname H. unfold ext_method_in. rewrite ext_method_in_find.
  destruct (find _ (rev tbl)) as [e|] eqn:Hf; [|reflexivity].
  apply find_some in Hf. destruct Hf as [Hin Hm]. rewrite <- in_rev in Hin. rewrite (H e Hin) in Hm. discriminate.
Qed.

Lemma ext_method_in_some : forall tbl fname n, ext_method_in tbl fname = Some n ->
  exists e, In e tbl /\ ends_with fname (e_ext e) = true /\ n = e_name e.
Proof.
  intros tbl fname n H. unfold ext_method_in in H. rewrite ext_method_in_find in H.
  destruct (find _ (rev tbl)) as [e|] eqn:Hf; [|discriminate].
  apply find_some in Hf. destruct Hf as [Hin Hm]. rewrite <- in_rev in Hin.
  injection H as <-. exists e. auto.
Qed.

(* with suffix-free extensions the matching entry is unique, so "last" is "the" *)
Lemma ext_method_in_unique : forall tbl fname e, ext_unambiguous tbl = true ->
  In e tbl -> ends_with fname (e_ext e) = true -> ext_method_in tbl fname = Some (e_name e).
Proof.
  intros tbl fname e Hu He Hm. unfold ext_method_in. rewrite ext_method_in_find.
  destruct (find _ (rev tbl)) as [e'|] eqn:Hf.
  - apply find_some in Hf. destruct Hf as [Hin' Hm']. rewrite <- in_rev in Hin'.
    unfold ext_unambiguous in Hu. rewrite forallb_forall in Hu. specialize (Hu e' Hin').
    rewrite forallb_forall in Hu. specialize (Hu e He).
    unfold ends_with in Hm, Hm'. rewrite (prefixes_comparable _ _ _ Hm' Hm) in Hu. cbn in Hu.
    apply entry_eqb_eq in Hu. subst. reflexivity.
  - pose proof (find_none _ _ Hf e) as Hn. rewrite <- in_rev in Hn. specialize (Hn He). cbn beta in Hn. congruence.
Qed.

(* ------------------------------------------------------------------ facts about the LIVE registry *)

Lemma live_table_unambiguous : table_unambiguous registry = true.
Proof. vm_compute. reflexivity. Qed.
Lemma live_ext_unambiguous : ext_unambiguous registry = true.
Proof. vm_compute. reflexivity. Qed.
Lemma live_names_distinct : names_distinct (map e_name registry) = true.
Proof. vm_compute. reflexivity. Qed.
(* sweep over all 256 x 256 two-byte heads *)
Lemma live_pickle_heads_clear : pickle_heads_clear registry = true.
Proof. vm_compute. reflexivity. Qed.
Lemma live_zlib_registered : in_registry zlib_name = true.
Proof. vm_compute. reflexivity. Qed.
Lemma live_max_prefix_len_ok : max_prefix_len = live_max_prefix_len.
Proof. vm_compute. reflexivity. Qed.
Lemma live_prefix_lengths : forallb (fun e => (length (e_prefix e) <=? max_prefix_len)%nat) registry = true.
Proof. vm_compute. reflexivity. Qed.
Lemma live_zf_length : (length zfile_prefix <= max_prefix_len)%nat.
Proof. vm_compute. lia. Qed.
Lemma zlib_is_not_lz4 : list_eqb zlib_name lz4_name = false.
Proof. vm_compute. reflexivity. Qed.
(* the fallback compressor of _write_fileobject is dump's default method; levels are range(10) *)
Lemma live_fallback_is_default : fallback_name = zlib_name.
Proof. vm_compute. reflexivity. Qed.
Lemma live_level_stop : dump_level_stop = 10.
Proof. vm_compute. reflexivity. Qed.

Lemma prefix_len_le : forall e, In e registry -> (length (e_prefix e) <= max_prefix_len)%nat.
Proof.
  intros e He. pose proof live_prefix_lengths as H. rewrite forallb_forall in H.
  specialize (H e He). apply Nat.leb_le in H. exact H.
Qed.

Lemma lookup_sound : forall n e, lookup n = Some e -> In e registry /\ e_name e = n.
Proof.
  intros n e H. unfold lookup, lookup_in in H. apply find_some in H. destruct H as [Hin Heq].
  apply list_eqb_eq in Heq. auto.
Qed.

Lemma in_registry_lookup : forall n, in_registry n = true -> exists e, lookup n = Some e.
Proof. intros n H. unfold in_registry in H. destruct (lookup n) as [e|]; [eauto | discriminate]. Qed.

Lemma write_codec_registered : forall m, in_registry (write_codec m) = true.
Proof.
  intros [n|]; cbn [write_codec]; rewrite ?live_fallback_is_default; [|exact live_zlib_registered].
  destruct (in_registry n) eqn:E; [exact E | exact live_zlib_registered].
Qed.

(* ------------------------------------------------------------------ detection of the live table *)

Lemma detect_registered : forall e tail got, In e registry -> (max_prefix_len <= got)%nat ->
  detect got (e_prefix e ++ tail) = KCodec (e_name e).
Proof.
  intros e tail got He Hg. unfold detect. apply detect_magic; [exact live_table_unambiguous | exact He |].
  pose proof (prefix_len_le e He). lia.
Qed.

Lemma detect_pickle : forall payload got, bytes_ok payload -> pickle_startb payload = true ->
  detect got payload = KPlain.
Proof. intros payload got H1 H2. unfold detect. exact (detect_pickle_plain registry payload got live_pickle_heads_clear H1 H2). Qed.

(* ------------------------------------------------------------------ round trip of the stream layer *)

Section RoundTrip.
  Variable encode : list Z -> level -> bytes -> bytes.
  Variable decode : list Z -> bytes -> result bytes.
  (* the codecs (zlib via BinaryZlibFile, gzip, bz2, lzma, xz, lz4) are external code: *)
  Hypothesis codec_roundtrip : forall c l x, codec_available c = true -> decode c (encode c l x) = Ok x.
  Hypothesis codec_magic : forall c l x e, lookup c = Some e -> e_avail e = true ->
    starts_with (encode c l x) (e_prefix e) = true.

  Lemma skipn_pre : forall (pre out : bytes), skipn (length pre) (pre ++ out) = out.
  Proof.
    intros. rewrite skipn_app, skipn_all, Nat.sub_diag. reflexivity.
  Qed.

  Lemma roundtrip_stream : forall w payload out load_name peekable got pre,
    dump_stream encode w payload = Ok out ->
    bytes_ok payload -> pickle_startb payload = true -> (max_prefix_len <= got)%nat ->
    (peekable = true \/ pre = []) ->
    load_stream decode load_name peekable got (pre ++ out) (length pre) = Ok payload.
  Proof.
    intros w payload out load_name peekable got pre Hd Hok Hstart Hgot Hpos.
    unfold load_stream. assert (Hp : pos_after_detect peekable (length pre) = length pre)
      by (unfold pos_after_detect; destruct Hpos as [-> | ->]; [reflexivity | destruct peekable; reflexivity]).
    rewrite Hp, skipn_pre. destruct w as [|m l]; cbn [dump_stream] in Hd.
    - injection Hd as <-. rewrite detect_pickle by assumption. reflexivity.
    - destruct (codec_available (write_codec m)) eqn:Hav; [|discriminate]. injection Hd as <-.
      destruct (in_registry_lookup _ (write_codec_registered m)) as [e He].
      destruct (lookup_sound _ _ He) as [Hin Hname].
      assert (Havail : e_avail e = true) by (unfold codec_available in Hav; rewrite He in Hav; exact Hav).
      pose proof (codec_magic (write_codec m) l payload e He Havail) as Hm.
      apply starts_with_iff in Hm. destruct Hm as [tail Ht]. rewrite Ht.
      rewrite detect_registered by assumption. rewrite Hname, Hav, <- Ht.
      apply codec_roundtrip. exact Hav.
  Qed.

  (* dump raises only where the code raises: resolve's ValueErrors, or a compressor whose module is missing *)
  Lemma dump_stream_total : forall w payload, (forall c l, effective w = Some (c, l) -> codec_available c = true) ->
    exists out, dump_stream encode w payload = Ok out.
  Proof.
    intros [|m l] payload H; cbn [dump_stream]; [eauto|].
    rewrite (H (write_codec m) l eq_refl). eauto.
  Qed.
End RoundTrip.

(* ------------------------------------------------------------------ resolve against the documented table *)

Lemma level_valid_int : forall n, level_valid (LInt n) = true <-> 0 <= n <= 9.
Proof. intro n. cbn [level_valid]. rewrite live_level_stop, andb_true_iff, Z.leb_le, Z.ltb_lt. lia. Qed.

Lemma resolve_tuple_bad : forall t, resolve CTupleBad t = Raise ValueError.
Proof. reflexivity. Qed.

Lemma resolve_invalid_target : forall c, resolve c TInvalid = Raise ValueError.
Proof.
  intros c. unfold resolve. destruct c; try reflexivity;
  repeat match goal with |- context [if ?b then _ else _] => destruct b end; reflexivity.
Qed.

Lemma resolve_true_fileobj : resolve CTrue TFileObj = Ok (WComp (Some zlib_name) LNone).
Proof. unfold resolve. rewrite zlib_is_not_lz4, live_zlib_registered. reflexivity. Qed.

Lemma resolve_none_is_true : forall t, resolve CNone t = resolve CTrue t.
Proof. reflexivity. Qed.

Lemma resolve_int_fileobj : forall n, 1 <= n <= 9 ->
  resolve (CInt n) TFileObj = Ok (WComp (Some zlib_name) (LInt n)).
Proof.
  intros n Hn. unfold resolve. rewrite zlib_is_not_lz4, live_zlib_registered. cbn [andb negb].
  destruct (level_valid (LInt n)) eqn:E; [|apply not_true_iff_false in E; rewrite level_valid_int in E; lia].
  cbn [negb]. unfold finish. cbn [level_is_zero]. destruct (n =? 0) eqn:E0; [apply Z.eqb_eq in E0; lia | reflexivity].
Qed.

Lemma resolve_zero_fileobj : resolve (CInt 0) TFileObj = Ok WPlain.
Proof. unfold resolve. rewrite zlib_is_not_lz4, live_zlib_registered. reflexivity. Qed.

Lemma resolve_int_bad : forall n t, n < 0 \/ 9 < n -> resolve (CInt n) t = Raise ValueError.
Proof.
  intros n t Hn. unfold resolve. rewrite zlib_is_not_lz4. cbn [andb].
  destruct (level_valid (LInt n)) eqn:E; [apply level_valid_int in E; lia | reflexivity].
Qed.

(* a name / a (name, level) tuple: the file name plays no role *)
Lemma resolve_tuple : forall m l t, t <> TInvalid ->
  (list_eqb m lz4_name && negb lz4_installed) = false -> level_valid l = true -> in_registry m = true ->
  resolve (CTuple2 m l) t = if level_is_zero l then Ok WPlain else Ok (WComp (Some m) l).
Proof.
  intros m l t Ht H1 H2 H3. unfold resolve. rewrite H1, H2, H3. cbn [negb].
  destruct t; [reflexivity | reflexivity | congruence].
Qed.

Lemma resolve_name : forall s t, t <> TInvalid ->
  (list_eqb s lz4_name && negb lz4_installed) = false -> in_registry s = true ->
  resolve (CName s) t = Ok (WComp (Some s) LNone).
Proof.
  intros s t Ht H1 H3. unfold resolve. rewrite H1, H3. cbn [level_valid negb].
  destruct t; [reflexivity | reflexivity | congruence].
Qed.

Lemma resolve_unknown_method : forall m l t, in_registry m = false ->
  resolve (CTuple2 m l) t = Raise ValueError /\ resolve (CName m) t = Raise ValueError.
Proof.
  intros m l t H. unfold resolve. rewrite H. cbn [negb level_valid].
  split; repeat match goal with |- context [if ?b then _ else _] => destruct b end; reflexivity.
Qed.

Lemma resolve_lz4_missing : forall l t, lz4_installed = false ->
  resolve (CTuple2 lz4_name l) t = Raise ValueError /\ resolve (CName lz4_name) t = Raise ValueError.
Proof. intros l t H. unfold resolve. rewrite H, list_eqb_refl. split; reflexivity. Qed.

Lemma resolve_level_bad : forall m n t, n < 0 \/ 9 < n ->
  resolve (CTuple2 m (LInt n)) t = Raise ValueError.
Proof.
  intros m n t Hn. unfold resolve.
  destruct (list_eqb m lz4_name && negb lz4_installed); [reflexivity|].
  destruct (level_valid (LInt n)) eqn:E; [apply level_valid_int in E; lia | reflexivity].
Qed.

(* path targets: the extension decides, for every file name *)
Lemma resolve_path_ext : forall fname e c, In e registry -> ends_with fname (e_ext e) = true ->
  (c = CTrue \/ c = CNone \/ c = CInt 0) ->
  resolve c (TPath fname) = Ok (WComp (Some (e_name e)) LNone).
Proof.
  intros fname e c He Hm Hc.
  assert (Hx : ext_method fname = Some (e_name e))
    by (apply ext_method_in_unique; auto using live_ext_unambiguous).
  assert (Hr : in_registry (e_name e) = true).
  { unfold in_registry, lookup, lookup_in.
    destruct (find (fun e0 => list_eqb (e_name e0) (e_name e)) registry) eqn:Hf; [reflexivity|].
    pose proof (find_none _ _ Hf e He) as Hn. cbn beta in Hn. rewrite list_eqb_refl in Hn. discriminate. }
  destruct Hc as [-> | [-> | ->]]; unfold resolve; rewrite zlib_is_not_lz4, live_zlib_registered;
    cbn [andb negb level_valid Z.leb Z.ltb Z.compare]; rewrite Hx, Hr; reflexivity.
Qed.

Lemma resolve_path_ext_level : forall fname e n, In e registry -> ends_with fname (e_ext e) = true ->
  1 <= n <= 9 -> resolve (CInt n) (TPath fname) = Ok (WComp (Some (e_name e)) (LInt n)).
Proof.
  intros fname e n He Hm Hn.
  assert (Hx : ext_method fname = Some (e_name e))
    by (apply ext_method_in_unique; auto using live_ext_unambiguous).
  unfold resolve. rewrite zlib_is_not_lz4, live_zlib_registered. cbn [andb negb].
  destruct (level_valid (LInt n)) eqn:E; [|apply not_true_iff_false in E; rewrite level_valid_int in E; lia].
  cbn [negb]. rewrite Hx. cbn [level_is_zero].
  destruct (n =? 0) eqn:E0; [apply Z.eqb_eq in E0; lia|]. rewrite andb_false_r. unfold finish.
  cbn [level_is_zero]. rewrite E0. reflexivity.
Qed.

(* no extension matches: zlib when compression was asked for, plain otherwise *)
Lemma resolve_path_noext : forall fname, (forall e, In e registry -> ends_with fname (e_ext e) = false) ->
  (resolve (CInt 0) (TPath fname) = Ok WPlain) /\
  (resolve CTrue (TPath fname) = Ok (WComp None LNone)) /\
  (forall n, 1 <= n <= 9 -> resolve (CInt n) (TPath fname) = Ok (WComp None (LInt n))) /\
  write_codec None = zlib_name.
Proof.
  intros fname H. pose proof (ext_method_in_none registry fname H) as Hx. fold (ext_method fname) in Hx.
  repeat split.
  - unfold resolve. rewrite zlib_is_not_lz4, live_zlib_registered. cbn [andb negb level_valid Z.leb Z.ltb Z.compare].
    rewrite Hx. reflexivity.
  - unfold resolve. rewrite zlib_is_not_lz4, live_zlib_registered. cbn [andb negb level_valid]. rewrite Hx. reflexivity.
  - intros n Hn. unfold resolve. rewrite zlib_is_not_lz4, live_zlib_registered. cbn [andb negb].
    destruct (level_valid (LInt n)) eqn:E; [|apply not_true_iff_false in E; rewrite level_valid_int in E; lia].
    cbn [negb]. rewrite Hx. cbn [andb]. unfold finish. cbn [level_is_zero].
    destruct (n =? 0) eqn:E0; [apply Z.eqb_eq in E0; lia | reflexivity].
Qed.

(* whatever resolve accepts is a registered compressor with a level in 1..9 or the default *)
Lemma resolve_ok_wellformed : forall c t w, resolve c t = Ok w ->
  match effective w with
  | None => True
  | Some (codec, l) => in_registry codec = true /\ (l = LNone \/ exists n, l = LInt n /\ 1 <= n <= 9)
  end.
Proof.
  intros c t w H. destruct w as [|m l]; cbn [effective]; [exact I|].
  split; [apply write_codec_registered|].
  unfold resolve in H.
  destruct c as [| |n|s|m0 l0|]; cbn beta iota in H; try discriminate;
  repeat match type of H with
         | context [if ?b then _ else _] => let E := fresh "E" in destruct b eqn:E; try discriminate
         | context [match ?t with TPath _ => _ | TFileObj => _ | TInvalid => _ end] => destruct t; try discriminate
         end;
  unfold finish in H;
  repeat match type of H with
         | context [if ?b then _ else _] => let E := fresh "E" in destruct b eqn:E; try discriminate
         end;
  injection H as _ <-; auto;
  match goal with
  | Hv : negb (level_valid ?l) = false, Hz : level_is_zero ?l = false |- _ =>
      destruct l as [|k]; [left; reflexivity | right; exists k; split; [reflexivity|];
      apply negb_false_iff in Hv; apply level_valid_int in Hv; cbn [level_is_zero] in Hz;
      apply Z.eqb_neq in Hz; lia]
  end.
Qed.

(* ------------------------------------------------------------------ load(): the dispatch is total and as documented *)

Definition plain_or_available (k : kind) : Prop :=
  match k with KPlain => True | KCodec c => codec_available c = true | KCompat => False end.

Lemma load_dispatch : forall s mmap na k, plain_or_available k ->
  let native := match na with NAuto => negb mmap | NTrue => true | NFalse => false end in
  (* the only error: native byte order demanded together with an mmap_mode *)
  (load_decide s mmap na k = Raise ValueError <-> (na = NTrue /\ mmap = true)) /\
  (* otherwise a plan *)
  ((na = NTrue /\ mmap = true) \/ exists p, load_decide s mmap na k = Ok p /\
     lp_native p = native /\
     (* memory mapping happens exactly for: a path, an uncompressed file, an mmap_mode *)
     (lp_mmap p = true <-> s = SPath /\ k = KPlain /\ mmap = true) /\
     (* a memory-mapped load never coerces the byte order (the assert in NumpyArrayWrapper.read cannot fire) *)
     (lp_mmap p = true -> lp_native p = false) /\
     (* the documented warnings, exactly when an mmap_mode is given and cannot be honoured ... *)
     (lp_warn p = WCompressed <-> mmap = true /\ k <> KPlain) /\
     (lp_warn p = WBytesIO <-> mmap = true /\ k = KPlain /\ s = SBytesIO) /\
     (lp_warn p = WNotRaw <-> mmap = true /\ k = KPlain /\ s = SOtherObj) /\
     (* ... except for an open raw file: silently a copy *)
     (s = SRawFile -> k = KPlain -> lp_warn p = WNone /\ lp_mmap p = false)).
Proof.
  intros s mmap na k Hk native.
  destruct k as [|c|]; cbn in Hk; try contradiction;
  destruct s, mmap, na; unfold load_decide, validate_mmap, is_raw; cbn [negb andb]; rewrite ?Hk; cbn [negb];
  (split; [split; [intros H; try discriminate H; auto | intros [H1 H2]; try discriminate; reflexivity]|]);
  try (left; split; reflexivity);
  right; eexists; (split; [reflexivity|]); cbn [lp_mmap lp_native lp_warn];
  repeat match goal with |- _ /\ _ => split | |- _ <-> _ => split end;
  try reflexivity; try discriminate; try tauto; try congruence;
  try (intros H; decompose [and] H; try discriminate; try congruence; try tauto);
  try (intros; split; reflexivity);
  try (split; [reflexivity | discriminate]).
Qed.

(* a missing backing module (lz4) or an old compat file never reaches the unpickler *)
Lemma load_decide_unavailable : forall s mmap na c, codec_available c = false ->
  load_decide s mmap na (KCodec c) = Raise ValueError.
Proof.
  intros s mmap na c H. unfold load_decide. rewrite H. cbn [negb].
  destruct (_ && mmap); reflexivity.
Qed.

(* ------------------------------------------------------------------ the hypotheses are satisfiable *)

(* a toy codec family: the magic followed by the payload *)
Definition toy_encode (c : list Z) (l : level) (x : bytes) : bytes :=
  match lookup c with Some e => e_prefix e ++ x | None => x end.
Definition toy_decode (c : list Z) (s : bytes) : result bytes :=
  match lookup c with Some e => Ok (skipn (length (e_prefix e)) s) | None => Ok s end.

Lemma toy_roundtrip : forall c l x, codec_available c = true -> toy_decode c (toy_encode c l x) = Ok x.
Proof.
  intros c l x _. unfold toy_decode, toy_encode. destruct (lookup c) as [e|]; [|reflexivity].
  rewrite skipn_app, skipn_all, Nat.sub_diag. reflexivity.
Qed.

Lemma toy_magic : forall c l x e, lookup c = Some e -> e_avail e = true ->
  starts_with (toy_encode c l x) (e_prefix e) = true.
Proof. intros c l x e H _. unfold toy_encode. rewrite H. apply starts_with_app. Qed.

(* "gzip" named explicitly, target "model.pkl.xz" (the name is ignored for a named method), loaded
   from a peekable file object at offset 3 under the name "whatever.bz2" *)
Lemma toy_instance :
  let payload := [128; 4; 75; 7; 46] in
  resolve (CName [103; 122; 105; 112]) (TPath [109; 46; 120; 122]) = Ok (WComp (Some [103; 122; 105; 112]) LNone) /\
  dump_stream toy_encode (WComp (Some [103; 122; 105; 112]) LNone) payload = Ok ([31; 139] ++ payload) /\
  load_stream toy_decode [119; 46; 98; 122; 50] true 5 ([1; 2; 3] ++ [31; 139] ++ payload) 3 = Ok payload.
Proof. vm_compute. repeat match goal with |- _ /\ _ => split end; reflexivity. Qed.

(* ------------------------------------------------------------------ packaged statements for Props/C03.v *)

Lemma detect_total_unambiguous :
  (* (1) pairwise incomparable prefixes, none comparable with the compat marker, distinct names *)
  ((forall e e', In e registry -> In e' registry -> e <> e' -> comparable (e_prefix e) (e_prefix e') = false) /\
   (forall e, In e registry -> comparable zfile_prefix (e_prefix e) = false) /\
   names_distinct (map e_name registry) = true) /\
  (* (2) hence the decision does not depend on the order of the table *)
  (forall tbl' first_bytes, Permutation registry tbl' -> detect_in tbl' first_bytes = detect_in registry first_bytes) /\
  (* (3) magic ++ ANY tail is detected as that codec; the compat marker as compat *)
  (forall e tail got, In e registry -> (max_prefix_len <= got)%nat ->
     detect got (e_prefix e ++ tail) = KCodec (e_name e)) /\
  (forall tail got, (max_prefix_len <= got)%nat -> detect got (zfile_prefix ++ tail) = KCompat) /\
  (* (4) a pickle of protocol 0..highest is never mistaken (all 256 x 256 two-byte heads swept) *)
  (forall payload got, bytes_ok payload -> pickle_startb payload = true -> detect got payload = KPlain) /\
  (* the model's prefix window is the live _get_prefixes_max_len() *)
  max_prefix_len = live_max_prefix_len.
Proof.
  repeat match goal with |- _ /\ _ => split end.
  - intros e e' He He' Hne. destruct (comparable (e_prefix e) (e_prefix e')) eqn:E; [|reflexivity].
    exfalso. apply Hne. exact (unamb_pair registry live_table_unambiguous e e' He He' E).
  - exact (unamb_zf registry live_table_unambiguous).
  - exact live_names_distinct.
  - intros. apply detect_order_independent; [exact live_table_unambiguous | assumption].
  - exact detect_registered.
  - intros tail got Hg. unfold detect. apply detect_compat. pose proof live_zf_length. lia.
  - exact detect_pickle.
  - exact live_max_prefix_len_ok.
Qed.

Definition lz4_blocked (m : list Z) : bool := list_eqb m lz4_name && negb lz4_installed.

Lemma resolve_spec :
  (* compress=True / None on a file object: zlib, default level; an int 1..9: zlib at that level; 0 / False: plain *)
  resolve CTrue TFileObj = Ok (WComp (Some zlib_name) LNone) /\
  (forall t, resolve CNone t = resolve CTrue t) /\
  (forall n, 1 <= n <= 9 -> resolve (CInt n) TFileObj = Ok (WComp (Some zlib_name) (LInt n))) /\
  resolve (CInt 0) TFileObj = Ok WPlain /\
  (* errors *)
  (forall n t, n < 0 \/ 9 < n -> resolve (CInt n) t = Raise ValueError) /\
  (forall m n t, n < 0 \/ 9 < n -> resolve (CTuple2 m (LInt n)) t = Raise ValueError) /\
  (forall t, resolve CTupleBad t = Raise ValueError) /\
  (forall c, resolve c TInvalid = Raise ValueError) /\
  (forall m l t, in_registry m = false ->
     resolve (CTuple2 m l) t = Raise ValueError /\ resolve (CName m) t = Raise ValueError) /\
  (forall l t, lz4_installed = false ->
     resolve (CTuple2 lz4_name l) t = Raise ValueError /\ resolve (CName lz4_name) t = Raise ValueError) /\
  (* a method named explicitly wins over the file name, for every target and name *)
  (forall s t, t <> TInvalid -> lz4_blocked s = false -> in_registry s = true ->
     resolve (CName s) t = Ok (WComp (Some s) LNone)) /\
  (forall m l t, t <> TInvalid -> lz4_blocked m = false -> level_valid l = true -> in_registry m = true ->
     resolve (CTuple2 m l) t = if level_is_zero l then Ok WPlain else Ok (WComp (Some m) l)) /\
  (* path targets: the extension selects the compressor, for every file name carrying it *)
  (forall fname e c, In e registry -> ends_with fname (e_ext e) = true -> (c = CTrue \/ c = CNone \/ c = CInt 0) ->
     resolve c (TPath fname) = Ok (WComp (Some (e_name e)) LNone)) /\
  (forall fname e n, In e registry -> ends_with fname (e_ext e) = true -> 1 <= n <= 9 ->
     resolve (CInt n) (TPath fname) = Ok (WComp (Some (e_name e)) (LInt n))) /\
  (* no extension matches *)
  (forall fname, (forall e, In e registry -> ends_with fname (e_ext e) = false) ->
     resolve (CInt 0) (TPath fname) = Ok WPlain /\
     resolve CTrue (TPath fname) = Ok (WComp None LNone) /\
     (forall n, 1 <= n <= 9 -> resolve (CInt n) (TPath fname) = Ok (WComp None (LInt n))) /\
     write_codec None = zlib_name) /\
  (* whatever is accepted names a registered compressor and a level in 1..9 or the default *)
  (forall c t w, resolve c t = Ok w ->
     match effective w with
     | None => True
     | Some (codec, l) => in_registry codec = true /\ (l = LNone \/ exists n, l = LInt n /\ 1 <= n <= 9)
     end).
Proof.
  repeat match goal with |- _ /\ _ => split end.
  - exact resolve_true_fileobj.
  - exact resolve_none_is_true.
  - exact resolve_int_fileobj.
  - exact resolve_zero_fileobj.
  - exact resolve_int_bad.
  - exact resolve_level_bad.
  - exact resolve_tuple_bad.
  - exact resolve_invalid_target.
  - exact resolve_unknown_method.
  - exact resolve_lz4_missing.
  - exact resolve_name.
  - exact resolve_tuple.
  - exact resolve_path_ext.
  - exact resolve_path_ext_level.
  - exact resolve_path_noext.
  - exact resolve_ok_wellformed.
Qed.
