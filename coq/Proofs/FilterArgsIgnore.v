(* The ignore list of filter_args: it removes exactly the named entries (for EVERY signature and call,
   inside or outside the fragment), and raises ValueError when an item is not a key or is repeated. *)
From Coq Require Import ZArith List Bool Lia.
Require Import JV.Base.PyPrelude JV.Model.FilterArgs JV.Proofs.FilterArgsBase JV.Proofs.FilterArgs.
Import ListNotations.
Open Scope Z_scope.

Fixpoint key_nodupb (l : list key) : bool :=
  match l with [] => true | k :: t => negb (key_mem k t) && key_nodupb t end.

Lemma key_nodupb_NoDup l : key_nodupb l = true <-> NoDup l.
Proof.
  induction l as [|x l IH]; cbn [key_nodupb].
  - split; [constructor | reflexivity].
  - rewrite andb_true_iff, negb_true_iff, IH. rewrite <- not_true_iff_false, key_mem_In. split.
    + intros [H1 H2]. constructor; assumption.
    + intros H. inversion H; subst. split; assumption.
Qed.

Lemma filter_filter {A} (f g : A -> bool) l : filter f (filter g l) = filter (fun x => g x && f x) l.
Proof.
  induction l as [|x t IH]; cbn [filter]; [reflexivity|].
  destruct (g x); cbn [filter andb]; [destruct (f x)|]; rewrite IH; reflexivity.
Qed.

Lemma NoDup_map_filter {A B} (f : A -> B) (g : A -> bool) l : NoDup (map f l) -> NoDup (map f (filter g l)).
Proof.
  induction l as [|x t IH]; cbn [map filter]; [intros H; exact H|]. intros H. apply NoDup_cons_iff in H.
  destruct H as [Hx Ht]. destruct (g x); [|apply IH; exact Ht]. cbn [map]. constructor; [|apply IH; exact Ht].
  intros Hin. apply Hx. rewrite in_map_iff in *. destruct Hin as (y & E & Hy). apply filter_In in Hy.
  exists y. split; [exact E | apply Hy].
Qed.

Lemma dmem_filter k g d : NoDup (map fst d) ->
  (forall v v', g (k, v) = g (k, v')) ->
  dmem k (filter g d) = dmem k d && match dget k d with Some v => g (k, v) | None => true end.
Proof.
  intros Hnd Hg. unfold dmem. induction d as [|[k' v'] t IH]; cbn [filter dget]; [reflexivity|].
  cbn [map fst] in Hnd. apply NoDup_cons_iff in Hnd. destruct Hnd as [Hk' Ht].
  destruct (key_eqb k' k) eqn:E.
  - apply key_eqb_eq in E. subst k'. destruct (g (k, v')) eqn:Eg; cbn [dget andb].
    + rewrite key_eqb_refl. reflexivity.
    + assert (Hno : dget k (filter g t) = None).
      { destruct (dget k (filter g t)) eqn:Ed; [|reflexivity]. exfalso. apply dget_In in Ed. apply filter_In in Ed.
        apply Hk'. change k with (fst (k, a)). apply in_map. apply Ed. }
      rewrite Hno. reflexivity.
  - destruct (g (k', v')); cbn [dget]; rewrite ?E; apply IH; exact Ht.
Qed.

Lemma dmem_dpop k' k d : NoDup (map fst d) -> dmem k' (dpop k d) = dmem k' d && negb (key_eqb k' k).
Proof.
  intros Hnd. rewrite dpop_filter by exact Hnd. rewrite dmem_filter by (exact Hnd || reflexivity).
  cbn [fst]. unfold dmem. destruct (dget k' d); [reflexivity|]. reflexivity.
Qed.

Lemma ignore_loop_spec : forall ign d, NoDup (map fst d) ->
  ignore_loop ign d =
  if key_nodupb ign && forallb (fun k => dmem k d) ign
  then Ok (filter (fun kv => negb (key_mem (fst kv) ign)) d) else Raise ValueError.
Proof.
  induction ign as [|k t IH]; intros d Hnd; cbn [ignore_loop key_nodupb forallb].
  - cbn [andb]. rewrite filter_all_true; [reflexivity|]. intros x _. reflexivity.
  - destruct (dmem k d) eqn:Ek.
    + rewrite IH by (rewrite dpop_filter by exact Hnd; apply NoDup_map_filter; exact Hnd).
      assert (Hfa : forallb (fun k' => dmem k' (dpop k d)) t = forallb (fun k' => dmem k' d) t && negb (key_mem k t)).
      { clear IH. induction t as [|x t IHt]; cbn [forallb key_mem existsb]; [reflexivity|].
        fold (key_mem k t). rewrite IHt, dmem_dpop by exact Hnd.
        assert (Esym : key_eqb x k = key_eqb k x).
        { destruct (key_eqb x k) eqn:E1, (key_eqb k x) eqn:E2; try reflexivity.
          - apply key_eqb_eq in E1. subst. rewrite key_eqb_refl in E2. discriminate.
          - apply key_eqb_eq in E2. subst. rewrite key_eqb_refl in E1. discriminate. }
        rewrite Esym. destruct (dmem x d), (key_eqb k x), (forallb (fun k' => dmem k' d) t), (key_mem k t); reflexivity. }
      rewrite Hfa. cbn [andb].
      destruct (key_mem k t), (key_nodupb t), (forallb (fun k' => dmem k' d) t); cbn [negb andb]; try reflexivity.
      rewrite dpop_filter by exact Hnd. rewrite filter_filter. f_equal. apply filter_ext_in_eq. intros [k2 v2] _.
      cbn [fst key_mem existsb]. fold (key_mem k2 t). destruct (key_eqb k2 k), (key_mem k2 t); reflexivity.
    + cbn [andb]. rewrite andb_false_r. reflexivity.
Qed.

(* ------------------------------------------------------------------ the result never has a repeated key *)
Lemma named_loop_nodup args kw kwonly defaults nlen : forall names i d d',
  NoDup (map fst d) -> named_loop args kw kwonly defaults nlen names i d = Ok d' -> NoDup (map fst d').
Proof.
  induction names as [|nm t IH]; intros i d d' Hnd H; cbn [named_loop] in H.
  - injection H as <-. exact Hnd.
  - destruct (named_step args kw kwonly defaults nlen i nm d) as [d1|e] eqn:Es; [|discriminate]. cbn [bind] in H.
    apply (IH _ _ _) in H; [exact H|]. clear H IH. unfold named_step in Es.
    destruct (i <? len args).
    + destruct (negb (name_mem nm kwonly)); [|discriminate]. destruct (py_index args i); [|discriminate].
      cbn [bind] in Es. injection Es as <-. apply dset_nodup. exact Hnd.
    + destruct (kw_lookup nm kw).
      * injection Es as <-. apply dset_nodup. exact Hnd.
      * destruct (py_index defaults (i - nlen)) as [v|e].
        -- injection Es as <-. apply dset_nodup. exact Hnd.
        -- destruct e; discriminate.
Qed.

Lemma kw_loop_nodup varkw : forall items d vk d' vk',
  NoDup (map fst d) -> kw_loop varkw items d vk = Ok (d', vk') -> NoDup (map fst d').
Proof.
  induction items as [|[k v] t IH]; intros d vk d' vk' Hnd H; cbn [kw_loop] in H.
  - injection H as <- _. exact Hnd.
  - destruct (dmem (KName k) d).
    + eapply IH; [|exact H]. apply dset_nodup. exact Hnd.
    + destruct varkw; [|discriminate]. eapply IH; [|exact H]. exact Hnd.
Qed.

Lemma ignore_loop_nil d : ignore_loop [] d = Ok d.
Proof. reflexivity. Qed.

Lemma model_nodup_keys s meth c d : filter_args_model s [] meth c = Ok d -> NoDup (map fst d).
Proof.
  rewrite fa_unfold. cbv zeta. intros H.
  match type of H with bind ?X _ = _ => destruct X as [d1|e] eqn:E1; [|discriminate] end. cbn [bind] in H.
  apply named_loop_nodup in E1; [|constructor]. unfold fa_tail in H.
  match type of H with bind ?X _ = _ => destruct X as [[d2 vk]|e] eqn:E2; [|discriminate] end. cbn [bind fst snd] in H.
  apply kw_loop_nodup in E2; [|exact E1]. cbn [ignore_loop] in H. injection H as <-.
  destruct (sc_varkw (scan_sig s)), (sc_varargs (scan_sig s)); repeat apply dset_nodup; exact E2.
Qed.

Lemma ignore_factor s ign meth c :
  filter_args_model s ign meth c = bind (filter_args_model s [] meth c) (ignore_loop ign).
Proof.
  rewrite !fa_unfold. cbv zeta.
  match goal with |- bind ?X _ = _ => destruct X as [d1|e]; [|reflexivity] end. cbn [bind]. unfold fa_tail.
  match goal with |- bind ?X _ = _ => destruct X as [[d2 vk]|e]; [|reflexivity] end. reflexivity.
Qed.

Theorem ignore_removes : forall s meth c ign d,
  filter_args_model s [] meth c = Ok d ->
  NoDup ign -> (forall k, In k ign -> In k (map fst d)) ->
  filter_args_model s ign meth c = Ok (filter (fun kv => negb (key_mem (fst kv) ign)) d).
Proof.
  intros s meth c ign d H Hnd Hin. rewrite ignore_factor, H. cbn [bind].
  rewrite ignore_loop_spec by (eapply model_nodup_keys; exact H).
  apply key_nodupb_NoDup in Hnd. rewrite Hnd.
  assert (Hall : forallb (fun k => dmem k d) ign = true)
    by (apply forallb_forall; intros k Hk; apply dmem_In; apply Hin; exact Hk).
  rewrite Hall. reflexivity.
Qed.

Theorem ignore_exactly : forall s meth c ign d d',
  filter_args_model s [] meth c = Ok d -> filter_args_model s ign meth c = Ok d' ->
  NoDup (map fst d) /\ NoDup ign /\ (forall k, In k ign -> In k (map fst d)) /\
  forall k v, In (k, v) d' <-> In (k, v) d /\ ~ In k ign.
Proof.
  intros s meth c ign d d' H H'. pose proof (model_nodup_keys _ _ _ _ H) as Hnd.
  rewrite ignore_factor, H in H'. cbn [bind] in H'. rewrite ignore_loop_spec in H' by exact Hnd.
  destruct (key_nodupb ign && forallb (fun k => dmem k d) ign) eqn:E; [|discriminate].
  injection H' as <-. apply andb_true_iff in E. destruct E as [E1 E2]. repeat split.
  - exact Hnd.
  - apply key_nodupb_NoDup. exact E1.
  - intros k Hk. apply dmem_In. rewrite forallb_forall in E2. apply E2. exact Hk.
  - apply filter_In in H0. apply H0.
  - apply filter_In in H0. destruct H0 as [_ H0]. cbn [fst] in H0. apply negb_true_iff in H0.
    rewrite <- key_mem_In. rewrite H0. discriminate.
  - intros [H1 H2]. apply filter_In. split; [exact H1|]. cbn [fst]. apply negb_true_iff.
    rewrite <- key_mem_In in H2. destruct (key_mem k ign); [exfalso; apply H2; reflexivity | reflexivity].
Qed.

Theorem ignore_invalid : forall s meth c ign d,
  filter_args_model s [] meth c = Ok d ->
  ~ (NoDup ign /\ forall k, In k ign -> In k (map fst d)) ->
  filter_args_model s ign meth c = Raise ValueError.
Proof.
  intros s meth c ign d H Hbad. rewrite ignore_factor, H. cbn [bind].
  rewrite ignore_loop_spec by (eapply model_nodup_keys; exact H).
  destruct (key_nodupb ign && forallb (fun k => dmem k d) ign) eqn:E; [|reflexivity].
  exfalso. apply Hbad. apply andb_true_iff in E. destruct E as [E1 E2]. split.
  - apply key_nodupb_NoDup. exact E1.
  - intros k Hk. apply dmem_In. rewrite forallb_forall in E2. apply E2. exact Hk.
Qed.

Theorem ignore_propagates : forall s meth c ign e,
  filter_args_model s [] meth c = Raise e -> filter_args_model s ign meth c = Raise e.
Proof. intros s meth c ign e H. rewrite ignore_factor, H. reflexivity. Qed.

(* ------------------------------------------------------------------ ignored entries do not influence the result *)
(* two result dicts with the same keys that differ at most under ignored keys *)
Definition agree_outside (ign : list key) (d1 d2 : adict) : Prop :=
  Forall2 (fun e1 e2 => fst e1 = fst e2 /\ (In (fst e1) ign \/ snd e1 = snd e2)) d1 d2.

Lemma agree_outside_keys ign d1 d2 : agree_outside ign d1 d2 -> map fst d1 = map fst d2.
Proof. induction 1 as [|e1 e2 d1 d2 [E _] _ IH]; [reflexivity|]. cbn [map]. rewrite E, IH. reflexivity. Qed.

Lemma agree_outside_filter ign d1 d2 : agree_outside ign d1 d2 ->
  filter (fun kv => negb (key_mem (fst kv) ign)) d1 = filter (fun kv => negb (key_mem (fst kv) ign)) d2.
Proof.
  induction 1 as [|[k1 v1] [k2 v2] d1 d2 [E H] _ IH]; [reflexivity|]. cbn [fst snd] in *. subst k2. cbn [filter fst].
  destruct (key_mem k1 ign) eqn:Em; cbn [negb]; [exact IH|]. destruct H as [H | ->].
  - apply key_mem_In in H. congruence.
  - rewrite IH. reflexivity.
Qed.

Lemma agree_outside_app ign a1 a2 b1 b2 :
  agree_outside ign a1 a2 -> agree_outside ign b1 b2 -> agree_outside ign (a1 ++ b1) (a2 ++ b2).
Proof. apply Forall2_app. Qed.

Lemma forallb_ext_all {A} (f g : A -> bool) l : (forall x, f x = g x) -> forallb f l = forallb g l.
Proof. intros H. induction l as [|x t IH]; [reflexivity|]. cbn [forallb]. rewrite H, IH. reflexivity. Qed.

Theorem ignore_noninterference : forall s meth c1 c2 ign d1 d2,
  filter_args_model s [] meth c1 = Ok d1 -> filter_args_model s [] meth c2 = Ok d2 ->
  agree_outside ign d1 d2 ->
  filter_args_model s ign meth c1 = filter_args_model s ign meth c2.
Proof.
  intros s meth c1 c2 ign d1 d2 H1 H2 Ha. rewrite (ignore_factor s ign meth c1), (ignore_factor s ign meth c2), H1, H2.
  cbn [bind]. rewrite !ignore_loop_spec by (eapply model_nodup_keys; eassumption).
  rewrite (agree_outside_filter _ _ _ Ha).
  assert (E : forallb (fun k => dmem k d1) ign = forallb (fun k => dmem k d2) ign).
  { apply forallb_ext_all. intros k. unfold dmem.
    destruct (dget k d1) eqn:E1, (dget k d2) eqn:E2; try reflexivity; exfalso.
    - apply dget_In in E1. assert (dmem k d2 = true) by (apply dmem_In; rewrite <- (agree_outside_keys _ _ _ Ha);
        change k with (fst (k, a)); apply in_map; exact E1). unfold dmem in H. rewrite E2 in H. discriminate.
    - apply dget_In in E2. assert (dmem k d1 = true) by (apply dmem_In; rewrite (agree_outside_keys _ _ _ Ha);
        change k with (fst (k, a)); apply in_map; exact E2). unfold dmem in H. rewrite E1 in H. discriminate. }
  rewrite E. reflexivity.
Qed.

(* and nothing else is lost: equal results with an ignore list means equal non-ignored entries *)
Theorem ignore_preserves_rest : forall s meth c1 c2 ign d1 d2 r,
  filter_args_model s [] meth c1 = Ok d1 -> filter_args_model s [] meth c2 = Ok d2 ->
  filter_args_model s ign meth c1 = Ok r -> filter_args_model s ign meth c2 = Ok r ->
  forall k v, ~ In k ign -> (In (k, v) d1 <-> In (k, v) d2).
Proof.
  intros s meth c1 c2 ign d1 d2 r H1 H2 R1 R2 k v Hk.
  destruct (ignore_exactly _ _ _ _ _ _ H1 R1) as (_ & _ & _ & X1).
  destruct (ignore_exactly _ _ _ _ _ _ H2 R2) as (_ & _ & _ & X2).
  split; intros Hin.
  - apply (X2 k v). apply (X1 k v). split; assumption.
  - apply (X1 k v). apply (X2 k v). split; assumption.
Qed.
