(* M5, part 3: every Memory workload of Model/FsModel.v is a well-formed participant, for every
   choice of the invariant's parameters that the code respects. *)
From Coq Require Import ZArith List Bool Lia.
Require Import JV.Base.PyPrelude JV.Model.FsModel JV.Proofs.FsModelBase JV.Proofs.FsModelRG.
Import ListNotations.
Open Scope Z_scope.

Section Bind.
Variable outok : Z -> bytes -> Prop.
Variable metaok codeok codew : bytes -> Prop.
Variable Extra : fs -> Prop.
Variable xok : fsop -> Prop.
Notation wf := (wf outok metaok codeok codew Extra xok).
Notation wstage := (wstage outok metaok codeok codew Extra xok).
Notation rstage := (rstage outok metaok codeok codew Extra xok).

Lemma wf_pbind_all : forall A B t (Q1 : A -> Prop) (Q : B -> Prop) (g : A -> prog B),
  (forall a, Q1 a -> wf B t Q (g a)) ->
  forall p : prog A,
  (wf A t Q1 p -> wf B t Q (pbind p g)) /\
  (forall tmp final b, wstage A t Q1 tmp final b p -> wstage B t Q tmp final b (pbind p g)) /\
  (forall tmp final, rstage A t Q1 tmp final p -> rstage B t Q tmp final (pbind p g)).
Proof.
  intros A B t Q1 Q g Hg p; induction p as [a|o k IH]; simpl.
  - split; [|split].
    + intros H; inversion H; auto.
    + intros ? ? ? H; inversion H.
    + intros ? ? H; inversion H.
  - split; [|split].
    + intros H; inversion H as [|o' k' Ha Hx Hk|tmp final b k' Htf He Hok]; subst.
      * apply wf_op; auto. intros s HJ. apply (IH _). auto.
      * eapply wf_csw; eauto.
        -- intros e. apply (IH _). auto.
        -- intros r Hr. apply (IH _). auto.
    + intros tmp final b H; inversion H; subst. apply ws_intro. intros r. apply (IH _). auto.
    + intros tmp final H; inversion H; subst. apply rs_intro. intros r. apply (IH _). auto.
Qed.

Lemma wf_pbind : forall A B t (Q1 : A -> Prop) (Q : B -> Prop) (p : prog A) (g : A -> prog B),
  wf A t Q1 p -> (forall a, Q1 a -> wf B t Q (g a)) -> wf B t Q (pbind p g).
Proof. intros; eapply wf_pbind_all; eauto. Qed.

Lemma wf_weaken : forall A t (Q1 Q : A -> Prop) (p : prog A),
  wf A t Q1 p -> (forall a, Q1 a -> Q a) -> wf A t Q p.
Proof.
  intros A t Q1 Q p H HQ.
  assert (E : forall q : prog A, pbind q (fun a => Ret a) = q -> True) by auto.
  assert (Hb : wf A t Q (pbind p (fun a => Ret a))).
  { eapply wf_pbind; eauto. intros a Ha; apply wf_ret; auto. }
  clear E. revert Hb. generalize Q. clear.
  (* pbind p Ret is p up to the continuation functions: prove wf transfers back directly *)
  intros Q0. revert p.
  assert (Hall : forall p : prog A,
    (wf A t Q0 (pbind p (fun a => Ret a)) -> wf A t Q0 p) /\
    (forall tmp final b, wstage A t Q0 tmp final b (pbind p (fun a => Ret a)) -> wstage A t Q0 tmp final b p) /\
    (forall tmp final, rstage A t Q0 tmp final (pbind p (fun a => Ret a)) -> rstage A t Q0 tmp final p)).
  { induction p as [a|o k IH]; simpl.
    - split; [|split]; auto.
    - split; [|split].
      + intros H; inversion H as [|o' k' Ha Hx Hk|tmp final b k' Htf He Hok]; subst.
        * apply wf_op; auto. intros s HJ. apply (IH _). auto.
        * eapply wf_csw; eauto.
          -- intros e. apply (IH _). auto.
          -- intros r Hr. apply (IH _). auto.
      + intros tmp final b H; inversion H; subst. apply ws_intro. intros r. apply (IH _). auto.
      + intros tmp final H; inversion H; subst. apply rs_intro. intros r. apply (IH _). auto. }
  intros p; apply Hall.
Qed.
End Bind.

Section Workloads.
(* the external functions of Model/FsModel.v *)
Variable pickle : Z -> bytes.
Variable unpickle : bytes -> option Z.
Variable meta : bytes.
Variable parse_meta : bytes -> bool.
Variable code : Z -> bytes.
Variable code_eq : bytes -> Z -> bool.
Variable decodes : bytes -> bool.
Variable gitbytes : bytes.
Variable f : Z -> Z -> Z.
Variable cur : Z.
Variable t : Z.
Variable cb : option bool.

(* the invariant's parameters and what the workloads need of them *)
Variable outok : Z -> bytes -> Prop.
Variable metaok codeok codew : bytes -> Prop.
Variable Extra : fs -> Prop.
Variable xok : fsop -> Prop.
Hypothesis out_cur : forall k, outok k (pickle (f cur k)).
Hypothesis meta_ok : metaok meta.
Hypothesis codew_cur : codew (code cur).
Hypothesis xok_safe : forall o, safe_op o -> xok o.
Hypothesis xok_unlink : forall p, xok (Unlink p).
Hypothesis xok_rmdir : forall p, xok (Rmdir p).
Hypothesis xok_all : forall o, xok o.

Notation wf := (wf outok metaok codeok codew Extra xok).
Notation J := (J outok metaok codeok Extra).
Notation TT := (fun _ => True).

Ltac xs := first [apply xok_safe; simpl; first [exact I | congruence | (repeat split; congruence)]
                 | apply xok_unlink | apply xok_rmdir | apply xok_all].
Ltac wfo := apply wf_op_all; [simpl; auto | xs | intros ?r].
Ltac wfr := apply wf_ret; auto.

Lemma wf_op_unit : forall o, allowed codew o -> safe_op o -> wf _ t TT (op_unit o).
Proof. intros o Ha Hs. unfold op_unit. apply wf_op_all; [exact Ha | apply xok_safe; exact Hs | intros r; wfr]. Qed.

Lemma wf_makedirs : forall d p, is_dir p = true -> wf _ t TT (makedirs d p).
Proof.
  induction d as [|d IH]; intros p Hd; simpl; destruct (parent p) as [h|] eqn:Hp;
    try (apply wf_op_unit; simpl; auto; fail).
  - wfo. destruct (is_ok r); apply wf_op_unit; simpl; auto.
  - wfo. destruct (is_ok r); [apply wf_op_unit; simpl; auto|].
    eapply wf_pbind; [apply IH; eapply parent_is_dir; eauto|].
    intros [u|e] _; [apply wf_op_unit; simpl; auto|].
    destruct (is_eexist e); [apply wf_op_unit; simpl; auto | wfr].
Qed.

Lemma wf_mkdirp : forall p, is_dir p = true -> wf _ t TT (mkdirp p).
Proof. intros p Hd. unfold mkdirp. eapply wf_pbind; [apply wf_makedirs; auto|]. intros; wfr. Qed.

Lemma wf_rm_entries : forall rec strict l, (forall q, wf _ t TT (rec q)) -> wf _ t TT (rm_entries rec strict l).
Proof.
  intros rec strict l Hrec; induction l as [|q tl IH]; simpl; [wfr|].
  eapply wf_pbind with (Q1 := TT).
  - destruct (is_dir q) eqn:Hq; [apply Hrec|]. wfo. wfr.
  - intros [u|e] _; auto. destruct strict; auto. wfr.
Qed.

Lemma wf_rmtree_unsafe : forall d strict p, wf _ t TT (rmtree_unsafe d strict p).
Proof.
  induction d as [|d IH]; intros strict p; simpl.
  - wfo.
    assert (Hrm : wf _ t TT (Op (Rmdir p) (fun r2 => Ret (match r2 with
                    | RErr e => if strict then Raise (exn_of e) else Ok tt | _ => Ok tt end)))).
    { wfo. wfr. }
    destruct r as [|e|b|l]; auto.
    + destruct strict; auto. wfr.
    + eapply wf_pbind with (Q1 := TT); [apply wf_rm_entries; intros; wfr|].
      intros [u|e] _; auto. wfr.
  - wfo.
    assert (Hrm : wf _ t TT (Op (Rmdir p) (fun r2 => Ret (match r2 with
                    | RErr e => if strict then Raise (exn_of e) else Ok tt | _ => Ok tt end)))).
    { wfo. wfr. }
    destruct r as [|e|b|l]; auto.
    + destruct strict; auto. wfr.
    + eapply wf_pbind with (Q1 := TT); [apply wf_rm_entries; intros; apply IH|].
      intros [u|e] _; auto. wfr.
Qed.

Lemma wf_rmtree : forall strict p, wf _ t TT (rmtree strict p).
Proof. intros. unfold rmtree. wfo. apply wf_rmtree_unsafe. Qed.

Lemma wf_rmtree_ign : forall p, wf _ t TT (rmtree_ign p).
Proof. intros. unfold rmtree_ign. eapply wf_pbind; [apply wf_rmtree|]. intros; wfr. Qed.

Lemma wf_csw_k : forall tmp final b (k : result unit -> prog (result unit)),
  tmp_final outok metaok t tmp final b -> (forall r, wf _ t TT (k r)) ->
  wf _ t TT (csw tmp final b k).
Proof.
  intros tmp final b k Htf Hk. unfold csw, csw_src; cbn [csw_interp]. eapply wf_csw; eauto.
  intros r Hr. destruct r; try discriminate;
    (apply ws_intro; intros r1; apply rs_intro; intros r2; destruct r2; apply Hk).
Qed.

Lemma wf_write_if_given : forall c, (c = None \/ exists b, c = Some b /\ codew b) ->
  wf _ t TT (match c with
             | None => Ret (Ok tt)
             | Some b => Op (Creat PCode) (fun r => match r with
                           | RErr e => Ret (Raise (exn_of e))
                           | _ => Op (Write PCode b) (fun _ => Ret (Ok tt)) end) end).
Proof.
  intros c Hc. destruct Hc as [->|(b & -> & Hb)]; [wfr|]. wfo.
  destruct r; try wfr; (wfo; wfr).
Qed.

Lemma wf_store_code : forall c, (c = None \/ exists b, c = Some b /\ codew b) -> wf _ t TT (store_code c).
Proof.
  intros c Hc. unfold store_code, store_code_src, handled; cbn [fst snd interp_store path_of].
  pose proof (wf_write_if_given c Hc) as Hw.
  wfo. destruct (is_ok r); auto.
  unfold ebind. eapply wf_pbind; [apply wf_mkdirp; reflexivity|].
  intros [u|e] _; auto. wfr.
Qed.

Lemma wf_dump_item : forall k v, outok k (pickle v) -> wf _ t TT (dump_item pickle t k v).
Proof.
  intros k v Hok. unfold dump_item, dump_item_src, handled; cbn [fst snd interp_store path_of tmp_of].
  eapply wf_pbind with (Q1 := TT); [|intros; wfr].
  eapply wf_pbind with (Q1 := TT); [|intros; wfr].
  assert (Hc : wf _ t TT (csw (POutT k t) (POut k) (pickle v)
            (fun r => match r with Ok _ => Ret (Ok tt) | Raise e => Ret (Raise e) end))).
  { apply wf_csw_k; [left; exists k; auto | intros [u|e]; wfr]. }
  wfo. destruct (is_ok r); auto.
  unfold ebind. eapply wf_pbind with (Q1 := TT); [apply wf_mkdirp; reflexivity|].
  intros [u|e] _; auto. wfr.
Qed.

Lemma wf_store_metadata : forall k, wf _ t TT (store_metadata meta t k).
Proof.
  intros k. unfold store_metadata, store_metadata_src, handled; cbn [fst snd interp_store path_of tmp_of].
  eapply wf_pbind with (Q1 := TT); [|intros; wfr].
  eapply wf_pbind with (Q1 := TT); [|intros; wfr].
  unfold ebind. eapply wf_pbind; [apply wf_mkdirp; reflexivity|].
  intros [u|e] _; [|wfr]. apply wf_csw_k; [right; exists k; auto | intros [u2|e]; wfr].
Qed.

Lemma wf_clear_func : wf _ t TT (clear_func code cur).
Proof.
  unfold clear_func. eapply wf_pbind with (Q1 := TT).
  - wfo. destruct (is_ok r); [apply wf_rmtree_ign | wfr].
  - intros; apply wf_store_code. right; eauto.
Qed.

Lemma wf_check_code : forall it, wf _ t TT (check_code code code_eq decodes cur it).
Proof.
  intros it. unfold check_code. destruct it; [wfr|]. wfo.
  destruct r as [|e|b|l]; try (eapply wf_pbind; [apply wf_store_code; right; eauto | intros; wfr]).
  destruct (negb (decodes b)); [wfr|]. destruct (code_eq b cur); [wfr|].
  eapply wf_pbind; [apply wf_clear_func | intros; wfr].
Qed.

Lemma wf_clear_item : forall k, wf _ t TT (clear_item k).
Proof. intros. unfold clear_item. wfo. destruct (is_ok r); [apply wf_rmtree_ign | wfr]. Qed.

Lemma wf_is_valid : forall k it, wf _ t TT (is_valid parse_meta code code_eq decodes cur cb k it).
Proof.
  intros k it. unfold is_valid. eapply wf_pbind; [apply wf_check_code|].
  intros [[[|]|e] it'] _; try wfr.
  wfo. destruct (negb (is_ok r)); [wfr|]. wfo.
  destruct cb as [v|]; [|wfr].
  match goal with |- context [if ?c then _ else _] => destruct c end; [|wfr].
  eapply wf_pbind; [apply wf_clear_item | intros; wfr].
Qed.

(* a value handed back for key k: the function's value, or whatever a final output.pkl of that
   entry decodes to *)
Definition valok (k v : Z) : Prop := v = f cur k \/ exists b, outok k b /\ unpickle b = Some v.

Definition okout (k : Z) (o : outcome) : Prop :=
  match o with OVal v _ => valok k v | _ => True end.

Lemma wf_read_out : forall A (Q : A -> Prop) k (g : res -> prog A),
  (forall r, (forall b, r = RBytes b -> outok k b) -> wf _ t Q (g r)) ->
  wf _ t Q (Op (ReadAll (POut k)) g).
Proof.
  intros A Q k g Hg. apply wf_op; [simpl; auto | xs |].
  intros s [(HT & HO & HM & HC) HX]. apply Hg. intros b. simpl.
  destruct (lookup (POut k) s) eqn:E; simpl; intros Hb; inversion Hb; subst; eauto.
Qed.

Lemma wf_shelf_get : forall k c, wf _ t (okout k) (shelf_get unpickle k c).
Proof.
  intros k c. unfold shelf_get. wfo. destruct (negb (is_ok r)); [wfr; simpl; auto|].
  apply wf_read_out. intros r2 Hr2. wfr.
  destruct r2 as [|e|b|l]; simpl; auto.
  destruct (unpickle b) eqn:E; simpl; auto. right; exists b; auto.
Qed.

Lemma wf_compute_store : forall k, wf _ t TT (compute_store pickle meta f cur t k).
Proof.
  intros. unfold compute_store. eapply wf_pbind; [apply wf_dump_item; auto|].
  intros; apply wf_store_metadata.
Qed.

Lemma wf_cached_call : forall sh k it,
  wf _ t (fun oi => okout k (fst oi))
     (cached_call pickle unpickle meta parse_meta code code_eq decodes f cur t cb sh k it).
Proof.
  intros sh k it. unfold cached_call.
  eapply wf_pbind; [apply wf_is_valid|].
  intros [r it'] _.
  assert (Hre : wf _ t (fun oi => okout k (fst oi))
            (pbind (compute_store pickle meta f cur t k) (fun _ =>
               if sh then pbind (shelf_get unpickle k true) (fun o => Ret (o, it'))
               else Ret (OVal (f cur k) true, it')))).
  { eapply wf_pbind; [apply wf_compute_store|]. intros _ _.
    destruct sh; [|wfr; simpl; left; auto].
    eapply wf_pbind; [apply wf_shelf_get|]. intros o Ho; wfr. }
  destruct r as [[|]|e]; auto; [|wfr; simpl; auto].
  destruct sh.
  - wfo. eapply wf_pbind; [apply wf_shelf_get|]. intros o Ho; wfr.
  - wfo. destruct (negb (is_ok r)); auto.
    apply wf_read_out. intros r2 Hr2.
    destruct r2 as [|e|b|l]; auto.
    destruct (unpickle b) eqn:E; auto. wfr. simpl. right; exists b; auto.
Qed.

Lemma wf_delete_retry : forall fuel q, wf _ t TT (delete_retry fuel q).
Proof.
  induction fuel as [|fu IH]; intros q; simpl; wfo.
  - assert (H : wf _ t TT (pbind (rmtree true q) (fun r1 => match r1 with
               | Ok _ => Ret (Ok tt) | Raise e => Ret (Raise e) end))).
    { eapply wf_pbind; [apply wf_rmtree|]. intros [u|e] _; wfr. }
    destruct r; auto. wfr.
  - assert (H : wf _ t TT (pbind (rmtree true q) (fun r1 => match r1 with
               | Ok _ => Ret (Ok tt) | Raise e => delete_retry fu q end))).
    { eapply wf_pbind; [apply wf_rmtree|]. intros [u|e] _; [wfr|apply IH]. }
    destruct r; auto. wfr.
Qed.

Lemma wf_delete_folders : forall l, wf _ t TT (delete_folders l).
Proof.
  induction l as [|q tl IH]; simpl; [wfr|].
  unfold ebind. eapply wf_pbind with (Q1 := TT).
  - unfold delete_folder. wfo. destruct (is_ok r && is_dir q); [apply wf_delete_retry | wfr].
  - intros [u|e] _; auto. wfr.
Qed.

Lemma wf_memory_clear : wf _ t TT memory_clear.
Proof. unfold memory_clear. wfo. destruct r; try wfr. apply wf_delete_folders. Qed.

Lemma wf_stat_all : forall l, wf _ t TT (stat_all l).
Proof.
  induction l as [|q tl IH]; simpl; [wfr|]. destruct (is_dir q); auto.
  wfo. destruct (is_ok r); auto. wfr.
Qed.

Lemma wf_stat_each : forall l, wf _ t TT (stat_each l).
Proof. induction l as [|q tl IH]; simpl; [wfr|]. wfo. auto. Qed.

Lemma wf_walk_each : forall rec l, (forall q, wf _ t TT (rec q)) -> wf _ t TT (walk_each rec l).
Proof.
  intros rec l Hrec; induction l as [|q tl IH]; simpl; [wfr|].
  eapply wf_pbind; [apply Hrec|]. intros a _. eapply wf_pbind; [apply IH|]. intros; wfr.
Qed.

Lemma wf_probe_part : forall p l,
  wf (list Z) t TT (match entry_key p with
                    | Some k => pbind (item_probe k l) (fun ok => Ret (if ok then [k] else []))
                    | None => Ret []
                    end).
Proof.
  intros p l. destruct (entry_key p) as [k|]; [|wfr]. eapply wf_pbind with (Q1 := TT); [|intros; wfr].
  unfold item_probe. wfo. destruct (is_ok r); [apply wf_stat_all|].
  wfo. destruct (is_ok r0); [apply wf_stat_all | wfr].
Qed.

Lemma wf_walk : forall d p, wf _ t TT (walk d p).
Proof.
  induction d as [|d IH]; intros p; simpl; wfo; destruct r as [|e|b|l]; try wfr.
  - eapply wf_pbind with (Q1 := TT).
    + apply wf_probe_part.
    + intros here _. eapply wf_pbind; [apply wf_stat_each|]. intros; wfr.
  - eapply wf_pbind with (Q1 := TT).
    + apply wf_probe_part.
    + intros here _. eapply wf_pbind; [apply wf_stat_each|]. intros _ _.
      eapply wf_pbind; [apply wf_walk_each; apply IH|]. intros; wfr.
Qed.

Lemma wf_clear_entries : forall ks, wf _ t TT (clear_entries ks).
Proof.
  induction ks as [|k tl IH]; cbn [clear_entries]; [wfr|]. eapply wf_pbind; [apply wf_rmtree_ign|]. intros; auto.
Qed.

Lemma wf_reduce_size : forall ks, wf _ t TT (reduce_size ks).
Proof. intros. unfold reduce_size. eapply wf_pbind; [apply wf_walk|]. intros; apply wf_clear_entries. Qed.

Lemma wf_memory_init : wf _ t TT (memory_init gitbytes).
Proof.
  unfold memory_init. wfo. unfold ebind. eapply wf_pbind with (Q1 := TT).
  - destruct (is_ok r); [wfr | apply wf_mkdirp; reflexivity].
  - intros [u|e] _; [|wfr]. wfo. destruct r0; try wfr; (wfo; wfr).
Qed.

Definition actok (a : action) (o : outcome) : Prop :=
  match a with ACall k | AShelve k => okout k o | _ => True end.

Lemma wf_run_actions : forall acts it,
  wf _ t (fun outs => Forall2 actok acts outs)
     (run_actions pickle unpickle meta parse_meta code code_eq decodes f cur t cb acts it).
Proof.
  induction acts as [|a tl IH]; intros it; cbn [run_actions]; [wfr|].
  assert (Hnext : forall o it', actok a o ->
            wf _ t (fun outs => Forall2 actok (a :: tl) outs)
               (pbind (run_actions pickle unpickle meta parse_meta code code_eq decodes f cur t cb tl it')
                      (fun os => Ret (o :: os)))).
  { intros o it' Ho. eapply wf_pbind; [apply IH|]. intros os Hos; wfr. }
  destruct a as [k|k| | |ks].
  - eapply wf_pbind; [apply wf_cached_call|]. intros [o it'] Ho; apply Hnext; auto.
  - eapply wf_pbind; [apply wf_cached_call|]. intros [o it'] Ho; apply Hnext; auto.
  - eapply wf_pbind; [apply wf_memory_clear|]. intros [u|e] _; apply Hnext; simpl; auto.
  - eapply wf_pbind; [apply wf_clear_func|]. intros [u|e] _; apply Hnext; simpl; auto.
  - eapply wf_pbind; [apply wf_reduce_size|]. intros _ _; apply Hnext; simpl; auto.
Qed.

Definition sessok (acts : list action) (outs : list outcome) : Prop :=
  (exists e, outs = [OExn e]) \/ Forall2 actok acts outs.

Theorem wf_session : forall acts,
  wf _ t (sessok acts)
     (session pickle unpickle meta parse_meta code code_eq decodes gitbytes f cur t cb acts).
Proof.
  intros acts. unfold session. eapply wf_pbind; [apply wf_memory_init|].
  intros [u|e] _; [|wfr; left; eauto].
  eapply wf_pbind; [apply wf_store_code; auto|].
  intros [u2|e] _; [|wfr; left; eauto].
  eapply wf_weaken; [apply wf_run_actions|]. intros outs H; right; auto.
Qed.

End Workloads.
