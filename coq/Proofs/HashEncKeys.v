(* C08: instances of [key_order_ok] -- lists of distinct ints, of distinct str, of distinct bytes are
   totally ordered by Python's <, so dicts / sets keyed by them belong to the universe [good]. *)
From Coq Require Import ZArith List Bool Lia.
Require Import JV.Model.HashEnc JV.Proofs.HashEncDefs.
Import ListNotations.
Open Scope Z_scope.

Lemma py_lt_int a b : py_lt (VInt a) (VInt b) = Some (a <? b).
Proof.
  cbn. unfold fin_cmp. cbn. rewrite !Z.mul_1_r. unfold Z.ltb. destruct (a ?= b); reflexivity.
Qed.
Lemma py_eq_int a b : py_eq (VInt a) (VInt b) = (a =? b).
Proof.
  cbn. unfold fin_cmp. cbn. rewrite !Z.mul_1_r. rewrite Z.eqb_compare. reflexivity.
Qed.

Lemma in_map_VInt x zs : In x (map VInt zs) -> exists z, x = VInt z /\ In z zs.
Proof. intros H. apply in_map_iff in H. destruct H as (z & <- & Hz). eauto. Qed.

Theorem ints_key_order_ok zs : NoDup zs -> key_order_ok (map VInt zs).
Proof.
  intros ND. repeat split.
  - apply FinFun.Injective_map_NoDup; [intros a b E; injection E; auto|exact ND].
  - intros x y Hx Hy N. apply in_map_VInt in Hx, Hy. destruct Hx as (a & -> & _), Hy as (b & -> & _).
    rewrite py_eq_int. apply Z.eqb_neq. congruence.
  - intros x y Hx Hy _. apply in_map_VInt in Hx, Hy. destruct Hx as (a & -> & _), Hy as (b & -> & _).
    rewrite py_lt_int. eauto.
  - intros x Hx. apply in_map_VInt in Hx. destruct Hx as (a & -> & _).
    unfold lt_true. rewrite py_lt_int, Z.ltb_irrefl. reflexivity.
  - intros x y z Hx Hy Hz. apply in_map_VInt in Hx, Hy, Hz.
    destruct Hx as (a & -> & _), Hy as (b & -> & _), Hz as (c & -> & _).
    unfold lt_true. rewrite !py_lt_int.
    destruct (a <? b) eqn:E1, (b <? c) eqn:E2, (a <? c) eqn:E3; try discriminate; auto; lia.
  - intros x y Hx Hy N. apply in_map_VInt in Hx, Hy. destruct Hx as (a & -> & _), Hy as (b & -> & _).
    unfold lt_true. rewrite !py_lt_int.
    assert (a <> b) by congruence.
    destruct (a <? b) eqn:E1, (b <? a) eqn:E2; auto; lia.
Qed.

Theorem ints_keys_ok zs : NoDup zs -> keys_ok (map VInt zs).
Proof.
  intros ND. split; [|apply ints_key_order_ok; exact ND].
  rewrite Forall_forall. intros x Hx. apply in_map_VInt in Hx. destruct Hx as (a & -> & _). exact I.
Qed.

(* ---------------------------------------------------------------- str / bytes: lexicographic order *)
Lemma lex_lt_irrefl a : lex_lt a a = false.
Proof. induction a as [|x a IH]; cbn; [reflexivity|]. rewrite Z.ltb_irrefl. exact IH. Qed.

Lemma lex_lt_trans a : forall b c, lex_lt a b = true -> lex_lt b c = true -> lex_lt a c = true.
Proof.
  induction a as [|x a IH]; intros [|y b] [|z c]; cbn; try discriminate; auto.
  destruct (x <? y) eqn:E1, (y <? x) eqn:E1', (y <? z) eqn:E2, (z <? y) eqn:E2', (x <? z) eqn:E3, (z <? x) eqn:E3';
    try discriminate; try lia; auto.
  apply IH.
Qed.

Lemma lex_lt_total a : forall b, a <> b -> lex_lt a b = true \/ lex_lt b a = true.
Proof.
  induction a as [|x a IH]; intros [|y b] N; cbn; auto; try contradiction.
  destruct (x <? y) eqn:E1, (y <? x) eqn:E2; auto.
  assert (x = y) by lia. subst y. apply IH. congruence.
Qed.

Lemma zlist_eqb_neq a : forall b, a <> b -> zlist_eqb a b = false.
Proof.
  induction a as [|x a IH]; intros [|y b] N; cbn; auto; try contradiction.
  destruct (x =? y) eqn:E; [|reflexivity]. apply Z.eqb_eq in E. subst y. cbn. apply IH. congruence.
Qed.

Section StrLike.
Variable C : list byte -> value.
Hypothesis C_inj : forall a b, C a = C b -> a = b.
Hypothesis C_lt : forall a b, py_lt (C a) (C b) = Some (lex_lt a b).
Hypothesis C_eq : forall a b, py_eq (C a) (C b) = zlist_eqb a b.
Hypothesis C_plain : forall a, plain (C a).

Lemma in_map_C x l : In x (map C l) -> exists a, x = C a /\ In a l.
Proof. intros H. apply in_map_iff in H. destruct H as (z & <- & Hz). eauto. Qed.

Lemma strlike_keys_ok l : NoDup l -> keys_ok (map C l).
Proof.
  intros ND. split; [rewrite Forall_forall; intros x Hx; apply in_map_C in Hx; destruct Hx as (a & -> & _); apply C_plain|].
  repeat split.
  - apply FinFun.Injective_map_NoDup; [exact C_inj|exact ND].
  - intros x y Hx Hy N. apply in_map_C in Hx, Hy. destruct Hx as (a & -> & _), Hy as (b & -> & _).
    rewrite C_eq. apply zlist_eqb_neq. congruence.
  - intros x y Hx Hy _. apply in_map_C in Hx, Hy. destruct Hx as (a & -> & _), Hy as (b & -> & _).
    rewrite C_lt. eauto.
  - intros x Hx. apply in_map_C in Hx. destruct Hx as (a & -> & _).
    unfold lt_true. rewrite C_lt, lex_lt_irrefl. reflexivity.
  - intros x y z Hx Hy Hz. apply in_map_C in Hx, Hy, Hz.
    destruct Hx as (a & -> & _), Hy as (b & -> & _), Hz as (c & -> & _).
    unfold lt_true. rewrite !C_lt.
    destruct (lex_lt a b) eqn:E1, (lex_lt b c) eqn:E2; try discriminate. intros _ _.
    rewrite (lex_lt_trans _ _ _ E1 E2). reflexivity.
  - intros x y Hx Hy N. apply in_map_C in Hx, Hy. destruct Hx as (a & -> & _), Hy as (b & -> & _).
    unfold lt_true. rewrite !C_lt.
    assert (Nab : a <> b) by congruence. destruct (lex_lt_total a b Nab) as [H|H]; rewrite H; auto.
Qed.
End StrLike.

Theorem strs_keys_ok l : NoDup l -> keys_ok (map VStr l).
Proof. apply strlike_keys_ok; try reflexivity; try (intros a b E; injection E; auto; fail); try (intros; exact I). Qed.
Theorem bytes_keys_ok l : NoDup l -> keys_ok (map VBytes l).
Proof. apply strlike_keys_ok; try reflexivity; try (intros a b E; injection E; auto; fail); try (intros; exact I). Qed.
