(* M1s proofs, part 3: what the caller of a sync-retrieval backend gets.  Invariant SO relates the
   values retrieved so far, the batch the caller is blocked on and the queue of jobs to the batches that
   were submitted; a registered input failure stays in the queue until it is raised. *)
From Coq Require Import List Bool Arith Lia PeanoNat.
Require Import JV.Model.ParallelCore JV.Model.ParallelSync JV.Proofs.ParallelLemmas JV.Proofs.ParallelInv1
               JV.Proofs.ParallelTrk JV.Proofs.ParallelInv2 JV.Proofs.ParallelFrame2 JV.Proofs.ParallelInv3
               JV.Proofs.ParallelInv4 JV.Proofs.ParallelInv5 JV.Proofs.SyncFrame JV.Proofs.SyncInv.
Import ListNotations.

Definition blk_tasks (s : st) (k : option nat) : list nat :=
  match k with Some j => tasks_of s j | None => [] end.

Record SO (s : st) (k : option nat) : Prop := {
  y_out : exception s = false ->
          delivered s ++ blk_tasks s k ++ concat (map (tasks_of s) (jobs s ++ rem_of s)) = concat (submitted s);
  y_exc_ab : exception s = true -> aborting s = true;
  y_blk : forall j, k = Some j -> j < length (trk s);
  y_fin : phase s = Finished -> exception s = false -> jobs s = [] /\ k = None;
  y_drain_jobs : forall r, phase s = Draining r -> exception s = false -> jobs s = [];
  y_fin_iter : after_loop (phase s) -> exception s = false -> iterating s = false;
  y_fail : exception s = true -> in_try (phase s) -> exists t, In t (jobs s) /\ is_failed (status_of s t);
  y_clean : ifail s = None -> forall r, phase s = Draining r -> exception s = false
}.
Ltac openY H := destruct H as [Yout Yxa Yblk Yfin Ydj Yfi Yfail Ycl].

Definition SIO (s : st) (k : option nat) : Prop := SI s k /\ SO s k.

Lemma blk_tasks_fun s k : blk_tasks s k = match k with Some j => tasks_in (trk s) j | None => [] end.
Proof. reflexivity. Qed.

Lemma not_aborting s : Inv2 s -> exception s = false -> aborting s = false.
Proof. intros H2 Hx. destruct (aborting s) eqn:E; [|reflexivity]. rewrite (j_abexc s H2 E) in Hx. discriminate. Qed.

(* after the retrieval loop of a clean call the input is exhausted *)
Lemma sync_after_loop_exhausted s k : Inv123 s -> SO s k -> after_loop (phase s) -> exception s = false -> exhausted s.
Proof.
  intros [[H1 H2] H3] HY Hal Hx. openY HY. destruct H3 as [Hid Hio Hpa Hf HJ Hen Hea].
  pose proof (Yfi Hal Hx) as Hit. pose proof (not_aborting s H2 Hx) as Hab.
  destruct (pre (c s)) as [|n] eqn:Hp.
  - apply Hea; auto. destruct (phase s); try destruct Hal; exact I.
  - apply (Hen n); auto. destruct (phase s); try destruct Hal; exact I.
Qed.

(* transformations that do not touch anything SO talks about *)
Lemma so_same s s' k : SO s k ->
  exception s' = exception s -> delivered s' = delivered s -> trk s' = trk s -> jobs s' = jobs s ->
  phase s' = phase s -> submitted s' = submitted s -> aborting s' = aborting s -> iterating s' = iterating s ->
  ifail s' = ifail s -> SO s' k.
Proof.
  intros HY Ex Ed Et Ej Eph Es Eab Eit Eif. openY HY.
  constructor; unfold rem_of; rewrite ?blk_tasks_fun, ?tasks_of_fun, ?status_of_fun;
    rewrite ?Ex, ?Ed, ?Et, ?Ej, ?Eph, ?Es, ?Eab, ?Eit, ?Eif; auto.
Qed.
Ltac sameY := eapply so_same; [eassumption | reflexivity ..].

Lemma so_call s cf n f : SO (do_call s (list_cfg cf) n f) None.
Proof.
  constructor; cbn; auto; try discriminate; try (intros; contradiction).
  all: try (intros r H; discriminate H).
Qed.

(* ---------------- dispatch_one_batch (caller or callback) ---------------- *)
Lemma so_submit s k tk pl rdy t : Inv123 s -> mode (c s) = Ordered -> SO s k ->
  (after_loop (phase s) -> False) -> SO (submit_state s tk pl rdy t) k.
Proof.
  intros [[H1 H2] H3] Hm HY Hnal. openY HY. open2 H2.
  assert (Hr0 : rem_of s = []).
  { unfold rem_of. destruct (phase s) eqn:Hp; try reflexivity. exfalso. apply Hnal. exact I. }
  assert (Vjobs := allcur_valid _ _ Hjobs).
  constructor; cbn [exception delivered jobs phase submitted aborting iterating trk submit_state do_submit upd_dispatch].
  - intros Hx. specialize (Yout Hx). rewrite Hr0, app_nil_r in Yout.
    unfold is_ordered, rem_of. cbn [c mode phase trk upd_dispatch submit_state do_submit]. rewrite Hm.
    unfold rem_of in Hr0. rewrite Hr0. rewrite !app_nil_r.
    rewrite blk_tasks_fun, tasks_of_fun. cbn [trk submit_state do_submit upd_dispatch].
    rewrite map_app. cbn [map]. rewrite tasks_in_app_new. cbn [tk_tasks].
    rewrite map_tasks_app_old by exact Vjobs. rewrite concat_app. cbn [concat]. rewrite app_nil_r.
    rewrite (concat_app (submitted s)). cbn [concat]. rewrite app_nil_r.
    rewrite <- Yout. rewrite blk_tasks_fun, tasks_of_fun.
    destruct k as [j|]; [rewrite tasks_in_app_old by (apply Yblk; reflexivity)|]; rewrite ?app_assoc; reflexivity.
  - exact Yxa.
  - intros j Hj. rewrite app_length. specialize (Yblk j Hj). lia.
  - intros Hp. exfalso. apply Hnal. rewrite Hp. exact I.
  - intros r1 Hp. exfalso. apply Hnal. rewrite Hp. exact I.
  - intros Hal. exfalso. exact (Hnal Hal).
  - intros Hx Hp. destruct (Yfail Hx Hp) as (u & Hu & Hf). exists u. split.
    + destruct (is_ordered _); [apply in_or_app; left|]; exact Hu.
    + rewrite status_of_fun. cbn [trk submit_state do_submit upd_dispatch].
      unfold valid in Vjobs. rewrite Forall_forall in Vjobs. rewrite status_in_app_old by (apply Vjobs; exact Hu). exact Hf.
  - intros _ r1 Hp. exfalso. apply Hnal. cbn [phase submit_state do_submit upd_dispatch] in Hp. rewrite Hp. exact I.
Qed.

Lemma so_iter_error s k f pl : Inv123 s -> SO s k -> ifail s <> None -> SO (do_iter_error s f pl) k.
Proof.
  intros [[H1 H2] H3] HY Hif. openY HY.
  constructor; cbn [exception delivered jobs phase submitted aborting iterating trk ifail do_iter_error];
    try (intros; discriminate); auto; try (intros; contradiction).
  - intros j Hj. rewrite app_length. specialize (Yblk j Hj). lia.
  - intros _ _. exists (length (trk s)). split; [apply in_or_app; right; left; reflexivity|].
    rewrite status_of_fun. cbn [trk do_iter_error]. rewrite status_in_app_new. exact I.
Qed.

Lemma so_dispatch s k b fo s' r : Inv123 s -> mode (c s) = Ordered -> SO s k -> 1 <= n_jobs (c s) -> 1 <= b ->
  dispatch_shape s b fo s' r -> SO s' k.
Proof.
  intros HI Hm HY Hnj Hb Hsh.
  assert (Hnosub : after_loop (phase s) -> exception s = false -> s' = s \/ aborting s' = true).
  { intros Hal Hx. destruct HI as [[H1 H2] H3]. eapply exhausted_no_dispatch; try eassumption.
    - eapply sync_after_loop_exhausted; eauto. split; [split|]; assumption.
    - apply not_aborting; assumption. }
  inversion Hsh; subst; try exact HY.
  - (* look-ahead queue *)
    apply so_submit; auto. intros Hal.
    destruct (exception s) eqn:Hx.
    + pose proof (y_exc_ab s k HY Hx). congruence.
    + destruct (Hnosub Hal eq_refl) as [E | E].
      * apply (f_equal ready) in E. cbn in E. match goal with Hr : ready s = _ :: _ |- _ => rewrite Hr in E end.
        destruct r0; [discriminate | injection E as _ E; apply (f_equal (@length _)) in E; cbn in E; lia].
      * cbn in E. congruence.
  - apply so_iter_error; try assumption. congruence.
  - (* a new slice *)
    apply so_submit; auto. intros Hal.
    destruct (exception s) eqn:Hx.
    + pose proof (y_exc_ab s k HY Hx). congruence.
    + destruct (Hnosub Hal eq_refl) as [E | E].
      * apply (f_equal taken) in E. cbn in E. lia.
      * cbn in E. congruence.
Qed.

(* flag updates inside _start *)
Lemma so_flags s k i o ph : SO s k -> (phase s = StartFirst \/ phase s = StartLoop) ->
  (ph = StartLoop \/ ph = Retrieving) -> SO (set_flags s i o ph) k.
Proof.
  intros HY Hs Hp. openY HY.
  assert (Hr : rem_of s = []) by (unfold rem_of; destruct Hs as [-> | ->]; reflexivity).
  constructor; unfold rem_of; cbn [exception delivered jobs phase submitted aborting iterating set_flags];
    rewrite ?blk_tasks_fun, ?tasks_of_fun, ?status_of_fun; cbn [trk set_flags]; auto.
  - intros A. specialize (Yout A). rewrite Hr in Yout. destruct Hp as [-> | ->]; exact Yout.
  - intros E. destruct Hp as [-> | ->]; discriminate E.
  - intros r E. destruct Hp as [-> | ->]; discriminate E.
  - destruct Hp as [-> | ->]; intros [].
  - intros A B. apply Yfail; [exact A|]. destruct Hs as [-> | ->]; exact I.
  - intros _ r E. destruct Hp as [-> | ->]; discriminate E.
Qed.

Lemma so_exhaust s k : SO s k -> SO (set_flags s false false (phase s)) k.
Proof.
  intros HY. openY HY.
  constructor; unfold rem_of; cbn [exception delivered jobs phase submitted aborting iterating set_flags];
    rewrite ?blk_tasks_fun, ?tasks_of_fun, ?status_of_fun; cbn [trk set_flags]; auto.
Qed.

Lemma so_end_start s k : SO s k -> phase s = StartLoop -> SO (end_start s) k.
Proof. intros H Hp. unfold end_start. apply so_flags; auto. Qed.

Lemma so_start_first s b s1 r : SIO s None -> 1 <= n_jobs (c s) -> 1 <= b -> phase s = StartFirst ->
  dispatch_shape s b false s1 r -> SO (start_first_next s1 r) None.
Proof.
  intros [[HI _ Hm _] HY] Hnj Hb Hph Hsh.
  pose proof (so_dispatch s None b false s1 r HI Hm HY Hnj Hb Hsh) as H1.
  pose proof (dispatch_shape_phase _ _ _ _ _ Hsh) as Hp1. rewrite Hph in Hp1.
  unfold start_first_next. cbn zeta.
  assert (H2 : SO (set_flags s1 (if r then orig s1 else iterating s1) (orig s1) StartLoop) None)
    by (apply so_flags; auto).
  destruct (aborting _); [apply so_end_start; [exact H2 | reflexivity] | exact H2].
Qed.

Lemma so_start_loop s b s1 r : SIO s None -> 1 <= n_jobs (c s) -> 1 <= b -> phase s = StartLoop ->
  dispatch_shape s b false s1 r -> SO (start_loop_next s1 r) None.
Proof.
  intros [[HI _ Hm _] HY] Hnj Hb Hph Hsh.
  pose proof (so_dispatch s None b false s1 r HI Hm HY Hnj Hb Hsh) as H1.
  pose proof (dispatch_shape_phase _ _ _ _ _ Hsh) as Hp1. rewrite Hph in Hp1.
  unfold start_loop_next.
  destruct r; [destruct (aborting s1)|]; try exact H1; apply so_end_start; assumption.
Qed.

(* ---------------- the completion callback ---------------- *)
Lemma so_cb_ghost s k t tk : SIO s k -> nth_error (trk s) t = Some tk -> In t (inflight s) ->
  tk_cid tk = cid s -> aborting s = false -> SO (cb_start s t None) k.
Proof.
  intros [[[[H1 H2] H3] _ Hm _] HY] Hk Hti Hcur Hab. unfold cb_start, get_trk. rewrite Hk.
  apply mem_id_In in Hti. rewrite Hti. cbn [negb].
  rewrite Hcur, Nat.eqb_refl, Hab. cbn [negb orb].
  assert (Hct : is_cur s t = true) by (unfold is_cur, cur_of; rewrite Hk, Hcur; apply Nat.eqb_refl).
  openY HY. open2 H2.
  assert (Hxs : exception s = false) by (destruct (exception s); [specialize (Yxa eq_refl); congruence | reflexivity]).
  assert (Hst : tk_status tk = Pending).
  { apply mem_id_In in Hti. pose proof (Hip Hxs t Hti Hct) as A. unfold status_of, get_trk in A. rewrite Hk in A. exact A. }
  rewrite Hst. cbn [orb].
  constructor; unfold rem_of;
    cbn [exception delivered jobs phase submitted aborting iterating trk ifail];
    rewrite ?blk_tasks_fun, ?tasks_of_fun, ?status_of_fun; cbn [trk].
  - intros Hx. unfold is_ordered. rewrite Hm. rewrite set_status_eq.
    specialize (Yout Hxs). rewrite blk_tasks_fun, tasks_of_fun in Yout. rewrite <- Yout.
    assert (E1 : match k with Some j => tasks_in (set_status_in (trk s) t Done) j | None => [] end =
                 match k with Some j => tasks_in (trk s) j | None => [] end)
      by (destruct k as [j|]; [apply tasks_in_set_status | reflexivity]).
    assert (E2 : map (tasks_in (set_status_in (trk s) t Done)) (jobs s ++ rem_of s) = map (tasks_in (trk s)) (jobs s ++ rem_of s))
      by (apply map_ext; intros u; apply tasks_in_set_status).
    unfold rem_of in E2. rewrite E1, E2. reflexivity.
  - rewrite Hxs. cbn [orb]. auto.
  - intros j Hj. rewrite set_status_eq, set_status_in_length. apply Yblk. exact Hj.
  - intros Hp _. unfold is_ordered. rewrite Hm. apply Yfin; assumption.
  - intros r Hp _. unfold is_ordered. rewrite Hm. eapply Ydj; eassumption.
  - intros Hal _. apply Yfi; assumption.
  - rewrite Hxs. cbn [orb]. intros Hx. discriminate Hx.
  - intros _ r _. rewrite Hxs. reflexivity.
Qed.

(* ---------------- the caller's retrieval loop ---------------- *)
Lemma so_failed s : aborting s = true -> exception s = true -> phase s = Finished -> SO s None.
Proof.
  intros Hab Hx Hn. constructor; try (intros; congruence); auto; rewrite Hn; try (intros; contradiction).
Qed.

Lemma so_loop_exit s : SIO s None -> phase s = Retrieving ->
  (aborting s = true /\ first_failed s = None \/
   aborting s = false /\ jobs s = [] /\ iterating s = false /\ n_disp s <= n_comp s) ->
  SO (loop_exit s) None.
Proof.
  intros [[[[H1 H2] H3] _ Hm _] HY] Hph Hc. openY HY. unfold loop_exit.
  constructor; unfold rem_of; cbn [exception delivered jobs phase submitted aborting iterating finalize blk_tasks];
    rewrite ?tasks_of_fun, ?status_of_fun; cbn [trk finalize]; auto.
  - intros Hx. rewrite Hx. specialize (Yout Hx). unfold rem_of in Yout. rewrite Hph, app_nil_r in Yout.
    rewrite tasks_of_fun in Yout. exact Yout.
  - rewrite orb_false_r. exact Yxa.
  - intros _ Hx. destruct Hc as [[A _] | (_ & _ & B & _)]; [|exact B].
    rewrite (j_abexc s H2 A) in Hx. discriminate.
  - intros _ [].
  - intros _ r _. destruct Hc as [[A B] | (A & _)].
    + exfalso. pose proof (j_abexc s H2 A) as Hx.
      assert (Hit : in_try (phase s)) by (rewrite Hph; exact I).
      destruct (first_failed_exists s (Yfail Hx Hit)) as (e & t & E & _). congruence.
    + destruct (exception s) eqn:Hx; [specialize (Yxa eq_refl); congruence | reflexivity].
Qed.

Lemma so_pop s j js : SIO s None -> phase s = Retrieving -> aborting s = false -> jobs s = j :: js ->
  SO (set_out s js (jset s) [] false Retrieving) (Some j).
Proof.
  intros [[[[H1 H2] H3] _ Hm _] HY] Hph Hab Hj. openY HY.
  assert (Hxs : exception s = false) by (destruct (exception s); [specialize (Yxa eq_refl); congruence | reflexivity]).
  constructor; unfold rem_of; cbn [exception delivered jobs phase submitted aborting iterating set_out blk_tasks];
    rewrite ?tasks_of_fun, ?status_of_fun; cbn [trk set_out]; auto.
  - intros Hx. specialize (Yout Hx). unfold rem_of in Yout. rewrite Hph, Hj in Yout. cbn in Yout.
    rewrite !app_nil_r in *. rewrite tasks_of_fun in Yout. exact Yout.
  - intros j0 [= <-]. pose proof (allcur_valid _ _ (j_jobs s H2)) as V. unfold valid in V. rewrite Hj in V.
    apply Forall_inv in V. exact V.
  - intros Hp. discriminate Hp.
  - intros r Hp. discriminate Hp.
  - intros [].
  - intros Hx. congruence.
Qed.

Lemma so_drain_end s : SIO s None -> phase s = Draining [] ->
  SO (set_out s (jobs s) (jset s) [] false Finished) None.
Proof.
  intros [_ HY] Hph. openY HY.
  constructor; unfold rem_of; cbn [exception delivered jobs phase submitted aborting iterating set_out blk_tasks];
    rewrite ?tasks_of_fun, ?status_of_fun; cbn [trk set_out]; auto.
  - intros Hx. specialize (Yout Hx). unfold rem_of in Yout. rewrite Hph in Yout. exact Yout.
  - intros _ Hx. split; [eapply Ydj; eauto | reflexivity].
  - intros r Hp. discriminate Hp.
  - intros _ Hx. apply Yfi; [rewrite Hph; exact I | exact Hx].
  - intros _ [].
  - intros _ r E. discriminate E.
Qed.

Lemma so_drain_pop s j js : SIO s None -> phase s = Draining (j :: js) ->
  SO (set_out s (jobs s) (jset s) [] false (Draining js)) (Some j).
Proof.
  intros [[[[H1 H2] H3] _ Hm _] HY] Hph. openY HY.
  constructor; unfold rem_of; cbn [exception delivered jobs phase submitted aborting iterating set_out blk_tasks];
    rewrite ?tasks_of_fun, ?status_of_fun; cbn [trk set_out]; auto.
  - intros Hx. specialize (Yout Hx). unfold rem_of in Yout. rewrite Hph in Yout. cbn in Yout.
    rewrite (Ydj _ Hph Hx) in *. cbn in *. rewrite tasks_of_fun in Yout. exact Yout.
  - intros j0 [= <-]. pose proof (allcur_valid _ _ (j_rem s H2)) as V. unfold valid, rem_of in V. rewrite Hph in V.
    apply Forall_inv in V. exact V.
  - intros Hp. discriminate Hp.
  - intros r _ Hx. eapply Ydj; eauto.
  - intros _ Hx. apply Yfi; [rewrite Hph; exact I | exact Hx].
  - intros _ [].
  - intros Hi r _. eapply Ycl; eauto.
Qed.

Lemma so_result_ok s j : SIO s (Some j) -> SO (deliver_list s (tasks_of s j)) None.
Proof.
  intros [[_ _ _ Hb] HY]. openY HY.
  constructor; unfold rem_of; cbn [exception delivered jobs phase submitted aborting iterating deliver_list blk_tasks];
    rewrite ?tasks_of_fun, ?status_of_fun; cbn [trk deliver_list]; auto.
  - intros Hx. specialize (Yout Hx). cbn [blk_tasks] in Yout. rewrite tasks_of_fun in Yout.
    rewrite <- Yout. rewrite <- !app_assoc. reflexivity.
  - intros j0 Hj. discriminate Hj.
  - intros Hp Hx. destruct (Yfin Hp Hx) as [_ E]. discriminate E.
Qed.

(* ---------------- the combined invariant is preserved by every primitive ---------------- *)
Lemma sio_init : SIO init None.
Proof.
  split; [apply (sreach_SI sinit), sreach_init|]. constructor; cbn; auto; try discriminate; try (intros; contradiction).
  all: try (intros r H; discriminate H).
Qed.

Lemma sio_call : forall s k cf n f, SIO s k -> wf_cfg cf -> running s = false ->
  (phase s = Idle \/ phase s = Finished) -> SIO (do_call s (list_cfg cf) n f) None.
Proof.
  intros s k cf n f [HS HY] Hcf Hrun Hph. split; [|apply so_call].
  destruct HS as [Hi Hp Ho Hb]. constructor; [apply inv123_call; auto | reflexivity | reflexivity | discriminate].
Qed.

Lemma sio_start_first : forall s b s1 r, SIO s None -> 1 <= n_jobs (c s) -> 1 <= b -> phase s = StartFirst ->
  dispatch_shape s b false s1 r -> SIO (start_first_next s1 r) None.
Proof.
  intros s b s1 r H Hnj Hb Hph Hsh. split; [|eapply so_start_first; eauto].
  destruct H as [[Hi Hp Ho Hbk] _].
  pose proof (dispatch_shape_side _ _ _ _ _ Hsh) as E. side E.
  destruct (start_first_next_side s1 r) as [E1 E2].
  constructor; [eapply inv123_start_first; eauto | congruence | congruence | discriminate].
Qed.

Lemma sio_start_loop : forall s b s1 r, SIO s None -> 1 <= n_jobs (c s) -> 1 <= b -> phase s = StartLoop ->
  dispatch_shape s b false s1 r -> SIO (start_loop_next s1 r) None.
Proof.
  intros s b s1 r H Hnj Hb Hph Hsh. split; [|eapply so_start_loop; eauto].
  destruct H as [[Hi Hp Ho Hbk] _].
  pose proof (dispatch_shape_side _ _ _ _ _ Hsh) as E. side E.
  destruct (start_loop_next_side s1 r) as [E1 E2].
  constructor; [eapply inv123_start_loop; eauto | congruence | congruence | discriminate].
Qed.

Lemma sio_cb_ghost : forall s k t tk, SIO s k -> nth_error (trk s) t = Some tk -> In t (inflight s) ->
  tk_cid tk = cid s -> aborting s = false -> SIO (cb_start s t None) k.
Proof.
  intros s k t tk H Hk Hin Hc Hab. split; [|eapply so_cb_ghost; eauto].
  destruct H as [[Hi Hp Ho Hb] _].
  pose proof (cb_start_side s t None) as E. side E.
  constructor; [apply inv123_cb_start; exact Hi | congruence | congruence |].
  intros j Hj. destruct (Hb j Hj) as [A | [r A]]; [left | right; exists r]; congruence.
Qed.

Lemma sio_cb_move : forall s k t tk, SIO s k -> nth_error (trk s) t = Some tk -> In t (inflight s) ->
  (tk_cid tk <> cid s \/ aborting s = true) -> SIO (move_mid s t) k.
Proof.
  intros s k t tk [[Hi Hp Ho Hb] HY] Hk Hin Hc. split; [|sameY].
  constructor; [eapply inv123_move_mid; eauto | exact Hp | exact Ho | exact Hb].
Qed.

Lemma sio_dispatch : forall s k b s' r, SIO s k -> 1 <= n_jobs (c s) -> 1 <= b -> orig s = true ->
  closed s <> [] -> dispatch_shape s b true s' r -> SIO s' k.
Proof.
  intros s k b s' r [[Hi Hp Ho Hb] HY] Hnj Hb1 Hor Hcl Hsh. split; [|eapply so_dispatch; eauto].
  pose proof (dispatch_shape_side _ _ _ _ _ Hsh) as E. side E.
  constructor; [eapply inv123_cb_dispatch; eauto | congruence | congruence |].
  intros j Hj. destruct (Hb j Hj) as [A | [r0 A]]; [left | right; exists r0]; congruence.
Qed.

Lemma sio_cb_close : forall s k t tk, SIO s k -> nth_error (trk s) t = Some tk -> In t (cbmid s) ->
  tk_cid tk = cid s -> SIO (mark_closed (add_comp s (length (tk_tasks tk)) (remove_id t (cbmid s))) t) k.
Proof.
  intros s k t tk [[Hi Hp Ho Hb] HY] Hk Hin Hc. split; [|sameY].
  constructor; [apply inv123_cb_close; auto | exact Hp | exact Ho | exact Hb].
Qed.

Lemma sio_cb_stale : forall s k t tk, SIO s k -> nth_error (trk s) t = Some tk -> In t (cbmid s) ->
  tk_cid tk <> cid s -> SIO (add_comp s 0 (remove_id t (cbmid s))) k.
Proof.
  intros s k t tk [[Hi Hp Ho Hb] HY] Hk Hin Hc. split; [|sameY].
  constructor; [eapply inv123_cb_stale; eauto | exact Hp | exact Ho | exact Hb].
Qed.

Lemma sio_exhaust : forall s k, SIO s k -> orig s = true -> closed s <> [] ->
  (aborting s = true \/ (ready s = [] /\ N s <= taken s)) -> SIO (set_flags s false false (phase s)) k.
Proof.
  intros s k [[Hi Hp Ho Hb] HY] Hor Hcl Hc. split; [|apply so_exhaust; exact HY].
  constructor; [apply inv123_exhaust; auto | exact Hp | exact Ho | exact Hb].
Qed.

Lemma sio_raise_fast : forall s e, SIO s None -> phase s = Retrieving -> aborting s = true ->
  first_failed s = Some e -> SIO (finalize s Finished true true) None.
Proof.
  intros s e [[Hi Hp Ho Hb] HY] Hph Hab Hff. split.
  - constructor; [eapply inv123_raise_fast; eauto | reflexivity | exact Ho | discriminate].
  - apply so_failed; cbn; auto. rewrite orb_true_r. reflexivity.
Qed.

Lemma sio_loop_exit : forall s, SIO s None -> phase s = Retrieving ->
  (aborting s = true /\ first_failed s = None \/
   aborting s = false /\ jobs s = [] /\ iterating s = false /\ n_disp s <= n_comp s) ->
  SIO (loop_exit s) None.
Proof.
  intros s H Hph Hc. split; [|apply so_loop_exit; assumption].
  destruct H as [[Hi Hp Ho Hb] _].
  constructor; [apply inv123_loop_exit; auto; tauto | reflexivity | exact Ho | discriminate].
Qed.

Lemma sio_pop : forall s j js, SIO s None -> phase s = Retrieving -> aborting s = false -> jobs s = j :: js ->
  SIO (set_out s js (jset s) [] false Retrieving) (Some j).
Proof.
  intros s j js H Hph Hab Hj. split; [|eapply so_pop; eauto].
  destruct H as [[Hi Hp Ho Hb] _].
  constructor; [eapply inv123_pop_blk; eauto | reflexivity | exact Ho | intros _ _; left; reflexivity].
Qed.

Lemma sio_drain_end : forall s, SIO s None -> phase s = Draining [] ->
  SIO (set_out s (jobs s) (jset s) [] false Finished) None.
Proof.
  intros s H Hph. split; [|apply so_drain_end; assumption].
  destruct H as [[Hi Hp Ho Hb] _].
  constructor; [apply inv123_drain_end; auto | reflexivity | exact Ho | discriminate].
Qed.

Lemma sio_drain_pop : forall s j js, SIO s None -> phase s = Draining (j :: js) ->
  SIO (set_out s (jobs s) (jset s) [] false (Draining js)) (Some j).
Proof.
  intros s j js H Hph. split; [|eapply so_drain_pop; eauto].
  destruct H as [[Hi Hp Ho Hb] _].
  constructor; [eapply inv123_drain_blk; eauto | reflexivity | exact Ho |].
  intros _ _. right. exists js. reflexivity.
Qed.

Lemma sio_result_ok : forall s j, SIO s (Some j) -> SIO (deliver_list s (tasks_of s j)) None.
Proof.
  intros s j H. split; [|apply so_result_ok; exact H].
  destruct H as [[Hi Hp Ho Hb] _].
  constructor; [apply inv123_deliver_list; exact Hi | exact Hp | exact Ho | discriminate].
Qed.

Lemma sio_result_fail : forall s j, SIO s (Some j) -> SIO (finalize s Finished true true) None.
Proof.
  intros s j [[Hi Hp Ho Hb] HY]. split.
  - constructor; [apply inv123_fail; [exact Hi | apply (Hb j eq_refl)] | reflexivity | exact Ho | discriminate].
  - apply so_failed; cbn; auto. rewrite orb_true_r. reflexivity.
Qed.

Lemma sio_wf : forall s k, SIO s k -> 1 <= n_jobs (c s).
Proof. intros s k [[Hi _ _ _] _]. apply inv123_wf. exact Hi. Qed.

Theorem sreach_SIO : forall s, sreach s -> SIO (base s) (blk s).
Proof.
  exact (PS_reach SIO sio_init sio_call sio_start_first sio_start_loop sio_cb_ghost sio_cb_move sio_dispatch
           sio_cb_close sio_cb_stale sio_exhaust sio_raise_fast sio_loop_exit sio_pop sio_drain_end sio_drain_pop
           sio_result_ok sio_result_fail sio_wf).
Qed.

(* every step is the caller's loop run from a state satisfying the invariant, or returns nothing *)
Lemma sio_step_shape s e : sreach s -> wf_sev e ->
  (exists x, SIO x None /\ sstep s e = lift (adv_s x)) \/ no_return (snd (sstep s e)).
Proof.
  intros Hr Hwf.
  exact (PS_step_shape SIO sio_start_first sio_start_loop sio_cb_ghost sio_cb_move sio_dispatch
           sio_cb_close sio_cb_stale sio_exhaust sio_result_ok sio_wf s e (sreach_SIO s Hr) Hwf).
Qed.
