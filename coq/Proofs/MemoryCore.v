(* Proofs about M4 (Model/MemoryCore.v), part 1: the interface hypotheses, list lemmas, the
   invariant that ties the store to the syntactic admissibility monitor, and soundness of every
   returned value along admissible histories. *)
From Coq Require Import List Bool Arith Lia.
Require Import JV.Base.PyPrelude JV.Model.MemoryCore.
Import ListNotations.

(* ------------------------------------------------------------------ plain list lemmas *)
Lemma mem_nat_In : forall k l, mem_nat k l = true <-> In k l.
Proof.
  intros k l. unfold mem_nat. rewrite existsb_exists. split.
  - intros [x [Hx He]]. apply Nat.eqb_eq in He. subst. exact Hx.
  - intros H. exists k. split; [exact H | apply Nat.eqb_refl].
Qed.

Lemma mem_nat_false : forall k l, mem_nat k l = false <-> ~ In k l.
Proof.
  intros k l. rewrite <- mem_nat_In. destruct (mem_nat k l); split; intros; congruence.
Qed.

Lemma remove_nat_In : forall x k l, In x (remove_nat k l) <-> In x l /\ x <> k.
Proof.
  intros x k l. unfold remove_nat. rewrite filter_In. split.
  - intros [H1 H2]. split; [exact H1|]. intros ->. rewrite Nat.eqb_refl in H2. discriminate.
  - intros [H1 H2]. split; [exact H1|]. destruct (Nat.eqb k x) eqn:E; [|reflexivity].
    apply Nat.eqb_eq in E. congruence.
Qed.

Lemma lookup_remove_key_eq : forall A k (l : list (nat * A)), lookup_nat k (remove_key k l) = None.
Proof.
  induction l as [|[k' a] t IH]; cbn; [reflexivity|].
  destruct (Nat.eqb k k') eqn:E; [exact IH|]. cbn. rewrite E. exact IH.
Qed.

Lemma lookup_remove_key_neq : forall A k k' (l : list (nat * A)),
  k <> k' -> lookup_nat k (remove_key k' l) = lookup_nat k l.
Proof.
  induction l as [|[k2 a] t IH]; cbn; intros Hn; [reflexivity|].
  destruct (Nat.eqb k' k2) eqn:E.
  - apply Nat.eqb_eq in E. subst k2. destruct (Nat.eqb k k') eqn:E2.
    + apply Nat.eqb_eq in E2. congruence.
    + apply IH; assumption.
  - cbn. destruct (Nat.eqb k k2); [reflexivity | apply IH; assumption].
Qed.

Lemma lookup_set_nat : forall A k k' (a : A) l,
  lookup_nat k (set_nat k' a l) = if Nat.eqb k k' then Some a else lookup_nat k l.
Proof.
  intros. unfold set_nat. cbn. destruct (Nat.eqb k k') eqn:E; [reflexivity|].
  apply lookup_remove_key_neq. intros ->. rewrite Nat.eqb_refl in E. discriminate.
Qed.

Arguments set_nat : simpl never.
Arguments remove_nat : simpl never.
Arguments mem_nat : simpl never.

Ltac isplit := repeat match goal with |- _ /\ _ => split end.

Section Proofs.
  Context {call key_input digest binding kbinding value src : Type}.
  Variable C : cfg call key_input digest binding kbinding value src.

  (* the two equality tests of the instance decide equality *)
  Hypothesis digest_eqb_spec : forall a b, digest_eqb C a b = true <-> a = b.
  Hypothesis src_eqb_spec : forall a b, src_eqb C a b = true <-> a = b.

  Notation state := (state call digest value src).
  Notation event := (event call digest).
  Notation outcome := (outcome value).
  Notation mon := (mon src).

  (* ------------------------------------------------------------ interface statements *)
  (* equal digests => equal bindings outside the ignore list (M2 o M3; C07_agree + C08_inj) *)
  Definition key_sound : Prop := forall c1 c2 k1 k2 b1 b2,
    canonicalise C c1 = Ok k1 -> canonicalise C c2 = Ok k2 ->
    digest_of C k1 = digest_of C k2 ->
    bind_spec C c1 = Some b1 -> bind_spec C c2 = Some b2 ->
    restrict C b1 = restrict C b2.

  (* equivalent calls => equal digests (C07_agree + C08_order) *)
  Definition key_complete : Prop := forall c1 c2 k1 k2 b1 b2,
    canonicalise C c1 = Ok k1 -> canonicalise C c2 = Ok k2 ->
    bind_spec C c1 = Some b1 -> bind_spec C c2 = Some b2 ->
    restrict C b1 = restrict C b2 ->
    digest_of C k1 = digest_of C k2.

  (* the canonicaliser accepts every call Python accepts *)
  Definition accepts : Prop := forall c b, bind_spec C c = Some b -> exists ki, canonicalise C c = Ok ki.

  (* the user function does not depend on the parameters it asked joblib to ignore *)
  Definition f_respects : Prop := forall s b1 b2, restrict C b1 = restrict C b2 -> f C s b1 = f C s b2.

  (* one source text throughout (C02 / C06: the code of the function does not change) *)
  Definition uniform : Prop := forall k k', code C k = code C k'.

  (* ------------------------------------------------------------------ entries lemmas *)
  Lemma deqb_refl : forall d, digest_eqb C d d = true.
  Proof. intros. apply digest_eqb_spec. reflexivity. Qed.

  Lemma seqb_refl : forall s, src_eqb C s s = true.
  Proof. intros. apply src_eqb_spec. reflexivity. Qed.

  Lemma dlookup_In : forall d v l, dlookup C d l = Some v -> In (d, v) l.
  Proof.
    induction l as [|[d' v'] t IH]; cbn; intros H; [discriminate|].
    destruct (digest_eqb C d d') eqn:E.
    - apply digest_eqb_spec in E. inversion H. subst. left. reflexivity.
    - right. apply IH. exact H.
  Qed.

  Lemma dremove_In : forall x d l, In x (dremove C d l) -> In x l.
  Proof.
    induction l as [|[d' v'] t IH]; cbn; intros H; [exact H|].
    destruct (digest_eqb C d d'); [right; apply IH; exact H|].
    destruct H as [H|H]; [left; exact H | right; apply IH; exact H].
  Qed.

  Lemma dlookup_dremove_eq : forall d l, dlookup C d (dremove C d l) = None.
  Proof.
    induction l as [|[d' v'] t IH]; cbn; [reflexivity|].
    destruct (digest_eqb C d d') eqn:E; [exact IH|]. cbn. rewrite E. exact IH.
  Qed.

  Lemma dlookup_dremove_neq : forall d d' l, d <> d' -> dlookup C d (dremove C d' l) = dlookup C d l.
  Proof.
    induction l as [|[d2 v2] t IH]; cbn; intros Hn; [reflexivity|].
    destruct (digest_eqb C d' d2) eqn:E.
    - apply digest_eqb_spec in E. subst d2. destruct (digest_eqb C d d') eqn:E2.
      + apply digest_eqb_spec in E2. congruence.
      + apply IH. exact Hn.
    - cbn. destruct (digest_eqb C d d2); [reflexivity | apply IH; exact Hn].
  Qed.

  Lemma dlookup_dset_eq : forall d v l, dlookup C d (dset C d v l) = Some v.
  Proof. intros. unfold dset. cbn. rewrite deqb_refl. reflexivity. Qed.

  Lemma dlookup_dset_some : forall d d' v l,
    dlookup C d l <> None -> dlookup C d (dset C d' v l) <> None.
  Proof.
    intros d d' v l H. unfold dset. cbn. destruct (digest_eqb C d d') eqn:E; [discriminate|].
    rewrite dlookup_dremove_neq; [exact H|]. intros ->. rewrite deqb_refl in E. discriminate.
  Qed.

  Lemma dset_In : forall x d v l, In x (dset C d v l) -> x = (d, v) \/ In x l.
  Proof.
    intros x d v l [H|H]; [left; symmetry; exact H | right; eapply dremove_In; exact H].
  Qed.

  (* ------------------------------------------------------------------------ invariant *)
  Definition mon_used (m : mon) (k : nat) : mon :=
    {| m_live := m_live m; m_wraps := m_wraps m; m_stale := m_stale m;
       m_called := k :: m_called m; m_cur := Some (code C k) |}.

  Definition provenance (s : src) (d : digest) (v : value) : Prop :=
    exists c ki b, canonicalise C c = Ok ki /\ digest_of C ki = d /\ bind_spec C c = Some b /\ v = f C s b.

  Record Inv (st : state) (m : mon) : Prop := {
    i_live : m_live m = live st;
    i_wraps : forall k, In k (m_wraps m) <-> lookup_nat k (wraps st) <> None;
    i_wlive : forall k, In k (m_wraps m) -> In k (live st);
    i_file : forall k, In k (live st) -> ~ In k (m_stale m) ->
                       lookup_nat (path_of C k) (files st) = Some (code C k);
    i_wcode : forall k s, lookup_nat k (wraps st) = Some (Some s) -> ~ In k (m_stale m) -> s = code C k;
    i_table : forall k, In k (table st) -> In k (m_called m);
    i_named : forall k, In k (table st) -> named C k = true;
    i_cur : forall s, m_cur m = Some s -> disk st = Some s;
    i_disk : forall s, disk st = Some s -> exists k, s = code C k;
    i_entries : forall d v, In (d, v) (entries st) -> exists s, disk st = Some s /\ provenance s d v;
    i_refs : forall r d k c, nth_error (refs st) r = Some (d, (k, c)) ->
                             exists ki, canonicalise C c = Ok ki /\ digest_of C ki = d
  }.

  Lemma Inv_init : Inv init (mon0 (src:=src)).
  Proof.
    constructor; cbn; try tauto; try discriminate.
    intros r d k c H. destruct r; discriminate.
  Qed.

  Lemma Inv_sub_entries : forall st m en,
    Inv st m -> (forall x, In x en -> In x (entries st)) -> Inv (with_entries st en) m.
  Proof.
    intros st m en I Hs. destruct I. constructor; cbn; auto.
  Qed.

  Lemma Inv_add_entry : forall st m s d v,
    Inv st m -> disk st = Some s -> provenance s d v ->
    Inv (with_entries st (dset C d v (entries st))) m.
  Proof.
    intros st m s d v I Hd Hp. destruct I. constructor; cbn; auto.
    intros d' v' Hin. apply dset_In in Hin. destruct Hin as [Heq|Hin].
    - inversion Heq. subst. exists s. split; assumption.
    - apply i_entries0. exact Hin.
  Qed.

  Lemma Inv_add_ref : forall st m d k c ki,
    Inv st m -> canonicalise C c = Ok ki -> digest_of C ki = d ->
    Inv (with_refs st (refs st ++ [(d, (k, c))])) m.
  Proof.
    intros st m d k c ki I Hc Hd. destruct I. constructor; cbn; auto.
    intros r d' k' c' Hn.
    destruct (lt_dec r (length (refs st))) as [Hl|Hl].
    - rewrite nth_error_app1 in Hn by exact Hl. eapply i_refs0. exact Hn.
    - rewrite nth_error_app2 in Hn by lia.
      destruct (r - length (refs st)) as [|n]; cbn in Hn.
      + inversion Hn. subst. exists ki. split; [assumption | reflexivity].
      + destruct n; discriminate.
  Qed.

  (* func_code_info of a usable object returns its own source text *)
  Lemma source_of_ok : forall st m k,
    Inv st m -> In k (m_wraps m) -> ~ In k (m_stale m) ->
    exists st1, source_of C st k = Some (code C k, st1) /\ Inv st1 m /\
                disk st1 = disk st /\ entries st1 = entries st /\ table st1 = table st /\
                refs st1 = refs st.
  Proof.
    intros st m k I Hw Hs. unfold source_of.
    pose proof (proj1 (i_wraps _ _ I k) Hw) as Hne.
    destruct (lookup_nat k (wraps st)) as [[s|]|] eqn:El; [| |congruence].
    - rewrite (i_wcode _ _ I k s El Hs). exists st. isplit; auto.
    - rewrite (i_file _ _ I k (i_wlive _ _ I k Hw) Hs).
      eexists. split; [reflexivity|]. split; [|isplit; reflexivity].
      destruct I. constructor; cbn; auto.
      + intros k'. rewrite lookup_set_nat. destruct (Nat.eqb k' k) eqn:E.
        * apply Nat.eqb_eq in E. subst. split; [discriminate | intros _; exact Hw].
        * apply i_wraps0.
      + intros k' s'. rewrite lookup_set_nat. destruct (Nat.eqb k' k) eqn:E.
        * apply Nat.eqb_eq in E. subst. intros H _. inversion H. reflexivity.
        * apply i_wcode0.
  Qed.

  Definition usable (m : mon) (k : nat) : Prop :=
    In k (m_wraps m) /\ ~ In k (m_stale m) /\
    (named C k = false \/ ~ In k (m_called m) \/ m_cur m = Some (code C k)).

  Lemma Inv_write : forall st m k en,
    Inv st m -> (en = [] \/ (en = entries st /\ (disk st = None \/ disk st = Some (code C k)))) ->
    Inv (write_func_code C st k (code C k) en) (mon_used m k).
  Proof.
    intros st m k en I Hen. pose proof I as I'. destruct I. constructor; cbn; auto.
    - intros k' Hin. destruct (named C k); [destruct Hin as [->|Hin]|]; auto.
    - intros k' Hin. destruct (named C k) eqn:En; [destruct Hin as [->|Hin]|]; auto.
    - intros s H. inversion H. exists k. reflexivity.
    - intros d v Hin. destruct Hen as [->|[-> Hd]]; [destruct Hin|].
      destruct (i_entries0 d v Hin) as [s [Hs Hp]]. destruct Hd as [Hd|Hd]; rewrite Hd in Hs.
      + discriminate.
      + inversion Hs. subst s. exists (code C k). split; [reflexivity | exact Hp].
  Qed.

  Lemma Inv_used_nochange : forall st m k,
    Inv st m -> disk st = Some (code C k) -> Inv st (mon_used m k).
  Proof.
    intros st m k I Hd. destruct I. constructor; cbn; auto.
    intros s H. inversion H. subst. exact Hd.
  Qed.

  Lemma check_code_ok : forall st m k,
    Inv st m -> usable m k ->
    exists b st1, check_code C st k = Some (b, st1) /\ Inv st1 (mon_used m k) /\
                  disk st1 = Some (code C k) /\ refs st1 = refs st /\
                  (b = true -> entries st1 = entries st).
  Proof.
    intros st m k I [Hw [Hs Hc]]. unfold check_code.
    destruct (mem_nat k (table st)) eqn:Et.
    - apply mem_nat_In in Et. pose proof (i_table _ _ I k Et) as Hcalled.
      pose proof (i_named _ _ I k Et) as Hnamed.
      destruct Hc as [Hc|[Hc|Hc]]; [congruence | contradiction |].
      pose proof (i_cur _ _ I _ Hc) as Hd.
      exists true, st. isplit; auto. apply Inv_used_nochange; assumption.
    - destruct (source_of_ok st m k I Hw Hs) as [st1 [Hso [I1 [Hd1 [He1 [Ht1 Hr1]]]]]].
      rewrite Hso. destruct (disk st1) as [old|] eqn:Ed.
      + destruct (src_eqb C old (code C k)) eqn:Eq.
        * apply src_eqb_spec in Eq. subst old.
          exists true, st1. isplit; auto. apply Inv_used_nochange; assumption.
        * exists false. eexists. split; [reflexivity|]. isplit; auto; try discriminate.
          apply Inv_write; auto.
      + exists false. eexists. split; [reflexivity|]. isplit; auto; try discriminate.
        apply Inv_write; auto.
  Qed.

  Lemma in_cache_and_valid_ok : forall st m k d vld,
    Inv st m -> usable m k ->
    exists ov st1, in_cache_and_valid C st k d vld = Some (ov, st1) /\ Inv st1 (mon_used m k) /\
                   disk st1 = Some (code C k) /\ refs st1 = refs st /\
                   (forall v, ov = Some v -> dlookup C d (entries st1) = Some v) /\
                   (ov = None -> vld = true -> dlookup C d (entries st1) = None \/ True).
  Proof.
    intros st m k d vld I U. unfold in_cache_and_valid.
    destruct (check_code_ok st m k I U) as [b [st1 [Hc [I1 [Hd [Hr He]]]]]].
    rewrite Hc. destruct b.
    - destruct (dlookup C d (entries st1)) as [v|] eqn:El.
      + destruct vld.
        * exists (Some v), st1. isplit; auto. intros v' H. inversion H. subst. exact El.
        * eexists None, _. split; [reflexivity|]. isplit; auto; try discriminate.
          apply Inv_sub_entries; [exact I1|]. intros x. apply dremove_In.
      + exists None, st1. isplit; auto. discriminate.
    - exists None, st1. isplit; auto. discriminate.
  Qed.

  (* ------------------------------------------------- what a returned value must be *)
  (* a call through the wrapper of object k returns what the source text of k computes *)
  Definition call_sound (x : state * event * outcome) : Prop :=
    match x with
    | (_, Call k c _, OHit v) | (_, Call k c _, OMiss v) =>
        forall b, bind_spec C c = Some b -> v = f C (code C k) b
    | _ => True
    end.

  (* .get() on a reference returns what the creating call would compute *)
  Definition get_sound (x : state * event * outcome) : Prop :=
    match x with
    | (st, Get r, OGot v) =>
        forall d k c b, nth_error (refs st) r = Some (d, (k, c)) -> bind_spec C c = Some b ->
                        v = f C (code C k) b
    | _ => True
    end.

  Lemma use_cases : forall m k m',
    use C m k = Some m' ->
    (mem_nat k (m_wraps m) = false /\ m' = m) \/ (usable m k /\ m' = mon_used m k).
  Proof.
    intros m k m'. unfold use. destruct (mem_nat k (m_wraps m)) eqn:Ew; [|intros H; inversion H; auto].
    destruct (negb (mem_nat k (m_stale m))
              && (negb (named C k) || negb (mem_nat k (m_called m)) || cur_is C m (code C k))) eqn:E;
      [|discriminate].
    intros H. inversion H. right. split; [|reflexivity].
    apply andb_true_iff in E. destruct E as [E1 E2]. apply negb_true_iff in E1.
    split; [apply mem_nat_In; exact Ew|]. split; [apply mem_nat_false; exact E1|].
    apply orb_true_iff in E2. destruct E2 as [E2|E2]; [apply orb_true_iff in E2; destruct E2 as [E2|E2]|].
    - left. apply negb_true_iff in E2. exact E2.
    - right. left. apply negb_true_iff in E2. apply mem_nat_false. exact E2.
    - right. right. unfold cur_is in E2. destruct (m_cur m) as [s'|]; [|discriminate].
      apply src_eqb_spec in E2. subst. reflexivity.
  Qed.

  Lemma not_wrapped_skip : forall st m k,
    Inv st m -> mem_nat k (m_wraps m) = false -> lookup_nat k (wraps st) = None.
  Proof.
    intros st m k I H. apply mem_nat_false in H.
    destruct (lookup_nat k (wraps st)) eqn:E; [|reflexivity].
    exfalso. apply H. apply (i_wraps _ _ I k). congruence.
  Qed.

  (* one cached call: invariant kept, value right *)
  Lemma cached_call_ok : forall st m k c vld sh m',
    Inv st m ->
    match canonicalise C c with Raise _ => Some m | Ok _ => use C m k end = Some m' ->
    Inv (snd (cached_call C st k c vld sh)) m' /\
    (key_sound -> f_respects -> forall v,
       (fst (cached_call C st k c vld sh) = OHit v \/ fst (cached_call C st k c vld sh) = OMiss v) ->
       forall b, bind_spec C c = Some b -> v = f C (code C k) b).
  Proof.
    intros st m k c vld sh m' I Hm. unfold cached_call.
    destruct (canonicalise C c) as [ki|e] eqn:Ec.
    2:{ inversion Hm. subst. destruct (lookup_nat k (wraps st)); cbn; split; auto;
        intros _ _ v [H|H]; discriminate. }
    apply use_cases in Hm. destruct Hm as [[Hnw ->]|[U ->]].
    - rewrite (not_wrapped_skip st m k I Hnw). cbn. split; auto. intros _ _ v [H|H]; discriminate.
    - destruct U as [Hw U']. pose proof (proj1 (i_wraps _ _ I k) Hw) as Hne.
      destruct (lookup_nat k (wraps st)) as [w|] eqn:El; [|congruence].
      destruct (in_cache_and_valid_ok st m k (digest_of C ki) vld I (conj Hw U'))
        as [ov [st1 [Hv [I1 [Hd [Hr [Hov _]]]]]]].
      rewrite Hv. destruct ov as [v0|].
      + specialize (Hov v0 eq_refl). destruct sh; cbn.
        * split; [eapply Inv_add_ref; eauto | intros _ _ v [H|H]; discriminate].
        * split; [exact I1|]. intros KS FR v [H|H]; [|discriminate]. inversion H. subst v0.
          intros b Hb. apply dlookup_In in Hov.
          destruct (i_entries _ _ I1 _ _ Hov) as [s [Hs [c' [ki' [b' [Hc' [Hd' [Hb' Hval]]]]]]]].
          rewrite Hd in Hs. inversion Hs. subst s. rewrite Hval. apply FR.
          apply (KS c' c ki' ki b' b); auto.
      + destruct (bind_spec C c) as [b|] eqn:Eb.
        * assert (Hp : provenance (code C k) (digest_of C ki) (f C (code C k) b)).
          { exists c, ki, b. isplit; auto. }
          destruct sh; cbn.
          -- split; [|intros _ _ v [H|H]; discriminate].
             apply (Inv_add_ref (with_entries st1 (dset C (digest_of C ki) (f C (code C k) b) (entries st1)))
                      _ (digest_of C ki) k c ki); auto.
             eapply Inv_add_entry; eauto.
          -- split; [eapply Inv_add_entry; eauto|].
             intros _ _ v [H|H]; [discriminate|]. inversion H. intros b0 Hb0. inversion Hb0. reflexivity.
        * cbn. split; [exact I1|]. intros _ _ v [H|H]; discriminate.
  Qed.

  Lemma Inv_define : forall st m j m',
    Inv st m -> adm_step C m (Define j) = Some m' -> Inv (snd (step C st (Define j))) m'.
  Proof.
    intros st m j m' I H. cbn in H. inversion H. subst m'. clear H. cbn.
    pose proof I as I'. destruct I. constructor; cbn.
    - rewrite i_live0. reflexivity.
    - intros k. rewrite remove_nat_In. split.
      + intros [Hin Hne]. rewrite lookup_remove_key_neq by exact Hne. apply i_wraps0. exact Hin.
      + intros Hl. destruct (Nat.eq_dec k j) as [->|Hne].
        * rewrite lookup_remove_key_eq in Hl. congruence.
        * rewrite lookup_remove_key_neq in Hl by exact Hne. split; [apply i_wraps0; exact Hl | exact Hne].
    - intros k Hin. apply remove_nat_In in Hin. destruct Hin as [Hin Hne].
      right. apply remove_nat_In. split; [apply i_wlive0; exact Hin | exact Hne].
    - intros k Hin Hst. rewrite lookup_set_nat.
      destruct (Nat.eq_dec k j) as [->|Hne]; [rewrite Nat.eqb_refl; reflexivity|].
      destruct Hin as [Hin|Hin]; [congruence|].
      apply remove_nat_In in Hin. destruct Hin as [Hin _].
      assert (Hns : ~ In k (m_stale m)).
      { intros Hc. apply Hst. apply in_or_app. right. apply remove_nat_In. split; assumption. }
      destruct (Nat.eqb (path_of C k) (path_of C j)) eqn:Ep.
      + (* same file: the text must be the same, otherwise k would be stale *)
        destruct (src_eqb C (code C k) (code C j)) eqn:Es.
        * apply src_eqb_spec in Es. rewrite Es. reflexivity.
        * exfalso. apply Hst. apply in_or_app. left. apply filter_In. split.
          -- rewrite <- i_live0 in Hin. apply remove_nat_In. split; assumption.
          -- rewrite Ep, Es. reflexivity.
      + apply i_file0; assumption.
    - intros k s Hl Hst. destruct (Nat.eq_dec k j) as [->|Hne].
      + rewrite lookup_remove_key_eq in Hl. discriminate.
      + rewrite lookup_remove_key_neq in Hl by exact Hne. apply (i_wcode0 k s Hl).
        intros Hc. apply Hst. apply in_or_app. right. apply remove_nat_In. split; assumption.
    - intros k Hin. apply remove_nat_In in Hin. destruct Hin as [Hin Hne].
      apply remove_nat_In. split; [apply i_table0; exact Hin | exact Hne].
    - intros k Hin. apply remove_nat_In in Hin. apply i_named0. tauto.
    - exact i_cur0.
    - exact i_disk0.
    - exact i_entries0.
    - exact i_refs0.
  Qed.

  Lemma Inv_wrap : forall st m k m',
    Inv st m -> adm_step C m (Wrap k) = Some m' -> Inv (snd (step C st (Wrap k))) m'.
  Proof.
    intros st m k m' I H. cbn in H. cbn. rewrite <- (i_live _ _ I).
    destruct (mem_nat k (m_live m)) eqn:El; inversion H; subst m'; clear H; cbn; [|exact I].
    apply mem_nat_In in El. destruct I. constructor; cbn; auto.
    - intros k'. rewrite lookup_set_nat. destruct (Nat.eqb k' k) eqn:E.
      + apply Nat.eqb_eq in E. subst. split; [discriminate | intros _; left; reflexivity].
      + assert (k' <> k) by (intros ->; rewrite Nat.eqb_refl in E; discriminate).
        rewrite <- i_wraps0. split.
        * intros [Hc|Hin]; [congruence|]. apply remove_nat_In in Hin. tauto.
        * intros Hin. right. apply remove_nat_In. split; assumption.
    - intros k' [->|Hin]; [rewrite <- i_live0; exact El|].
      apply remove_nat_In in Hin. apply i_wlive0. tauto.
    - intros k' s. rewrite lookup_set_nat. destruct (Nat.eqb k' k); [discriminate | apply i_wcode0].
  Qed.

  Lemma Inv_step : forall st m e m',
    Inv st m -> adm_step C m e = Some m' -> Inv (snd (step C st e)) m'.
  Proof.
    intros st m e m' I H. destruct e as [j|k|k c vld|k c vld|k c vld|r|r|k| |ds| |ok].
    - eapply Inv_define; eauto.
    - eapply Inv_wrap; eauto.
    - cbn in *. eapply cached_call_ok; eauto.
    - cbn in *. eapply cached_call_ok; eauto.
    - (* Check *)
      cbn in *. destruct (canonicalise C c) as [ki|e] eqn:Ec.
      2:{ inversion H. subst. destruct (lookup_nat k (wraps st)); exact I. }
      apply use_cases in H. destruct H as [[Hnw ->]|[U ->]].
      + rewrite (not_wrapped_skip st m k I Hnw). exact I.
      + destruct U as [Hw U']. pose proof (proj1 (i_wraps _ _ I k) Hw) as Hne.
        destruct (lookup_nat k (wraps st)) as [w|] eqn:El; [|congruence].
        destruct (in_cache_and_valid_ok st m k (digest_of C ki) vld I (conj Hw U'))
          as [ov [st1 [Hv [I1 _]]]].
        rewrite Hv. destruct ov; exact I1.
    - cbn in *. inversion H. subst. destruct (nth_error (refs st) r) as [[d ?]|]; [|exact I].
      destruct (dlookup C d (entries st)); exact I.
    - cbn in *. inversion H. subst. destruct (nth_error (refs st) r) as [[d ?]|]; [|exact I].
      cbn. apply Inv_sub_entries; [exact I|]. intros x. apply dremove_In.
    - (* ClearFunc *)
      cbn in *. apply use_cases in H. destruct H as [[Hnw ->]|[U ->]].
      + unfold source_of. rewrite (not_wrapped_skip st m k I Hnw). exact I.
      + destruct U as [Hw [Hs _]].
        destruct (source_of_ok st m k I Hw Hs) as [st1 [Hso [I1 _]]].
        rewrite Hso. cbn. apply Inv_write; auto.
    - (* ClearMem *)
      cbn in *. inversion H. subst. destruct I. constructor; cbn; auto; try tauto; discriminate.
    - cbn in *. inversion H. subst. apply Inv_sub_entries; [exact I|].
      intros x Hin. apply filter_In in Hin. tauto.
    - (* NewProcess *)
      cbn in *. inversion H. subst. destruct I. constructor; cbn; auto; try tauto; try discriminate.
    - (* Forget *)
      cbn in *. inversion H. subst. destruct I. constructor; cbn; auto.
      + intros k Hin. destruct ok as [k0|]; [|destruct Hin].
        apply remove_nat_In in Hin. apply remove_nat_In. split; [apply i_table0; tauto | tauto].
      + intros k Hin. destruct ok as [k0|]; [|destruct Hin]. apply remove_nat_In in Hin. apply i_named0. tauto.
  Qed.

  Lemma step_call_sound : forall st m e m',
    Inv st m -> adm_step C m e = Some m' -> key_sound -> f_respects ->
    call_sound (st, e, fst (step C st e)).
  Proof.
    intros st m e m' I H KS FR. destruct e; try exact Logic.I.
    cbn in H. cbn [step].
    destruct (cached_call_ok st m k c vld false m' I H) as [_ Hs].
    specialize (Hs KS FR). unfold call_sound.
    destruct (fst (cached_call C st k c vld false)) eqn:E; try exact Logic.I.
    - intros b Hb. eapply Hs; eauto.
    - intros b Hb. eapply Hs; eauto.
  Qed.

  Lemma step_get_sound : forall st m e,
    Inv st m -> key_sound -> f_respects -> uniform -> get_sound (st, e, fst (step C st e)).
  Proof.
    intros st m e I KS FR UN. destruct e; try exact Logic.I. cbn.
    destruct (nth_error (refs st) r) as [[d [k c]]|] eqn:En; [|exact Logic.I].
    destruct (dlookup C d (entries st)) as [v|] eqn:El; [|exact Logic.I].
    cbn. intros d0 k0 c0 b H Hb. inversion H. subst d0 k0 c0. clear H.
    destruct (i_refs _ _ I _ _ _ _ En) as [ki [Hc Hd]].
    apply dlookup_In in El.
    destruct (i_entries _ _ I _ _ El) as [s [Hs [c' [ki' [b' [Hc' [Hd' [Hb' Hval]]]]]]]].
    destruct (i_disk _ _ I _ Hs) as [k' ->]. rewrite (UN k' k) in Hval. rewrite Hval.
    apply FR. apply (KS c' c ki' ki b' b); auto. congruence.
  Qed.

  (* ------------------------------------------------------------------ whole histories *)
  Lemma run_call_sound : forall h st m,
    Inv st m -> adm_run C m h = true -> key_sound -> f_respects -> Forall call_sound (run C st h).
  Proof.
    induction h as [|e t IH]; intros st m I H KS FR; cbn; [constructor|].
    cbn in H. destruct (adm_step C m e) as [m'|] eqn:Ea; [|discriminate].
    destruct (step C st e) as [o st'] eqn:Es. constructor.
    - pose proof (step_call_sound st m e m' I Ea KS FR) as S. rewrite Es in S. exact S.
    - apply (IH st' m'); auto. pose proof (Inv_step st m e m' I Ea) as I2. rewrite Es in I2. exact I2.
  Qed.

  Lemma run_get_sound : forall h st m,
    Inv st m -> adm_run C m h = true -> key_sound -> f_respects -> uniform ->
    Forall get_sound (run C st h).
  Proof.
    induction h as [|e t IH]; intros st m I H KS FR UN; cbn; [constructor|].
    cbn in H. destruct (adm_step C m e) as [m'|] eqn:Ea; [|discriminate].
    destruct (step C st e) as [o st'] eqn:Es. constructor.
    - pose proof (step_get_sound st m e I KS FR UN) as S. rewrite Es in S. exact S.
    - apply (IH st' m'); auto. pose proof (Inv_step st m e m' I Ea) as I2. rewrite Es in I2. exact I2.
  Qed.

  Lemma Inv_final : forall h st m,
    Inv st m -> adm_run C m h = true -> exists m', Inv (final C st h) m'.
  Proof.
    induction h as [|e t IH]; intros st m I H; cbn; [exists m; exact I|].
    cbn in H. destruct (adm_step C m e) as [m'|] eqn:Ea; [|discriminate].
    apply (IH _ m'); auto. eapply Inv_step; eauto.
  Qed.

  (* ------------------------------------------- one source text: every history is admissible *)
  Definition mon_uniform (m : mon) : Prop :=
    m_stale m = [] /\ (m_called m = [] \/ exists k0, m_cur m = Some (code C k0)).

  Lemma uniform_adm_step : forall m e, uniform -> mon_uniform m ->
    exists m', adm_step C m e = Some m' /\ mon_uniform m'.
  Proof.
    intros m e UN [Hs Hc].
    assert (Huse : forall k, exists m', use C m k = Some m' /\ mon_uniform m').
    { intros k. unfold use. destruct (mem_nat k (m_wraps m)); [|exists m; split; [reflexivity | split; assumption]].
      rewrite Hs. unfold mem_nat at 1. cbn [existsb negb andb].
      assert (E : negb (named C k) || negb (mem_nat k (m_called m)) || cur_is C m (code C k) = true).
      { destruct Hc as [Hc|[k0 Hc]].
        - rewrite Hc. apply orb_true_iff. left. apply orb_true_r.
        - unfold cur_is. rewrite Hc. rewrite (UN k0 k). rewrite seqb_refl. apply orb_true_r. }
      rewrite E. eexists. split; [reflexivity|]. split; cbn; [reflexivity | right; exists k; reflexivity]. }
    destruct e as [j|k|k c vld|k c vld|k c vld|r|r|k| |ds| |ok]; cbn;
      try (destruct (canonicalise C c); [apply Huse | exists m; split; [reflexivity | split; assumption]]);
      try (exists m; split; [reflexivity | split; assumption]).
    - eexists. split; [reflexivity|]. split; cbn.
      + rewrite Hs. cbn. rewrite app_nil_r.
        induction (remove_nat j (m_live m)) as [|x t IH]; cbn; [reflexivity|].
        rewrite (UN x j), seqb_refl, andb_false_r. exact IH.
      + destruct Hc as [Hc|Hc]; [left; rewrite Hc; reflexivity | right; exact Hc].
    - destruct (mem_nat k (m_live m)); eexists; (split; [reflexivity|]); split; cbn; auto.
    - apply Huse.
    - eexists. split; [reflexivity|]. split; cbn; auto.
    - eexists. split; [reflexivity|]. split; cbn; auto.
    - eexists. split; [reflexivity|]. split; cbn; [exact Hs|].
      destruct Hc as [Hc|Hc]; [left; rewrite Hc; destruct ok; reflexivity | right; exact Hc].
  Qed.

  Lemma uniform_adm_run : forall h m, uniform -> mon_uniform m -> adm_run C m h = true.
  Proof.
    induction h as [|e t IH]; intros m UN M; cbn; [reflexivity|].
    destruct (uniform_adm_step m e UN M) as [m' [H M']]. rewrite H. apply IH; assumption.
  Qed.

  Lemma uniform_admissible : forall h, uniform -> admissible C h = true.
  Proof.
    intros h UN. apply uniform_adm_run; [exact UN|]. split; cbn; auto.
  Qed.

End Proofs.
