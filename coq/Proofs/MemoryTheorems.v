(* Proofs about M4, part 3: the statements used by Props/C02.v, C06.v, C12.v. *)
From Coq Require Import List Bool Arith Lia.
Require Import JV.Base.PyPrelude JV.Model.MemoryCore JV.Model.MemoryTab.
Require Import JV.Proofs.MemoryCore JV.Proofs.MemoryKept.
Import ListNotations.

Section Theorems.
  Context {call key_input digest binding kbinding value src : Type}.
  Variable C : cfg call key_input digest binding kbinding value src.
  Hypothesis digest_eqb_spec : forall a b, digest_eqb C a b = true <-> a = b.
  Hypothesis src_eqb_spec : forall a b, src_eqb C a b = true <-> a = b.

  Notation state := (state call digest value src).
  Notation event := (event call digest).

  Lemma adm_run_app : forall h1 h2 (st : state) m,
    Inv C st m -> adm_run C m (h1 ++ h2) = true ->
    exists m', Inv C (final C st h1) m' /\ adm_run C m' h2 = true.
  Proof.
    induction h1 as [|e t IH]; intros h2 st m I H; cbn in *; [exists m; split; assumption|].
    destruct (adm_step C m e) as [m1|] eqn:Ea; [|discriminate].
    apply (IH h2 _ m1); [|exact H]. eapply Inv_step; eauto.
  Qed.

  Lemma completed_has_key : forall (st : state) k c vld v,
    fst (step C st (Call k c vld)) = OHit v \/ fst (step C st (Call k c vld)) = OMiss v ->
    exists ki, canonicalise C c = Ok ki.
  Proof.
    intros st k c vld v H. cbn in H. unfold cached_call in H.
    destruct (lookup_nat k (wraps st)); [|cbn in H; destruct H; discriminate].
    destruct (canonicalise C c) as [ki|]; [exists ki; reflexivity | cbn in H; destruct H; discriminate].
  Qed.

  (* C02: one source text, sound keys => every value is the right one, incl. shelved references *)
  Theorem sound_uniform : key_sound C -> f_respects C -> uniform C -> forall h,
    Forall (call_sound C) (run C init h) /\ Forall (get_sound C) (run C init h).
  Proof.
    intros KS FR UN h. pose proof (uniform_admissible C src_eqb_spec h UN) as A. split.
    - eapply run_call_sound; eauto. apply Inv_init.
    - eapply run_get_sound; eauto. apply Inv_init.
  Qed.

  (* C12 (partial): any mix of versions, as long as the history is admissible *)
  Theorem sound_admissible : key_sound C -> f_respects C -> forall h,
    admissible C h = true -> Forall (call_sound C) (run C init h).
  Proof. intros KS FR h A. eapply run_call_sound; eauto. apply Inv_init. Qed.

  Lemma clean_init : forall s, Clean C s (init (call:=call) (digest:=digest) (value:=value) (src:=src)).
  Proof. intros s. split; cbn; [tauto | discriminate]. Qed.

  Lemma uniform_clean : uniform C -> forall s h (st : state), Clean C s st -> (exists k, s = code C k) ->
    Clean C s (final C st h).
  Proof.
    intros UN s h. induction h as [|e t IH]; intros st CLN Hs; cbn; [exact CLN|].
    apply IH; [|exact Hs]. apply clean_step; auto. intros j _. destruct Hs as [k ->]. apply UN.
  Qed.

  (* C06: the second of two equivalent calls is served from the store *)
  Theorem complete_uniform : key_complete C -> uniform C ->
    forall h1 k c vld h2 k' c' b b' ki' v,
    bind_spec C c = Some b -> bind_spec C c' = Some b' -> restrict C b = restrict C b' ->
    canonicalise C c' = Ok ki' ->
    forallb (quiet C (code C k)) h2 = true ->
    let st1 := final C init h1 in
    (fst (step C st1 (Call k c vld)) = OHit v \/ fst (step C st1 (Call k c vld)) = OMiss v) ->
    let st3 := final C (snd (step C st1 (Call k c vld))) h2 in
    fst (step C st3 (Call k' c' true)) = OSkip \/ exists v', fst (step C st3 (Call k' c' true)) = OHit v'.
  Proof.
    intros KC UN h1 k c vld h2 k' c' b b' ki' v Hb Hb' Hr Hc' Q st1 Ho st3.
    destruct (completed_has_key st1 k c vld v Ho) as [ki Hc].
    pose proof (uniform_admissible C src_eqb_spec (h1 ++ [Call k c vld]) UN) as A.
    destruct (adm_run_app h1 [Call k c vld] init _ (Inv_init C) A) as [m [I A2]].
    cbn in A2. destruct (match canonicalise C c with Ok _ => use C m k | Raise _ => Some m end) as [m'|] eqn:Ea;
      [|discriminate].
    assert (K : Kept C (code C k) (digest_of C ki) (snd (step C st1 (Call k c vld)))).
    { eapply completed_call_kept; eauto. }
    assert (CL : Clean C (code C k) (snd (step C st1 (Call k c vld)))).
    { change (snd (step C st1 (Call k c vld))) with (final C st1 [Call k c vld]).
      apply uniform_clean; [exact UN | | exists k; reflexivity].
      apply uniform_clean; [exact UN | apply clean_init | exists k; reflexivity]. }
    destruct (quiet_final C digest_eqb_spec src_eqb_spec _ _ h2 _ Q CL K) as [CL3 K3].
    apply (kept_call_hit C src_eqb_spec (code C k) (digest_of C ki) _ k' c' ki' CL3 K3 Hc').
    symmetry. apply (KC c c' ki ki' b b'); assumption.
  Qed.

  (* C12: unchanged code keeps its cache across sessions *)
  Theorem unchanged_kept : key_complete C ->
    forall h1 k c vld h3 k' c' b b' ki' v,
    admissible C (h1 ++ [Call k c vld]) = true ->
    bind_spec C c = Some b -> bind_spec C c' = Some b' -> restrict C b = restrict C b' ->
    canonicalise C c' = Ok ki' ->
    forallb (quiet C (code C k)) h3 = true ->
    let st1 := final C init h1 in
    (fst (step C st1 (Call k c vld)) = OHit v \/ fst (step C st1 (Call k c vld)) = OMiss v) ->
    let st3 := final C (snd (step C st1 (Call k c vld))) (NewProcess :: h3) in
    fst (step C st3 (Call k' c' true)) = OSkip \/ exists v', fst (step C st3 (Call k' c' true)) = OHit v'.
  Proof.
    intros KC h1 k c vld h3 k' c' b b' ki' v A Hb Hb' Hr Hc' Q st1 Ho st3.
    destruct (completed_has_key st1 k c vld v Ho) as [ki Hc].
    destruct (adm_run_app h1 [Call k c vld] init _ (Inv_init C) A) as [m [I A2]].
    cbn in A2. destruct (match canonicalise C c with Ok _ => use C m k | Raise _ => Some m end) as [m'|] eqn:Ea;
      [|discriminate].
    assert (K : Kept C (code C k) (digest_of C ki) (snd (step C st1 (Call k c vld)))).
    { eapply completed_call_kept; eauto. }
    subst st3. cbn [final]. set (st2 := snd (step C st1 (Call k c vld))) in *.
    assert (K2 : Kept C (code C k) (digest_of C ki) (snd (step C st2 NewProcess))).
    { eapply Kept_ext; [| |exact K]; reflexivity. }
    assert (CL2 : Clean C (code C k) (snd (step C st2 NewProcess))).
    { split; cbn; [tauto | discriminate]. }
    destruct (quiet_final C digest_eqb_spec src_eqb_spec _ _ h3 _ Q CL2 K2) as [CL3 K3].
    apply (kept_call_hit C src_eqb_spec (code C k) (digest_of C ki) _ k' c' ki' CL3 K3 Hc').
    symmetry. apply (KC c c' ki ki' b b'); assumption.
  Qed.

  (* C06: check_call_in_cache answers for the call that follows it *)
  Theorem check_next : forall h k c vld b st1,
    step C (final C init h) (Check k c vld) = (OCheck b, st1) ->
    (b = true -> exists v, fst (step C st1 (Call k c vld)) = OHit v) /\
    (b = false -> (exists v, fst (step C st1 (Call k c vld)) = OMiss v) \/
                  fst (step C st1 (Call k c vld)) = ORaise TypeError).
  Proof.
    intros h k c vld b st1 H. eapply check_then_call; eauto.
    apply gen_final; auto. apply gen_init.
  Qed.

  (* ------------------------------------------------------------------ necessity *)
  Theorem key_sound_necessary : forall c1 c2 k1 k2 b1 b2,
    canonicalise C c1 = Ok k1 -> canonicalise C c2 = Ok k2 -> digest_of C k1 = digest_of C k2 ->
    bind_spec C c1 = Some b1 -> bind_spec C c2 = Some b2 ->
    f C (code C 0) b1 <> f C (code C 0) b2 ->
    exists v, nth_error (outcomes C (two_calls c1 c2)) 3 = Some (OHit v) /\ v <> f C (code C 0) b2.
  Proof.
    intros c1 c2 k1 k2 b1 b2 H1 H2 Hd Hb1 Hb2 Hne.
    rewrite (two_calls_outcomes C src_eqb_spec c1 c2 k1 k2 b1 H1 H2 Hb1).
    rewrite Hd, (deqb_refl C digest_eqb_spec). exists (f C (code C 0) b1). split; [reflexivity | exact Hne].
  Qed.

  Theorem key_complete_necessary : forall c1 c2 k1 k2 b1 b2,
    canonicalise C c1 = Ok k1 -> canonicalise C c2 = Ok k2 -> digest_of C k1 <> digest_of C k2 ->
    bind_spec C c1 = Some b1 -> bind_spec C c2 = Some b2 ->
    nth_error (outcomes C (two_calls c1 c2)) 3 = Some (OMiss (f C (code C 0) b2)).
  Proof.
    intros c1 c2 k1 k2 b1 b2 H1 H2 Hd Hb1 Hb2.
    rewrite (two_calls_outcomes C src_eqb_spec c1 c2 k1 k2 b1 H1 H2 Hb1).
    destruct (digest_eqb C (digest_of C k2) (digest_of C k1)) eqn:E.
    - apply digest_eqb_spec in E. congruence.
    - rewrite Hb2. reflexivity.
  Qed.

End Theorems.

(* the table instance decides equality with Nat.eqb *)
Lemma tab_digest_spec : forall cs ps ns a b, digest_eqb (tab_cfg cs ps ns) a b = true <-> a = b.
Proof. intros. apply Nat.eqb_eq. Qed.
Lemma tab_src_spec : forall cs ps ns a b, src_eqb (tab_cfg cs ps ns) a b = true <-> a = b.
Proof. intros. apply Nat.eqb_eq. Qed.
