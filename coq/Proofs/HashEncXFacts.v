(* C08 extension (Model/HashEncX.v): facts that hold by definition or by computation --
   what a memo hit writes, the shared-tuple finding F17, the unframed-array-bytes finding F18,
   memmap coercion. *)
From Coq Require Import ZArith List Bool Lia.
Require Import JV.Base.C08_MD5 JV.Model.HashEnc JV.Model.HashEncX.
Import ListNotations.
Open Scope Z_scope.

Section Hits.
Variables (md5 : list byte -> list byte) (c : bool).

(* the second occurrence of a memoised object is exactly one BINGET / LONG_BINGET of its index, and
   nothing of its content is looked at *)
Lemma hit_tuple id l m i : lookup_id id (xobjs m) = Some i ->
  enc_x md5 c (XTuple id l) m = Some ([NO (get_op i)], [], m).
Proof. intros H. cbn [enc_x]. unfold xtuple. rewrite H. reflexivity. Qed.
Lemma hit_list id l m i : lookup_id id (xobjs m) = Some i ->
  enc_x md5 c (XList id l) m = Some ([NO (get_op i)], [], m).
Proof. intros H. cbn [enc_x]. unfold xlist. rewrite H. reflexivity. Qed.
Lemma hit_dict id l m i : lookup_id id (xobjs m) = Some i ->
  enc_x md5 c (XDict id l) m = Some ([NO (get_op i)], [], m).
Proof. intros H. cbn [enc_x]. unfold xdict. rewrite H. reflexivity. Qed.
Lemma hit_global n m i : lookup_name n (xglobals m) = Some i ->
  enc_x md5 c (XGlobal n) m = Some ([NO (get_op i)], [], m).
Proof. intros H. cbn [enc_x]. unfold xsave_global. rewrite H. reflexivity. Qed.

(* coerce_mmap: with the flag a memmap is written exactly like the ndarray with the same buffer *)
Definition as_ndarray (a : arr) : arr :=
  {| a_klass := ndarray_name; a_is_memmap := false; a_dtype_pickle := a_dtype_pickle a; a_shape := a_shape a;
     a_strides := a_strides a; a_cflag := a_cflag a; a_fflag := a_fflag a; a_elems := a_elems a |}.
Lemma coerce_memmap a m : a_is_memmap a = true ->
  enc_x md5 true (XArr a) m = enc_x md5 true (XArr (as_ndarray a)) m.
Proof. intros H. cbn [enc_x]. unfold xarr. rewrite H. reflexivity. Qed.
(* ... and an ndarray is written the same way whatever the flag *)
Lemma coerce_irrelevant a m : a_is_memmap a = false -> enc_x md5 true (XArr a) m = enc_x md5 false (XArr a) m.
Proof. intros H. cbn [enc_x]. unfold xarr. rewrite H. reflexivity. Qed.
End Hits.

(* ---------------------------------------------------------------- F17: a shared tuple *)
(* t = (1, 2);  [t, t]  vs  [t, (1, 2)] : the same tree, two streams *)
Definition f17_t (id : Z) : xvalue := XTuple id [XLeaf (VInt 1); XLeaf (VInt 2)].
Definition f17_shared : xvalue := XList 9 [f17_t 1; f17_t 1].
Definition f17_distinct : xvalue := XList 9 [f17_t 1; f17_t 2].

Lemma f17_witness : erase f17_shared = erase f17_distinct /\ erase f17_shared <> None /\
  forall md5 c, enc_x_top md5 c f17_shared <> enc_x_top md5 c f17_distinct /\
                enc_x_top md5 c f17_shared <> None /\ enc_x_top md5 c f17_distinct <> None.
Proof.
  split; [reflexivity|]. split; [discriminate|]. intros md5 c. vm_compute. repeat split; discriminate.
Qed.

(* the unshared one is what the tree model writes *)
Lemma f17_distinct_is_tree : forall md5 c,
  enc_x_top md5 c f17_distinct =
  option_map (fun b => [b]) (enc_top md5 (VList [VTuple [VInt 1; VInt 2]; VTuple [VInt 1; VInt 2]])).
Proof. intros. vm_compute. reflexivity. Qed.

(* ---------------------------------------------------------------- F18: unframed array bytes *)
(* pickle.dumps(np.dtype('u1')) with numpy 2.x / protocol 4 (the check compares it with the live value) *)
Definition np_u1_dtype_pickle : list byte :=
  [128; 4; 149; 55; 0; 0; 0; 0; 0; 0; 0; 140; 5; 110; 117; 109; 112; 121; 148; 140; 5; 100; 116; 121; 112; 101; 148;
   147; 148; 140; 2; 117; 49; 148; 137; 136; 135; 148; 82; 148; 40; 75; 3; 140; 1; 124; 148; 78; 78; 78; 74; 255; 255;
   255; 255; 74; 255; 255; 255; 255; 75; 0; 116; 148; 98; 46].

Definition f18_arr (bytes4 : list byte) : arr :=
  {| a_klass := ndarray_name; a_is_memmap := false; a_dtype_pickle := np_u1_dtype_pickle; a_shape := [4];
     a_strides := [1]; a_cflag := true; a_fflag := true; a_elems := map (fun b => [b]) bytes4 |}.

(* the stream of any uint8 array of shape (4,) *)
Definition f18_stream : list byte :=
  match enc_x_top (fun _ => []) false (XArr (f18_arr [0; 0; 0; 0])) with Some cs => last cs [] | None => [] end.
(* the bytes object that masquerades: "_HASHED_DTYPE" + dtype pickle + the array's own stream minus STOP *)
Definition f18_payload : list byte := tag_dtype ++ np_u1_dtype_pickle ++ removelast f18_stream.
(* np.array([0x80, 3, ord('C'), len(payload)], dtype=uint8): its raw bytes are a pickle header *)
Definition f18_array : xvalue := XArr (f18_arr [128; 3; 67; zlen f18_payload]).

Lemma f18_witness : forall md5 c,
  digest_input_x md5 c f18_array = enc_top md5 (VBytes f18_payload) /\ digest_input_x md5 c f18_array <> None /\
  zlen f18_payload = 126.
Proof. intros md5 c. destruct c; vm_compute; (split; [reflexivity|split; [discriminate|reflexivity]]). Qed.
