(* C08 extension: the chunks NumpyHasher hands to the hash for an ndarray determine its class,
   dtype (pickle), shape, strides and buffer; stated on the chunk SEQUENCE -- the concatenation the
   digest is taken over loses the framing (finding F18, Proofs/HashEncXFacts.f18_witness). *)
From Coq Require Import ZArith List Bool Lia.
Require Import JV.Model.HashEnc JV.Model.HashEncX JV.Proofs.HashEncDefs JV.Proofs.HashEncOrder
               JV.Proofs.HashEncBytes JV.Proofs.HashEncInj.
Import ListNotations.
Open Scope Z_scope.

(* b"module\nqualname\n" *)
Definition name_ok (k : list byte) : Prop :=
  exists m n, k = m ++ 10 :: n ++ [10] /\ ~ In 10 m /\ ~ In 10 n.

Lemma split_at_nl m1 : forall m2 r1 r2, ~ In 10 m1 -> ~ In 10 m2 ->
  m1 ++ 10 :: r1 = m2 ++ 10 :: r2 -> m1 = m2 /\ r1 = r2.
Proof.
  induction m1 as [|x m1 IH]; intros [|y m2] r1 r2 N1 N2 H; cbn in *.
  - injection H as ->. auto.
  - injection H as <- _. exfalso. apply N2. left. reflexivity.
  - injection H as -> _. exfalso. apply N1. left. reflexivity.
  - injection H as -> H. destruct (IH m2 r1 r2) as [-> ->]; auto.
Qed.

Lemma name_split k1 k2 r1 r2 : name_ok k1 -> name_ok k2 -> k1 ++ r1 = k2 ++ r2 -> k1 = k2 /\ r1 = r2.
Proof.
  intros (m1 & n1 & -> & Hm1 & Hn1) (m2 & n2 & -> & Hm2 & Hn2) H.
  rewrite <- !app_assoc in H. cbn [app] in H.
  apply split_at_nl in H; auto. destruct H as [-> H].
  rewrite <- !app_assoc in H. cbn [app] in H.
  apply split_at_nl in H; auto. destruct H as [-> ->]. auto.
Qed.

Lemma nser_all_NO l : nser_all (map NO l) = ser_all l.
Proof. unfold nser_all, ser_all. induction l; cbn; congruence. Qed.
Lemma nser_all_app a b : nser_all (a ++ b) = nser_all a ++ nser_all b.
Proof. unfold nser_all. apply flat_map_app. Qed.

Definition eff_klass (c : bool) (a : arr) : list byte := if c && a_is_memmap a then ndarray_name else a_klass a.

Definition memo1 : memo := {| mnext := 1; mset := None; mfset := None |}.
Lemma memo1_wf : memo_wf memo1.
Proof. repeat split; cbn; intros; discriminate. Qed.

Section Np.
Variable md5 : list byte -> list byte.

(* the opcodes after GLOBAL klass, BINPUT 0 in the stream of a top-level array *)
Definition desc_R (a : arr) (R : list op) : Prop :=
  exists o_shape m2 o_strides m3,
    enc md5 (VTuple (map VInt (a_shape a))) memo1 = Some (o_shape, m2) /\
    enc md5 (VTuple (map VInt (a_strides a))) m2 = Some (o_strides, m3) /\
    R = [OMark; OBinUnicode tag_hashed] ++ o_shape ++ o_strides ++ [OTuple] ++ [put_op (mnext m3)]
        ++ [OTuple2] ++ [put_op (mnext m3 + 1)].

Lemma stream_bytes k X : nser_all (NO OProto :: NGlobal k :: map NO X) = [128; 3; 99] ++ k ++ ser_all X.
Proof. unfold nser_all. cbn [flat_map nser ser app]. change (flat_map nser (map NO X)) with (nser_all (map NO X)).
  rewrite nser_all_NO. reflexivity. Qed.

Lemma arr_top_form c a chunks : enc_x_top md5 c (XArr a) = Some chunks ->
  exists R, desc_R a R /\
    chunks = [fed_bytes a; tag_dtype; a_dtype_pickle a;
              [128; 3; 99] ++ eff_klass c a ++ ser_all (put_op 0 :: R ++ [OStop])].
Proof.
  unfold enc_x_top. cbn [enc_x]. unfold xarr. fold (eff_klass c a).
  unfold xsave_global. cbn [xmemo0 xglobals lookup_name xm memoize memo0 mnext mset mfset].
  change {| mnext := 0 + 1; mset := None; mfset := None |} with memo1.
  destruct (enc md5 (VTuple (map VInt (a_shape a))) memo1) as [[o_shape m2]|] eqn:E1; [|discriminate].
  destruct (enc md5 (VTuple (map VInt (a_strides a))) m2) as [[o_strides m3]|] eqn:E2; [|discriminate].
  cbn [memoize mnext mset mfset]. intros H. injection H as <-.
  eexists. split; [exists o_shape, m2, o_strides, m3; repeat split; eauto|].
  rewrite <- stream_bytes. cbn [app]. do 3 f_equal. f_equal. f_equal. f_equal.
  cbn [map app]. f_equal. f_equal.
  rewrite !map_app. cbn [map app]. rewrite <- !app_assoc. cbn [app]. reflexivity.
Qed.

Lemma ints_good l : good (VTuple (map VInt l)).
Proof. rewrite good_VTuple. rewrite Forall_forall. intros x Hx. apply in_map_iff in Hx. destruct Hx as (z & <- & _). exact I. Qed.
Lemma ints_normv l : normv (VTuple (map VInt l)) = VTuple (map VInt l).
Proof. apply normv_plain. rewrite plain_VTuple, Forall_forall. intros x Hx. apply in_map_iff in Hx. destruct Hx as (z & <- & _). exact I. Qed.

(* the stack machine of Proofs/HashEncInj rebuilds (bottom, ("HASHED", shape, strides)) from R *)
Lemma run_R a R bottom : desc_R a R -> exists mf,
  run R (St [SV bottom] memo1) =
  Some (St [SV (VTuple [bottom; VTuple [VStr tag_hashed; VTuple (map VInt (a_shape a)); VTuple (map VInt (a_strides a))]])] mf).
Proof.
  intros (o_shape & m2 & o_strides & m3 & E1 & E2 & ->).
  destruct (good_encodes md5 _ (ints_good (a_shape a)) memo1 memo1_wf) as (o1 & m2' & E1' & P1 & W2).
  rewrite E1 in E1'. injection E1' as <- <-.
  destruct (good_encodes md5 _ (ints_good (a_strides a)) m2 W2) as (o2 & m3' & E2' & P2 & W3).
  rewrite E2 in E2'. injection E2' as <- <-.
  rewrite !ints_normv in *.
  exists m3. cbn [app run].
  replace (step OMark (St [SV bottom] memo1)) with (Some (St [SMark; SV bottom] memo1)) by reflexivity.
  replace (step (OBinUnicode tag_hashed) (St [SMark; SV bottom] memo1))
    with (Some (St [SV (VStr tag_hashed); SMark; SV bottom] memo1)) by reflexivity.
  rewrite run_app, P1. cbn [map rev app]. rewrite run_app, P2. cbn [map rev app run].
  replace (step OTuple (St [SV (VTuple (map VInt (a_strides a))); SV (VTuple (map VInt (a_shape a))); SV (VStr tag_hashed); SMark; SV bottom] m3))
    with (Some (St [SV (VTuple [VStr tag_hashed; VTuple (map VInt (a_shape a)); VTuple (map VInt (a_strides a))]); SV bottom] m3))
    by reflexivity.
  rewrite step_put_val.
  replace (step OTuple2 (St [SV (VTuple [VStr tag_hashed; VTuple (map VInt (a_shape a)); VTuple (map VInt (a_strides a))]); SV bottom] m3))
    with (Some (St [SV (VTuple [bottom; VTuple [VStr tag_hashed; VTuple (map VInt (a_shape a)); VTuple (map VInt (a_strides a))]])] m3))
    by reflexivity.
  rewrite step_put_val. reflexivity.
Qed.

Lemma map_VInt_inj l1 l2 : map VInt l1 = map VInt l2 -> l1 = l2.
Proof. revert l2. induction l1; intros [|b l2] H; cbn in *; try discriminate; auto. injection H as -> H. f_equal. auto. Qed.

(* every int of shape / strides fits its opcode field *)
Definition desc_fits (a : arr) : Prop := forall R, desc_R a R -> Forall op_wf R.

Theorem np_chunks_inj c a b chunks :
  name_ok (eff_klass c a) -> name_ok (eff_klass c b) -> desc_fits a -> desc_fits b ->
  enc_x_top md5 c (XArr a) = Some chunks -> enc_x_top md5 c (XArr b) = Some chunks ->
  eff_klass c a = eff_klass c b /\ a_dtype_pickle a = a_dtype_pickle b /\
  a_shape a = a_shape b /\ a_strides a = a_strides b /\ fed_bytes a = fed_bytes b.
Proof.
  intros Na Nb Fa Fb Ha Hb.
  destruct (arr_top_form c a chunks Ha) as (Ra & Da & ->).
  destruct (arr_top_form c b _ Hb) as (Rb & Db & E).
  injection E as Efed Edt Es.
  cbn [app] in Es. try (injection Es as Es). apply name_split in Es; auto. destruct Es as [Ek Es].
  injection Es as Es.
  apply ser_all_inj in Es.
  - apply app_inj_tail in Es. destruct Es as [ER _]. subst Rb.
    destruct (run_R a Ra VNone Da) as (mfa & Hra). destruct (run_R b Ra VNone Db) as (mfb & Hrb).
    rewrite Hra in Hrb. injection Hrb as Hs Ht _ _.
    apply map_VInt_inj in Hs. apply map_VInt_inj in Ht. auto.
  - apply Forall_app. split; [apply Fa; exact Da|constructor; [exact I|constructor]].
  - apply Forall_app. split; [apply Fb; exact Db|constructor; [exact I|constructor]].
Qed.
End Np.

(* hypotheses are satisfiable: a (2,3) int32 Fortran-ordered array *)
Definition np_ex : arr :=
  {| a_klass := ndarray_name; a_is_memmap := false; a_dtype_pickle := [1; 2; 3]; a_shape := [2; 3]; a_strides := [4; 8];
     a_cflag := false; a_fflag := true; a_elems := [[0;0;0;0]; [1;0;0;0]; [2;0;0;0]; [3;0;0;0]; [4;0;0;0]; [5;0;0;0]] |}.

Lemma np_example : forall md5 c, name_ok (eff_klass c np_ex) /\ desc_fits md5 np_ex /\
  enc_x_top md5 c (XArr np_ex) <> None /\
  fed_bytes np_ex = [0;0;0;0; 3;0;0;0; 1;0;0;0; 4;0;0;0; 2;0;0;0; 5;0;0;0].
Proof.
  intros md5 c. split; [|split; [|split]].
  - exists [110; 117; 109; 112; 121], [110; 100; 97; 114; 114; 97; 121]. destruct c; cbn; repeat split; try reflexivity;
      intros H; repeat (destruct H as [H|H]; [discriminate H|]); exact H.
  - intros R (o1 & m2 & o2 & m3 & E1 & E2 & ->). vm_compute in E1. injection E1 as <- <-.
    vm_compute in E2. injection E2 as <- <-. repeat constructor; cbn; lia.
  - destruct c; vm_compute; discriminate.
  - vm_compute. reflexivity.
Qed.
