(* Concrete instances: the hypotheses of the C13/C14 theorems are satisfiable, and what happens
   outside their scope. *)
From Coq Require Import ZArith List Bool Lia.
Require Import JV.Base.PyPrelude JV.Model.ZlibFile JV.Proofs.ZlibFileLists JV.Proofs.ZlibFile JV.Proofs.ZlibFileC14.
Import ListNotations.
Open Scope Z_scope.

(* a 3-block stream with an empty block (header only), 2 unused bytes and one junk block *)
Definition ex_script : script := Complete [[]; [10; 11; 12]] [13; 14] [7; 7] [[1; 2; 3]].
Definition ex_ops : list op :=
  [ORead 2; OTell; OSeek (-1) 2; OReadinto 5; OSeek 1 0; ORead (-1); OSeek 0 1; OClose; OTell].

Example refines_hypothesis_satisfiable :
  ref_run (payload ex_script) ex_ops ref_init =
  Some ([VBytes [10; 11]; VInt 2; VInt 4; VInto [14]; VInt 1; VBytes [11; 12; 13; 14]; VInt 5; VNone;
         VExc ValueError], mkRef 5 true).
Proof. vm_compute. reflexivity. Qed.

Example model_on_example :
  exists st, run_new (fuel_for (file_of ex_script)) (file_of ex_script) ex_ops (init_state (file_of ex_script)) =
  Some ([VBytes [10; 11]; VInt 2; VInt 4; VInto [14]; VInt 1; VBytes [11; 12; 13; 14]; VInt 5; VNone;
         VExc ValueError], st).
Proof. eexists. vm_compute. reflexivity. Qed.

Example truncation_example :
  truncation_of ex_script (Truncated [[]; [10; 11]]).
Proof. apply (trunc_inside ex_script 1 [10; 11]). vm_compute. reflexivity. Qed.

Example old_loop_hypothesis_satisfiable :
  ([7; 7] <> [] \/ exists x r, [[1; 2; 3]] = x :: r /\ x <> []).
Proof. left. discriminate. Qed.

(* the old loop really returns on a file WITHOUT trailer (so the refutation is about trailers) *)
Example old_loop_without_trailer :
  exists st, run_old 10 (file_of (Complete [[10]] [11] [] [])) [ORead (-1)]
                     (init_state (file_of (Complete [[10]] [11] [] []))) = Some ([VBytes [10; 11]], st).
Proof. eexists. vm_compute. reflexivity. Qed.

(* outside the property: a seek to a position before the start leaves a negative buffer offset
   behind, and the next small read returns b'' although the stream is not at its end
   (io.BytesIO raises ValueError on such a seek).  The model reproduces the code here too. *)
Example seek_before_start_then_read :
  exists st, run_new 10 (file_of (Truncated [[10; 11; 12; 13; 14; 15]])) [OSeek (-5) 0; ORead 3; OTell]
                     (init_state (file_of (Truncated [[10; 11; 12; 13; 14; 15]]))) =
             Some ([VInt 0; VBytes []; VInt 0], st) /\ mode st = MRead.
Proof. eexists. vm_compute. split; reflexivity. Qed.
