(* M1 proofs, part 9: a variant for termination.  mu s = 3 * (input not yet submitted) + 2 * (batches whose
   completion callback has not started) + (callbacks between their two sections).  No event other than a new
   call increases mu; the completion of any in-flight batch decreases it strictly; and a consumer that waits
   always has such a completion enabled (waiting_means_work_in_flight).  Hence a consumer never waits for more
   than mu s completion events: the call cannot wait for ever unless the backend withholds a completion. *)
From Coq Require Import List Bool Arith Lia PeanoNat.
Require Import JV.Model.ParallelCore JV.Proofs.ParallelLemmas JV.Proofs.ParallelInv1 JV.Proofs.ParallelTrk
               JV.Proofs.ParallelInv2 JV.Proofs.ParallelFrame2 JV.Proofs.ParallelInv3 JV.Proofs.ParallelInv4
               JV.Proofs.ParallelInv5 JV.Proofs.ParallelFrame3 JV.Proofs.ParallelInv6.
Import ListNotations.

Definition todo (s : st) : nat := if aborting s then 0 else (N s - taken s) + length (ready s).
Definition mu (s : st) : nat := 3 * todo s + 2 * length (inflight s) + length (cbmid s).

(* ---------------- frames ---------------- *)
Lemma mu_same s s' : N s' = N s -> taken s' = taken s -> ready s' = ready s -> inflight s' = inflight s ->
  cbmid s' = cbmid s -> (aborting s = true -> aborting s' = true) -> mu s' <= mu s.
Proof.
  intros EN Et Er Ei Em Hab. unfold mu, todo. rewrite EN, Et, Er, Ei, Em.
  destruct (aborting s) eqn:A; [rewrite (Hab eq_refl); lia|]. destruct (aborting s'); lia.
Qed.

Lemma mu_advance fuel s : mu (fst (advance fuel s)) <= mu s.
Proof.
  pose proof (advance_frame fuel s) as E. unfold dispatch_fields in E.
  injection E as _ _ EN _ Et _ Er _ Ei Em _ _ _ _ _ _.
  apply mu_same; auto. apply advance_aborting.
Qed.

Lemma mu_try_advance s : mu (fst (try_advance s)) <= mu s.
Proof. unfold try_advance. destruct (want s); [apply mu_advance | cbn; lia]. Qed.

(* ---------------- dispatch_one_batch ---------------- *)
Lemma mu_dispatch s b fo s' r : Inv1 s -> dispatch_shape s b fo s' r ->
  mu s' <= mu s /\ (r = true -> aborting s' = false -> mu s' < mu s).
Proof.
  intros H1 Hsh. destruct H1 as [_ _ Hle _ _]. inversion Hsh; subst.
  - split; [lia | intros _ A; congruence].
  - (* from the look-ahead queue *)
    unfold mu, todo, submit_state. cbn [aborting N taken ready inflight cbmid do_submit upd_dispatch].
    match goal with A : aborting s = false |- _ => rewrite A end.
    match goal with R : ready s = _ :: _ |- _ => rewrite R end.
    rewrite app_length. cbn [length]. split; [lia | intros _ _; lia].
  - (* the input raised *)
    unfold mu, todo. cbn [aborting N taken ready inflight cbmid do_iter_error].
    split; [destruct (aborting s); lia | intros _ A; discriminate A].
  - split; [lia | intros A; discriminate A].
  - (* a new slice *)
    unfold mu, todo, submit_state. cbn [aborting N taken ready inflight cbmid do_submit upd_dispatch].
    match goal with A : aborting s = false |- _ => rewrite A end.
    match goal with R : ready s = [] |- _ => rewrite R end.
    rewrite app_length. cbn [length].
    match goal with C : chunks _ _ = _ :: _ |- _ => pose proof (chunks_count fin (seq (taken s) k)) as Hc; rewrite C in Hc end.
    rewrite seq_length in Hc. cbn [length] in Hc.
    split; [lia | intros _ _; lia].
Qed.

Lemma mu_set_flags s i o ph : mu (set_flags s i o ph) = mu s.
Proof. reflexivity. Qed.
Lemma mu_end_start s : mu (end_start s) = mu s.
Proof. reflexivity. Qed.

(* ---------------- the two sections of a completion callback ---------------- *)
Lemma length_remove_id_le t l : length (remove_id t l) <= length l.
Proof. unfold remove_id. induction l as [|a l IH]; cbn; [lia|]. destruct (negb (t =? a)); cbn; lia. Qed.

Lemma length_remove_id_in t l : NoDup l -> In t l -> S (length (remove_id t l)) = length l.
Proof.
  induction l as [|a l IH]; intros Hnd Hin; [destruct Hin|].
  inversion Hnd as [|? ? Hna Hnd']; subst. unfold remove_id. cbn [filter].
  destruct Hin as [->|Hin].
  - rewrite Nat.eqb_refl. cbn [negb length]. f_equal.
    change (filter (fun y => negb (t =? y)) l) with (remove_id t l). rewrite (remove_id_notin t l Hna). reflexivity.
  - destruct (Nat.eqb_spec t a) as [->|Hne]; [contradiction|]. cbn [negb length].
    change (filter (fun y => negb (t =? y)) l) with (remove_id t l). rewrite (IH Hnd' Hin). reflexivity.
Qed.

Lemma mu_cb_start_strict s t o k : Inv2 s -> get_trk s t = Some k -> In t (inflight s) ->
  mu (cb_start s t o) < mu s.
Proof.
  intros H2 Hk Hin. unfold cb_start. rewrite Hk.
  assert (Hm : mem_id t (inflight s) = true) by (apply mem_id_In; exact Hin). rewrite Hm. cbn [negb].
  pose proof (length_remove_id_in t (inflight s) (j_nd_infl s H2) Hin) as Hlen.
  destruct (negb (tk_cid k =? cid s) || aborting s) eqn:Hd.
  - unfold mu, todo. cbn [aborting N taken ready inflight cbmid]. lia.
  - apply orb_false_iff in Hd as [_ Hab].
    unfold mu, todo. cbn [aborting N taken ready inflight cbmid]. rewrite Hab.
    destruct (tk_status k), o; cbn [orb]; rewrite ?app_length; cbn [length]; lia.
Qed.

Lemma mu_cb_start s t o : Inv2 s -> mu (cb_start s t o) <= mu s.
Proof.
  intros H2. destruct (get_trk s t) as [k|] eqn:Hk.
  - destruct (mem_id t (inflight s)) eqn:Hm.
    + apply mem_id_In in Hm. pose proof (mu_cb_start_strict s t o k H2 Hk Hm). lia.
    + unfold cb_start. rewrite Hk, Hm. cbn. lia.
  - unfold cb_start. rewrite Hk. lia.
Qed.

Lemma mu_closed_state s t k : mu (closed_state s t k) + length (cbmid s) = mu s + length (remove_id t (cbmid s)).
Proof. unfold mu, todo, closed_state. cbn [aborting N taken ready inflight cbmid mark_closed add_comp]. lia. Qed.

Lemma mu_cb_finish s t b : Inv1 s -> Inv2 s -> 1 <= n_jobs (c s) -> 1 <= b ->
  mu (cb_finish true s t b) <= mu s /\ (In t (cbmid s) -> get_trk s t <> None -> mu (cb_finish true s t b) < mu s).
Proof.
  intros H1 H2 Hnj Hb. unfold cb_finish.
  destruct (get_trk s t) as [k|] eqn:Hk; [|split; [lia | intros _ A; contradiction]].
  destruct (mem_id t (cbmid s)) eqn:Hm; cbn [negb]; [|split; [lia | intros A _; apply mem_id_In in A; congruence]].
  apply mem_id_In in Hm.
  pose proof (length_remove_id_in t (cbmid s) (j_nd_mid s H2) Hm) as Hlen.
  cbn [andb].
  destruct (negb (tk_cid k =? cid s)) eqn:Hst.
  - (* stale *)
    assert (E : mu (add_comp s 0 (remove_id t (cbmid s))) + length (cbmid s) = mu s + length (remove_id t (cbmid s))).
    { unfold mu, todo. cbn [aborting N taken ready inflight cbmid add_comp]. lia. }
    split; [lia | intros _ _; lia].
  - fold (closed_state s t k).
    pose proof (mu_closed_state s t k) as E.
    destruct (orig (closed_state s t k)) eqn:Ho; [|split; [lia | intros _ _; lia]].
    assert (H1' : Inv1 (closed_state s t k)).
    { destruct H1 as [A B C D E']. constructor; cbn; auto. }
    pose proof (dispatch_one_batch_shape (closed_state s t k) b true Hnj Hb) as Hsh.
    destruct (dispatch_one_batch (closed_state s t k) b true) as [s2 r]. cbn [fst snd] in Hsh.
    destruct (mu_dispatch _ _ _ _ _ H1' Hsh) as [Hd _].
    destruct r; [|rewrite mu_set_flags]; split; try lia; intros _ _; lia.
Qed.

(* ---------------- one event ---------------- *)
Definition is_call (e : ev) : bool := match e with ECall _ _ _ => true | _ => false end.

Lemma mu_finalize s ph exc : mu (finalize s ph exc true) <= mu s.
Proof. unfold mu, todo. cbn [aborting N taken ready inflight cbmid finalize]. rewrite orb_true_r. lia. Qed.

Lemma mu_step_raw s e : reach s -> wf_ev e -> is_call e = false -> mu (fst (step_raw true s e)) <= mu s.
Proof.
  intros Hr Hwf Hc. destruct (reach_inv12 s Hr) as [H1 H2].
  assert (Hnj : 1 <= n_jobs (c s)) by (destruct H1 as [[A _] _ _ _ _]; exact A).
  destruct e as [cf n f|b|t o|t b| | | |b]; [discriminate Hc| | | | | | | ]; cbn [step_raw].
  - cbn [wf_ev] in Hwf. destruct (phase s) eqn:Hph; cbn [fst]; try lia.
    + pose proof (dispatch_one_batch_shape s b false Hnj Hwf) as Hsh.
      destruct (dispatch_one_batch s b false) as [s1 r]. cbn [fst snd] in Hsh.
      destruct (mu_dispatch _ _ _ _ _ H1 Hsh) as [Hd _].
      cbn [fst]. destruct (aborting _); rewrite ?mu_end_start, ?mu_set_flags; exact Hd.
    + pose proof (dispatch_one_batch_shape s b false Hnj Hwf) as Hsh.
      destruct (dispatch_one_batch s b false) as [s1 r]. cbn [fst snd] in Hsh.
      destruct (mu_dispatch _ _ _ _ _ H1 Hsh) as [Hd _].
      destruct r; [destruct (aborting s1)|]; cbn [fst]; rewrite ?mu_end_start; exact Hd.
  - cbn [fst]. apply mu_cb_start. exact H2.
  - cbn [fst]. cbn [wf_ev] in Hwf. apply (mu_cb_finish s t b H1 H2 Hnj Hwf).
  - destruct (phase s); cbn [fst]; try lia; unfold set_want, mu, todo; cbn; lia.
  - destruct (phase s); cbn [fst]; try lia.
    + unfold abandon. pose proof (mu_finalize s Finished true). unfold mu, todo in *. cbn in *. lia.
    + unfold mu, todo. cbn. lia.
  - destruct (want s); [|cbn; lia]. destruct (timeout_target s) as [j|]; [|cbn; lia].
    destruct (status_of s j); cbn [fst]; try lia.
    unfold mu, todo. cbn [aborting N taken ready inflight cbmid do_timeout]. destruct (aborting s); lia.
  - (* the backend refuses the batch *)
    cbn [wf_ev] in Hwf. destruct (phase s) eqn:Hph; cbn [fst]; try lia.
    + pose proof (dispatch_one_batch_shape s b false Hnj Hwf) as Hsh.
      destruct (dispatch_one_batch s b false) as [s1 r]. cbn [fst snd] in Hsh.
      destruct (mu_dispatch _ _ _ _ _ H1 Hsh) as [Hd _].
      destruct (r && negb (aborting s1)); cbn [fst].
      * pose proof (mu_finalize s1 Finished true). lia.
      * destruct (aborting _); rewrite ?mu_end_start, ?mu_set_flags; exact Hd.
    + pose proof (dispatch_one_batch_shape s b false Hnj Hwf) as Hsh.
      destruct (dispatch_one_batch s b false) as [s1 r]. cbn [fst snd] in Hsh.
      destruct (mu_dispatch _ _ _ _ _ H1 Hsh) as [Hd _].
      destruct (r && negb (aborting s1)); cbn [fst].
      * pose proof (mu_finalize s1 Finished true). lia.
      * destruct r; [destruct (aborting s1)|]; cbn [fst]; rewrite ?mu_end_start; exact Hd.
Qed.

(* T_a: within a call mu never increases, whatever the environment and the consumer do *)
Theorem mu_monotone s e : reach s -> wf_ev e -> is_call e = false -> mu (fst (step true s e)) <= mu s.
Proof.
  intros Hr Hwf Hc. unfold step. pose proof (mu_step_raw s e Hr Hwf Hc) as H1.
  destruct (step_raw true s e) as [s1 o1]. cbn [fst] in *.
  destruct o1 as [o|]; [exact H1|].
  pose proof (mu_try_advance s1) as H2. destruct (try_advance s1) as [s2 o2]. cbn [fst] in *. lia.
Qed.

(* T_b: the completion of an in-flight batch decreases mu strictly ... *)
Theorem mu_completion_start s t o : reach s -> t < length (trk s) -> In t (inflight s) ->
  mu (fst (step true s (ECbStart t o))) < mu s.
Proof.
  intros Hr Hlt Hin. destruct (reach_inv12 s Hr) as [H1 H2].
  destruct (nth_error (trk s) t) as [k|] eqn:Hk; [|apply nth_error_None in Hk; lia].
  unfold step. cbn [step_raw].
  pose proof (mu_cb_start_strict s t o k H2 Hk Hin) as Hs.
  pose proof (mu_try_advance (cb_start s t o)) as H3. destruct (try_advance (cb_start s t o)) as [s2 o2]. cbn [fst] in *. lia.
Qed.

(* ... and so does the second section of a callback that is between its two sections *)
Theorem mu_completion_finish s t b : reach s -> 1 <= b -> t < length (trk s) -> In t (cbmid s) ->
  mu (fst (step true s (ECbFinish t b))) < mu s.
Proof.
  intros Hr Hb Hlt Hin. destruct (reach_inv12 s Hr) as [H1 H2].
  assert (Hnj : 1 <= n_jobs (c s)) by (destruct H1 as [[A _] _ _ _ _]; exact A).
  assert (Hk : get_trk s t <> None) by (unfold get_trk; intros E; apply nth_error_None in E; lia).
  unfold step. cbn [step_raw].
  destruct (mu_cb_finish s t b H1 H2 Hnj Hb) as [_ Hs]. specialize (Hs Hin Hk).
  pose proof (mu_try_advance (cb_finish true s t b)) as H3.
  destruct (try_advance (cb_finish true s t b)) as [s2 o2]. cbn [fst] in *. lia.
Qed.

(* T_c: a consumer that waits has such a completion enabled, for a batch of the current call *)
Theorem waiting_has_decreasing_completion s : reach s -> want s = true -> phase s = Retrieving ->
  snd (try_advance s) = None ->
  exists e, wf_ev e /\ is_call e = false /\ mu (fst (step true s e)) < mu s /\
            (exists t, is_cur s t = true /\ (e = ECbStart t None \/ e = ECbFinish t 1)).
Proof.
  intros Hr Hw Hp Hn.
  destruct (waiting_means_work_in_flight s Hr Hw Hp Hn) as (_ & t & Hc & Hwhere).
  assert (Hlt : t < length (trk s)) by (apply is_cur_lt; exact Hc).
  destruct Hwhere as [Hin | Hin].
  - exists (ECbStart t None). repeat split; auto.
    + apply mu_completion_start; assumption.
    + exists t. auto.
  - exists (ECbFinish t 1). split; [cbn; lia|]. split; [reflexivity|]. split.
    + apply mu_completion_finish; auto.
    + exists t. auto.
Qed.

(* ---------------- bounded waiting ---------------- *)
(* a request that gets no answer leaves the state alone *)
Lemma try_advance_none_same s : InvAll s -> want s = true -> phase s = Retrieving ->
  snd (try_advance s) = None -> fst (try_advance s) = s.
Proof.
  intros [[[[[H1 H2] H3] H4] H5] H6] Hw Hp Hn.
  unfold try_advance in *. rewrite Hw in *.
  assert (Hfuel : adv_fuel s = S (3 + length (jobs s))) by (unfold adv_fuel; rewrite Hp; lia).
  rewrite Hfuel in *. remember (3 + length (jobs s)) as fu eqn:Hfu. cbn [advance] in *.
  destruct (pend_out s) as [|v r] eqn:Hpo; [|discriminate Hn].
  rewrite Hp in *.
  assert (Hdr : forall x, phase x = Draining (if exception s then [] else jobs s) -> snd (advance fu x) <> None).
  { intros x Hx. apply (drain_answers (if exception s then [] else jobs s)); [exact Hx|].
    subst fu. destruct (exception s); cbn [length]; lia. }
  destruct (aborting s) eqn:Hab; cbn [orb] in *.
  { destruct (first_failed s); [discriminate Hn|]. exfalso. revert Hn. apply Hdr. reflexivity. }
  assert (Hx : exception s = false).
  { destruct (exception s) eqn:E; [|reflexivity]. pose proof (o_exc_ab s H4 E). congruence. }
  assert (Hhead : forall j js, jobs s = j :: js -> status_of s j = Done ->
            snd (advance fu (set_out s js (remove_id j (jset s)) (tasks_of s j) true Retrieving)) <> None).
  { intros j js Hj Hst. destruct fu as [|fu']; [lia|]. cbn [advance pend_out set_out].
    assert (Hcur : is_cur s j = true).
    { pose proof (j_jobs s H2) as A. unfold allcur in A. rewrite Hj in A. apply Forall_inv in A. exact A. }
    pose proof (j_nonempty s H2 Hx j Hcur) as Hne.
    destruct (tasks_of s j); [contradiction | discriminate]. }
  destruct (iterating s) eqn:Hit; cbn [orb] in *.
  - destruct (jobs s) as [|j js] eqn:Hj; [reflexivity|].
    destruct (status_of s j) eqn:Hst; [reflexivity | | discriminate Hn].
    exfalso. revert Hn. apply (Hhead j js eq_refl Hst).
  - destruct (n_comp s <? n_disp s).
    + destruct (jobs s) as [|j js] eqn:Hj; [reflexivity|].
      destruct (status_of s j) eqn:Hst; [reflexivity | | discriminate Hn].
      exfalso. revert Hn. apply (Hhead j js eq_refl Hst).
    + exfalso. revert Hn. apply Hdr. reflexivity.
Qed.

Definition is_completion (e : ev) : Prop :=
  match e with ECbStart _ None => True | ECbFinish _ 1 => True | _ => False end.

(* From any reachable state in which the consumer waits there is a schedule of at most mu s completion events
   (each of a batch of the current call that is in flight or between the two sections of its callback) after
   which the consumer has its answer: no deadlock, and an explicit bound. *)
Theorem bounded_waiting : forall n s, reach s -> mu s <= n -> want s = true -> phase s = Retrieving ->
  snd (try_advance s) = None ->
  exists es, es <> [] /\ length es <= n /\ Forall (fun e => wf_ev e /\ is_completion e) es /\
             last (snd (run_events true s es)) [] <> [].
Proof.
  induction n as [|n IH]; intros s Hr Hmu Hw Hp Hn.
  - exfalso. destruct (waiting_has_decreasing_completion s Hr Hw Hp Hn) as (e & _ & _ & Hlt & _). lia.
  - destruct (waiting_has_decreasing_completion s Hr Hw Hp Hn) as (e & Hwf & Hnc & Hlt & t & Hcur & He).
    assert (Hcomp : is_completion e) by (destruct He as [-> | ->]; exact I).
    pose proof (reach_step s e Hr Hwf) as Hr1.
    destruct (step true s e) as [s1 o] eqn:Hstep. cbn [fst] in *.
    destruct o as [|x xs].
    + (* still no answer: the state after the completion is waiting again, with a smaller mu *)
      pose proof Hstep as Hstep0.
      assert (Hall : InvAll s) by (apply reach_invall; exact Hr).
      assert (Hnj : 1 <= n_jobs (c s)) by (apply invall_wf; exact Hall).
      set (s' := fst (step_raw true s e)).
      assert (Hs' : InvAll s' /\ want s' = want s /\ phase s' = phase s /\ snd (step_raw true s e) = None).
      { unfold s'. destruct He as [-> | ->]; cbn [step_raw fst snd].
        - split; [apply invall_cb_start; exact Hall|].
          destruct (cb_start_fields3 s t None) as (_ & _ & _ & _ & _ & _ & _ & _ & _ & _ & A11).
          split; [|split; [exact A11 | reflexivity]].
          unfold cb_start. destruct (get_trk s t); [|reflexivity].
          destruct (negb (mem_id t (inflight s))); [reflexivity|].
          destruct (negb (tk_cid t0 =? cid s) || aborting s); reflexivity.
        - split; [exact (ParallelFrame3.P_cb_finish InvAll invall_cb_finish_noorig invall_cb_finish_orig invall_cb_stale
                            s t 1 Hall Hnj (le_n 1))|].
          assert (Hfr : want (cb_finish true s t 1) = want s /\ phase (cb_finish true s t 1) = phase s).
          { unfold cb_finish. destruct (get_trk s t) as [k|]; [|auto].
            destruct (negb (mem_id t (cbmid s))); [auto|].
            destruct (true && negb (tk_cid k =? cid s)); [auto|].
            set (sc := mark_closed _ t). destruct (orig sc); [|auto].
            assert (Hnjc : 1 <= n_jobs (c sc)) by exact Hnj.
            pose proof (dispatch_one_batch_shape sc 1 true Hnjc (le_n 1)) as Hsh.
            destruct (dispatch_one_batch sc 1 true) as [s2 r]. cbn [fst snd] in Hsh.
            assert (E : want s2 = want sc /\ phase s2 = phase sc) by (inversion Hsh; subst; auto).
            destruct r; cbn [want phase set_flags]; exact E. }
          destruct Hfr as [A B]. auto. }
      destruct Hs' as (Hall' & Hw' & Hp' & Hraw).
      unfold step in Hstep. destruct (step_raw true s e) as [sr orr] eqn:Hsr. cbn [fst snd] in *. subst orr.
      unfold s' in *. cbn [fst] in *.
      destruct (try_advance sr) as [s2 o2] eqn:Hta. injection Hstep as -> Ho.
      assert (Ho2 : o2 = None) by (destruct o2; [discriminate Ho | reflexivity]). subst o2.
      assert (Hsame : s1 = sr).
      { pose proof (try_advance_none_same sr Hall' (eq_trans Hw' Hw) (eq_trans Hp' Hp)) as A. rewrite Hta in A. apply A. reflexivity. }
      subst sr.
      destruct (IH s1 Hr1 ltac:(lia) (eq_trans Hw' Hw) (eq_trans Hp' Hp) ltac:(rewrite Hta; reflexivity))
        as (es & Hne & Hlen & Hall_es & Hlast).
      exists (e :: es). split; [discriminate|]. split; [cbn; lia|]. split; [constructor; auto|].
      cbn [run_events]. rewrite Hstep0.
      destruct (run_events true s1 es) as [sf os] eqn:Hrun. cbn [snd] in *.
      destruct os as [|o' os']; [destruct es; [contradiction | cbn in Hrun; destruct (step true s1 e0); destruct (run_events true s0 es); discriminate Hrun]|].
      exact Hlast.
    + exists [e]. split; [discriminate|]. split; [cbn; lia|]. split; [constructor; auto|].
      cbn [run_events]. rewrite Hstep. cbn. discriminate.
Qed.
