(* M5, part 4: sequential facts (one process running alone): which calls cannot raise. *)
From Coq Require Import ZArith List Bool Lia.
Require Import JV.Base.PyPrelude JV.Model.FsModel JV.Proofs.FsModelBase.
Import ListNotations.
Open Scope Z_scope.

Lemma run_pbind : forall A B (p : prog A) (g : A -> prog B) s,
  run (pbind p g) s = let (a, s1) := run p s in run (g a) s1.
Proof.
  intros A B p g; induction p as [a|o k IH]; intros s; simpl; auto.
  destruct (exec o s) as [r s']. apply IH.
Qed.

Lemma run_op : forall A o (k : res -> prog A) s,
  run (Op o k) s = run (k (fst (exec o s))) (snd (exec o s)).
Proof. intros; simpl. destruct (exec o s); reflexivity. Qed.

Definition depth (p : path) : nat :=
  match p with
  | PLoc => 0 | PGit | PRoot => 1 | PMod => 2 | PFunc => 3 | PCode | PEntry _ => 4 | _ => 5
  end%nat.

Lemma depth_parent : forall p h, parent p = Some h -> depth p = S (depth h).
Proof. intros p h H; destruct p; simpl in H; inversion H; reflexivity. Qed.

Definition mk_post (p : path) (s : fs) (rs : result unit * fs) : Prop :=
  (fst rs = Ok tt \/ fst rs = Raise (OtherError 17)) /\
  present p (snd rs) = true /\
  (forall h, parent p = Some h -> present h (snd rs) = true) /\
  (forall q, present q s = true -> present q (snd rs) = true).

Lemma mkdir_seq : forall p s, parent_present p s = true -> mk_post p s (run (op_unit (Mkdir p)) s).
Proof.
  intros p s Hpp. unfold mk_post; simpl. destruct (present p s) eqn:Hp; simpl.
  - repeat split; auto. intros h Hh. unfold parent_present in Hpp; rewrite Hh in Hpp; auto.
  - rewrite Hpp; simpl. repeat split; auto.
    + rewrite present_set, path_eqb_refl; reflexivity.
    + intros h Hh. unfold parent_present in Hpp; rewrite Hh in Hpp.
      rewrite present_set, Hpp, orb_true_r; reflexivity.
    + intros q Hq. rewrite present_set, Hq, orb_true_r; reflexivity.
Qed.

Lemma makedirs_seq : forall d p s, (depth p <= d)%nat -> mk_post p s (run (makedirs d p) s).
Proof.
  induction d as [|d IH]; intros p s Hd.
  - destruct (parent p) as [h|] eqn:Hp.
    + apply depth_parent in Hp; lia.
    + simpl; rewrite Hp. apply mkdir_seq. unfold parent_present; rewrite Hp; reflexivity.
  - simpl. destruct (parent p) as [h|] eqn:Hp.
    + simpl. destruct (present h s) eqn:Hh; simpl.
      * apply mkdir_seq. unfold parent_present; rewrite Hp; auto.
      * rewrite run_pbind.
        assert (Hdh : (depth h <= d)%nat) by (apply depth_parent in Hp; lia).
        pose proof (IH h s Hdh) as (Hr & Hph & _ & Hmono).
        destruct (run (makedirs d h) s) as [r1 s1]; simpl in *.
        assert (Hm : mk_post p s1 (run (op_unit (Mkdir p)) s1)).
        { apply mkdir_seq. unfold parent_present; rewrite Hp; auto. }
        assert (Hm' : mk_post p s (run (op_unit (Mkdir p)) s1)).
        { destruct Hm as (A1 & A2 & A3 & A4). repeat split; auto. }
        destruct Hr as [->| ->]; simpl; auto.
    + apply mkdir_seq. unfold parent_present; rewrite Hp; reflexivity.
Qed.

Lemma mkdirp_seq : forall p s, (depth p <= 5)%nat ->
  fst (run (mkdirp p) s) = Ok tt /\ present p (snd (run (mkdirp p) s)) = true /\
  (forall h, parent p = Some h -> present h (snd (run (mkdirp p) s)) = true).
Proof.
  intros p s Hd. unfold mkdirp. rewrite run_pbind.
  pose proof (makedirs_seq 5 p s Hd) as (Hr & Hp & Hh & _).
  destruct (run (makedirs 5 p) s) as [r s1]; simpl in *.
  destruct Hr as [->| ->]; simpl; auto.
Qed.

#[local] Arguments mkdirp : simpl never.
#[local] Arguments store_code : simpl never.
#[local] Arguments clear_func : simpl never.
#[local] Arguments clear_item : simpl never.
#[local] Arguments compute_store : simpl never.
#[local] Arguments rmtree_ign : simpl never.

Section Seq.
Variable pickle : Z -> bytes.
Variable unpickle : bytes -> option Z.
Variable meta : bytes.
Variable parse_meta : bytes -> bool.
Variable code : Z -> bytes.
Variable code_eq : bytes -> Z -> bool.
Variable decodes : bytes -> bool.
Variable gitbytes : bytes.
Variable f : Z -> Z -> Z.
Variable cur : Z.
Variable t : Z.
Variable cb : option bool.

Lemma store_code_seq : forall c s, fst (run (store_code c) s) = Ok tt.
Proof.
  intros c s. unfold store_code, store_code_src, handled; cbn [fst snd interp_store path_of].
  assert (Hw : forall s1, present PFunc s1 = true ->
     fst (run (match c with
               | None => Ret (Ok tt)
               | Some b => Op (Creat PCode) (fun r => match r with
                    | RErr e => Ret (Raise (exn_of e))
                    | _ => Op (Write PCode b) (fun _ => Ret (Ok tt)) end) end) s1) = Ok tt).
  { intros s1 Hp. destruct c as [b|]; simpl; auto.
    unfold parent_present; simpl; rewrite Hp; simpl.
    destruct (lookup PCode (set PCode [] s1)); reflexivity. }
  rewrite run_op; cbn [exec fst snd]. destruct (present PFunc s) eqn:Hp; cbn [is_ok].
  - apply Hw; auto.
  - unfold ebind. rewrite run_pbind.
    pose proof (mkdirp_seq PFunc s) as (Hr & Hpp & _); [simpl; lia|].
    destruct (run (mkdirp PFunc) s) as [r s1]; simpl in *. subst r. apply Hw; auto.
Qed.

Lemma clear_func_seq : forall s, fst (run (clear_func code cur) s) = Ok tt.
Proof.
  intros s. unfold clear_func. rewrite run_pbind.
  match goal with |- context [run ?p s] => destruct (run p s) as [u s1] end. apply store_code_seq.
Qed.

Definition CodeDec (s : fs) : Prop := forall b, lookup PCode s = Some b -> decodes b = true.

Lemma check_code_seq : forall it s, CodeDec s ->
  exists v, fst (fst (run (check_code code code_eq decodes cur it) s)) = Ok v.
Proof.
  intros it s Hdec. unfold check_code. destruct it; [cbn [run fst]; eauto|].
  rewrite run_op; cbn [exec].
  destruct (lookup PCode s) as [b|] eqn:Hl; cbn [fst snd].
  - rewrite (Hdec b Hl); cbn [negb]. destruct (code_eq b cur); [cbn [run fst]; eauto|].
    rewrite run_pbind. pose proof (clear_func_seq s) as H.
    destruct (run (clear_func code cur) s) as [r s1]; cbn [fst] in H; subst r; cbn [run fst]; eauto.
  - rewrite run_pbind. pose proof (store_code_seq (Some (code cur)) s) as H.
    destruct (run (store_code (Some (code cur))) s) as [r s1]; cbn [fst] in H; subst r; cbn [run fst]; eauto.
Qed.

Lemma is_valid_seq : forall k it s, CodeDec s ->
  exists v, fst (fst (run (is_valid parse_meta code code_eq decodes cur cb k it) s)) = Ok v.
Proof.
  intros k it s Hdec. unfold is_valid. rewrite run_pbind.
  destruct (check_code_seq it s Hdec) as [v Hv].
  destruct (run (check_code code code_eq decodes cur it) s) as [[r it'] s1]; cbn [fst] in Hv; subst r.
  destruct v; [|cbn [run fst]; eauto].
  rewrite run_op; cbn [exec fst snd].
  destruct (present (POut k) s1); cbn [is_ok negb]; [|cbn [run fst]; eauto].
  rewrite run_op; cbn [exec].
  destruct (lookup (PMeta k) s1) as [b|]; cbn [fst snd];
    (destruct cb as [verdict|]; [|cbn [run fst]; eauto]);
    (match goal with |- context [if ?c then _ else _] => destruct c end; [|cbn [run fst]; eauto]);
    rewrite run_pbind; destruct (run (clear_item k) s1); cbn [run fst]; eauto.
Qed.

Lemma cached_call_seq : forall k it s, CodeDec s ->
  exists v c, fst (fst (run (cached_call pickle unpickle meta parse_meta code code_eq decodes f cur t cb false k it) s))
              = OVal v c.
Proof.
  intros k it s Hdec. unfold cached_call. rewrite run_pbind.
  destruct (is_valid_seq k it s Hdec) as [v Hv].
  destruct (run (is_valid parse_meta code code_eq decodes cur cb k it) s) as [[r it'] s1]; cbn [fst] in Hv; subst r.
  assert (Hre : forall s2, exists v c,
     fst (fst (run (pbind (compute_store pickle meta f cur t k)
                      (fun _ => Ret (OVal (f cur k) true, it'))) s2)) = OVal v c).
  { intros s2. rewrite run_pbind. destruct (run _ s2); cbn [run fst]; eauto. }
  destruct v; [|apply Hre].
  rewrite run_op; cbn [exec fst snd].
  destruct (present (POut k) s1); cbn [is_ok negb]; [|apply Hre].
  rewrite run_op; cbn [exec].
  destruct (lookup (POut k) s1) as [b|]; cbn [fst snd]; [|apply Hre].
  destruct (unpickle b); [cbn [run fst]; eauto | apply Hre].
Qed.

Lemma memory_init_seq : forall s, Tree s -> fst (run (memory_init gitbytes) s) = Ok tt.
Proof.
  intros s HT. unfold memory_init.
  assert (Hw : forall s1, present PLoc s1 = true ->
     fst (run (Op (Creat PGit) (fun r2 => match r2 with
            | RErr e => Ret (Raise (exn_of e))
            | _ => Op (Write PGit gitbytes) (fun _ => Ret (Ok tt)) end)) s1) = Ok tt).
  { intros s1 Hp. simpl. unfold parent_present; simpl; rewrite Hp; simpl.
    destruct (lookup PGit (set PGit [] s1)); reflexivity. }
  rewrite run_op; cbn [exec fst snd]. destruct (present PRoot s) eqn:Hp; cbn [is_ok].
  - unfold ebind; rewrite run_pbind; cbn [run]. apply Hw. eapply HT; eauto.
  - unfold ebind. rewrite run_pbind.
    pose proof (mkdirp_seq PRoot s) as (Hr & _ & Hpp); [simpl; lia|].
    destruct (run (mkdirp PRoot) s) as [r s1]; simpl in *. subst r. apply Hw. apply Hpp; reflexivity.
Qed.

End Seq.
