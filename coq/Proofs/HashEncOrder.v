(* C08, determinism half: the opcode stream written by Hasher.dump does not depend on the iteration
   order of dicts / sets / frozensets, at any nesting depth, on the universe [good]. *)
From Coq Require Import ZArith List Bool Lia Sorting.Permutation Sorting.Sorted.
Require Import JV.Model.HashEnc JV.Proofs.HashEncSort JV.Proofs.HashEncDefs.
Import ListNotations.

(* ---------------------------------------------------------------- small list facts *)
Lemma NoDup_map_in_inj {X Y} (f : X -> Y) l x y :
  NoDup (map f l) -> In x l -> In y l -> f x = f y -> x = y.
Proof.
  induction l as [|h l IH]; cbn; intros ND Hx Hy E; [contradiction|].
  inversion ND as [|? ? Hn ND']; subst.
  destruct Hx as [->|Hx], Hy as [->|Hy]; auto.
  - exfalso. apply Hn. rewrite E. apply in_map. exact Hy.
  - exfalso. apply Hn. rewrite <- E. apply in_map. exact Hx.
Qed.

Lemma StronglySorted_map {X Y} (f : X -> Y) (RX : X -> X -> Prop) (RY : Y -> Y -> Prop) l :
  (forall a b, RX a b -> RY (f a) (f b)) -> StronglySorted RX l -> StronglySorted RY (map f l).
Proof.
  intros H. induction 1 as [|a l Hs IH Hall]; cbn; constructor; auto.
  rewrite Forall_forall in *. intros y Hy. apply in_map_iff in Hy. destruct Hy as (b & <- & Hb). auto.
Qed.

(* ---------------------------------------------------------------- sorting lists of keyed things *)
Section Keyed.
Context {X : Type} (key : X -> value) (lt : X -> X -> option bool).
Definition RX (a b : X) : bool := lt_true (key a) (key b).
Definition lt_by_key (l0 : list X) : Prop :=
  forall x y, In x l0 -> In y l0 -> key x <> key y -> lt x y = py_lt (key x) (key y).

Section Dom.
Variable l0 : list X.
Hypothesis Hk : key_order_ok (map key l0).
Hypothesis Hl : lt_by_key l0.
Let P (x : X) : Prop := In x l0.

Lemma kd_lt x y : P x -> P y -> x <> y -> lt x y = Some (RX x y).
Proof.
  destruct Hk as (ND & Heq & Hdef & Hirr & Htr & Htot). intros Px Py N.
  assert (Nk : key x <> key y) by (intros E; apply N; eapply NoDup_map_in_inj; eauto).
  rewrite (Hl x y Px Py Nk).
  destruct (Hdef (key x) (key y) (in_map key _ _ Px) (in_map key _ _ Py) Nk) as [b Hb].
  unfold RX, lt_true. rewrite Hb. destruct b; reflexivity.
Qed.
Lemma kd_irr x : P x -> RX x x = false.
Proof. destruct Hk as (ND & Heq & Hdef & Hirr & Htr & Htot). intros Px. apply Hirr. apply in_map. exact Px. Qed.
Lemma kd_trans x y z : P x -> P y -> P z -> RX x y = true -> RX y z = true -> RX x z = true.
Proof.
  destruct Hk as (ND & Heq & Hdef & Hirr & Htr & Htot). intros Px Py Pz.
  apply Htr; apply in_map; assumption.
Qed.
Lemma kd_tot x y : P x -> P y -> x <> y -> RX x y = true \/ RX y x = true.
Proof.
  destruct Hk as (ND & Heq & Hdef & Hirr & Htr & Htot). intros Px Py N.
  apply Htot; try (apply in_map; assumption). intros E; apply N; eapply NoDup_map_in_inj; eauto.
Qed.

Lemma keyed_spec : exists s, py_sorted lt l0 = Some s /\ ssorted RX s /\ Permutation s l0.
Proof.
  apply (py_sorted_spec lt RX P kd_lt kd_trans kd_tot).
  - destruct Hk as (ND & _). eapply NoDup_map_inv; eauto.
  - rewrite Forall_forall. auto.
Qed.

Lemma keyed_perm l0' : Permutation l0 l0' -> py_sorted lt l0 = py_sorted lt l0'.
Proof.
  intros Hp. apply (py_sorted_perm lt RX P kd_lt kd_irr kd_trans kd_tot); auto.
  - destruct Hk as (ND & _). eapply NoDup_map_inv; eauto.
  - rewrite Forall_forall. auto.
Qed.

Lemma keyed_unique s s' : Permutation s l0 -> Permutation s' l0 -> ssorted RX s -> ssorted RX s' -> s = s'.
Proof.
  intros H1 H2 S1 S2. apply (ssorted_perm_unique RX P kd_irr kd_trans); auto.
  - rewrite Forall_forall. intros x Hx. unfold P. eapply Permutation_in; [exact H1|exact Hx].
  - rewrite H1. apply Permutation_sym. exact H2.
Qed.
End Dom.
End Keyed.

Lemma key_order_ok_perm ks ks' : Permutation ks ks' -> key_order_ok ks -> key_order_ok ks'.
Proof.
  intros Hp (ND & Heq & Hdef & Hirr & Htr & Htot).
  assert (I : forall x, In x ks' -> In x ks) by (intros x Hx; eapply Permutation_in; [apply Permutation_sym|]; eauto).
  repeat split.
  - eapply Permutation_NoDup; eauto.
  - intros; apply Heq; auto.
  - intros; apply Hdef; auto.
  - intros; apply Hirr; auto.
  - intros x y z Hx Hy Hz; apply Htr; auto.
  - intros; apply Htot; auto.
Qed.

(* sorting commutes with a key-preserving decoration *)
Lemma keyed_map {X Y} (keyX : X -> value) (ltX : X -> X -> option bool)
      (keyY : Y -> value) (ltY : Y -> Y -> option bool) (f : X -> Y) (l0 : list X) :
  key_order_ok (map keyX l0) -> (forall x, keyY (f x) = keyX x) ->
  lt_by_key keyX ltX l0 -> lt_by_key keyY ltY (map f l0) ->
  exists s, py_sorted ltX l0 = Some s /\ py_sorted ltY (map f l0) = Some (map f s) /\ Permutation s l0.
Proof.
  intros Hk Hkey HlX HlY.
  assert (Hk' : key_order_ok (map keyY (map f l0))).
  { rewrite map_map. erewrite map_ext; [exact Hk|]. intros; apply Hkey. }
  destruct (keyed_spec keyX ltX l0 Hk HlX) as (s & Hs & Ss & Ps).
  destruct (keyed_spec keyY ltY (map f l0) Hk' HlY) as (s' & Hs' & Ss' & Ps').
  exists s. repeat split; auto. rewrite Hs'. f_equal.
  apply (keyed_unique keyY (map f l0) Hk'); auto.
  - apply Permutation_map. exact Ps.
  - eapply StronglySorted_map; [|exact Ss]. intros a b. unfold Rp, RX. rewrite !Hkey. auto.
Qed.

(* ---------------------------------------------------------------- unfolding enc / good *)
Definition dkey (it : ditem) : value := match it with (k, _, _, _) => k end.
Definition dproj (it : ditem) : encoder * encoder := match it with (_, _, ek, ev) => (ek, ev) end.
Definition ext (e e' : encoder) : Prop := forall m, e m = e' m.

Lemma good_VTuple l : good (VTuple l) <-> Forall good l.
Proof. cbn [good]. induction l as [|x t IH]; [split; auto|]. rewrite Forall_cons_iff, <- IH. reflexivity. Qed.
Lemma good_VList l : good (VList l) <-> Forall good l.
Proof. cbn [good]. induction l as [|x t IH]; [split; auto|]. rewrite Forall_cons_iff, <- IH. reflexivity. Qed.
Lemma good_VDict items : good (VDict items) <-> keys_ok (map fst items) /\ Forall (fun kv => good (snd kv)) items.
Proof.
  cbn [good]. apply and_iff_compat_l.
  induction items as [|[k x] t IH]; [split; auto|]. rewrite Forall_cons_iff, <- IH. reflexivity.
Qed.

Lemma plain_VTuple l : plain (VTuple l) <-> Forall plain l.
Proof. cbn [plain]. induction l as [|x t IH]; [split; auto|]. rewrite Forall_cons_iff, <- IH. reflexivity. Qed.

Lemma run_seq_ext es es' : Forall2 ext es es' -> forall m, run_seq es m = run_seq es' m.
Proof.
  induction 1 as [|e e' es es' He _ IH]; intros m; cbn [run_seq]; [reflexivity|].
  rewrite (He m). destruct (e' m) as [[o m1]|]; [|reflexivity]. rewrite IH. reflexivity.
Qed.

Lemma Forall2_len {X Y} (R : X -> Y -> Prop) l l' : Forall2 R l l' -> length l = length l'.
Proof. induction 1; cbn; congruence. Qed.

Lemma enc_tuple_ext es es' : Forall2 ext es es' -> ext (enc_tuple es) (enc_tuple es').
Proof.
  intros H m. unfold enc_tuple. rewrite (run_seq_ext _ _ H m), (Forall2_len _ _ _ H).
  destruct H; reflexivity.
Qed.
Lemma enc_list_ext es es' : Forall2 ext es es' -> ext (enc_list es) (enc_list es').
Proof. intros H m. unfold enc_list. destruct (memoize m) as [p m1]. rewrite (run_seq_ext _ _ H m1). reflexivity. Qed.

Section EncOrder.
Variable md5 : list byte -> list byte.
Notation enc := (enc md5).

Definition mk_ditem (kv : value * value) : ditem := (fst kv, snd kv, enc (fst kv), enc (snd kv)).
Definition mk_selem (x : value) : selem := (x, enc x).

Lemma enc_VTuple l : enc (VTuple l) = enc_tuple (map enc l).
Proof. reflexivity. Qed.
Lemma enc_VList l : enc (VList l) = enc_list (map enc l).
Proof. reflexivity. Qed.
Lemma enc_VDict items : enc (VDict items) = enc_dict md5 (map mk_ditem items).
Proof. cbn [HashEnc.enc]. f_equal. induction items as [|[k x] t IH]; cbn [map]; [reflexivity|]. f_equal. exact IH. Qed.
Lemma enc_VSet l : enc (VSet l) = enc_set md5 false (map mk_selem l).
Proof. reflexivity. Qed.
Lemma enc_VFrozenSet l : enc (VFrozenSet l) = enc_set md5 true (map mk_selem l).
Proof. reflexivity. Qed.

(* on well-ordered keys the tuple comparison of the items only ever looks at the keys *)
Lemma ditem_lt_by_key (its : list ditem) : key_order_ok (map dkey its) -> lt_by_key dkey ditem_lt its.
Proof.
  intros (ND & Heq & _) [[[k1 v1] e1] f1] [[[k2 v2] e2] f2] Hx Hy N. cbn [dkey] in *.
  unfold ditem_lt, pair_lt. rewrite (Heq k1 k2); auto.
  - change k1 with (dkey (k1, v1, e1, f1)). apply in_map. exact Hx.
  - change k2 with (dkey (k2, v2, e2, f2)). apply in_map. exact Hy.
Qed.

Lemma selem_lt_by_key (es : list selem) : lt_by_key fst selem_lt es.
Proof. intros x y _ _ _. reflexivity. Qed.

Lemma map_dkey_mk items : map dkey (map mk_ditem items) = map fst items.
Proof. rewrite map_map. apply map_ext. intros [k x]. reflexivity. Qed.
Lemma map_fst_mk l : map fst (map mk_selem l) = l.
Proof. rewrite map_map. cbn. apply map_id. Qed.

(* the order in which a good dict is written: by key, whatever the iteration order *)
Lemma dict_order_good (its : list ditem) : key_order_ok (map dkey its) ->
  exists s, py_sorted ditem_lt its = Some s /\ dict_order md5 its = Some (map dproj s) /\ Permutation s its.
Proof.
  intros Hk. destruct (keyed_spec dkey ditem_lt its Hk (ditem_lt_by_key its Hk)) as (s & Hs & _ & Hp).
  exists s. repeat split; auto. unfold dict_order. rewrite Hs. reflexivity.
Qed.

Lemma dict_order_perm its its' : key_order_ok (map dkey its) -> Permutation its its' ->
  dict_order md5 its = dict_order md5 its'.
Proof.
  intros Hk Hp.
  assert (Hk' : key_order_ok (map dkey its')) by (eapply key_order_ok_perm; [apply Permutation_map; exact Hp|exact Hk]).
  destruct (dict_order_good its Hk) as (s & Hs & -> & _).
  destruct (dict_order_good its' Hk') as (s' & Hs' & -> & _).
  rewrite (keyed_perm dkey ditem_lt its Hk (ditem_lt_by_key its Hk) its' Hp) in Hs. congruence.
Qed.

Lemma set_order_good (es : list selem) : key_order_ok (map fst es) ->
  exists s, py_sorted selem_lt es = Some s /\ set_order md5 es = Some (map snd s) /\ Permutation s es.
Proof.
  intros Hk. destruct (keyed_spec (X:=selem) fst selem_lt es Hk (selem_lt_by_key es)) as (s & Hs & _ & Hp).
  exists s. repeat split; auto. unfold set_order. rewrite Hs. reflexivity.
Qed.

Lemma set_order_perm es es' : key_order_ok (map fst es) -> Permutation es es' ->
  set_order md5 es = set_order md5 es'.
Proof.
  intros Hk Hp.
  assert (Hk' : key_order_ok (map fst es')) by (eapply key_order_ok_perm; [apply Permutation_map; exact Hp|exact Hk]).
  destruct (set_order_good es Hk) as (s & Hs & -> & _).
  destruct (set_order_good es' Hk') as (s' & Hs' & -> & _).
  rewrite (keyed_perm (X:=selem) fst selem_lt es Hk (selem_lt_by_key es) es' Hp) in Hs. congruence.
Qed.

(* ---------------------------------------------------------------- the theorem *)
Definition Q (a b : value) : Prop := (good a <-> good b) /\ (good a -> ext (enc a) (enc b)).

Lemma keys_ok_perm ks ks' : Permutation ks ks' -> keys_ok ks -> keys_ok ks'.
Proof.
  intros Hp [Hpl Hk]. split; [eapply Permutation_Forall; eauto|eapply key_order_ok_perm; eauto].
Qed.

Lemma Forall2_Q_good l l' : Forall2 Q l l' -> (Forall good l <-> Forall good l').
Proof.
  induction 1 as [|a b l l' [Hab _] _ IH]; [split; auto|]. rewrite !Forall_cons_iff, Hab, IH. reflexivity.
Qed.
Lemma Forall2_Q_ext l l' : Forall2 Q l l' -> Forall good l -> Forall2 ext (map enc l) (map enc l').
Proof.
  induction 1 as [|a b l l' [_ Hab] _ IH]; intros Hg; cbn [map]; constructor; inversion Hg; subst; auto.
Qed.

(* two item lists with the same keys in the same positions, as a list of (key, value, value') triples *)
Lemma triples items items' :
  Forall2 (fun a b : value * value => fst a = fst b /\ Q (snd a) (snd b)) items items' ->
  exists Z : list (value * value * value),
    items = map (fun t => (fst (fst t), snd (fst t))) Z /\
    items' = map (fun t => (fst (fst t), snd t)) Z /\
    Forall (fun t => Q (snd (fst t)) (snd t)) Z.
Proof.
  induction 1 as [|[k x] [k' x'] l l' [E Hq] _ (Z & H1 & H2 & H3)]; [exists []; repeat split; constructor|].
  cbn in E. subst k'. exists ((k, x, x') :: Z). cbn. subst. repeat split; auto.
Qed.

Theorem veq_Q a b : veq a b -> Q a b.
Proof.
  revert a b. apply veq_ind'.
  - (* refl *) intros v. split; [reflexivity|]. intros _ m. reflexivity.
  - (* sym *) intros a b _ [Hg He]. split; [symmetry; exact Hg|]. intros Gb m. symmetry. apply He. apply Hg. exact Gb.
  - (* trans *) intros a b c _ [Hg1 He1] _ [Hg2 He2]. split; [rewrite Hg1; exact Hg2|].
    intros Ga m. rewrite (He1 Ga m). apply He2. apply Hg1. exact Ga.
  - (* tuple *) intros l l' _ F. split.
    + rewrite !good_VTuple. apply Forall2_Q_good. exact F.
    + rewrite good_VTuple. intros G. rewrite !enc_VTuple. apply enc_tuple_ext. apply Forall2_Q_ext; auto.
  - (* list *) intros l l' _ F. split.
    + rewrite !good_VList. apply Forall2_Q_good. exact F.
    + rewrite good_VList. intros G. rewrite !enc_VList. apply enc_list_ext. apply Forall2_Q_ext; auto.
  - (* dict, values *) intros items items' _ F.
    destruct (triples _ _ F) as (Z & -> & -> & HZ). clear F.
    set (f1 := fun t : value * value * value => (fst (fst t), snd (fst t))).
    set (f2 := fun t : value * value * value => (fst (fst t), snd t)).
    assert (Hkeys : map fst (map f2 Z) = map fst (map f1 Z)) by (rewrite !map_map; reflexivity).
    split.
    + rewrite !good_VDict, Hkeys. apply and_iff_compat_l. rewrite !Forall_map.
      clear Hkeys. induction HZ as [|t Z [Hq _] _ IH]; [split; auto|]. rewrite !Forall_cons_iff, IH. cbn. rewrite Hq. reflexivity.
    + rewrite good_VDict. intros [[_ Hk] Hg] m. rewrite !enc_VDict. unfold enc_dict.
      destruct (memoize m) as [p m1].
      set (keyZ := fun t : value * value * value => fst (fst t)).
      set (ltZ := fun a b => py_lt (keyZ a) (keyZ b)).
      assert (HkZ : key_order_ok (map keyZ Z)) by (rewrite map_map in Hk; exact Hk).
      assert (HlZ : lt_by_key keyZ ltZ Z) by (intros x y _ _ _; reflexivity).
      assert (Hk1 : key_order_ok (map dkey (map mk_ditem (map f1 Z)))) by (rewrite map_dkey_mk; exact Hk).
      assert (Hk2 : key_order_ok (map dkey (map mk_ditem (map f2 Z)))) by (rewrite map_dkey_mk, Hkeys; exact Hk).
      destruct (keyed_map keyZ ltZ dkey ditem_lt (fun t => mk_ditem (f1 t)) Z HkZ) as (s1 & Hs1 & Hd1 & Hp1); auto.
      { rewrite <- map_map. apply ditem_lt_by_key. exact Hk1. }
      destruct (keyed_map keyZ ltZ dkey ditem_lt (fun t => mk_ditem (f2 t)) Z HkZ) as (s2 & Hs2 & Hd2 & Hp2); auto.
      { rewrite <- map_map. apply ditem_lt_by_key. exact Hk2. }
      assert (s2 = s1) by congruence. subst s2.
      rewrite <- map_map in Hd1, Hd2.
      assert (Ho1 : dict_order md5 (map mk_ditem (map f1 Z)) = Some (map dproj (map (fun t => mk_ditem (f1 t)) s1)))
        by (unfold dict_order; rewrite Hd1; reflexivity).
      assert (Ho2 : dict_order md5 (map mk_ditem (map f2 Z)) = Some (map dproj (map (fun t => mk_ditem (f2 t)) s1)))
        by (unfold dict_order; rewrite Hd2; reflexivity).
      rewrite Ho1, Ho2.
      assert (Hext : Forall2 ext (map pair_encoder (map dproj (map (fun t => mk_ditem (f1 t)) s1)))
                                 (map pair_encoder (map dproj (map (fun t => mk_ditem (f2 t)) s1)))).
      { assert (HZ1 : Forall (fun t => Q (snd (fst t)) (snd t) /\ good (snd (fst t))) s1).
        { eapply Permutation_Forall; [apply Permutation_sym; exact Hp1|].
          rewrite Forall_map in Hg. rewrite Forall_forall in *. intros t Ht. split; [apply HZ; exact Ht|apply (Hg t Ht)]. }
        clear - HZ1. induction HZ1 as [|t s [[_ Hq] Hgt] _ IH]; cbn [map]; constructor; [|exact IH].
        intros m. unfold pair_encoder, mk_ditem, dproj, f1, f2. cbn [fst snd].
        destruct (enc (fst (fst t)) m) as [[ok m1]|]; [|reflexivity]. rewrite (Hq Hgt m1). reflexivity. }
      rewrite (run_seq_ext _ _ Hext m1). reflexivity.
  - (* dict, permutation *) intros items items' Hp. split.
    + rewrite !good_VDict. split; intros [Hk Hg]; split.
      * eapply keys_ok_perm; [apply Permutation_map; exact Hp|exact Hk].
      * eapply Permutation_Forall; eauto.
      * eapply keys_ok_perm; [apply Permutation_map; apply Permutation_sym; exact Hp|exact Hk].
      * eapply Permutation_Forall; [apply Permutation_sym|]; eauto.
    + rewrite good_VDict. intros [[_ Hk] _] m. rewrite !enc_VDict. unfold enc_dict.
      rewrite (dict_order_perm (map mk_ditem items) (map mk_ditem items')); [reflexivity| |apply Permutation_map; exact Hp].
      rewrite map_dkey_mk. exact Hk.
  - (* set *) intros l l' Hp. split.
    + cbn [good]. split; apply keys_ok_perm; [|apply Permutation_sym]; exact Hp.
    + cbn [good]. intros [_ Hk] m. rewrite !enc_VSet. unfold enc_set.
      rewrite (set_order_perm (map mk_selem l) (map mk_selem l')); [reflexivity| |apply Permutation_map; exact Hp].
      rewrite map_fst_mk. exact Hk.
  - (* frozenset *) intros l l' Hp. split.
    + cbn [good]. split; apply keys_ok_perm; [|apply Permutation_sym]; exact Hp.
    + cbn [good]. intros [_ Hk] m. rewrite !enc_VFrozenSet. unfold enc_set.
      rewrite (set_order_perm (map mk_selem l) (map mk_selem l')); [reflexivity| |apply Permutation_map; exact Hp].
      rewrite map_fst_mk. exact Hk.
Qed.

Theorem enc_order a b : good a -> veq a b -> forall m, enc_ops md5 m a = enc_ops md5 m b.
Proof. intros G H m. unfold enc_ops. apply (proj2 (veq_Q a b H) G m). Qed.

Theorem enc_top_order a b : good a -> veq a b -> enc_top md5 a = enc_top md5 b.
Proof. intros G H. unfold enc_top, enc_top_ops. rewrite (proj2 (veq_Q a b H) G memo0). reflexivity. Qed.
End EncOrder.
