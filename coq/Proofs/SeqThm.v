(* M1q proofs: the sequential path of joblib.Parallel (Model/ParallelSeq.v). *)
From Coq Require Import List Bool Arith Lia PeanoNat.
Require Import JV.Model.ParallelCore JV.Model.ParallelSeq.
Import ListNotations.

Definition wf_qcfg (cf : qcfg) : Prop := 1 <= qbs cf.
Definition wf_qev (e : qev) : Prop := match e with QCall cf => wf_qcfg cf | _ => True end.

Inductive qreach : qst -> Prop :=
| qreach_init : qreach qinit
| qreach_step s e : qreach s -> wf_qev e -> qreach (fst (qstep s e)).

(* ------------------------------------------------------------------ the invariant *)
Record QI (s : qst) : Prop := {
  qi_pre : qdelivered s = seq 0 (length (qdelivered s));
  qi_seq : qalive s = true -> qdelivered s ++ qbuf s = seq 0 (qtaken s);
  qi_le : qtaken s <= qN (qc s);
  qi_lazy : qtaken s <= length (qdelivered s) + qbs (qc s);
  qi_disp : qalive s = true -> qndisp s = length (qdelivered s);
  qi_comp : qncomp s = length (qdelivered s);
  qi_buf : qalive s = true -> length (qbuf s) < qbs (qc s);
  qi_run : qalive s = true -> qrunning s = true /\ qiter s = true;
  qi_end : qalive s = false -> qrunning s = false /\ qiter s = false /\ qsusp s = false;
  qi_dlen : length (qdelivered s) <= qtaken s;
  qi_disp_ok : qexc s = false -> qndisp s = length (qdelivered s)
}.

Lemma qinit_QI : QI qinit.
Proof. constructor; cbn; auto; try lia; try discriminate. Qed.

Lemma qstart_QI cf : wf_qcfg cf -> QI (qstart cf).
Proof. intros H. constructor; cbn; auto; try lia; try discriminate. Qed.

Lemma qfinish_QI s b : QI s -> QI (qfinish s b).
Proof.
  intros [P A B L C D E F G J K]. constructor; cbn; auto; try discriminate.
  intros H. apply orb_false_iff in H as [H _]. auto.
Qed.

Lemma app_seq_prefix : forall (l r : list nat) a n, l ++ r = seq a n -> l = seq a (length l).
Proof.
  induction l as [|x l IH]; intros r a n H; [reflexivity|].
  destruct n as [|n]; [discriminate H|]. cbn [seq app] in H. injection H as Hx Hr. subst x.
  cbn [length seq]. f_equal. eapply IH. exact Hr.
Qed.

(* ---- slices *)
Lemma qslice_spec cf k t : let '(l, t', r) := qslice cf k t in
  l = seq t (t' - t) /\ t <= t' /\ t' - t <= k.
Proof.
  revert t. induction k as [|k IH]; intros t; cbn [qslice].
  - rewrite Nat.sub_diag. cbn. repeat split; lia.
  - destruct (qpull1 cf t) as [[i|u]|] eqn:Hp.
    + specialize (IH (S t)). destruct (qslice cf k (S t)) as [[l t'] r]. destruct IH as (A & B & C).
      assert (i = t).
      { unfold qpull1 in Hp. destruct (match qifail cf with Some j => j =? t | None => false end); [discriminate|].
        destruct (t <? qN cf); [injection Hp as <-; reflexivity | discriminate]. }
      subst i. repeat split; try lia.
      replace (t' - t) with (S (t' - S t)) by lia. cbn [seq]. f_equal. exact A.
    + rewrite Nat.sub_diag. cbn. repeat split; lia.
    + rewrite Nat.sub_diag. cbn. repeat split; lia.
Qed.

Lemma qslice_le cf k t : t <= qN cf -> snd (fst (qslice cf k t)) <= qN cf.
Proof.
  revert t. induction k as [|k IH]; intros t Ht; cbn [qslice]; [exact Ht|].
  unfold qpull1. destruct (match qifail cf with Some j => j =? t | None => false end); [exact Ht|].
  destruct (t <? qN cf) eqn:E; [|exact Ht]. apply Nat.ltb_lt in E.
  specialize (IH (S t) E). destruct (qslice cf k (S t)) as [[l t'] r]. exact IH.
Qed.

(* ---- the next task *)
Lemma qnext_task_QI s : QI s -> qalive s = true ->
  match qnext_task s with
  | (s1, Some (inl i)) =>
      qc s1 = qc s /\ i = length (qdelivered s) /\ qdelivered s1 = qdelivered s /\
      (qdelivered s ++ [i]) ++ qbuf s1 = seq 0 (qtaken s1) /\
      qtaken s1 <= qN (qc s) /\ length (qbuf s1) < qbs (qc s) /\
      qndisp s1 = qndisp s /\ qncomp s1 = qncomp s /\ qrunning s1 = qrunning s /\ qiter s1 = qiter s /\
      qalive s1 = qalive s /\ qcons s1 = qcons s /\ qsusp s1 = qsusp s /\ qabort s1 = qabort s /\ qexc s1 = qexc s
  | (s1, _) =>
      qc s1 = qc s /\ qdelivered s1 = qdelivered s /\ qbuf s1 = [] /\ qdelivered s = seq 0 (length (qdelivered s)) /\
      length (qdelivered s) <= qtaken s1 /\
      qndisp s1 = qndisp s /\ qncomp s1 = qncomp s /\ qrunning s1 = qrunning s /\ qiter s1 = qiter s /\
      qalive s1 = qalive s /\ qcons s1 = qcons s /\ qsusp s1 = qsusp s /\ qabort s1 = qabort s /\ qexc s1 = qexc s /\
      qtaken s1 <= length (qdelivered s) + qbs (qc s) /\ qtaken s1 <= qN (qc s)
  end.
Proof.
  intros [P A0 B L C D E0 F G J K] Hal. unfold qnext_task. pose proof (A0 Hal) as A. pose proof (E0 Hal) as E.
  assert (Hpre : forall l r n, l ++ r = seq 0 n -> l = seq 0 (length l) /\ length l <= n).
  { intros l r n H. split; [eapply app_seq_prefix; exact H|].
    apply (f_equal (@length nat)) in H. rewrite app_length, seq_length in H. lia. }
  destruct (qbuf s) as [|i r] eqn:Hb.
  - rewrite app_nil_r in A.
    assert (Hd : length (qdelivered s) = qtaken s) by (rewrite A, seq_length; reflexivity).
    destruct (Nat.eqb_spec (qbs (qc s)) 1) as [Hbs|Hbs].
    + unfold qpull1. destruct (match qifail (qc s) with Some j => j =? qtaken s | None => false end) eqn:Hf.
      * cbn. rewrite Hb. repeat split; auto; try lia; try (rewrite Hd; exact A).
      * destruct (qtaken s <? qN (qc s)) eqn:Hlt.
        -- apply Nat.ltb_lt in Hlt. cbn. repeat split; auto; try lia.
           rewrite app_nil_r, A. change (0 :: seq 1 (qtaken s)) with (seq 0 (S (qtaken s))). rewrite seq_S. reflexivity.
        -- cbn. rewrite Hb. repeat split; auto; try lia; try (rewrite Hd; exact A).
    + pose proof (qslice_spec (qc s) (qbs (qc s)) (qtaken s)) as Hs.
      destruct (qslice (qc s) (qbs (qc s)) (qtaken s)) as [[l t] rz] eqn:Hsl. destruct Hs as (Hl & Ht1 & Ht2).
      destruct rz.
      * cbn. repeat split; auto; try lia; try (rewrite Hd; exact A).
        pose proof (qslice_le (qc s) (qbs (qc s)) (qtaken s) B) as Hq; rewrite Hsl in Hq; exact Hq.
      * destruct l as [|i l'] eqn:Hll.
        -- cbn. repeat split; auto; try lia; try (rewrite Hd; exact A).
           pose proof (qslice_le (qc s) (qbs (qc s)) (qtaken s) B) as Hq; rewrite Hsl in Hq; exact Hq.
        -- cbn. assert (Hlen : length (i :: l') = t - qtaken s) by (rewrite Hl, seq_length; reflexivity).
           assert (Hi : i = qtaken s).
           { destruct (t - qtaken s) as [|m] eqn:Hm; [discriminate Hl|]. cbn [seq] in Hl. injection Hl as Hi _. exact Hi. }
           repeat split; auto; try lia.
           ++ rewrite <- app_assoc. cbn [app]. rewrite Hl, A.
              replace t with (qtaken s + (t - qtaken s)) at 2 by lia. rewrite seq_app. reflexivity.
           ++ pose proof (qslice_le (qc s) (qbs (qc s)) (qtaken s) B) as Hq. rewrite Hsl in Hq. exact Hq.
           ++ cbn [length] in Hlen. lia.
  - destruct (Hpre _ _ _ A) as [P1 P2].
    assert (Hlen : length (qdelivered s) + S (length r) = qtaken s).
    { apply (f_equal (@length nat)) in A. rewrite app_length, seq_length in A. cbn [length] in A. exact A. }
    assert (Hi : i = length (qdelivered s)).
    { pose proof (f_equal (fun l => nth (length (qdelivered s)) l 0) A) as A1. cbn beta in A1.
      rewrite app_nth2, Nat.sub_diag in A1 by lia. cbn [nth] in A1. rewrite seq_nth in A1 by lia. lia. }
    cbn [fst snd qc qdelivered qbuf qtaken qndisp qncomp qrunning qiter qalive qcons qsusp qabort qexc].
    repeat split; auto.
    + rewrite <- app_assoc. cbn [app]. exact A.
    + cbn [length] in E. lia.
Qed.

Lemma qpull1_none cf t : qpull1 cf t = None -> qN cf <= t.
Proof.
  unfold qpull1. destruct (match qifail cf with Some j => j =? t | None => false end); [discriminate|].
  destruct (t <? qN cf) eqn:E; [discriminate|]. intros _. apply Nat.ltb_ge in E. exact E.
Qed.

Lemma qpull1_raise cf t u : qpull1 cf t = Some (inr u) -> qifail cf <> None.
Proof.
  unfold qpull1. destruct (qifail cf) as [j|]; [discriminate|].
  destruct (t <? qN cf); discriminate.
Qed.

Lemma qslice_raise cf k t : snd (qslice cf k t) = true -> qifail cf <> None.
Proof.
  revert t. induction k as [|k IH]; intros t; cbn [qslice]; [discriminate|].
  destruct (qpull1 cf t) as [[i|u]|] eqn:Hp.
  - specialize (IH (S t)). destruct (qslice cf k (S t)) as [[l t'] r]. exact IH.
  - intros _. eapply qpull1_raise; exact Hp.
  - discriminate.
Qed.

Lemma qslice_empty cf k t : 1 <= k -> fst (fst (qslice cf k t)) = [] -> snd (qslice cf k t) = false -> qN cf <= t.
Proof.
  destruct k as [|k]; [lia|]. intros _. cbn [qslice].
  destruct (qpull1 cf t) as [[i|u]|] eqn:Hp.
  - destruct (qslice cf k (S t)) as [[l t'] r]. discriminate.
  - discriminate.
  - intros _ _. apply qpull1_none. exact Hp.
Qed.

Lemma qnext_task_none s : QI s -> qalive s = true -> snd (qnext_task s) = None -> qifail (qc s) = None ->
  length (qdelivered s) = qN (qc s).
Proof.
  intros [P A0 B L C D E0 F G J K] Hal Hn Hif. unfold qnext_task in Hn. pose proof (A0 Hal) as A. pose proof (E0 Hal) as E.
  destruct (qbuf s) as [|i r] eqn:Hb; [|discriminate Hn].
  rewrite app_nil_r in A.
  assert (Hd : length (qdelivered s) = qtaken s) by (rewrite A, seq_length; reflexivity).
  destruct (Nat.eqb_spec (qbs (qc s)) 1) as [Hbs|Hbs].
  - destruct (qpull1 (qc s) (qtaken s)) as [[i|u]|] eqn:Hp; try discriminate Hn.
    apply qpull1_none in Hp. lia.
  - pose proof (qslice_empty (qc s) (qbs (qc s)) (qtaken s)) as Hs.
    destruct (qslice (qc s) (qbs (qc s)) (qtaken s)) as [[l t] rz]. cbn [fst snd] in Hs.
    destruct rz; [discriminate Hn|]. destruct l as [|i l']; [|discriminate Hn].
    cbn [length] in E. specialize (Hs ltac:(lia) eq_refl eq_refl). lia.
Qed.

Lemma qnext_task_raise s u : snd (qnext_task s) = Some (inr u) -> qifail (qc s) <> None.
Proof.
  unfold qnext_task. destruct (qbuf s) as [|i r]; [|discriminate].
  destruct (Nat.eqb (qbs (qc s)) 1).
  - destruct (qpull1 (qc s) (qtaken s)) as [[i|u']|] eqn:Hp; try discriminate.
    intros _. eapply qpull1_raise; exact Hp.
  - pose proof (qslice_raise (qc s) (qbs (qc s)) (qtaken s)) as Hs.
    destruct (qslice (qc s) (qbs (qc s)) (qtaken s)) as [[l t] rz]. cbn [snd] in Hs.
    destruct rz; [intros _; apply Hs; reflexivity|]. destruct l; discriminate.
Qed.

(* ---- one resumption of the generator *)
Definition pre_resume (s : qst) : qst :=
  mk_qst (qc s) (qrunning s) (qalive s) false (qtaken s) (qbuf s) (qndisp s) (qncomp s)
         (if qsusp s then S (qcons s) else qcons s) (qiter s) (qabort s) (qexc s) (qdelivered s).

Lemma pre_resume_QI s : QI s -> qalive s = true -> QI (pre_resume s).
Proof. intros [P A B L C D E F G J K] Hal. constructor; cbn; auto. intros H. rewrite Hal in H. discriminate. Qed.

Lemma qresume_spec s : QI s -> qalive s = true ->
  let d := length (qdelivered s) in
  match qresume s with
  | (s1, QYield v) => v = d /\ QI s1 /\ qalive s1 = true /\ qc s1 = qc s /\ qdelivered s1 = qdelivered s ++ [d] /\
                      qtfail (qc s) <> Some d /\ qexc s1 = qexc s /\ qabort s1 = qabort s
  | (s1, QRaise e) => QI s1 /\ qalive s1 = false /\ qc s1 = qc s /\ qdelivered s1 = qdelivered s /\
                      qexc s1 = true /\ qabort s1 = true /\
                      (e = ErrTask d /\ qtfail (qc s) = Some d /\ d < qN (qc s) \/ e = ErrIter /\ qifail (qc s) <> None)
  | (s1, QStop) => QI s1 /\ qalive s1 = false /\ qc s1 = qc s /\ qdelivered s1 = qdelivered s /\
                   qexc s1 = qexc s /\ qabort s1 = qabort s /\ (qifail (qc s) = None -> d = qN (qc s))
  end.
Proof.
  intros HI Hal d. unfold qresume. fold (pre_resume s).
  pose proof (pre_resume_QI s HI Hal) as H0.
  pose proof (qnext_task_QI (pre_resume s) H0 Hal) as Hn.
  pose proof (qnext_task_none (pre_resume s) H0 Hal) as Hnone.
  pose proof (qnext_task_raise (pre_resume s)) as Hraise.
  destruct HI as [P A B L C D E F G J K].
  destruct (qnext_task (pre_resume s)) as [s1 [[i|u]|]]; cbn [snd] in *.
  - destruct Hn as (Ec & Ei & Ed & Es & Ele & Eb & End & Enc & Er & Eit & Eal & Eco & Esu & Eab & Eex).
    change (qdelivered (pre_resume s)) with (qdelivered s) in *. change (qc (pre_resume s)) with (qc s) in *.
    change (qrunning (pre_resume s)) with (qrunning s) in *. change (qiter (pre_resume s)) with (qiter s) in *.
    change (qalive (pre_resume s)) with (qalive s) in *. change (qndisp (pre_resume s)) with (qndisp s) in *.
    change (qncomp (pre_resume s)) with (qncomp s) in *. change (qexc (pre_resume s)) with (qexc s) in *.
    change (qabort (pre_resume s)) with (qabort s) in *. fold d in Ei.
    assert (Hlen : S d + length (qbuf s1) = qtaken s1).
    { apply (f_equal (@length nat)) in Es. rewrite !app_length, seq_length in Es. cbn [length] in Es. fold d in Es. lia. }
    destruct (match qtfail (qc s) with Some j => j =? i | None => false end) eqn:Htf.
    + (* the task raises *)
      split; [|split; [reflexivity|split; [exact Ec|split; [exact Ed|split; [apply orb_true_r|split; [apply orb_true_r|]]]]]].
      * constructor; cbn; auto; try discriminate.
        -- rewrite Ed. exact P.
        -- rewrite Ec. exact Ele.
        -- rewrite Ed, Ec. fold d. lia.
        -- rewrite Ed, Enc. exact D.
        -- rewrite Ed. fold d. lia.
        -- intros H. rewrite orb_true_r in H. discriminate H.
      * left. destruct (qtfail (qc s)) as [j|]; [|discriminate]. apply Nat.eqb_eq in Htf. subst j. rewrite Ei. split; [reflexivity|split; [reflexivity|lia]].
    + (* the task returns *)
      split; [exact Ei|]. split; [|split; [reflexivity|split; [exact Ec|split; [cbn; rewrite Ed, Ei; reflexivity|]]]].
      * destruct (F Hal) as [F1 F2].
        constructor; cbn; auto; try discriminate.
        -- rewrite Ed, app_length, seq_app. cbn [length seq]. rewrite <- P. rewrite Ei. fold d. rewrite Nat.add_0_l. reflexivity.
        -- intros _. rewrite Ed. exact Es.
        -- rewrite Ec. exact Ele.
        -- rewrite Ed, Ec, app_length. cbn [length]. fold d. lia.
        -- intros _. rewrite Ed, app_length, End. cbn [length]. rewrite (C Hal). lia.
        -- rewrite Ed, app_length, Enc. cbn [length]. rewrite D. lia.
        -- intros _. rewrite Ec. exact Eb.
        -- intros _. rewrite Er, Eit. split; assumption.
        -- rewrite Ed, app_length. cbn [length]. fold d. lia.
        -- intros _. rewrite Ed, app_length, End. cbn [length]. rewrite (C Hal). lia.
      * split; [|split; [exact Eex|exact Eab]].
        intros Hc. rewrite Hc in Htf. rewrite Ei in Htf. rewrite Nat.eqb_refl in Htf. discriminate.
  - (* the input raises *)
    destruct Hn as (Ec & Ed & Eb & Ep & Ele & End & Enc & Er & Eit & Eal & Eco & Esu & Eab & Eex & Elz & Ele2).
    change (qdelivered (pre_resume s)) with (qdelivered s) in *. change (qc (pre_resume s)) with (qc s) in *.
    change (qncomp (pre_resume s)) with (qncomp s) in *.
    split; [|split; [reflexivity|split; [exact Ec|split; [exact Ed|split; [apply orb_true_r|split; [apply orb_true_r|]]]]]].
    + constructor; cbn; auto; try discriminate.
      * rewrite Ed. exact P.
      * rewrite Ec. exact Ele2.
      * rewrite Ed, Ec. exact Elz.
      * rewrite Ed, Enc. exact D.
      * rewrite Ed. exact Ele.
      * intros H. rewrite orb_true_r in H. discriminate H.
    + right. split; [reflexivity|]. eapply Hraise. reflexivity.
  - (* the input is exhausted *)
    destruct Hn as (Ec & Ed & Eb & Ep & Ele & End & Enc & Er & Eit & Eal & Eco & Esu & Eab & Eex & Elz & Ele2).
    change (qdelivered (pre_resume s)) with (qdelivered s) in *. change (qc (pre_resume s)) with (qc s) in *.
    change (qncomp (pre_resume s)) with (qncomp s) in *. change (qexc (pre_resume s)) with (qexc s) in *.
    change (qabort (pre_resume s)) with (qabort s) in *.
    split; [|split; [reflexivity|split; [exact Ec|split; [exact Ed|split; [cbn; rewrite Eex; apply orb_false_r|split; [cbn; rewrite Eab; apply orb_false_r|]]]]]].
    + constructor; cbn; auto; try discriminate.
      * rewrite Ed. exact P.
      * rewrite Ec. exact Ele2.
      * rewrite Ed, Ec. exact Elz.
      * rewrite Ed, Enc. exact D.
      * rewrite Ed. exact Ele.
      * intros H. rewrite orb_false_r, Eex in H. rewrite Ed, End. change (qndisp (pre_resume s)) with (qndisp s). exact (K H).
    + intros Hif. apply Hnone; [reflexivity | exact Hif].
Qed.

(* ------------------------------------------------------------------ list(output) *)
Definition qexpect (cf : qcfg) (d : nat) : option err * nat :=
  match qtfail cf with
  | Some i => if (d <=? i) && (i <? qN cf) then (Some (ErrTask i), i) else (None, qN cf)
  | None => (None, qN cf)
  end.

Lemma qdelivered_le s : QI s -> qalive s = true -> length (qdelivered s) <= qN (qc s).
Proof.
  intros HI Hal. pose proof (qi_seq s HI Hal) as A. pose proof (qi_le s HI) as B.
  apply (f_equal (@length nat)) in A. rewrite app_length, seq_length in A. lia.
Qed.

Lemma qdrain_spec fuel : forall s, QI s -> qalive s = true -> qifail (qc s) = None ->
  qN (qc s) - length (qdelivered s) < fuel ->
  let r := qdrain fuel s in
  snd r = fst (qexpect (qc s) (length (qdelivered s))) /\
  qdelivered (fst r) = seq 0 (snd (qexpect (qc s) (length (qdelivered s)))) /\
  QI (fst r) /\ qalive (fst r) = false /\ qc (fst r) = qc s /\ (snd r = None -> qexc (fst r) = qexc s).
Proof.
  induction fuel as [|fuel IH]; intros s HI Hal Hif Hf; [lia|].
  cbn [qdrain]. pose proof (qresume_spec s HI Hal) as Hr. cbn zeta in Hr.
  pose proof (qdelivered_le s HI Hal) as Hle.
  destruct (qresume s) as [s1 [v|e|]].
  - destruct Hr as (Ev & HI1 & Hal1 & Ec & Ed & Htf & Hex & Hab).
    pose proof (qdelivered_le s1 HI1 Hal1) as Hle1. rewrite Ed, app_length, Ec in Hle1. cbn [length] in Hle1.
    assert (Hif1 : qifail (qc s1) = None) by (rewrite Ec; exact Hif).
    specialize (IH s1 HI1 Hal1 Hif1). rewrite Ed, app_length, Ec in IH. cbn [length] in IH.
    specialize (IH ltac:(lia)). cbn zeta in IH.
    assert (Hq : qexpect (qc s) (length (qdelivered s) + 1) = qexpect (qc s) (length (qdelivered s))).
    { unfold qexpect. destruct (qtfail (qc s)) as [i|]; [|reflexivity].
      assert (i <> length (qdelivered s)) by (intros ->; apply Htf; reflexivity).
      destruct (Nat.leb_spec (length (qdelivered s) + 1) i), (Nat.leb_spec (length (qdelivered s)) i); try lia; reflexivity. }
    rewrite Hq in IH. destruct IH as (I1 & I2 & I3 & I4 & I5 & I6).
    split; [exact I1|split; [exact I2|split; [exact I3|split; [exact I4|split; [exact I5|]]]]].
    intros Hn. rewrite (I6 Hn). exact Hex.
  - destruct Hr as (HI1 & Hal1 & Ec & Ed & _ & _ & [(-> & Htf & Hlt) | (_ & Hx)]); [|congruence].
    cbn [fst snd]. unfold qexpect. rewrite Htf.
    destruct (Nat.leb_spec (length (qdelivered s)) (length (qdelivered s))); [|lia].
    destruct (Nat.ltb_spec (length (qdelivered s)) (qN (qc s))); [|lia]. cbn [andb fst snd].
    split; [reflexivity|split; [rewrite Ed; apply (qi_pre s HI)|split; [exact HI1|split; [exact Hal1|split; [exact Ec|discriminate]]]]].
  - destruct Hr as (HI1 & Hal1 & Ec & Ed & Hexs & _ & Hn). specialize (Hn Hif).
    cbn [fst snd]. unfold qexpect.
    assert (Hx : match qtfail (qc s) with
                 | Some i => if (length (qdelivered s) <=? i) && (i <? qN (qc s)) then (Some (ErrTask i), i) else (None, qN (qc s))
                 | None => (None, qN (qc s)) end = (None, qN (qc s))).
    { destruct (qtfail (qc s)) as [i|]; [|reflexivity].
      destruct (Nat.leb_spec (length (qdelivered s)) i), (Nat.ltb_spec i (qN (qc s))); try reflexivity. lia. }
    rewrite Hx. cbn [fst snd].
    split; [reflexivity|split; [rewrite Ed, <- Hn; apply (qi_pre s HI)|split; [exact HI1|split; [exact Hal1|split; [exact Ec|intros _; exact Hexs]]]]].
Qed.

(* list(output) always ends within N + 1 resumptions, whatever fails *)
Lemma qdrain_QI fuel : forall s, QI s -> qalive s = true -> QI (fst (qdrain fuel s)).
Proof.
  induction fuel as [|fuel IH]; intros s HI Hal; [exact HI|].
  cbn [qdrain]. pose proof (qresume_spec s HI Hal) as Hr. cbn zeta in Hr.
  destruct (qresume s) as [s1 [v|e|]].
  - destruct Hr as (_ & HI1 & Hal1 & _). apply IH; assumption.
  - destruct Hr as (HI1 & _). exact HI1.
  - destruct Hr as (HI1 & _). exact HI1.
Qed.

Lemma qdrain_ends fuel : forall s, QI s -> qalive s = true -> qN (qc s) - length (qdelivered s) < fuel ->
  qalive (fst (qdrain fuel s)) = false /\ snd (qdrain fuel s) <> Some ErrAttr.
Proof.
  induction fuel as [|fuel IH]; intros s HI Hal Hf; [lia|].
  cbn [qdrain]. pose proof (qresume_spec s HI Hal) as Hr. cbn zeta in Hr.
  pose proof (qdelivered_le s HI Hal) as Hle.
  destruct (qresume s) as [s1 [v|e|]].
  - destruct Hr as (Ev & HI1 & Hal1 & Ec & Ed & Htf & Hex & Hab).
    pose proof (qdelivered_le s1 HI1 Hal1) as Hle1. rewrite Ed, app_length, Ec in Hle1. cbn [length] in Hle1.
    apply IH; try assumption. rewrite Ed, app_length, Ec. cbn [length]. lia.
  - destruct Hr as (HI1 & Hal1 & Ec & Ed & _ & _ & [(-> & _) | (-> & _)]); cbn [fst snd]; split; auto; discriminate.
  - destruct Hr as (HI1 & Hal1 & _). cbn [fst snd]. split; [exact Hal1 | discriminate].
Qed.

(* ------------------------------------------------------------------ every reachable state *)
Lemma qstep_QI s e : QI s -> wf_qev e -> QI (fst (qstep s e)).
Proof.
  intros HI Hwf. destruct e as [cf| |]; cbn [qstep].
  - destruct (qrunning s); [exact HI|]. cbn [wf_qev] in Hwf.
    destruct (qgen cf); [apply qstart_QI; exact Hwf|].
    pose proof (qdrain_QI (S (qN cf)) (qstart cf) (qstart_QI cf Hwf) eq_refl) as H.
    destruct (qdrain (S (qN cf)) (qstart cf)) as [s1 [e|]]; exact H.
  - destruct (qalive s) eqn:Hal; [|exact HI].
    pose proof (qresume_spec s HI Hal) as Hr. cbn zeta in Hr.
    destruct (qresume s) as [s1 [v|e|]]; cbn [fst].
    + destruct Hr as (_ & H & _). exact H.
    + destruct Hr as (H & _). exact H.
    + destruct Hr as (H & _). exact H.
  - destruct (qalive s); [apply qfinish_QI; exact HI | exact HI].
Qed.

Theorem qreach_QI s : qreach s -> QI s.
Proof. induction 1 as [|s e Hr IH Hwf]; [exact qinit_QI | apply qstep_QI; assumption]. Qed.

(* ------------------------------------------------------------------ the statements used by the properties *)
(* C01: with n_jobs resolving to 1, return_as="list" gives exactly the sequential results, every task run once *)
Theorem seq_list_returns_sequential_results s cf : qrunning s = false -> wf_qcfg cf -> qgen cf = false ->
  qifail cf = None -> qtfail cf = None ->
  snd (qstep s (QCall cf)) = [QReturned (seq 0 (qN cf))] /\
  qndisp (fst (qstep s (QCall cf))) = qN cf /\ qncomp (fst (qstep s (QCall cf))) = qN cf /\
  qtaken (fst (qstep s (QCall cf))) = qN cf /\ qrunning (fst (qstep s (QCall cf))) = false.
Proof.
  intros Hr Hwf Hg Hif Htf. cbn [qstep]. rewrite Hr, Hg.
  pose proof (qdrain_spec (S (qN cf)) (qstart cf) (qstart_QI cf Hwf) eq_refl Hif) as H.
  cbn [qstart qc qdelivered length] in H. specialize (H ltac:(lia)). cbn zeta in H.
  unfold qexpect in H. cbn [qc] in H. rewrite Htf in H. cbn [fst snd] in H.
  destruct H as (H1 & H2 & H3 & H4 & H5 & H6).
  pose proof (qdrain_QI (S (qN cf)) (qstart cf) (qstart_QI cf Hwf) eq_refl) as HQ.
  destruct (qdrain (S (qN cf)) (qstart cf)) as [s1 o]. cbn [fst snd] in *. subst o. cbn [fst snd].
  rewrite H2. split; [reflexivity|].
  pose proof (qi_comp s1 HQ) as Hc. rewrite H2, seq_length in Hc.
  destruct (qi_end s1 HQ H4) as (E1 & E2 & E3).
  assert (Hex : qexc s1 = false).
  { (* nothing failed: the flag is still the one of qstart *) exact (H6 eq_refl). }
  pose proof (qi_disp_ok s1 HQ Hex) as Hd. rewrite H2, seq_length in Hd.
  pose proof (qi_dlen s1 HQ) as Hl. rewrite H2, seq_length in Hl. pose proof (qi_le s1 HQ) as Hu. rewrite H5 in Hu. cbn [qstart qc] in Hu.
  repeat split; auto. lia.
Qed.

(* C04: a failing task surfaces as that exception; what was computed before it is the sequential prefix *)
Theorem seq_task_failure_is_raised s cf i : qrunning s = false -> wf_qcfg cf -> qgen cf = false ->
  qifail cf = None -> qtfail cf = Some i -> i < qN cf ->
  snd (qstep s (QCall cf)) = [QRaised (ErrTask i)] /\
  qdelivered (fst (qstep s (QCall cf))) = seq 0 i /\
  qrunning (fst (qstep s (QCall cf))) = false /\ qiter (fst (qstep s (QCall cf))) = false.
Proof.
  intros Hr Hwf Hg Hif Htf Hi. cbn [qstep]. rewrite Hr, Hg.
  pose proof (qdrain_spec (S (qN cf)) (qstart cf) (qstart_QI cf Hwf) eq_refl Hif) as H.
  cbn [qstart qc qdelivered length] in H. specialize (H ltac:(lia)). cbn zeta in H.
  unfold qexpect in H. cbn [qc] in H. rewrite Htf in H.
  destruct (Nat.leb_spec 0 i) as [_|Hx]; [|lia]. destruct (Nat.ltb_spec i (qN cf)) as [_|Hx]; [|lia]. cbn [andb fst snd] in H.
  destruct H as (H1 & H2 & H3 & H4 & H5 & H6).
  destruct (qdrain (S (qN cf)) (qstart cf)) as [s1 o]. cbn [fst snd] in *. subst o. cbn [fst snd].
  destruct (qi_end s1 H3 H4) as (E1 & E2 & E3). auto.
Qed.

(* C04: list(output) always ends (the fuel N + 1 of the model is never exhausted), and leaves the object idle *)
Theorem seq_list_call_terminates s cf : qrunning s = false -> wf_qcfg cf -> qgen cf = false ->
  (exists l, snd (qstep s (QCall cf)) = [QReturned l]) \/
  (exists e, snd (qstep s (QCall cf)) = [QRaised e] /\ e <> ErrAttr) .
Proof.
  intros Hr Hwf Hg. cbn [qstep]. rewrite Hr, Hg.
  pose proof (qdrain_ends (S (qN cf)) (qstart cf) (qstart_QI cf Hwf) eq_refl) as H.
  cbn [qstart qc qdelivered length] in H. specialize (H ltac:(lia)). destruct H as [_ H].
  destruct (qdrain (S (qN cf)) (qstart cf)) as [s1 [e|]]; cbn [fst snd] in *.
  - right. exists e. split; [reflexivity|]. intros ->. apply H. reflexivity.
  - left. eexists. reflexivity.
Qed.

(* C04 / C16: whenever no generator is alive the object is idle, and a call on an idle object does not depend on
   anything that happened before *)
Theorem seq_idle_when_no_generator s : qreach s -> qalive s = false -> qrunning s = false /\ qiter s = false.
Proof. intros Hr Hal. destruct (qi_end s (qreach_QI s Hr) Hal) as (A & B & _). auto. Qed.

Theorem seq_nothing_left_over s cf : qrunning s = false -> qstep s (QCall cf) = qstep qinit (QCall cf).
Proof. intros Hr. cbn [qstep]. rewrite Hr. reflexivity. Qed.

Theorem seq_busy_call_is_refused s cf : qrunning s = true -> qstep s (QCall cf) = (s, [QRaised ErrRuntime]).
Proof. intros Hr. cbn [qstep]. rewrite Hr. reflexivity. Qed.

(* C16 / C01: the generator yields the sequential results in order, one per request *)
Theorem seq_generator_yields_in_order s : qreach s ->
  qdelivered s = seq 0 (length (qdelivered s)) /\
  forall s1 v, qstep s QNext = (s1, [QVal v]) -> v = length (qdelivered s) /\ qdelivered s1 = qdelivered s ++ [v].
Proof.
  intros Hr. pose proof (qreach_QI s Hr) as HI. split; [apply (qi_pre s HI)|].
  intros s1 v. cbn [qstep]. destruct (qalive s) eqn:Hal; [|discriminate].
  pose proof (qresume_spec s HI Hal) as Hs. cbn zeta in Hs.
  destruct (qresume s) as [s2 [w|e|]]; intros H; inversion H; subst.
  destruct Hs as (Ev & _ & _ & _ & Ed & _). subst v. auto.
Qed.

(* C04 on the generator: an exception that comes out of a request is the one of the task that was due, or the
   input's; the generator is then finished and the object idle *)
Theorem seq_generator_failure s s1 e : qreach s -> qstep s QNext = (s1, [QRaised e]) ->
  (e = ErrTask (length (qdelivered s)) /\ qtfail (qc s) = Some (length (qdelivered s)) \/
   e = ErrIter /\ qifail (qc s) <> None) /\
  qalive s1 = false /\ qrunning s1 = false /\ qdelivered s1 = qdelivered s.
Proof.
  intros Hr. pose proof (qreach_QI s Hr) as HI. cbn [qstep]. destruct (qalive s) eqn:Hal; [|discriminate].
  pose proof (qresume_spec s HI Hal) as Hs. cbn zeta in Hs.
  destruct (qresume s) as [s2 [w|e'|]]; intros H; inversion H; subst.
  destruct Hs as (HI1 & Hal1 & Ec & Ed & _ & _ & Hd).
  destruct (qi_end s1 HI1 Hal1) as (E1 & _).
  split; [|auto]. destruct Hd as [(A & B & _)|(A & B)]; [left|right]; auto.
Qed.

(* C09: the input is consumed lazily -- never more than one batch ahead of what was handed out -- and never
   beyond its end; nothing is consumed once the generator has finished *)
Theorem seq_lazy_consumption s : qreach s ->
  qtaken s <= length (qdelivered s) + qbs (qc s) /\ qtaken s <= qN (qc s) /\ length (qdelivered s) <= qtaken s.
Proof. intros Hr. pose proof (qreach_QI s Hr) as HI. split; [apply (qi_lazy s HI)|split; [apply (qi_le s HI)|apply (qi_dlen s HI)]]. Qed.

Theorem seq_finished_generator_is_inert s : qalive s = false ->
  fst (qstep s QNext) = s /\ fst (qstep s QClose) = s.
Proof. intros Hal. cbn [qstep]. rewrite Hal. split; reflexivity. Qed.

(* C16: closing (or dropping) the generator at any point releases the object *)
Theorem seq_close_releases s : qreach s ->
  qrunning (fst (qstep s QClose)) = false /\ qalive (fst (qstep s QClose)) = false /\
  qtaken (fst (qstep s QClose)) = qtaken s.
Proof.
  intros Hr. pose proof (qreach_QI s Hr) as HI. cbn [qstep]. destruct (qalive s) eqn:Hal; cbn [fst qfinish qrunning qalive qtaken].
  - auto.
  - destruct (qi_end s HI Hal) as (A & _). auto.
Qed.

(* non-vacuity: a generator run with a batch size of 2 in which task 3 fails, then a clean call on the same object *)
Definition qdemo_cfg : qcfg := {| qN := 5; qifail := None; qtfail := Some 3; qbs := 2; qgen := true |}.
Definition qdemo_events : list qev :=
  [QCall qdemo_cfg; QNext; QNext; QNext; QNext; QNext;
   QCall {| qN := 3; qifail := None; qtfail := None; qbs := 1; qgen := false |}].
Example qdemo_run : snd (qrun qinit qdemo_events) =
  [[QGen]; [QVal 0]; [QVal 1]; [QVal 2]; [QRaised (ErrTask 3)]; [QStopped]; [QReturned [0; 1; 2]]].
Proof. vm_compute. reflexivity. Qed.
