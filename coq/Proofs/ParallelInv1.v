(* M1 proofs, part 1: reachability, the shape of dispatch_one_batch, the partition invariant
   (every task taken from the input is in exactly one submitted batch or look-ahead batch, in
   order), stop-after-abort, overlap rejection, stale callbacks are no-ops. *)
From Coq Require Import List Bool Arith Lia PeanoNat.
Require Import JV.Model.ParallelCore JV.Proofs.ParallelLemmas.
Import ListNotations.

(* ---------------- well-formed events and reachable states ---------------- *)
Definition wf_cfg (cf : cfg) : Prop :=
  1 <= n_jobs cf /\ match pre cf with PreN n => 1 <= n | PreAll => True end.

Definition wf_ev (e : ev) : Prop :=
  match e with
  | ECall cf _ _ => wf_cfg cf
  | EDispatch b => 1 <= b
  | ERefuse b => 1 <= b
  | ECbFinish _ b => 1 <= b
  | _ => True
  end.

Inductive reach : st -> Prop :=
| reach_init : reach init
| reach_step s e : reach s -> wf_ev e -> reach (fst (step true s e)).

(* ---------------- the shape of dispatch_one_batch ---------------- *)
Definition submit_state (s : st) (taken' : nat) (pl : option nat) (rdy : list (list nat)) (t : list nat) : st :=
  do_submit (upd_dispatch s taken' pl rdy) t.

Inductive dispatch_shape (s : st) (b : nat) (fo : bool) : st -> bool -> Prop :=
| ds_abort : aborting s = true -> dispatch_shape s b fo s false
| ds_ready t r : aborting s = false -> ready s = t :: r ->
    dispatch_shape s b fo (submit_state s (taken s) (pre_left s) r t) true
| ds_iterfail f pl : aborting s = false -> ready s = [] -> ifail s = Some f -> taken s <= f ->
    f - taken s <= N s - taken s ->
    (pl = pre_left s \/ exists g, pl = opt_sub (pre_left s) g) ->
    dispatch_shape s b fo (do_iter_error s f pl) true
| ds_none : aborting s = false -> ready s = [] ->
    (N s <= taken s \/ (fo = false /\ pre_left s = Some 0) \/ b * n_jobs (c s) = 0) ->
    dispatch_shape s b fo s false
| ds_slice k fin t r pl : aborting s = false -> ready s = [] ->
    1 <= k -> k <= N s - taken s -> k <= b * n_jobs (c s) ->
    (fo = false -> (forall p, pre_left s = Some p -> k <= p) /\ pl = opt_sub (pre_left s) k) ->
    (fo = true -> pl = pre_left s) ->
    (k < b * n_jobs (c s) -> k = N s - taken s \/ (fo = false /\ pre_left s = Some k)) ->
    (match ifail s with Some f => taken s + k <= f \/ f < taken s | None => True end) ->
    fin <= Nat.max 1 b ->
    chunks fin (seq (taken s) k) = t :: r ->
    dispatch_shape s b fo (submit_state s (taken s + k) pl r t) true.

Lemma div_le_b k b nj : 1 <= nj -> k <= b * nj -> k / nj <= b.
Proof. intros Hnj Hk. apply Nat.div_le_upper_bound; lia. Qed.

Lemma dispatch_one_batch_shape s b fo :
  1 <= n_jobs (c s) -> 1 <= b ->
  dispatch_shape s b fo (fst (dispatch_one_batch s b fo)) (snd (dispatch_one_batch s b fo)).
Proof.
  intros Hnj Hb. unfold dispatch_one_batch.
  destruct (aborting s) eqn:Hab; [cbn; apply ds_abort; exact Hab|].
  destruct (ready s) as [|t r] eqn:Hr; [|cbn; apply ds_ready; assumption].
  set (nj := n_jobs (c s)) in *. set (big := b * nj).
  set (lim := if fo then big else opt_min big (pre_left s)).
  set (avail := N s - taken s).
  set (calls := if lim <=? avail then lim else avail + 1).
  assert (Hbig : 1 <= big) by (unfold big; nia).
  (* the common "no failure" continuation *)
  assert (Hnofail :
    (match ifail s with Some f => taken s + Nat.min lim avail <= f \/ f < taken s | None => True end) ->
    let k := Nat.min lim avail in
    let fin := if fo && (k <? big) then Nat.max 1 (k / (10 * nj)) else Nat.max 1 (k / nj) in
    dispatch_shape s b fo
      (fst (if k =? 0 then (s, false) else
            match chunks fin (seq (taken s) k) with
            | [] => (s, false)
            | t :: r => (do_submit (upd_dispatch s (taken s + k) (if fo then pre_left s else opt_sub (pre_left s) k) r) t, true)
            end))
      (snd (if k =? 0 then (s, false) else
            match chunks fin (seq (taken s) k) with
            | [] => (s, false)
            | t :: r => (do_submit (upd_dispatch s (taken s + k) (if fo then pre_left s else opt_sub (pre_left s) k) r) t, true)
            end))).
  { intros Hf k fin. destruct (k =? 0) eqn:Hk0.
    - cbn. apply Nat.eqb_eq in Hk0. apply ds_none; try assumption.
      unfold k, lim, avail in Hk0.
      destruct fo.
      + assert (big = 0 \/ N s - taken s = 0) by lia. lia.
      + unfold opt_min in Hk0. destruct (pre_left s) as [p|] eqn:Hp.
        * assert (big = 0 \/ p = 0 \/ N s - taken s = 0) by lia.
          destruct H as [H | [H | H]]; [lia | right; left; split; [reflexivity | subst; reflexivity] | left; lia].
        * assert (big = 0 \/ N s - taken s = 0) by lia. lia.
    - apply Nat.eqb_neq in Hk0.
      destruct (chunks fin (seq (taken s) k)) as [|t r] eqn:Hc.
      + apply chunks_nil_iff in Hc. exfalso. destruct k; [lia | discriminate].
      + cbn [fst snd].
        assert (Hkb : k <= b * nj) by (unfold k, lim; destruct fo; [lia|]; unfold opt_min; destruct (pre_left s); lia).
        assert (A1 : 1 <= k) by lia.
        assert (A2 : k <= N s - taken s) by (unfold k, avail; lia).
        assert (A4 : fo = false -> (forall p, pre_left s = Some p -> k <= p) /\
                      (if fo then pre_left s else opt_sub (pre_left s) k) = opt_sub (pre_left s) k).
        { intros ->. split; [|reflexivity]. intros p Hp. unfold k, lim, opt_min. rewrite Hp. lia. }
        assert (A5 : fo = true -> (if fo then pre_left s else opt_sub (pre_left s) k) = pre_left s).
        { intros ->. reflexivity. }
        assert (A6 : k < b * nj -> k = N s - taken s \/ (fo = false /\ pre_left s = Some k)).
        { intros Hlt. unfold k, lim, avail in *. destruct fo.
          - left. lia.
          - unfold opt_min in *. destruct (pre_left s) as [p|] eqn:Hp; [|left; lia].
            destruct (Nat.le_gt_cases (N s - taken s) (Nat.min big p)); [left; lia|].
            right. split; [reflexivity|]. f_equal. lia. }
        assert (A8 : fin <= Nat.max 1 b).
        { unfold fin. destruct (fo && (k <? big)).
          - assert (k / (10 * nj) <= b) by (apply Nat.div_le_upper_bound; [lia|]; nia). lia.
          - pose proof (div_le_b k b nj Hnj Hkb). lia. }
        exact (ds_slice s b fo k fin t r _ Hab Hr A1 A2 Hkb A4 A5 A6 Hf A8 Hc). }
  destruct (ifail s) as [f|] eqn:Hif.
  - destruct ((taken s <=? f) && (f - taken s <? calls)) eqn:Hc.
    + cbn [fst snd]. apply andb_prop in Hc as [H1 H2]. apply Nat.leb_le in H1. apply Nat.ltb_lt in H2.
      eapply ds_iterfail; try eassumption.
      * unfold calls in H2. destruct (lim <=? avail) eqn:Hla; [apply Nat.leb_le in Hla|]; unfold avail in *; lia.
      * destruct fo; [left; reflexivity | right; eexists; reflexivity].
    + apply Hnofail. apply andb_false_iff in Hc. destruct Hc as [Hc | Hc].
      * right. apply Nat.leb_gt in Hc. exact Hc.
      * apply Nat.ltb_ge in Hc. unfold calls in Hc.
        destruct (lim <=? avail) eqn:Hla.
        -- apply Nat.leb_le in Hla. destruct (Nat.le_gt_cases (taken s) f); [left; lia | right; lia].
        -- apply Nat.leb_gt in Hla. destruct (Nat.le_gt_cases (taken s) f); [left; lia | right; lia].
  - apply Hnofail. exact I.
Qed.

(* ---------------- generic step decomposition ---------------- *)
(* To show that a predicate holds in every reachable state it suffices to show that it is preserved
   by the primitive state transformers the events are made of. *)
Section Preservation.
Variable P : st -> Prop.
Hypothesis P_init : P init.
Hypothesis P_call : forall s cf n f, P s -> wf_cfg cf -> running s = false ->
  (phase s = Idle \/ phase s = Finished) -> P (do_call s cf n f).
Hypothesis P_dispatch : forall s b fo s' r, P s -> 1 <= n_jobs (c s) -> 1 <= b ->
  (fo = false -> phase s = StartFirst \/ phase s = StartLoop) ->
  dispatch_shape s b fo s' r -> P s'.
Definition no_more (s : st) : Prop :=
  aborting s = true \/ (ready s = [] /\ (N s <= taken s \/ pre_left s = Some 0)).
Hypothesis P_start_first : forall s (r : bool), P s -> phase s = StartFirst -> (r = false -> no_more s) ->
  P (set_flags s (if r then orig s else iterating s) (orig s) StartLoop).
Hypothesis P_end_start : forall s, P s -> phase s = StartLoop -> no_more s -> P (end_start s).
Hypothesis P_cb_start : forall s t o, P s -> P (cb_start s t o).
Hypothesis P_cb_close : forall s t k, P s -> nth_error (trk s) t = Some k -> In t (cbmid s) ->
  tk_cid k = cid s -> P (mark_closed (add_comp s (length (tk_tasks k)) (remove_id t (cbmid s))) t).
Hypothesis P_cb_stale : forall s t k, P s -> nth_error (trk s) t = Some k -> In t (cbmid s) ->
  tk_cid k <> cid s -> P (add_comp s 0 (remove_id t (cbmid s))).
Hypothesis P_exhaust : forall s, P s -> orig s = true ->
  (aborting s = true \/ (ready s = [] /\ N s <= taken s)) -> P (set_flags s false false (phase s)).
Hypothesis P_want : forall s, P s -> P (set_want s).
Hypothesis P_close_try : forall s, P s -> phase s = Retrieving -> P (abandon (finalize s Finished true true)).
(* the backend refuses the batch the caller has just registered: the call is aborted from inside _start *)
Hypothesis P_refuse : forall s, P s -> (phase s = StartFirst \/ phase s = StartLoop) -> P (finalize s Finished true true).
Hypothesis P_close_drain : forall s r, P s -> phase s = Draining r -> P (abandon (set_out s (jobs s) (jset s) [] false Finished)).
Hypothesis P_timeout : forall s j, P s -> want s = true -> timeout_target s = Some j -> status_of s j = Pending ->
  P (do_timeout s j).
(* retrieval *)
Hypothesis P_yield : forall s v r, P s -> pend_out s = v :: r ->
  P (deliver (set_out s (jobs s) (jset s) r false (phase s)) v).
Hypothesis P_raise_fast : forall s e, P s -> phase s = Retrieving -> pend_out s = [] -> aborting s = true ->
  first_failed s = Some e -> P (finalize s Finished true true).
Hypothesis P_loop_exit : forall s, P s -> phase s = Retrieving -> pend_out s = [] ->
  (aborting s = true /\ first_failed s = None \/
   aborting s = false /\ iterating s = false /\ n_disp s <= n_comp s) ->
  P (finalize s (Draining (if exception s then [] else jobs s)) (exception s) false).
Hypothesis P_pop_done : forall s j js, P s -> phase s = Retrieving -> pend_out s = [] -> aborting s = false ->
  jobs s = j :: js -> status_of s j = Done ->
  P (set_out s js (remove_id j (jset s)) (tasks_of s j) true Retrieving).
Hypothesis P_pop_failed : forall s j js e, P s -> phase s = Retrieving -> pend_out s = [] -> aborting s = false ->
  jobs s = j :: js -> status_of s j = Failed e ->
  P (finalize (set_out s js (remove_id j (jset s)) [] true Retrieving) Finished true true).
Hypothesis P_drain_end : forall s, P s -> phase s = Draining [] -> pend_out s = [] ->
  P (set_out s (jobs s) (jset s) [] false Finished).
Hypothesis P_drain_pop : forall s j js, P s -> phase s = Draining (j :: js) -> pend_out s = [] ->
  status_of s j = Done -> P (set_out s (jobs s) (jset s) (tasks_of s j) true (Draining js)).
Hypothesis P_drain_bad : forall s j js, P s -> phase s = Draining (j :: js) -> pend_out s = [] ->
  status_of s j <> Done -> P (set_out s (jobs s) (jset s) [] false Finished).

Lemma P_advance : forall fuel s, P s -> P (fst (advance fuel s)).
Proof.
  induction fuel as [|fuel IH]; intros s Hs; cbn [advance]; [exact Hs|].
  destruct (pend_out s) as [|v r] eqn:Hpo; [|cbn [fst]; apply P_yield; assumption].
  destruct (phase s) as [ | | | |rem| ] eqn:Hph; try exact Hs.
  - (* Retrieving *)
    destruct (aborting s) eqn:Hab; cbn [orb].
    + destruct (first_failed s) as [e|] eqn:Hff.
      * cbn [fst]. eapply P_raise_fast; eassumption.
      * apply IH. apply P_loop_exit; try assumption. left. split; assumption.
    + destruct (iterating s) eqn:Hit; cbn [orb].
      * destruct (jobs s) as [|j js] eqn:Hj; [exact Hs|].
        destruct (status_of s j) as [ | |e] eqn:Hst; [exact Hs | |].
        -- apply IH. apply P_pop_done; assumption.
        -- cbn [fst]. eapply P_pop_failed; eassumption.
      * destruct (n_comp s <? n_disp s) eqn:Hlt.
        -- destruct (jobs s) as [|j js] eqn:Hj; [exact Hs|].
           destruct (status_of s j) as [ | |e] eqn:Hst; [exact Hs | |].
           ++ apply IH. apply P_pop_done; assumption.
           ++ cbn [fst]. eapply P_pop_failed; eassumption.
        -- apply IH. apply P_loop_exit; try assumption. right. apply Nat.ltb_ge in Hlt. auto.
  - (* Draining *)
    destruct rem as [|j js].
    + cbn [fst]. apply P_drain_end; assumption.
    + destruct (status_of s j) as [ | |e] eqn:Hst.
      * cbn [fst]. apply (P_drain_bad s j js Hs Hph Hpo). rewrite Hst. discriminate.
      * apply IH. apply P_drain_pop; assumption.
      * cbn [fst]. apply (P_drain_bad s j js Hs Hph Hpo). rewrite Hst. discriminate.
Qed.

Lemma P_try_advance s : P s -> P (fst (try_advance s)).
Proof. intros Hs. unfold try_advance. destruct (want s); [apply P_advance; exact Hs | exact Hs]. Qed.

Lemma P_cb_finish s t b : P s -> 1 <= n_jobs (c s) -> 1 <= b -> P (cb_finish true s t b).
Proof.
  intros Hs Hnj Hb. unfold cb_finish.
  destruct (get_trk s t) as [k|] eqn:Hk; [|exact Hs]. unfold get_trk in Hk.
  destruct (mem_id t (cbmid s)) eqn:Hm; cbn [negb]; [|exact Hs].
  apply mem_id_In in Hm. cbn [andb].
  destruct (Nat.eqb_spec (tk_cid k) (cid s)) as [E|E]; cbn [negb].
  - set (s1 := mark_closed (add_comp s (length (tk_tasks k)) (remove_id t (cbmid s))) t).
    assert (H1 : P s1) by (apply P_cb_close; assumption).
    destruct (orig s1) eqn:Ho; [|exact H1].
    pose proof (dispatch_one_batch_shape s1 b true Hnj Hb) as Hsh.
    destruct (dispatch_one_batch s1 b true) as [s2 r] eqn:Hd. cbn [fst snd] in Hsh.
    assert (H2 : P s2).
    { apply (P_dispatch s1 b true s2 r H1 Hnj Hb); [intros HH; discriminate HH | exact Hsh]. }
    destruct r; [exact H2|].
    inversion Hsh; subst.
    + apply P_exhaust; [exact H2 | exact Ho | left; assumption].
    + apply P_exhaust; [exact H2 | exact Ho |]. right. split; [assumption|].
      match goal with Hx : _ \/ _ \/ _ |- _ => destruct Hx as [Hy | [[Hy _] | Hy]];
        [exact Hy | discriminate Hy | exfalso; change (n_jobs (c s1)) with (n_jobs (c s)) in Hy; nia] end.
  - eapply P_cb_stale; eassumption.
Qed.

Lemma P_step_raw s e : P s -> 1 <= n_jobs (c s) -> wf_ev e -> P (fst (step_raw true s e)).
Proof.
  intros Hs Hnj Hwf. destruct e as [cf n f|b|t o|t b| | | |b]; cbn [step_raw].
  - destruct (running s) eqn:Hr; [exact Hs|].
    destruct (phase s) eqn:Hph; cbn [fst]; try exact Hs; apply P_call; auto.
  - cbn [wf_ev] in Hwf. destruct (phase s) eqn:Hph; try exact Hs.
    + pose proof (dispatch_one_batch_shape s b false Hnj Hwf) as Hsh.
      destruct (dispatch_one_batch s b false) as [s1 r] eqn:Hd. cbn [fst snd] in Hsh.
      assert (H1 : P s1) by (apply (P_dispatch s b false s1 r Hs Hnj Hwf); [intros _; left; exact Hph | exact Hsh]).
      assert (Hph1 : phase s1 = StartFirst) by (inversion Hsh; subst; exact Hph).
      assert (Hnm : r = false -> no_more s1).
      { intros ->. inversion Hsh; subst.
        - left. assumption.
        - right. split; [assumption|].
          match goal with Hx : _ \/ _ \/ _ |- _ => destruct Hx as [Hy | [[_ Hy] | Hy]]; [left; exact Hy | right; exact Hy | exfalso; nia] end. }
      pose proof (P_start_first s1 r H1 Hph1 Hnm) as H2.
      cbn [fst]. destruct (aborting _) eqn:Hab2; [|exact H2].
      apply P_end_start; [exact H2 | reflexivity | left; exact Hab2].
    + pose proof (dispatch_one_batch_shape s b false Hnj Hwf) as Hsh.
      destruct (dispatch_one_batch s b false) as [s1 r] eqn:Hd. cbn [fst snd] in Hsh.
      assert (H1 : P s1) by (apply (P_dispatch s b false s1 r Hs Hnj Hwf); [intros _; right; exact Hph | exact Hsh]).
      assert (Hph1 : phase s1 = StartLoop) by (inversion Hsh; subst; exact Hph).
      destruct r.
      * destruct (aborting s1) eqn:Hab1; cbn [fst]; [apply P_end_start; [exact H1 | exact Hph1 | left; exact Hab1] | exact H1].
      * cbn [fst]. apply P_end_start; [exact H1 | exact Hph1 |]. inversion Hsh; subst.
        -- left. assumption.
        -- right. split; [assumption|].
           match goal with Hx : _ \/ _ \/ _ |- _ => destruct Hx as [Hy | [[_ Hy] | Hy]]; [left; exact Hy | right; exact Hy | exfalso; nia] end.
  - cbn [fst]. apply P_cb_start; exact Hs.
  - cbn [fst]. apply P_cb_finish; assumption.
  - destruct (phase s); cbn [fst]; try exact Hs; apply P_want; exact Hs.
  - destruct (phase s) eqn:Hph; cbn [fst]; try exact Hs.
    + apply P_close_try; assumption.
    + eapply P_close_drain; eassumption.
  - destruct (want s) eqn:Hw; [|exact Hs].
    destruct (timeout_target s) as [j|] eqn:Ht; [|exact Hs].
    destruct (status_of s j) eqn:Hst; cbn [fst]; try exact Hs.
    apply P_timeout; assumption.
  - (* the backend refuses the batch *)
    cbn [wf_ev] in Hwf. destruct (phase s) eqn:Hph; try exact Hs.
    + pose proof (dispatch_one_batch_shape s b false Hnj Hwf) as Hsh.
      destruct (dispatch_one_batch s b false) as [s1 r] eqn:Hd. cbn [fst snd] in Hsh.
      assert (H1 : P s1) by (apply (P_dispatch s b false s1 r Hs Hnj Hwf); [intros _; left; exact Hph | exact Hsh]).
      assert (Hph1 : phase s1 = StartFirst) by (inversion Hsh; subst; exact Hph).
      destruct (r && negb (aborting s1)); [cbn [fst]; apply P_refuse; [exact H1 | left; exact Hph1]|].
      assert (Hnm : r = false -> no_more s1).
      { intros ->. inversion Hsh; subst.
        - left. assumption.
        - right. split; [assumption|].
          match goal with Hx : _ \/ _ \/ _ |- _ => destruct Hx as [Hy | [[_ Hy] | Hy]]; [left; exact Hy | right; exact Hy | exfalso; nia] end. }
      pose proof (P_start_first s1 r H1 Hph1 Hnm) as H2.
      cbn [fst]. destruct (aborting _) eqn:Hab2; [|exact H2].
      apply P_end_start; [exact H2 | reflexivity | left; exact Hab2].
    + pose proof (dispatch_one_batch_shape s b false Hnj Hwf) as Hsh.
      destruct (dispatch_one_batch s b false) as [s1 r] eqn:Hd. cbn [fst snd] in Hsh.
      assert (H1 : P s1) by (apply (P_dispatch s b false s1 r Hs Hnj Hwf); [intros _; right; exact Hph | exact Hsh]).
      assert (Hph1 : phase s1 = StartLoop) by (inversion Hsh; subst; exact Hph).
      destruct (r && negb (aborting s1)); [cbn [fst]; apply P_refuse; [exact H1 | right; exact Hph1]|].
      destruct r.
      * destruct (aborting s1) eqn:Hab1; cbn [fst]; [apply P_end_start; [exact H1 | exact Hph1 | left; exact Hab1] | exact H1].
      * cbn [fst]. apply P_end_start; [exact H1 | exact Hph1 |]. inversion Hsh; subst.
        -- left. assumption.
        -- right. split; [assumption|].
           match goal with Hx : _ \/ _ \/ _ |- _ => destruct Hx as [Hy | [[_ Hy] | Hy]]; [left; exact Hy | right; exact Hy | exfalso; nia] end.
Qed.

Lemma P_step s e : P s -> 1 <= n_jobs (c s) ->
  (1 <= n_jobs (c (fst (step_raw true s e)))) -> wf_ev e -> P (fst (step true s e)).
Proof.
  intros Hs Hnj Hnj' Hwf. unfold step.
  pose proof (P_step_raw s e Hs Hnj Hwf) as H1.
  destruct (step_raw true s e) as [s1 o1]. cbn [fst] in *.
  destruct o1 as [o|]; [exact H1|].
  pose proof (P_try_advance s1 H1) as H2.
  destruct (try_advance s1) as [s2 o2]. exact H2.
Qed.

Hypothesis P_wf : forall s, P s -> 1 <= n_jobs (c s).

Theorem P_reach : forall s, reach s -> P s.
Proof.
  induction 1 as [|s e Hr IH Hwf]; [exact P_init|].
  apply P_step; [exact IH | apply P_wf; exact IH | | exact Hwf].
  apply P_wf. apply P_step_raw; [exact IH | apply P_wf; exact IH | exact Hwf].
Qed.
End Preservation.

(* ---------------- invariant group 1: partition of the input ---------------- *)
Record Inv1 (s : st) : Prop := {
  i_wf : wf_cfg (c s);
  i_part : ifail s = None -> concat (submitted s) ++ concat (ready s) = seq 0 (taken s);
  i_le : taken s <= N s;
  i_ready_ne : Forall (fun t => t <> []) (ready s);
  i_sub_ne : ifail s = None -> Forall (fun t => t <> []) (submitted s)
}.

Ltac frame1 :=
  intros;
  match goal with H : Inv1 _ |- _ => destruct H as [Hwf Hpart Hle Hrne Hsne] end;
  constructor; cbn; auto.

Lemma cb_start_frame1 s t o : Inv1 s -> Inv1 (cb_start s t o).
Proof.
  unfold cb_start. intros H.
  destruct (get_trk s t); [|exact H].
  destruct (negb (mem_id t (inflight s))); [exact H|].
  destruct (negb (tk_cid t0 =? cid s) || aborting s); frame1.
Qed.

Lemma dispatch_shape_inv1 s b fo s' r : Inv1 s -> dispatch_shape s b fo s' r -> Inv1 s'.
Proof.
  intros H Hsh. destruct H as [Hwf Hpart Hle Hrne Hsne].
  inversion Hsh; subst.
  - constructor; assumption.
  - (* from the look-ahead queue *)
    match goal with Hr : ready s = _ |- _ => rewrite Hr in Hrne, Hpart end.
    apply Forall_cons_iff in Hrne as [Ht Hr'].
    constructor; cbn; auto.
    + intros Hi. specialize (Hpart Hi). rewrite concat_app. cbn [concat]. rewrite app_nil_r.
      rewrite <- app_assoc. cbn [concat] in Hpart. exact Hpart.
    + intros Hi. apply Forall_app. split; [auto | constructor; [exact Ht | constructor]].
  - (* iterator failure: ifail is Some *)
    constructor; cbn; auto; try (intros Hi; congruence). lia.
  - constructor; assumption.
  - (* a new slice *)
    match goal with Hr : ready s = [] |- _ => rewrite Hr in Hpart end.
    match goal with Hc : chunks _ _ = _ |- _ => pose proof Hc as Hchunks end.
    assert (Hne : Forall (fun x => x <> []) (t :: r0)).
    { apply Forall_forall. intros x Hx. rewrite <- Hchunks in Hx. eapply chunks_nonempty; exact Hx. }
    apply Forall_cons_iff in Hne as [Ht Hr'].
    constructor; cbn; auto.
    + intros Hi. specialize (Hpart Hi). cbn [concat] in Hpart. rewrite app_nil_r in Hpart.
      rewrite concat_app. cbn [concat]. rewrite app_nil_r. rewrite <- app_assoc.
      change (t ++ concat r0) with (concat (t :: r0)). rewrite <- Hchunks, chunks_concat.
      rewrite Hpart. rewrite <- seq_app. reflexivity.
    + lia.
    + intros Hi. apply Forall_app. split; [auto | constructor; [exact Ht | constructor]].
Qed.

Theorem reach_inv1 : forall s, reach s -> Inv1 s.
Proof.
  apply P_reach; try (frame1; fail).
  - (* init *) constructor; cbn; auto. split; cbn; lia.
  - (* call *) intros s cf n f H Hcf _ _. constructor; cbn; auto. lia.
  - (* dispatch *) intros s b fo s' r H _ _ _ Hsh. eapply dispatch_shape_inv1; eassumption.
  - (* cb_start *) intros. apply cb_start_frame1. assumption.
  - (* wf *) intros s H. destruct H as [[Hn _] _ _ _ _]. exact Hn.
Qed.

(* ---------------- Theorem A: every task taken from the input is submitted or queued exactly once,
   in input order ---------------- *)
Theorem partition_invariant s : reach s -> ifail s = None ->
  concat (submitted s) ++ concat (ready s) = seq 0 (taken s) /\ taken s <= N s.
Proof. intros Hr Hi. destruct (reach_inv1 s Hr) as [_ Hp Hl _ _]. split; auto. Qed.

Corollary submitted_nodup s : reach s -> ifail s = None -> NoDup (concat (submitted s) ++ concat (ready s)).
Proof. intros Hr Hi. destruct (partition_invariant s Hr Hi) as [E _]. rewrite E. apply seq_NoDup. Qed.

(* ---------------- what the consumer side never touches ---------------- *)
Definition dispatch_fields (s : st) :=
  (cid s, c s, N s, ifail s, taken s, pre_left s, ready s, trk s, inflight s, cbmid s,
   n_disp s, n_comp s, (iterating s, orig s, submitted s, closed s)).

Lemma advance_frame fuel s : dispatch_fields (fst (advance fuel s)) = dispatch_fields s.
Proof.
  apply (P_advance (fun s' => dispatch_fields s' = dispatch_fields s)); try reflexivity;
    intros; match goal with H : dispatch_fields _ = _ |- _ => rewrite <- H end; reflexivity.
Qed.

Lemma advance_aborting fuel s : aborting s = true -> aborting (fst (advance fuel s)) = true.
Proof.
  intros Hab.
  apply (P_advance (fun s' => aborting s' = true)); try exact Hab; intros; cbn; auto.
  all: match goal with H : aborting ?x = true |- _ => try rewrite H end; auto.
Qed.

(* ---------------- Theorem B: after the abort flag is set, nothing is taken from the input and
   nothing is submitted, until the next call ---------------- *)
Definition input_fields (s : st) := (taken s, pre_left s, ready s, submitted s, n_disp s, length (trk s)).

Lemma dispatch_aborting s b fo : aborting s = true -> dispatch_one_batch s b fo = (s, false).
Proof. intros H. unfold dispatch_one_batch. rewrite H. reflexivity. Qed.

Lemma cb_start_input s t o : input_fields (cb_start s t o) = input_fields s /\
  (aborting s = true -> aborting (cb_start s t o) = true).
Proof.
  unfold cb_start. destruct (get_trk s t) as [k|] eqn:Hk; [|auto].
  destruct (negb (mem_id t (inflight s))); [auto|].
  destruct (negb (tk_cid k =? cid s) || aborting s) eqn:E; [split; [reflexivity | cbn; auto]|].
  split.
  - unfold input_fields. cbn. destruct (tk_status k); try reflexivity.
    unfold set_status. rewrite Hk. rewrite set_nth_length. reflexivity.
  - cbn. intros Hab. rewrite Hab in E. rewrite orb_true_r in E. discriminate.
Qed.

Theorem stop_after_abort g s e :
  aborting s = true -> (forall cf n f, e <> ECall cf n f) ->
  input_fields (fst (step g s e)) = input_fields s /\ aborting (fst (step g s e)) = true.
Proof.
  intros Hab Hne.
  assert (Hraw : input_fields (fst (step_raw g s e)) = input_fields s /\ aborting (fst (step_raw g s e)) = true).
  { destruct e as [cf n f|b|t o|t b| | | |b]; cbn [step_raw];
      [| | | | | | | destruct (phase s); cbn [fst]; auto; rewrite (dispatch_aborting s b false Hab); cbn; rewrite ?Hab; cbn; auto].
    - exfalso. eapply Hne. reflexivity.
    - destruct (phase s); cbn [fst]; auto; rewrite (dispatch_aborting s b false Hab); cbn; rewrite ?Hab; cbn; auto.
    - cbn [fst]. destruct (cb_start_input s t o) as [H1 H2]. auto.
    - cbn [fst]. unfold cb_finish. destruct (get_trk s t) as [k|]; [|auto].
      destruct (negb (mem_id t (cbmid s))); [auto|].
      destruct (g && negb (tk_cid k =? cid s)); [cbn; auto|].
      set (s1 := mark_closed _ t).
      assert (Hab1 : aborting s1 = true) by exact Hab.
      destruct (orig s1); [|cbn; auto].
      rewrite (dispatch_aborting s1 b true Hab1). cbn. auto.
    - destruct (phase s); cbn; auto.
    - destruct (phase s); cbn; auto. rewrite Hab. auto.
    - destruct (want s); [|auto]. destruct (timeout_target s) as [j|]; [|auto].
      destruct (status_of s j); cbn [fst]; auto. split; [|reflexivity].
      unfold input_fields. cbn. unfold set_status. destruct (get_trk s j); [rewrite set_nth_length|]; reflexivity. }
  unfold step. destruct (step_raw g s e) as [s1 o1]. cbn [fst] in Hraw. destruct Hraw as [H1 H2].
  destruct o1 as [o|]; [cbn; auto|].
  unfold try_advance. destruct (want s1); [|cbn; auto].
  pose proof (advance_frame (adv_fuel s1) s1) as Hf. pose proof (advance_aborting (adv_fuel s1) s1 H2) as Ha.
  destruct (advance (adv_fuel s1) s1) as [s2 o2]. cbn [fst] in *.
  split; [|exact Ha]. rewrite <- H1. unfold input_fields, dispatch_fields in *.
  injection Hf; intros. congruence.
Qed.

(* ---------------- Theorem C: a running Parallel object rejects a second call ---------------- *)
Theorem overlap_rejected g s cf n f :
  running s = true -> step g s (ECall cf n f) = (s, [Raised ErrRuntime]).
Proof. intros H. unfold step. cbn [step_raw]. rewrite H. reflexivity. Qed.

(* ---------------- Theorem D: callbacks of an earlier call are no-ops ---------------- *)
Definition stale (s : st) (t : nat) : Prop :=
  exists k, nth_error (trk s) t = Some k /\ tk_cid k <> cid s.

Definition except_inflight_cbmid (s : st) :=
  (cid s, running s, c s, N s, ifail s, taken s, pre_left s, ready s, trk s, jobs s, jset s,
   (n_disp s, n_comp s, iterating s, aborting s, exception s, orig s, phase s, pend_out s, want s,
    submitted s, delivered s, closed s)).

Theorem stale_callback_noop s t o b :
  stale s t ->
  except_inflight_cbmid (cb_start s t o) = except_inflight_cbmid s /\
  except_inflight_cbmid (cb_finish true s t b) = except_inflight_cbmid s.
Proof.
  intros (k & Hk & Hc). split.
  - unfold cb_start, get_trk. rewrite Hk.
    destruct (negb (mem_id t (inflight s))); [reflexivity|].
    destruct (Nat.eqb_spec (tk_cid k) (cid s)); [contradiction|]. cbn [negb orb]. reflexivity.
  - unfold cb_finish, get_trk. rewrite Hk.
    destruct (negb (mem_id t (cbmid s))); [reflexivity|].
    destruct (Nat.eqb_spec (tk_cid k) (cid s)); [contradiction|]. cbn [negb andb].
    unfold except_inflight_cbmid. cbn. rewrite Nat.add_0_r. reflexivity.
Qed.
