(* Executor-level statements of C10. *)
From Coq Require Import ZArith List Bool Arith Lia.
Require Import JV.Model.LokyExec JV.Proofs.LokyProj JV.Proofs.LokyExec JV.Proofs.LokyExec2.
Import ListNotations.

Definition reachable (e : exec) : Prop := exists mw qc p0 evs, e = run (new_exec mw qc p0) evs.

Lemma reachable_wf : forall e, reachable e -> wf e.
Proof. intros e (mw & qc & p0 & evs & ->). apply run_wf. apply wf_new. Qed.

Lemma reachable_step : forall e ev, reachable e -> reachable (step e ev).
Proof.
  intros e ev (mw & qc & p0 & evs & ->). exists mw, qc, p0, (evs ++ [ev]).
  unfold run. rewrite fold_left_app. reflexivity.
Qed.

(* the manager wakes up with nothing to read but a dead worker's sentinel *)
Definition sees_only_sentinel (e : exec) : Prop :=
  mgr e = AtWait /\ resq e = [] /\ wakeup e = false /\ sentinel_ready e = true.

Lemma fail_all : forall e, reachable e -> sees_only_sentinel e ->
  let e' := step e ManagerWake in
  broken e' = Some TerminatedWorkerError /\ shutdown e' = true /\ mgr e' = Exited /\ pending e' = [] /\ procs e' = [] /\
  (forall id, id < nfut e -> finished (futs e id) = false -> futs e' id = FExc (PoolError TerminatedWorkerError)) /\
  (forall id, finished (futs e id) = true -> futs e' id = futs e id) /\
  (forall id, id < nfut e' -> finished (futs e' id) = true).
Proof.
  intros e R (Hm & Hr & Hw & Hs). cbn zeta. cbn [step]. unfold manager_wake. rewrite Hm, Hr, Hw, Hs.
  pose proof (reachable_wf e R) as W.
  destruct (terminate_broken_spec TerminatedWorkerError e W) as (W' & M & B & S & P & Pr & N & F1 & F2 & F3).
  repeat split; try assumption.
  intros id Hlt. rewrite N in Hlt. destruct (finished (futs e id)) eqn:Hf.
  - rewrite F2; assumption.
  - rewrite F1; [reflexivity | assumption | assumption].
Qed.

(* whenever the manager thread has exited, no future is left unfinished *)
Lemma exit_all_finished : forall e, reachable e -> mgr e = Exited ->
  forall id, id < nfut e -> finished (futs e id) = true.
Proof.
  intros e R Hm id Hlt. destruct (reachable_wf e R) as [H1 H2 H3 H5].
  destruct (H5 Hm) as [_ Hp]. destruct (finished (futs e id)) eqn:Hf; [reflexivity|].
  pose proof (H2 id Hlt Hf) as Hin. rewrite Hp in Hin. destruct Hin.
Qed.

(* and no submission is accepted any more: it raises *)
Lemma exit_submit_raises : forall e, reachable e -> mgr e = Exited ->
  exists x, submit e = (e, SRaise x).
Proof.
  intros e R Hm. destruct (reachable_wf e R) as [H1 H2 H3 H5]. destruct (H5 Hm) as [Hs _].
  unfold submit. destruct (broken e); [eexists; reflexivity|]. rewrite Hs. eexists; reflexivity.
Qed.

(* a finished future keeps its result / exception for ever *)
Lemma results_stable : forall e evs id, reachable e -> id < nfut e -> finished (futs e id) = true ->
  futs (run e evs) id = futs e id.
Proof.
  intros e evs id R Hlt Hf. destruct (run_wf evs e (reachable_wf e R)) as [_ [_ X]]. apply X; assumption.
Qed.

(* ---------------------------------------------------------------- the mid-send hang (F27) *)
Definition midsend_trace : list event := [Submit; Feed; ManagerWake; Feed; Take 0; DieMidSend 0; Feed; ManagerWake].

Definition stuck0 (e : exec) : Prop := mgr e = Stuck /\ futs e 0 = FRunning /\ 1 <= nfut e.

Lemma stuck0_step : forall e ev, stuck0 e -> stuck0 (step e ev).
Proof.
  intros e ev (Hm & Hf & Hn).
  assert (Hsame : forall e', same e e' -> stuck0 e').
  { intros e' (A & B & _ & D & _). unfold stuck0. rewrite A, B, D. auto. }
  destruct ev; cbn [step].
  - unfold submit. destruct (broken e); [split; auto|]. destruct (shutdown e); [split; auto|]. cbn [fst].
    set (e1 := mkExec _ _ _ _ _ _ _ _ _ _ _ _ _ _ _ _ _ _).
    assert (S1 : stuck0 e1).
    { subst e1. unfold stuck0; cbn. split; [assumption|]. split; [rewrite upd_other by lia; assumption | lia]. }
    unfold ensure_running.
    set (e2 := if Nat.eqb (length (procs e1)) (maxw e1) then e1 else adjust_process_count e1).
    assert (S2 : stuck0 e2).
    { subst e2. destruct (Nat.eqb _ _); [exact S1|]. unfold adjust_process_count.
      destruct (spawn_n_frame (maxw e1 - length (procs e1)) e1) as (A & B & _ & D & _).
      destruct S1 as (X & Y & Z). unfold stuck0. rewrite A, B, D. auto. }
    destruct S2 as (X & Y & Z). rewrite X. split; auto.
  - unfold manager_feed. rewrite Hm. split; auto.
  - unfold manager_wake. rewrite Hm. split; auto.
  - apply Hsame, worker_take_same.
  - apply Hsame, worker_send_same.
  - apply Hsame, worker_send_same.
  - apply Hsame, worker_send_garbage_same.
  - apply Hsame, worker_bad_args_same.
  - apply Hsame, worker_retire_same.
  - apply Hsame, worker_die_same.
  - apply Hsame, worker_die_midsend_same.
  - unfold shutdown_flag. set (e1 := set_flags e (broken e) true kill).
    assert (A : futs e1 = futs e /\ nfut e1 = nfut e /\ mgr e1 = mgr e) by (subst e1; pj; repeat split; reflexivity).
    destruct A as (Ef & En & Em). rewrite Em, Hm. unfold stuck0. pj. rewrite Ef, En, Em. auto.
Qed.

Lemma midsend_refuted :
  let e := run (new_exec 2 5 0) midsend_trace in
  reachable e /\ (exists p, wk e p = WDead /\ In p (procs e)) /\
  forall evs, mgr (run e evs) = Stuck /\ futs (run e evs) 0 = FRunning /\ broken (run e evs) = broken e.
Proof.
  cbn zeta. split; [exists 2, 5, 0, midsend_trace; reflexivity|]. split.
  { exists 0. vm_compute. split; [reflexivity | left; reflexivity]. }
  assert (S0 : stuck0 (run (new_exec 2 5 0) midsend_trace)) by (vm_compute; repeat split; lia).
  intros evs. revert S0. generalize (run (new_exec 2 5 0) midsend_trace) as e.
  induction evs as [|ev t IH]; intros e S0.
  - cbn. destruct S0 as (A & B & _). auto.
  - cbn [run fold_left]. fold (run (step e ev) t).
    destruct (IH (step e ev) (stuck0_step e ev S0)) as (A & B & C). repeat split; try assumption.
    rewrite C. clear - S0. destruct S0 as (Hm & _ & _).
    (* broken is only ever written by the manager thread, which is stuck *)
    destruct ev; cbn [step]; try reflexivity.
    + unfold submit. destruct (broken e) eqn:Hb; [cbn; assumption|]. destruct (shutdown e); [cbn; assumption|].
      cbn [fst]. unfold ensure_running.
      match goal with |- context [if ?c then ?a else ?b] => set (e2 := if c then a else b) end.
      assert (Bz : broken e2 = None).
      { subst e2. destruct (Nat.eqb _ _); [reflexivity|]. unfold adjust_process_count.
        match goal with |- context [spawn_n ?n ?x] => destruct (spawn_n_frame n x) as (_ & _ & _ & _ & _ & F & _) end.
        rewrite F. reflexivity. }
      destruct (mgr e2); pj; assumption.
    + unfold manager_feed. rewrite Hm. reflexivity.
    + unfold manager_wake. rewrite Hm. reflexivity.
    + destruct (worker_take_same p e) as (_ & _ & _ & _ & _ & F & _). exact F.
    + destruct (worker_send_same p (fun id => MRes id r) e) as (_ & _ & _ & _ & _ & F & _). exact F.
    + destruct (worker_send_same p (fun id => MErr id c) e) as (_ & _ & _ & _ & _ & F & _). exact F.
    + destruct (worker_send_garbage_same p e) as (_ & _ & _ & _ & _ & F & _). exact F.
    + destruct (worker_bad_args_same p e) as (_ & _ & _ & _ & _ & F & _). exact F.
    + destruct (worker_retire_same p e) as (_ & _ & _ & _ & _ & F & _). exact F.
    + destruct (worker_die_same p e) as (_ & _ & _ & _ & _ & F & _). exact F.
    + destruct (worker_die_midsend_same p e) as (_ & _ & _ & _ & _ & F & _). exact F.
    + unfold shutdown_flag. destruct (mgr (set_flags e (broken e) true kill)); pj; reflexivity.
Qed.

(* ---------------------------------------------------------------- healing *)
(* every pid an executor knows is below its pid counter, so a successor executor created with that
   counter as its first pid shares no process with it *)
Definition pids_below (e : exec) : Prop :=
  (forall p, In p (procs e) -> p < pidc e) /\ (forall p, wk e p <> WNone -> p < pidc e).

(* ------------------------------------------- deaths while the manager thread is busy *)
(* The watch set of wait_result_broken_or_wakeup is rebuilt from ALL of _processes at every wait, dead or
   alive: the sentinel test is level-triggered.  A worker that dies while the manager thread is not in
   wait() (it is un-pickling a result, running callbacks, feeding the call queue) is therefore seen at
   the next wait. *)
Lemma feed_loop_procs : forall n e, procs (feed_loop n e) = procs e /\ wk (feed_loop n e) = wk e.
Proof.
  induction n; intros e; cbn [feed_loop]; [auto|].
  destruct (Nat.leb _ _); [auto|]. destruct (work_ids e); [auto|].
  destruct (memb _ _); [|pj; auto].
  match goal with |- context [feed_loop n ?E] => destruct (IHn E) as [A B]; rewrite A, B end. cbn. auto.
Qed.

Lemma sentinel_level : forall e p, In p (procs e) -> wk e p = WDead -> sentinel_ready e = true.
Proof.
  intros e p Hin Hd. unfold sentinel_ready. apply existsb_exists. exists p. rewrite Hd. auto.
Qed.

Lemma busy_death_noticed : forall e p, In p (procs e) -> is_proc e p = true ->
  sentinel_ready (worker_die p e) = true /\ sentinel_ready (manager_feed (worker_die p e)) = true.
Proof.
  intros e p Hin Hp. unfold worker_die. rewrite Hp.
  set (e1 := set_faulted (set_wk e (upd (wk e) p WDead)) true).
  assert (P1 : procs e1 = procs e) by (subst e1; pj; reflexivity).
  assert (K1 : wk e1 p = WDead) by (subst e1; pj; apply upd_same).
  clearbody e1. split; [apply (sentinel_level e1 p); [rewrite P1|]; assumption|].
  unfold manager_feed. destruct (mgr e1); try (apply (sentinel_level e1 p); [rewrite P1|]; assumption).
  unfold add_call_item_to_queue. destruct (feed_loop_procs (length (work_ids e1)) e1) as [A B].
  destruct (is_crashed _).
  - apply (sentinel_level _ p); [rewrite A, P1 | rewrite B]; assumption.
  - apply (sentinel_level _ p); pj; [rewrite A, P1 | rewrite B]; assumption.
Qed.

(* ------------------------------------------- the submit window and the shutdown lock *)
(* ProcessPoolExecutor.submit holds shutdown_lock from the broken/shutdown check to the registration of the
   work item, and flag_as_broken takes the same lock: this is what makes [Submit] one atomic event of
   the model.  The two halves, for the record: *)
Definition submit_check (e : exec) : option fexc :=
  match broken e with
  | Some b => Some (PoolError b)
  | None => if shutdown e then Some ShutdownExecutorError else None
  end.

Definition submit_register (e : exec) : exec :=
  let id := nfut e in
  ensure_running (mkExec (broken e) (shutdown e) (killw e) (maxw e) (qcap e) (procs e) (wk e) (pidc e)
                         (upd (futs e) id FPending) (S id) (pending e ++ [id]) (work_ids e ++ [id])
                         (running e) (callq e) (resq e) true (mgr e) (faulted e)).

Lemma submit_split : forall e,
  submit e = match submit_check e with Some x => (e, SRaise x) | None => (submit_register e, SOk (nfut e)) end.
Proof. intros e. unfold submit, submit_check, submit_register. destruct (broken e); [|destruct (shutdown e)]; reflexivity. Qed.

(* without the lock the interleaving  check ; terminate_broken ; register  is possible: it leaves a future
   that nobody will ever complete although the manager has exited (contradicting exit_all_finished, which
   holds of the locked code) *)
Definition unlocked_trace_state : exec :=
  let e := run (new_exec 2 5 0) [Submit; Feed; ManagerWake; Feed; Take 0; Result 0 1; ManagerWake; Feed; Die 1] in
  match submit_check e with
  | None => submit_register (step e ManagerWake)
  | Some _ => e
  end.

Lemma unlocked_submit_loses_future :
  mgr unlocked_trace_state = Exited /\ broken unlocked_trace_state = Some TerminatedWorkerError /\
  futs unlocked_trace_state 1 = FPending /\ 1 < nfut unlocked_trace_state.
Proof. vm_compute. repeat split; reflexivity || lia. Qed.

(* ------------------------------------------- stale wait set (finding F28) *)
Lemma manager_wake_watch_current : forall e, manager_wake_watch (procs e) e = manager_wake e.
Proof. intros e. unfold manager_wake_watch, manager_wake, sentinel_ready. reflexivity. Qed.

(* all workers retire (idle time-out), the next submit wakes the manager, which goes back to wait() before the
   new workers exist (watch = []); a new worker takes the task and dies *)
Definition stale_trace : list event :=
  [Submit; Feed; ManagerWake; Feed; Take 0; Result 0 1; ManagerWake; Feed; Retire 0; Retire 1;
   ManagerWake; Feed; ManagerWake; Feed;            (* _processes is empty, manager in wait() *)
   Submit; ManagerWake; Feed;                       (* wake-up handled; sentinel list built before the spawn *)
   Take 2; Die 2].

Lemma stale_watch_refuted :
  let e := run (new_exec 2 5 0) stale_trace in
  reachable e /\ sees_only_sentinel e /\ futs e 1 = FRunning /\
  manager_wake_watch [] e = e /\                                   (* the real manager: still blocked *)
  broken (manager_wake e) = Some TerminatedWorkerError.            (* with the current process set: noticed *)
Proof.
  cbn zeta. split; [exists 2, 5, 0, stale_trace; reflexivity|]. vm_compute. repeat split; reflexivity.
Qed.
