(* M1 proofs, part 6: a registered failure stays visible to the retrieval loop until it is raised. *)
From Coq Require Import List Bool Arith Lia PeanoNat.
Require Import JV.Model.ParallelCore JV.Proofs.ParallelLemmas JV.Proofs.ParallelInv1 JV.Proofs.ParallelTrk
               JV.Proofs.ParallelInv2 JV.Proofs.ParallelFrame2 JV.Proofs.ParallelInv3 JV.Proofs.ParallelInv4.
Import ListNotations.

Definition in_try (ph : phase_t) : Prop := match ph with StartFirst | StartLoop | Retrieving => True | _ => False end.
Definition is_failed (x : status) : Prop := match x with Failed _ => True | _ => False end.

Record Inv5 (s : st) : Prop := {
  f_fail : exception s = true -> in_try (phase s) -> exists t, In t (jobs s) /\ is_failed (status_of s t);
  f_infl_jobs : mode (c s) = Ordered -> in_try (phase s) ->
                forall t, In t (inflight s) -> is_cur s t = true -> In t (jobs s);
  f_infl_notdone : forall t, In t (inflight s) -> is_cur s t = true -> status_of s t <> Done
}.

Definition Inv12345 (s : st) : Prop := Inv1234 s /\ Inv5 s.
Ltac open5 H := destruct H as [Ff Fij Fnd].

Lemma inv5_same s s' : Inv5 s ->
  c s' = c s -> exception s' = exception s -> trk s' = trk s -> cid s' = cid s -> jobs s' = jobs s ->
  inflight s' = inflight s -> (in_try (phase s') -> in_try (phase s)) -> Inv5 s'.
Proof.
  intros H5 Ec Ex Et Ei Ej Einf Eph. open5 H5.
  constructor; unfold is_cur; rewrite ?status_of_fun; rewrite ?Ec, ?Ex, ?Et, ?Ei, ?Ej, ?Einf; auto.
Qed.
Ltac same5 := eapply inv5_same; [eassumption | try reflexivity ..]; cbn; auto.

(* leaving the try block: nothing to show *)
Lemma inv5_out s s' : Inv5 s -> trk s' = trk s -> cid s' = cid s -> inflight s' = inflight s ->
  ~ in_try (phase s') -> Inv5 s'.
Proof.
  intros H5 Et Ei Einf Hn. open5 H5. constructor; unfold is_cur; rewrite ?status_of_fun, ?Et, ?Ei, ?Einf; auto; intros; contradiction.
Qed.

Lemma inv5_call s cf n f : Inv2 s -> Inv5 (do_call s cf n f).
Proof.
  intros H2. pose proof (j_cids s H2) as Hcids.
  assert (Hfresh : curids_of (trk s) (S (cid s)) = []) by (apply curids_of_fresh; exact Hcids).
  assert (Hnocur : forall t, is_cur (do_call s cf n f) t = true -> False).
  { intros t Hc. unfold is_cur in Hc. cbn [trk cid do_call] in Hc.
    assert (Hin : In t (curids_of (trk s) (S (cid s)))) by (apply curids_of_In; exact Hc).
    rewrite Hfresh in Hin. destruct Hin. }
  constructor; cbn [exception do_call]; try discriminate.
  - intros _ _ t _ Hc. destruct (Hnocur t Hc).
  - intros t _ Hc. destruct (Hnocur t Hc).
Qed.

Lemma inv5_submit s tk pl rdy t : Inv2 s -> Inv5 s -> Inv5 (submit_state s tk pl rdy t).
Proof.
  intros H2 H5. open5 H5.
  set (k := {| tk_cid := cid s; tk_tasks := t; tk_status := Pending |}).
  assert (Vjobs := allcur_valid _ _ (j_jobs s H2)).
  assert (Vinf := j_infl s H2). unfold valid in *.
  constructor; unfold is_cur; rewrite ?status_of_fun;
    cbn [c exception trk cid jobs inflight phase submit_state do_submit upd_dispatch]; fold k.
  - intros Hx Hp. destruct (Ff Hx Hp) as (u & Hu & Hf). exists u. split.
    + destruct (is_ordered _); [apply in_or_app; left|]; exact Hu.
    + rewrite Forall_forall in Vjobs. rewrite status_in_app_old by (apply Vjobs; exact Hu). exact Hf.
  - intros Hm Hp u Hu Hc. unfold is_ordered. cbn [c upd_dispatch]. rewrite Hm.
    apply in_app_or in Hu. destruct Hu as [Hu | [<- | []]].
    + apply in_or_app. left. rewrite Forall_forall in Vinf. apply (Fij Hm Hp u Hu).
      unfold is_cur. rewrite <- (cur_of_app_old (trk s) k (cid s) u) by (apply Vinf; exact Hu). exact Hc.
    + apply in_or_app. right. left. reflexivity.
  - intros u Hu Hc. apply in_app_or in Hu. destruct Hu as [Hu | [<- | []]].
    + rewrite Forall_forall in Vinf. rewrite status_in_app_old by (apply Vinf; exact Hu).
      apply (Fnd u Hu). unfold is_cur. rewrite <- (cur_of_app_old (trk s) k (cid s) u) by (apply Vinf; exact Hu). exact Hc.
    + rewrite status_in_app_new. discriminate.
Qed.

Lemma inv5_iter_error s f pl : Inv2 s -> Inv5 s -> Inv5 (do_iter_error s f pl).
Proof.
  intros H2 H5. open5 H5.
  set (k := {| tk_cid := cid s; tk_tasks := []; tk_status := Failed ErrIter |}).
  assert (Vinf := j_infl s H2). unfold valid in *.
  constructor; unfold is_cur; rewrite ?status_of_fun;
    cbn [c exception trk cid jobs inflight phase do_iter_error]; fold k.
  - intros _ _. exists (length (trk s)). split; [apply in_or_app; right; left; reflexivity|].
    rewrite status_in_app_new. exact I.
  - intros Hm Hp u Hu Hc. apply in_or_app. left. rewrite Forall_forall in Vinf. apply (Fij Hm Hp u Hu).
    unfold is_cur. rewrite <- (cur_of_app_old (trk s) k (cid s) u) by (apply Vinf; exact Hu). exact Hc.
  - intros u Hu Hc. rewrite Forall_forall in Vinf. rewrite status_in_app_old by (apply Vinf; exact Hu).
    apply (Fnd u Hu). unfold is_cur. rewrite <- (cur_of_app_old (trk s) k (cid s) u) by (apply Vinf; exact Hu). exact Hc.
Qed.

Lemma inv5_dispatch s b fo s' r : Inv2 s -> Inv5 s -> dispatch_shape s b fo s' r -> Inv5 s'.
Proof.
  intros H2 H5 Hsh. inversion Hsh; subst; try exact H5.
  - apply inv5_submit; assumption.
  - apply inv5_iter_error; assumption.
  - apply inv5_submit; assumption.
Qed.

Lemma inv5_flags s i o ph : Inv5 s -> (in_try ph -> in_try (phase s)) -> Inv5 (set_flags s i o ph).
Proof. intros H5 Hp. same5. Qed.

Lemma inv5_cb_start s t o : Inv2 s -> Inv4 s -> Inv5 s -> Inv5 (cb_start s t o).
Proof.
  intros H2 H4 H5. unfold cb_start.
  destruct (get_trk s t) as [k|] eqn:Hk; [|exact H5]. unfold get_trk in Hk.
  destruct (mem_id t (inflight s)) eqn:Hti; cbn [negb]; [|exact H5]. apply mem_id_In in Hti.
  assert (Hlt : t < length (trk s)) by (apply nth_error_Some; congruence).
  open5 H5.
  destruct (negb (tk_cid k =? cid s) || aborting s) eqn:Hdrop.
  - constructor; unfold is_cur; rewrite ?status_of_fun; cbn [c exception trk cid jobs inflight phase]; auto.
    + intros Hm Hp u Hu Hc. apply In_remove_id in Hu. apply (Fij Hm Hp u (proj1 Hu) Hc).
    + intros u Hu Hc. apply In_remove_id in Hu. apply (Fnd u (proj1 Hu) Hc).
  - apply orb_false_iff in Hdrop as [Hcur Hab]. apply negb_false_iff in Hcur.
    assert (Hct : is_cur s t = true) by (unfold is_cur, cur_of; rewrite Hk; exact Hcur).
    assert (Hxs : exception s = false).
    { destruct (exception s) eqn:E; [|reflexivity]. pose proof (o_exc_ab s H4 E). congruence. }
    assert (Hst : tk_status k = Pending).
    { pose proof (j_infl_pending s H2 Hxs t Hti Hct) as A. unfold status_of, get_trk in A. rewrite Hk in A. exact A. }
    rewrite Hst. cbn [orb].
    constructor; unfold is_cur; rewrite ?status_of_fun; cbn [c exception trk cid jobs inflight phase];
      rewrite ?set_status_eq.
    + rewrite Hxs. cbn [orb]. intros Hx Hp. destruct o as [e|]; [|discriminate]. exists t. split.
      * unfold is_ordered. destruct (mode (c s)) eqn:Hm; cbn [orb].
        -- apply (Fij eq_refl Hp t Hti Hct).
        -- apply in_or_app. right. left. reflexivity.
      * rewrite status_in_set_status_eq by exact Hlt. exact I.
    + intros Hm Hp u Hu Hc. apply In_remove_id in Hu. destruct Hu as [Hu Hne'].
      unfold is_ordered. rewrite Hm. cbn [orb]. rewrite cur_of_set_status in Hc. apply (Fij Hm Hp u Hu Hc).
    + intros u Hu Hc. apply In_remove_id in Hu. destruct Hu as [Hu Hne'].
      rewrite status_in_set_status_neq by congruence. rewrite cur_of_set_status in Hc. apply (Fnd u Hu Hc).
Qed.

Lemma inv5_timeout s j : Inv2 s -> Inv5 s -> timeout_target s = Some j -> Inv5 (do_timeout s j).
Proof.
  intros H2 H5 Ht. open5 H5.
  assert (Hjj : (is_ordered s = true -> In j (jobs s)) /\ is_cur s j = true).
  { unfold timeout_target in Ht. destruct (phase s); try discriminate.
    pose proof (j_jobs s H2) as A. pose proof (j_jset s H2) as B. unfold allcur in *.
    destruct (is_ordered s).
    - destruct (jobs s) as [|j0 js]; [discriminate|]. destruct (status_of s j0); try discriminate.
      injection Ht as <-. split; [intros _; left; reflexivity | inversion A; assumption].
    - destruct (jobs s); [|discriminate]. destruct (jset s) as [|j0 js]; [discriminate|]. cbn in Ht.
      injection Ht as <-. split; [discriminate | inversion B; assumption]. }
  destruct Hjj as [Hjin Hjc]. pose proof (is_cur_lt s j Hjc) as Hlt.
  constructor; unfold is_cur; rewrite ?status_of_fun; cbn [c exception trk cid jobs inflight phase do_timeout];
    rewrite ?set_status_eq.
  - intros _ _. exists j. split.
    + destruct (is_ordered s); [apply Hjin; reflexivity | apply in_or_app; right; left; reflexivity].
    + rewrite status_in_set_status_eq by exact Hlt. exact I.
  - intros Hm Hp u Hu Hc. unfold is_ordered. rewrite Hm. rewrite cur_of_set_status in Hc. apply (Fij Hm Hp u Hu Hc).
  - intros u Hu Hc. rewrite cur_of_set_status in Hc. destruct (Nat.eq_dec j u) as [<-|Hne'].
    + rewrite status_in_set_status_eq by exact Hlt. discriminate.
    + rewrite status_in_set_status_neq by exact Hne'. apply (Fnd u Hu Hc).
Qed.

Lemma inv5_pop_done s j js : Inv4 s -> Inv5 s -> phase s = Retrieving -> aborting s = false ->
  jobs s = j :: js -> status_of s j = Done ->
  Inv5 (set_out s js (remove_id j (jset s)) (tasks_of s j) true Retrieving).
Proof.
  intros H4 H5 Hp Hab Hj Hst. open5 H5.
  assert (Hxs : exception s = false).
  { destruct (exception s) eqn:E; [|reflexivity]. pose proof (o_exc_ab s H4 E). congruence. }
  constructor; unfold is_cur; rewrite ?status_of_fun; cbn [c exception trk cid jobs inflight phase set_out].
  - rewrite Hxs. discriminate.
  - intros Hm _ u Hu Hc. assert (Hin : In u (jobs s)) by (apply (Fij Hm); [rewrite Hp; exact I | exact Hu | exact Hc]).
    rewrite Hj in Hin. destruct Hin as [<- | Hin]; [|exact Hin]. exfalso. apply (Fnd j Hu Hc). exact Hst.
  - exact Fnd.
Qed.

Lemma inv12345_init : Inv12345 init.
Proof.
  split; [exact inv1234_init|]. constructor; cbn; try discriminate; intros; contradiction.
Qed.

Lemma inv12345_call : forall s cf n f, Inv12345 s -> wf_cfg cf -> running s = false ->
  (phase s = Idle \/ phase s = Finished) -> Inv12345 (do_call s cf n f).
Proof.
  intros s cf n f [H H5] Hcf Hr Hp. split; [apply inv1234_call; assumption|].
    destruct H as [[[_ H2] _] _]. apply inv5_call. exact H2.
Qed.

Lemma inv12345_start_first : forall s b s1 r, Inv12345 s -> 1 <= n_jobs (c s) -> 1 <= b -> phase s = StartFirst ->
  dispatch_shape s b false s1 r -> Inv12345 (start_first_next s1 r).
Proof.
  intros s b s1 r [H H5] Hnj Hb Hph Hsh. split; [eapply inv1234_start_first; eassumption|].
    destruct H as [[[_ H2] _] _]. pose proof (inv5_dispatch _ _ _ _ _ H2 H5 Hsh) as H5'.
    pose proof (dispatch_shape_phase _ _ _ _ _ Hsh) as Hp1. rewrite Hph in Hp1.
    unfold start_first_next.
    assert (Hf : Inv5 (set_flags s1 (if r then orig s1 else iterating s1) (orig s1) StartLoop))
      by (apply inv5_flags; [exact H5' | rewrite Hp1; auto]).
    destruct (aborting _); [|exact Hf]. unfold end_start. apply inv5_flags; [exact Hf | cbn; auto].
Qed.

Lemma inv12345_start_loop : forall s b s1 r, Inv12345 s -> 1 <= n_jobs (c s) -> 1 <= b -> phase s = StartLoop ->
  dispatch_shape s b false s1 r -> Inv12345 (start_loop_next s1 r).
Proof.
  intros s b s1 r [H H5] Hnj Hb Hph Hsh. split; [eapply inv1234_start_loop; eassumption|].
    destruct H as [[[_ H2] _] _]. pose proof (inv5_dispatch _ _ _ _ _ H2 H5 Hsh) as H5'.
    pose proof (dispatch_shape_phase _ _ _ _ _ Hsh) as Hp1. rewrite Hph in Hp1.
    unfold start_loop_next, end_start.
    destruct r; [destruct (aborting s1)|]; try exact H5'; apply inv5_flags; try exact H5'; rewrite Hp1; auto.
Qed.

Lemma inv12345_cb_dispatch : forall s b s' r, Inv12345 s -> 1 <= n_jobs (c s) -> 1 <= b -> orig s = true ->
  closed s <> [] -> dispatch_shape s b true s' r -> Inv12345 s'.
Proof.
  intros s b s' r [H H5] Hnj Hb Ho Hcl Hsh. split; [eapply inv1234_cb_dispatch; eassumption|].
    destruct H as [[[_ H2] _] _]. eapply inv5_dispatch; eassumption.
Qed.

Lemma inv12345_cb_start : forall s t o, Inv12345 s -> Inv12345 (cb_start s t o).
Proof.
  intros s t o [H H5]. split; [apply inv1234_cb_start; exact H|].
    destruct H as [[[_ H2] _] H4]. apply inv5_cb_start; assumption.
Qed.

Lemma inv12345_cb_close : forall s t k, Inv12345 s -> nth_error (trk s) t = Some k -> In t (cbmid s) ->
  tk_cid k = cid s -> Inv12345 (mark_closed (add_comp s (length (tk_tasks k)) (remove_id t (cbmid s))) t).
Proof.
  intros s t k [H H5] Hk Hin Hc. split; [apply inv1234_cb_close; assumption | same5].
Qed.

Lemma inv12345_cb_stale : forall s t k, Inv12345 s -> nth_error (trk s) t = Some k -> In t (cbmid s) ->
  tk_cid k <> cid s -> Inv12345 (add_comp s 0 (remove_id t (cbmid s))).
Proof.
  intros s t k [H H5] Hk Hin Hc. split; [eapply inv1234_cb_stale; eassumption | same5].
Qed.

Lemma inv12345_exhaust : forall s, Inv12345 s -> orig s = true -> closed s <> [] ->
  (aborting s = true \/ (ready s = [] /\ N s <= taken s)) -> Inv12345 (set_flags s false false (phase s)).
Proof.
  intros s [H H5] Ho Hcl Hx. split; [apply inv1234_exhaust; assumption | apply inv5_flags; auto].
Qed.

Lemma inv12345_want : forall s, Inv12345 s -> Inv12345 (set_want s).
Proof.
  intros s [H H5]. split; [apply inv1234_want; exact H | unfold set_want; same5].
Qed.

Lemma inv12345_close_try : forall s, Inv12345 s -> phase s = Retrieving -> Inv12345 (abandon (finalize s Finished true true)).
Proof.
  intros s [H H5] Hp. split; [apply inv1234_close_try; assumption|].
    eapply inv5_out; [exact H5 | reflexivity | reflexivity | reflexivity | cbn; auto].
Qed.

Lemma inv12345_refuse : forall s b s1, Inv12345 s -> 1 <= n_jobs (c s) -> 1 <= b ->
  (phase s = StartFirst \/ phase s = StartLoop) -> dispatch_shape s b false s1 true ->
  Inv12345 (finalize s1 Finished true true).
Proof.
  intros s b s1 [H H5] Hnj Hb Hph Hsh. split; [eapply inv1234_refuse; eassumption|].
  destruct H as [[[_ H2] _] _]. pose proof (inv5_dispatch _ _ _ _ _ H2 H5 Hsh) as H5'.
  eapply inv5_out; [exact H5' | reflexivity | reflexivity | reflexivity | cbn; auto].
Qed.

Lemma inv12345_close_drain : forall s r, Inv12345 s -> phase s = Draining r -> Inv12345 (abandon (set_out s (jobs s) (jset s) [] false Finished)).
Proof.
  intros s r [H H5] Hp. split; [eapply inv1234_close_drain; eassumption|].
    eapply inv5_out; [exact H5 | reflexivity | reflexivity | reflexivity | cbn; auto].
Qed.

Lemma inv12345_timeout : forall s j, Inv12345 s -> want s = true -> timeout_target s = Some j -> status_of s j = Pending ->
  Inv12345 (do_timeout s j).
Proof.
  intros s j [H H5] Hw Ht Hst. split; [apply inv1234_timeout; assumption|].
    destruct H as [[[_ H2] _] _]. apply inv5_timeout; assumption.
Qed.

Lemma inv12345_yield : forall s v r, Inv12345 s -> pend_out s = v :: r ->
  Inv12345 (deliver (set_out s (jobs s) (jset s) r false (phase s)) v).
Proof.
  intros s v r [H H5] Hp. split; [eapply inv1234_yield; eassumption | same5].
Qed.

Lemma inv12345_raise_fast : forall s e, Inv12345 s -> phase s = Retrieving -> pend_out s = [] -> aborting s = true ->
  first_failed s = Some e -> Inv12345 (finalize s Finished true true).
Proof.
  intros s e [H H5] Hp Hpo Hab Hff. split; [eapply inv1234_raise_fast; eassumption|].
    eapply inv5_out; [exact H5 | reflexivity | reflexivity | reflexivity | cbn; auto].
Qed.

Lemma inv12345_loop_exit : forall s, Inv12345 s -> phase s = Retrieving -> pend_out s = [] ->
  (aborting s = true /\ first_failed s = None \/
   aborting s = false /\ iterating s = false /\ n_disp s <= n_comp s) ->
  Inv12345 (finalize s (Draining (if exception s then [] else jobs s)) (exception s) false).
Proof.
  intros s [H H5] Hp Hpo Hc. split; [apply inv1234_loop_exit; assumption|].
    eapply inv5_out; [exact H5 | reflexivity | reflexivity | reflexivity | cbn; auto].
Qed.

Lemma inv12345_pop_done : forall s j js, Inv12345 s -> phase s = Retrieving -> pend_out s = [] -> aborting s = false ->
  jobs s = j :: js -> status_of s j = Done ->
  Inv12345 (set_out s js (remove_id j (jset s)) (tasks_of s j) true Retrieving).
Proof.
  intros s j js [H H5] Hp Hpo Hab Hj Hst. split; [eapply inv1234_pop_done; eassumption|].
    destruct H as [_ H4]. apply inv5_pop_done; assumption.
Qed.

Lemma inv12345_pop_failed : forall s j js e, Inv12345 s -> phase s = Retrieving -> pend_out s = [] -> aborting s = false ->
  jobs s = j :: js -> status_of s j = Failed e ->
  Inv12345 (finalize (set_out s js (remove_id j (jset s)) [] true Retrieving) Finished true true).
Proof.
  intros s j js e [H H5] Hp Hpo Hab Hj Hst. split; [eapply inv1234_pop_failed; eassumption|].
    eapply inv5_out; [exact H5 | reflexivity | reflexivity | reflexivity | cbn; auto].
Qed.

Lemma inv12345_drain_end : forall s, Inv12345 s -> phase s = Draining [] -> pend_out s = [] ->
  Inv12345 (set_out s (jobs s) (jset s) [] false Finished).
Proof.
  intros s [H H5] Hp Hpo. split; [apply inv1234_drain_end; assumption|].
    eapply inv5_out; [exact H5 | reflexivity | reflexivity | reflexivity | cbn; auto].
Qed.

Lemma inv12345_drain_pop : forall s j js, Inv12345 s -> phase s = Draining (j :: js) -> pend_out s = [] ->
  status_of s j = Done -> Inv12345 (set_out s (jobs s) (jset s) (tasks_of s j) true (Draining js)).
Proof.
  intros s j js [H H5] Hp Hpo Hst. split; [eapply inv1234_drain_pop; eassumption|].
    eapply inv5_out; [exact H5 | reflexivity | reflexivity | reflexivity | cbn; auto].
Qed.

Lemma inv12345_drain_bad : forall s j js, Inv12345 s -> phase s = Draining (j :: js) -> pend_out s = [] ->
  status_of s j <> Done -> Inv12345 (set_out s (jobs s) (jset s) [] false Finished).
Proof.
  intros s j js [H H5] Hp Hpo Hst. split; [eapply inv1234_drain_bad; eassumption|].
    eapply inv5_out; [exact H5 | reflexivity | reflexivity | reflexivity | cbn; auto].
Qed.

Lemma inv12345_wf : forall s, Inv12345 s -> 1 <= n_jobs (c s).
Proof.
  intros s [H _]. apply inv1234_wf. exact H.
Qed.

Theorem reach_inv12345 : forall s, reach s -> Inv12345 s.
Proof.
  apply (ParallelFrame2.P_reach Inv12345).
  - exact inv12345_init.
  - exact inv12345_call.
  - exact inv12345_start_first.
  - exact inv12345_start_loop.
  - exact inv12345_cb_dispatch.
  - exact inv12345_cb_start.
  - exact inv12345_cb_close.
  - exact inv12345_cb_stale.
  - exact inv12345_exhaust.
  - exact inv12345_want.
  - exact inv12345_close_try.
  - intros s b s1 H Hnj Hb Hph Hsh. eapply inv12345_refuse; eauto.
  - intros s b s1 H Hnj Hb Hph Hsh. eapply inv12345_refuse; eauto.
  - exact inv12345_close_drain.
  - exact inv12345_timeout.
  - exact inv12345_yield.
  - exact inv12345_raise_fast.
  - exact inv12345_loop_exit.
  - exact inv12345_pop_done.
  - exact inv12345_pop_failed.
  - exact inv12345_drain_end.
  - exact inv12345_drain_pop.
  - exact inv12345_drain_bad.
  - exact inv12345_wf.
Qed.

(* ---------------- a registered failure is what the caller gets ---------------- *)
Lemma first_failed_exists s : (exists t, In t (jobs s) /\ is_failed (status_of s t)) ->
  exists e t, first_failed s = Some e /\ In t (jobs s) /\ status_of s t = Failed e.
Proof.
  unfold first_failed. induction (jobs s) as [|j js IH]; intros (t & Hin & Hf); [destruct Hin|].
  cbn [fold_right]. destruct (status_of s j) as [ | |e] eqn:Hs.
  - destruct Hin as [<- | Hin]; [rewrite Hs in Hf; destruct Hf|].
    destruct (IH (ex_intro _ t (conj Hin Hf))) as (e & t' & A & B & C). exists e, t'. auto using in_cons.
  - destruct Hin as [<- | Hin]; [rewrite Hs in Hf; destruct Hf|].
    destruct (IH (ex_intro _ t (conj Hin Hf))) as (e & t' & A & B & C). exists e, t'. auto using in_cons.
  - exists e, j. split; [reflexivity | split; [left; reflexivity | exact Hs]].
Qed.

Theorem failure_is_raised s : reach s -> exception s = true -> phase s = Retrieving -> pend_out s = [] ->
  want s = true ->
  exists e t, snd (try_advance s) = Some (Raised e) /\ In t (jobs s) /\ status_of s t = Failed e.
Proof.
  intros Hr Hx Hp Hpo Hw. destruct (reach_inv12345 s Hr) as [[_ H4] H5].
  pose proof (o_exc_ab s H4 Hx) as Hab.
  assert (Hit : in_try (phase s)) by (rewrite Hp; exact I).
  destruct (first_failed_exists s (f_fail s H5 Hx Hit)) as (e & t & Hff & Hin & Hst).
  exists e, t. split; [|split; assumption].
  unfold try_advance. rewrite Hw. unfold adv_fuel. cbn [Nat.add advance]. rewrite Hpo, Hp, Hab. cbn [orb].
  rewrite Hff. reflexivity.
Qed.

(* buffered values of an already retrieved batch may still be yielded, but the call never ends normally *)
Theorem no_normal_end_after_failure s : reach s -> exception s = true -> in_try (phase s) ->
  snd (try_advance s) <> Some Stop.
Proof.
  intros Hr Hx Hit. destruct (reach_inv12345 s Hr) as [[_ H4] H5].
  pose proof (o_exc_ab s H4 Hx) as Hab.
  unfold try_advance. destruct (want s); [|discriminate].
  unfold adv_fuel. cbn [Nat.add advance].
  destruct (pend_out s) as [|v r]; [|discriminate].
  destruct (phase s) eqn:Hp; try destruct Hit; try discriminate.
  rewrite Hab. cbn [orb].
  destruct (first_failed_exists s (f_fail s H5 Hx ltac:(rewrite Hp; exact I))) as (e & t & Hff & _).
  rewrite Hff. discriminate.
Qed.
