From Coq Require Import ZArith Bool Lia List ZifyBool.
Require Import JV.Model.AutoBatch.
Local Open Scope Z_scope.

Lemma compute_batch_size_pos old sp ideal : 1 <= old -> 1 <= fst (compute_batch_size old sp ideal).
Proof. intros H. unfold compute_batch_size. cbn [fst]. destruct sp; [lia | destruct (2 <=? old); lia | lia]. Qed.

Theorem run_sizes_pos : forall steps old, 1 <= old -> Forall (fun b => 1 <= b) (run_sizes old steps).
Proof.
  induction steps as [|[sp ideal] rest IH]; intros old H; cbn [run_sizes]; constructor.
  - apply compute_batch_size_pos. exact H.
  - apply IH. apply compute_batch_size_pos. exact H.
Qed.

(* growth is at most a doubling per adjustment: batch sizes do not explode *)
Lemma compute_batch_size_le_double old sp ideal : 1 <= old -> sp <> TooSlow ->
  fst (compute_batch_size old sp ideal) <= 2 * old.
Proof. intros H Hs. unfold compute_batch_size. cbn [fst]. destruct sp; [lia | contradiction | lia]. Qed.
