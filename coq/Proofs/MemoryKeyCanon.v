(* Composition of M2 and M3, part 3: the canonical dict of a Python binding has the shape the bridge needs, and
   its key sequence depends on the signature only. *)
From Coq Require Import ZArith List Bool Lia.
Require Import JV.Base.PyPrelude JV.Base.SortBy.
Require Import JV.Model.FilterArgs JV.Proofs.FilterArgsBase JV.Proofs.FilterArgsCanon.
Require JV.Proofs.MemoryKeyBridge.
Import ListNotations.
Open Scope Z_scope.

Module B := JV.Proofs.MemoryKeyBridge.

Definition named_keys (p : param) : list key := if is_named (pkind p) then [KName (pname p)] else [].
Definition kw_keys (p : param) : list key := match pkind p with VarKw => [KStarStar] | _ => [] end.
Definition star_keys (p : param) : list key := match pkind p with VarPos => [KStar] | _ => [] end.
Definition canon_keys (s : sig) : list key := flat_map named_keys s ++ flat_map kw_keys s ++ flat_map star_keys s.

Lemma canon_keys_spec : forall s b, Forall2 typed s b -> map fst (canon s b) = canon_keys s.
Proof.
  intros s b H. unfold canon, canon_keys. rewrite !map_app. f_equal; [|f_equal].
  - induction H as [|p e s b [_ Ht] _ IH]; [reflexivity|]. cbn [combine flat_map]. rewrite map_app, IH. f_equal.
    unfold canon_named, named_keys. cbn [fst snd]. destruct (is_named (pkind p)); reflexivity.
  - induction H as [|p e s b [_ Ht] _ IH]; [reflexivity|]. cbn [combine flat_map]. rewrite map_app, IH. f_equal.
    unfold canon_kw, kw_keys. cbn [fst snd]. destruct (pkind p), (snd e); try contradiction; reflexivity.
  - induction H as [|p e s b [_ Ht] _ IH]; [reflexivity|]. cbn [combine flat_map]. rewrite map_app, IH. f_equal.
    unfold canon_star, star_keys. cbn [fst snd]. destruct (pkind p); reflexivity.
Qed.

Lemma canon_shaped : forall s b, Forall2 typed s b -> B.shaped (canon s b).
Proof.
  intros s b H. unfold B.shaped, canon. rewrite !Forall_app. split; [|split].
  - induction H as [|p e s b [_ Ht] _ IH]; [constructor|]. cbn [combine flat_map]. apply Forall_app. split; [|exact IH].
    unfold canon_named. cbn [fst snd]. destruct (pkind p) eqn:Ek; cbn; try constructor; try constructor;
      unfold B.shaped_entry; cbn [fst snd]; destruct (snd e); try contradiction; exact I.
  - induction H as [|p e s b [_ Ht] _ IH]; [constructor|]. cbn [combine flat_map]. apply Forall_app. split; [|exact IH].
    unfold canon_kw. cbn [fst snd]. destruct (pkind p); try constructor. destruct (snd e); try constructor; try constructor.
    unfold B.shaped_entry. cbn [fst snd]. apply sort_by_sorted.
  - induction H as [|p e s b [_ Ht] _ IH]; [constructor|]. cbn [combine flat_map]. apply Forall_app. split; [|exact IH].
    unfold canon_star. cbn [fst snd]. destruct (pkind p) eqn:Ek; try constructor; try constructor.
    unfold B.shaped_entry. cbn [fst snd]. destruct (snd e); try contradiction; exact I.
Qed.

Lemma map_fst_filter {A Bt} (g : A -> bool) (l : list (A * Bt)) :
  map fst (filter (fun kv => g (fst kv)) l) = filter g (map fst l).
Proof. induction l as [|[k v] t IH]; cbn; [reflexivity|]. destruct (g k); cbn; rewrite IH; reflexivity. Qed.

Lemma Forall_filter {A} (P : A -> Prop) f l : Forall P l -> Forall P (filter f l).
Proof. intros H. rewrite Forall_forall in *. intros x Hx. apply filter_In in Hx. apply H. tauto. Qed.
