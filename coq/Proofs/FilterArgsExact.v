(* The converse of Proofs/FilterArgs.agree_partial: OUTSIDE the fragment the statement-by-statement model of
   filter_args never returns the canonical dict of Python's binding (when the defaults of the signature are
   pairwise distinct values, so that "the wrong default" is visibly wrong).  Together: an exact
   characterisation (iff) of the calls on which the current code is right. *)
From Coq Require Import ZArith List Bool Lia.
Require Import JV.Base.PyPrelude JV.Model.FilterArgs JV.Proofs.FilterArgsBase JV.Proofs.FilterArgs
               JV.Proofs.FilterArgsIgnore JV.Proofs.FilterArgsCanon.
Import ListNotations.
Open Scope Z_scope.

(* ------------------------------------------------------------------ dict facts *)
Lemma dget_dset_other k k' v d : key_eqb k' k = false -> dget k (dset k' v d) = dget k d.
Proof.
  intros Hne. induction d as [|[k2 v2] t IH]; cbn [dset dget].
  - rewrite Hne. reflexivity.
  - destruct (key_eqb k2 k') eqn:E; cbn [dget].
    + apply key_eqb_eq in E. subst k2. rewrite Hne. reflexivity.
    + rewrite IH. reflexivity.
Qed.

Lemma dget_dset_same k v d : dget k (dset k v d) = Some v.
Proof.
  induction d as [|[k2 v2] t IH]; cbn [dset dget].
  - rewrite key_eqb_refl. reflexivity.
  - destruct (key_eqb k2 k) eqn:E; cbn [dget]; rewrite E; [reflexivity | exact IH].
Qed.

Lemma dset_keys_incl k v d x : In x (map fst (dset k v d)) -> x = k \/ In x (map fst d).
Proof.
  induction d as [|[k2 v2] t IH]; cbn [dset map fst In].
  - intros [H | []]. left. symmetry. exact H.
  - destruct (key_eqb k2 k); cbn [map fst In]; intros [H | H]; try tauto; destruct (IH H); tauto.
Qed.

Lemma KName_neq n m : n <> m -> key_eqb (KName n) (KName m) = false.
Proof. intros H. apply key_eqb_neq. intros [= E]. exact (H E). Qed.

(* ------------------------------------------------------------------ what one iteration assigns *)
Section Loop.
Variables (args : list value) (kw : list (name * value)) (kwonly : list name)
          (defaults : list value) (nlen : Z).

Definition step_value (idx : Z) (nm : name) : option value :=
  if idx <? len args then
    if negb (name_mem nm kwonly)
    then match py_index args idx with Ok v => Some v | Raise _ => None end
    else None
  else match kw_lookup nm kw with
       | Some v => Some v
       | None => match py_index defaults (idx - nlen) with Ok v => Some v | Raise _ => None end
       end.

Lemma named_step_value idx nm d d' :
  named_step args kw kwonly defaults nlen idx nm d = Ok d' ->
  exists v, step_value idx nm = Some v /\ d' = dset (KName nm) (VOne v) d.
Proof.
  unfold named_step, step_value. destruct (idx <? len args).
  - destruct (negb (name_mem nm kwonly)); [|discriminate]. destruct (py_index args idx) as [v|e]; [|discriminate].
    cbn [bind]. intros [= <-]. eauto.
  - destruct (kw_lookup nm kw) as [v|]; [intros [= <-]; eauto|].
    destruct (py_index defaults (idx - nlen)) as [v|e]; [intros [= <-]; eauto|]. destruct e; discriminate.
Qed.

Lemma named_loop_get : forall names i d d',
  named_loop args kw kwonly defaults nlen names i d = Ok d' -> NoDup names ->
  (forall j nm, nth_error names j = Some nm ->
     exists v, step_value (i + Z.of_nat j) nm = Some v /\ dget (KName nm) d' = Some (VOne v))
  /\ (forall k, (forall nm, In nm names -> k <> KName nm) -> dget k d' = dget k d)
  /\ (forall k, In k (map fst d') -> In k (map fst d) \/ exists nm, In nm names /\ k = KName nm).
Proof.
  induction names as [|nm t IH]; intros i d d' H Hnd; cbn [named_loop] in H.
  - injection H as <-. repeat split.
    + intros [|j] nm' Hj; discriminate.
    + intros k Hk. left. exact Hk.
  - destruct (named_step args kw kwonly defaults nlen i nm d) as [d1|e] eqn:Es; [|discriminate]. cbn [bind] in H.
    apply NoDup_cons_iff in Hnd. destruct Hnd as [Hnot Hnd].
    destruct (named_step_value _ _ _ _ Es) as (v & Hv & ->).
    destruct (IH _ _ _ H Hnd) as (G1 & G2 & G3). repeat split.
    + intros [|j] nm' Hj.
      * cbn in Hj. injection Hj as <-. exists v. rewrite Z.add_0_r. split; [exact Hv|].
        rewrite G2 by (intros n Hn [= E]; subst; exact (Hnot Hn)). apply dget_dset_same.
      * cbn [nth_error] in Hj. destruct (G1 _ _ Hj) as (v' & Hv' & Hg). exists v'. split; [|exact Hg].
        replace (i + Z.of_nat (S j)) with (i + 1 + Z.of_nat j) by lia. exact Hv'.
    + intros k Hk. rewrite G2 by (intros n Hn; apply Hk; right; exact Hn).
      apply dget_dset_other. apply key_eqb_neq. intros E. apply (Hk nm (or_introl eq_refl)). symmetry. exact E.
    + intros k Hk. destruct (G3 _ Hk) as [Hk' | (n & Hn & ->)].
      * destruct (dset_keys_incl _ _ _ _ Hk') as [-> | Hk'']; [right; exists nm; split; [left|]; reflexivity | left; exact Hk''].
      * right. exists n. split; [right; exact Hn | reflexivity].
Qed.
End Loop.

Lemma kw_loop_other varkw : forall items d vk d' vk',
  kw_loop varkw items d vk = Ok (d', vk') ->
  map fst d' = map fst d
  /\ forall k, (forall n v, In (n, v) items -> k <> KName n) -> dget k d' = dget k d.
Proof.
  induction items as [|[n v] t IH]; intros d vk d' vk' H; cbn [kw_loop] in H.
  - injection H as <- _. split; reflexivity.
  - destruct (dmem (KName n) d) eqn:E.
    + destruct (IH _ _ _ _ H) as [K1 K2]. split.
      * rewrite K1. apply dset_keys. exact E.
      * intros k Hk. rewrite K2 by (intros n' v' Hin; apply (Hk n' v'); right; exact Hin).
        apply dget_dset_other. apply key_eqb_neq. intros E'. apply (Hk n v (or_introl eq_refl)). symmetry. exact E'.
    + destruct varkw; [|discriminate]. destruct (IH _ _ _ _ H) as [K1 K2]. split; [exact K1|].
      intros k Hk. apply K2. intros n' v' Hin. apply (Hk n' v'). right. exact Hin.
Qed.

(* ------------------------------------------------------------------ the whole function, for a plain function *)
Lemma model_inversion s c d : filter_args_model s [] None c = Ok d ->
  let names := keywordable_names s in
  exists d1,
    named_loop (cpos c) (ckw c) (kwonly_names s) (flat_map dflt s) (len names) names 0 [] = Ok d1
    /\ (forall n, ~ In n (map fst (ckw c)) -> dget (KName n) d = dget (KName n) d1)
    /\ (forall k, In k (map fst d) -> k = KStar \/ k = KStarStar \/ In k (map fst d1)).
Proof.
  rewrite fa_unfold. cbv zeta. destruct (scan_sig_spec s) as (Hn & Hd & Hk & _ & _). rewrite Hn, Hd, Hk.
  intros H.
  match type of H with bind ?X _ = _ => destruct X as [d1|e] eqn:E1; [|discriminate] end. cbn [bind] in H.
  exists d1. split; [reflexivity|]. unfold fa_tail in H.
  match type of H with bind ?X _ = _ => destruct X as [[d2 vk]|e] eqn:E2; [|discriminate] end.
  cbn [bind fst snd ignore_loop] in H. injection H as <-.
  destruct (kw_loop_other _ _ _ _ _ _ E2) as [K1 K2]. split.
  - intros n Hn'. rewrite <- (K2 (KName n)).
    + destruct (sc_varkw (scan_sig s)), (sc_varargs (scan_sig s)); rewrite ?dget_dset_other by reflexivity; reflexivity.
    + intros n' v' Hin [= ->]. apply Hn'. change n' with (fst (n', v')). apply in_map.
      eapply Permutation.Permutation_in; [apply SortBy.sort_by_perm | exact Hin].
  - intros k Hk'. rewrite <- K1.
    destruct (sc_varkw (scan_sig s)), (sc_varargs (scan_sig s)); repeat (apply dset_keys_incl in Hk'; destruct Hk' as [-> | Hk']);
      tauto.
Qed.

(* ------------------------------------------------------------------ case 1: a positional-only parameter *)
Lemma named_entries_has_key s b : Forall2 typed s b ->
  forall p, In p s -> is_named (pkind p) = true -> In (KName (pname p)) (map fst (named_entries s b)).
Proof.
  induction 1 as [|q e s b [Hn Ht] _ IH]; intros p Hp Hnm; [destruct Hp|].
  destruct e as [n a]. rewrite named_entries_cons, map_app, in_app_iff. destruct Hp as [-> | Hp].
  - left. rewrite Hnm. left. reflexivity.
  - right. apply IH; assumption.
Qed.

Lemma posonly_never_agrees s c b :
  wf_sig s -> has_kind PosOnly s = true -> py_bind s c = Some b ->
  filter_args_model s [] None c <> Ok (canon s b).
Proof.
  intros Hwf Hpo Hb Hm. destruct (wf_sig_parts _ Hwf) as (_ & _ & Hnd).
  unfold has_kind in Hpo. apply existsb_exists in Hpo. destruct Hpo as (p & Hp & Kp).
  assert (K : pkind p = PosOnly) by (destruct (pkind p); try discriminate; reflexivity).
  destruct (model_inversion _ _ _ Hm) as (d1 & H1 & _ & Hkeys). cbv zeta in H1.
  apply named_loop_get in H1.
  2:{ unfold keywordable_names. clear -Hnd. induction s as [|q s IH]; cbn [filter map]; [constructor|].
      cbn [map] in Hnd. apply NoDup_cons_iff in Hnd. destruct Hnd as [Hq Hs]. destruct (is_keywordable (pkind q)); [|apply IH; exact Hs].
      cbn [map]. constructor; [|apply IH; exact Hs]. intros Hin. apply Hq. rewrite in_map_iff in *.
      destruct Hin as (x & E & Hx). apply filter_In in Hx. exists x. split; [exact E | apply Hx]. }
  destruct H1 as (_ & _ & G3).
  assert (Hin : In (KName (pname p)) (map fst (canon s b))).
  { rewrite canon_split, map_app, in_app_iff. left. apply named_entries_has_key; [eapply py_bind_typed; exact Hb | exact Hp |].
    rewrite K. reflexivity. }
  destruct (Hkeys _ Hin) as [E | [E | Hin1]]; try discriminate.
  destruct (G3 _ Hin1) as [[] | (n & Hn & [= E])].
  unfold keywordable_names in Hn. rewrite in_map_iff in Hn. destruct Hn as (q & Eq & Hq). apply filter_In in Hq.
  destruct Hq as [Hq Kq]. assert (q = p) by (eapply NoDup_map_inj; [exact Hnd | exact Hq | exact Hp | congruence]).
  subst q. rewrite K in Kq. discriminate.
Qed.

(* ------------------------------------------------------------------ case 2: *args + keyword-only + surplus positionals *)
Definition isPK (p : param) : bool := kind_eqb (pkind p) PosOrKw.
Definition isKO (p : param) : bool := kind_eqb (pkind p) KwOnly.

Lemma no_pk_after_kwonly t : kinds_ordered 4 t = true -> filter isPK t = [].
Proof.
  intros H. apply ko_forall in H. induction H as [|p t Hp _ IH]; [reflexivity|]. cbn [filter].
  unfold isPK at 1. unfold rank_ok in Hp. destruct (pkind p); cbn in Hp |- *; try lia; exact IH.
Qed.

Lemma kparams_split s : forall r, kinds_ordered r s = true -> kparams s = filter isPK s ++ filter isKO s.
Proof.
  induction s as [|p t IH]; intros r H; [reflexivity|]. destruct (ko_step _ _ _ H) as [_ Ht].
  unfold kparams in *. cbn [filter]. unfold kwb at 1, isPK at 1, isKO at 1.
  destruct (pkind p) eqn:K; cbn [is_keywordable kind_eqb kind_rank Nat.eqb] in *.
  - exact (IH _ Ht).
  - rewrite (IH _ Ht). reflexivity.
  - exact (IH _ Ht).
  - rewrite (IH _ Ht). rewrite (no_pk_after_kwonly _ Ht). reflexivity.
  - apply ko_after_varkw in Ht. subst t. reflexivity.
Qed.

Lemma varargs_kwonly_never_ok s c d :
  wf_sig s -> has_kind KwOnly s = true -> (count_kind PosOrKw s < length (cpos c))%nat ->
  filter_args_model s [] None c <> Ok d.
Proof.
  intros Hwf Hko Hlt Hm. destruct (wf_sig_parts _ Hwf) as (Hord & _ & Hnd).
  destruct (model_inversion _ _ _ Hm) as (d1 & H1 & _ & _). cbv zeta in H1.
  assert (Hndk : NoDup (keywordable_names s)).
  { unfold keywordable_names. clear -Hnd. induction s as [|q s IH]; cbn [filter map]; [constructor|].
    cbn [map] in Hnd. apply NoDup_cons_iff in Hnd. destruct Hnd as [Hq Hs]. destruct (is_keywordable (pkind q)); [|apply IH; exact Hs].
    cbn [map]. constructor; [|apply IH; exact Hs]. intros Hin. apply Hq. rewrite in_map_iff in *.
    destruct Hin as (x & E & Hx). apply filter_In in Hx. exists x. split; [exact E | apply Hx]. }
  apply named_loop_get in H1; [|exact Hndk]. destruct H1 as (G1 & _ & _).
  (* the first keyword-only name sits at index #positional-or-keyword *)
  assert (Hex : exists p, In p s /\ isKO p = true /\ nth_error (keywordable_names s) (count_kind PosOrKw s) = Some (pname p)).
  { rewrite keywordable_names_kparams, (kparams_split _ _ Hord), map_app.
    assert (Hne : exists p rest, filter isKO s = p :: rest).
    { unfold has_kind in Hko. apply existsb_exists in Hko. destruct Hko as (p & Hp & Kp).
      destruct (filter isKO s) as [|p0 rest] eqn:E; [|eauto]. exfalso.
      assert (Hin : In p (filter isKO s)) by (apply filter_In; split; assumption). rewrite E in Hin. exact Hin. }
    destruct Hne as (p & rest & E). exists p.
    assert (Hin : In p (filter isKO s)) by (rewrite E; left; reflexivity). apply filter_In in Hin.
    split; [apply Hin|]. split; [apply Hin|].
    rewrite nth_error_app2 by (rewrite map_length; unfold count_kind, isPK; lia).
    rewrite map_length. unfold count_kind, isPK. rewrite Nat.sub_diag, E. reflexivity. }
  destruct Hex as (p & Hp & Kp & Hnth). destruct (G1 _ _ Hnth) as (v & Hv & _).
  unfold step_value in Hv. rewrite Z.add_0_l in Hv. unfold len in Hv at 1.
  destruct (Z.of_nat (count_kind PosOrKw s) <? Z.of_nat (length (cpos c))) eqn:E; [|lia].
  rewrite (kwonly_mem _ _ Hnd Hp) in Hv. unfold isKO in Kp. rewrite Kp in Hv. discriminate.
Qed.

(* ------------------------------------------------------------------ case 3: a default found at the wrong index *)
Lemma dr_false_split kw : forall l n, defaults_reachable kw l n = false ->
  exists pre p post, l = pre ++ p :: post /\ (n <= length pre)%nat /\ kw_mem (pname p) kw = false
                     /\ has_default p = true /\ forallb has_default post = false.
Proof.
  induction l as [|q t IH]; intros n H; [discriminate|]. cbn [defaults_reachable] in H.
  apply andb_false_iff in H. destruct H as [H | H].
  - apply orb_false_iff in H. destruct H as [H H4]. apply orb_false_iff in H. destruct H as [H H3].
    apply orb_false_iff in H. destruct H as [H1 H2]. exists [], q, t. repeat split; try assumption.
    + apply Nat.ltb_ge in H1. cbn. lia.
    + apply negb_false_iff in H3. exact H3.
  - destruct (IH _ H) as (pre & p & post & -> & Hn & G). exists (q :: pre), p, post. repeat split; try apply G.
    cbn [length]. lia.
Qed.

Lemma py_index_neg_in_prefix {A} (a : list A) x b m v :
  len b < m -> py_index (a ++ x :: b) (- (1 + m)) = Ok v -> In v a.
Proof.
  intros Hm. unfold py_index. rewrite len_app, len_cons. pose proof (len_nonneg a). pose proof (len_nonneg b).
  destruct (- (1 + m) <? 0) eqn:E1; [|lia].
  set (j := len a + (1 + len b) + - (1 + m)).
  destruct ((j <? 0) || (len a + (1 + len b) <=? j)) eqn:E2; [discriminate|].
  destruct (nth_error (a ++ x :: b) (Z.to_nat j)) as [w|] eqn:En; [|discriminate]. intros [= <-].
  assert (Hj : (Z.to_nat j < length a)%nat) by (unfold len in *; subst j; lia).
  rewrite nth_error_app1 in En by exact Hj. eapply nth_error_In. exact En.
Qed.

Lemma flat_dflt_short post : forallb has_default post = false -> len (flat_map dflt post) < len post.
Proof.
  induction post as [|p t IH]; [discriminate|]. cbn [forallb flat_map]. intros H. rewrite len_app, len_cons.
  assert (Hle : forall l, len (flat_map dflt l) <= len l).
  { induction l as [|q l IHl]; [reflexivity|]. cbn [flat_map]. rewrite len_app, len_cons. unfold dflt at 1.
    destruct (pdefault q); cbn [len length]; unfold len in *; cbn [length]; lia. }
  apply andb_false_iff in H. destruct H as [H | H].
  - unfold has_default in H. unfold dflt at 1. destruct (pdefault p); [discriminate|]. specialize (Hle t). unfold len in *. cbn [length]. lia.
  - specialize (IH H). unfold dflt at 1. destruct (pdefault p); unfold len in *; cbn [length]; lia.
Qed.

Lemma bind_go_omitted kw sur : forall ps pos b pre p post dp,
  bind_go kw sur ps pos = Some b -> kparams ps = pre ++ p :: post -> (length pos <= length pre)%nat ->
  kw_lookup (pname p) kw = None -> pdefault p = Some dp ->
  In (KName (pname p), VOne dp) (named_entries ps b).
Proof.
  induction ps as [|q t IH]; intros pos b pre p post dp Hb Hk Hlen Hl Hd.
  - destruct pre; discriminate.
  - assert (Hby : by_keyword kw p = Some (VOne dp)) by (unfold by_keyword; rewrite Hl, Hd; reflexivity).
    cbn [bind_go] in Hb. unfold kparams in Hk. cbn [filter] in Hk. unfold kwb at 1 in Hk.
    destruct (pkind q) eqn:K; cbn [is_keywordable] in Hk.
    + destruct pos as [|v pos']; apply bcons_some in Hb; destruct Hb as (a & b' & _ & Eb & ->);
        rewrite named_entries_cons, in_app_iff; right; eapply IH; try eassumption; cbn [length] in *; lia.
    + destruct pre as [|q' pre'].
      * cbn [app] in Hk. injection Hk as -> Hk. destruct pos; [|cbn in Hlen; lia].
        apply bcons_some in Hb. destruct Hb as (a & b' & Ea & _ & ->). rewrite Hby in Ea. injection Ea as <-.
        rewrite named_entries_cons, K. left. reflexivity.
      * cbn [app] in Hk. injection Hk as _ Hk. destruct pos as [|v pos'].
        -- apply bcons_some in Hb. destruct Hb as (a & b' & _ & Eb & ->).
           rewrite named_entries_cons, in_app_iff. right. eapply IH; try eassumption; cbn; lia.
        -- destruct (kw_mem (pname q) kw); [discriminate|]. apply bcons_some in Hb. destruct Hb as (a & b' & _ & Eb & ->).
           rewrite named_entries_cons, in_app_iff. right. eapply IH; try eassumption; cbn [length] in *; lia.
    + apply bcons_some in Hb. destruct Hb as (a & b' & _ & Eb & ->).
      rewrite named_entries_cons, in_app_iff. right. eapply IH; try eassumption; cbn; lia.
    + destruct pos as [|v pos']; [|discriminate]. destruct pre as [|q' pre'].
      * cbn [app] in Hk. injection Hk as -> Hk.
        apply bcons_some in Hb. destruct Hb as (a & b' & Ea & _ & ->). rewrite Hby in Ea. injection Ea as <-.
        rewrite named_entries_cons, K. left. reflexivity.
      * cbn [app] in Hk. injection Hk as _ Hk. apply bcons_some in Hb. destruct Hb as (a & b' & _ & Eb & ->).
        rewrite named_entries_cons, in_app_iff. right. eapply IH; try eassumption; cbn; lia.
    + destruct pos as [|v pos']; [|discriminate]. apply bcons_some in Hb. destruct Hb as (a & b' & _ & Eb & ->).
      rewrite named_entries_cons, in_app_iff. right. eapply IH; try eassumption; cbn; lia.
Qed.

Lemma wrong_default_never_agrees s c b :
  wf_sig s -> wf_call c -> has_kind PosOnly s = false -> NoDup (flat_map dflt s) ->
  defaults_reachable (ckw c) (kparams s) (length (cpos c)) = false ->
  py_bind s c = Some b ->
  filter_args_model s [] None c <> Ok (canon s b).
Proof.
  intros Hwf Hwc Hpo Hdd Hdr Hb Hm. destruct (wf_sig_parts _ Hwf) as (Hord & Hdw & Hnd).
  destruct (dr_false_split _ _ _ Hdr) as (pre & p & post & Hk & Hn & Hkm & Hhd & Hpost).
  unfold has_default in Hhd. destruct (pdefault p) as [dp|] eqn:Ed; [|discriminate].
  assert (Hl : kw_lookup (pname p) (ckw c) = None) by (apply kw_mem_false; exact Hkm).
  (* Python's side: p gets its own default *)
  assert (Hcanon : dget (KName (pname p)) (canon s b) = Some (VOne dp)).
  { apply In_dget; [eapply model_nodup_keys; exact Hm|]. rewrite canon_split, in_app_iff. left.
    unfold py_bind in Hb. destruct (has_kind VarKw s || is_nil (surplus_kw s (ckw c))); [|discriminate].
    eapply bind_go_omitted; eassumption. }
  (* the code's side *)
  destruct (model_inversion _ _ _ Hm) as (d1 & H1 & Hget & _). cbv zeta in H1.
  assert (Hndk : NoDup (keywordable_names s)).
  { unfold keywordable_names. clear -Hnd. induction s as [|q s IH]; cbn [filter map]; [constructor|].
    cbn [map] in Hnd. apply NoDup_cons_iff in Hnd. destruct Hnd as [Hq Hs]. destruct (is_keywordable (pkind q)); [|apply IH; exact Hs].
    cbn [map]. constructor; [|apply IH; exact Hs]. intros Hin. apply Hq. rewrite in_map_iff in *.
    destruct Hin as (x & E & Hx). apply filter_In in Hx. exists x. split; [exact E | apply Hx]. }
  apply named_loop_get in H1; [|exact Hndk]. destruct H1 as (G1 & _ & _).
  assert (Hnth : nth_error (keywordable_names s) (length pre) = Some (pname p)).
  { rewrite keywordable_names_kparams, Hk, map_app. rewrite nth_error_app2 by (rewrite map_length; lia).
    rewrite map_length, Nat.sub_diag. reflexivity. }
  destruct (G1 _ _ Hnth) as (v & Hv & Hg).
  rewrite <- Hget in Hg by (apply kw_lookup_None; exact Hl). rewrite Hcanon in Hg. injection Hg as <-.
  unfold step_value in Hv. rewrite Z.add_0_l in Hv. unfold len in Hv at 1.
  destruct (Z.of_nat (length pre) <? Z.of_nat (length (cpos c))) eqn:E; [lia|]. rewrite Hl in Hv.
  rewrite (defaults_no_var _ _ Hdw Hpo) in Hv, Hdd. rewrite Hk in Hv, Hdd. rewrite flat_map_app in Hv, Hdd.
  cbn [flat_map] in Hv, Hdd. unfold dflt at 2 in Hv. unfold dflt at 2 in Hdd. rewrite Ed in Hv, Hdd. cbn [app] in Hv, Hdd.
  replace (Z.of_nat (length pre) - len (keywordable_names s)) with (- (1 + len post)) in Hv.
  2:{ rewrite keywordable_names_kparams, Hk. unfold len. rewrite map_length, app_length. cbn [length]. lia. }
  destruct (py_index (flat_map dflt pre ++ dp :: flat_map dflt post) (- (1 + len post))) as [w|e] eqn:Ei; [|discriminate].
  injection Hv as ->. apply py_index_neg_in_prefix in Ei; [|apply flat_dflt_short; exact Hpost].
  apply NoDup_remove_2 in Hdd. apply Hdd. apply in_app_iff. left. exact Ei.
Qed.

(* ------------------------------------------------------------------ the characterisation *)
Theorem agree_iff : forall s c b,
  wf_sig s -> wf_call c -> NoDup (flat_map dflt s) ->
  py_bind s c = Some b ->
  (filter_args_model s [] None c = Ok (canon s b) <-> in_fragment s c = true).
Proof.
  intros s c b Hwf Hwc Hdd Hb. split; [|intros Hf; apply agree_partial; assumption].
  intros Hm. unfold in_fragment. destruct (has_kind PosOnly s) eqn:Hpo.
  - exfalso. exact (posonly_never_agrees _ _ _ Hwf Hpo Hb Hm).
  - cbn [negb andb].
    destruct (negb (has_kind VarPos s && has_kind KwOnly s) || Nat.leb (length (cpos c)) (count_kind PosOrKw s)) eqn:Hvp.
    + cbn [andb]. destruct (defaults_reachable (ckw c) (filter (fun p => is_keywordable (pkind p)) s) (length (cpos c))) eqn:Hdr;
        [reflexivity|]. exfalso. exact (wrong_default_never_agrees _ _ _ Hwf Hwc Hpo Hdd Hdr Hb Hm).
    + exfalso. apply orb_false_iff in Hvp. destruct Hvp as [H1 H2]. apply negb_false_iff, andb_true_iff in H1.
      apply Nat.leb_gt in H2. exact (varargs_kwonly_never_ok _ _ _ Hwf (proj2 H1) H2 Hm).
Qed.
