(* REGENERATED on every run by harness/gen_c15.py from joblib/_parallel_backends.py
   (get_nested_backend and configure of the backend classes).  Do not edit.  The reading table is in gen_c15.py.
   Raise (OtherError 1) = FallbackToBackend(SequentialBackend(nesting_level=self.nesting_level)). *)
From Coq Require Import ZArith List Bool.
Require Import JV.Base.PyPrelude JV.Model.NJobs JV.Gen.T_njobs.
Import ListNotations.
Open Scope Z_scope.

(* ParallelBackendBase.get_nested_backend (Threading, Loky, Multiprocessing inherit it) *)
Definition base_get_nested_backend (level : Z) : result (bk * option Z) :=
  let nesting_level := (level + (1)) in
  if (nesting_level >? (1)) then (Ok (({| bkind := KSeq; blevel := nesting_level |}, None))) else (Ok (({| bkind := KThr; blevel := nesting_level |}, None))).

(* SequentialBackend.get_nested_backend *)
Definition seq_get_nested_backend (active : (bk * option Z)) : result (bk * option Z) :=
  Ok (active).

(* ParallelBackendBase.configure *)
Definition base_configure (mp_none : bool) (cpus : Z) (daemon : bool) (depth : Z) (main_thread : bool) (level : Z) (n_jobs : Z) : result Z :=
  seq_effective_n_jobs n_jobs.

(* ThreadingBackend.configure *)
Definition thr_configure (mp_none : bool) (cpus : Z) (daemon : bool) (depth : Z) (main_thread : bool) (level : Z) (n_jobs : Z) : result Z :=
  bind (pool_effective_n_jobs mp_none cpus n_jobs) (fun n_jobs =>
  if (n_jobs =? (1)) then (Raise (OtherError 1)) else (Ok (n_jobs))).

(* LokyBackend.configure *)
Definition loky_configure (mp_none : bool) (cpus : Z) (daemon : bool) (depth : Z) (main_thread : bool) (level : Z) (n_jobs : Z) : result Z :=
  bind (loky_effective_n_jobs mp_none cpus daemon depth main_thread level n_jobs) (fun n_jobs =>
  if (n_jobs =? (1)) then (Raise (OtherError 1)) else (Ok (n_jobs))).

(* MultiprocessingBackend.configure *)
Definition mp_configure (mp_none : bool) (cpus : Z) (daemon : bool) (depth : Z) (main_thread : bool) (level : Z) (n_jobs : Z) : result Z :=
  bind (mp_effective_n_jobs mp_none cpus daemon depth main_thread level n_jobs) (fun n_jobs =>
  if (n_jobs =? (1)) then (Raise (OtherError 1)) else (Ok (n_jobs))).

(* number of workers the pool / executor is created with, for the resolved n_jobs:
   ThreadPool(self._n_jobs), get_memmapping_executor(<size>, ...), MemmappingPool(<size>, ...) *)
Definition thr_pool_size (n_jobs : Z) : Z := n_jobs.
Definition loky_pool_size (n_jobs : Z) : Z := n_jobs.
Definition mp_pool_size (n_jobs : Z) : Z := n_jobs.
