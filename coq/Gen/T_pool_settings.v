(* REGENERATED on every run by harness/gen_c17.py.  Do not edit.
   src_temp_folder: joblib/_memmapping_reducer.py (_get_temp_dir): the stores to temp_folder in source order -- arg = the
     temp_folder the pool / executor was given (Parallel's resolved setting), env = JOBLIB_TEMP_FOLDER, shm = /dev/shm when it is
     usable, tmpdir = tempfile.gettempdir(); path normalisation is the identity on these codes.
   src_mp_pool_kwarg / src_loky_executor_kwarg: joblib/_parallel_backends.py (Multiprocessing/LokyBackend.configure): how the
     kwargs carried by the backend OBJECT (obj = self.backend_kwargs[key]) and the kwargs of the call (call = what Parallel passes
     to configure for that key) are merged before the pool / executor is built; None = key absent. *)
From Coq Require Import ZArith List Bool.
Require Import JV.Base.PyPrelude.
Import ListNotations.
Open Scope Z_scope.

(* joblib/pool.py (MemmappingPool.__init__) and joblib/executor.py (get_memmapping_executor): are mmap_mode / max_nbytes handed
   on to get_memmapping_reducers, i.e. do they reach the place where they are USED *)
Definition mp_pool_passes_mmap_mode : bool := true.
Definition mp_pool_passes_max_nbytes : bool := true.
Definition loky_executor_passes_mmap_mode : bool := true.
Definition loky_executor_passes_max_nbytes : bool := true.

(* joblib/executor.py (get_memmapping_executor): does the reuse decision look at temp_folder; is the new
   TemporaryResourcesManager(temp_folder) installed on an executor that is REUSED *)
Definition reuse_key_has_temp_folder : bool := true.
Definition reused_executor_gets_new_manager : bool := false.

Definition src_temp_folder (arg env shm : option Z) (tmpdir : Z) : option Z :=
  let tf := arg in
  let tf := match tf with Some _ => tf | None => env end in
  let tf := match tf with Some _ => tf | None => shm end in
  let tf := match tf with Some _ => tf | None => Some tmpdir end in
  tf.

Definition src_mp_pool_kwarg (obj call : option Z) : option Z := match call with Some v => Some v | None => obj end.
Definition src_loky_executor_kwarg (obj call : option Z) : option Z := match call with Some v => Some v | None => obj end.
